(* C18 proof extension 3, part (1): the POSITIVE half of sat_respects_eqv.
   Semantics.sat (the specification semantics of islaspec.rst) does not see node ids and does not
   see which of the two shapes an epsilon expansion has (parser: A -> (), fuzzer: A -> (("", ()),))
   -- for every formula inside the boolean guard [eqv_guard]:
     * no tree literal (InTree / PTree: formulas that are already instantiated),
     * no quantifier over the empty label "" and no `count` with the empty needle "",
     * match expressions: no node of a prefix tree carries the empty label "" (this is what a
       spelled-out fuzzer-shaped epsilon expansion is; "" is never a grammar symbol of a canonical
       grammar) and bound paths end in leaves of the prefix tree.
   These are the complements of the three refuted classes (ApiComposeEx.v).
   Method: sat t <-> sat (erase t) with the SAME assignment: the positions of erase t are the
   positions of t minus the fuzzer's epsilon children, and those carry the label "". *)
From ISLA Require Import Semantics Grammar GrammarFacts MutateFacts.
From ISLA Require Import Api ApiFacts.
From Coq Require Import Lia.

(* ------------------------------------------------------------------ *)
(* erase and positions                                                 *)
(* ------------------------------------------------------------------ *)
Definition eps_node (t : tree) : bool := is_nt (lbl t) && is_eps_kids (kids t).

Lemma erase_lbl t : lbl (erase t) = lbl t.
Proof. destruct t as [l i o ks]. simpl. destruct (is_nt l && is_eps_kids ks); reflexivity. Qed.

Lemma erase_kids t : kids (erase t) = if eps_node t then [] else map erase (kids t).
Proof. destruct t as [l i o ks]. unfold eps_node. simpl. destruct (is_nt l && is_eps_kids ks); reflexivity. Qed.

Lemma eps_child_inv k : is_eps_child k = true -> lbl k = [] /\ kids k = [].
Proof. destruct k as [[|c l] i [|] [|k ks]]; simpl; intro H; try discriminate. auto. Qed.

Lemma eps_node_inv t : eps_node t = true ->
  exists k, kids t = [k] /\ lbl k = [] /\ kids k = [] /\ lbl t <> [].
Proof.
  unfold eps_node. intro H. apply andb_true_iff in H as [Hn Hk].
  destruct (kids t) as [|k [|k2 r]] eqn:E; simpl in Hk; try discriminate.
  destruct (eps_child_inv k Hk) as [H1 H2]. exists k. repeat split; auto.
  intro Hl. rewrite Hl in Hn. discriminate.
Qed.

Lemma subtree_erase_inv : forall p t s', subtree (erase t) p = Some s' ->
  exists s, subtree t p = Some s /\ erase s = s'.
Proof.
  induction p as [|i p IH]; intros t s' H; simpl in *.
  - inversion H. exists t. auto.
  - rewrite erase_kids in H. destruct (eps_node t).
    + destruct i; discriminate.
    + rewrite nth_error_map in H. destruct (nth_error (kids t) i) as [c|]; [|discriminate].
      simpl in H. apply IH. exact H.
Qed.

Lemma subtree_erase_fwd : forall p t s, subtree t p = Some s -> lbl s <> [] ->
  subtree (erase t) p = Some (erase s).
Proof.
  induction p as [|i p IH]; intros t s H Hl; simpl in *.
  - inversion H. reflexivity.
  - rewrite erase_kids. destruct (eps_node t) eqn:E.
    + exfalso. destruct (eps_node_inv t E) as (k & Hk & Lk & Kk & _). rewrite Hk in H.
      destruct i as [|i]; simpl in H; [|destruct i; discriminate].
      destruct p as [|j p]; simpl in H.
      * inversion H; subst. contradiction.
      * rewrite Kk in H. destruct j; discriminate.
    + rewrite nth_error_map. destruct (nth_error (kids t) i) as [c|]; [|discriminate].
      simpl. apply IH; assumption.
Qed.

(* a position of t that is not a position of erase t is the epsilon child of an erased node *)
Lemma subtree_erase_cases : forall p t s, subtree t p = Some s ->
  subtree (erase t) p = Some (erase s) \/
  exists r sr, p = r ++ [0] /\ subtree t r = Some sr /\ eps_node sr = true /\
               subtree (erase t) r = Some (erase sr).
Proof.
  induction p as [|i p IH]; intros t s H; simpl in *.
  - left. inversion H. reflexivity.
  - destruct (eps_node t) eqn:E.
    + right. destruct (eps_node_inv t E) as (k & Hk & Lk & Kk & _). rewrite Hk in H.
      destruct i as [|i]; simpl in H; [|destruct i; discriminate].
      destruct p as [|j p]; simpl in H; [|rewrite Kk in H; destruct j; discriminate].
      exists [], t. simpl. auto.
    + destruct (nth_error (kids t) i) as [c|] eqn:Ec; [|discriminate].
      destruct (IH c s H) as [H1|(r & sr & -> & Hr & He & Her)].
      * left. rewrite erase_kids, E, nth_error_map, Ec. simpl. exact H1.
      * right. exists (i :: r), sr. simpl. rewrite Ec. repeat split; auto.
        rewrite erase_kids, E, nth_error_map, Ec. simpl. exact Her.
Qed.

Lemma count_lbl_erase nt : nt <> [] -> forall t, count_lbl nt (erase t) = count_lbl nt t.
Proof.
  intros Hnt t. induction t as [l i o ks IH] using tree_ind'.
  simpl erase. destruct (is_nt l && is_eps_kids ks) eqn:E.
  - destruct (eps_node_inv (Node l i o ks) E) as (k & Hk & Lk & Kk & _). simpl in Hk. subst ks.
    destruct k as [lk ik ok kk]. simpl in Lk, Kk. subst lk kk. simpl.
    destruct nt as [|c nt]; [contradiction|]. simpl. lia.
  - simpl. f_equal. rewrite map_map. f_equal.
    clear E. induction IH as [|k ks' Hk Hks IHks]; [reflexivity|]. simpl. rewrite Hk, IHks. reflexivity.
Qed.

(* ------------------------------------------------------------------ *)
(* paths next to an epsilon child                                       *)
(* ------------------------------------------------------------------ *)
Lemma doc_lt_snoc_r : forall r p, doc_lt p (r ++ [0]) -> doc_lt p r.
Proof.
  induction r as [|b r IH]; intros p H; simpl in H.
  - destruct p as [|a p]; [exfalso; exact (doc_lt_nil_l _ H)|].
    apply doc_lt_cons_inv in H as [H|[_ H]]; [lia | exfalso; exact (doc_lt_nil_r _ H)].
  - destruct p as [|a p]; [exfalso; exact (doc_lt_nil_l _ H)|].
    apply doc_lt_cons_inv in H as [H|[-> H]]; [apply doc_lt_head; exact H|].
    apply doc_lt_cons. apply IH. exact H.
Qed.

Lemma doc_lt_snoc_l : forall r q, doc_lt (r ++ [0]) q ->
  doc_lt r q \/ exists j y, q = r ++ S j :: y.
Proof.
  induction r as [|a r IH]; intros q H; simpl in H.
  - destruct q as [|b q]; [exfalso; exact (doc_lt_nil_r _ H)|].
    apply doc_lt_cons_inv in H as [H|[_ H]]; [|exfalso; exact (doc_lt_nil_l _ H)].
    right. destruct b as [|b]; [lia|]. exists b, q. reflexivity.
  - destruct q as [|b q]; [exfalso; exact (doc_lt_nil_r _ H)|].
    apply doc_lt_cons_inv in H as [H|[<- H]]; [left; apply doc_lt_head; exact H|].
    destruct (IH q H) as [H1|(j & y & ->)].
    + left. apply doc_lt_cons. exact H1.
    + right. exists j, y. reflexivity.
Qed.

(* ------------------------------------------------------------------ *)
(* match(t, t', P) of the specification                                 *)
(* ------------------------------------------------------------------ *)
Fixpoint no_eps_lbl (t : tree) : bool :=
  match t with
  | Node l _ _ ks => match l with [] => false | _ => true end && forallb no_eps_lbl ks
  end.

(* every bound path that exists in the prefix tree ends in a leaf of the prefix tree *)
Definition leafyb (t' : tree) (P : list (var * path)) : bool :=
  forallb (fun vp => match subtree t' (snd vp) with Some s => is_leaf s | None => true end) P.
Definition leafy (t' : tree) (P : list (var * path)) : Prop :=
  forall v p s, In (v, p) P -> subtree t' p = Some s -> kids s = [].

Lemma leafyb_spec t' P : leafyb t' P = true -> leafy t' P.
Proof.
  unfold leafyb, leafy. rewrite forallb_forall. intros H v p s Hin Hs.
  specialize (H (v, p) Hin). simpl in H. rewrite Hs in H. apply is_leaf_spec. exact H.
Qed.

Lemma restrict_in P i v r : In (v, r) (restrict P i) <-> In (v, i :: r) P.
Proof.
  unfold restrict. rewrite in_flat_map. split.
  - intros ([w p] & Hin & H). simpl in H. destruct p as [|j p]; [contradiction|].
    destruct (Nat.eqb_spec j i) as [->|]; [|contradiction]. destruct H as [H|[]]. inversion H; subst. exact Hin.
  - intro Hin. exists (v, i :: r). split; [exact Hin|]. simpl. rewrite Nat.eqb_refl. left. reflexivity.
Qed.

Lemma leafy_kid l i o ks P j k : leafy (Node l i o ks) P -> nth_error ks j = Some k -> leafy k (restrict P j).
Proof.
  intros H Hk v p s Hin Hs. apply restrict_in in Hin. apply (H v (j :: p) s Hin). simpl. rewrite Hk. exact Hs.
Qed.

Definition e_go (P : list (var * path)) (here : path) :=
  fix go (ks' ks : list tree) (i : nat) : option (list (var * path)) :=
    match ks', ks with
    | k' :: r', k :: r =>
        match smatch k' k (restrict P i) (here ++ [i]), go r' r (S i) with
        | Some a, Some b => Some (a ++ b)
        | _, _ => None
        end
    | _, _ => Some []
    end.

Definition is_single (P : list (var * path)) : option var :=
  match P with [(v, [])] => Some v | _ => None end.

Lemma is_single_some P v : is_single P = Some v -> P = [(v, [])].
Proof. destruct P as [|[w [|j p]] [|x r]]; simpl; intro H; try discriminate. inversion H. reflexivity. Qed.

Lemma smatch_unf l' i' o' ks' t P here :
  smatch (Node l' i' o' ks') t P here =
  if negb (str_eqb (lbl t) l')
     || (negb (Nat.eqb (length ks') 0) && negb (Nat.eqb (length (kids t)) (length ks')))
  then None
  else match is_single P with
       | Some v => Some [(v, here)]
       | None => e_go P here ks' (kids t) 0
       end.
Proof. destruct P as [|[w [|j p]] [|x r]]; reflexivity. Qed.

Lemma e_go_cons P here k' r' k r i :
  e_go P here (k' :: r') (k :: r) i =
  match smatch k' k (restrict P i) (here ++ [i]), e_go P here r' r (S i) with
  | Some a, Some b => Some (a ++ b)
  | _, _ => None
  end.
Proof. reflexivity. Qed.

Lemma e_go_nil_r P here ks' i : e_go P here ks' [] i = Some [].
Proof. destruct ks'; reflexivity. Qed.

Definition smatch_erase_at (k' : tree) : Prop :=
  forall t P here, no_eps_lbl k' = true -> leafy k' P -> smatch k' (erase t) P here = smatch k' t P here.

Lemma e_go_erase P here : forall ks' ks i,
  Forall smatch_erase_at ks' -> forallb no_eps_lbl ks' = true ->
  (forall j k', nth_error ks' j = Some k' -> leafy k' (restrict P (i + j))) ->
  e_go P here ks' (map erase ks) i = e_go P here ks' ks i.
Proof.
  induction ks' as [|k' r' IH]; intros ks i HF Hn Hl; [reflexivity|].
  destruct ks as [|k r]; [reflexivity|]. simpl map. rewrite !e_go_cons.
  inversion HF as [|? ? Hk' Hr']; subst. simpl in Hn. apply andb_true_iff in Hn as [Hn1 Hn2].
  rewrite (Hk' k (restrict P i) (here ++ [i]) Hn1).
  - rewrite (IH r (S i) Hr' Hn2); [reflexivity|].
    intros j k2 Hj. replace (S i + j) with (i + S j) by lia. apply Hl. exact Hj.
  - replace i with (i + 0) at 1 by lia. apply Hl. reflexivity.
Qed.

Lemma smatch_erase : forall t', smatch_erase_at t'.
Proof.
  induction t' as [l' i' o' ks' IH] using tree_ind'. intros t P here Hn Hl.
  simpl in Hn. apply andb_true_iff in Hn as [Hn1 Hn2].
  rewrite !smatch_unf, erase_lbl, erase_kids.
  destruct (eps_node t) eqn:E.
  - destruct (eps_node_inv t E) as (k & Hk & Lk & Kk & _). rewrite Hk.
    destruct ks' as [|k1 [|k2 r]].
    + simpl. destruct (negb (str_eqb (lbl t) l')); [reflexivity|]. simpl.
      destruct (is_single P); reflexivity.
    + simpl length. simpl Nat.eqb. simpl negb. rewrite orb_true_r. simpl andb. rewrite orb_false_r.
      destruct (negb (str_eqb (lbl t) l')); [reflexivity|].
      destruct (is_single P) as [v|] eqn:ES.
      * exfalso. apply is_single_some in ES. subst P.
        specialize (Hl v [] (Node l' i' o' [k1]) (or_introl eq_refl) eq_refl). discriminate.
      * rewrite e_go_cons. destruct k1 as [l1 i1 o1 kk1]. rewrite smatch_unf, Lk.
        simpl in Hn2. destruct l1 as [|c l1]; [discriminate|]. reflexivity.
    + simpl length. simpl Nat.eqb. simpl negb. rewrite !orb_true_r. reflexivity.
  - rewrite map_length.
    destruct (negb (str_eqb (lbl t) l') || negb (length ks' =? 0) && negb (length (kids t) =? length ks'));
      [reflexivity|].
    destruct (is_single P); [reflexivity|].
    apply e_go_erase; [exact IH | exact Hn2|].
    intros j k' Hj. simpl. eapply leafy_kid; eassumption.
Qed.

(* every variable bound by a match is bound to a node at or below `here` with a non-empty label *)
Definition smatch_bound_at (k' : tree) : Prop :=
  forall t P here bs, no_eps_lbl k' = true -> smatch k' t P here = Some bs ->
  forall v p, In (v, p) bs -> exists r u, p = here ++ r /\ subtree t r = Some u /\ lbl u <> [].

Lemma e_go_bound P here : forall ks' ks i bs,
  Forall smatch_bound_at ks' -> forallb no_eps_lbl ks' = true ->
  e_go P here ks' ks i = Some bs ->
  forall v p, In (v, p) bs ->
  exists j k r u, nth_error ks j = Some k /\ p = here ++ (i + j) :: r /\ subtree k r = Some u /\ lbl u <> [].
Proof.
  induction ks' as [|k' r' IH]; intros ks i bs HF Hn H v p Hin.
  - simpl in H. inversion H; subst. contradiction.
  - destruct ks as [|k r]; [simpl in H; inversion H; subst; contradiction|].
    rewrite e_go_cons in H. inversion HF as [|? ? Hk' Hr']; subst.
    simpl in Hn. apply andb_true_iff in Hn as [Hn1 Hn2].
    destruct (smatch k' k (restrict P i) (here ++ [i])) as [a|] eqn:Ea; [|discriminate].
    destruct (e_go P here r' r (S i)) as [b|] eqn:Eb; [|discriminate].
    inversion H; subst bs. apply in_app_or in Hin as [Hin|Hin].
    + destruct (Hk' k _ _ a Hn1 Ea v p Hin) as (r0 & u & -> & Hu & Lu).
      exists 0, k, r0, u. rewrite <- app_assoc. simpl. replace (i + 0) with i by lia. auto.
    + destruct (IH r (S i) b Hr' Hn2 Eb v p Hin) as (j & k2 & r0 & u & Hj & -> & Hu & Lu).
      exists (S j), k2, r0, u. simpl. replace (i + S j) with (S i + j) by lia. auto.
Qed.

Lemma smatch_bound : forall t', smatch_bound_at t'.
Proof.
  induction t' as [l' i' o' ks' IH] using tree_ind'. intros t P here bs Hn H v p Hin.
  simpl in Hn. apply andb_true_iff in Hn as [Hn1 Hn2]. rewrite smatch_unf in H.
  destruct (negb (str_eqb (lbl t) l')) eqn:El; [discriminate|]. simpl in H.
  apply negb_false_iff in El. apply str_eqb_eq in El.
  assert (Lt : lbl t <> []). { rewrite El. destruct l'; [discriminate|]. discriminate. }
  destruct (negb (length ks' =? 0) && negb (length (kids t) =? length ks')); [discriminate|].
  destruct (is_single P) as [w|].
  - inversion H; subst bs. destruct Hin as [Hin|[]]. inversion Hin; subst.
    exists [], t. rewrite app_nil_r. repeat split; auto.
  - destruct (e_go_bound P here ks' (kids t) 0 bs IH Hn2 H v p Hin) as (j & k & r & u & Hj & -> & Hu & Lu).
    exists (j :: r), u. simpl. rewrite Hj. auto.
Qed.

(* ------------------------------------------------------------------ *)
(* the guard                                                            *)
(* ------------------------------------------------------------------ *)
Definition nonempty (s : str) : bool := match s with [] => false | _ => true end.
Lemma nonempty_spec s : nonempty s = true <-> s <> [].
Proof. destruct s; simpl; split; intro H; try discriminate; try reflexivity. contradiction. Qed.

Definition arg_ok (a : parg) : bool := match a with PTree _ => false | _ => true end.
Definition in_ok (i : invar) : bool := match i with InTree _ => false | InVar _ => true end.
Definition count_ok (args : list parg) : bool :=
  match args with [_; PStr needle; _] => nonempty needle | _ => true end.
Definition mexpr_ok (m : option mexpr) : bool :=
  match m with
  | None => true
  | Some me => forallb (fun tp => no_eps_lbl (fst tp) && leafyb (fst tp) (snd tp)) (me_trees me)
  end.

Fixpoint eqv_guard {A} (f : formula A) : bool :=
  match f with
  | FSmt _ => true
  | FSPred _ args => forallb arg_ok args
  | FSemPred _ args => forallb arg_ok args && count_ok args
  | FNot g => eqv_guard g
  | FAnd fs | FOr fs => forallb eqv_guard fs
  | FForall v i m b | FExists v i m b => nonempty (vtype v) && in_ok i && mexpr_ok m && eqv_guard b
  | FForallInt _ b | FExistsInt _ b => eqv_guard b
  end.

(* ------------------------------------------------------------------ *)
(* t |= phi  <->  erase t |= phi                                        *)
(* ------------------------------------------------------------------ *)
Definition yrel (o o' : option tree) : Prop :=
  match o, o' with
  | Some x, Some y => yield x = yield y
  | None, None => True
  | _, _ => False
  end.

Section EraseSem.
  Variable A : Type.
  Variable adenote : A -> (var -> option tree) -> Prop.
  (* SMT atoms see only the strings of the assigned trees *)
  Hypothesis adenote_yield : forall a e e', (forall v, yrel (e v) (e' v)) -> (adenote a e <-> adenote a e').
  Variable g : grammar.
  Variable t : tree.
  Hypothesis Hwf : wf_tree g t.

  Definition okpos (p : path) : Prop := exists s, subtree t p = Some s /\ lbl s <> [].
  Definition env_ok (b : env) : Prop := forall v p, b v = Some (VPos p) -> okpos p.

  Lemma okpos_erase p s : subtree t p = Some s -> lbl s <> [] -> subtree (erase t) p = Some (erase s).
  Proof. apply subtree_erase_fwd. Qed.

  Lemma env_ok_upd b v q : env_ok b -> okpos q -> env_ok (upd b v (VPos q)).
  Proof.
    intros Hb Hq w p H. unfold upd in H. destruct (var_eqb w v); [|exact (Hb w p H)].
    inversion H; subst. exact Hq.
  Qed.

  Lemma env_ok_upd_num b v n : env_ok b -> env_ok (upd b v (VNum n)).
  Proof.
    intros Hb w p H. unfold upd in H. destruct (var_eqb w v); [discriminate | exact (Hb w p H)].
  Qed.

  Lemma env_ok_upd_pos b l : env_ok b -> (forall v p, In (v, p) l -> okpos p) -> env_ok (upd_pos b l).
  Proof.
    intros Hb. induction l as [|[v p] l IH]; intro Hl; simpl; [exact Hb|].
    apply env_ok_upd.
    - apply IH. intros w q Hin. apply (Hl w q). right. exact Hin.
    - apply (Hl v p). left. reflexivity.
  Qed.

  (* labels at positions: erase t has the labelled positions of t, except epsilon children *)
  Lemma labelled_erase L q : L <> [] -> (labelled t L q <-> labelled (erase t) L q).
  Proof.
    intro HL. unfold labelled. split.
    - intros (s & Hs & Hl). exists (erase s). split; [|rewrite erase_lbl; exact Hl].
      apply subtree_erase_fwd; [exact Hs | rewrite Hl; exact HL].
    - intros (s' & Hs' & Hl). destruct (subtree_erase_inv q t s' Hs') as (s & Hs & <-).
      exists s. split; [exact Hs | rewrite erase_lbl in Hl; exact Hl].
  Qed.

  Lemma labelled_erase_valid L q s' : subtree (erase t) q = Some s' ->
    (labelled t L q <-> labelled (erase t) L q).
  Proof.
    intro Hs'. destruct (subtree_erase_inv q t s' Hs') as (s & Hs & <-). unfold labelled. split.
    - intros (s0 & Hs0 & Hl). rewrite Hs in Hs0. inversion Hs0; subst s0.
      exists (erase s). split; [exact Hs' | rewrite erase_lbl; exact Hl].
    - intros (s0 & Hs0 & Hl). rewrite Hs' in Hs0. inversion Hs0; subst s0.
      exists s. split; [exact Hs | rewrite erase_lbl in Hl; exact Hl].
  Qed.

  Lemma erased_prefix p q s' : subtree (erase t) (p ++ q) = Some s' -> exists s0, subtree (erase t) p = Some s0.
  Proof. rewrite subtree_app. destruct (subtree (erase t) p) as [s0|]; [eauto | discriminate]. Qed.

  (* ---- structural predicates ---- *)
  Lemma consecutive_erase p q : okpos q -> (consecutive_spec t p q <-> consecutive_spec (erase t) p q).
  Proof.
    intros (sq & Hsq & _). unfold consecutive_spec. split; intros [Hlt Hno]; (split; [exact Hlt|]).
    - intros l s' Hs' Hk [H1 H2]. destruct (subtree_erase_inv l t s' Hs') as (s & Hs & <-).
      rewrite erase_kids in Hk. destruct (eps_node s) eqn:E.
      + destruct (eps_node_inv s E) as (k & Kk & _ & Kkk & _).
        apply (Hno (l ++ [0]) k).
        * rewrite subtree_app, Hs. simpl. rewrite Kk. reflexivity.
        * exact Kkk.
        * split; [apply doc_lt_app_r; exact H1 | apply doc_lt_app_l; exact H2].
      + apply (Hno l s Hs); [|auto]. destruct (kids s); [reflexivity | discriminate].
    - intros l s Hs Hk [H1 H2].
      destruct (subtree_erase_cases l t s Hs) as [He|(r & sr & -> & Hr & Er & Her)].
      + apply (Hno l (erase s) He); [|auto]. rewrite erase_kids, Hk. destruct (eps_node s); reflexivity.
      + destruct (doc_lt_snoc_l r q H2) as [H2'|(j & y & ->)].
        * apply (Hno r (erase sr) Her); [rewrite erase_kids, Er; reflexivity|].
          split; [apply doc_lt_snoc_r; exact H1 | exact H2'].
        * destruct (eps_node_inv sr Er) as (k & Kk & _). rewrite subtree_app, Hr in Hsq. simpl in Hsq.
          rewrite Kk in Hsq. simpl in Hsq. destruct j; discriminate.
  Qed.

  Lemma path2_erase name p q : okpos q -> (path2 t name p q <-> path2 (erase t) name p q).
  Proof. intro Hq. unfold path2. rewrite (consecutive_erase p q Hq). tauto. Qed.

  Lemma nth_erase n p1 p2 : okpos p1 -> (nth_spec t n p1 p2 <-> nth_spec (erase t) n p1 p2).
  Proof.
    intros (s1 & Hs1 & Hl1). pose proof (subtree_erase_fwd p1 t s1 Hs1 Hl1) as He1.
    assert (Hq : forall q, (exists s, subtree t q = Some s /\ lbl s = lbl s1) <->
                           (exists s, subtree (erase t) q = Some s /\ lbl s = lbl (erase s1))).
    { intro q. rewrite erase_lbl. exact (labelled_erase (lbl s1) q Hl1). }
    unfold nth_spec. split.
    - intros (Hp & s1' & Hs1' & l & Hnd & Hlen & Hl). rewrite Hs1 in Hs1'. inversion Hs1'; subst s1'.
      split; [exact Hp|]. exists (erase s1). split; [exact He1|]. exists l. split; [exact Hnd|].
      split; [exact Hlen|]. intro q. rewrite (Hl q), (Hq q). tauto.
    - intros (Hp & s1' & Hs1' & l & Hnd & Hlen & Hl). rewrite He1 in Hs1'. inversion Hs1'; subst s1'.
      split; [exact Hp|]. exists s1. split; [exact Hs1|]. exists l. split; [exact Hnd|].
      split; [exact Hlen|]. intro q. rewrite (Hl q), (Hq q). tauto.
  Qed.

  Lemma firstn_prefix_app k (p : path) : exists r, p = firstn k p ++ r.
  Proof. exists (skipn k p). symmetry. apply firstn_skipn. Qed.

  Lemma occ_erase nt c p : okpos p -> (occ t nt c p <-> occ (erase t) nt c p).
  Proof.
    intros (s & Hs & Hl). pose proof (subtree_erase_fwd p t s Hs Hl) as He.
    unfold occ. split; intros (k & H1 & H2 & H3); exists k; (split; [exact H1|]); (split; [exact H2|]);
      destruct (firstn_prefix_app k p) as (r & Hr); rewrite Hr in He;
      destruct (erased_prefix _ _ _ He) as (s0 & Hs0);
      apply (labelled_erase_valid nt (firstn k p) s0 Hs0); exact H3.
  Qed.

  Lemma scope_erase nt p1 p2 c : okpos p1 -> (scope t nt p1 p2 c <-> scope (erase t) nt p1 p2 c).
  Proof.
    intros (s & Hs & Hl). pose proof (subtree_erase_fwd p1 t s Hs Hl) as He.
    unfold scope. split; (intros [H|(H0 & H1 & H2 & H3)]; [left; exact H|right]);
      (split; [exact H0|]); (split; [exact H1|]); (split; [exact H2|]);
      destruct H1 as (r & Hr); rewrite Hr in He; destruct (erased_prefix _ _ _ He) as (s0 & Hs0);
      apply (labelled_erase_valid nt c s0 Hs0); exact H3.
  Qed.

  Lemma level_rel_iff op o1 o2 o1' o2' : (o1 <-> o1') -> (o2 <-> o2') -> (level_rel op o1 o2 <-> level_rel op o1' o2').
  Proof. intros H1 H2. destruct op; simpl; tauto. Qed.

  Lemma level_erase op nt p1 p2 : okpos p1 -> okpos p2 ->
    (level_spec t op nt p1 p2 <-> level_spec (erase t) op nt p1 p2).
  Proof.
    intros H1 H2. unfold level_spec. split; intros (c & Hc & Hr); exists c.
    - split; [apply scope_erase; assumption|].
      apply (level_rel_iff op _ _ _ _ (occ_erase nt c p1 H1) (occ_erase nt c p2 H2)). exact Hr.
    - split; [apply scope_erase; assumption|].
      apply (level_rel_iff op _ _ _ _ (occ_erase nt c p1 H1) (occ_erase nt c p2 H2)). exact Hr.
  Qed.

  (* ---- arguments ---- *)
  Lemma arg_pos_erase b a p : arg_ok a = true -> (arg_pos t b a p <-> arg_pos (erase t) b a p).
  Proof. destruct a; simpl; intro H; try discriminate; tauto. Qed.

  Lemma arg_pos_ok b a p : arg_ok a = true -> env_ok b -> arg_pos t b a p -> okpos p.
  Proof. destruct a as [v|s|u]; simpl; intros H Hb Hp; try discriminate; [exact (Hb v p Hp) | contradiction]. Qed.

  Lemma ex2_erase b a1 a2 (R R' : path -> path -> Prop) :
    arg_ok a1 = true -> arg_ok a2 = true -> env_ok b ->
    (forall p q, okpos p -> okpos q -> (R p q <-> R' p q)) ->
    ((exists p q, arg_pos t b a1 p /\ arg_pos t b a2 q /\ R p q) <->
     (exists p q, arg_pos (erase t) b a1 p /\ arg_pos (erase t) b a2 q /\ R' p q)).
  Proof.
    intros H1 H2 Hb HR. split; intros (p & q & Hp & Hq & H); exists p, q.
    - pose proof (arg_pos_ok b a1 p H1 Hb Hp) as Op. pose proof (arg_pos_ok b a2 q H2 Hb Hq) as Oq.
      split; [apply arg_pos_erase; assumption|]. split; [apply arg_pos_erase; assumption|].
      apply HR; assumption.
    - apply arg_pos_erase in Hp; [|exact H1]. apply arg_pos_erase in Hq; [|exact H2].
      pose proof (arg_pos_ok b a1 p H1 Hb Hp) as Op. pose proof (arg_pos_ok b a2 q H2 Hb Hq) as Oq.
      split; [exact Hp|]. split; [exact Hq|]. apply HR; assumption.
  Qed.

  Lemma spred_erase b name args : forallb arg_ok args = true -> env_ok b ->
    (spred_sem t b name args <-> spred_sem (erase t) b name args).
  Proof.
    intros Hg Hb. unfold spred_sem.
    destruct args as [|a0 [|a1 [|a2 [|a3 [|a4 r]]]]]; try tauto; simpl in Hg;
      repeat (apply andb_true_iff in Hg as [?G Hg]).
    - apply ex2_erase; auto. intros p q _ Oq. apply path2_erase. exact Oq.
    - destruct a0 as [v|n|u]; try tauto.
      split; intros [Hn (k & H)]; (split; [exact Hn|]); exists k.
      + destruct H as (p & q & Hk & H). 
        destruct (proj1 (ex2_erase b a1 a2 (nth_spec t (N.to_nat k)) (nth_spec (erase t) (N.to_nat k)) G0 G1 Hb
                   (fun p q Op _ => nth_erase (N.to_nat k) p q Op)) (ex_intro _ p (ex_intro _ q H)))
          as (p' & q' & H').
        exists p', q'. tauto.
      + destruct H as (p & q & Hk & H). 
        destruct (proj2 (ex2_erase b a1 a2 (nth_spec t (N.to_nat k)) (nth_spec (erase t) (N.to_nat k)) G0 G1 Hb
                   (fun p q Op _ => nth_erase (N.to_nat k) p q Op)) (ex_intro _ p (ex_intro _ q H)))
          as (p' & q' & H').
        exists p', q'. tauto.
    - destruct a0 as [v|op|u]; try tauto. destruct a1 as [v|nt|u]; try tauto.
      split; intros [Hn (o & H)]; (split; [exact Hn|]); exists o.
      + destruct H as (p & q & Ho & H).
        destruct (proj1 (ex2_erase b a2 a3 (level_spec t o nt) (level_spec (erase t) o nt) G1 G2 Hb
                   (fun p q Op Oq => level_erase o nt p q Op Oq)) (ex_intro _ p (ex_intro _ q H)))
          as (p' & q' & H').
        exists p', q'. tauto.
      + destruct H as (p & q & Ho & H).
        destruct (proj2 (ex2_erase b a2 a3 (level_spec t o nt) (level_spec (erase t) o nt) G1 G2 Hb
                   (fun p q Op Oq => level_erase o nt p q Op Oq)) (ex_intro _ p (ex_intro _ q H)))
          as (p' & q' & H').
        exists p', q'. tauto.
  Qed.

  Lemma sempred_erase b name args : forallb arg_ok args = true -> count_ok args = true -> env_ok b ->
    (sempred_sem t b name args <-> sempred_sem (erase t) b name args).
  Proof.
    intros Hg Hc Hb. unfold sempred_sem.
    destruct args as [|a1 [|a2 [|a3 [|a4 r]]]]; try tauto.
    destruct a2 as [v|needle|u]; try tauto.
    simpl in Hg, Hc. apply andb_true_iff in Hg as [G1 _]. apply nonempty_spec in Hc.
    split; intros [Hn (p & s & k & Hp & Hs & Hk & Hcnt)]; (split; [exact Hn|]).
    - destruct (arg_pos_ok b a1 p G1 Hb Hp) as (s0 & Hs0 & Hl0). rewrite Hs in Hs0. inversion Hs0; subst s0.
      exists p, (erase s), k. split; [apply arg_pos_erase; assumption|].
      split; [apply subtree_erase_fwd; assumption|]. split; [exact Hk|].
      rewrite (count_lbl_erase needle Hc). exact Hcnt.
    - apply arg_pos_erase in Hp; [|exact G1].
      destruct (arg_pos_ok b a1 p G1 Hb Hp) as (s0 & Hs0 & Hl0).
      rewrite (subtree_erase_fwd p t s0 Hs0 Hl0) in Hs. inversion Hs; subst s.
      exists p, s0, k. split; [exact Hp|]. split; [exact Hs0|]. split; [exact Hk|].
      rewrite (count_lbl_erase needle Hc) in Hcnt. exact Hcnt.
  Qed.

  (* ---- atoms ---- *)
  Lemma tenv_erase b : env_ok b -> forall v, yrel (tenv t b v) (tenv (erase t) b v).
  Proof.
    intros Hb v. unfold tenv. destruct (b v) as [[p|n]|] eqn:E; simpl; [|reflexivity|exact I].
    destruct (Hb v p E) as (s & Hs & Hl). rewrite Hs, (subtree_erase_fwd p t s Hs Hl). simpl.
    symmetry. apply (erase_yield g). exact (subtree_wf g p t s Hwf Hs).
  Qed.

  (* ---- quantifier domains ---- *)
  Lemma in_dom_erase b i T q : in_ok i = true -> T <> [] ->
    (in_dom t b i T q <-> in_dom (erase t) b i T q).
  Proof.
    intros Hi HT. destruct i as [w|u]; [|discriminate]. unfold in_dom. simpl.
    split; intros (p0 & s & Hp0 & Hpre & Hs & Hl).
    - exists p0, (erase s). split; [exact Hp0|]. split; [exact Hpre|].
      split; [apply subtree_erase_fwd; [exact Hs | rewrite Hl; exact HT] | rewrite erase_lbl; exact Hl].
    - destruct (subtree_erase_inv q t s Hs) as (s0 & Hs0 & <-). rewrite erase_lbl in Hl.
      exists p0, s0. auto.
  Qed.

  Lemma in_dom_okpos b i T q : T <> [] -> in_dom t b i T q -> okpos q.
  Proof. intros HT (p0 & s & _ & _ & Hs & Hl). exists s. split; [exact Hs | rewrite Hl; exact HT]. Qed.

  Lemma match_bound_ok q s t2 P bs : subtree t q = Some s -> no_eps_lbl t2 = true ->
    smatch t2 s P q = Some bs -> forall v p, In (v, p) bs -> okpos p.
  Proof.
    intros Hs Hn Hm v p Hin. destruct (smatch_bound t2 s P q bs Hn Hm v p Hin) as (r & u & -> & Hu & Lu).
    exists u. split; [|exact Lu]. rewrite subtree_app, Hs. exact Hu.
  Qed.

  Lemma mexpr_ok_in me t2 P : mexpr_ok (Some me) = true -> In (t2, P) (me_trees me) ->
    no_eps_lbl t2 = true /\ leafy t2 P.
  Proof.
    simpl. rewrite forallb_forall. intros H Hin. specialize (H (t2, P) Hin). simpl in H.
    apply andb_true_iff in H as [H1 H2]. split; [exact H1 | apply leafyb_spec; exact H2].
  Qed.

  (* ---- the induction over formulas ---- *)
  Theorem models_erase f : eqv_guard f = true ->
    forall b, env_ok b -> (models adenote t b f <-> models adenote (erase t) b f).
  Proof.
    induction f as [a|n args|n args|f0 IH|fs IH|fs IH|v i m body IH|v i m body IH|v body IH|v body IH]
      using formula_ind'; intros Hg b Hb; simpl in Hg.
    - simpl. apply adenote_yield. apply tenv_erase. exact Hb.
    - simpl. apply spred_erase; assumption.
    - simpl. apply andb_true_iff in Hg as [G1 G2]. apply sempred_erase; assumption.
    - simpl. rewrite (IH Hg b Hb). tauto.
    - simpl. induction IH as [|x l Hx Hl IHl]; [tauto|].
      simpl in Hg. apply andb_true_iff in Hg as [G1 G2]. rewrite (Hx G1 b Hb), (IHl G2). tauto.
    - simpl. induction IH as [|x l Hx Hl IHl]; [tauto|].
      simpl in Hg. apply andb_true_iff in Hg as [G1 G2]. rewrite (Hx G1 b Hb), (IHl G2). tauto.
    - apply andb_true_iff in Hg as [Hg G4]. apply andb_true_iff in Hg as [Hg G3].
      apply andb_true_iff in Hg as [G1 G2]. apply nonempty_spec in G1.
      simpl. destruct m as [me|].
      + split.
        * intros H q s' t2 P bs Hd Hs' Hin Hm.
          apply (in_dom_erase b i (vtype v) q G2 G1) in Hd.
          pose proof (in_dom_okpos b i (vtype v) q G1 Hd) as (s & Hs & Hl).
          rewrite (subtree_erase_fwd q t s Hs Hl) in Hs'. inversion Hs'; subst s'.
          destruct (mexpr_ok_in me t2 P G3 Hin) as [N1 N2].
          rewrite (smatch_erase t2 s P q N1 N2) in Hm.
          apply IH; [exact G4| |exact (H q s t2 P bs Hd Hs Hin Hm)].
          apply env_ok_upd_pos; [apply env_ok_upd; [exact Hb | exists s; auto]|].
          exact (match_bound_ok q s t2 P bs Hs N1 Hm).
        * intros H q s t2 P bs Hd Hs Hin Hm.
          pose proof (in_dom_okpos b i (vtype v) q G1 Hd) as (s0 & Hs0 & Hl). rewrite Hs in Hs0.
          inversion Hs0; subst s0.
          destruct (mexpr_ok_in me t2 P G3 Hin) as [N1 N2].
          apply IH; [exact G4| |].
          -- apply env_ok_upd_pos; [apply env_ok_upd; [exact Hb | exists s; auto]|].
             exact (match_bound_ok q s t2 P bs Hs N1 Hm).
          -- apply (H q (erase s) t2 P bs); [apply in_dom_erase; assumption | | exact Hin |].
             ++ apply subtree_erase_fwd; assumption.
             ++ rewrite (smatch_erase t2 s P q N1 N2). exact Hm.
      + split; intros H q Hd.
        * apply (in_dom_erase b i (vtype v) q G2 G1) in Hd.
          apply IH; [exact G4 | | exact (H q Hd)].
          apply env_ok_upd; [exact Hb | exact (in_dom_okpos b i (vtype v) q G1 Hd)].
        * apply IH; [exact G4 | |].
          -- apply env_ok_upd; [exact Hb | exact (in_dom_okpos b i (vtype v) q G1 Hd)].
          -- apply H. apply in_dom_erase; assumption.
    - apply andb_true_iff in Hg as [Hg G4]. apply andb_true_iff in Hg as [Hg G3].
      apply andb_true_iff in Hg as [G1 G2]. apply nonempty_spec in G1.
      simpl. destruct m as [me|].
      + split.
        * intros (q & s & t2 & P & bs & Hd & Hs & Hin & Hm & H).
          pose proof (in_dom_okpos b i (vtype v) q G1 Hd) as (s0 & Hs0 & Hl). rewrite Hs in Hs0.
          inversion Hs0; subst s0.
          destruct (mexpr_ok_in me t2 P G3 Hin) as [N1 N2].
          exists q, (erase s), t2, P, bs.
          split; [apply in_dom_erase; assumption|]. split; [apply subtree_erase_fwd; assumption|].
          split; [exact Hin|]. split; [rewrite (smatch_erase t2 s P q N1 N2); exact Hm|].
          apply IH; [exact G4| |exact H].
          apply env_ok_upd_pos; [apply env_ok_upd; [exact Hb | exists s; auto]|].
          exact (match_bound_ok q s t2 P bs Hs N1 Hm).
        * intros (q & s' & t2 & P & bs & Hd & Hs' & Hin & Hm & H).
          apply (in_dom_erase b i (vtype v) q G2 G1) in Hd.
          pose proof (in_dom_okpos b i (vtype v) q G1 Hd) as (s & Hs & Hl).
          rewrite (subtree_erase_fwd q t s Hs Hl) in Hs'. inversion Hs'; subst s'.
          destruct (mexpr_ok_in me t2 P G3 Hin) as [N1 N2].
          rewrite (smatch_erase t2 s P q N1 N2) in Hm.
          exists q, s, t2, P, bs. repeat (split; [assumption|]).
          apply IH; [exact G4| |exact H].
          apply env_ok_upd_pos; [apply env_ok_upd; [exact Hb | exists s; auto]|].
          exact (match_bound_ok q s t2 P bs Hs N1 Hm).
      + split; intros (q & Hd & H); exists q.
        * split; [apply in_dom_erase; assumption|].
          apply IH; [exact G4 | | exact H].
          apply env_ok_upd; [exact Hb | exact (in_dom_okpos b i (vtype v) q G1 Hd)].
        * apply (in_dom_erase b i (vtype v) q G2 G1) in Hd. split; [exact Hd|].
          apply IH; [exact G4 | | exact H].
          apply env_ok_upd; [exact Hb | exact (in_dom_okpos b i (vtype v) q G1 Hd)].
    - simpl. split; intros H n; apply (IH Hg (upd b v (VNum n)) (env_ok_upd_num b v n Hb)); apply H.
    - simpl. split; intros (n & H); exists n; apply (IH Hg (upd b v (VNum n)) (env_ok_upd_num b v n Hb)); exact H.
  Qed.

  Theorem sat_erase cst f : lbl t <> [] -> eqv_guard f = true ->
    (sat adenote t cst f <-> sat adenote (erase t) cst f).
  Proof.
    intros Hl Hg. unfold sat. apply models_erase; [exact Hg|].
    intros v p H. unfold upd in H. destruct (var_eqb v cst); [|discriminate].
    inversion H; subst. exists t. auto.
  Qed.
End EraseSem.

(* ------------------------------------------------------------------ *)
(* sat_respects_eqv, positive half                                      *)
(* ------------------------------------------------------------------ *)
Theorem sat_respects_eqv_guarded (A : Type) (adenote : A -> (var -> option tree) -> Prop) :
  (forall a e e', (forall v, yrel (e v) (e' v)) -> (adenote a e <-> adenote a e')) ->
  forall g cst f, eqv_guard f = true ->
  sat_respects_eqv g (fun t => sat adenote t cst f).
Proof.
  intros Hy g cst f Hg a b [Wa [_ La]] [Wb [_ Lb]] E.
  assert (Na : lbl a <> []) by (rewrite La; discriminate).
  assert (Nb : lbl b <> []) by (rewrite Lb; discriminate).
  rewrite (sat_erase A adenote Hy g a Wa cst f Na Hg), (sat_erase A adenote Hy g b Wb cst f Nb Hg).
  unfold eqv in E. rewrite E. tauto.
Qed.
