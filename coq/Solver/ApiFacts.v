(* C18 — specification and proofs for the model Solver/Api.v.
   Specification vocabulary: L g START s (language membership, Grammar.v), wf_tree (valid
   derivation tree), yield, and an abstract satisfaction relation `sat` (the specification
   semantics of the solver's constraint on closed trees).  The components are Section
   variables; what C10 / C03 / C01 / C12 establish about them are Section hypotheses and so
   explicit premises of every exported theorem. *)
From ISLA Require Import Api GrammarFacts.
From Coq Require Import Lia.

(* ---------- facts about the executable equalities and the normalisation ---------- *)

Lemma tree_eqb_eq a : forall b, tree_eqb a b = true <-> a = b.
Proof.
  induction a as [l i o ks IH] using tree_ind'. intros [l2 i2 o2 ks2]. simpl.
  rewrite !andb_true_iff, str_eqb_eq, N.eqb_eq, Bool.eqb_true_iff.
  assert (Hgo : forall ys,
    (fix go (xs ys : list tree) : bool :=
       match xs, ys with
       | [], [] => true
       | x :: xs', y :: ys' => tree_eqb x y && go xs' ys'
       | _, _ => false
       end) ks ys = true <-> ks = ys).
  { induction IH as [|k ks' Hk _ IHks]; intros [|y ys]; simpl; try (split; [discriminate|discriminate]).
    - tauto.
    - rewrite andb_true_iff, Hk, IHks. split; [intros [H1 H2]; subst; reflexivity | intro H; inversion H; auto]. }
  rewrite Hgo. split.
  - intros [[[H1 H2] H3] H4]. subst. reflexivity.
  - intro H. inversion H. subst. auto.
Qed.

Lemma eqvb_spec a b : eqvb a b = true <-> eqv a b.
Proof. unfold eqvb, eqv. apply tree_eqb_eq. Qed.

Lemma struct_eqb_refl a : struct_eqb a a = true.
Proof.
  induction a as [l i o ks IH] using tree_ind'. simpl.
  rewrite str_eqb_refl, Bool.eqb_reflx. simpl.
  induction IH as [|k ks' Hk _ IHks]; [reflexivity|]. rewrite Hk. simpl. exact IHks.
Qed.

Lemma eqv_refl a : eqv a a.              Proof. reflexivity. Qed.
Lemma eqv_sym a b : eqv a b -> eqv b a.  Proof. unfold eqv. congruence. Qed.
Lemma eqv_trans a b c : eqv a b -> eqv b c -> eqv a c. Proof. unfold eqv. congruence. Qed.

(* erase keeps the string of a valid tree: the normalisation only forgets ids and the
   shape of epsilon expansions *)
Lemma erase_yield g t : wf_tree g t -> yield (erase t) = yield t.
Proof.
  induction t as [l i o ks IH] using tree_ind'. intro Hwf.
  inversion Hwf as [A i' HA HD | w i' Hw | A i' ks' HA Hne Hin Hall | A i' HA Hin | A i' j HA Hin]; subst.
  - simpl. rewrite andb_false_r. reflexivity.
  - simpl. rewrite Hw. simpl. rewrite Hw. reflexivity.
  - assert (Hmap : flat_map yield (map erase ks) = flat_map yield ks).
    { clear Hne Hin Hwf. induction ks as [|k ks' IHk]; [reflexivity|]. simpl.
      inversion IH as [|? ? Hk Hks]; subst. inversion Hall as [|? ? Wk Wks]; subst.
      rewrite (Hk Wk), (IHk Hks Wks). reflexivity. }
    simpl erase. rewrite HA. simpl andb.
    destruct (is_eps_kids ks) eqn:EK.
    + destruct ks as [|k [|k2 ks'']]; try discriminate. simpl in EK.
      apply is_eps_child_spec in EK. destruct EK as [j Ej]. subst k. simpl. rewrite HA. reflexivity.
    + destruct ks as [|k ks']; [contradiction|]. simpl in *. exact Hmap.
  - simpl. rewrite andb_false_r. reflexivity.
  - simpl. rewrite HA. simpl. rewrite HA. reflexivity.
Qed.

Lemma eqv_yield g a b : wf_tree g a -> wf_tree g b -> eqv a b -> yield a = yield b.
Proof.
  intros Ha Hb E. rewrite <- (erase_yield g a Ha), <- (erase_yield g b Hb). unfold eqv in E. congruence.
Qed.

Lemma str_eqb_START : str_eqb START START = true.
Proof. reflexivity. Qed.

Section ApiFacts.
  Variable g : grammar.
  Variable sat : tree -> Prop.
  Variable first_parse : str -> str -> option tree.
  Variable eval : tree -> res tv.
  Variable has_top : bool.
  Variable sem_false : tree -> bool.
  Variable abstractions : tree -> list tree.
  Variable subsolve : tree -> res tree.
  Variable safe_ok fix_notop : bool.
  Variable mutant : tree -> nat -> res tree.

  (* a closed valid derivation tree of the start symbol *)
  Definition good (t : tree) : Prop := wf_tree g t /\ is_openT t = false /\ lbl t = START.

  (* C10: the first Earley tree is a closed valid derivation of the input; the parser is complete *)
  Definition parser_sound : Prop := forall s t, first_parse START s = Some t -> good t /\ yield t = s.
  Definition parser_complete : Prop := forall s, L g START s -> exists t, first_parse START s = Some t.
  (* C03: on closed valid trees evaluate() is definite and equals the specification semantics *)
  Definition eval_definite : Prop := forall t, good t -> eval t = Ok TT \/ eval t = Ok FF.
  Definition eval_correct : Prop := forall t, good t -> (eval t = Ok TT <-> sat t).
  (* C01: what the sub-solver returns for an abstraction of the input is a valid solution *)
  Definition subsolve_sound : Prop :=
    forall inp a t, good inp -> In a (abstractions inp) -> subsolve a = Ok t -> good t /\ sat t.
  (* C12: mutants of valid closed trees are valid closed trees of the same kind *)
  Definition mutant_valid : Prop := forall inp k m, good inp -> mutant inp k = Ok m -> good m.
  (* the specification semantics sees neither node ids nor the shape of epsilon expansions *)
  Definition sat_respects_eqv : Prop := forall a b, good a -> good b -> eqv a b -> (sat a <-> sat b).
  Definition unambiguous : Prop := forall a b, good a -> good b -> yield a = yield b -> eqv a b.

  Notation check_tree := (check_tree eval).
  Notation parse_api := (parse_api first_parse eval).
  Notation check_str := (check_str first_parse eval).
  Notation try_candidates := (try_candidates eval subsolve safe_ok).
  Notation repair_tree := (repair_tree eval has_top sem_false abstractions subsolve safe_ok fix_notop).
  Notation repair_str := (repair_str first_parse eval has_top sem_false abstractions subsolve safe_ok fix_notop).
  Notation mutate_loop := (mutate_loop eval has_top sem_false abstractions subsolve safe_ok fix_notop mutant).
  Notation mutate_str := (mutate_str first_parse eval has_top sem_false abstractions subsolve safe_ok fix_notop mutant).

  (* ---------- check on trees ---------- *)
  Lemma check_tree_true t : eval_correct -> good t -> (check_tree t = Ok true <-> sat t).
  Proof.
    intros Hc Hg. unfold Api.check_tree. rewrite <- (Hc t Hg).
    destruct (eval t) as [[| |]|e]; split; intro H; try discriminate; try reflexivity; inversion H.
  Qed.

  Lemma check_tree_cases t : eval_definite -> eval_correct -> good t ->
    (check_tree t = Ok true /\ sat t) \/ (check_tree t = Ok false /\ ~ sat t).
  Proof.
    intros Hd Hc Hg. destruct (Hd t Hg) as [E|E].
    - left. split; [unfold Api.check_tree; rewrite E; reflexivity | apply (Hc t Hg); exact E].
    - right. split; [unfold Api.check_tree; rewrite E; reflexivity |].
      intro Hs. apply (Hc t Hg) in Hs. congruence.
  Qed.

  Lemma check_tree_false t : eval_definite -> eval_correct -> good t ->
    (check_tree t = Ok false <-> ~ sat t).
  Proof.
    intros Hd Hc Hg. destruct (check_tree_cases t Hd Hc Hg) as [[E S]|[E S]]; rewrite E; split; intro H.
    - discriminate.
    - contradiction.
    - exact S.
    - reflexivity.
  Qed.

  (* ---------- membership <-> the parser returns a tree ---------- *)
  Lemma parse_iff_member s : parser_sound -> parser_complete ->
    (L g START s <-> exists t, first_parse START s = Some t).
  Proof.
    intros Hs Hc. split; [apply Hc|]. intros [t Ht]. destruct (Hs s t Ht) as [[Hwf [Hcl Hl]] Hy].
    pose proof (wf_closed_yield g t Hwf Hcl) as HL. rewrite Hl, Hy in HL. exact HL.
  Qed.

  Lemma parse_api_unfold s :
    parse_api s START false =
      match first_parse START s with
      | None => Raise SyntaxErr
      | Some t => match check_tree t with Ok true => Ok t | Ok false => Raise SemanticErr | Raise e => Raise e end
      end.
  Proof. unfold Api.parse_api. rewrite str_eqb_START. reflexivity. Qed.

  (* ---------- parse ---------- *)
  Theorem parse_api_ok s t : parser_sound -> eval_correct ->
    (parse_api s START false = Ok t <-> first_parse START s = Some t /\ sat t).
  Proof.
    intros Hs Hc. rewrite parse_api_unfold. destruct (first_parse START s) as [t'|] eqn:P.
    - destruct (Hs s t' P) as [Hg _]. pose proof (check_tree_true t' Hc Hg) as Ht.
      destruct (check_tree t') as [[|]|e] eqn:C.
      + split.
        * intro H. inversion H. subst. split; [reflexivity | apply Ht; reflexivity].
        * intros [H _]. inversion H. reflexivity.
      + split; [discriminate|]. intros [H S]. inversion H. subst. apply Ht in S. discriminate.
      + split; [discriminate|]. intros [H S]. inversion H. subst. apply Ht in S. discriminate.
    - split; [discriminate | intros [H _]; discriminate].
  Qed.

  Theorem parse_api_syntax s : parser_sound -> parser_complete -> eval_definite -> eval_correct ->
    (parse_api s START false = Raise SyntaxErr <-> ~ L g START s).
  Proof.
    intros Hs Hcm Hd Hc. rewrite (parse_iff_member s Hs Hcm), parse_api_unfold.
    destruct (first_parse START s) as [t'|] eqn:P.
    - destruct (Hs s t' P) as [Hg _].
      destruct (check_tree_cases t' Hd Hc Hg) as [[E _]|[E _]]; rewrite E; split; try discriminate;
        intro H; exfalso; apply H; eauto.
    - split; [intros _ [t H]; discriminate | reflexivity].
  Qed.

  Theorem parse_api_semantic s : parser_sound -> eval_definite -> eval_correct ->
    (parse_api s START false = Raise SemanticErr <-> exists t, first_parse START s = Some t /\ ~ sat t).
  Proof.
    intros Hs Hd Hc. rewrite parse_api_unfold. destruct (first_parse START s) as [t'|] eqn:P.
    - destruct (Hs s t' P) as [Hg _].
      destruct (check_tree_cases t' Hd Hc Hg) as [[E S]|[E S]]; rewrite E; split; try discriminate.
      + intros [t [H N]]. inversion H. subst. contradiction.
      + intros _. eauto.
      + reflexivity.
    - split; [discriminate | intros [t [H _]]; discriminate].
  Qed.

  (* skip_check, or a start nonterminal other than <start>: never a SemanticError, the
     parser's tree is returned as it is *)
  Theorem parse_api_unchecked s nt skip : skip = true \/ str_eqb nt START = false ->
    parse_api s nt skip = match first_parse nt s with Some t => Ok t | None => Raise SyntaxErr end.
  Proof.
    intros H. unfold Api.parse_api. destruct (first_parse nt s); [|reflexivity].
    destruct H as [H|H]; rewrite H; [reflexivity|]. rewrite andb_false_r. reflexivity.
  Qed.

  (* ---------- check on strings ---------- *)
  Theorem check_str_spec s : parser_sound -> eval_correct ->
    (check_str s = Ok true <-> exists t, first_parse START s = Some t /\ sat t).
  Proof.
    intros Hs Hc. unfold Api.check_str. split.
    - destruct (parse_api s START false) as [t|e] eqn:P.
      + intros _. exists t. apply (parse_api_ok s t Hs Hc). exact P.
      + destruct e; discriminate.
    - intros [t Ht]. apply (parse_api_ok s t Hs Hc) in Ht. rewrite Ht. reflexivity.
  Qed.

  Theorem check_str_total s : parser_sound -> eval_definite -> eval_correct ->
    (check_str s = Ok true /\ (exists t, first_parse START s = Some t /\ sat t)) \/
    (check_str s = Ok false /\ ~ (exists t, first_parse START s = Some t /\ sat t)).
  Proof.
    intros Hs Hd Hc. unfold Api.check_str. rewrite parse_api_unfold.
    destruct (first_parse START s) as [t'|] eqn:P.
    - destruct (Hs s t' P) as [Hg _].
      destruct (check_tree_cases t' Hd Hc Hg) as [[E S]|[E S]]; rewrite E.
      + left. split; [reflexivity | eauto].
      + right. split; [reflexivity|]. intros [t [H S']]. inversion H. subst. contradiction.
    - right. split; [reflexivity|]. intros [t [H _]]. discriminate.
  Qed.

  (* language-level reading: check(str) = true exactly when the string is in the language
     and its (first) derivation tree satisfies the constraint *)
  Corollary check_str_language s : parser_sound -> eval_correct ->
    check_str s = Ok true -> L g START s /\ exists t, good t /\ yield t = s /\ sat t.
  Proof.
    intros Hs Hc H. apply (check_str_spec s Hs Hc) in H. destruct H as [t [P S]].
    destruct (Hs s t P) as [Hg Hy]. split.
    - destruct Hg as [Hwf [Hcl Hl]]. pose proof (wf_closed_yield g t Hwf Hcl) as HL.
      rewrite Hl, Hy in HL. exact HL.
    - eauto.
  Qed.

  (* ---------- tree vs. string ---------- *)
  Theorem check_tree_str t :
    parser_sound -> parser_complete -> eval_definite -> eval_correct ->
    sat_respects_eqv -> unambiguous -> good t ->
    check_str (yield t) = check_tree t.
  Proof.
    intros Hs Hcm Hd Hc Hq Hu Hg.
    assert (HL : L g START (yield t)).
    { destruct Hg as [Hwf [Hcl Hl]]. pose proof (wf_closed_yield g t Hwf Hcl) as HL. rewrite Hl in HL. exact HL. }
    destruct (Hcm _ HL) as [t' P]. destruct (Hs _ _ P) as [Hg' Hy].
    assert (E : eqv t t') by (apply Hu; [exact Hg | exact Hg' | symmetry; exact Hy]).
    pose proof (Hq t t' Hg Hg' E) as Hiff.
    unfold Api.check_str. rewrite parse_api_unfold, P.
    destruct (check_tree_cases t Hd Hc Hg) as [[E1 S1]|[E1 S1]];
      destruct (check_tree_cases t' Hd Hc Hg') as [[E2 S2]|[E2 S2]]; rewrite E1, E2; try reflexivity.
    - exfalso. apply S2. apply Hiff. exact S1.
    - exfalso. apply S1. apply Hiff. exact S2.
  Qed.

  (* ---------- repair ---------- *)
  Theorem repair_id inp : check_tree inp = Ok true -> repair_tree inp = Ok (Some inp).
  Proof. intro H. unfold Api.repair_tree. rewrite H. reflexivity. Qed.

  Lemma try_candidates_some cs t : try_candidates cs = Ok (Some t) ->
    exists a, In a cs /\ check_tree a = Raise UnknownErr /\ safe_ok = true /\ subsolve a = Ok t.
  Proof.
    induction cs as [|a rest IH]; simpl; [discriminate|]. intro H.
    assert (Hrest : try_candidates rest = Ok (Some t) ->
                    exists a0, In a0 (a :: rest) /\ check_tree a0 = Raise UnknownErr /\ safe_ok = true /\ subsolve a0 = Ok t).
    { intro H'. destruct (IH H') as [a0 [Hin Hx]]. exists a0. split; [right; exact Hin | exact Hx]. }
    destruct (check_tree a) as [b|e] eqn:C; [apply Hrest; exact H|].
    destruct e; try (apply Hrest; exact H).
    destruct safe_ok eqn:SO; [|discriminate].
    destruct (subsolve a) as [u|e] eqn:SB.
    - inversion H. subst. exists a. split; [left; reflexivity|]. auto.
    - destruct (caught e); [apply Hrest; exact H | discriminate].
  Qed.

  Theorem repair_result inp t : K_no_top_constant has_top fix_notop = false ->
    repair_tree inp = Ok (Some t) ->
    (t = inp /\ check_tree inp = Ok true) \/
    (exists a, In a (abstractions inp) /\ check_tree a = Raise UnknownErr /\ subsolve a = Ok t).
  Proof.
    unfold K_no_top_constant. intros K H. unfold Api.repair_tree, repair_rest in H.
    assert (Hrest : (if sem_false inp then Ok None else try_candidates (abstractions inp)) = Ok (Some t) ->
                    exists a, In a (abstractions inp) /\ check_tree a = Raise UnknownErr /\ subsolve a = Ok t).
    { destruct (sem_false inp); [discriminate|]. intro H'.
      destruct (try_candidates_some _ _ H') as [a [Hin [Hc [_ Hsb]]]]. eauto. }
    destruct (check_tree inp) as [[|]|e] eqn:C.
    - inversion H. subst. left. auto.
    - destruct has_top; [right; apply Hrest; exact H|]. destruct fix_notop; [discriminate | discriminate K].
    - destruct e; try discriminate.
      destruct has_top; [right; apply Hrest; exact H|]. destruct fix_notop; discriminate.
  Qed.

  Theorem repair_valid_partial inp t :
    eval_correct -> subsolve_sound ->
    K_no_top_constant has_top fix_notop = false -> good inp ->
    repair_tree inp = Ok (Some t) -> good t /\ sat t.
  Proof.
    intros Hc Hsv K Hg H. destruct (repair_result inp t K H) as [[E C]|[a [Hin [_ Hsb]]]].
    - subst. split; [exact Hg | apply (check_tree_true inp Hc Hg); exact C].
    - exact (Hsv inp a t Hg Hin Hsb).
  Qed.

  Theorem repair_str_valid_partial s t :
    parser_sound -> eval_correct -> subsolve_sound ->
    K_no_top_constant has_top fix_notop = false ->
    repair_str s = Ok (Some t) -> good t /\ sat t.
  Proof.
    intros Hs Hc Hsv K H. unfold Api.repair_str in H.
    rewrite (parse_api_unchecked s START true (or_introl eq_refl)) in H.
    destruct (first_parse START s) as [t0|] eqn:P; [|discriminate].
    destruct (Hs s t0 P) as [Hg _]. exact (repair_valid_partial t0 t Hc Hsv K Hg H).
  Qed.

  (* a syntactically invalid string is rejected by repair and mutate with SyntaxError *)
  Theorem repair_str_syntax s : first_parse START s = None -> repair_str s = Raise SyntaxErr.
  Proof.
    intro P. unfold Api.repair_str. rewrite (parse_api_unchecked s START true (or_introl eq_refl)), P. reflexivity.
  Qed.

  (* ---------- mutate ---------- *)
  Theorem mutate_valid_partial inp fuel : forall k t,
    eval_correct -> subsolve_sound -> mutant_valid ->
    K_no_top_constant has_top fix_notop = false -> good inp ->
    mutate_loop inp fuel k = Some (Ok t) -> good t /\ sat t.
  Proof.
    induction fuel as [|f IH]; intros k t Hc Hsv Hm K Hg H; simpl in H; [discriminate|].
    destruct (mutant inp k) as [m|e] eqn:M; [|discriminate].
    destruct (struct_eqb m inp); [exact (IH (S k) t Hc Hsv Hm K Hg H)|].
    destruct (repair_tree m) as [[u|]|e] eqn:R.
    - inversion H. subst. exact (repair_valid_partial m t Hc Hsv K (Hm inp k m Hg M) R).
    - exact (IH (S k) t Hc Hsv Hm K Hg H).
    - discriminate.
  Qed.

  Theorem mutate_str_valid_partial s fuel t :
    parser_sound -> eval_correct -> subsolve_sound -> mutant_valid ->
    K_no_top_constant has_top fix_notop = false ->
    mutate_str s fuel = Some (Ok t) -> good t /\ sat t.
  Proof.
    intros Hs Hc Hsv Hm K H. unfold Api.mutate_str in H.
    rewrite (parse_api_unchecked s START true (or_introl eq_refl)) in H.
    destruct (first_parse START s) as [t0|] eqn:P; [|discriminate].
    destruct (Hs s t0 P) as [Hg _]. exact (mutate_valid_partial t0 fuel 0 t Hc Hsv Hm K Hg H).
  Qed.

  (* ---------- the repaired code (commit 261d5a9: fix_notop = true): no guard needed ---------- *)
  Lemma K_fixed : K_no_top_constant has_top true = false.
  Proof. unfold K_no_top_constant. destruct has_top; reflexivity. Qed.

  (* the crash of the pre-fix code under returns 0.29: excluded when safe_ok *)
  Theorem repair_safe_crash a inp :
    safe_ok = false -> has_top = true -> sem_false inp = false -> abstractions inp = [a] ->
    eval inp = Ok FF -> eval a = Ok UU -> repair_tree inp = Raise TypeErr.
  Proof.
    intros SO HT SF AB E1 E2. unfold Api.repair_tree, repair_rest, Api.check_tree.
    rewrite E1, HT, SF, AB. simpl. unfold Api.check_tree. rewrite E2, SO. reflexivity.
  Qed.
End ApiFacts.

(* ---------- repaired code: repair / mutate return only valid inputs, unguarded ---------- *)
Section Repaired.
  Variable g : grammar.
  Variable sat : tree -> Prop.
  Variable first_parse : str -> str -> option tree.
  Variable eval : tree -> res tv.
  Variable has_top : bool.
  Variable sem_false : tree -> bool.
  Variable abstractions : tree -> list tree.
  Variable subsolve : tree -> res tree.
  Variable safe_ok : bool.
  Variable mutant : tree -> nat -> res tree.

  Theorem repair_valid inp t :
    eval_correct g sat eval -> subsolve_sound g sat abstractions subsolve -> good g inp ->
    repair_tree eval has_top sem_false abstractions subsolve safe_ok true inp = Ok (Some t) ->
    good g t /\ sat t.
  Proof.
    intros Hc Hsv Hg H.
    exact (repair_valid_partial g sat eval has_top sem_false abstractions subsolve safe_ok true inp t
             Hc Hsv (K_fixed has_top) Hg H).
  Qed.

  Theorem repair_str_valid s t :
    parser_sound g first_parse -> eval_correct g sat eval -> subsolve_sound g sat abstractions subsolve ->
    repair_str first_parse eval has_top sem_false abstractions subsolve safe_ok true s = Ok (Some t) ->
    good g t /\ sat t.
  Proof.
    intros Hs Hc Hsv H.
    exact (repair_str_valid_partial g sat first_parse eval has_top sem_false abstractions subsolve safe_ok true s t
             Hs Hc Hsv (K_fixed has_top) H).
  Qed.

  Theorem mutate_valid inp fuel k t :
    eval_correct g sat eval -> subsolve_sound g sat abstractions subsolve -> mutant_valid g mutant -> good g inp ->
    mutate_loop eval has_top sem_false abstractions subsolve safe_ok true mutant inp fuel k = Some (Ok t) ->
    good g t /\ sat t.
  Proof.
    intros Hc Hsv Hm Hg H.
    exact (mutate_valid_partial g sat eval has_top sem_false abstractions subsolve safe_ok true mutant inp fuel k t
             Hc Hsv Hm (K_fixed has_top) Hg H).
  Qed.

  Theorem mutate_str_valid s fuel t :
    parser_sound g first_parse -> eval_correct g sat eval -> subsolve_sound g sat abstractions subsolve ->
    mutant_valid g mutant ->
    mutate_str first_parse eval has_top sem_false abstractions subsolve safe_ok true mutant s fuel = Some (Ok t) ->
    good g t /\ sat t.
  Proof.
    intros Hs Hc Hsv Hm H.
    exact (mutate_str_valid_partial g sat first_parse eval has_top sem_false abstractions subsolve safe_ok true mutant
             s fuel t Hs Hc Hsv Hm (K_fixed has_top) H).
  Qed.

  (* a constraint that does not mention the input and is not satisfied: nothing to return *)
  Theorem repair_no_constant inp : has_top = false -> check_tree eval inp = Ok false ->
    repair_tree eval has_top sem_false abstractions subsolve safe_ok true inp = Ok None.
  Proof. intros HT C. unfold repair_tree. rewrite C, HT. reflexivity. Qed.
End Repaired.

(* ---------- what the fixes repaired (pre-fix switches); non-vacuity ---------- *)

Definition ex_g : grammar :=
  [(START, [[[60;97;62]%N]]); ([60;97;62]%N, [[]; [[120]%N]])].     (* <start> ::= <a>;  <a> ::= "" | "x" *)
Definition ex_t : tree := Node START 0%N false [Node [60;97;62]%N 1%N false [Node [120]%N 2%N false []]].
Definition ex_eps_parser : tree := Node START 0%N false [Node [60;97;62]%N 1%N false []].
Definition ex_eps_fuzzer : tree := Node START 5%N false [Node [60;97;62]%N 6%N false [Node [] 7%N false []]].

(* full statement "repair returns only inputs satisfying the constraint" fails on the pinned
   code for a constraint without tree constant (has_top = false): *)
Theorem repair_valid_refuted :
  exists (eval : tree -> res tv) sem_false abstractions subsolve safe_ok inp,
    check_tree eval inp = Ok false /\
    repair_tree eval false sem_false abstractions subsolve safe_ok false inp = Ok (Some inp).
Proof.
  exists (fun _ => Ok FF), (fun _ => false), (fun _ => []), (fun _ => Raise StopIter), true, ex_t.
  split; reflexivity.
Qed.

Theorem mutate_valid_refuted :
  exists (eval : tree -> res tv) sem_false abstractions subsolve safe_ok mutant inp t,
    mutate_tree eval false sem_false abstractions subsolve safe_ok false mutant inp 1 = Some (Ok t) /\
    check_tree eval t = Ok false.
Proof.
  exists (fun _ => Ok FF), (fun _ => false), (fun _ => []), (fun _ => Raise StopIter), true,
         (fun _ _ => Ok ex_eps_parser), ex_t, ex_eps_parser.
  split; reflexivity.
Qed.

Example good_ex : good ex_g ex_t /\ good ex_g ex_eps_parser /\ good ex_g ex_eps_fuzzer.
Proof.
  unfold good. repeat split; try reflexivity; apply wf_treeb_spec; reflexivity.
Qed.

(* the two epsilon shapes are identified by eqv, are not structurally equal, and have the same string *)
Example eqv_eps_ex : eqv ex_eps_parser ex_eps_fuzzer /\ struct_eqb ex_eps_parser ex_eps_fuzzer = false
                     /\ yield ex_eps_parser = yield ex_eps_fuzzer.
Proof. repeat split; reflexivity. Qed.

(* an instantiation satisfying every premise of the theorems, on which repair does repair:
   constraint "the string is x"; the parser knows the two strings of ex_g *)
Definition ex_parse (nt s : str) : option tree :=
  if str_eqb s [120]%N then Some ex_t else if str_eqb s [] then Some ex_eps_parser else None.
Definition ex_eval (t : tree) : res tv :=
  if is_openT t then Ok UU else if str_eqb (yield t) [120]%N then Ok TT else Ok FF.
Definition ex_open : tree := Node START 0%N false [Node [60;97;62]%N 1%N true []].
Definition ex_abs (t : tree) : list tree := [ex_open].
Definition ex_sub (t : tree) : res tree := Ok ex_t.

Example api_ex :
  check_str ex_parse ex_eval [120]%N = Ok true /\
  check_str ex_parse ex_eval [] = Ok false /\
  check_str ex_parse ex_eval [121]%N = Ok false /\
  parse_api ex_parse ex_eval [] START false = Raise SemanticErr /\
  parse_api ex_parse ex_eval [121]%N START false = Raise SyntaxErr /\
  check_tree ex_eval ex_eps_fuzzer = check_str ex_parse ex_eval (yield ex_eps_fuzzer) /\
  repair_tree ex_eval true (fun _ => false) ex_abs ex_sub true false ex_eps_parser = Ok (Some ex_t) /\
  repair_tree ex_eval true (fun _ => false) ex_abs ex_sub true false ex_t = Ok (Some ex_t) /\
  mutate_tree ex_eval true (fun _ => false) ex_abs ex_sub true false (fun _ _ => Ok ex_eps_fuzzer) ex_t 3 = Some (Ok ex_t).
Proof. repeat split; reflexivity. Qed.

(* the premises about evaluator, sub-solver, mutator and sat are jointly satisfiable (non-vacuity);
   sat := "the string is x" *)
Definition ex_sat (t : tree) : Prop := yield t = [120]%N.

Example ex_eval_definite : eval_definite ex_g ex_eval.
Proof.
  intros t [_ [Hcl _]]. unfold ex_eval. rewrite Hcl. destruct (str_eqb (yield t) [120]%N); auto.
Qed.

Example ex_eval_correct : eval_correct ex_g ex_sat ex_eval.
Proof.
  intros t [_ [Hcl _]]. unfold ex_eval, ex_sat. rewrite Hcl. split.
  - destruct (str_eqb (yield t) [120]%N) eqn:E; [intros _; apply str_eqb_eq; exact E | discriminate].
  - intro Hy. rewrite Hy. reflexivity.
Qed.

Example ex_subsolve_sound : subsolve_sound ex_g ex_sat ex_abs ex_sub.
Proof.
  intros inp a t _ _ Hs. unfold ex_sub in Hs. inversion Hs. subst.
  split; [exact (proj1 good_ex) | reflexivity].
Qed.

Example ex_mutant_valid : mutant_valid ex_g (fun _ _ => Ok ex_eps_fuzzer).
Proof. intros inp k m _ Hm. inversion Hm. subst. exact (proj2 (proj2 good_ex)). Qed.

Example ex_sat_respects_eqv : sat_respects_eqv ex_g ex_sat.
Proof.
  intros a b [Wa _] [Wb _] E. unfold ex_sat. rewrite (eqv_yield ex_g a b Wa Wb E). tauto.
Qed.

Example ex_parser_sound : parser_sound ex_g ex_parse.
Proof.
  intros s t H. unfold ex_parse in H.
  destruct (str_eqb s [120]%N) eqn:E1; [|destruct (str_eqb s []) eqn:E2]; inversion H; subst.
  - apply str_eqb_eq in E1. subst. split; [exact (proj1 good_ex) | reflexivity].
  - apply str_eqb_eq in E2. subst. split; [exact (proj1 (proj2 good_ex)) | reflexivity].
Qed.
