(* C18 (proof extension) — fresh node identifiers.
   The Earley model (Grammar/Earley.v) builds every node with id 0: the parser's trees are
   compared up to ids there.  Python's DerivationTree draws the id of every new node from a global
   counter, so the nodes of a parsed tree carry pairwise different ids — which is what the
   evaluator's specification needs (Semantics.v identifies a tree argument with the position
   holding its id).  `renum n t` is the model of that: pre-order numbering from n.  Only the
   uniqueness of the ids matters (the concrete numbers of the Python run are not modelled). *)
From ISLA Require Import Grammar GrammarFacts TreeFacts.
From Coq Require Import Lia FinFun NArith.

Fixpoint renum (n : nat) (t : tree) : tree :=
  match t with
  | Node l _ o ks =>
      Node l (N.of_nat n) o
        ((fix go (m : nat) (ks : list tree) : list tree :=
            match ks with [] => [] | k :: r => renum m k :: go (m + size k) r end) (S n) ks)
  end.

Fixpoint renum_kids (m : nat) (ks : list tree) : list tree :=
  match ks with [] => [] | k :: r => renum m k :: renum_kids (m + size k) r end.

Lemma renum_unfold n l i o ks : renum n (Node l i o ks) = Node l (N.of_nat n) o (renum_kids (S n) ks).
Proof.
  reflexivity.
Qed.

Lemma renum_lbl n t : lbl (renum n t) = lbl t.
Proof. destruct t. rewrite renum_unfold. reflexivity. Qed.

Lemma renum_opn n t : opn (renum n t) = opn t.
Proof. destruct t. rewrite renum_unfold. reflexivity. Qed.

Lemma renum_kids_lbl ks : forall m, map lbl (renum_kids m ks) = map lbl ks.
Proof. induction ks as [|k r IH]; intro m; simpl; [reflexivity|]. rewrite renum_lbl, IH. reflexivity. Qed.

Lemma renum_kids_length ks : forall m, length (renum_kids m ks) = length ks.
Proof. induction ks as [|k r IH]; intro m; simpl; [reflexivity|]. rewrite IH. reflexivity. Qed.

Lemma renum_size t : forall n, size (renum n t) = size t.
Proof.
  induction t as [l i o ks IH] using tree_ind'. intro n. rewrite renum_unfold. simpl. f_equal.
  generalize (S n). induction IH as [|k r Hk _ IHr]; intro m; simpl; [reflexivity|].
  rewrite Hk, IHr. reflexivity.
Qed.

Lemma renum_yield t : forall n, yield (renum n t) = yield t.
Proof.
  induction t as [l i o ks IH] using tree_ind'. intro n. rewrite renum_unfold.
  destruct ks as [|k r]; [reflexivity|].
  assert (H : forall m, flat_map yield (renum_kids m (k :: r)) = flat_map yield (k :: r)).
  { clear n. induction IH as [|k' r' Hk _ IHr]; intro m; simpl; [reflexivity|].
    rewrite Hk. f_equal. apply IHr. }
  specialize (H (S n)). simpl in *. exact H.
Qed.

Lemma renum_is_openT t : forall n, is_openT (renum n t) = is_openT t.
Proof.
  induction t as [l i o ks IH] using tree_ind'. intro n. rewrite renum_unfold. simpl. f_equal.
  generalize (S n). induction IH as [|k r Hk _ IHr]; intro m; simpl; [reflexivity|].
  rewrite Hk, IHr. reflexivity.
Qed.

Lemma renum_shape_ok t : forall n, shape_ok (renum n t) = shape_ok t.
Proof.
  induction t as [l i o ks IH] using tree_ind'. intro n. rewrite renum_unfold. simpl. f_equal.
  - destruct ks; reflexivity.
  - generalize (S n). induction IH as [|k r Hk _ IHr]; intro m; simpl; [reflexivity|].
    rewrite Hk, IHr. reflexivity.
Qed.

Lemma renum_wf g t : forall n, wf_tree g t -> wf_tree g (renum n t).
Proof.
  induction t as [l i o ks IH] using tree_ind'. intros n Hwf. rewrite renum_unfold.
  inversion Hwf as [A i' HA HD | w i' Hw | A i' ks' HA Hne Hin Hall | A i' HA Hin | A i' j HA Hin]; subst.
  - simpl. apply wf_open; assumption.
  - simpl. apply wf_term; assumption.
  - apply wf_inner.
    + exact HA.
    + destruct ks; [contradiction | simpl; discriminate].
    + rewrite renum_kids_lbl. exact Hin.
    + clear Hne Hin Hwf. generalize (S n).
      induction ks as [|k r IHr]; intro m; simpl; [constructor|].
      inversion IH as [|? ? Hk Hr]; subst. inversion Hall as [|? ? Wk Wr]; subst.
      constructor; [apply Hk; exact Wk | apply IHr; assumption].
  - simpl. apply wf_eps_parser; assumption.
  - simpl. apply wf_eps_fuzzer; assumption.
Qed.

(* ---- the ids of the renumbered tree are n, n+1, ..., n + size t - 1 ---- *)
Definition ids (t : tree) : list N := map (fun ps : path * tree => tid (snd ps)) (nodes t).

Lemma ids_unfold l i o ks : ids (Node l i o ks) = i :: flat_map ids ks.
Proof.
  unfold ids at 1. rewrite nodes_unfold. simpl. f_equal.
  generalize 0. induction ks as [|k r IH]; intro j; simpl; [reflexivity|].
  rewrite map_app, IH. f_equal. unfold ids. rewrite map_map. reflexivity.
Qed.

Lemma renum_ids t : forall n, ids (renum n t) = map N.of_nat (seq n (size t)).
Proof.
  induction t as [l i o ks IH] using tree_ind'. intro n. rewrite renum_unfold, ids_unfold.
  simpl. f_equal. generalize (S n).
  induction IH as [|k r Hk _ IHr]; intro m; simpl; [reflexivity|].
  rewrite Hk, IHr, seq_app, map_app. reflexivity.
Qed.

Theorem renum_uniq n t : NoDup (ids (renum n t)).
Proof.
  rewrite renum_ids. apply Injective_map_NoDup; [|apply seq_NoDup].
  intros a b H. apply Nat2N.inj. exact H.
Qed.

(* renumbering an already renumbered tree / a tree that differs only in ids gives the same tree *)
Fixpoint strip_ids (t : tree) : tree :=
  match t with Node l _ o ks => Node l 0%N o (map strip_ids ks) end.

Lemma renum_strip t : forall n, strip_ids (renum n t) = strip_ids t.
Proof.
  induction t as [l i o ks IH] using tree_ind'. intro n. rewrite renum_unfold. simpl. f_equal.
  generalize (S n). induction IH as [|k r Hk _ IHr]; intro m; simpl; [reflexivity|].
  rewrite Hk, IHr. reflexivity.
Qed.
