(* C01 — ABSTRACT transition system over-approximating the elimination chain of
   ISLaSolver.solve() (isla/solver.py).  MODEL file: definitions only (proofs: RulesFacts.v).

   Abstraction (DESIGN.md C01)
   * A Python state is SolutionState(constraint, tree); the constraint is kept in DNF-of-NNF, one
     disjunct per state (establish_invariant), i.e. a CONJUNCTION of conjuncts.  Here a state is
     (list of clauses, tree); a clause is a conjunct under EXPLICIT SUBSTITUTION (b, f): where
     Python substitutes the matched tree for a bound variable (substitute_expressions, located
     later by its id), the model binds the variable to the POSITION of that tree in the state tree.
     Positions of existing nodes never change under expansion, so Python's id-preserving constraint
     update in expand_tree (lines 1958-1967) is the identity here.
   * Queue order, costs, limits, uniqueness filters, already_matched bookkeeping: abstracted (any
     rule may fire on any clause in any order; a rule may fire again — re-matching only adds
     clauses that are already there).
   * Steps whose soundness rests on external components are NOT given rules here; they enter
     SolveSound.v as Section variables with named hypotheses (H_smt, H_sem, H_insert, H_numq,
     H_infeasible).

   Rule                    Python (isla/solver.py)
   r_and / r_or / r_nnf    establish_invariant: convert_to_dnf(convert_to_nnf(c)), split_disjunction,
                           get_conjuncts / split_conjunction
   r_match_forall          match_universal_formulas (matches_for_quantified_formula, instantiated
                           bodies are CONJOINED, the quantifier stays)
   r_drop_forall           remove_nonmatching_universal_quantifiers (in_variable.is_complete(), all
                           matches instantiated) — the part of remove_infeasible_... that concerns
                           complete in-trees; the reachability argument for open in-trees is H_infeasible
   r_match_exists          match_existential_formula (body instantiated, quantifier REPLACED)
   r_exists_int            eliminate_existential_integer_quantifiers (fresh constant = some numeral)
   r_expand                expand_tree (one or more open leaves expanded by a grammar alternative),
                           expand / finish_unconstrained_trees (fuzzer closes open leaves; C12), and the
                           tree part of SMT / semantic-predicate elimination (open leaves replaced by
                           closed trees): ANY tree t1 that completes t and is grammar-valid
   eval_step (r_eval_true) instantiate_structural_predicates (predicate evaluated to true on the
                           CURRENT tree, conjunct dropped), ground SMT conjuncts evaluated to true,
                           semantic predicates evaluated to true.  Python applies this step WITHOUT a
                           stability side condition; SolveSound.v / PredStable.v prove soundness under
                           [stable], prove [stable] for every structural predicate except nth, and
                           show that nth is not stable (the recorded defect K_nth). *)
From ISLA Require Export Sound.

(* ---- completion: t' is t with every open leaf replaced by some tree with the same label ---- *)
Fixpoint compl (t t' : tree) {struct t} : Prop :=
  match t with
  | Node l i o ks =>
      if o then ks = [] /\ lbl t' = l
      else lbl t' = l /\ tid t' = i /\ opn t' = false /\
           (fix go (ks ks' : list tree) {struct ks} : Prop :=
              match ks, ks' with
              | [], [] => True
              | k :: r, k' :: r' => compl k k' /\ go r r'
              | _, _ => False
              end) ks (kids t')
  end.

(* ---- states ---- *)
Definition clause := (env * cform)%type.
Definition cstate := (list clause * tree)%type.

Definition holds (t' : tree) (cs : list clause) : Prop :=
  forall b f, In (b, f) cs -> models satom_denote t' b f.

(* semantic invariant: the closed, grammar-valid completions of the state tree that satisfy every
   clause (re-anchored at the completion: positions are stable) *)
Definition Sol (g : grammar) (s : cstate) (t' : tree) : Prop :=
  compl (snd s) t' /\ is_openT t' = false /\ wf_tree g t' /\ holds t' (fst s).

(* one NNF step (convert_to_nnf pushes negations inwards) *)
Inductive nnf_step : cform -> cform -> Prop :=
| nnf_notnot f : nnf_step (FNot (FNot f)) f
| nnf_notand fs : nnf_step (FNot (FAnd fs)) (FOr (map FNot fs))
| nnf_notor fs : nnf_step (FNot (FOr fs)) (FAnd (map FNot fs))
| nnf_notforall v i m body : nnf_step (FNot (FForall v i m body)) (FExists v i m (FNot body))
| nnf_notexists v i m body : nnf_step (FNot (FExists v i m body)) (FForall v i m (FNot body)).

(* a match of quantifier (v in w, optional match expression m) in tree t under b: the matched
   position q and the extended assignment b' *)
Definition qmatch (t : tree) (b : env) (v w : var) (m : option mexpr) (q : path) (b' : env) : Prop :=
  in_dom t b (InVar w) (vtype v) q /\
  match m with
  | None => b' = upd b v (VPos q)
  | Some me => exists s t2 P bs, subtree t q = Some s /\ In (t2, P) (me_trees me) /\
                 smatch t2 s P q = Some bs /\ b' = upd_pos (upd b v (VPos q)) bs
  end.

(* conjuncts that Python evaluates directly on the current tree *)
Inductive evaluable : cform -> Prop :=
| ev_spred n args : evaluable (FSPred n args)
| ev_nspred n args : evaluable (FNot (FSPred n args))
| ev_smt a : evaluable (FSmt a)
| ev_nsmt a : evaluable (FNot (FSmt a))
| ev_sem n args : evaluable (FSemPred n args)
| ev_nsem n args : evaluable (FNot (FSemPred n args)).

Inductive core_step (g : grammar) : cstate -> cstate -> Prop :=
| r_and cs1 cs2 b fs t :
    core_step g (cs1 ++ (b, FAnd fs) :: cs2, t) (cs1 ++ map (pair b) fs ++ cs2, t)
| r_or cs1 cs2 b fs f t : In f fs ->
    core_step g (cs1 ++ (b, FOr fs) :: cs2, t) (cs1 ++ (b, f) :: cs2, t)
| r_nnf cs1 cs2 b f f' t : nnf_step f f' ->
    core_step g (cs1 ++ (b, f) :: cs2, t) (cs1 ++ (b, f') :: cs2, t)
| r_match_forall cs b v w m body t q b' :
    In (b, FForall v (InVar w) m body) cs -> qmatch t b v w m q b' ->
    core_step g (cs, t) ((b', body) :: cs, t)
| r_drop_forall cs1 cs2 b v w m body t p0 s0 :
    b w = Some (VPos p0) -> subtree t p0 = Some s0 -> is_openT s0 = false ->
    (forall q b', qmatch t b v w m q b' -> In (b', body) (cs1 ++ cs2)) ->
    core_step g (cs1 ++ (b, FForall v (InVar w) m body) :: cs2, t) (cs1 ++ cs2, t)
| r_match_exists cs1 cs2 b v w m body t q b' :
    qmatch t b v w m q b' ->
    core_step g (cs1 ++ (b, FExists v (InVar w) m body) :: cs2, t) (cs1 ++ (b', body) :: cs2, t)
| r_exists_int cs1 cs2 b v body n t :
    core_step g (cs1 ++ (b, FExistsInt v body) :: cs2, t) (cs1 ++ (upd b v (VNum n), body) :: cs2, t)
| r_expand cs t t1 : compl t t1 -> wf_tree g t1 ->
    core_step g (cs, t) (cs, t1).

(* what Python does: the conjunct is evaluated on the CURRENT tree and dropped when true
   (when false the state is discarded: no successor) *)
Inductive eval_step : cstate -> cstate -> Prop :=
| r_eval_true cs1 cs2 b f t : evaluable f -> models satom_denote t b f ->
    eval_step (cs1 ++ (b, f) :: cs2, t) (cs1 ++ cs2, t).

(* side condition under which r_eval_true is sound: the verdict survives every completion *)
Definition stable (t : tree) (b : env) (f : cform) : Prop :=
  forall t', compl t t' -> models satom_denote t b f -> models satom_denote t' b f.

Inductive eval_step_stable : cstate -> cstate -> Prop :=
| r_eval_stable cs1 cs2 b f t : evaluable f -> models satom_denote t b f -> stable t b f ->
    eval_step_stable (cs1 ++ (b, f) :: cs2, t) (cs1 ++ cs2, t).

(* predicate arguments that are variables or string literals (no instantiated trees): the shape of
   every predicate atom under explicit substitution *)
Definition no_tree_arg (a : parg) : bool := match a with PTree _ => false | _ => true end.

(* variables of an atom *)
Definition st_vars (x : sterm) : list var := match x with SVar v => [v] | SLit _ => [] end.
Definition satom_vars (a : satom) : list var :=
  match a with
  | SBool _ => []
  | SStr _ x y | SToInt2 _ x y => st_vars x ++ st_vars y
  | SLen _ x _ | SToInt _ x _ => st_vars x
  end.

(* the six structural predicates that depend on positions only *)
Definition path_only (n : str) : bool :=
  str_eqb n s_before || str_eqb n s_after || str_eqb n s_inside || str_eqb n s_same_position ||
  str_eqb n s_different_position || str_eqb n s_direct_child.

(* known-finding classes (guards of the partial theorems; harness/c01.py CLASSES mirrors them) *)
Fixpoint mentions_pred (name : str) (f : cform) : bool :=
  match f with
  | FSmt _ => false
  | FSPred n _ | FSemPred n _ => str_eqb n name
  | FNot g => mentions_pred name g
  | FAnd fs | FOr fs => existsb (mentions_pred name) fs
  | FForall _ _ _ b | FExists _ _ _ b | FForallInt _ b | FExistsInt _ b => mentions_pred name b
  end.
Definition K_nth (f : cform) : bool := mentions_pred s_nth f.
(* the recorded count defect: a count atom of POSITIVE polarity in the scope of an existential
   quantifier (exists under positive, forall under negative polarity).  Negated count atoms and
   count atoms under universal quantifiers only are outside the class. *)
Fixpoint count_exists_pos (pol inex : bool) (f : cform) : bool :=
  match f with
  | FSemPred n _ => pol && inex && str_eqb n s_count
  | FSmt _ | FSPred _ _ => false
  | FNot g => count_exists_pos (negb pol) inex g
  | FAnd fs | FOr fs => existsb (count_exists_pos pol inex) fs
  | FForall _ _ _ b => count_exists_pos pol (inex || negb pol) b
  | FExists _ _ _ b => count_exists_pos pol (inex || pol) b
  | FForallInt _ b | FExistsInt _ b => count_exists_pos pol inex b
  end.
Definition K_count (f : cform) : bool := count_exists_pos true false f.
(* consecutive: the implementation's predicate departs from consecutive_spec (C04 finding
   consecutive-relative-paths, open), so solutions satisfy ISLa's evaluator but not the spec *)
Definition K_consecutive (f : cform) : bool := mentions_pred s_consecutive f.
(* a start symbol was requested but the constant of the (textual) formula is typed otherwise
   (the parser's default <start>): the root of the solutions is the constant's type *)
Definition K_const_type (cst : var) (start : str) : bool := negb (str_eqb (vtype cst) start).

(* initial and final states (ISLaSolver.__init__: initial_tree = open root labelled with the start
   symbol, constant instantiated by it; SolutionState.complete: closed tree and constraint true) *)
Definition init_state (start : str) (i0 : N) (cst : var) (phi : cform) : cstate :=
  ([(env0 cst, phi)], Node start i0 true []).
Definition final (s : cstate) : Prop := fst s = [] /\ is_openT (snd s) = false.
