(* C01 — facts about Solver/State.v: the acceptance check [sol_check] is sound for the C01 statement.
   (The abstract rule system and its soundness are in Rules.v / RulesFacts.v.) *)
From ISLA Require Export State GrammarFacts.
From Coq Require Import ZArith Lia.

(* ---- the atom decider decides the atom meaning ---- *)
Lemma cmp_eval_spec op x y : cmp_eval op x y = true <-> cmp_holds op x y.
Proof.
  destruct op; simpl.
  - apply Z.eqb_eq.
  - rewrite Bool.negb_true_iff. rewrite Z.eqb_neq. tauto.
  - apply Z.ltb_lt.
  - apply Z.leb_le.
  - apply Z.ltb_lt.
  - apply Z.leb_le.
Qed.

Lemma st_get_spec e x u : st_get e x = Some u <-> st_den e x u.
Proof.
  destruct x as [v|s]; simpl.
  - destruct (e v) as [t|]; split.
    + intro H. inversion H. exists t. auto.
    + intros (t' & Ht & Hu). inversion Ht. subst. reflexivity.
    + discriminate.
    + intros (t' & Ht & _). discriminate.
  - split; intro H; [inversion H | subst]; reflexivity.
Qed.

Lemma st_den_fun e x u w : st_den e x u -> st_den e x w -> u = w.
Proof. intros Hu Hw. apply st_get_spec in Hu, Hw. congruence. Qed.

Theorem satom_dec_spec a e : satom_dec a e = true <-> satom_denote a e.
Proof.
  destruct a as [b|neg x y|op x n|op x n|op x y]; simpl.
  - tauto.
  - destruct (st_get e x) as [u|] eqn:Ex; [destruct (st_get e y) as [w|] eqn:Ey|].
    + apply st_get_spec in Ex, Ey. split.
      * intro H. exists u, w. split; [assumption|]. split; [assumption|].
        destruct (str_eqb u w) eqn:E; destruct neg; simpl in H; try discriminate.
        -- apply str_eqb_eq. assumption.
        -- apply str_eqb_neq. assumption.
      * intros (u' & w' & Hu & Hw & H).
        rewrite (st_den_fun _ _ _ _ Ex Hu), (st_den_fun _ _ _ _ Ey Hw).
        destruct neg.
        -- apply str_eqb_neq in H. rewrite H. reflexivity.
        -- apply str_eqb_eq in H. rewrite H. reflexivity.
    + split; [discriminate|]. intros (u' & w' & _ & Hw & _). apply st_get_spec in Hw. congruence.
    + split; [discriminate|]. intros (u' & w' & Hu & _). apply st_get_spec in Hu. congruence.
  - destruct (st_get e x) as [u|] eqn:Ex.
    + apply st_get_spec in Ex. rewrite cmp_eval_spec. split.
      * intro H. exists u. auto.
      * intros (u' & Hu & H). rewrite (st_den_fun _ _ _ _ Ex Hu). assumption.
    + split; [discriminate|]. intros (u' & Hu & _). apply st_get_spec in Hu. congruence.
  - destruct (st_get e x) as [u|] eqn:Ex.
    + apply st_get_spec in Ex. rewrite cmp_eval_spec. split.
      * intro H. exists u. auto.
      * intros (u' & Hu & H). rewrite (st_den_fun _ _ _ _ Ex Hu). assumption.
    + split; [discriminate|]. intros (u' & Hu & _). apply st_get_spec in Hu. congruence.
  - destruct (st_get e x) as [u|] eqn:Ex; [destruct (st_get e y) as [w|] eqn:Ey|].
    + apply st_get_spec in Ex, Ey. rewrite cmp_eval_spec. split.
      * intro H. exists u, w. auto.
      * intros (u' & w' & Hu & Hw & H).
        rewrite (st_den_fun _ _ _ _ Ex Hu), (st_den_fun _ _ _ _ Ey Hw). assumption.
    + split; [discriminate|]. intros (u' & w' & _ & Hw & _). apply st_get_spec in Hw. congruence.
    + split; [discriminate|]. intros (u' & w' & Hu & _). apply st_get_spec in Hu. congruence.
Qed.

(* ---- the C01 statement for ONE tree ---- *)
(* t is a valid solution of constraint f (constant cst) for grammar g and start symbol start:
   closed derivation tree rooted at start, its string in the language, t |= f (spec semantics) *)
Definition valid_solution (g : grammar) (start : str) (cst : var) (f : cform) (t : tree) : Prop :=
  wf_tree g t /\ is_openT t = false /\ lbl t = start /\ L g start (yield t) /\
  sat satom_denote t cst f.

Lemma sat_b_spec cst f t : shape_ok t = true -> no_numq f = true ->
  (sat_b cst f t = true <-> sat satom_denote t cst f).
Proof.
  intros Hs Hq. unfold sat_b, sat, env0.
  apply (satb_spec satom satom_denote t satom_dec satom_dec_spec 0 f Hs Hq).
Qed.

Lemma N_sum6_zero a b c d e f : (a + b + c + d + e + f = 0)%N ->
  a = 0%N /\ b = 0%N /\ c = 0%N /\ d = 0%N /\ e = 0%N /\ f = 0%N.
Proof. lia. Qed.

Theorem sol_check_sound g start cst f t :
  sol_check g start cst f t = 0%N -> valid_solution g start cst f t.
Proof.
  unfold sol_check. intro H. apply N_sum6_zero in H as (H1 & H2 & H3 & H4 & H5 & H6).
  destruct (shape_ok t) eqn:Es; [|discriminate].
  destruct (wf_treeb g t) eqn:Ew; [|discriminate].
  destruct (closedb t) eqn:Ec; [|discriminate].
  destruct (str_eqb (lbl t) start) eqn:El; [|discriminate].
  destruct (sat_b cst f t) eqn:Esat; [|discriminate].
  destruct (no_numq f) eqn:Eq; [|discriminate].
  apply wf_treeb_spec in Ew. apply str_eqb_eq in El.
  unfold closedb in Ec. apply Bool.negb_true_iff in Ec.
  unfold valid_solution. repeat split; try assumption.
  - rewrite <- El. apply wf_closed_yield; assumption.
  - apply sat_b_spec; assumption.
Qed.

(* the check is also complete on its fragment: it rejects only trees that are not valid solutions *)
Theorem sol_check_complete g start cst f t : shape_ok t = true -> no_numq f = true ->
  valid_solution g start cst f t -> sol_check g start cst f t = 0%N.
Proof.
  intros Hs Hq (Hw & Hc & Hl & _ & Hsat). unfold sol_check.
  rewrite Hs, Hq. apply wf_treeb_spec in Hw. rewrite Hw.
  unfold closedb. rewrite Hc. simpl.
  apply str_eqb_eq in Hl. rewrite Hl.
  apply sat_b_spec in Hsat; try assumption. rewrite Hsat. reflexivity.
Qed.

(* sequences: a list of returned trees all of which pass the check *)
Corollary sol_check_prefix g start cst f (out : list tree) :
  forallb (sol_ok g start cst f) out = true ->
  forall n, Forall (valid_solution g start cst f) (firstn n out).
Proof.
  intros H n. apply Forall_forall. intros t Hin.
  rewrite forallb_forall in H. apply sol_check_sound. apply N.eqb_eq. apply H.
  clear H. revert n Hin. induction out as [|x l IH]; intros [|n] Hin; simpl in *; try contradiction.
  destruct Hin as [->|Hin]; [left; reflexivity | right; eapply IH; eassumption].
Qed.
