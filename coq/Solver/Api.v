(* C18 — model of the public helpers of isla.solver.ISLaSolver:
     check(inp)                       solver.py:716
     parse(inp, nonterminal, skip_check, silent)    :742
     repair(inp, fix_timeout_seconds)               :787
     mutate(inp, min_mutations, max_mutations, fix_timeout_seconds)  :881
   The components the helpers are composed of are PARAMETERS of the model (Section
   variables): the Earley parser (C10), the evaluator (C03), the sub-solver started from
   an abstracted tree (C01) and the mutator (C12).  The model is the glue code, as it is.

   Exceptions (Base/Outcome.exn):  SyntaxErr = SyntaxError, SemanticErr = SemanticError,
   OtherErr = UnknownResultError (also returns' UnwrapFailedError), TimeoutErr, StopIter.
   No proofs in this file. *)
From ISLA Require Export Grammar Outcome.

Inductive tv := TT | FF | UU.

Definition START : str := [60;115;116;97;114;116;62]%N.   (* "<start>" *)
Definition UnknownErr : exn := OtherErr.

(* DerivationTree.structurally_equal: labels, openness and shape; ids ignored *)
Fixpoint struct_eqb (a b : tree) : bool :=
  match a, b with
  | Node l1 _ o1 ks1, Node l2 _ o2 ks2 =>
      str_eqb l1 l2 && Bool.eqb o1 o2 &&
      (fix go (xs : list tree) (ys : list tree) : bool :=
         match xs, ys with
         | [], [] => true
         | x :: xs', y :: ys' => struct_eqb x y && go xs' ys'
         | _, _ => false
         end) ks1 ks2
  end.

(* full equality incl. ids (used to compare returned trees and to key observation tables) *)
Fixpoint tree_eqb (a b : tree) : bool :=
  match a, b with
  | Node l1 i1 o1 ks1, Node l2 i2 o2 ks2 =>
      str_eqb l1 l2 && N.eqb i1 i2 && Bool.eqb o1 o2 &&
      (fix go (xs : list tree) (ys : list tree) : bool :=
         match xs, ys with
         | [], [] => true
         | x :: xs', y :: ys' => tree_eqb x y && go xs' ys'
         | _, _ => false
         end) ks1 ks2
  end.

(* the exceptions do_complete catches around the sub-solver's solve():
   (UnknownResultError, TimeoutError, StopIteration) *)
Definition caught (e : exn) : bool :=
  match e with OtherErr | TimeoutErr | StopIter => true | _ => false end.

Section Api.
  (* EarleyParser(grammar with <start> ::= nt).parse(inp): first tree, None = SyntaxError *)
  Variable first_parse : str -> str -> option tree.
  (* evaluator.evaluate(self.formula, tree, self.grammar) *)
  Variable eval : tree -> res tv.
  (* is_successful(self.top_constant): the constraint mentions the input at all *)
  Variable has_top : bool.
  (* `semantic_only == sc.false()` after quantifier elimination + predicate evaluation *)
  Variable sem_false : tree -> bool.
  (* all trees produced by generate_abstracted_trees, over the shuffled disjuncts, in order *)
  Variable abstractions : tree -> list tree.
  (* copy_without_queue(initial_tree=Some a, timeout).solve(): first result or exception *)
  Variable subsolve : tree -> res tree.
  (* environment: returns.result.safe accepts the call form safe(function, exceptions)
     (true for returns 0.21, false for the installed 0.29: TypeError) *)
  Variable safe_ok : bool.
  (* false = code as pinned; true = code after proposed fix C18-repair-no-constant *)
  Variable fix_notop : bool.
  (* k-th result of Mutator.mutate(inp) in the loop of ISLaSolver.mutate *)
  Variable mutant : tree -> nat -> res tree.

  Definition check_tree (t : tree) : res bool :=
    match eval t with
    | Ok TT => Ok true
    | Ok FF => Ok false
    | Ok UU => Raise UnknownErr
    | Raise e => Raise e
    end.

  Definition parse_api (inp nt : str) (skip_check : bool) : res tree :=
    match first_parse nt inp with
    | None => Raise SyntaxErr
    | Some t =>
        if negb skip_check && str_eqb nt START then
          match check_tree t with
          | Ok true => Ok t
          | Ok false => Raise SemanticErr
          | Raise e => Raise e
          end
        else Ok t
    end.

  Definition check_str (inp : str) : res bool :=
    match parse_api inp START false with
    | Ok _ => Ok true
    | Raise SyntaxErr | Raise SemanticErr => Ok false
    | Raise e => Raise e
    end.

  Fixpoint try_candidates (cs : list tree) : res (option tree) :=
    match cs with
    | [] => Ok None
    | a :: rest =>
        match check_tree a with
        | Raise OtherErr =>
            if safe_ok then
              match subsolve a with
              | Ok t => Ok (Some t)
              | Raise e => if caught e then try_candidates rest else Raise e
              end
            else Raise TypeErr
        | _ => try_candidates rest
        end
    end.

  Definition repair_rest (inp : tree) : res (option tree) :=
    if sem_false inp then Ok None else try_candidates (abstractions inp).

  Definition repair_tree (inp : tree) : res (option tree) :=
    match check_tree inp with
    | Ok true => Ok (Some inp)
    | Ok false =>
        if has_top then repair_rest inp
        else if fix_notop then Ok None else Ok (Some inp)
    | Raise OtherErr =>
        if has_top then repair_rest inp
        else if fix_notop then Ok None else Raise OtherErr   (* Nothing.unwrap() *)
    | Raise e => Raise e
    end.

  Definition repair_str (inp : str) : res (option tree) :=
    match parse_api inp START true with
    | Ok t => repair_tree t
    | Raise e => Raise e
    end.

  (* `while True` loop of mutate; None = out of fuel (the loop need not terminate) *)
  Fixpoint mutate_loop (inp : tree) (fuel k : nat) : option (res tree) :=
    match fuel with
    | O => None
    | S f =>
        match mutant inp k with
        | Raise e => Some (Raise e)
        | Ok m =>
            if struct_eqb m inp then mutate_loop inp f (S k)
            else match repair_tree m with
                 | Ok (Some t) => Some (Ok t)
                 | Ok None => mutate_loop inp f (S k)
                 | Raise e => Some (Raise e)
                 end
        end
    end.

  Definition mutate_tree (inp : tree) (fuel : nat) : option (res tree) := mutate_loop inp fuel 0.

  Definition mutate_str (inp : str) (fuel : nat) : option (res tree) :=
    match parse_api inp START true with
    | Ok t => mutate_tree t fuel
    | Raise e => Some (Raise e)
    end.
End Api.

(* ---- known-finding classes (guards of the _partial theorems) ---- *)
(* K_no_top_constant: constraint without free tree constant on the pinned code *)
Definition K_no_top_constant (has_top fix_notop : bool) : bool := negb has_top && negb fix_notop.
(* K_safe_api: installed `returns` rejects safe(function, exceptions) *)
Definition K_safe_api (safe_ok : bool) : bool := negb safe_ok.

(* ---- normalisation used by the tree/string agreement theorem ---- *)
(* erase ids; turn the fuzzer's epsilon expansion  A -> [("", [])]  into the parser's  A -> [] *)
Definition is_eps_kids (ks : list tree) : bool :=
  match ks with [k] => is_eps_child k | _ => false end.

Fixpoint erase (t : tree) : tree :=
  match t with
  | Node l _ o ks =>
      if is_nt l && is_eps_kids ks then Node l 0%N o [] else Node l 0%N o (map erase ks)
  end.

Definition eqv (a b : tree) : Prop := erase a = erase b.
Definition eqvb (a b : tree) : bool := tree_eqb (erase a) (erase b).

(* ---- observation tables for the correspondence check (harness instantiates the
        parameters with finite tables of what the real components returned) ---- *)
Fixpoint lookup {B} (tab : list (tree * B)) (d : B) (t : tree) : B :=
  match tab with
  | [] => d
  | (k, v) :: tab' => if tree_eqb k t then v else lookup tab' d t
  end.
