(* C01 — proof extension 3, MODEL part: rules for the three steps that were still premises of
   solve_sound_partial2 (SolveSoundMore.v): SMT elimination, numeric quantifiers, semantic
   predicates that answer with a tree binding (count's insertion search).  Definitions only
   (proofs: SolveSoundMore3.v).

   Rule                     Python (isla/solver.py)
   r_smt                    eliminate_all_semantic_formulas -> eliminate_semantic_formula: the top-level
                            SMT conjuncts are handed to Z3 (solve_quantifier_free_formula); for every
                            variable the value of the Z3 model is turned into a closed derivation tree
                            (extract_model_value: parse / create_fixed_length_tree / numerals); the trees
                            are substituted into the state tree (tree.substitute) and into the
                            constraint (substitute_expressions; SUBTREES ARE RE-ANCHORED BY PATH:
                            subtree_solutions maps the subtree of the old tree at path r to the subtree
                            of the new tree at the SAME path r — in the position model: environments
                            stay as they are).  The solved conjuncts become ground and are dropped.
                            Guard of the rule: the new state tree is a grammar-valid COMPLETION of the
                            old one (the rebuilt trees refine the instantiated subtrees in place;
                            always the case when the instantiated subtree is an open leaf), the solved
                            conjuncts are SMT literals whose variables sit on closed subtrees of the new
                            tree or are numerals, and they are TRUE on the new tree.  The last guard is
                            derived in SolveSoundMore3.v (smt_step_sound_given_model) from the only
                            external fact "the assignment Z3 returns satisfies the formulas it was
                            given" + "the rebuilt tree of a variable spells the assigned string".
   r_count_search           eliminate_all_ready_semantic_predicate_formulas when the predicate answers
                            with a binding {in_tree: c} (isla_predicates.count, insertion search; C14
                            finish_candidate): conjunct := true, tree := tree.substitute({in_tree: c}),
                            other conjuncts re-anchored by path (subtree_solutions).  Guard: c is a
                            grammar-valid COMPLETION of the in-tree (it is substituted IN PLACE, no host
                            node moves) with exactly target-many needles (negated: a different number)
                            and no open leaf that reaches the needle (C14_count_result_sound).  The
                            recorded defect K_count is outside the guard: there c embeds the replaced
                            node (self embedding), DerivationTree.substitute drops the replacement and
                            the state tree is NOT the substituted tree (r_count_dropped, unsound:
                            count_dropped_unsound).
   r_drop_stable            generalisation of r_eval_stable_g to ANY conjunct (no `evaluable`
                            restriction): eliminate_existential_integer_quantifiers drops an
                            `exists int` conjunct that evaluate() already finds true.
   r_forall_int_inst        instantiate_universal_integer_quantifier_by_enumeration AS THE CODE DOES
                            IT: the quantifier is REPLACED by ONE instance body[i := n] (one successor
                            state per value found by Z3 for the negated SMT disjuncts, at most
                            max_number_free_instantiations of them).  No guard in Python.  UNSOUND
                            (forall_int_inst_unsound in SolveSoundMore3.v; reproduced on /repo).
   r_forall_int_exh         the same step under the guard that makes it sound: n is the ONLY value
                            that matters — for every other numeral the body holds on every
                            grammar-valid closed completion (e.g. because the SMT disjuncts over i are
                            falsified by n alone: forall_int_exh_of_smt).
   r_forall_int_transform   instantiate_universal_integer_quantifier_by_transformation:
                              forall int i: exists <A> e in w: not count(e, N, i)
                              ==> exists int i: (exists <A> e' in w: count(e', N, i)) and
                                                (exists <A> e in w: not count(e, N, i))
                            (count is the only predicate in predicates_unique_in_int_arg). *)
From ISLA Require Export SolveSoundMore.
From Coq Require Import ZArith.

(* polarity *)
Definition plit (neg : bool) (f : cform) : cform := if neg then FNot f else f.

(* ---- SMT elimination ---- *)
(* variables whose value is fixed: bound to a position carrying a CLOSED subtree, or to a numeral *)
Definition vars_ground (t : tree) (b : env) (vs : list var) : Prop :=
  forall v, In v vs ->
    (exists p s, b v = Some (VPos p) /\ subtree t p = Some s /\ is_openT s = false) \/
    (exists n, b v = Some (VNum n)).

Inductive smt_solve_step (g : grammar) : cstate -> cstate -> Prop :=
| r_smt cs cs' solved t t1 :
    compl t t1 -> wf_tree g t1 ->
    (forall c, In c cs -> In c cs' \/ In c solved) ->
    (forall b f, In (b, f) solved ->
       exists neg a, f = plit neg (FSmt a) /\ vars_ground t1 b (satom_vars a) /\
                     models satom_denote t1 b f) ->
    smt_solve_step g (cs, t) (cs', t1).

(* the SMT-LIB meaning of an atom over an assignment of STRINGS (what Z3 sees) *)
Definition st_sden (m : var -> option str) (x : sterm) (u : str) : Prop :=
  match x with SLit s => u = s | SVar v => m v = Some u end.

Definition satom_sden (a : satom) (m : var -> option str) : Prop :=
  match a with
  | SBool b => b = true
  | SStr neg x y => exists u w, st_sden m x u /\ st_sden m y w /\ (if neg then u <> w else u = w)
  | SLen op x n => exists u, st_sden m x u /\ cmp_holds op (Z.of_nat (length u)) n
  | SToInt op x n => exists u, st_sden m x u /\ cmp_holds op (str_to_int u) n
  | SToInt2 op x y => exists u w, st_sden m x u /\ st_sden m y w /\ cmp_holds op (str_to_int u) (str_to_int w)
  end.

(* the string Z3 is given / returns for a numeral *)
Definition num_str (n : N) : str := yield (num_tree n).

(* the Z3 assignment seen through a clause's environment: tree variables are keyed by the POSITION
   of their tree (rename_instantiated_variables_in_smt_formulas unifies variables instantiated by
   the same tree), numeric constants carry their numeral *)
Definition sigma (mu : path -> str) (b : env) : var -> option str :=
  fun v => match b v with
           | Some (VPos p) => Some (mu p)
           | Some (VNum n) => Some (num_str n)
           | None => None
           end.

(* tree.substitute(solution): the rebuilt trees are put at their positions, one after the other *)
Fixpoint replace_all (t : tree) (sol : list (path * tree)) : option tree :=
  match sol with
  | [] => Some t
  | (p, r) :: rest =>
      match Insert.replace_at t p r with
      | Some t' => replace_all t' rest
      | None => None
      end
  end.

(* no solved position lies at or below another one (solve_quantifier_free_formula solves formulas
   that refer to subtrees of other instantiations FIRST, in a separate round) *)
Definition indep (p q : path) : Prop := ~ prefix p q /\ ~ prefix q p.
Fixpoint pairwise_indep (ps : list path) : Prop :=
  match ps with
  | [] => True
  | p :: rest => (forall q, In q rest -> indep p q) /\ pairwise_indep rest
  end.

(* ---- count's insertion search ---- *)
Definition settled (g : grammar) (needle : str) (c : tree) : Prop :=
  forall r n, subtree c r = Some n -> opn n = true -> Eval3.reachb g (lbl n) needle = false.

Inductive count_search_step (g : grammar) : cstate -> cstate -> Prop :=
| r_count_search cs1 cs2 (b : env) (x : var) needle a3 (neg : bool) t p s c t1 k :
    b x = Some (VPos p) -> subtree t p = Some s -> num_val b a3 k -> is_nt needle = true ->
    compl s c -> wf_tree g c ->
    (if neg then N.of_nat (count_lbl needle c) <> k else N.of_nat (count_lbl needle c) = k) ->
    settled g needle c ->
    Insert.replace_at t p c = Some t1 ->
    count_search_step g (cs1 ++ (b, plit neg (count_atom x needle a3)) :: cs2, t) (cs1 ++ cs2, t1).

(* what happens in the class K_count: the conjunct is replaced by true, but
   DerivationTree.substitute dropped the (nested) replacement — the tree is unchanged *)
Inductive count_search_dropped : cstate -> cstate -> Prop :=
| r_count_dropped cs1 cs2 (b : env) (x : var) needle a3 t :
    count_search_dropped (cs1 ++ (b, count_atom x needle a3) :: cs2, t) (cs1 ++ cs2, t).

(* ---- dropping any conjunct whose truth is stable under grammar-valid completion ---- *)
Inductive drop_stable_g (g : grammar) : cstate -> cstate -> Prop :=
| r_drop_stable cs1 cs2 b f t : models satom_denote t b f -> stable_g g t b f ->
    drop_stable_g g (cs1 ++ (b, f) :: cs2, t) (cs1 ++ cs2, t).

(* ---- universal numeric quantifiers ---- *)
(* what the code does *)
Inductive forall_int_inst : cstate -> cstate -> Prop :=
| r_forall_int_inst cs1 cs2 b v body n t :
    forall_int_inst (cs1 ++ (b, FForallInt v body) :: cs2, t)
                    (cs1 ++ (upd b v (VNum n), body) :: cs2, t).

(* the guard under which it is sound *)
Definition only_value_matters (g : grammar) (t : tree) (b : env) (v : var) (body : cform) (n : N) : Prop :=
  forall n' t', n' <> n -> compl t t' -> wf_tree g t' -> is_openT t' = false ->
    models satom_denote t' (upd b v (VNum n')) body.

Inductive forall_int_exh (g : grammar) : cstate -> cstate -> Prop :=
| r_forall_int_exh cs1 cs2 b v body n t : only_value_matters g t b v body n ->
    forall_int_exh g (cs1 ++ (b, FForallInt v body) :: cs2, t)
                     (cs1 ++ (upd b v (VNum n), body) :: cs2, t).

(* the special-case transformation *)
Definition fi_old (i e w : var) (needle : str) : cform :=
  FForallInt i (FExists e (InVar w) None (FNot (count_atom e needle (PVar i)))).
Definition fi_new (i e e' w : var) (needle : str) : cform :=
  FExistsInt i (FAnd [FExists e' (InVar w) None (count_atom e' needle (PVar i));
                      FExists e (InVar w) None (FNot (count_atom e needle (PVar i)))]).

Inductive forall_int_transform : cstate -> cstate -> Prop :=
| r_forall_int_transform cs1 cs2 b i e e' w needle t :
    var_eqb w i = false -> var_eqb e i = false -> var_eqb e' i = false -> vtype e' = vtype e ->
    forall_int_transform (cs1 ++ (b, fi_old i e w needle) :: cs2, t)
                         (cs1 ++ (b, fi_new i e e' w needle) :: cs2, t).

(* refinement for states whose tree is grammar-valid (all reachable states are: inv) *)
Definition refines_wf (g : grammar) (R : cstate -> cstate -> Prop) : Prop :=
  forall s s', R s s' -> wf_tree g (snd s) ->
    lbl (snd s') = lbl (snd s) /\ wf_tree g (snd s') /\
    (forall t', Sol g s' t' -> Sol g s t').
