(* C19 — specification and proofs for the model of isla/cli.py (Solver/Cli.v). *)
From ISLA Require Import Cli.
From Coq Require Import Lia.

(* ------------------------------------------------------------------ *)
(* 1. classification of FILES by suffix                                 *)
(* ------------------------------------------------------------------ *)

Lemma skipn_app_exact {A} (l : list A) n : n <= length l -> l = firstn n l ++ skipn n l.
Proof. intros _. symmetry. apply firstn_skipn. Qed.

Theorem ends_with_spec : forall s suf, ends_with s suf = true <-> exists pre, s = pre ++ suf.
Proof.
  intros s suf. unfold ends_with. split.
  - destruct (Nat.leb (length suf) (length s)) eqn:E; [|discriminate].
    intro H. apply str_eqb_eq in H. exists (firstn (length s - length suf) s).
    rewrite <- H at 2. symmetry. apply firstn_skipn.
  - intros [pre ->]. rewrite app_length.
    replace (Nat.leb (length suf) (length pre + length suf)) with true
      by (symmetry; apply Nat.leb_le; lia).
    replace (length pre + length suf - length suf) with (length pre) by lia.
    rewrite skipn_app, skipn_all, Nat.sub_diag. simpl. apply str_eqb_refl.
Qed.

Lemma last_char_of_suffix : forall s pre body c, s = pre ++ body ++ [c] -> last s 0%N = c.
Proof. intros s pre body c ->. rewrite app_assoc. apply last_last. Qed.

Lemma ends_with_last : forall s body c, ends_with s (body ++ [c]) = true -> last s 0%N = c.
Proof. intros s body c H. apply ends_with_spec in H as [pre H]. eapply last_char_of_suffix; eauto. Qed.

Lemma suffix_last : forall n s1 s2,
  ends_with n s1 = true -> ends_with n s2 = true -> s1 <> [] -> s2 <> [] -> last s1 0%N = last s2 0%N.
Proof.
  intros n s1 s2 H1 H2 N1 N2.
  rewrite (app_removelast_last 0%N N1) in H1. rewrite (app_removelast_last 0%N N2) in H2.
  apply ends_with_last in H1. apply ends_with_last in H2. unfold str, chr in *. congruence.
Qed.

(* the three suffixes end in different characters: f, y, a *)
Theorem suffix_classes_exclusive : forall n,
  (ends_with n suf_bnf = true -> ends_with n suf_py = false /\ ends_with n suf_isla = false) /\
  (ends_with n suf_py = true -> ends_with n suf_bnf = false /\ ends_with n suf_isla = false) /\
  (ends_with n suf_isla = true -> ends_with n suf_bnf = false /\ ends_with n suf_py = false).
Proof.
  intro n.
  split; [|split]; intro H; split;
    match goal with |- ?x = false => destruct x eqn:E; [exfalso|reflexivity] end;
    pose proof (suffix_last n _ _ H E ltac:(discriminate) ltac:(discriminate)) as X;
    vm_compute in X; discriminate.
Qed.

(* every file name falls in exactly one of: grammar file, constraint file, input file *)
Theorem file_classes_partition : forall n,
  (is_grammar_name n = true /\ is_constraint_name n = false /\ is_input_name n = false) \/
  (is_grammar_name n = false /\ is_constraint_name n = true /\ is_input_name n = false) \/
  (is_grammar_name n = false /\ is_constraint_name n = false /\ is_input_name n = true).
Proof.
  intro n. destruct (suffix_classes_exclusive n) as (B & P & I).
  unfold is_grammar_name, is_constraint_name, is_input_name.
  destruct (ends_with n suf_bnf) eqn:Eb.
  - destruct (B eq_refl) as [-> ->]. left. auto.
  - destruct (ends_with n suf_py) eqn:Ep.
    + destruct (P eq_refl) as [_ ->]. left. auto.
    + destruct (ends_with n suf_isla) eqn:Ei; [right; left | right; right]; auto.
Qed.

(* ------------------------------------------------------------------ *)
(* 2. stages                                                            *)
(* ------------------------------------------------------------------ *)
Section Facts.
  Variables G F T : Type.
  Variable O : oracles G F T.
  Variable fx : fixes.

  (* when the common front part ends the process, that IS the result, for every command *)
  Lemma front_stop : forall a o, front O a = Stop o -> run O fx a = o.
  Proof.
    intros a o H. unfold run, run_solve, run_check, run_parse, run_repair, run_mutate, do_check.
    destruct (a_cmd a); rewrite H; reflexivity.
  Qed.

  Definition readable (a : args) : Prop := forall f, In f (a_files a) -> exists c, fstate f = Text c.

  Lemma read_files_acc_readable : forall fs acc,
    (forall f, In f fs -> exists c, fstate f = Text c) -> exists d, read_files_acc fs acc = Cont d.
  Proof.
    induction fs as [|f fs IH]; intros acc H; simpl.
    - eauto.
    - destruct (H f (or_introl eq_refl)) as [c ->]. apply IH. intros f' Hf'. apply H. right. exact Hf'.
  Qed.

  Lemma readable_front : forall a, readable a ->
    argparse_files (a_files a) = Cont tt /\ read_files (a_files a) = Cont (dict_of a).
  Proof.
    intros a R. split.
    - unfold argparse_files. replace (existsb unopenable (a_files a)) with false; [reflexivity|].
      symmetry. apply not_true_is_false. intro E. apply existsb_exists in E as (f & Hf & U).
      destruct (R f Hf) as [c Hc]. unfold unopenable in U. rewrite Hc in U. discriminate.
    - unfold dict_of. destruct (read_files_acc_readable (a_files a) [] R) as [d Hd].
      unfold read_files. rewrite Hd. reflexivity.
  Qed.

  (* ---- grammar ---- *)
  Lemma grammar_files_stop : forall l acc o, grammar_files O l acc = Stop o -> o = format_error.
  Proof.
    induction l as [|[n c] l IH]; intros acc o H; simpl in H; [discriminate|].
    destruct (ends_with n suf_bnf).
    - destruct (bnf O c); [eauto | inversion H; reflexivity].
    - destruct (pyext O c) as [e| |[g|]]; try (inversion H; reflexivity); eauto.
  Qed.

  Lemma grammar_files_malformed : forall l acc n c,
    In (n, c) l -> ends_with n suf_bnf = true -> bnf O c = None ->
    grammar_files O l acc = Stop format_error.
  Proof.
    induction l as [|[n' c'] l IH]; intros acc n c HIn Hs Hb; [destruct HIn|].
    simpl. destruct HIn as [E|HIn].
    - inversion E; subst. rewrite Hs, Hb. reflexivity.
    - destruct (ends_with n' suf_bnf).
      + destruct (bnf O c'); [eapply IH; eauto | reflexivity].
      + destruct (pyext O c') as [e| |[g|]]; try reflexivity; eapply IH; eauto.
  Qed.

  (* the grammar source is malformed: the --grammar text, or (without --grammar) some .bnf file *)
  Definition malformed_grammar (a : args) : Prop :=
    (exists s, truthy (a_grammar a) = Some s /\ bnf O s = None) \/
    (truthy (a_grammar a) = None /\
     exists n c, In (n, c) (dict_of a) /\ ends_with n suf_bnf = true /\ bnf O c = None).

  Definition preconditions (a : args) : Prop :=
    readable a /\
    (needs_constraint (a_cmd a) = true -> constraint_present a (dict_of a) = true) /\
    ~ (a_cmd a = Solve /\ a_outdir a = DirBad).

  Lemma front_after_checks : forall a, preconditions a -> grammar_present a (dict_of a) = true ->
    front O a = (do g <- parse_grammar O a (dict_of a) ;;
                 do _ <- read_predicates O (dict_of a) ;;
                 do f <- parse_constraint O a (dict_of a) g ;; Cont (dict_of a, g, f)).
  Proof.
    intros a (R & C & D) GP. unfold front. destruct (readable_front a R) as [-> ->]. simpl.
    rewrite GP. simpl.
    replace (needs_constraint (a_cmd a) && negb (constraint_present a (dict_of a))) with false.
    2:{ destruct (needs_constraint (a_cmd a)); [rewrite (C eq_refl)|]; reflexivity. }
    destruct (a_cmd a) eqn:Ec; try reflexivity.
    destruct (a_outdir a) eqn:Ed; try reflexivity. exfalso. apply D. auto.
  Qed.

  Theorem malformed_grammar_65 : forall a,
    preconditions a -> malformed_grammar a -> run O fx a = format_error.
  Proof.
    intros a P M. apply front_stop.
    assert (GP : grammar_present a (dict_of a) = true).
    { unfold grammar_present. destruct M as [(s & -> & _) | (-> & n & c & HIn & Hs & _)]; [reflexivity|].
      apply existsb_exists. exists (n, c). split; [exact HIn|]. unfold is_grammar_name. simpl. rewrite Hs. reflexivity. }
    rewrite (front_after_checks a P GP). unfold parse_grammar.
    destruct M as [(s & -> & Hb) | (-> & n & c & HIn & Hs & Hb)].
    - rewrite Hb. reflexivity.
    - rewrite (grammar_files_malformed (names_with is_grammar_name (dict_of a)) [] n c); [reflexivity| |exact Hs|exact Hb].
      unfold names_with. apply filter_In. split; [exact HIn|]. unfold is_grammar_name. simpl. rewrite Hs. reflexivity.
  Qed.

  (* ---- constraints ---- *)
  Lemma fold_constraints_none : forall g cs acc,
    fold_constraints O g cs acc = None <-> exists c, In c cs /\ isla O g c = None.
  Proof.
    intros g cs. induction cs as [|c cs IH]; intro acc; simpl.
    - split; [discriminate | intros (c & [] & _)].
    - destruct (isla O g c) eqn:E.
      + rewrite IH. split; intros (c' & HIn & Hn); exists c'.
        * split; [right; exact HIn | exact Hn].
        * split; [|exact Hn]. destruct HIn as [<-|HIn]; [congruence | exact HIn].
      + split; [intros _; exists c; auto | reflexivity].
  Qed.

  Theorem malformed_constraint_65 : forall a d g,
    parse_constraint O a d g = Stop format_error <->
    exists c, In c (constraint_sources a d) /\ isla O g c = None.
  Proof.
    intros a d g. unfold parse_constraint.
    rewrite <- (fold_constraints_none g (constraint_sources a d) (ftrue O)).
    destruct (fold_constraints O g (constraint_sources a d) (ftrue O)); split; intro H; try discriminate; reflexivity.
  Qed.

  (* composed: grammar fine, python extension fine, some constraint malformed -> 65, for every command *)
  Theorem malformed_constraint_run_65 : forall a g c,
    preconditions a -> grammar_present a (dict_of a) = true ->
    parse_grammar O a (dict_of a) = Cont g -> read_predicates O (dict_of a) = Cont tt ->
    In c (constraint_sources a (dict_of a)) -> isla O g c = None ->
    run O fx a = format_error.
  Proof.
    intros a g c P GP Hg Hp HIn Hc. apply front_stop. rewrite (front_after_checks a P GP), Hg. simpl.
    rewrite Hp. simpl.
    assert (X : parse_constraint O a (dict_of a) g = Stop format_error) by (apply malformed_constraint_65; eauto).
    rewrite X. reflexivity.
  Qed.

  (* ---- missing pieces: exit 2 ---- *)
  Theorem unopenable_file_2 : forall a f,
    In f (a_files a) -> fstate f = Unopenable -> run O fx a = usage_error.
  Proof.
    intros a f HIn Hf. apply front_stop. unfold front, argparse_files.
    replace (existsb unopenable (a_files a)) with true; [reflexivity|].
    symmetry. apply existsb_exists. exists f. split; [exact HIn|]. unfold unopenable. rewrite Hf. reflexivity.
  Qed.

  Theorem missing_grammar_2 : forall a,
    readable a -> truthy (a_grammar a) = None ->
    (forall n c, In (n, c) (dict_of a) -> is_grammar_name n = false) ->
    run O fx a = usage_error.
  Proof.
    intros a R Hg Hn. apply front_stop. unfold front. destruct (readable_front a R) as [-> ->]. simpl.
    replace (grammar_present a (dict_of a)) with false; [reflexivity|].
    symmetry. unfold grammar_present. rewrite Hg. apply not_true_is_false. intro E.
    apply existsb_exists in E as ([n c] & HIn & E). simpl in E. rewrite (Hn n c HIn) in E. discriminate.
  Qed.

  Theorem missing_constraint_2 : forall a,
    readable a -> grammar_present a (dict_of a) = true -> a_cmd a <> Solve ->
    a_constraints a = [] -> (forall n c, In (n, c) (dict_of a) -> is_constraint_name n = false) ->
    run O fx a = usage_error.
  Proof.
    intros a R GP NS Hc Hn. apply front_stop. unfold front. destruct (readable_front a R) as [-> ->]. simpl.
    rewrite GP. simpl.
    replace (constraint_present a (dict_of a)) with false.
    - destruct (a_cmd a); try reflexivity. congruence.
    - symmetry. unfold constraint_present. rewrite Hc. apply not_true_is_false. intro E.
      apply existsb_exists in E as ([n c] & HIn & E). simpl in E. rewrite (Hn n c HIn) in E. discriminate.
  Qed.

  (* no --input-string and not exactly one input file *)
  Theorem missing_input_2 : forall a d g f,
    a_cmd a <> Solve -> front O a = Cont (d, g, f) ->
    truthy (a_input a) = None -> length (names_with is_input_name d) <> 1 ->
    run O fx a = usage_error.
  Proof.
    intros a d g f NS Hf Hi Hl.
    assert (X : input_text fx a d = Stop usage_error).
    { unfold input_text. rewrite Hi. destruct (names_with is_input_name d) as [|[n c] [|p l]]; try reflexivity.
      simpl in Hl. congruence. }
    unfold run, run_check, run_parse, run_repair, run_mutate, do_check, get_input.
    destruct (a_cmd a); try congruence; rewrite Hf; simpl; rewrite X; reflexivity.
  Qed.
End Facts.

(* ------------------------------------------------------------------ *)
(* 3. how the process can end                                           *)
(* ------------------------------------------------------------------ *)
Section Kinds.
  Variables G F T : Type.
  Variable O : oracles G F T.
  Variable fx : fixes.

  (* a stage never ends the process with exit code 0 *)
  Definition stop_ok (o : outcome) : Prop :=
    o = usage_error \/ o = format_error \/ exists e, o = traceback e.

  Lemma stop_ok_not_0 : forall o, stop_ok o -> o_exit o <> Exit 0.
  Proof. intros o [->|[->|[e ->]]]; simpl; discriminate. Qed.

  Lemma read_files_acc_stop : forall fs acc o, read_files_acc fs acc = Stop o -> o = traceback OtherErr.
  Proof.
    induction fs as [|f fs IH]; intros acc o H; simpl in H; [discriminate|].
    destruct (fstate f); try (inversion H; reflexivity). eauto.
  Qed.

  Lemma parse_grammar_stop : forall a d o, parse_grammar O a d = Stop o -> o = usage_error \/ o = format_error.
  Proof.
    intros a d o H. unfold parse_grammar in H. destruct (truthy (a_grammar a)).
    - destruct (bnf O s); inversion H; auto.
    - destruct (grammar_files O (names_with is_grammar_name d) []) as [g|o'] eqn:E; simpl in H.
      + destruct g; inversion H; auto.
      + inversion H; subst. right. eapply grammar_files_stop; eauto.
  Qed.

  Lemma read_predicates_stop : forall d o, read_predicates O d = Stop o -> o = format_error \/ exists e, o = traceback e.
  Proof.
    intros d o H. unfold read_predicates in H.
    destruct (names_with (fun n => ends_with n suf_py) d) as [|[n c] l]; [discriminate|].
    destruct (pyext O c); inversion H; eauto.
  Qed.

  Lemma front_stop_ok : forall a o, front O a = Stop o -> stop_ok o.
  Proof.
    intros a o H. unfold front, argparse_files in H.
    destruct (existsb unopenable (a_files a)); simpl in H; [inversion H; left; reflexivity|].
    destruct (read_files (a_files a)) as [d|o'] eqn:Er; simpl in H.
    2:{ inversion H; subst. right; right. exists OtherErr. eapply read_files_acc_stop; exact Er. }
    destruct (negb (grammar_present a d)); [inversion H; left; reflexivity|].
    destruct (needs_constraint (a_cmd a) && negb (constraint_present a d)); [inversion H; left; reflexivity|].
    destruct (match a_cmd a with Solve => match a_outdir a with DirBad => true | _ => false end | _ => false end);
      [inversion H; left; reflexivity|].
    destruct (parse_grammar O a d) as [g|o'] eqn:Eg; simpl in H.
    2:{ inversion H; subst. destruct (parse_grammar_stop _ _ _ Eg) as [->| ->]; [left|right; left]; reflexivity. }
    destruct (read_predicates O d) as [u|o'] eqn:Ep; simpl in H.
    2:{ inversion H; subst. destruct (read_predicates_stop _ _ Ep) as [->|[e ->]]; [right; left; reflexivity|right; right; eauto]. }
    unfold parse_constraint in H.
    destruct (fold_constraints O g (constraint_sources a d) (ftrue O)); simpl in H; inversion H. right; left; reflexivity.
  Qed.

  Lemma front_cont_constraint : forall a d g f, front O a = Cont (d, g, f) ->
    fold_constraints O g (constraint_sources a d) (ftrue O) = Some f.
  Proof.
    intros a d g f H. unfold front, argparse_files in H.
    destruct (existsb unopenable (a_files a)); simpl in H; [discriminate|].
    destruct (read_files (a_files a)) as [d'|o']; simpl in H; [|discriminate].
    destruct (negb (grammar_present a d')); [discriminate|].
    destruct (needs_constraint (a_cmd a) && negb (constraint_present a d')); [discriminate|].
    destruct (match a_cmd a with Solve => match a_outdir a with DirBad => true | _ => false end | _ => false end);
      [discriminate|].
    destruct (parse_grammar O a d') as [g'|o']; simpl in H; [|discriminate].
    destruct (read_predicates O d') as [u|o']; simpl in H; [|discriminate].
    unfold parse_constraint in H.
    destruct (fold_constraints O g' (constraint_sources a d') (ftrue O)) eqn:E; simpl in H; inversion H; subst. exact E.
  Qed.

  Lemma get_input_stop_ok : forall a d g f o, get_input O fx a d g f = Stop o -> stop_ok o.
  Proof.
    intros a d g f o H. unfold get_input in H.
    destruct (input_text fx a d) as [s|o'] eqn:Ei; simpl in H.
    - destruct (json_in O g s); try discriminate. destruct (fx_json fx); inversion H. right; right; eauto.
    - inversion H; subst. unfold input_text in Ei. destruct (truthy (a_input a)); [discriminate|].
      destruct (names_with is_input_name d) as [|[n c] [|p l]]; try (inversion Ei; left; reflexivity).
      destruct c; [|discriminate]. destruct (fx_empty fx); inversion Ei. right; right; eauto.
  Qed.
End Kinds.

(* ------------------------------------------------------------------ *)
(* 4. isla check exits 0 exactly when ...                               *)
(* ------------------------------------------------------------------ *)
Section Check.
  Variables G F T : Type.
  Variable O : oracles G F T.
  Variable fx : fixes.
  (* the meaning of "tree t satisfies formula f" (C03) and its three laws *)
  Variable Sat : gram G -> F -> T -> Prop.
  Hypothesis H_check : forall g f t, check_api O g f t = ChkTrue <-> Sat g f t.
  Hypothesis H_true : forall g t, Sat g (ftrue O) t.
  Hypothesis H_and : forall g f1 f2 t, Sat g (fand O f1 f2) t <-> Sat g f1 t /\ Sat g f2 t.

  (* the constraint handed to the solver means: every given constraint holds (conjunction) *)
  Lemma fold_constraints_sat : forall g t cs acc f,
    fold_constraints O g cs acc = Some f ->
    (Sat g f t <-> Sat g acc t /\ forall c, In c cs -> exists fc, isla O g c = Some fc /\ Sat g fc t).
  Proof.
    intros g t cs. induction cs as [|c0 cs IH]; intros acc f H; simpl in H.
    - inversion H; subst. split; [intro X; split; [exact X | intros c []] | intros [X _]; exact X].
    - destruct (isla O g c0) as [f0|] eqn:E; [|discriminate].
      rewrite (IH _ _ H). rewrite H_and. split.
      + intros [[Ha Hf0] Hrest]. split; [exact Ha|]. intros c [<-|HIn]; [eauto | auto].
      + intros [Ha Hall]. split; [split; [exact Ha|]|].
        * destruct (Hall c0 (or_introl eq_refl)) as (fc & Efc & Hs). rewrite E in Efc. inversion Efc; subst. exact Hs.
        * intros c HIn. apply Hall. right. exact HIn.
  Qed.

  (* the input has a tree (JSON tree accepted by the grammar, or the text parses) and every
     constraint given by -c or an .isla file parses and holds for that tree *)
  Definition accepted (a : args) : Prop :=
    exists d g f t, front O a = Cont (d, g, f) /\ get_input O fx a d g f = Cont (InTree t) /\
      forall c, In c (constraint_sources a d) -> exists fc, isla O g c = Some fc /\ Sat g fc t.

  Theorem check_exit0 : forall a, a_cmd a = Check ->
    (o_exit (run O fx a) = Exit 0 <-> accepted a).
  Proof.
    intros a Hc. unfold run. rewrite Hc. unfold run_check, do_check, accepted.
    destruct (front O a) as [[[d g] f]|o] eqn:Ef; simpl.
    - pose proof (front_cont_constraint _ _ _ O a d g f Ef) as Hfold.
      assert (HS : forall t, Sat g f t <->
                 forall c, In c (constraint_sources a d) -> exists fc, isla O g c = Some fc /\ Sat g fc t).
      { intro t. rewrite (fold_constraints_sat g t _ _ _ Hfold). split; [intros [_ X]; exact X | intro X; split; [apply H_true | exact X]]. }
      destruct (get_input O fx a d g f) as [[t|]|o'] eqn:Ei; simpl.
      + destruct (check_api O g f t) eqn:Ec; simpl.
        * split; [intros _|reflexivity]. exists d, g, f, t. split; [reflexivity|split; [exact Ei|]]. apply HS. apply H_check. exact Ec.
        * split; [discriminate|]. intros (d' & g' & f' & t' & E1 & E2 & Hall). inversion E1; subst. rewrite Ei in E2. inversion E2; subst.
          apply HS in Hall. apply H_check in Hall. congruence.
        * split; [discriminate|]. intros (d' & g' & f' & t' & E1 & E2 & Hall). inversion E1; subst. rewrite Ei in E2. inversion E2; subst.
          apply HS in Hall. apply H_check in Hall. congruence.
        * split; [discriminate|]. intros (d' & g' & f' & t' & E1 & E2 & Hall). inversion E1; subst. rewrite Ei in E2. inversion E2; subst.
          apply HS in Hall. apply H_check in Hall. congruence.
      + split; [discriminate|]. intros (d' & g' & f' & t' & E1 & E2 & _). inversion E1; subst. rewrite Ei in E2. discriminate.
      + split.
        * intro X. exfalso. exact (stop_ok_not_0 _ (get_input_stop_ok _ _ _ O fx a d g f o' Ei) X).
        * intros (d' & g' & f' & t' & E1 & E2 & _). inversion E1; subst. rewrite Ei in E2. discriminate.
    - split.
      + intro X. exfalso. exact (stop_ok_not_0 _ (front_stop_ok _ _ _ O a o Ef) X).
      + intros (d' & g' & f' & t' & E1 & _). discriminate.
  Qed.

  (* ... and exits 1 with one verdict line otherwise, once the files are in order and the evaluator decides *)
  Theorem check_exit1 : forall a d g f r, a_cmd a = Check ->
    front O a = Cont (d, g, f) -> get_input O fx a d g f = Cont r ->
    (forall t, r = InTree t -> check_api O g f t = ChkTrue \/ check_api O g f t = ChkFalse) ->
    ~ accepted a ->
    run O fx a = Outcome (Exit 1) [match r with InFail => MsgNoParse | InTree _ => MsgNotSat end] SeNone.
  Proof.
    intros a d g f r Hc Ef Ei Hdec Hna.
    assert (X : o_exit (run O fx a) <> Exit 0) by (intro X; apply Hna; apply check_exit0; assumption).
    unfold run in *. rewrite Hc in *. unfold run_check, do_check in *. rewrite Ef in *. simpl in *. rewrite Ei in *. simpl in *.
    destruct r as [t|]; [|reflexivity].
    destruct (Hdec t eq_refl) as [E|E]; rewrite E in *; simpl in *; [congruence | reflexivity].
  Qed.
End Check.

(* ------------------------------------------------------------------ *)
(* 5. no traceback: what holds, what does not                           *)
(* ------------------------------------------------------------------ *)
Section NoTraceback.
  Variables G F T : Type.
  Variable O : oracles G F T.
  Variable fx : fixes.

  Lemma get_input_cont : forall a d g f s,
    input_text fx a d = Cont s -> (fx_json fx = true \/ forall e, json_in O g s <> JRaise e) ->
    exists r, get_input O fx a d g f = Cont r.
  Proof.
    intros a d g f s Hs Hj. unfold get_input. rewrite Hs. simpl.
    destruct (json_in O g s) as [|e|t] eqn:E; eauto.
    destruct Hj as [-> | Hj]; [eauto | exfalso; exact (Hj e eq_refl)].
  Qed.

  (* check: files in order, input text available, JSON stage harmless, evaluator decides
     => exit code 0 or 1, exactly one verdict line, nothing on stderr *)
  Theorem check_no_traceback_partial : forall a d g f s,
    a_cmd a = Check -> front O a = Cont (d, g, f) -> input_text fx a d = Cont s ->
    (fx_json fx = true \/ forall e, json_in O g s <> JRaise e) ->
    (forall t, check_api O g f t = ChkTrue \/ check_api O g f t = ChkFalse) ->
    exists code msg, run O fx a = Outcome (Exit code) [msg] SeNone /\ (code = 0%Z \/ code = 1%Z).
  Proof.
    intros a d g f s Hc Ef Hs Hj Hdec. destruct (get_input_cont a d g f s Hs Hj) as [r Hr].
    unfold run. rewrite Hc. unfold run_check, do_check. rewrite Ef. simpl. rewrite Hr. simpl.
    destruct r as [t|]; [|exists 1%Z, MsgNoParse; split; [reflexivity | right; reflexivity]].
    destruct (Hdec t) as [E|E]; rewrite E; simpl.
    - exists 0%Z, MsgSat. split; [reflexivity | left; reflexivity].
    - exists 1%Z, MsgNotSat. split; [reflexivity | right; reflexivity].
  Qed.

  (* solve: once the solver object exists, the loop itself never lets an exception escape
     (StopIteration, TimeoutError and every other exception of solve() are handled) *)
  Lemma solve_loop_no_traceback : forall a evs i acc e,
    o_exit (solve_loop O a evs i acc) <> Traceback e.
  Proof.
    intros a evs. induction evs as [|ev evs IH]; intros i acc e; simpl.
    - destruct ((0 <? a_num a)%Z && (a_num a <=? i)%Z); simpl; discriminate.
    - destruct ((0 <? a_num a)%Z && (a_num a <=? i)%Z); simpl; [discriminate|].
      destruct ev; simpl; try discriminate. apply IH.
  Qed.

  Theorem solve_no_traceback_partial : forall a d g f,
    a_cmd a = Solve -> front O a = Cont (d, g, f) -> solver_init O g f = None ->
    forall e, o_exit (run O fx a) <> Traceback e.
  Proof.
    intros a d g f Hc Ef Hi e. unfold run. rewrite Hc. unfold run_solve. rewrite Ef. simpl.
    destruct (a_wv a); simpl; try discriminate. rewrite Hi. apply solve_loop_no_traceback.
  Qed.

  (* the solve loop prints exactly the solver's trees, in order, and stops after n of them *)
  Lemma solve_loop_lines : forall a evs i acc,
    a_outdir a = DirNone ->
    exists ts, o_stdout (solve_loop O a evs i acc) = acc ++ map (fun t => Line (render O a t)) ts /\
               forall t, In t ts -> In (SolTree t) evs.
  Proof.
    intros a evs. induction evs as [|ev evs IH]; intros i acc Hd; simpl.
    - exists []. destruct ((0 <? a_num a)%Z && (a_num a <=? i)%Z); simpl; rewrite app_nil_r; split; auto; intros t [].
    - destruct ((0 <? a_num a)%Z && (a_num a <=? i)%Z); simpl.
      + exists []. simpl. rewrite app_nil_r. split; auto. intros t [].
      + destruct ev as [t| | |e0]; simpl; try (exists []; simpl; rewrite app_nil_r; split; auto; intros t' []).
        rewrite Hd. destruct (IH (i + 1)%Z (acc ++ [Line (render O a t)]) Hd) as (ts & E & HIn).
          exists (t :: ts). split.
          -- rewrite E. rewrite <- app_assoc. reflexivity.
          -- intros t' [<-|H']; [left; reflexivity | right; apply HIn; exact H'].
  Qed.
End NoTraceback.

(* ------------------------------------------------------------------ *)
(* 6. concrete witnesses (non-vacuity, refutations)                     *)
(* ------------------------------------------------------------------ *)
(* a toy library: every non-empty text is a grammar; constraints "t" / "f" are the formulas
   true / false; the language is {"a"}; the text "1" is JSON but not a tree *)
Definition O0 : oracles unit bool str :=
  Oracles unit bool str
    (fun s => match s with [] => None | _ => Some tt end)
    (fun _ => PyOk None)
    (fun _ s => match s with [116%N] => Some true | [102%N] => Some false | _ => None end)
    true andb
    (fun _ s => match s with [49%N] => JRaise TypeErr | _ => JNotJson end)
    (fun _ _ s => match s with [97%N] => Some s | _ => None end)
    (fun _ f _ => if f then ChkTrue else ChkFalse)
    (fun _ _ => None) (fun _ _ => [SolTree [97%N]]) (fun _ _ t => RepOk t) (fun _ _ t => Ok t)
    (fun t => t) (fun _ t => t).

Definition f_g  := File [103; 46; 98; 110; 102]%N (Text [120]%N).             (* g.bnf  : "x" *)
Definition f_c  := File [99; 46; 105; 115; 108; 97]%N (Text [116]%N).         (* c.isla : "t" *)
Definition f_cf := File [100; 46; 105; 115; 108; 97]%N (Text [102]%N).        (* d.isla : "f" *)
Definition f_in (c : str) := File [105; 110]%N (Text c).                      (* in *)
Definition mk (c : cmd) (fs : list file) := Args c None [] None fs 1%Z false false WvOk DirNone OutNone.

Definition Sat0 (_ : gram unit) (f : bool) (_ : str) : Prop := f = true.

Example check_accepts_example :
  run O0 pinned (mk Check [f_g; f_c; f_in [97; 10]%N]) = Outcome (Exit 0) [MsgSat] SeNone /\
  run O0 pinned (mk Check [f_g; f_c; f_cf; f_in [97; 10]%N]) = Outcome (Exit 1) [MsgNotSat] SeNone /\
  run O0 pinned (mk Check [f_g; f_c; f_in [98; 10]%N]) = Outcome (Exit 1) [MsgNoParse] SeNone.
Proof. repeat split; vm_compute; reflexivity. Qed.

Example toy_laws :
  (forall g f t, check_api O0 g f t = ChkTrue <-> Sat0 g f t) /\
  (forall g t, Sat0 g (ftrue O0) t) /\
  (forall g f1 f2 t, Sat0 g (fand O0 f1 f2) t <-> Sat0 g f1 t /\ Sat0 g f2 t).
Proof.
  unfold Sat0. simpl. repeat split; try reflexivity.
  - destruct f; [reflexivity|discriminate].
  - intros ->. reflexivity.
  - apply andb_true_iff in H. tauto.
  - apply andb_true_iff in H. tauto.
  - intros [-> ->]. reflexivity.
Qed.

Example preconditions_example :
  preconditions (mk Check [File [103; 46; 98; 110; 102]%N (Text []); f_c; f_in [97; 10]%N]) /\
  malformed_grammar _ _ _ O0 (mk Check [File [103; 46; 98; 110; 102]%N (Text []); f_c; f_in [97; 10]%N]).
Proof.
  split.
  - split; [|split].
    + intros f [<-|[<-|[<-|[]]]]; simpl; eauto.
    + intros _. reflexivity.
    + intros [H _]. discriminate H.
  - right. split; [reflexivity|]. exists [103; 46; 98; 110; 102]%N, []. repeat split. left. reflexivity.
Qed.

(* FULL STATEMENT (false for the pinned tree):
     forall O a e, o_exit (run O pinned a) <> Traceback e
   refuted by an empty input file, and by an input that is JSON but not a tree *)
Theorem no_traceback_refuted_empty :
  exists a, run O0 pinned a = traceback IndexErr /\ K_empty_input pinned a = true /\
            run O0 repaired a = Outcome (Exit 1) [MsgNoParse] SeNone.
Proof. exists (mk Check [f_g; f_c; f_in []]). repeat split; vm_compute; reflexivity. Qed.

Theorem no_traceback_refuted_json :
  exists a, run O0 pinned a = traceback TypeErr /\ K_json_nontree _ _ _ O0 pinned a = true /\
            run O0 repaired a = Outcome (Exit 1) [MsgNoParse] SeNone.
Proof. exists (mk Check [f_g; f_c; f_in [49; 10]%N]). repeat split; vm_compute; reflexivity. Qed.

(* the evaluator answering "unknown" (open tree) is not caught either *)
Theorem no_traceback_refuted_unknown :
  exists (O : oracles unit bool str) a, run O repaired a = traceback OtherErr /\ K_check_raises _ _ _ O repaired a = true.
Proof.
  exists (Oracles unit bool str (bnf O0) (pyext O0) (isla O0) true andb (json_in O0) (parse_api O0)
            (fun _ _ _ => ChkUnknown) (solver_init O0) (solve_api O0) (repair_api O0) (mutate_api O0) (to_str O0) (to_json O0)),
         (mk Check [f_g; f_c; f_in [97; 10]%N]).
  split; vm_compute; reflexivity.
Qed.
