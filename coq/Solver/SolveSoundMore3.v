(* C01 — proof extension 3: soundness of the rules of RulesMore3.v (SMT elimination given a Z3
   model, count's insertion search, numeric quantifiers) and solve_sound_partial3, whose only
   premise besides the start symbol is the evaluated grammar check reach_closedb g.
   Cross-property inputs: C14 (FixedLenFacts.count_target_met, finish_candidate_target_met),
   C10 (parse_sound_full), C14 (cflt_sound). *)
From ISLA Require Export RulesMore3.
From ISLA Require FixedLenCountMore EarleyWrap EarleyPrune Earley.
From Coq Require Import Lia ZArith DecimalN.

(* ------------------------------------------------------------------ *)
(* A. completion and replacement                                        *)
(* ------------------------------------------------------------------ *)
Lemma compl_refl_shape : forall t, shape_ok t = true -> compl t t.
Proof.
  induction t as [l i o ks IH] using tree_ind'. intro Hs. rewrite compl_unfold.
  simpl in Hs. apply andb_true_iff in Hs as [Ho Hk]. destruct o.
  - destruct ks; [auto | discriminate].
  - simpl. repeat split. apply compl_kids_F2.
    induction IH as [|k r Hk1 Hr IHr]; [constructor|].
    simpl in Hk. apply andb_true_iff in Hk as [Hk2 Hk3]. constructor; auto.
Qed.

Lemma F2_set_nth {A} (R : A -> A -> Prop) : forall (l : list A) i c c',
  (forall x, In x l -> R x x) -> nth_error l i = Some c -> R c c' ->
  Forall2 R l (Insert.set_nth l i c').
Proof.
  induction l as [|y l IH]; intros i c c' Hrefl Hn Hr.
  - destruct i; discriminate.
  - destruct i as [|i]; simpl in *.
    + inversion Hn; subst. constructor; [assumption|].
      clear - Hrefl. induction l as [|z l IHl]; constructor.
      * apply Hrefl. right. left. reflexivity.
      * apply IHl. intros x [Hx|Hx]; apply Hrefl; [left | right; right]; assumption.
    + constructor; [apply Hrefl; left; reflexivity|].
      eapply IH; try eassumption. intros x Hx. apply Hrefl. right. assumption.
Qed.

(* replacing a subtree by one of its completions completes the whole tree *)
Lemma replace_at_compl p : forall t r t' old,
  shape_ok t = true -> subtree t p = Some old -> compl old r ->
  Insert.replace_at t p r = Some t' -> compl t t'.
Proof.
  induction p as [|i p IH]; intros t r t' old Hsh Hs Hc Hr.
  - simpl in *. inversion Hs; inversion Hr; subst. assumption.
  - destruct t as [l i0 o ks]. simpl in Hs, Hr, Hsh.
    destruct (nth_error ks i) as [c|] eqn:Ec; [|discriminate].
    destruct (Insert.replace_at c p r) as [c'|] eqn:Er; [|discriminate].
    inversion Hr; subst t'. clear Hr.
    apply andb_true_iff in Hsh as [Ho Hk]. rewrite forallb_forall in Hk.
    destruct o; [destruct ks; [destruct i; discriminate | discriminate]|].
    rewrite compl_unfold. simpl. repeat split. apply compl_kids_F2.
    apply (F2_set_nth compl ks i c c').
    + intros x Hx. apply compl_refl_shape. apply Hk. assumption.
    + assumption.
    + apply (IH c r c' old); try assumption. apply Hk. eapply nth_error_In. eassumption.
Qed.

Lemma refines_wf_preserves g start i0 cst phi R :
  refines_wf g R -> preserves (inv g start i0 cst phi) R.
Proof.
  intros HR s s' Hr (Hw & Hl & Hs). destruct (HR s s' Hr Hw) as (Hl' & Hw' & Hs').
  split; [assumption|]. split; [congruence|]. intros t' Ht'. apply Hs. apply Hs'. assumption.
Qed.

Lemma refines_refines_wf g R : refines g R -> refines_wf g R.
Proof.
  intros HR s s' Hr Hw. destruct (HR s s' Hr) as (Hl & Hw' & Hs). auto.
Qed.

(* ------------------------------------------------------------------ *)
(* B. count's insertion search                                          *)
(* ------------------------------------------------------------------ *)
Lemma plit_models t b neg f :
  models satom_denote t b (plit neg f) <->
  (if neg then ~ models satom_denote t b f else models satom_denote t b f).
Proof. destruct neg; simpl; tauto. Qed.

(* the count literal is TRUE on every grammar-valid completion of the substituted tree *)
Lemma count_result_true g t1 b x needle a3 (neg : bool) p c k t' :
  Eval3.reach_closedb g = true -> is_nt needle = true ->
  b x = Some (VPos p) -> subtree t1 p = Some c -> num_val b a3 k ->
  (if neg then N.of_nat (count_lbl needle c) <> k else N.of_nat (count_lbl needle c) = k) ->
  settled g needle c -> compl t1 t' -> wf_tree g t' ->
  models satom_denote t' b (plit neg (count_atom x needle a3)).
Proof.
  intros Hrc Hnt Hb Hs Hk Hcnt Hset Hc Hw.
  assert (Hnow : models satom_denote t1 b (plit neg (count_atom x needle a3))).
  { apply plit_models. destruct neg; simpl.
    - intros (_ & p1 & s1 & k1 & Hp1 & Hs1 & Hk1 & Hc1).
      rewrite Hb in Hp1. inversion Hp1; subst p1. rewrite Hs in Hs1. inversion Hs1; subst s1.
      rewrite (num_val_fun b a3 k1 k Hk1 Hk) in Hc1. contradiction.
    - split; [reflexivity|]. exists p, c, k. auto. }
  destruct (stable_count_settled g t1 b x needle a3 p c Hrc Hnt Hb Hs Hset) as [Hpos Hneg].
  destruct neg; simpl in *.
  - apply (Hneg t' Hc Hw Hnow).
  - apply (Hpos t' Hc Hw Hnow).
Qed.

Theorem count_search_refines g :
  Eval3.reach_closedb g = true -> refines_wf g (count_search_step g).
Proof.
  intros Hrc s s' H Hw.
  destruct H as [cs1 cs2 b x needle a3 neg t p s0 c t1 k Hb Hs Hk Hnt Hcc Hwc Hcnt Hset Hrep].
  simpl in *.
  assert (Hl : lbl c = lbl s0) by (apply compl_lbl; assumption).
  assert (Hw1 : wf_tree g t1) by (eapply InsertSelfAssertMore.replace_at_wf_gen; eassumption).
  assert (Hct : compl t t1).
  { eapply replace_at_compl; try eassumption. eapply FixedLenCountMore.wf_tree_shape_ok. eassumption. }
  split; [apply compl_lbl; assumption|]. split; [assumption|].
  intros t' (Hc & Ho & Hwt & Hh). simpl in *. unfold Sol; simpl.
  split; [eapply compl_trans; eassumption|]. split; [assumption|]. split; [assumption|].
  apply holds_mid. split; [|assumption].
  eapply (count_result_true g t1 b x needle a3 neg p c k t'); try eassumption.
  eapply InsertFacts.replace_at_subtree. eassumption.
Qed.

(* link to C14: a tree c that meets the count target in the sense of C14
   (C14_count_result_target_met / C14_count_insert_result_sound, with the computed reachability)
   has the two count guards of the rule *)
Lemma count_guards_of_c14 g needle tgt c :
  FixedLenFacts.count_target_met (Eval3.reachb g) needle tgt c ->
  count_lbl needle c = tgt /\ settled g needle c.
Proof.
  intros [Hocc Hop]. rewrite <- FixedLenFacts.count_nodes_spec in Hocc. split.
  - exact Hocc.
  - intros r n Hn Ho. apply (Hop r n Hn Ho).
Qed.

(* ... so every result of the modelled completion loop of count() (C14 finish_candidate) that is a
   completion of the in-tree gives a step of the rule *)
Theorem count_search_step_of_finish g fuel cs1 cs2 (b : env) (x : var) needle a3 t p s cand c t1 k :
  b x = Some (VPos p) -> subtree t p = Some s -> num_val b a3 k -> is_nt needle = true ->
  shape_ok cand = true ->
  FixedLen.finish_candidate (Eval3.reachb g) fuel g needle cand = FixedLen.FinTree c ->
  N.of_nat (FixedLen.count_nodes needle cand) = k ->
  compl s c -> wf_tree g c ->
  Insert.replace_at t p c = Some t1 ->
  count_search_step g (cs1 ++ (b, count_atom x needle a3) :: cs2, t) (cs1 ++ cs2, t1).
Proof.
  intros Hb Hs Hk Hnt Hsh Hfin Hcand Hcc Hwc Hrep.
  pose proof (FixedLenCountMore.finish_candidate_target_met _ _ _ _ _ _ Hsh Hfin) as Hmet.
  destruct (count_guards_of_c14 g needle _ c Hmet) as [Hn Hset].
  apply (r_count_search g cs1 cs2 b x needle a3 false t p s c t1 k); try assumption.
  simpl. rewrite Hn. rewrite <- FixedLenFacts.count_nodes_spec. assumption.
Qed.

(* the in-tree is an open leaf: every grammar-valid tree with its label is a completion *)
Lemma compl_open_leaf l i r : lbl r = l -> compl (Node l i true []) r.
Proof. intro H. rewrite compl_unfold. auto. Qed.

(* ------------------------------------------------------------------ *)
(* C. SMT elimination                                                   *)
(* ------------------------------------------------------------------ *)
(* ground variables keep their tree under completion *)
Lemma tenv_ground t t' b vs v : compl t t' -> vars_ground t b vs -> In v vs ->
  tenv t' b v = tenv t b v.
Proof.
  intros Hc Hg Hin. destruct (Hg v Hin) as [(p & s & Hb & Hs & Ho)|(n & Hb)].
  - eapply tenv_closed; eassumption.
  - unfold tenv. rewrite Hb. reflexivity.
Qed.

Theorem stable_smt_ground t b a : vars_ground t b (satom_vars a) ->
  stable t b (FSmt a) /\ stable t b (FNot (FSmt a)).
Proof.
  intro Hv. split; intros t' Hc H; simpl in *.
  - eapply satom_denote_ext; [|eassumption]. intros v Hin. eapply tenv_ground; eassumption.
  - intro H'. apply H. eapply satom_denote_ext; [|eassumption]. intros v Hin.
    symmetry. eapply tenv_ground; eassumption.
Qed.

Theorem smt_solve_refines g : refines g (smt_solve_step g).
Proof.
  intros s s' H. destruct H as [cs cs' solved t t1 Hct Hw1 Hcov Hsolved]. simpl.
  split; [apply compl_lbl; assumption|]. split; [auto|].
  intros t' (Hc & Ho & Hwt & Hh). simpl in *. unfold Sol; simpl.
  split; [eapply compl_trans; eassumption|]. split; [assumption|]. split; [assumption|].
  intros b f Hin. destruct (Hcov (b, f) Hin) as [Hk|Hs]; [apply Hh; assumption|].
  destruct (Hsolved b f Hs) as (neg & a & -> & Hg & Hm).
  destruct (stable_smt_ground t1 b a Hg) as [Hpos Hneg].
  destruct neg; simpl in *; [apply (Hneg t' Hc Hm) | apply (Hpos t' Hc Hm)].
Qed.

(* --- atoms over trees vs. atoms over strings --- *)
Definition strs (e : var -> option tree) : var -> option str :=
  fun v => match e v with Some t => Some (yield t) | None => None end.

Lemma st_den_sden e x u : st_den e x u <-> st_sden (strs e) x u.
Proof.
  destruct x as [v|s]; simpl; [|tauto]. unfold strs. split.
  - intros (t & Ht & ->). rewrite Ht. reflexivity.
  - destruct (e v) as [t|]; intro H; [|discriminate]. inversion H. eauto.
Qed.

Lemma satom_denote_sden a e : satom_denote a e <-> satom_sden a (strs e).
Proof.
  destruct a as [b0|neg x y|op x n|op x n|op x y]; simpl.
  - tauto.
  - split; intros (u & w & Hu & Hw & H); exists u, w; (split; [apply st_den_sden; assumption|]);
      (split; [apply st_den_sden; assumption | assumption]).
  - split; intros (u & Hu & H); exists u; (split; [apply st_den_sden; assumption | assumption]).
  - split; intros (u & Hu & H); exists u; (split; [apply st_den_sden; assumption | assumption]).
  - split; intros (u & w & Hu & Hw & H); exists u, w; (split; [apply st_den_sden; assumption|]);
      (split; [apply st_den_sden; assumption | assumption]).
Qed.

Lemma st_sden_ext m m' x u : (forall v, In v (st_vars x) -> m' v = m v) -> st_sden m x u -> st_sden m' x u.
Proof. destruct x as [v|s]; simpl; [|tauto]. intros He H. rewrite He; auto. Qed.

Lemma satom_sden_ext a m m' : (forall v, In v (satom_vars a) -> m' v = m v) ->
  satom_sden a m -> satom_sden a m'.
Proof.
  destruct a as [b0|neg x y|op x n|op x n|op x y]; simpl; intros He H.
  - assumption.
  - destruct H as (u & w & Hu & Hw & H). exists u, w.
    split; [eapply st_sden_ext; [|eassumption]; intros v Hv; apply He; apply in_or_app; auto|].
    split; [eapply st_sden_ext; [|eassumption]; intros v Hv; apply He; apply in_or_app; auto|]. assumption.
  - destruct H as (u & Hu & H). exists u. split; [eapply st_sden_ext; eassumption | assumption].
  - destruct H as (u & Hu & H). exists u. split; [eapply st_sden_ext; eassumption | assumption].
  - destruct H as (u & w & Hu & Hw & H). exists u, w.
    split; [eapply st_sden_ext; [|eassumption]; intros v Hv; apply He; apply in_or_app; auto|].
    split; [eapply st_sden_ext; [|eassumption]; intros v Hv; apply He; apply in_or_app; auto|]. assumption.
Qed.

(* --- tree.substitute(solution) --- *)
Lemma replace_all_disjoint p : forall rest t t1,
  replace_all t rest = Some t1 -> (forall q, In q (map fst rest) -> indep p q) ->
  subtree t1 p = subtree t p.
Proof.
  induction rest as [|[q r] rest IH]; intros t t1 H Hind; simpl in H.
  - inversion H. reflexivity.
  - destruct (Insert.replace_at t q r) as [t'|] eqn:Er; [|discriminate].
    rewrite (IH t' t1 H); [|intros q' Hq'; apply Hind; right; assumption].
    destruct (Hind q (or_introl eq_refl)) as [H1 H2].
    apply (InsertTrackMore.replace_at_disjoint q t r t' p Er); assumption.
Qed.

Lemma replace_all_spec g : forall sol t t1,
  wf_tree g t -> pairwise_indep (map fst sol) ->
  (forall p r, In (p, r) sol -> exists old, subtree t p = Some old /\ compl old r /\ wf_tree g r) ->
  replace_all t sol = Some t1 ->
  compl t t1 /\ wf_tree g t1 /\ (forall p r, In (p, r) sol -> subtree t1 p = Some r).
Proof.
  induction sol as [|[p r] rest IH]; intros t t1 Hw Hind Hent H; simpl in H.
  - inversion H; subst t1. split; [|split; [assumption|intros p r []]].
    apply compl_refl_shape. eapply FixedLenCountMore.wf_tree_shape_ok. eassumption.
  - destruct (Insert.replace_at t p r) as [t'|] eqn:Er; [|discriminate].
    simpl in Hind. destruct Hind as [Hp Hrest].
    destruct (Hent p r (or_introl eq_refl)) as (old & Hold & Hc & Hwr).
    assert (Hw' : wf_tree g t').
    { apply (InsertSelfAssertMore.replace_at_wf_gen g p t r t' old Hw Er Hold); [apply compl_lbl; assumption | assumption]. }
    assert (Hct : compl t t').
    { eapply replace_at_compl; try eassumption. eapply FixedLenCountMore.wf_tree_shape_ok. eassumption. }
    assert (Hent' : forall q r', In (q, r') rest ->
              exists old', subtree t' q = Some old' /\ compl old' r' /\ wf_tree g r').
    { intros q r' Hin. destruct (Hent q r' (or_intror Hin)) as (old' & Ho' & Hc' & Hw'').
      exists old'. split; [|auto].
      destruct (Hp q) as [H1 H2]; [apply in_map_iff; exists (q, r'); auto|].
      rewrite (InsertTrackMore.replace_at_disjoint p t r t' q Er H1 H2). assumption. }
    destruct (IH t' t1 Hw' Hrest Hent' H) as (Hc1 & Hw1 & Hsub).
    split; [eapply compl_trans; eassumption|]. split; [assumption|].
    intros q r' [E|Hin].
    + inversion E; subst q r'. rewrite (replace_all_disjoint p rest t' t1 H Hp).
      eapply InsertFacts.replace_at_subtree. eassumption.
    + apply Hsub. assumption.
Qed.

(* --- numerals --- *)
Lemma is_nt_dec n : is_nt (dec n) = false.
Proof. unfold dec. destruct (N.to_uint n); reflexivity. Qed.

Lemma num_str_dec n : num_str n = dec n.
Proof. unfold num_str, num_tree. simpl. rewrite is_nt_dec. reflexivity. Qed.

(* THE SMT STEP, GIVEN A MODEL.  External fact (last premise): the assignment Z3 returns — mu on the
   positions of the instantiated trees, the numeral itself on numeric constants — satisfies the
   literals it was given.  Reconstruction facts (provided by C10 / C14 for the modelled parser and
   create_fixed_length_tree): every rebuilt tree is a closed grammar-valid completion of the subtree
   it replaces and spells the assigned string.  Then the Python step is a step of the rule. *)
Theorem smt_step_sound_given_model g cs cs' solved t t1 sol (mu : path -> str) :
  wf_tree g t -> pairwise_indep (map fst sol) ->
  (forall p r, In (p, r) sol ->
     exists old, subtree t p = Some old /\ compl old r /\ wf_tree g r /\
                 is_openT r = false /\ yield r = mu p) ->
  replace_all t sol = Some t1 ->
  (forall c, In c cs -> In c cs' \/ In c solved) ->
  (forall b f, In (b, f) solved ->
     exists neg a, f = plit neg (FSmt a) /\
       (forall v, In v (satom_vars a) ->
          (exists p, b v = Some (VPos p) /\ In p (map fst sol)) \/ (exists n, b v = Some (VNum n))) /\
       (if neg then ~ satom_sden a (sigma mu b) else satom_sden a (sigma mu b))) ->
  smt_solve_step g (cs, t) (cs', t1).
Proof.
  intros Hw Hind Hent Hrep Hcov Hz3.
  assert (Hent0 : forall p r, In (p, r) sol ->
            exists old, subtree t p = Some old /\ compl old r /\ wf_tree g r).
  { intros p r Hin. destruct (Hent p r Hin) as (old & H1 & H2 & H3 & _). eauto. }
  destruct (replace_all_spec g sol t t1 Hw Hind Hent0 Hrep) as (Hct & Hw1 & Hsub).
  apply (r_smt g cs cs' solved t t1 Hct Hw1 Hcov).
  intros b f Hin. destruct (Hz3 b f Hin) as (neg & a & -> & Hvars & Hsat).
  exists neg, a. split; [reflexivity|].
  assert (Hstr : forall v, In v (satom_vars a) -> strs (tenv t1 b) v = sigma mu b v).
  { intros v Hv. unfold strs, tenv, sigma. destruct (Hvars v Hv) as [(p & Hb & Hp)|(n & Hb)]; rewrite Hb; simpl.
    - apply in_map_iff in Hp as ([p' r] & E & Hin'). simpl in E. subst p'.
      rewrite (Hsub p r Hin'). destruct (Hent p r Hin') as (_ & _ & _ & _ & _ & Hy). rewrite Hy. reflexivity.
    - reflexivity. }
  split.
  - intros v Hv. destruct (Hvars v Hv) as [(p & Hb & Hp)|(n & Hb)]; [left | right; eauto].
    apply in_map_iff in Hp as ([p' r] & E & Hin'). simpl in E. subst p'.
    destruct (Hent p r Hin') as (_ & _ & _ & _ & Ho & _). exists p, r. auto using Hsub.
  - assert (Hiff : satom_denote a (tenv t1 b) <-> satom_sden a (sigma mu b)).
    { rewrite satom_denote_sden. split; apply satom_sden_ext; intros v Hv; [symmetry|]; apply Hstr; assumption. }
    apply plit_models. destruct neg; simpl; rewrite Hiff; assumption.
Qed.

(* an entry whose instantiated subtree is an OPEN LEAF (the only case with optimized Z3 queries):
   the trees delivered by the modelled parser (C10_parse_sound) and by create_fixed_length_tree
   (C14_cflt_sound) meet the reconstruction premises *)
Lemma sol_entry_of_parse fxA fxB fuel g cstart start w k ts r t p i :
  EarleyPrune.good_grammar g -> NoDup (map fst g) -> defined g Earley.WRAP = false ->
  defined g start = true -> defined g cstart = true ->
  (fxA = true \/ Earley.K_multistart g start = false) ->
  (fxB = true \/ Earley.K_recstart g cstart start = false) ->
  Earley.earley_parse fxA fxB fuel g cstart start w k = Ok ts -> In r ts ->
  subtree t p = Some (Node start i true []) ->
  exists old, subtree t p = Some old /\ compl old r /\ wf_tree g r /\ is_openT r = false /\ yield r = w.
Proof.
  intros H1 H2 H3 H4 H5 H6 H7 Hp Hin Hs.
  destruct (EarleyWrap.parse_sound_full fxA fxB fuel g cstart start w k ts r H1 H2 H3 H4 H5 H6 H7 Hp Hin)
    as (Hw & Ho & Hl & Hy & _).
  exists (Node start i true []).
  split; [assumption|]. split; [apply compl_open_leaf; assumption|]. auto.
Qed.

Lemma sol_entry_of_cflt g A n fuel o r t p i :
  is_nt A = true -> FixedLen.cflt fuel g A n o = FixedLen.Found r ->
  subtree t p = Some (Node A i true []) ->
  (exists old, subtree t p = Some old /\ compl old r /\ wf_tree g r /\ is_openT r = false) /\
  length (yield r) = n.
Proof.
  intros HA Hf Hs. destruct (FixedLenFacts.cflt_sound g A n fuel o r HA Hf) as (Hw & Hc & Hl & Hn).
  split; [|assumption]. exists (Node A i true []).
  split; [assumption|]. split; [apply compl_open_leaf; assumption|]. split; [assumption|].
  unfold closedb in Hc. apply negb_true_iff in Hc. assumption.
Qed.

(* with a length variable Z3 fixes only the length: an atom str.len(x) op k holds of ANY string of
   that length, in particular of the yield of the created tree *)
Lemma slen_of_length (m : var -> option str) v u op k n :
  m v = Some u -> length u = n -> cmp_holds op (Z.of_nat n) k -> satom_sden (SLen op (SVar v) k) m.
Proof. intros Hm Hl Hc. simpl. exists u. split; [assumption|]. rewrite Hl. assumption. Qed.

(* ------------------------------------------------------------------ *)
(* D. numeric quantifiers                                               *)
(* ------------------------------------------------------------------ *)
Theorem drop_stable_refines g : refines g (drop_stable_g g).
Proof.
  intros s s' H. destruct H as [cs1 cs2 b f t Hm Hst]. simpl.
  split; [reflexivity|]. split; [tauto|].
  intros t' (Hc & Ho & Hw & Hh). simpl in *. unfold Sol; simpl. repeat split; try assumption.
  apply holds_mid. split; [|assumption]. apply Hst; assumption.
Qed.

(* ForallInt instantiated by ONE value, under the guard "no other value matters" *)
Theorem forall_int_exh_refines g : refines g (forall_int_exh g).
Proof.
  intros s s' H. destruct H as [cs1 cs2 b v body n t Hexh]. simpl.
  split; [reflexivity|]. split; [tauto|].
  intros t' (Hc & Ho & Hw & Hh). simpl in *. unfold Sol; simpl. repeat split; try assumption.
  apply holds_mid in Hh as [Hn Hrest]. apply holds_mid. split; [|assumption].
  simpl. intro n'. destruct (N.eq_dec n' n) as [->|Hne]; [assumption|].
  apply Hexh; assumption.
Qed.

(* a sufficient syntactic guard, the shape the code looks for: the body is a disjunction with SMT
   disjuncts over the bound variable alone, and every numeral except n satisfies one of them
   (Z3 would have to show that the negated SMT disjuncts have the UNIQUE solution n; the code does
   not ask for that) *)
Definition only_num (v : var) (n' : N) : var -> option str :=
  fun w => if var_eqb w v then Some (num_str n') else None.

Theorem forall_int_exh_of_smt g t b v fs n :
  (forall n', n' <> n -> exists a, In (FSmt a) fs /\ (forall w, In w (satom_vars a) -> w = v) /\
                                   satom_sden a (only_num v n')) ->
  only_value_matters g t b v (FOr fs) n.
Proof.
  intros H n' t' Hne _ _ _. destruct (H n' Hne) as (a & Hin & Hvars & Hsat).
  apply models_or. exists (FSmt a). split; [assumption|]. simpl.
  apply satom_denote_sden. eapply satom_sden_ext; [|eassumption].
  intros w Hw. rewrite (Hvars w Hw). unfold strs, tenv, upd, only_num.
  rewrite EvalFacts.var_eqb_refl. reflexivity.
Qed.

(* what the code does, without guard, is UNSOUND:
   grammar <s> ::= <d>, <d> ::= "3" | "4";
   forall int i: (str.to.int(i) < 2 or exists <d> x in start: str.to.int(x) = str.to.int(i))
   is false of every tree (i = 4 on "3", i = 3 on "4"); instantiating i := 3 accepts "3". *)
Module ForallIntWitness.
  Definition nt_s : str := [60;115;62]%N.
  Definition nt_d : str := [60;100;62]%N.
  Definition g : grammar := [(nt_s, [[nt_d]]); (nt_d, [[[51]%N]; [[52]%N]])].
  Definition cst := MkVar VConst [115;116;97;114;116]%N nt_s.
  Definition vi := MkVar VBound [105]%N [78;85;77]%N.
  Definition vx := MkVar VBound [120]%N nt_d.
  Definition body : cform :=
    FOr [FSmt (SToInt CLt (SVar vi) 2);
         FExists vx (InVar cst) None (FSmt (SToInt2 CEq (SVar vx) (SVar vi)))].
  Definition t : tree := Node nt_s 0 false [Node nt_d 1 false [Node [51]%N 2 false []]].
  Definition s : cstate := ([(env0 cst, FForallInt vi body)], t).
  Definition s' : cstate := ([(upd (env0 cst) vi (VNum 3), body)], t).
End ForallIntWitness.

Theorem forall_int_inst_unsound : exists g s s' t',
  forall_int_inst s s' /\ Sol g s' t' /\ ~ Sol g s t'.
Proof.
  exists ForallIntWitness.g, ForallIntWitness.s, ForallIntWitness.s', ForallIntWitness.t.
  assert (Hsh : shape_ok ForallIntWitness.t = true) by reflexivity.
  assert (Hnq : no_numq ForallIntWitness.body = true) by reflexivity.
  pose proof (satb_spec satom satom_denote ForallIntWitness.t satom_dec satom_dec_spec 0
                ForallIntWitness.body Hsh Hnq) as Hspec.
  split; [|split].
  - apply (r_forall_int_inst [] [] (env0 ForallIntWitness.cst) ForallIntWitness.vi
             ForallIntWitness.body 3 ForallIntWitness.t).
  - unfold Sol, ForallIntWitness.s'. cbn [fst snd].
    split; [apply compl_refl_closed; reflexivity|]. split; [reflexivity|].
    split; [apply wf_treeb_spec; vm_compute; reflexivity|].
    intros b f [E|[]]. inversion E; subst. apply Hspec. vm_compute. reflexivity.
  - intros (_ & _ & _ & Hh). unfold ForallIntWitness.s in Hh. cbn [fst snd] in Hh.
    specialize (Hh (env0 ForallIntWitness.cst) (FForallInt ForallIntWitness.vi ForallIntWitness.body)
                   (or_introl eq_refl)).
    simpl in Hh. specialize (Hh 4%N).
    change (models satom_denote ForallIntWitness.t
              (upd (env0 ForallIntWitness.cst) ForallIntWitness.vi (VNum 4)) ForallIntWitness.body) in Hh.
    apply Hspec in Hh. vm_compute in Hh. discriminate.
Qed.

(* the transformation of  forall int i: exists e in w: not count(e, N, i)  — sound, because count
   holds for exactly one number per node *)
Lemma in_dom_upd_other c b i x w T q : var_eqb w i = false ->
  (in_dom c (upd b i x) (InVar w) T q <-> in_dom c b (InVar w) T q).
Proof.
  intro Hw. unfold in_dom, in_pos, upd. rewrite Hw. tauto.
Qed.

Lemma count_atom_models c b e needle i q n :
  var_eqb e i = false ->
  (models satom_denote c (upd (upd b i (VNum n)) e (VPos q)) (count_atom e needle (PVar i)) <->
   exists s, subtree c q = Some s /\ N.of_nat (count_lbl needle s) = n).
Proof.
  intro Hei. assert (Hie : var_eqb i e = false) by (rewrite EvalFacts.var_eqb_sym; assumption).
  simpl. unfold upd. rewrite EvalFacts.var_eqb_refl, Hie, EvalFacts.var_eqb_refl. split.
  - intros (_ & p & s & k & Hp & Hs & Hk & Hc). inversion Hp; subst p. inversion Hk; subst k. eauto.
  - intros (s & Hs & Hc). split; [reflexivity|]. exists q, s, n. auto.
Qed.

Theorem forall_int_transform_refines g : refines g forall_int_transform.
Proof.
  intros s s' H. destruct H as [cs1 cs2 b i e e' w needle t Hwi Hei He'i Hty]. simpl.
  split; [reflexivity|]. split; [tauto|].
  intros t' (Hc & Ho & Hw & Hh). simpl in *. unfold Sol; simpl. repeat split; try assumption.
  apply holds_mid in Hh as [Hnew Hrest]. apply holds_mid. split; [|assumption].
  unfold fi_new in Hnew. unfold fi_old.
  change (exists n0, models satom_denote t' (upd b i (VNum n0))
            (FAnd [FExists e' (InVar w) None (count_atom e' needle (PVar i));
                   FExists e (InVar w) None (FNot (count_atom e needle (PVar i)))])) in Hnew.
  destruct Hnew as (n0 & Hand).
  pose proof (proj1 (models_and t' _ _) Hand) as Hall.
  assert (HA := Hall _ (or_introl eq_refl)).
  assert (HB := Hall _ (or_intror (or_introl eq_refl))).
  change (forall n, models satom_denote t' (upd b i (VNum n))
            (FExists e (InVar w) None (FNot (count_atom e needle (PVar i))))).
  intro n. destruct (N.eq_dec n n0) as [->|Hne]; [assumption|].
  change (exists q, in_dom t' (upd b i (VNum n0)) (InVar w) (vtype e') q /\
                    models satom_denote t' (upd (upd b i (VNum n0)) e' (VPos q))
                      (count_atom e' needle (PVar i))) in HA.
  destruct HA as (q & Hd & Hcnt).
  apply (count_atom_models t' b e' needle i q n0 He'i) in Hcnt as (sq & Hsq & Hnq).
  change (exists q0, in_dom t' (upd b i (VNum n)) (InVar w) (vtype e) q0 /\
                     ~ models satom_denote t' (upd (upd b i (VNum n)) e (VPos q0))
                         (count_atom e needle (PVar i))).
  exists q. split.
  - rewrite <- Hty. apply in_dom_upd_other; [assumption|].
    apply (in_dom_upd_other t' b i (VNum n0) w (vtype e') q Hwi). assumption.
  - intro Hcn. apply (count_atom_models t' b e needle i q n Hei) in Hcn as (s2 & Hs2 & Hn2).
    rewrite Hsq in Hs2. inversion Hs2; subst s2. congruence.
Qed.

(* the class K_count at the level of the rules: conjunct dropped, tree NOT substituted — unsound.
   grammar <s> ::= <a> | <a><s>, <a> ::= "a"; count(start, "<a>", "2") on the open root; the
   completion "a" has one <a>. *)
Module CountDroppedWitness.
  Definition nt_s : str := [60;115;62]%N.
  Definition nt_a : str := [60;97;62]%N.
  Definition g : grammar := [(nt_s, [[nt_a]; [nt_a; nt_s]]); (nt_a, [[[97]%N]])].
  Definition cst := MkVar VConst [115;116;97;114;116]%N nt_s.
  Definition f : cform := count_atom cst nt_a (PStr [50]%N).
  Definition t0 : tree := Node nt_s 0 true [].
  Definition t' : tree := Node nt_s 0 false [Node nt_a 1 false [Node [97]%N 2 false []]].
End CountDroppedWitness.

Theorem count_dropped_unsound : exists g s s' t',
  count_search_dropped s s' /\ Sol g s' t' /\ ~ Sol g s t'.
Proof.
  exists CountDroppedWitness.g, ([(env0 CountDroppedWitness.cst, CountDroppedWitness.f)], CountDroppedWitness.t0),
         ([], CountDroppedWitness.t0), CountDroppedWitness.t'.
  split; [|split].
  - apply (r_count_dropped [] [] (env0 CountDroppedWitness.cst) CountDroppedWitness.cst
             CountDroppedWitness.nt_a (PStr [50]%N) CountDroppedWitness.t0).
  - unfold Sol. cbn [fst snd]. split; [apply compl_open_leaf; reflexivity|]. split; [reflexivity|].
    split; [apply wf_treeb_spec; vm_compute; reflexivity|]. intros b f [].
  - intros (_ & _ & _ & Hh). cbn [fst snd] in Hh.
    specialize (Hh _ _ (or_introl eq_refl)).
    apply (satb_spec satom satom_denote CountDroppedWitness.t' satom_dec satom_dec_spec 0
             CountDroppedWitness.f eq_refl eq_refl) in Hh.
    vm_compute in Hh. discriminate.
Qed.

(* ------------------------------------------------------------------ *)
(* E. the abstract solver: every step is a rule                         *)
(* ------------------------------------------------------------------ *)
Definition numq3 (g : grammar) : cstate -> cstate -> Prop :=
  fun s s' => forall_int_exh g s s' \/ forall_int_transform s s'.
Definition sem3 (g : grammar) : cstate -> cstate -> Prop :=
  fun s s' => count_search_step g s s' \/ drop_stable_g g s s'.

Definition step3 (g : grammar) (cst : var) (phi : cform) : cstate -> cstate -> Prop :=
  step2 g cst phi (smt_solve_step g) (numq3 g) (sem3 g).
Definition reachable3 (g : grammar) (cst : var) (phi : cform) : cstate -> cstate -> Prop :=
  reachable2 g cst phi (smt_solve_step g) (numq3 g) (sem3 g).

Lemma smt3_preserves g start i0 cst phi : preserves (inv g start i0 cst phi) (smt_solve_step g).
Proof. apply refines_preserves. apply smt_solve_refines. Qed.

Lemma numq3_preserves g start i0 cst phi : preserves (inv g start i0 cst phi) (numq3 g).
Proof.
  intros s s' [H|H].
  - apply (refines_preserves g start i0 cst phi _ (forall_int_exh_refines g)). assumption.
  - apply (refines_preserves g start i0 cst phi _ (forall_int_transform_refines g)). assumption.
Qed.

Lemma sem3_preserves g start i0 cst phi : Eval3.reach_closedb g = true ->
  preserves (inv g start i0 cst phi) (sem3 g).
Proof.
  intros Hrc s s' [H|H].
  - apply (refines_wf_preserves g start i0 cst phi _ (count_search_refines g Hrc)). assumption.
  - apply (refines_preserves g start i0 cst phi _ (drop_stable_refines g)). assumption.
Qed.

Theorem solve_sound_partial3 g start i0 cst phi s :
  Eval3.reach_closedb g = true -> is_nt start = true -> defined g start = true ->
  reachable3 g cst phi (init_state start i0 cst phi) s -> final s ->
  valid_solution g start cst phi (snd s).
Proof.
  intros Hrc Hnt Hdef Hr Hf.
  apply (solve_sound_partial2 g start i0 cst phi (smt_solve_step g) (numq3 g) (sem3 g) Hrc
           (smt3_preserves g start i0 cst phi) (numq3_preserves g start i0 cst phi)
           (sem3_preserves g start i0 cst phi Hrc) s Hnt Hdef Hr Hf).
Qed.

Lemma step3_def g cst phi s s' :
  step3 g cst phi s s' <->
  (core_step g s s' \/ eval_step_stable s s' \/ eval_step_stable_g g s s' \/
   infeasible_drop g s s' \/ insert_step g cst phi s s' \/
   smt_solve_step g s s' \/
   (forall_int_exh g s s' \/ forall_int_transform s s') \/
   (count_search_step g s s' \/ drop_stable_g g s s')).
Proof. apply step2_def. Qed.

(* ------------------------------------------------------------------ *)
(* F. non-vacuity: a run through the three new kinds of rules           *)
(* ------------------------------------------------------------------ *)
Lemma uint_str_inj : forall d d', uint_str d = uint_str d' -> d = d'.
Proof.
  induction d as [|d IH|d IH|d IH|d IH|d IH|d IH|d IH|d IH|d IH|d IH]; destruct d'; simpl; intro H;
    try discriminate; try reflexivity; inversion H as [H']; f_equal; apply IH; assumption.
Qed.

Lemma dec_injective n m : dec n = dec m -> n = m.
Proof.
  unfold dec. intro H. apply uint_str_inj in H.
  rewrite <- (DecimalN.Unsigned.of_to n), <- (DecimalN.Unsigned.of_to m), H. reflexivity.
Qed.

(* grammar <s> ::= <a>, <a> ::= "a" | "b";
   constraint  count(start, "<a>", "1")  and  (exists <a> x in start: x = "a")
               and  forall int i: (i != "1" or count(start, "<a>", i));
   run: split; INSTANTIATE the numeric universal by its only relevant value 1; pick the count
   disjunct; COUNT SEARCH answers {start: <s>(<a>)} on the open root; the second count atom is
   settled by the same rule (c = in-tree); match the existential; SMT STEP with the Z3 model
   [x -> "a"] and the rebuilt tree <a>("a"). *)
Module Run3Example.
  Definition nt_s : str := [60;115;62]%N.
  Definition nt_a : str := [60;97;62]%N.
  Definition g : grammar := [(nt_s, [[nt_a]]); (nt_a, [[[97]%N]; [[98]%N]])].
  Definition cst := MkVar VConst [115;116;97;114;116]%N nt_s.
  Definition vx := MkVar VBound [120]%N nt_a.
  Definition vi := MkVar VBound [105]%N [78;85;77]%N.
  Definition is_a (v : var) : cform := FSmt (SStr false (SVar v) (SLit [97]%N)).
  Definition f_cnt : cform := count_atom cst nt_a (PStr [49]%N).
  Definition f_ex : cform := FExists vx (InVar cst) None (is_a vx).
  Definition a_ne1 : satom := SStr true (SVar vi) (SLit [49]%N).
  Definition f_cnti : cform := count_atom cst nt_a (PVar vi).
  Definition f_all : cform := FForallInt vi (FOr [FSmt a_ne1; f_cnti]).
  Definition phi : cform := FAnd [f_cnt; f_ex; f_all].
  Definition e0 : env := env0 cst.
  Definition bi : env := upd e0 vi (VNum 1).
  Definition b1 : env := upd e0 vx (VPos [0]).
  Definition t0 : tree := Node nt_s 0 true [].
  Definition tc : tree := Node nt_s 0 false [Node nt_a 7 true []].
  Definition ra : tree := Node nt_a 8 false [Node [97]%N 9 false []].
  Definition t2 : tree := Node nt_s 0 false [ra].
End Run3Example.

Example solve_sound3_example :
  reachable3 Run3Example.g Run3Example.cst Run3Example.phi
             (init_state Run3Example.nt_s 0 Run3Example.cst Run3Example.phi) ([], Run3Example.t2) /\
  final ([], Run3Example.t2) /\ Eval3.reach_closedb Run3Example.g = true.
Proof.
  set (G := Run3Example.g). set (e0 := Run3Example.e0). set (bi := Run3Example.bi).
  set (b1 := Run3Example.b1). set (t0 := Run3Example.t0). set (tc := Run3Example.tc).
  set (t2 := Run3Example.t2). set (nt_a := Run3Example.nt_a).
  set (fcnt := Run3Example.f_cnt). set (fex := Run3Example.f_ex). set (fall := Run3Example.f_all).
  set (fcnti := Run3Example.f_cnti).
  assert (Hrc : Eval3.reach_closedb G = true) by (vm_compute; reflexivity).
  assert (Hwc : wf_tree G tc) by (apply wf_treeb_spec; vm_compute; reflexivity).
  assert (Hset : settled G nt_a tc).
  { destruct (count_guards_of_c14 G nt_a 1 tc) as [_ H]; [|exact H].
    apply FixedLenFacts.meets_count_spec. vm_compute. reflexivity. }
  split; [|split; [split; reflexivity | assumption]].
  unfold reachable3.
  (* 1. split *)
  eapply reach2_first.
  { apply st2_core. apply (r_and G [] [] e0 [fcnt; fex; fall] t0). }
  simpl.
  (* 2. ForallInt: the only value that matters is 1 *)
  eapply reach2_first.
  { apply st2_numq. left.
    apply (r_forall_int_exh G [(e0, fcnt); (e0, fex)] [] e0 Run3Example.vi
             (FOr [FSmt Run3Example.a_ne1; fcnti]) 1 t0).
    apply forall_int_exh_of_smt. intros n' Hne. exists Run3Example.a_ne1.
    split; [left; reflexivity|]. split.
    - intros w [<-|[]]. reflexivity.
    - simpl. exists (num_str n'), [49]%N. split; [|split; [reflexivity|]].
      + unfold only_num. rewrite EvalFacts.var_eqb_refl. reflexivity.
      + rewrite num_str_dec. intro E. apply Hne. apply dec_injective. exact E. }
  simpl.
  (* 3. choose the count disjunct *)
  eapply reach2_first.
  { apply st2_core. apply (r_or G [(e0, fcnt); (e0, fex)] [] bi [FSmt Run3Example.a_ne1; fcnti] fcnti t0).
    right. left. reflexivity. }
  simpl.
  (* 4. count search on the open root: {start: <s>(<a>)} *)
  eapply reach2_first.
  { apply st2_sem_search. left.
    apply (r_count_search G [] [(e0, fex); (bi, fcnti)] e0 Run3Example.cst nt_a (PStr [49]%N) false
             t0 [] t0 tc tc 1); try reflexivity; try assumption.
    all: try (apply compl_open_leaf; reflexivity). }
  simpl.
  (* 5. the second count atom (numeral bound by the instantiation): already met, c = in-tree *)
  eapply reach2_first.
  { apply st2_sem_search. left.
    apply (r_count_search G [(e0, fex)] [] bi Run3Example.cst nt_a (PVar Run3Example.vi) false
             tc [] tc tc tc 1); try reflexivity; try assumption.
    all: try (apply compl_refl_shape; reflexivity). }
  simpl.
  (* 6. match the existential at [0] *)
  eapply reach2_first.
  { apply st2_core.
    apply (r_match_exists G [] [] e0 Run3Example.vx Run3Example.cst None
             (Run3Example.is_a Run3Example.vx) tc [0] b1).
    split; [|reflexivity]. exists [], (Node nt_a 7 true []). repeat split; try reflexivity. apply prefix_nil. }
  simpl.
  (* 7. SMT step: Z3 model x -> "a", rebuilt tree <a>("a") *)
  eapply reach2_first; [|apply reach2_refl].
  apply st2_smt.
  apply (smt_step_sound_given_model G [(b1, Run3Example.is_a Run3Example.vx)] []
           [(b1, Run3Example.is_a Run3Example.vx)] tc t2 [([0], Run3Example.ra)] (fun _ => [97]%N)).
  - assumption.
  - simpl. split; [intros q []|exact I].
  - intros p r [E|[]]. inversion E; subst p r. exists (Node nt_a 7 true []).
    split; [reflexivity|]. split; [apply compl_open_leaf; reflexivity|].
    split; [apply wf_treeb_spec; vm_compute; reflexivity|]. split; reflexivity.
  - reflexivity.
  - intros c Hin. right. assumption.
  - intros b f [E|[]]. inversion E; subst b f. exists false, (SStr false (SVar Run3Example.vx) (SLit [97]%N)).
    split; [reflexivity|]. split.
    + intros v [<-|[]]. left. exists [0]. split; [reflexivity | left; reflexivity].
    + simpl. exists [97]%N, [97]%N. repeat split; reflexivity.
Qed.

(* ------------------------------------------------------------------ *)
(* G. the rules spelled out (for Props/C01.v)                           *)
(* ------------------------------------------------------------------ *)
Lemma smt_solve_step_def g s s' :
  smt_solve_step g s s' <->
  exists solved,
    compl (snd s) (snd s') /\ wf_tree g (snd s') /\
    (forall c, In c (fst s) -> In c (fst s') \/ In c solved) /\
    (forall b f, In (b, f) solved ->
       exists neg a, f = plit neg (FSmt a) /\ vars_ground (snd s') b (satom_vars a) /\
                     models satom_denote (snd s') b f).
Proof.
  split.
  - intro H. destruct H as [cs cs' solved t t1 H1 H2 H3 H4]. exists solved. simpl. auto.
  - destruct s as [cs t], s' as [cs' t1]. simpl. intros (solved & H1 & H2 & H3 & H4).
    eapply r_smt; eassumption.
Qed.

Lemma count_search_step_def g s s' :
  count_search_step g s s' <->
  exists cs1 cs2 b x needle a3 (neg : bool) t p s0 c t1 k,
    s = (cs1 ++ (b, plit neg (count_atom x needle a3)) :: cs2, t) /\ s' = (cs1 ++ cs2, t1) /\
    b x = Some (VPos p) /\ subtree t p = Some s0 /\ num_val b a3 k /\ is_nt needle = true /\
    compl s0 c /\ wf_tree g c /\
    (if neg then N.of_nat (count_lbl needle c) <> k else N.of_nat (count_lbl needle c) = k) /\
    (forall r n, subtree c r = Some n -> opn n = true -> Eval3.reachb g (lbl n) needle = false) /\
    Insert.replace_at t p c = Some t1.
Proof.
  split.
  - intro H. destruct H as [cs1 cs2 b x needle a3 neg t p s0 c t1 k H1 H2 H3 H4 H5 H6 H7 H8 H9].
    exists cs1, cs2, b, x, needle, a3, neg, t, p, s0, c, t1, k. repeat split; assumption.
  - intros (cs1 & cs2 & b & x & needle & a3 & neg & t & p & s0 & c & t1 & k & -> & -> & H1 & H2 & H3 &
            H4 & H5 & H6 & H7 & H8 & H9).
    eapply r_count_search; eassumption.
Qed.

Lemma forall_int_exh_def g s s' :
  forall_int_exh g s s' <->
  exists cs1 cs2 b v body n t,
    s = (cs1 ++ (b, FForallInt v body) :: cs2, t) /\
    s' = (cs1 ++ (upd b v (VNum n), body) :: cs2, t) /\
    (forall n' t', n' <> n -> compl t t' -> wf_tree g t' -> is_openT t' = false ->
       models satom_denote t' (upd b v (VNum n')) body).
Proof.
  split.
  - intro H. destruct H as [cs1 cs2 b v body n t H]. exists cs1, cs2, b, v, body, n, t. auto.
  - intros (cs1 & cs2 & b & v & body & n & t & -> & -> & H). apply r_forall_int_exh. exact H.
Qed.

Lemma refines_wf_def g R :
  refines_wf g R <->
  (forall s s', R s s' -> wf_tree g (snd s) ->
     lbl (snd s') = lbl (snd s) /\ wf_tree g (snd s') /\ (forall t', Sol g s' t' -> Sol g s t')).
Proof. reflexivity. Qed.
