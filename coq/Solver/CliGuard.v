(* C19 — proof extension, part 3: no uncaught traceback outside the recorded classes,
   for all five commands:   tb_guard O fx a = true -> run O fx a does not end in a traceback.
   Model and the classes K_* : Solver/Cli.v. *)
From ISLA Require Import Cli CliFacts CliMore.
From Coq Require Import Lia.

Section Guard.
  Variables G F T : Type.
  Variable O : oracles G F T.
  Variable fx : fixes.

  (* ---------------- tracebacks of the front part ---------------- *)

  Lemma read_files_acc_stop_undecodable : forall fs acc o,
    read_files_acc fs acc = Stop o -> existsb unopenable fs = false ->
    existsb (fun f => match fstate f with Undecodable => true | _ => false end) fs = true.
  Proof.
    induction fs as [|f fs IH]; intros acc o H Hu; simpl in H; [discriminate|].
    simpl in Hu. apply orb_false_iff in Hu as [Hu1 Hu2]. unfold unopenable in Hu1. simpl.
    destruct (fstate f) as [| |c] eqn:E; [discriminate | reflexivity | simpl; exact (IH _ _ H Hu2)].
  Qed.

  (* grammar_files went through: every non-.bnf file in the list was executed without raising *)
  Lemma grammar_files_cont_py : forall l acc g, grammar_files O l acc = Cont g ->
    forall n c, In (n, c) l -> ends_with n suf_bnf = false -> exists og, pyext O c = PyOk og.
  Proof.
    induction l as [|[n0 c0] l IH]; intros acc g H n c HIn Hs; [destruct HIn|].
    simpl in H. destruct HIn as [E|HIn].
    - inversion E; subst. rewrite Hs in H. destruct (pyext O c) as [e| |og]; try discriminate. eauto.
    - destruct (ends_with n0 suf_bnf).
      + destruct (bnf O c0); [eapply IH; eauto | discriminate].
      + destruct (pyext O c0) as [e| |[g0|]]; try discriminate; eapply IH; eauto.
  Qed.

  Lemma first_py_is_grammar_file : forall d n c rest,
    names_with py_name d = (n, c) :: rest ->
    In (n, c) (names_with is_grammar_name d) /\ ends_with n suf_bnf = false.
  Proof.
    intros d n c rest H.
    assert (X : In (n, c) (names_with py_name d)) by (rewrite H; left; reflexivity).
    unfold names_with in X. apply filter_In in X as [HIn Hp]. simpl in Hp. split.
    - unfold names_with. apply filter_In. split; [exact HIn | exact (py_name_grammar n Hp)].
    - destruct (suffix_classes_exclusive n) as (_ & P & _). exact (proj1 (P Hp)).
  Qed.

  Lemma front_traceback : forall a o e, front O a = Stop o -> o_exit o = Traceback e ->
    K_undecodable a = true \/ K_pyext_raises G F T O a = true.
  Proof.
    intros a o e H Hx. rewrite front_unfold in H. unfold argparse_files in H.
    destruct (existsb unopenable (a_files a)) eqn:Eu; simpl in H.
    { inversion H; subst. discriminate. }
    destruct (read_files (a_files a)) as [d|o'] eqn:Er; simpl in H.
    2:{ left. unfold K_undecodable. exact (read_files_acc_stop_undecodable _ _ _ Er Eu). }
    right. unfold front_tail in H.
    destruct (negb (grammar_present a d)); [inversion H; subst; discriminate|].
    destruct (needs_constraint (a_cmd a) && negb (constraint_present a d)); [inversion H; subst; discriminate|].
    destruct (match a_cmd a with Solve => match a_outdir a with DirBad => true | _ => false end | _ => false end);
      [inversion H; subst; discriminate|].
    destruct (parse_grammar O a d) as [g|o'] eqn:Eg; simpl in H.
    2:{ inversion H; subst. destruct (parse_grammar_stop _ _ _ O a d o Eg) as [->| ->]; discriminate. }
    destruct (read_predicates O d) as [u|o'] eqn:Ep; simpl in H.
    2:{ inversion H; subst. unfold read_predicates in Ep.
        change (names_with (fun n => ends_with n suf_py) d) with (names_with py_name d) in Ep.
        destruct (names_with py_name d) as [|[n c] rest] eqn:En; [discriminate|].
        destruct (pyext O c) as [e0| |og] eqn:Epy.
        - unfold K_pyext_raises, dict_of. rewrite Er.
          change (names_with (fun n => ends_with n suf_py) d) with (names_with py_name d). rewrite En.
          destruct (truthy (a_grammar a)) as [s|] eqn:Et; [rewrite Epy; reflexivity|].
          exfalso. unfold parse_grammar in Eg. rewrite Et in Eg.
          destruct (grammar_files O (names_with is_grammar_name d) []) as [g0|o0] eqn:Egf; simpl in Eg; [|discriminate].
          destruct (first_py_is_grammar_file d n c rest En) as [HIn Hb].
          destruct (grammar_files_cont_py _ _ _ Egf n c HIn Hb) as [og X]. congruence.
        - inversion Ep; subst. discriminate.
        - discriminate. }
    unfold parse_constraint in H.
    destruct (fold_constraints O g (constraint_sources a d) (ftrue O)); simpl in H; inversion H; subst. discriminate.
  Qed.

  (* ---------------- tracebacks of get_input_string ---------------- *)

  Lemma get_input_traceback : forall a d g f o e,
    front O a = Cont (d, g, f) -> uses_input (a_cmd a) = true ->
    get_input O fx a d g f = Stop o -> o_exit o = Traceback e ->
    K_empty_input fx a = true \/ K_json_nontree G F T O fx a = true.
  Proof.
    intros a d g f o e Hf Hu H Hx.
    assert (Hd : dict_of a = d) by exact (front_dict_of _ _ _ O a d g f Hf).
    unfold get_input in H. destruct (input_text fx a d) as [s|o'] eqn:Ei; simpl in H.
    - right. destruct (json_in O g s) as [|e0|t] eqn:Ej; try discriminate.
      destruct (fx_json fx) eqn:Efx; [discriminate|].
      unfold K_json_nontree, gf_of. rewrite Hu, Efx, Hf, Ei, Ej. reflexivity.
    - left. inversion H; subst o'. unfold input_text in Ei.
      destruct (truthy (a_input a)) eqn:Et; [discriminate|].
      unfold K_empty_input. rewrite Hu, Et, Hd.
      destruct (names_with is_input_name d) as [|[n c] [|p l]]; try (inversion Ei; subst; discriminate).
      destruct c; [|discriminate]. destruct (fx_empty fx); [discriminate | reflexivity].
  Qed.

  Lemma tb_guard_inv : forall a, tb_guard G F T O fx a = true ->
    K_undecodable a = false /\ K_pyext_raises G F T O a = false /\ K_empty_input fx a = false /\
    K_json_nontree G F T O fx a = false /\ K_check_raises G F T O fx a = false /\
    K_api_raises G F T O fx a = false /\ K_solver_init G F T O a = false /\ K_outfile a = false.
  Proof.
    intros a H. unfold tb_guard in H.
    repeat (apply andb_true_iff in H as [H ?]).
    repeat match goal with X : negb _ = true |- _ => apply negb_true_iff in X end.
    repeat split; assumption.
  Qed.

  Lemma write_result_traceback : forall a s e, o_exit (write_result a s) = Traceback e -> a_outfile a = OutBad.
  Proof. intros a s e H. unfold write_result in H. destruct (a_outfile a); [discriminate | discriminate | reflexivity]. Qed.

  (* THEOREM: outside the eight recorded classes no exception leaves main(), for all five commands *)
  Theorem tb_guard_no_traceback : forall a, tb_guard G F T O fx a = true ->
    forall e, o_exit (run O fx a) <> Traceback e.
  Proof.
    intros a Hg e Hx.
    destruct (tb_guard_inv a Hg) as (K1 & K2 & K3 & K4 & K5 & K6 & K7 & K8).
    destruct (front O a) as [[[d g] f]|o] eqn:Ef.
    2:{ rewrite (front_stop _ _ _ O fx a o Ef) in Hx. destruct (front_traceback a o e Ef Hx); congruence. }
    assert (Hgf : gf_of G F T O a = Some (d, g, f)) by (unfold gf_of; rewrite Ef; reflexivity).
    assert (Hin : forall o', uses_input (a_cmd a) = true -> get_input O fx a d g f = Stop o' -> o_exit o' <> Traceback e).
    { intros o' Hu Hi Hx'. destruct (get_input_traceback a d g f o' e Ef Hu Hi Hx'); congruence. }
    assert (Htree : forall t, get_input O fx a d g f = Cont (InTree t) -> tree_of G F T O fx a = Some (g, f, t)).
    { intros t Hi. unfold tree_of. rewrite Hgf, Hi. reflexivity. }
    unfold run in Hx. destruct (a_cmd a) eqn:Ec.
    - (* solve *)
      unfold run_solve in Hx. rewrite Ef in Hx. simpl in Hx.
      destruct (a_wv a) eqn:Ew; simpl in Hx; try discriminate.
      destruct (solver_init O g f) as [e0|] eqn:Ei.
      + unfold K_solver_init in K7. rewrite Ec, Ew, Hgf, Ei in K7. discriminate.
      + exact (solve_loop_no_traceback _ _ _ O a _ _ _ e Hx).
    - (* check *)
      unfold run_check, do_check in Hx. rewrite Ef in Hx. simpl in Hx.
      destruct (get_input O fx a d g f) as [[t|]|o'] eqn:Ei; simpl in Hx.
      + unfold K_check_raises in K5. rewrite Ec, (Htree t eq_refl) in K5.
        destruct (check_api O g f t); simpl in Hx; discriminate.
      + discriminate.
      + exact (Hin o' eq_refl eq_refl Hx).
    - (* parse *)
      unfold run_parse, do_check in Hx. rewrite Ef in Hx. simpl in Hx.
      destruct (get_input O fx a d g f) as [[t|]|o'] eqn:Ei; simpl in Hx.
      + unfold K_check_raises in K5. rewrite Ec, (Htree t eq_refl) in K5.
        destruct (check_api O g f t); simpl in Hx; try discriminate.
        apply write_result_traceback in Hx. unfold K_outfile in K8. rewrite Ec, Hx in K8. discriminate.
      + discriminate.
      + exact (Hin o' eq_refl eq_refl Hx).
    - (* repair *)
      unfold run_repair in Hx. rewrite Ef in Hx. simpl in Hx.
      destruct (get_input O fx a d g f) as [[t|]|o'] eqn:Ei; simpl in Hx.
      + unfold K_api_raises in K6. rewrite Ec, (Htree t eq_refl) in K6.
        destruct (repair_api O g f t); simpl in Hx; try discriminate.
        apply write_result_traceback in Hx. unfold K_outfile in K8. rewrite Ec, Hx in K8. discriminate.
      + discriminate.
      + exact (Hin o' eq_refl eq_refl Hx).
    - (* mutate *)
      unfold run_mutate in Hx. rewrite Ef in Hx. simpl in Hx.
      destruct (get_input O fx a d g f) as [[t|]|o'] eqn:Ei; simpl in Hx.
      + unfold K_api_raises in K6. rewrite Ec, (Htree t eq_refl) in K6.
        destruct (mutate_api O g f t); simpl in Hx; try discriminate.
        apply write_result_traceback in Hx. unfold K_outfile in K8. rewrite Ec, Hx in K8. discriminate.
      + discriminate.
      + exact (Hin o' eq_refl eq_refl Hx).
  Qed.

  (* the same with the class number used by the correspondence check *)
  Lemma kclass_0_guard : forall a, kclass G F T O fx a = 0 -> tb_guard G F T O fx a = true.
  Proof.
    intros a H. unfold kclass in H. unfold tb_guard.
    destruct (K_undecodable a); [discriminate|]. destruct (K_pyext_raises G F T O a); [discriminate|].
    destruct (K_empty_input fx a); [discriminate|]. destruct (K_json_nontree G F T O fx a); [discriminate|].
    destruct (K_check_raises G F T O fx a); [discriminate|]. destruct (K_api_raises G F T O fx a); [discriminate|].
    destruct (K_solver_init G F T O a); [discriminate|]. destruct (K_outfile a); [discriminate|]. reflexivity.
  Qed.

  Corollary traceback_has_class : forall a e, o_exit (run O fx a) = Traceback e -> kclass G F T O fx a <> 0.
  Proof. intros a e Hx H. exact (tb_guard_no_traceback a (kclass_0_guard a H) e Hx). Qed.
End Guard.

(* non-vacuity: the guard holds for ordinary invocations of each of the five commands (toy library O0) *)
Example tb_guard_nonvacuous :
  tb_guard _ _ _ O0 pinned (mk Solve [f_g; f_c]) = true /\
  tb_guard _ _ _ O0 pinned (mk Check [f_g; f_c; f_in [97; 10]%N]) = true /\
  tb_guard _ _ _ O0 pinned (mk Parse [f_g; f_c; f_in [97; 10]%N]) = true /\
  tb_guard _ _ _ O0 pinned (mk Repair [f_g; f_c; f_in [97; 10]%N]) = true /\
  tb_guard _ _ _ O0 pinned (mk Mutate [f_g; f_c; f_in [97; 10]%N]) = true /\
  run O0 pinned (mk Parse [f_g; f_c; f_in [97; 10]%N]) = Outcome (Exit 0) [Line [97]%N] SeNone /\
  run O0 pinned (mk Repair [f_g; f_c; f_in [97; 10]%N]) = Outcome (Exit 0) [Line [97]%N] SeNone /\
  run O0 pinned (mk Mutate [f_g; f_c; f_in [98; 10]%N]) = Outcome (Exit 1) [] SeNoParse.
Proof. repeat split; vm_compute; reflexivity. Qed.

(* every one of the five classes that had no witness theorem yet is inhabited by a traceback of the
   model (K_empty_input, K_json_nontree, K_check_raises: CliFacts.no_traceback_refuted_empty etc.), i.e. no
   conjunct of tb_guard can be dropped *)
Definition Ovar (py : str -> pyout unit) (si : option exn) (rp : rep str) (mu : res str) : oracles unit bool str :=
  Oracles unit bool str (bnf O0) py (isla O0) true andb (json_in O0) (parse_api O0) (check_api O0)
    (fun _ _ => si) (solve_api O0) (fun _ _ _ => rp) (fun _ _ _ => mu) (to_str O0) (to_json O0).

Definition f_py := File [112; 46; 112; 121]%N (Text [120]%N).      (* p.py *)
Definition in_a := f_in [97; 10]%N.

Theorem guard_classes_inhabited :
  (let a := mk Check [f_g; f_c; File [105; 110]%N Undecodable] in
   run O0 repaired a = traceback OtherErr /\ K_undecodable a = true) /\
  (let O := Ovar (fun _ => PyExn ValueErr) None RepFail (Raise ValueErr) in
   let a := Args Check (Some [120]%N) [] None [f_py; f_c; in_a] 1%Z false false WvOk DirNone OutNone in
   run O repaired a = traceback ValueErr /\ K_pyext_raises _ _ _ O a = true) /\
  (let O := Ovar (pyext O0) None (RepExn ValueErr) (Raise TypeErr) in
   run O repaired (mk Repair [f_g; f_c; in_a]) = traceback ValueErr /\
   K_api_raises _ _ _ O repaired (mk Repair [f_g; f_c; in_a]) = true /\
   run O repaired (mk Mutate [f_g; f_c; in_a]) = traceback TypeErr /\
   K_api_raises _ _ _ O repaired (mk Mutate [f_g; f_c; in_a]) = true) /\
  (let O := Ovar (pyext O0) (Some AssertErr) RepFail (Raise ValueErr) in
   run O repaired (mk Solve [f_g; f_c]) = traceback AssertErr /\
   K_solver_init _ _ _ O (mk Solve [f_g; f_c]) = true) /\
  (let a := Args Parse None [] None [f_g; f_c; in_a] 1%Z false false WvOk DirNone OutBad in
   run O0 repaired a = traceback OtherErr /\ K_outfile a = true).
Proof. repeat split; vm_compute; reflexivity. Qed.
