(* C18 (proof extension) — CROSS-PROPERTY COMPOSITION, part 1: the parser.
   The theorems of ApiFacts.v take the parser as a Section variable with the premises
   parser_sound / parser_complete.  Here the variable is INSTANTIATED with the Earley model of C10
   (Grammar/Earley.v: solver_parse = ISLaSolver.parse(inp, nonterminal, skip_check=True), first
   tree of EarleyParser.parse) followed by the fresh numbering of node ids (FreshIds.v), and the
   premises are DERIVED from the C10 theorems (EarleyTrees.parse_sound_full,
   EarleyWrap.syntaxerr_iff, parse_member_outcomes, accepts_iff).

   Side conditions that remain (they are those of the C10 theorems):
     gram_ok g         canonical grammar (good_grammar), rule names distinct, "<>" not defined,
                       <start> defined;
     guards            fxA = true \/ K_multistart g <start> = false,
                       fxB = true \/ K_recstart g <start> <start> = false
                       (pinned code: <start> has one alternative and does not occur on a right-hand
                       side; repaired code fxA = fxB = true: no condition);
     fuel              fuel_bound (cgram g <start>) |s| <= fuelf s   (chart construction);
     no_oof s          the model's out-of-fuel outcome of the TREE ENUMERATION is excluded for s
                       (needed only for completeness; C10_parse_member_outcomes_partial leaves
                       exactly this open; soundness needs neither fuel nor no_oof).

   Also here: POINTWISE versions of the ApiFacts theorems about check/parse (premises only for
   the string at hand and for the tree the parser returned for it).  They imply the ApiFacts
   versions and are what the concrete evaluator needs (part 2, ApiComposeEval.v): the guards of
   the C03 theorems depend on the tree. *)
From ISLA Require Import Grammar GrammarFacts Earley EarleyFacts EarleyPrune EarleyTop EarleyTrees
  EarleyComplete EarleyForest EarleyFuel EarleyWrap.
From ISLA Require Import Fuzz Mutate MutateFacts.
From ISLA Require Import Api ApiFacts FreshIds.
From Coq Require Import Lia.

Notation ASTART := Api.START.

(* ====================================================================================== *)
(* pointwise versions                                                                      *)
(* ====================================================================================== *)
Section Pointwise.
  Variable g : grammar.
  Variable sat : tree -> Prop.
  Variable first_parse : str -> str -> option tree.
  Variable eval : tree -> res tv.

  Definition parser_sound_at (s : str) : Prop :=
    forall t, first_parse ASTART s = Some t -> good g t /\ yield t = s.
  Definition parser_complete_at (s : str) : Prop :=
    L g ASTART s -> exists t, first_parse ASTART s = Some t.
  Definition eval_correct_at (t : tree) : Prop := eval t = Ok TT <-> sat t.
  Definition eval_definite_at (t : tree) : Prop := eval t = Ok TT \/ eval t = Ok FF.
  (* premises about the evaluator only at the tree the parser returns for s *)
  Definition eval_ok_on (s : str) : Prop :=
    forall t, first_parse ASTART s = Some t -> eval_definite_at t /\ eval_correct_at t.

  Notation check_tree := (check_tree eval).
  Notation parse_api := (parse_api first_parse eval).
  Notation check_str := (check_str first_parse eval).

  Lemma check_tree_cases_at t : eval_definite_at t -> eval_correct_at t ->
    (check_tree t = Ok true /\ sat t) \/ (check_tree t = Ok false /\ ~ sat t).
  Proof.
    intros Hd Hc. destruct Hd as [E|E].
    - left. split; [unfold Api.check_tree; rewrite E; reflexivity | apply Hc; exact E].
    - right. split; [unfold Api.check_tree; rewrite E; reflexivity|].
      intro Hs. apply Hc in Hs. congruence.
  Qed.

  Lemma check_tree_true_at t : eval_correct_at t -> (check_tree t = Ok true <-> sat t).
  Proof.
    intros Hc. unfold eval_correct_at in Hc. unfold Api.check_tree. rewrite <- Hc.
    destruct (eval t) as [[| |]|e]; split; intro H; try discriminate; try reflexivity; inversion H.
  Qed.

  Theorem parse_api_ok_at s t :
    (forall t', first_parse ASTART s = Some t' -> eval_correct_at t') ->
    (parse_api s ASTART false = Ok t <-> first_parse ASTART s = Some t /\ sat t).
  Proof.
    intros Hc. rewrite parse_api_unfold. destruct (first_parse ASTART s) as [t'|] eqn:P.
    - pose proof (check_tree_true_at t' (Hc t' eq_refl)) as Ht.
      destruct (check_tree t') as [[|]|e] eqn:C.
      + split.
        * intro H. inversion H. subst. split; [reflexivity | apply Ht; reflexivity].
        * intros [H _]. inversion H. reflexivity.
      + split; [discriminate|]. intros [H S]. inversion H. subst. apply Ht in S. discriminate.
      + split; [discriminate|]. intros [H S]. inversion H. subst. apply Ht in S. discriminate.
    - split; [discriminate | intros [H _]; discriminate].
  Qed.

  Theorem check_str_spec_at s :
    (forall t', first_parse ASTART s = Some t' -> eval_correct_at t') ->
    (check_str s = Ok true <-> exists t, first_parse ASTART s = Some t /\ sat t).
  Proof.
    intros Hc. unfold Api.check_str. split.
    - destruct (parse_api s ASTART false) as [t|e] eqn:P.
      + intros _. exists t. apply (parse_api_ok_at s t Hc). exact P.
      + destruct e; discriminate.
    - intros [t Ht]. apply (parse_api_ok_at s t Hc) in Ht. rewrite Ht. reflexivity.
  Qed.

  Theorem check_str_total_at s : eval_ok_on s ->
    (check_str s = Ok true /\ (exists t, first_parse ASTART s = Some t /\ sat t)) \/
    (check_str s = Ok false /\ ~ (exists t, first_parse ASTART s = Some t /\ sat t)).
  Proof.
    intros Hok. unfold Api.check_str. rewrite parse_api_unfold.
    destruct (first_parse ASTART s) as [t'|] eqn:P.
    - destruct (Hok t' P) as [Hd Hc].
      destruct (check_tree_cases_at t' Hd Hc) as [[E S]|[E S]]; rewrite E.
      + left. split; [reflexivity | eauto].
      + right. split; [reflexivity|]. intros [t [H S']]. inversion H. subst. contradiction.
    - right. split; [reflexivity|]. intros [t [H _]]. discriminate.
  Qed.

  Lemma parse_iff_member_at s : parser_sound_at s -> parser_complete_at s ->
    (L g ASTART s <-> exists t, first_parse ASTART s = Some t).
  Proof.
    intros Hs Hc. split; [apply Hc|]. intros [t Ht]. destruct (Hs t Ht) as [[Hwf [Hcl Hl]] Hy].
    pose proof (wf_closed_yield g t Hwf Hcl) as HL. rewrite Hl, Hy in HL. exact HL.
  Qed.

  Theorem parse_api_syntax_at s : parser_sound_at s -> parser_complete_at s -> eval_ok_on s ->
    (parse_api s ASTART false = Raise SyntaxErr <-> ~ L g ASTART s).
  Proof.
    intros Hs Hcm Hok. rewrite (parse_iff_member_at s Hs Hcm), parse_api_unfold.
    destruct (first_parse ASTART s) as [t'|] eqn:P.
    - destruct (Hok t' P) as [Hd Hc].
      destruct (check_tree_cases_at t' Hd Hc) as [[E _]|[E _]]; rewrite E; split; try discriminate;
        intro H; exfalso; apply H; eauto.
    - split; [intros _ [t H]; discriminate | reflexivity].
  Qed.

  Theorem parse_api_semantic_at s : eval_ok_on s ->
    (parse_api s ASTART false = Raise SemanticErr <-> exists t, first_parse ASTART s = Some t /\ ~ sat t).
  Proof.
    intros Hok. rewrite parse_api_unfold. destruct (first_parse ASTART s) as [t'|] eqn:P.
    - destruct (Hok t' P) as [Hd Hc].
      destruct (check_tree_cases_at t' Hd Hc) as [[E S]|[E S]]; rewrite E; split; try discriminate.
      + intros [t [H N]]. inversion H. subst. contradiction.
      + intros _. eauto.
      + reflexivity.
    - split; [discriminate | intros [t [H _]]; discriminate].
  Qed.

  (* check(str) = false exactly when the string is outside the language or its tree violates
     the constraint; it never raises *)
  Theorem check_str_false_at s : parser_sound_at s -> parser_complete_at s -> eval_ok_on s ->
    (check_str s = Ok false <->
     ~ L g ASTART s \/ exists t, first_parse ASTART s = Some t /\ ~ sat t).
  Proof.
    intros Hs Hcm Hok. unfold Api.check_str. rewrite (parse_iff_member_at s Hs Hcm), parse_api_unfold.
    destruct (first_parse ASTART s) as [t'|] eqn:P.
    - destruct (Hok t' P) as [Hd Hc].
      destruct (check_tree_cases_at t' Hd Hc) as [[E S]|[E S]]; rewrite E; split.
      + discriminate.
      + intros [H|[t [H N]]]; [exfalso; apply H; eauto|]. inversion H. subst. contradiction.
      + intros _. right. eauto.
      + reflexivity.
    - split; [intros _; left; intros [t H]; discriminate | reflexivity].
  Qed.
End Pointwise.

(* ====================================================================================== *)
(* the mutator (C12)                                                                       *)
(* ====================================================================================== *)
(* C12 models Mutator.mutate as a nondeterministic transition system (Mutate.mutate_star); the
   Api model's `mutant inp k` is the k-th result of the loop in ISLaSolver.mutate.  Premise left:
   every delivered mutant is a run of that transition system (the random choices are abstracted). *)
Definition mutant_is_run (g : grammar) (mutant : tree -> nat -> res tree) : Prop :=
  forall inp k m, mutant inp k = Ok m -> mutate_star g inp m.

Lemma good_uses_defined g : good_grammar g -> uses_defined g.
Proof.
  intros (_ & H & _) A a s Ha Hs Hnt. destruct (H A a s Ha Hs) as [_ E]. rewrite <- E. exact Hnt.
Qed.

Theorem mutant_valid_c12 g mutant : good_grammar g -> mutant_is_run g mutant -> mutant_valid g mutant.
Proof.
  intros Hg Hrun inp k m [Hwf [Hcl Hl]] Hm.
  destruct (MutateFacts.mutate_valid g inp m (good_uses_defined g Hg) Hwf Hcl (Hrun inp k m Hm)) as (W & C & Lb).
  split; [exact W|]. split; [exact C|]. rewrite Lb. exact Hl.
Qed.

(* ====================================================================================== *)
(* the Earley instance                                                                     *)
(* ====================================================================================== *)

(* ISLaSolver.parse(inp, nonterminal, skip_check=True) as the Api model's `first_parse`:
   the first Earley tree with fresh ids; every exception is mapped to None — the Api model reads
   None as SyntaxError, which is FAITHFUL only when the parser raises nothing else: this is what
   earley_outcomes (below) establishes under the side conditions. *)
Definition earley_first (fxA fxB : bool) (fuelf : str -> nat) (g : grammar) (nt s : str) : option tree :=
  match solver_parse fxA fxB (fuelf s) g nt s with
  | Ok t => Some (renum 0 t)
  | Raise _ => None
  end.

Definition gram_ok (g : grammar) : Prop :=
  good_grammar g /\ NoDup (map fst g) /\ defined g WRAP = false /\ defined g ASTART = true.

Definition guards (fxA fxB : bool) (g : grammar) : Prop :=
  (fxA = true \/ K_multistart g ASTART = false) /\ (fxB = true \/ K_recstart g ASTART ASTART = false).

Definition fuel_ok (fuelf : str -> nat) (g : grammar) (s : str) : Prop :=
  fuel_bound (cgram g ASTART) (length s) <= fuelf s.

(* the model's out-of-fuel outcome is excluded for s *)
Definition no_oof (fxA fxB : bool) (fuelf : str -> nat) (g : grammar) (s : str) : Prop :=
  earley_parse fxA fxB (fuelf s) g ASTART ASTART s 1 <> Raise OutOfFuel.

Lemma specialise_start g : specialise g ASTART = g.
Proof. reflexivity. Qed.

Lemma solver_parse_start fxA fxB fuel g s :
  solver_parse fxA fxB fuel g ASTART s =
  match earley_parse fxA fxB fuel g ASTART ASTART s 1 with
  | Raise e => Raise e
  | Ok [] => Raise StopIter
  | Ok (t :: _) => Ok t
  end.
Proof. reflexivity. Qed.

Section EarleyInstance.
  Variable g : grammar.
  Variables fxA fxB : bool.
  Variable fuelf : str -> nat.
  Hypothesis Hg : gram_ok g.
  Hypothesis Hgd : guards fxA fxB g.

  Notation P := (earley_first fxA fxB fuelf g).

  Lemma earley_first_some s t : P ASTART s = Some t ->
    exists t0 ts, earley_parse fxA fxB (fuelf s) g ASTART ASTART s 1 = Ok (t0 :: ts) /\ t = renum 0 t0.
  Proof.
    unfold earley_first. rewrite solver_parse_start.
    destruct (earley_parse fxA fxB (fuelf s) g ASTART ASTART s 1) as [[|t0 ts]|e] eqn:E; try discriminate.
    intro H. inversion H. eauto.
  Qed.

  (* C10 soundness: needs neither a fuel bound nor no_oof *)
  Theorem earley_sound_at s : parser_sound_at g P s.
  Proof.
    destruct Hg as (G1 & G2 & G3 & G4). destruct Hgd as [GA GB].
    intros t Ht. destruct (earley_first_some s t Ht) as (t0 & ts & E & ->).
    destruct (parse_sound_full fxA fxB (fuelf s) g ASTART ASTART s 1 (t0 :: ts) t0 G1 G2 G3 G4 G4 GA GB E
                (or_introl eq_refl)) as (W & C & Lb & Y & _).
    split; [split; [|split]|].
    - apply renum_wf. exact W.
    - rewrite renum_is_openT. exact C.
    - rewrite renum_lbl. exact Lb.
    - rewrite renum_yield. exact Y.
  Qed.

  Theorem earley_parser_sound : parser_sound g P.
  Proof. intros s t. apply earley_sound_at. Qed.

  (* the ids of the returned tree are pairwise different *)
  Theorem earley_first_uniq s t : P ASTART s = Some t -> NoDup (ids t).
  Proof.
    unfold earley_first. destruct (solver_parse fxA fxB (fuelf s) g ASTART s); [|discriminate].
    intro H. inversion H. apply renum_uniq.
  Qed.

  (* C10 completeness *)
  Theorem earley_complete_at s : fuel_ok fuelf g s -> no_oof fxA fxB fuelf g s -> parser_complete_at g P s.
  Proof.
    destruct Hg as (G1 & G2 & G3 & G4). destruct Hgd as [GA GB].
    intros Hf Hno HL.
    destruct (parse_member_outcomes g ASTART fxA fxB (fuelf s) ASTART s 1 G1 G3 G4 G4 GA Hf (Nat.lt_0_1) HL)
      as [(ts & Hne & E)|E]; [|contradiction].
    destruct ts as [|t0 ts]; [contradiction|]. exists (renum 0 t0).
    unfold earley_first. rewrite solver_parse_start, E. reflexivity.
  Qed.

  (* membership is decided: the three outcomes of the parser under the side conditions.  In
     particular it raises nothing but SyntaxError, so mapping "every exception" to None in
     earley_first loses nothing *)
  Theorem earley_outcomes s : fuel_ok fuelf g s -> no_oof fxA fxB fuelf g s ->
    (L g ASTART s /\ exists t0 ts, earley_parse fxA fxB (fuelf s) g ASTART ASTART s 1 = Ok (t0 :: ts)) \/
    (~ L g ASTART s /\ earley_parse fxA fxB (fuelf s) g ASTART ASTART s 1 = Raise SyntaxErr).
  Proof.
    destruct Hg as (G1 & G2 & G3 & G4). destruct Hgd as [GA GB].
    intros Hf Hno.
    destruct (accepts_iff g ASTART fxA fxB (fuelf s) ASTART s G1 G2 G3 G4 G4 GA GB Hf) as (b & _ & Hb).
    destruct b.
    - left. assert (HL : L g ASTART s) by (apply Hb; reflexivity). split; [exact HL|].
      destruct (parse_member_outcomes g ASTART fxA fxB (fuelf s) ASTART s 1 G1 G3 G4 G4 GA Hf (Nat.lt_0_1) HL)
        as [(ts & Hne & E)|E]; [|contradiction].
      destruct ts as [|t0 ts]; [contradiction|]. eauto.
    - right. assert (HnL : ~ L g ASTART s) by (intro HL; apply Hb in HL; discriminate). split; [exact HnL|].
      apply (syntaxerr_iff g ASTART fxA fxB (fuelf s) ASTART s 1 G1 G2 G3 G4 G4 GA GB Hf). exact HnL.
  Qed.

  (* SyntaxError <-> not in the language, for the parser proper (skip_check=True) *)
  Theorem earley_none_iff s : fuel_ok fuelf g s -> no_oof fxA fxB fuelf g s ->
    (P ASTART s = None <-> ~ L g ASTART s).
  Proof.
    intros Hf Hno. unfold earley_first. rewrite solver_parse_start.
    destruct (earley_outcomes s Hf Hno) as [(HL & t0 & ts & E)|(HnL & E)]; rewrite E.
    - split; [discriminate | intro H; contradiction].
    - split; [intros _; exact HnL | reflexivity].
  Qed.

  (* ... and it is really SyntaxError that the model of the parser answers *)
  Theorem earley_syntaxerr_iff s : fuel_ok fuelf g s -> no_oof fxA fxB fuelf g s ->
    (solver_parse fxA fxB (fuelf s) g ASTART s = Raise SyntaxErr <-> ~ L g ASTART s).
  Proof.
    intros Hf Hno. rewrite solver_parse_start.
    destruct (earley_outcomes s Hf Hno) as [(HL & t0 & ts & E)|(HnL & E)]; rewrite E.
    - split; [discriminate | intro H; contradiction].
    - split; [intros _; exact HnL | reflexivity].
  Qed.

  Theorem earley_parser_complete :
    (forall s, fuel_ok fuelf g s) -> (forall s, no_oof fxA fxB fuelf g s) -> parser_complete g P.
  Proof. intros Hf Hno s. apply earley_complete_at; auto. Qed.

  (* ---------------- the ApiFacts theorems with the parser premises discharged ---------------- *)
  Section WithEval.
    Variable sat : tree -> Prop.
    Variable eval : tree -> res tv.

    (* global evaluator premises (abstract evaluator; C03 is composed in ApiComposeEval.v) *)
    Theorem check_str_spec_earley s : eval_correct g sat eval ->
      (check_str P eval s = Ok true <-> exists t, P ASTART s = Some t /\ sat t).
    Proof. intro Hc. exact (check_str_spec g sat P eval s earley_parser_sound Hc). Qed.

    Theorem check_str_language_earley s : eval_correct g sat eval ->
      check_str P eval s = Ok true -> L g ASTART s /\ exists t, good g t /\ yield t = s /\ sat t.
    Proof. intro Hc. exact (check_str_language g sat P eval s earley_parser_sound Hc). Qed.

    Theorem parse_api_ok_earley s t : eval_correct g sat eval ->
      (parse_api P eval s ASTART false = Ok t <-> P ASTART s = Some t /\ sat t).
    Proof. intro Hc. exact (parse_api_ok g sat P eval s t earley_parser_sound Hc). Qed.

    Theorem parse_api_semantic_earley s : eval_definite g eval -> eval_correct g sat eval ->
      (parse_api P eval s ASTART false = Raise SemanticErr <-> exists t, P ASTART s = Some t /\ ~ sat t).
    Proof. intros Hd Hc. exact (parse_api_semantic g sat P eval s earley_parser_sound Hd Hc). Qed.

    Lemma eval_ok_on_global s : eval_definite g eval -> eval_correct g sat eval -> eval_ok_on sat P eval s.
    Proof.
      intros Hd Hc t Ht. destruct (earley_sound_at s t Ht) as [Hgood _].
      split; [exact (Hd t Hgood) | exact (Hc t Hgood)].
    Qed.

    Theorem parse_api_syntax_earley s : fuel_ok fuelf g s -> no_oof fxA fxB fuelf g s ->
      eval_definite g eval -> eval_correct g sat eval ->
      (parse_api P eval s ASTART false = Raise SyntaxErr <-> ~ L g ASTART s).
    Proof.
      intros Hf Hno Hd Hc.
      exact (parse_api_syntax_at g sat P eval s (earley_sound_at s) (earley_complete_at s Hf Hno)
               (eval_ok_on_global s Hd Hc)).
    Qed.

    (* the complete verdict table of parse() and check(str) for one string *)
    Theorem parse_api_spec_earley s : fuel_ok fuelf g s -> no_oof fxA fxB fuelf g s ->
      eval_definite g eval -> eval_correct g sat eval ->
      (L g ASTART s /\ exists t, P ASTART s = Some t /\ good g t /\ yield t = s /\ NoDup (ids t) /\
         ((sat t /\ parse_api P eval s ASTART false = Ok t /\ check_str P eval s = Ok true) \/
          (~ sat t /\ parse_api P eval s ASTART false = Raise SemanticErr /\ check_str P eval s = Ok false))) \/
      (~ L g ASTART s /\ P ASTART s = None /\
         parse_api P eval s ASTART false = Raise SyntaxErr /\ check_str P eval s = Ok false).
    Proof.
      intros Hf Hno Hd Hc.
      destruct (earley_outcomes s Hf Hno) as [(HL & t0 & ts & E)|(HnL & E)].
      - left. split; [exact HL|].
        assert (HP : P ASTART s = Some (renum 0 t0)).
        { unfold earley_first. rewrite solver_parse_start, E. reflexivity. }
        exists (renum 0 t0). destruct (earley_sound_at s _ HP) as [Hgood Hy].
        split; [exact HP|]. split; [exact Hgood|]. split; [exact Hy|]. split; [apply renum_uniq|].
        unfold Api.check_str. rewrite parse_api_unfold, HP.
        destruct (check_tree_cases g sat eval _ Hd Hc Hgood) as [[C S]|[C S]]; rewrite C; [left|right]; auto.
      - right. split; [exact HnL|].
        assert (HP : P ASTART s = None).
        { unfold earley_first. rewrite solver_parse_start, E. reflexivity. }
        split; [exact HP|]. unfold Api.check_str. rewrite parse_api_unfold, HP. auto.
    Qed.

    (* check on a tree and on its string agree (unambiguous grammar) *)
    Theorem check_tree_str_earley t :
      (forall s, fuel_ok fuelf g s) -> (forall s, no_oof fxA fxB fuelf g s) ->
      eval_definite g eval -> eval_correct g sat eval ->
      sat_respects_eqv g sat -> unambiguous g -> good g t ->
      check_str P eval (yield t) = check_tree eval t.
    Proof.
      intros Hf Hno Hd Hc Hq Hu Hgood.
      exact (check_tree_str g sat P eval t earley_parser_sound (earley_parser_complete Hf Hno) Hd Hc Hq Hu Hgood).
    Qed.
    (* repair / mutate on strings: parser premise and mutator premise discharged *)
    Theorem repair_str_valid_earley has_top sem_false abstractions subsolve safe_ok s t :
      eval_correct g sat eval -> subsolve_sound g sat abstractions subsolve ->
      repair_str P eval has_top sem_false abstractions subsolve safe_ok true s = Ok (Some t) ->
      good g t /\ sat t.
    Proof.
      intros Hc Hsv H.
      exact (repair_str_valid g sat P eval has_top sem_false abstractions subsolve safe_ok s t
               earley_parser_sound Hc Hsv H).
    Qed.

    Theorem mutate_str_valid_earley has_top sem_false abstractions subsolve safe_ok mutant s fuel t :
      eval_correct g sat eval -> subsolve_sound g sat abstractions subsolve -> mutant_is_run g mutant ->
      mutate_str P eval has_top sem_false abstractions subsolve safe_ok true mutant s fuel = Some (Ok t) ->
      good g t /\ sat t.
    Proof.
      intros Hc Hsv Hrun H.
      exact (mutate_str_valid g sat P eval has_top sem_false abstractions subsolve safe_ok mutant s fuel t
               earley_parser_sound Hc Hsv (mutant_valid_c12 g mutant (proj1 Hg) Hrun) H).
    Qed.
  End WithEval.
End EarleyInstance.
