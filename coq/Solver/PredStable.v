(* C01 — stability under completion of the structural predicate `level` (early instantiation by
   instantiate_structural_predicates is sound for it): labels on the root paths of the two
   argument nodes do not change when open leaves are expanded. *)
From ISLA Require Export SolveSound.
From Coq Require Import Lia.

Lemma subtree_prefix_some t c r s : subtree t (c ++ r) = Some s -> exists sc, subtree t c = Some sc.
Proof.
  rewrite subtree_app. destruct (subtree t c) as [sc|]; [eauto | discriminate].
Qed.

Lemma labelled_compl t t' nt c p s : compl t t' -> subtree t p = Some s -> prefix c p ->
  (labelled t nt c <-> labelled t' nt c).
Proof.
  intros Hc Hs [r ->]. destruct (subtree_prefix_some t c r s Hs) as (sc & Hsc).
  destruct (compl_subtree c t t' sc Hc Hsc) as (sc' & Hsc' & Hcc).
  pose proof (compl_lbl _ _ Hcc) as Hl. unfold labelled. split.
  - intros (x & Hx & Hlx). rewrite Hsc in Hx. inversion Hx; subst x. exists sc'. split; congruence.
  - intros (x & Hx & Hlx). rewrite Hsc' in Hx. inversion Hx; subst x. exists sc. split; congruence.
Qed.

Lemma firstn_prefix k (p : path) : prefix (firstn k p) p.
Proof. exists (skipn k p). symmetry. apply firstn_skipn. Qed.

Lemma occ_compl t t' nt c p s : compl t t' -> subtree t p = Some s ->
  (occ t nt c p <-> occ t' nt c p).
Proof.
  intros Hc Hs. unfold occ. split; intros (k & H1 & H2 & H3); exists k; repeat split; try assumption.
  - apply (labelled_compl t t' nt (firstn k p) p s Hc Hs (firstn_prefix k p)). assumption.
  - apply (labelled_compl t t' nt (firstn k p) p s Hc Hs (firstn_prefix k p)). assumption.
Qed.

Lemma scope_compl t t' nt p1 p2 c s1 : compl t t' -> subtree t p1 = Some s1 ->
  (scope t nt p1 p2 c <-> scope t' nt p1 p2 c).
Proof.
  intros Hc Hs. unfold scope. split; (intros [H|(H0 & H1 & H2 & H3)]; [left; assumption | right]);
    repeat split; try assumption.
  - apply (labelled_compl t t' nt c p1 s1 Hc Hs H1). assumption.
  - apply (labelled_compl t t' nt c p1 s1 Hc Hs H1). assumption.
Qed.

Lemma level_rel_iff op a a' b b' : (a <-> a') -> (b <-> b') -> (level_rel op a b <-> level_rel op a' b').
Proof. destruct op; simpl; tauto. Qed.

Theorem level_spec_compl t t' o nt p1 p2 s1 s2 : compl t t' ->
  subtree t p1 = Some s1 -> subtree t p2 = Some s2 ->
  (level_spec t o nt p1 p2 <-> level_spec t' o nt p1 p2).
Proof.
  intros Hc H1 H2. unfold level_spec. split; intros (c & Hsc & Hr); exists c; split.
  - apply (scope_compl t t' nt p1 p2 c s1 Hc H1). assumption.
  - apply (level_rel_iff o _ _ _ _ (occ_compl t t' nt c p1 s1 Hc H1) (occ_compl t t' nt c p2 s2 Hc H2)).
    assumption.
  - apply (scope_compl t t' nt p1 p2 c s1 Hc H1). assumption.
  - apply (level_rel_iff o _ _ _ _ (occ_compl t t' nt c p1 s1 Hc H1) (occ_compl t t' nt c p2 s2 Hc H2)).
    assumption.
Qed.

(* the argument is a variable bound to a position that exists in the state tree (what matching
   produces) *)
Definition arg_valid (t : tree) (b : env) (a : parg) : Prop :=
  no_tree_arg a = true /\ forall p, arg_pos t b a p -> exists s, subtree t p = Some s.

Lemma spred_level_compl t t' b op nt a2 a3 : compl t t' -> arg_valid t b a2 -> arg_valid t b a3 ->
  (spred_sem t b s_level [PStr op; PStr nt; a2; a3] <-> spred_sem t' b s_level [PStr op; PStr nt; a2; a3]).
Proof.
  intros Hc [Hn2 Hv2] [Hn3 Hv3]. unfold spred_sem. split; intros [Hname (o & p & q & Ho & Hp & Hq & Hl)].
  - destruct (Hv2 p Hp) as (s1 & H1). destruct (Hv3 q Hq) as (s2 & H2).
    split; [assumption|]. exists o, p, q. repeat split; try assumption.
    + eapply arg_pos_no_tree; eassumption.
    + eapply arg_pos_no_tree; eassumption.
    + apply (level_spec_compl t t' o nt p q s1 s2 Hc H1 H2). assumption.
  - assert (Hp' : arg_pos t b a2 p) by (eapply arg_pos_no_tree; eassumption).
    assert (Hq' : arg_pos t b a3 q) by (eapply arg_pos_no_tree; eassumption).
    destruct (Hv2 p Hp') as (s1 & H1). destruct (Hv3 q Hq') as (s2 & H2).
    split; [assumption|]. exists o, p, q. repeat split; try assumption.
    apply (level_spec_compl t t' o nt p q s1 s2 Hc H1 H2). assumption.
Qed.

Theorem stable_level t b op nt a2 a3 : arg_valid t b a2 -> arg_valid t b a3 ->
  stable t b (FSPred s_level [PStr op; PStr nt; a2; a3]) /\
  stable t b (FNot (FSPred s_level [PStr op; PStr nt; a2; a3])).
Proof.
  intros H2 H3. split; intros t' Hc H.
  - apply (spred_level_compl t t' b op nt a2 a3 Hc H2 H3). exact H.
  - intro H'. apply H. apply (spred_level_compl t t' b op nt a2 a3 Hc H2 H3). exact H'.
Qed.

Example stable_level_example :
  arg_valid NthWitness.t NthWitness.b (PVar NthWitness.vx) /\
  arg_valid NthWitness.t NthWitness.b (PVar NthWitness.vs).
Proof.
  split; (split; [reflexivity|]); intros p Hp; simpl in Hp; vm_compute in Hp; inversion Hp; subst.
  - eexists. reflexivity.
  - eexists. reflexivity.
Qed.

(* ------------------------------------------------------------------ *)
(* consecutive: no leaf strictly between two nodes can appear or       *)
(* disappear by expanding open leaves                                  *)
(* ------------------------------------------------------------------ *)
Lemma F2_nth_r {A B} (R : A -> B -> Prop) l l' : Forall2 R l l' ->
  forall i y, nth_error l' i = Some y -> exists x, nth_error l i = Some x /\ R x y.
Proof.
  induction 1 as [|a b r r' Hab Hr IH]; intros [|i] y Hy; simpl in *; try discriminate.
  - inversion Hy; subst. eauto.
  - apply IH. assumption.
Qed.

(* a position of a completion is a position of the tree, or lies strictly below an open leaf *)
Lemma pos_in_compl l : forall t t' s', compl t t' -> subtree t' l = Some s' ->
  (exists s, subtree t l = Some s /\ compl s s') \/
  (exists l0 r s0, l = l0 ++ r /\ r <> [] /\ subtree t l0 = Some s0 /\ kids s0 = []).
Proof.
  induction l as [|i l IH]; intros t t' s' Hc Hs.
  - left. simpl in Hs. inversion Hs; subst. exists t. split; [reflexivity | assumption].
  - destruct t as [lb id o ks]. rewrite compl_unfold in Hc. destruct o.
    + destruct Hc as [-> _]. right. exists [], (i :: l), (Node lb id true []).
      repeat split; try reflexivity. discriminate.
    + destruct Hc as (_ & _ & _ & Hks). apply compl_kids_F2 in Hks. simpl in Hs.
      destruct (nth_error (kids t') i) as [c'|] eqn:Ec'; [|discriminate].
      destruct (F2_nth_r _ _ _ Hks i c' Ec') as (c & Ec & Hcc).
      destruct (IH c c' s' Hcc Hs) as [(s & Hs1 & Hs2)|(l0 & r & s0 & -> & Hr & Hs0 & Hk)].
      * left. exists s. simpl. rewrite Ec. auto.
      * right. exists (i :: l0), r, s0. simpl. rewrite Ec. auto.
Qed.

Lemma compl_leaf s s' : compl s s' -> kids s' = [] -> kids s = [].
Proof.
  destruct s as [lb id o ks]. rewrite compl_unfold. destruct o.
  - intros [-> _] _. reflexivity.
  - intros (_ & _ & _ & Hks) Hk. rewrite Hk in Hks. destruct ks; [reflexivity | contradiction].
Qed.

Lemma doc_lt_app_inv_r l0 : forall p r, doc_lt p (l0 ++ r) -> doc_lt p l0 \/ prefix l0 p.
Proof.
  induction l0 as [|x l0 IH]; intros p r H.
  - right. apply prefix_nil.
  - destruct p as [|a p]; [exfalso; eapply doc_lt_nil_l; eassumption|].
    simpl in H. apply doc_lt_cons_inv in H as [Hlt|[-> H]].
    + left. apply doc_lt_head. assumption.
    + destruct (IH p r H) as [H1|H1]; [left; apply doc_lt_cons; assumption | right; apply prefix_cons; assumption].
Qed.

Lemma doc_lt_app_inv_l l0 : forall q r, doc_lt (l0 ++ r) q -> doc_lt l0 q \/ prefix l0 q.
Proof.
  induction l0 as [|x l0 IH]; intros q r H.
  - right. apply prefix_nil.
  - destruct q as [|b q]; [exfalso; eapply doc_lt_nil_r; eassumption|].
    simpl in H. apply doc_lt_cons_inv in H as [Hlt|[-> H]].
    + left. apply doc_lt_head. assumption.
    + destruct (IH q r H) as [H1|H1]; [left; apply doc_lt_cons; assumption | right; apply prefix_cons; assumption].
Qed.

(* a valid position at or below a childless node is that node *)
Lemma below_leaf t l0 s0 p s : subtree t l0 = Some s0 -> kids s0 = [] -> prefix l0 p ->
  subtree t p = Some s -> p = l0.
Proof.
  intros H0 Hk [r ->] Hp. rewrite subtree_app, H0 in Hp. destruct r as [|i r].
  - rewrite app_nil_r. reflexivity.
  - simpl in Hp. rewrite Hk in Hp. destruct i; discriminate.
Qed.

Lemma has_leaf s : exists r sl, subtree s r = Some sl /\ kids sl = [].
Proof.
  induction s as [lb id o ks IH] using tree_ind'. destruct ks as [|k ks'].
  - exists [], (Node lb id o []). split; reflexivity.
  - inversion IH as [|x y Hx Hy]; subst. destruct Hx as (r & sl & Hr & Hk).
    exists (0 :: r), sl. simpl. auto.
Qed.

Theorem consecutive_compl t t' p q sp sq : compl t t' ->
  subtree t p = Some sp -> subtree t q = Some sq ->
  (consecutive_spec t p q <-> consecutive_spec t' p q).
Proof.
  intros Hc Hp Hq. unfold consecutive_spec. split; intros [Hlt Hno]; (split; [assumption|]).
  - intros l s' Hs' Hk [H1 H2].
    destruct (pos_in_compl l t t' s' Hc Hs') as [(s & Hs & Hcs)|(l0 & r & s0 & -> & Hr & Hs0 & Hk0)].
    + apply (Hno l s Hs (compl_leaf s s' Hcs Hk)). auto.
    + destruct (doc_lt_app_inv_r l0 p r H1) as [H1'|H1'].
      * destruct (doc_lt_app_inv_l l0 q r H2) as [H2'|H2'].
        -- apply (Hno l0 s0 Hs0 Hk0). auto.
        -- pose proof (below_leaf t l0 s0 q sq Hs0 Hk0 H2' Hq) as E. subst q.
           apply (proj2 (doc_lt_not_prefix _ _ H2)). exists r. reflexivity.
      * pose proof (below_leaf t l0 s0 p sp Hs0 Hk0 H1' Hp) as E. subst p.
        apply (proj1 (doc_lt_not_prefix _ _ H1)). exists r. reflexivity.
  - intros l s Hs Hk [H1 H2].
    destruct (compl_subtree l t t' s Hc Hs) as (s' & Hs' & _).
    destruct (has_leaf s') as (r & sl & Hr & Hkl).
    apply (Hno (l ++ r) sl).
    + rewrite subtree_app, Hs'. assumption.
    + assumption.
    + split; [apply doc_lt_app_r; assumption | apply doc_lt_app_l; assumption].
Qed.

Lemma path2_compl t t' n p q :
  (consecutive_spec t p q <-> consecutive_spec t' p q) -> (path2 t n p q <-> path2 t' n p q).
Proof. unfold path2. tauto. Qed.

(* every binary structural predicate on variables bound to positions of the state tree is stable:
   before, after, inside, same_position, different_position, direct_child AND consecutive *)
Theorem stable_pred2 t b n a1 a2 : arg_valid t b a1 -> arg_valid t b a2 ->
  stable t b (FSPred n [a1; a2]) /\ stable t b (FNot (FSPred n [a1; a2])).
Proof.
  intros [Hn1 Hv1] [Hn2 Hv2].
  assert (Hiff : forall t', compl t t' -> (spred_sem t b n [a1; a2] <-> spred_sem t' b n [a1; a2])).
  { intros t' Hc. unfold spred_sem. split; intros (p & q & Hp & Hq & H).
    - destruct (Hv1 p Hp) as (sp & Hsp). destruct (Hv2 q Hq) as (sq & Hsq).
      exists p, q. split; [eapply arg_pos_no_tree; eassumption|].
      split; [eapply arg_pos_no_tree; eassumption|].
      apply (path2_compl t t' n p q (consecutive_compl t t' p q sp sq Hc Hsp Hsq)). assumption.
    - assert (Hp' : arg_pos t b a1 p) by (eapply arg_pos_no_tree; eassumption).
      assert (Hq' : arg_pos t b a2 q) by (eapply arg_pos_no_tree; eassumption).
      destruct (Hv1 p Hp') as (sp & Hsp). destruct (Hv2 q Hq') as (sq & Hsq).
      exists p, q. repeat split; try assumption.
      apply (path2_compl t t' n p q (consecutive_compl t t' p q sp sq Hc Hsp Hsq)). assumption. }
  split; intros t' Hc H.
  - apply (Hiff t' Hc). exact H.
  - intro H'. apply H. apply (Hiff t' Hc). exact H'.
Qed.
