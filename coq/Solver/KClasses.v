(* C01 — known-finding class for numeric quantifiers (harness/c01.py class_of mirrors it).
   K_forall_int: the constraint contains a `forall int` quantifier.  The recorded defect
   (forall-int-single-instance): instantiate_universal_integer_quantifier_by_enumeration replaces the
   quantifier by single instances without an exhaustiveness test — refuted at the level of the rule
   system by C01_forall_int_inst_refuted.  Constraints with `exists int` only are outside the class. *)
From ISLA Require Export Rules.

Fixpoint has_forall_int (f : cform) : bool :=
  match f with
  | FSmt _ | FSPred _ _ | FSemPred _ _ => false
  | FNot g => has_forall_int g
  | FAnd fs | FOr fs => existsb has_forall_int fs
  | FForall _ _ _ b | FExists _ _ _ b | FExistsInt _ b => has_forall_int b
  | FForallInt _ _ => true
  end.
Definition K_forall_int (f : cform) : bool := has_forall_int f.

(* K_neg_count (open finding negated-count-recursive-needle): the constraint contains a `count`
   atom in NEGATIVE polarity whose needle nonterminal is RECURSIVE (reachable from itself in the
   grammar graph, Eval3.reachb g N N; reachability is not reflexive).  Observed on /repo:
   `not count(start, "<num>", "2")` on <num> ::= <digit> | <digit><num> returns "5,9" (two <num>).
   Negated count atoms with a NON-recursive needle and positive count atoms are outside the class
   (harness/c01.py class_of mirrors it; failure code 16 only). *)
From ISLA Require Eval3.

Fixpoint neg_count_rec (g : grammar) (pol : bool) (f : cform) : bool :=
  match f with
  | FSemPred n (_ :: PStr needle :: _) =>
      negb pol && str_eqb n s_count && Eval3.reachb g needle needle
  | FSemPred _ _ | FSmt _ | FSPred _ _ => false
  | FNot h => neg_count_rec g (negb pol) h
  | FAnd fs | FOr fs => existsb (neg_count_rec g pol) fs
  | FForall _ _ _ b | FExists _ _ _ b | FForallInt _ b | FExistsInt _ b => neg_count_rec g pol b
  end.
Definition K_neg_count (g : grammar) (f : cform) : bool := neg_count_rec g true f.
