(* C01 — known-finding class for numeric quantifiers (harness/c01.py class_of mirrors it).
   K_forall_int: the constraint contains a `forall int` quantifier.  The recorded defect
   (forall-int-single-instance): instantiate_universal_integer_quantifier_by_enumeration replaces the
   quantifier by single instances without an exhaustiveness test — refuted at the level of the rule
   system by C01_forall_int_inst_refuted.  Constraints with `exists int` only are outside the class. *)
From ISLA Require Export Rules.

Fixpoint has_forall_int (f : cform) : bool :=
  match f with
  | FSmt _ | FSPred _ _ | FSemPred _ _ => false
  | FNot g => has_forall_int g
  | FAnd fs | FOr fs => existsb has_forall_int fs
  | FForall _ _ _ b | FExists _ _ _ b | FExistsInt _ b => has_forall_int b
  | FForallInt _ _ => true
  end.
Definition K_forall_int (f : cform) : bool := has_forall_int f.
