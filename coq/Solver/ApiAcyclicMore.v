(* C18 proof extension 3, part (2): the premise `no_oof` (out-of-fuel outcome of the Earley tree
   ENUMERATION excluded) is a THEOREM for grammars without cyclic unit/nullable derivations
   (C10: EarleyAcyclic.parse_total) once the fuel is above C10's chart bound. *)
From ISLA Require Import Grammar GrammarFacts Earley EarleyFacts EarleyPrune EarleyTop EarleyTrees
  EarleyComplete EarleyForest EarleyFuel EarleyWrap EarleyAcyclic.
From ISLA Require Import Api ApiFacts FreshIds ApiCompose.

Definition acyclic_start (g : grammar) : Prop := acyclicb (cgram g ASTART) = true.

Theorem no_oof_acyclic g fxA fxB fuelf s :
  gram_ok g -> guards fxA fxB g -> acyclic_start g -> fuel_ok fuelf g s ->
  no_oof fxA fxB fuelf g s.
Proof.
  intros (G1 & G2 & G3 & G4) [GA GB] Hac Hf. unfold no_oof.
  destruct (parse_total g ASTART fxA fxB (fuelf s) ASTART s 1 G1 G2 G3 G4 G4 GA GB Hac Hf Nat.lt_0_1)
    as [(_ & t & ts & E & _)|(_ & E)]; rewrite E; discriminate.
Qed.

Section AcyclicInstance.
  Variable g : grammar.
  Variables fxA fxB : bool.
  Variable fuelf : str -> nat.
  Hypothesis Hg : gram_ok g.
  Hypothesis Hgd : guards fxA fxB g.
  Hypothesis Hac : acyclic_start g.

  Notation P := (earley_first fxA fxB fuelf g).

  Theorem earley_parser_complete_acyclic :
    (forall s, fuel_ok fuelf g s) -> parser_complete g P.
  Proof.
    intro Hf. apply (earley_parser_complete g fxA fxB fuelf Hg Hgd Hf).
    intro s. apply no_oof_acyclic; auto.
  Qed.

  Theorem earley_outcomes_acyclic s : fuel_ok fuelf g s ->
    (L g ASTART s /\ exists t0 ts, earley_parse fxA fxB (fuelf s) g ASTART ASTART s 1 = Ok (t0 :: ts)) \/
    (~ L g ASTART s /\ earley_parse fxA fxB (fuelf s) g ASTART ASTART s 1 = Raise SyntaxErr).
  Proof.
    intro Hf. apply (earley_outcomes g fxA fxB fuelf Hg Hgd s Hf). apply no_oof_acyclic; auto.
  Qed.

  Theorem earley_syntaxerr_iff_acyclic s : fuel_ok fuelf g s ->
    (solver_parse fxA fxB (fuelf s) g ASTART s = Raise SyntaxErr <-> ~ L g ASTART s).
  Proof.
    intro Hf. apply (earley_syntaxerr_iff g fxA fxB fuelf Hg Hgd s Hf). apply no_oof_acyclic; auto.
  Qed.
End AcyclicInstance.
