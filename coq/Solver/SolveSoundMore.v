(* C01 — proof extension: soundness of the rules of RulesMore.v (tree insertion, removal of
   universal quantifiers over open in-trees, definite count verdicts) and the strengthened partial
   soundness theorem solve_sound_partial2 of the abstract solver.
   Cross-property inputs: C13 (InsertFacts.inserted, insert_tree_noctx_ok), C06 (Eval3.reachb,
   Eval3Compl.wf_desc_reach, reachb_complete_g, Eval3.qmm3), C14 (FixedLen.count_decide,
   FixedLenFacts.count_decide_true / _false). *)
From ISLA Require Export RulesMore.
From ISLA Require Eval3Facts Eval3Compl InsertSelfMore InsertSelfAssertMore InsertCtxMore FixedLenFacts.
From Coq Require Import Lia ZArith.

(* ------------------------------------------------------------------ *)
(* A. refinement steps and the invariant                               *)
(* ------------------------------------------------------------------ *)
Lemma refines_sound_rel g R : refines g R -> sound_rel g R.
Proof. intros H s s' Hr. destruct (H s s' Hr) as (_ & Hw & Hs). split; assumption. Qed.

Lemma core_refines g : refines g (core_step g).
Proof.
  intros s s' H. split; [|split; [apply core_wf; assumption | apply core_sound; assumption]].
  destruct H; simpl; try reflexivity. apply compl_lbl. assumption.
Qed.

Lemma eval_stable_refines g : refines g eval_step_stable.
Proof.
  intros s s' H. split; [|split; [|apply eval_stable_sound; assumption]].
  - destruct H; reflexivity.
  - destruct H; simpl; tauto.
Qed.

Theorem eval_stable_g_refines g : refines g (eval_step_stable_g g).
Proof.
  intros s s' H. destruct H as [cs1 cs2 b f t Hev Hm Hst]. simpl.
  split; [reflexivity|]. split; [tauto|].
  intros t' (Hc & Ho & Hw & Hh). simpl in *. unfold Sol; simpl. repeat split; try assumption.
  apply holds_mid. split; [|assumption]. apply Hst; assumption.
Qed.

(* a stable verdict in the sense of Rules.v is stable for grammar-valid completions *)
Lemma stable_stable_g g t b f : stable t b f -> stable_g g t b f.
Proof. intros H t' Hc _ Hm. apply H; assumption. Qed.

Theorem refines_preserves g start i0 cst phi R :
  refines g R -> preserves (inv g start i0 cst phi) R.
Proof.
  intros HR s s' Hr (Hw & Hl & Hs). destruct (HR s s' Hr) as (Hl' & Hw' & Hs').
  split; [auto|]. split; [congruence|]. intros t' Ht'. apply Hs. apply Hs'. assumption.
Qed.

Lemma inv_init g start i0 cst phi : is_nt start = true -> defined g start = true ->
  inv g start i0 cst phi (init_state start i0 cst phi).
Proof.
  intros Hnt Hdef. split; [|split].
  - simpl. constructor; assumption.
  - reflexivity.
  - auto.
Qed.

(* ------------------------------------------------------------------ *)
(* B. tree insertion                                                   *)
(* ------------------------------------------------------------------ *)
(* Of the C13 specification `inserted` the step needs only: the result is grammar-valid and has
   the host's root label.  (That host nodes keep id and label and that ins is contained matters
   for the re-anchoring of the remaining conjuncts and for progress, not for soundness: the
   original formula is re-conjoined.)  Hence insertion is sound for EVERY method mask, also with
   CONTEXT_ADDITION (class K_ctx of C13), whose results are only `inserted_lossy`. *)
Theorem insert_preserves g start i0 cst phi :
  preserves (inv g start i0 cst phi) (insert_step g cst phi).
Proof.
  intros s s' H (Hw & Hl & _).
  destruct H as [cs1 cs2 b v w m body t p0 host res t1 cs' Hb Hhost Hwr Hlr Hrep Hin].
  simpl in *.
  assert (Hw1 : wf_tree g t1) by (eapply InsertSelfAssertMore.replace_at_wf_gen; eassumption).
  assert (Hl1 : lbl t1 = lbl t) by (eapply InsertFacts.replace_at_root; eassumption).
  split; [assumption|]. split; [simpl; congruence|].
  intros t' (Hc & Ho & Hwt & Hh). simpl in *. unfold Sol, init_state; simpl.
  repeat split; try assumption.
  - rewrite (compl_lbl _ _ Hc). congruence.
  - intros b0 f0 [E|[]]. inversion E; subst. apply Hh. assumption.
Qed.

Theorem insert_step_of_inserted g cst phi cs1 cs2 b v w m body t p0 host ins res t1 cs' :
  b w = Some (VPos p0) -> subtree t p0 = Some host -> InsertFacts.inserted g host ins res ->
  Insert.replace_at t p0 res = Some t1 -> In (env0 cst, phi) cs' ->
  insert_step g cst phi (cs1 ++ (b, FExists v (InVar w) m body) :: cs2, t) (cs', t1).
Proof. intros Hb Hh (Hw & Hl & _ & _) Hr Hin. eapply r_insert; eassumption. Qed.

Theorem insert_step_of_lossy g cst phi cs1 cs2 b v w m body t p0 host ins res t1 cs' :
  b w = Some (VPos p0) -> subtree t p0 = Some host -> InsertCtxMore.inserted_lossy g host ins res ->
  Insert.replace_at t p0 res = Some t1 -> In (env0 cst, phi) cs' ->
  insert_step g cst phi (cs1 ++ (b, FExists v (InVar w) m body) :: cs2, t) (cs', t1).
Proof. intros Hb Hh (Hw & Hl & _ & _) Hr Hin. eapply r_insert; eassumption. Qed.

(* the results of the modelled insert_tree (C13) without CONTEXT_ADDITION give insertion steps *)
Theorem insert_tree_step g chain pb maxn meth cst phi cs1 cs2 b v w m body t p0 host ins rs res t1 cs' :
  InsertFacts.closed_g g -> InsertFacts.chain_ok chain -> wf_tree g t -> wf_tree g ins ->
  InsertSelfMore.uniq_ids host ins -> Insert.K_ctx meth = false ->
  b w = Some (VPos p0) -> subtree t p0 = Some host ->
  Insert.insert_tree g chain pb maxn meth ins host = Ok rs -> In res rs ->
  Insert.replace_at t p0 res = Some t1 -> In (env0 cst, phi) cs' ->
  insert_step g cst phi (cs1 ++ (b, FExists v (InVar w) m body) :: cs2, t) (cs', t1).
Proof.
  intros Hcg Hch Hwt Hwi Hu Hk Hb Hhost Hit Hin Hrep Hphi.
  eapply insert_step_of_inserted; try eassumption.
  eapply InsertSelfMore.insert_tree_noctx_ok; try eassumption.
  exact (InsertFacts.wf_subtree g p0 t host Hwt Hhost).
Qed.

(* ... and so do the results for EVERY method mask (oracle: + pb_start) *)
Theorem insert_tree_step_any_mask g chain pb maxn meth cst phi cs1 cs2 b v w m body t p0 host ins rs res t1 cs' :
  InsertFacts.closed_g g -> InsertFacts.chain_ok chain -> InsertSelfMore.pb_start pb ->
  wf_tree g t -> wf_tree g ins -> InsertSelfMore.uniq_ids host ins ->
  b w = Some (VPos p0) -> subtree t p0 = Some host ->
  Insert.insert_tree g chain pb maxn meth ins host = Ok rs -> In res rs ->
  Insert.replace_at t p0 res = Some t1 -> In (env0 cst, phi) cs' ->
  insert_step g cst phi (cs1 ++ (b, FExists v (InVar w) m body) :: cs2, t) (cs', t1).
Proof.
  intros Hcg Hch Hpb Hwt Hwi Hu Hb Hhost Hit Hin Hrep Hphi.
  eapply insert_step_of_lossy; try eassumption.
  eapply InsertCtxMore.insert_tree_lossy_ok; try eassumption.
  exact (InsertFacts.wf_subtree g p0 t host Hwt Hhost).
Qed.

(* insertion is NOT a refinement step: the premise H_insert (sound_rel g insert_step) of
   solve_sound_partial cannot be met by insertions that move host nodes (self embedding) *)
Module InsertWitness.
  Definition nt_s : str := [60;115;62]%N.
  Definition nt_a : str := [60;97;62]%N.
  Definition g : grammar := [(nt_s, [[nt_a]; [nt_a; nt_s]]); (nt_a, [[[97]%N]])].
  Definition cst := MkVar VConst [115;116;97;114;116]%N nt_s.
  Definition vx := MkVar VBound [120]%N nt_a.
  Definition phi : cform := FSmt (SBool true).
  Definition a_leaf (i j : N) : tree := Node nt_a i false [Node [97]%N j false []].
  Definition host : tree := Node nt_s 1 false [a_leaf 2 3].
  Definition ins : tree := Node nt_a 7 true [].
  (* self embedding, as isla.existential_helpers.insert_tree(methods=SELF_EMBEDDING) answers on this
     input: the host is wrapped into a new <s>, the host's <a> moves from [0] to [1;0] *)
  Definition res : tree := Node nt_s 0 false [ins; host].
  Definition t' : tree := Node nt_s 0 false [a_leaf 7 9; host].
  Definition s : cstate := ([(env0 cst, FExists vx (InVar cst) None phi)], host).
  Definition s' : cstate := ([(env0 cst, phi)], res).
End InsertWitness.

Theorem insert_not_refinement : exists g cst phi s s' t',
  insert_step g cst phi s s' /\ Sol g s' t' /\ ~ Sol g s t'.
Proof.
  exists InsertWitness.g, InsertWitness.cst, InsertWitness.phi, InsertWitness.s, InsertWitness.s',
         InsertWitness.t'.
  split; [|split].
  - apply (insert_step_of_inserted InsertWitness.g InsertWitness.cst InsertWitness.phi [] []
             (env0 InsertWitness.cst) InsertWitness.vx InsertWitness.cst None InsertWitness.phi
             InsertWitness.host [] InsertWitness.host InsertWitness.ins InsertWitness.res InsertWitness.res).
    + reflexivity.
    + reflexivity.
    + apply InsertFacts.insertedb_spec. vm_compute. reflexivity.
    + reflexivity.
    + left. reflexivity.
  - unfold Sol. simpl. split; [|split; [|split]].
    + repeat split; reflexivity.
    + reflexivity.
    + apply wf_treeb_spec. vm_compute. reflexivity.
    + intros b0 f0 [E|[]]. inversion E; subst. simpl. reflexivity.
  - intros (Hc & _). simpl in Hc. tauto.
Qed.

(* ------------------------------------------------------------------ *)
(* C. universal quantifiers over open in-trees                         *)
(* ------------------------------------------------------------------ *)
(* a node of the completion that is no node of t lies strictly below an open leaf of t *)
Lemma rcompl_new_node : forall p t t' s',
  compl t t' -> subtree t' p = Some s' -> subtree t p = None ->
  exists q r n w, p = q ++ r /\ r <> [] /\ subtree t q = Some n /\ opn n = true /\ kids n = [] /\
                  subtree t' q = Some w /\ lbl w = lbl n /\ subtree w r = Some s'.
Proof.
  induction p as [|k p IH]; intros t t' s' Hc Hs' Hn; [discriminate|].
  destruct t as [l i o ks]. rewrite compl_unfold in Hc. destruct o.
  - destruct Hc as [-> Hl].
    exists [], (k :: p), (Node l i true []), t'. repeat split; try reflexivity; try assumption. discriminate.
  - destruct Hc as (_ & _ & _ & Hks). apply compl_kids_F2 in Hks. simpl in Hs', Hn.
    destruct (nth_error (kids t') k) as [c'|] eqn:E'; [|discriminate].
    destruct (nth_error ks k) as [c|] eqn:E.
    + destruct (F2_nth _ _ _ Hks k c E) as (c2 & E2 & Hcc). rewrite E' in E2. inversion E2; subst c2.
      destruct (IH _ _ _ Hcc Hs' Hn) as (q & r & n & w & -> & Hr & Hq & Ho & Hk & Hq' & Hlw & Hw).
      exists (k :: q), r, n, w. simpl. rewrite E, E'. repeat split; assumption.
    + exfalso. apply nth_error_None in E. apply F2_length in Hks.
      assert (Hne : nth_error (kids t') k <> None) by congruence. apply nth_error_Some in Hne. lia.
Qed.

Lemma prefix_comparable (p0 q0 r : path) : prefix p0 (q0 ++ r) ->
  prefix p0 q0 \/ exists r', r' <> [] /\ p0 = q0 ++ r'.
Proof.
  revert q0. induction p0 as [|a p0 IH]; intros q0 H.
  - left. apply prefix_nil.
  - destruct q0 as [|c q0].
    + right. exists (a :: p0). split; [discriminate | reflexivity].
    + simpl in H. apply prefix_cons_inv in H as [<- H]. destruct (IH q0 H) as [Hp|(r' & Hr' & ->)].
      * left. apply prefix_cons. assumption.
      * right. exists r'. split; [assumption | reflexivity].
Qed.

Lemma subtree_below_leaf n r : kids n = [] -> r <> [] -> subtree n r = None.
Proof. intros Hk Hr. destruct r as [|i r]; [contradiction|]. simpl. rewrite Hk. destruct i; reflexivity. Qed.

(* the domain of the quantifier cannot get new positions in a grammar-valid completion *)
Lemma dom_no_new g t t' p0 s0 T q s' :
  Eval3.reach_closedb g = true -> compl t t' -> wf_tree g t' ->
  subtree t p0 = Some s0 -> is_nt T = true -> no_leaf_reaches g t p0 T ->
  prefix p0 q -> subtree t' q = Some s' -> lbl s' = T ->
  exists s, subtree t q = Some s /\ compl s s'.
Proof.
  intros Hrc Hc Hw Hs0 Hnt Hnl Hp Hs' Hl.
  destruct (subtree t q) as [s|] eqn:Es.
  - destruct (compl_subtree q t t' s Hc Es) as (s1 & Hs1 & Hcs). rewrite Hs' in Hs1. inversion Hs1; subst s1.
    exists s. auto.
  - exfalso.
    destruct (rcompl_new_node q t t' s' Hc Hs' Es) as (q0 & r & n & w & -> & Hr & Hq0 & Ho & Hk & Hq0' & Hlw & Hwr).
    destruct (prefix_comparable p0 q0 r Hp) as [Hpq|(r' & Hr' & ->)].
    + pose proof (Hnl q0 n Hq0 Ho Hpq) as Hfalse.
      assert (Hww : wf_tree g w) by (eapply InsertFacts.wf_subtree; eassumption).
      assert (Hreach : Eval3Facts.reach g (lbl w) (lbl s')).
      { eapply Eval3Compl.wf_desc_reach; try eassumption. rewrite Hl. assumption. }
      apply (Eval3Compl.reachb_complete_g g _ _ Hrc) in Hreach.
      rewrite Hlw, Hl in Hreach. congruence.
    + rewrite subtree_app, Hq0 in Hs0. rewrite (subtree_below_leaf n r' Hk Hr') in Hs0. discriminate.
Qed.

Theorem infeasible_refines g : Eval3.reach_closedb g = true -> refines g (infeasible_drop g).
Proof.
  intros Hrc s s' H.
  destruct H as [cs1 cs2 b v w m body t p0 s0 Hb Hs0 Hnt Hall Hnl Hme]. simpl.
  split; [reflexivity|]. split; [tauto|].
  intros t' (Hc & Ho & Hw & Hh). simpl in *. unfold Sol; simpl. repeat split; try assumption.
  apply holds_mid. split; [|assumption].
  assert (Hqm : forall q b', qmatch t' b v w m q b' -> qmatch t b v w m q b').
  { intros q b' [Hd Hm]. destruct Hd as (p1 & s1 & Hin & Hp & Hs1 & Hl1). simpl in Hin.
    rewrite Hb in Hin. inversion Hin; subst p1.
    destruct (dom_no_new g t t' p0 s0 (vtype v) q s1 Hrc Hc Hw Hs0 Hnt Hnl Hp Hs1 Hl1) as (s & Hs & Hcs).
    assert (Hd : in_dom t b (InVar w) (vtype v) q).
    { exists p0, s. simpl. repeat split; try assumption. rewrite <- (compl_lbl _ _ Hcs). assumption. }
    split; [assumption|]. destruct m as [me|]; [|assumption].
    destruct Hm as (s1x & t2 & P & bs & Hsx & Hin2 & Hsm & Hb'). rewrite Hs1 in Hsx. inversion Hsx; subst s1x.
    exists s, t2, P, bs. repeat split; try assumption.
    destruct (smatch t2 s P q) as [bs0|] eqn:E.
    - rewrite (smatch_compl t2 s s1 P q bs0 Hcs E) in Hsm. assumption.
    - simpl in Hme. rewrite (Hme q s t2 P Hd Hs Hin2 E s1 Hcs) in Hsm. discriminate. }
  simpl. destruct m as [me|].
  - intros q s t2 P bs Hd Hs Hin Hsm.
    apply Hh. apply (Hall q). apply Hqm. split; [assumption|]. exists s, t2, P, bs. auto.
  - intros q Hd. apply Hh. apply (Hall q). apply Hqm. split; [assumption | reflexivity].
Qed.

(* the rule, spelled out *)
Lemma infeasible_drop_def g s s' :
  infeasible_drop g s s' <->
  exists cs1 cs2 b v w m body t p0 s0,
    s = (cs1 ++ (b, FForall v (InVar w) m body) :: cs2, t) /\ s' = (cs1 ++ cs2, t) /\
    b w = Some (VPos p0) /\ subtree t p0 = Some s0 /\ is_nt (vtype v) = true /\
    (forall q b', qmatch t b v w m q b' -> In (b', body) (cs1 ++ cs2)) /\
    (forall leaf n, subtree t leaf = Some n -> opn n = true -> prefix p0 leaf ->
       Eval3.reachb g (lbl n) (vtype v) = false) /\
    match m with
    | None => True
    | Some me =>
        forall q s1 t2 P, in_dom t b (InVar w) (vtype v) q -> subtree t q = Some s1 ->
          In (t2, P) (me_trees me) -> smatch t2 s1 P q = None ->
          forall s1', compl s1 s1' -> smatch t2 s1' P q = None
    end.
Proof.
  split.
  - intro H. destruct H as [cs1 cs2 b v w m body t p0 s0 Hb Hs0 Hnt Hall Hnl Hme].
    exists cs1, cs2, b, v, w, m, body, t, p0, s0. repeat split; assumption.
  - intros (cs1 & cs2 & b & v & w & m & body & t & p0 & s0 & -> & -> & Hb & Hs0 & Hnt & Hall & Hnl & Hme).
    eapply r_drop_infeasible; eassumption.
Qed.

(* link to the C06 model of quantified_formula_might_match: if the test (without match
   expression, with the solver's already-matched ids am) answers False on every open leaf of the
   in-tree and every open leaf labelled with the quantified type is already matched (Python:
   all_matches_matched), the guard of r_drop_infeasible holds *)
Lemma qmm3_false_no_reach g t am v p0 :
  (forall leaf n, subtree t leaf = Some n -> opn n = true -> prefix p0 leaf ->
     Eval3.qmm3 g t am v p0 None leaf = false /\
     (lbl n = vtype v -> Eval3.already_matched am n = true)) ->
  no_leaf_reaches g t p0 (vtype v).
Proof.
  intros H leaf n Hs Ho Hp. destruct (H leaf n Hs Ho Hp) as [Hq Ham].
  unfold Eval3.qmm3 in Hq. rewrite Hs in Hq. rewrite (proj2 (prefixb_spec p0 leaf) Hp) in Hq. simpl in Hq.
  destruct (Eval3.already_matched am n) eqn:Ea.
  - rewrite Ho in Hq. exact Hq.
  - destruct (str_eqb (vtype v) (lbl n)) eqn:E.
    + apply str_eqb_eq in E. symmetry in E. apply Ham in E. discriminate.
    + destruct (Eval3.reachb g (lbl n) (vtype v)); [discriminate | reflexivity].
Qed.

(* ------------------------------------------------------------------ *)
(* D. definite verdicts of count                                       *)
(* ------------------------------------------------------------------ *)
Lemma list_sum_zero {A} (f : A -> nat) l : (forall x, In x l -> f x = 0) -> list_sum (map f l) = 0.
Proof.
  induction l as [|x l IH]; intro H; simpl; [reflexivity|].
  rewrite (H x (or_introl eq_refl)), IH; [reflexivity|]. intros y Hy. apply H. right. assumption.
Qed.

Lemma list_sum_pointwise {A} (f : A -> nat) (R : nat -> nat -> Prop) :
  R 0 0 -> (forall a b c d, R a b -> R c d -> R (a + c) (b + d)) ->
  forall ks ks', length ks = length ks' ->
    (forall i k k', nth_error ks i = Some k -> nth_error ks' i = Some k' -> R (f k) (f k')) ->
    R (list_sum (map f ks)) (list_sum (map f ks')).
Proof.
  intros R0 Radd. induction ks as [|k r IH]; intros [|k' r'] Hlen H; simpl in *; try discriminate.
  - assumption.
  - apply Radd.
    + apply (H 0 k k'); reflexivity.
    + apply IH; [lia|]. intros i x x' Hx Hx'. apply (H (S i)); assumption.
Qed.

(* no node labelled needle: count is 0 *)
Lemma count_lbl_zero needle w :
  (forall r x, subtree w r = Some x -> lbl x <> needle) -> count_lbl needle w = 0.
Proof.
  induction w as [l i o ks IH] using tree_ind'. intro H. simpl.
  destruct (str_eqb l needle) eqn:E.
  - apply str_eqb_eq in E. exfalso. apply (H [] (Node l i o ks) eq_refl). assumption.
  - simpl. apply list_sum_zero. intros k Hk. rewrite Forall_forall in IH. apply (IH k Hk).
    destruct (In_nth_error _ _ Hk) as [j Hj]. intros r x Hx. apply (H (j :: r)). simpl. rewrite Hj. assumption.
Qed.

(* a grammar-valid tree whose root label does not reach needle has needle at most at its root *)
Lemma count_lbl_root g needle w :
  Eval3.reach_closedb g = true -> is_nt needle = true -> wf_tree g w ->
  Eval3.reachb g (lbl w) needle = false ->
  count_lbl needle w = if str_eqb (lbl w) needle then 1 else 0.
Proof.
  intros Hrc Hnt Hw Hr. destruct w as [l i o ks]. simpl in *.
  rewrite (list_sum_zero (count_lbl needle) ks); [lia|].
  intros k Hk. destruct (In_nth_error _ _ Hk) as [j Hj]. apply count_lbl_zero.
  intros r x Hx Hl.
  assert (Hreach : Eval3Facts.reach g l (lbl x)).
  { apply (Eval3Compl.wf_desc_reach g (j :: r) (Node l i o ks) x Hw).
    - simpl. rewrite Hj. assumption.
    - discriminate.
    - rewrite Hl. assumption. }
  apply (Eval3Compl.reachb_complete_g g _ _ Hrc) in Hreach. rewrite Hl in Hreach. congruence.
Qed.

(* completion never removes nodes *)
Lemma count_compl_mono needle : forall s s', compl s s' -> count_lbl needle s <= count_lbl needle s'.
Proof.
  induction s as [l i o ks IH] using tree_ind'. intros s' Hc. rewrite compl_unfold in Hc.
  destruct s' as [l' i' o' ks']. destruct o.
  - destruct Hc as [-> Hl]. simpl in *. subst l'. lia.
  - destruct Hc as (Hl & _ & _ & Hks). simpl in Hl, Hks. subst l'. apply compl_kids_F2 in Hks. simpl.
    apply Nat.add_le_mono_l.
    apply (list_sum_pointwise (count_lbl needle) le); [lia | intros; lia | eapply F2_length; eassumption|].
    intros j k k' Hk Hk'. rewrite Forall_forall in IH. apply (IH k (nth_error_In _ _ Hk)).
    destruct (F2_nth _ _ _ Hks j k Hk) as (k2 & Hk2 & Hcc). congruence.
Qed.

(* no open leaf reaches needle: a grammar-valid completion has the same count *)
Lemma count_compl_settled g needle : Eval3.reach_closedb g = true -> is_nt needle = true ->
  forall s s', compl s s' -> wf_tree g s' ->
    (forall r n, subtree s r = Some n -> opn n = true -> Eval3.reachb g (lbl n) needle = false) ->
    count_lbl needle s' = count_lbl needle s.
Proof.
  intros Hrc Hnt. induction s as [l i o ks IH] using tree_ind'. intros s' Hc Hw Hop.
  rewrite compl_unfold in Hc. destruct o.
  - destruct Hc as [-> Hl].
    rewrite (count_lbl_root g needle s' Hrc Hnt Hw).
    + rewrite Hl. simpl. lia.
    + rewrite Hl. apply (Hop [] (Node l i true []) eq_refl eq_refl).
  - destruct s' as [l' i' o' ks']. destruct Hc as (Hl & _ & _ & Hks). simpl in Hl, Hks. subst l'.
    apply compl_kids_F2 in Hks. simpl. f_equal. symmetry.
    apply (list_sum_pointwise (count_lbl needle) eq); [reflexivity | intros; lia | eapply F2_length; eassumption|].
    intros j k k' Hk Hk'. rewrite Forall_forall in IH. symmetry. apply (IH k (nth_error_In _ _ Hk)).
    + destruct (F2_nth _ _ _ Hks j k Hk) as (k2 & Hk2 & Hcc). congruence.
    + apply (InsertFacts.wf_kids g (Node l i' o' ks') j k' Hw Hk').
    + intros r n Hn Ho. apply (Hop (j :: r) n); [|assumption]. simpl. rewrite Hk. assumption.
Qed.

Lemma num_val_fun b a k k' : num_val b a k -> num_val b a k' -> k = k'.
Proof. destruct a as [v|s|t]; simpl; congruence. Qed.

Definition count_atom (x : var) (needle : str) (a3 : parg) : cform :=
  FSemPred s_count [PVar x; PStr needle; a3].

(* count(x, needle, n), x bound to a node none of whose open leaves reaches needle: both
   polarities are stable under grammar-valid completion *)
Theorem stable_count_settled g t b x needle a3 p s :
  Eval3.reach_closedb g = true -> is_nt needle = true ->
  b x = Some (VPos p) -> subtree t p = Some s ->
  (forall r n, subtree s r = Some n -> opn n = true -> Eval3.reachb g (lbl n) needle = false) ->
  stable_g g t b (count_atom x needle a3) /\ stable_g g t b (FNot (count_atom x needle a3)).
Proof.
  intros Hrc Hnt Hb Hs Hop.
  assert (Hcnt : forall t', compl t t' -> wf_tree g t' ->
            exists s', subtree t' p = Some s' /\ count_lbl needle s' = count_lbl needle s).
  { intros t' Hc Hw. destruct (compl_subtree p t t' s Hc Hs) as (s' & Hs' & Hcs).
    exists s'. split; [assumption|]. apply (count_compl_settled g needle Hrc Hnt s s' Hcs); [|assumption].
    eapply InsertFacts.wf_subtree; eassumption. }
  split; intros t' Hc Hw H; destruct (Hcnt t' Hc Hw) as (s' & Hs' & Hn); simpl in *.
  - destruct H as (Hname & p1 & s1 & k & Hp1 & Hs1 & Hk & Hcount).
    rewrite Hb in Hp1. inversion Hp1; subst p1. rewrite Hs in Hs1. inversion Hs1; subst s1.
    split; [assumption|]. exists p, s', k. repeat split; try assumption. congruence.
  - intro H'. apply H. destruct H' as (Hname & p1 & s1 & k & Hp1 & Hs1 & Hk & Hcount).
    rewrite Hb in Hp1. inversion Hp1; subst p1. rewrite Hs' in Hs1. inversion Hs1; subst s1.
    split; [assumption|]. exists p, s, k. repeat split; try assumption. congruence.
Qed.

(* the target is already exceeded: the negated atom stays true in EVERY completion *)
Theorem stable_count_exceeded t b x needle a3 p s :
  b x = Some (VPos p) -> subtree t p = Some s ->
  (forall k, num_val b a3 k -> (k < N.of_nat (count_lbl needle s))%N) ->
  stable t b (FNot (count_atom x needle a3)).
Proof.
  intros Hb Hs Hlt t' Hc _ H'. simpl in H'.
  destruct H' as (Hname & p1 & s1 & k & Hp1 & Hs1 & Hk & Hcount).
  rewrite Hb in Hp1. inversion Hp1; subst p1.
  destruct (compl_subtree p t t' s Hc Hs) as (s' & Hs' & Hcs). rewrite Hs' in Hs1. inversion Hs1; subst s1.
  pose proof (count_compl_mono needle s s' Hcs). specialize (Hlt k Hk). lia.
Qed.

(* link to the C14 model of isla_predicates.count before its insertion search: a definite verdict
   of count_decide (with the computed reachability) is the truth value of the atom and is stable *)
Theorem count_decide_true_stable g t b x needle a3 p s k :
  Eval3.reach_closedb g = true -> is_nt needle = true ->
  b x = Some (VPos p) -> subtree t p = Some s -> num_val b a3 k ->
  FixedLen.count_decide (Eval3.reachb g) needle s (Z.of_N k) = FixedLen.CTrue ->
  models satom_denote t b (count_atom x needle a3) /\ stable_g g t b (count_atom x needle a3).
Proof.
  intros Hrc Hnt Hb Hs Hk Hd.
  destruct (FixedLenFacts.count_decide_true _ _ _ _ Hd) as (kk & Hkk & Hocc & Hop).
  rewrite <- FixedLenFacts.count_nodes_spec in Hocc.
  change (FixedLen.count_nodes needle s) with (count_lbl needle s) in Hocc.
  split.
  - simpl. split; [reflexivity|]. exists p, s, k. repeat split; try assumption. lia.
  - apply (stable_count_settled g t b x needle a3 p s Hrc Hnt Hb Hs).
    intros r n Hn Ho. apply (Hop r n Hn Ho).
Qed.

Theorem count_decide_false_stable g t b x needle a3 p s k :
  Eval3.reach_closedb g = true -> is_nt needle = true ->
  b x = Some (VPos p) -> subtree t p = Some s -> num_val b a3 k ->
  FixedLen.count_decide (Eval3.reachb g) needle s (Z.of_N k) = FixedLen.CFalse ->
  models satom_denote t b (FNot (count_atom x needle a3)) /\
  stable_g g t b (FNot (count_atom x needle a3)).
Proof.
  intros Hrc Hnt Hb Hs Hk Hd.
  assert (Hcases : (k < N.of_nat (count_lbl needle s))%N \/
                   (N.of_nat (count_lbl needle s) <> k /\
                    forall r n, subtree s r = Some n -> opn n = true -> Eval3.reachb g (lbl n) needle = false)).
  { destruct (FixedLenFacts.count_decide_false _ _ _ _ Hd) as [H|[H|[Hm H]]];
      try rewrite <- FixedLenFacts.count_nodes_spec in H;
      change (FixedLen.count_nodes needle s) with (count_lbl needle s) in *.
    - lia.
    - left. lia.
    - right. split; [lia|].
      assert (Hmc : FixedLen.meets_count (Eval3.reachb g) needle (FixedLen.count_nodes needle s) s = true).
      { unfold FixedLen.meets_count. rewrite Hm, Nat.eqb_refl. reflexivity. }
      apply FixedLenFacts.meets_count_spec in Hmc. destruct Hmc as [_ Hop]. exact Hop. }
  assert (Hnow : models satom_denote t b (FNot (count_atom x needle a3))).
  { simpl. intros (Hname & p1 & s1 & k1 & Hp1 & Hs1 & Hk1 & Hcount).
    rewrite Hb in Hp1. inversion Hp1; subst p1. rewrite Hs in Hs1. inversion Hs1; subst s1.
    rewrite (num_val_fun b a3 k1 k Hk1 Hk) in Hcount. destruct Hcases as [H|[H _]]; lia. }
  split; [assumption|]. destruct Hcases as [Hlt|[_ Hop]].
  - apply stable_stable_g. apply (stable_count_exceeded t b x needle a3 p s Hb Hs).
    intros k1 Hk1. rewrite (num_val_fun b a3 k1 k Hk1 Hk). assumption.
  - apply (stable_count_settled g t b x needle a3 p s Hrc Hnt Hb Hs Hop).
Qed.

(* ------------------------------------------------------------------ *)
(* E. the abstract solver with insertion, infeasible-universal removal  *)
(*    and count verdicts as RULES                                       *)
(* ------------------------------------------------------------------ *)
Section Solve2.
  Variable g : grammar.
  Variables (start : str) (i0 : N) (cst : var) (phi : cform).

  (* steps that are still NOT proved; each one is a named premise, now in the weaker form
     "preserves the invariant" (every refinement step does: refines_preserves):
     smt_step         eliminate_all_semantic_formulas / eliminate_semantic_formula (Z3 model, C10/C14 trees)
     numq_step        instantiate_universal_integer_quantifiers
     sem_search_step  eliminate_all_ready_semantic_predicate_formulas when the predicate answers with
                      a tree binding (count's insertion search, the class K_count) *)
  Variables smt_step numq_step sem_search_step : cstate -> cstate -> Prop.
  Hypothesis H_closed : Eval3.reach_closedb g = true.
  Hypothesis H_smt : preserves (inv g start i0 cst phi) smt_step.
  Hypothesis H_numq : preserves (inv g start i0 cst phi) numq_step.
  Hypothesis H_sem_search : preserves (inv g start i0 cst phi) sem_search_step.

  Inductive step2 : cstate -> cstate -> Prop :=
  | st2_core s s' : core_step g s s' -> step2 s s'
  | st2_eval s s' : eval_step_stable s s' -> step2 s s'
  | st2_eval_g s s' : eval_step_stable_g g s s' -> step2 s s'
  | st2_infeasible s s' : infeasible_drop g s s' -> step2 s s'
  | st2_insert s s' : insert_step g cst phi s s' -> step2 s s'
  | st2_smt s s' : smt_step s s' -> step2 s s'
  | st2_numq s s' : numq_step s s' -> step2 s s'
  | st2_sem_search s s' : sem_search_step s s' -> step2 s s'.

  Inductive reachable2 (s0 : cstate) : cstate -> Prop :=
  | reach2_refl : reachable2 s0 s0
  | reach2_step s s' : reachable2 s0 s -> step2 s s' -> reachable2 s0 s'.

  Lemma step2_preserves : preserves (inv g start i0 cst phi) step2.
  Proof.
    intros s s' H. destruct H as [s s' H|s s' H|s s' H|s s' H|s s' H|s s' H|s s' H|s s' H].
    - apply (refines_preserves g start i0 cst phi _ (core_refines g)). assumption.
    - apply (refines_preserves g start i0 cst phi _ (eval_stable_refines g)). assumption.
    - apply (refines_preserves g start i0 cst phi _ (eval_stable_g_refines g)). assumption.
    - apply (refines_preserves g start i0 cst phi _ (infeasible_refines g H_closed)). assumption.
    - apply insert_preserves. assumption.
    - apply H_smt. assumption.
    - apply H_numq. assumption.
    - apply H_sem_search. assumption.
  Qed.

  Lemma reach2_inv s0 s : reachable2 s0 s -> inv g start i0 cst phi s0 -> inv g start i0 cst phi s.
  Proof.
    induction 1 as [|s s' Hr IH Hst]; intro H0; [assumption|].
    eapply step2_preserves; [eassumption | apply IH; assumption].
  Qed.

  Theorem solve_sound_partial2 s :
    is_nt start = true -> defined g start = true ->
    reachable2 (init_state start i0 cst phi) s -> final s ->
    valid_solution g start cst phi (snd s).
  Proof.
    intros Hnt Hdef Hr [Hcs Hcl].
    destruct (reach2_inv _ _ Hr (inv_init g start i0 cst phi Hnt Hdef)) as (Hwf & Hl & Hs).
    assert (Hsol : Sol g s (snd s)).
    { unfold Sol. repeat split; try assumption.
      - apply compl_refl_closed. assumption.
      - rewrite Hcs. intros b f []. }
    apply Hs in Hsol. destruct Hsol as (_ & _ & _ & Hh). simpl in Hh.
    unfold valid_solution. repeat split; try assumption.
    - rewrite <- Hl. apply wf_closed_yield; assumption.
    - unfold sat. apply (Hh (env0 cst) phi). left. reflexivity.
  Qed.

  Lemma step2_def s s' :
    step2 s s' <->
    (core_step g s s' \/ eval_step_stable s s' \/ eval_step_stable_g g s s' \/
     infeasible_drop g s s' \/ insert_step g cst phi s s' \/
     smt_step s s' \/ numq_step s s' \/ sem_search_step s s').
  Proof.
    split.
    - intro H. destruct H; tauto.
    - intros [H|[H|[H|[H|[H|[H|[H|H]]]]]]].
      + apply st2_core; assumption.
      + apply st2_eval; assumption.
      + apply st2_eval_g; assumption.
      + apply st2_infeasible; assumption.
      + apply st2_insert; assumption.
      + apply st2_smt; assumption.
      + apply st2_numq; assumption.
      + apply st2_sem_search; assumption.
  Qed.

  Lemma reach2_first s0 s1 s2 : step2 s0 s1 -> reachable2 s1 s2 -> reachable2 s0 s2.
  Proof.
    intros H01 H12. induction H12 as [|s s' Hr IH Hst].
    - eapply reach2_step; [apply reach2_refl | assumption].
    - eapply reach2_step; eassumption.
  Qed.
End Solve2.

(* the old premises imply the new ones *)
Lemma sound_rel_lbl_refines g R : sound_rel g R ->
  (forall s s', R s s' -> lbl (snd s') = lbl (snd s)) -> refines g R.
Proof. intros H Hl s s' Hr. destruct (H s s' Hr) as [Hw Hs]. split; [apply Hl; assumption|]. split; assumption. Qed.

(* ------------------------------------------------------------------ *)
(* F. non-vacuity: a run that uses the three new rules                  *)
(* ------------------------------------------------------------------ *)
(* grammar <s> ::= <a>, <a> ::= "a", <b> ::= "b";
   constraint (exists <a> x in start: x = "a") and (forall <b> y in start: y = "a")
              and count(start, "<b>", "0");
   run: split, INSERT <a> into the open root, split, match the existential, DROP the universal over
   the open tree (no leaf reaches <b>), evaluate the COUNT atom (settled), expand, evaluate x = "a" *)
Module Run2Example.
  Definition nt_s : str := [60;115;62]%N.
  Definition nt_a : str := [60;97;62]%N.
  Definition nt_b : str := [60;98;62]%N.
  Definition g : grammar := [(nt_s, [[nt_a]]); (nt_a, [[[97]%N]]); (nt_b, [[[98]%N]])].
  Definition cst := MkVar VConst [115;116;97;114;116]%N nt_s.
  Definition vx := MkVar VBound [120]%N nt_a.
  Definition vy := MkVar VBound [121]%N nt_b.
  Definition is_a (v : var) : cform := FSmt (SStr false (SVar v) (SLit [97]%N)).
  Definition f_ex : cform := FExists vx (InVar cst) None (is_a vx).
  Definition f_all : cform := FForall vy (InVar cst) None (is_a vy).
  Definition f_cnt : cform := count_atom cst nt_b (PStr [48]%N).
  Definition phi : cform := FAnd [f_ex; f_all; f_cnt].
  Definition e0 : env := env0 cst.
  Definition b1 : env := upd e0 vx (VPos [0]).
  Definition ins : tree := Node nt_a 7 true [].
  Definition t1 : tree := Node nt_s 0 false [ins].
  Definition t2 : tree := Node nt_s 0 false [Node nt_a 7 false [Node [97]%N 8 false []]].
  Definition none : cstate -> cstate -> Prop := fun _ _ => False.
End Run2Example.

Example solve_sound2_example :
  let R := Run2Example.none in
  reachable2 Run2Example.g Run2Example.cst Run2Example.phi R R R
             (init_state Run2Example.nt_s 0 Run2Example.cst Run2Example.phi) ([], Run2Example.t2) /\
  final ([], Run2Example.t2) /\ Eval3.reach_closedb Run2Example.g = true /\
  preserves (inv Run2Example.g Run2Example.nt_s 0 Run2Example.cst Run2Example.phi) R.
Proof.
  set (G := Run2Example.g). set (e0 := Run2Example.e0). set (b1 := Run2Example.b1).
  set (fex := Run2Example.f_ex). set (fall := Run2Example.f_all). set (fcnt := Run2Example.f_cnt).
  set (t1 := Run2Example.t1). set (t2 := Run2Example.t2).
  assert (Hrc : Eval3.reach_closedb G = true) by (vm_compute; reflexivity).
  split; [|split; [|split]].
  - (* 1. split the conjunction *)
    eapply reach2_first.
    { apply st2_core. apply (r_and G [] [] e0 [fex; fall; fcnt] (Node Run2Example.nt_s 0 true [])). }
    simpl.
    (* 2. insertion *)
    eapply reach2_first.
    { apply st2_insert.
      apply (insert_step_of_inserted G Run2Example.cst Run2Example.phi [] [(e0, fall); (e0, fcnt)] e0
               Run2Example.vx Run2Example.cst None (Run2Example.is_a Run2Example.vx)
               (Node Run2Example.nt_s 0 true []) [] (Node Run2Example.nt_s 0 true [])
               Run2Example.ins t1 t1 [(e0, Run2Example.phi)]).
      - reflexivity.
      - reflexivity.
      - apply InsertFacts.insertedb_spec. vm_compute. reflexivity.
      - reflexivity.
      - left. reflexivity. }
    (* 3. split again *)
    eapply reach2_first.
    { apply st2_core. apply (r_and G [] [] e0 [fex; fall; fcnt] t1). }
    simpl.
    (* 4. match the existential at [0] *)
    eapply reach2_first.
    { apply st2_core.
      apply (r_match_exists G [] [(e0, fall); (e0, fcnt)] e0 Run2Example.vx Run2Example.cst None
               (Run2Example.is_a Run2Example.vx) t1 [0] b1).
      split; [|reflexivity]. exists [], Run2Example.ins. repeat split; try reflexivity. apply prefix_nil. }
    simpl.
    (* 5. drop the universal over the open tree *)
    eapply reach2_first.
    { apply st2_infeasible.
      apply (r_drop_infeasible G [(b1, Run2Example.is_a Run2Example.vx)] [(e0, fcnt)] e0
               Run2Example.vy Run2Example.cst None (Run2Example.is_a Run2Example.vy) t1 [] t1).
      - reflexivity.
      - reflexivity.
      - reflexivity.
      - intros q b' [(p0 & s & _ & _ & Hs & Hl) _]. exfalso.
        apply nodes_spec in Hs. vm_compute in Hs.
        destruct Hs as [E|[E|[]]]; inversion E; subst; discriminate Hl.
      - intros leaf n Hs Ho _. apply nodes_spec in Hs. vm_compute in Hs.
        destruct Hs as [E|[E|[]]]; inversion E; subst; try discriminate Ho. vm_compute. reflexivity.
      - exact I. }
    simpl.
    (* 6. the count atom: definite verdict of count_decide, stable *)
    eapply reach2_first.
    { apply st2_eval_g.
      destruct (count_decide_true_stable G t1 e0 Run2Example.cst Run2Example.nt_b (PStr [48]%N) [] t1 0%N
                  Hrc eq_refl eq_refl eq_refl eq_refl) as [Hm Hst]; [vm_compute; reflexivity|].
      apply (r_eval_stable_g G [(b1, Run2Example.is_a Run2Example.vx)] [] e0 fcnt t1);
        [constructor | exact Hm | exact Hst]. }
    simpl.
    (* 7. expand *)
    eapply reach2_first.
    { apply st2_core. apply (r_expand G _ t1 t2).
      - unfold t1, t2, Run2Example.t1, Run2Example.t2, Run2Example.ins. simpl. repeat split; reflexivity.
      - apply wf_treeb_spec. vm_compute. reflexivity. }
    (* 8. evaluate x = "a" *)
    eapply reach2_first; [|apply reach2_refl].
    apply st2_eval. apply (r_eval_stable [] [] b1 (Run2Example.is_a Run2Example.vx) t2).
    + constructor.
    + apply (proj1 (satom_dec_spec (SStr false (SVar Run2Example.vx) (SLit [97]%N)) (tenv t2 b1))).
      vm_compute. reflexivity.
    + apply stable_smt_closed. intros v [<-|[]].
      exists [0], (Node Run2Example.nt_a 7 false [Node [97]%N 8 false []]). repeat split; reflexivity.
  - split; reflexivity.
  - exact Hrc.
  - intros s s' [].
Qed.
