(* C18 proof extension 3: composition.
   (1) isla_sat (= Semantics.sat with the concrete atom family) respects eqv for every constraint
       inside EraseSem.eqv_guard; the three refutation witnesses of ApiComposeEx.v are outside it.
   (2) check(tree) = check(str(tree)) with the premises sat_respects_eqv and no_oof DISCHARGED
       (abstract evaluator: check_tree_str_earley_guarded; concrete evaluator isla_eval, no
       component premise left: check_tree_str_composed).
   (3) the mutator premise: a mutant stream filtered by C12's verified acceptance procedure
       accept_mutate needs no premise; on runs of C12's transition system the filter is the identity. *)
From ISLA Require Import Grammar GrammarFacts Earley EarleyPrune EarleyTrees EarleyFuel EarleyAcyclic.
From ISLA Require Import Semantics Eval EvalAtoms EvalFacts MatchFacts EvalMexprFacts EvalMexprCheck.
From ISLA Require Import Mutate MutateFacts.
From ISLA Require Import EraseSem ApiAcyclicMore.
From ISLA Require Import Api ApiFacts FreshIds ApiCompose ApiInst ApiComposeEval ApiComposeEx.
From Coq Require Import Lia.

(* ---- the concrete atoms see only the strings of the assigned trees ---- *)
Lemma yrel_sym o o' : yrel o o' -> yrel o' o.
Proof. destruct o, o'; simpl; auto. Qed.

Lemma sterm_den_yield e e' x u : (forall v, yrel (e v) (e' v)) -> sterm_den e x u -> sterm_den e' x u.
Proof.
  intros H. destruct x as [v|s]; simpl; [|auto]. intros (t & Ht & ->).
  specialize (H v). rewrite Ht in H. destruct (e' v) as [t'|]; simpl in H; [|contradiction].
  exists t'. split; [reflexivity | exact H].
Qed.

Lemma atom_denote_yield1 a e e' : (forall v, yrel (e v) (e' v)) -> atom_denote a e -> atom_denote a e'.
Proof.
  intros H. destruct a as [neg s t|op s n|b]; simpl; [| |auto].
  - intros (u & w & H1 & H2 & H3). exists u, w.
    split; [exact (sterm_den_yield e e' s u H H1)|]. split; [exact (sterm_den_yield e e' t w H H2) | exact H3].
  - intros (u & H1 & H2). exists u. split; [exact (sterm_den_yield e e' s u H H1) | exact H2].
Qed.

Lemma atom_denote_yield a e e' : (forall v, yrel (e v) (e' v)) -> (atom_denote a e <-> atom_denote a e').
Proof.
  intro H. split; apply atom_denote_yield1; [exact H | intro v; apply yrel_sym; exact (H v)].
Qed.

(* ---- (1) the positive half of sat_respects_eqv ---- *)
Theorem isla_sat_erase g cst phi t : wf_tree g t -> lbl t <> [] -> eqv_guard phi = true ->
  (isla_sat cst phi t <-> isla_sat cst phi (erase t)).
Proof. intros W L G. exact (sat_erase atom atom_denote atom_denote_yield g t W cst phi L G). Qed.

Theorem isla_sat_respects_eqv g cst phi : eqv_guard phi = true -> sat_respects_eqv g (isla_sat cst phi).
Proof. exact (sat_respects_eqv_guarded atom atom_denote atom_denote_yield g cst phi). Qed.

(* the guard excludes exactly the three refuted classes' witnesses, and admits the example *)
Example eqv_guard_examples :
  eqv_guard cx_phi = true /\ eqv_guard rx_phi = false /\ eqv_guard rc_phi = false /\ eqv_guard ri_phi = false.
Proof. repeat split; reflexivity. Qed.

(* ---- (2) check(tree) = check(str(tree)) ---- *)
Section TreeStr.
  Variable g : grammar.
  Variables fxA fxB : bool.
  Variable fuelf : str -> nat.
  Hypothesis Hg : gram_ok g.
  Hypothesis Hgd : guards fxA fxB g.
  Hypothesis Hac : acyclic_start g.

  Notation P := (earley_first fxA fxB fuelf g).

  (* abstract evaluator for the constraint phi: the premises sat_respects_eqv and no_oof are gone *)
  Theorem check_tree_str_earley_guarded cst phi eval t :
    (forall s, fuel_ok fuelf g s) ->
    eval_definite g eval -> eval_correct g (isla_sat cst phi) eval ->
    eqv_guard phi = true -> unambiguous g -> good g t ->
    check_str P eval (yield t) = check_tree eval t.
  Proof.
    intros Hf Hd Hc Hq Hu Hgood.
    apply (check_tree_str_earley g fxA fxB fuelf Hg Hgd (isla_sat cst phi) eval t Hf); auto.
    - intro s. apply no_oof_acyclic; auto.
    - apply isla_sat_respects_eqv. exact Hq.
  Qed.

  (* parser and evaluator concrete: only side conditions on grammar, fuel, constraint and tree *)
  Theorem check_tree_str_composed cst phi t :
    fuel_ok fuelf g (yield t) ->
    eqv_guard phi = true -> unambiguous g -> good g t -> NoDup (ids t) ->
    isla_guard cst phi t = true -> guard_on g fxA fxB fuelf cst phi (yield t) ->
    check_str P (isla_eval cst phi) (yield t) = check_tree (isla_eval cst phi) t.
  Proof.
    intros Hf Hq Hu Hgood Hnd Hgt Hgs.
    assert (HL : L g ASTART (yield t)).
    { destruct Hgood as [Hwf [Hcl Hl]]. pose proof (wf_closed_yield g t Hwf Hcl) as HL. rewrite Hl in HL. exact HL. }
    pose proof (no_oof_acyclic g fxA fxB fuelf (yield t) Hg Hgd Hac Hf) as Hno.
    destruct (earley_complete_at g fxA fxB fuelf Hg Hgd (yield t) Hf Hno HL) as [t' Pt].
    destruct (earley_sound_at g fxA fxB fuelf Hg Hgd (yield t) t' Pt) as [Hgood' Hy].
    pose proof (earley_first_uniq g fxA fxB fuelf (yield t) t' Pt) as Hnd'.
    assert (E : eqv t t') by (apply Hu; [exact Hgood | exact Hgood' | symmetry; exact Hy]).
    pose proof (isla_sat_respects_eqv g cst phi Hq t t' Hgood Hgood' E) as Hiff.
    destruct (isla_eval_ok g cst phi t Hgood Hnd Hgt) as [D1 C1].
    destruct (isla_eval_ok g cst phi t' Hgood' Hnd' (Hgs t' Pt)) as [D2 C2].
    unfold Api.check_str. rewrite parse_api_unfold, Pt.
    destruct (check_tree_cases_at (isla_sat cst phi) (isla_eval cst phi) t D1 C1) as [[E1 S1]|[E1 S1]];
      destruct (check_tree_cases_at (isla_sat cst phi) (isla_eval cst phi) t' D2 C2) as [[E2 S2]|[E2 S2]];
      rewrite E1, E2; try reflexivity.
    - exfalso. apply S2. apply Hiff. exact S1.
    - exfalso. apply S1. apply Hiff. exact S2.
  Qed.

  (* the verdict tables of parse()/check(str) with no_oof discharged *)
  Theorem parse_api_spec_earley_acyclic sat eval s :
    fuel_ok fuelf g s -> eval_definite g eval -> eval_correct g sat eval ->
    (L g ASTART s /\ exists t, P ASTART s = Some t /\ good g t /\ yield t = s /\ NoDup (ids t) /\
       ((sat t /\ parse_api P eval s ASTART false = Ok t /\ check_str P eval s = Ok true) \/
        (~ sat t /\ parse_api P eval s ASTART false = Raise SemanticErr /\ check_str P eval s = Ok false))) \/
    (~ L g ASTART s /\ P ASTART s = None /\
       parse_api P eval s ASTART false = Raise SyntaxErr /\ check_str P eval s = Ok false).
  Proof.
    intros Hf Hd Hc.
    exact (parse_api_spec_earley g fxA fxB fuelf Hg Hgd sat eval s Hf
             (no_oof_acyclic g fxA fxB fuelf s Hg Hgd Hac Hf) Hd Hc).
  Qed.

  Theorem parse_api_spec_composed_acyclic cst phi s :
    fuel_ok fuelf g s -> guard_on g fxA fxB fuelf cst phi s ->
    (L g ASTART s /\ exists t, P ASTART s = Some t /\ good g t /\ yield t = s /\
       ((isla_sat cst phi t /\ parse_api P (isla_eval cst phi) s ASTART false = Ok t /\
         check_str P (isla_eval cst phi) s = Ok true) \/
        (~ isla_sat cst phi t /\ parse_api P (isla_eval cst phi) s ASTART false = Raise SemanticErr /\
         check_str P (isla_eval cst phi) s = Ok false))) \/
    (~ L g ASTART s /\ P ASTART s = None /\
       parse_api P (isla_eval cst phi) s ASTART false = Raise SyntaxErr /\
       check_str P (isla_eval cst phi) s = Ok false).
  Proof.
    intros Hf Hgs.
    exact (parse_api_spec_composed g fxA fxB fuelf cst phi Hg Hgd s Hf
             (no_oof_acyclic g fxA fxB fuelf s Hg Hgd Hac Hf) Hgs).
  Qed.
End TreeStr.

(* ---- (3) the mutator premise ---- *)
(* the k-th mutant, passed through C12's acceptance procedure for outputs of Mutator.mutate
   (closed valid tree with the root symbol of the input); a rejected mutant is an AssertionError *)
Definition checked_mutant (g : grammar) (mutant : tree -> nat -> res tree) : tree -> nat -> res tree :=
  fun inp k => match mutant inp k with
               | Ok m => if accept_mutate g inp m then Ok m else Raise AssertErr
               | Raise e => Raise e
               end.

Theorem checked_mutant_valid g mutant : mutant_valid g (checked_mutant g mutant).
Proof.
  intros inp k m [Hwf [Hcl Hl]] H. unfold checked_mutant in H.
  destruct (mutant inp k) as [m'|e]; [|discriminate].
  destruct (accept_mutate g inp m') eqn:E; [|discriminate]. inversion H; subst m'.
  destruct (accept_mutate_sound g inp m E) as (W & C & Lb).
  split; [exact W|]. split; [exact C|]. rewrite Lb. exact Hl.
Qed.

(* on runs of C12's transition system the filter is the identity (C12: MutateFacts.mutate_valid) *)
Theorem checked_mutant_id g mutant : good_grammar g -> mutant_is_run g mutant ->
  forall inp k, good g inp -> checked_mutant g mutant inp k = mutant inp k.
Proof.
  intros Hg Hrun inp k [Hwf [Hcl Hl]]. unfold checked_mutant.
  destruct (mutant inp k) as [m|e] eqn:E; [|reflexivity].
  destruct (MutateFacts.mutate_valid g inp m (good_uses_defined g Hg) Hwf Hcl (Hrun inp k m E)) as (W & C & Lb).
  assert (Ha : accept_mutate g inp m = true).
  { unfold accept_mutate, closedb. rewrite C. apply andb_true_iff. split; [apply andb_true_iff; split|].
    - apply wf_treeb_spec. exact W.
    - reflexivity.
    - apply str_eqb_eq. exact Lb. }
  rewrite Ha. reflexivity.
Qed.

Theorem mutate_str_valid_earley_checked g fxA fxB fuelf :
  gram_ok g -> guards fxA fxB g ->
  forall sat eval has_top sem_false abstractions subsolve safe_ok mutant s fuel t,
  eval_correct g sat eval -> subsolve_sound g sat abstractions subsolve ->
  mutate_str (earley_first fxA fxB fuelf g) eval has_top sem_false abstractions subsolve safe_ok true
             (checked_mutant g mutant) s fuel = Some (Ok t) ->
  good g t /\ sat t.
Proof.
  intros Hg Hgd sat eval has_top sem_false abstractions subsolve safe_ok mutant s fuel t Hc Hsv H.
  exact (mutate_str_valid g sat (earley_first fxA fxB fuelf g) eval has_top sem_false abstractions subsolve
           safe_ok (checked_mutant g mutant) s fuel t (earley_parser_sound g fxA fxB fuelf Hg Hgd) Hc Hsv
           (checked_mutant_valid g mutant) H).
Qed.

(* ---- non-vacuity: ex_g is unambiguous and acyclic; the fuzzer-shaped epsilon tree ---- *)
Definition xA : str := [60;97;62]%N.
Definition xX : str := [120]%N.

Lemma wf_x k : wf_tree ex_g k -> lbl k = xX -> exists j, k = Node xX j false [].
Proof.
  intros W L.
  inversion W as [A i HA HD | w i Hw | A i ks HA Hne Hin Hall | A i HA Hin | A i j HA Hin]; subst;
    simpl in L; subst; try (vm_compute in HA; discriminate).
  eauto.
Qed.

Lemma wf_a k : wf_tree ex_g k -> is_openT k = false -> lbl k = xA ->
  (exists j j2, k = Node xA j false [Node xX j2 false []]) \/
  (exists j, k = Node xA j false []) \/
  (exists j j2, k = Node xA j false [Node [] j2 false []]).
Proof.
  intros W C L.
  inversion W as [A i HA HD | w i Hw | A i ks HA Hne Hin Hall | A i HA Hin | A i j HA Hin]; subst;
    simpl in L; subst.
  - simpl in C. discriminate.
  - vm_compute in Hw. discriminate.
  - change (alts ex_g xA) with [[]; [xX]] in Hin. destruct Hin as [Hin|[Hin|[]]].
    + destruct ks; [contradiction | discriminate].
    + destruct ks as [|k2 [|k3 r]]; try discriminate. simpl in Hin. inversion Hin as [L2].
      inversion Hall as [|? ? W2 _]; subst. destruct (wf_x k2 W2 (eq_sym L2)) as (j2 & ->).
      left. eauto.
  - right. left. eauto.
  - right. right. eauto.
Qed.

Lemma good_ex_shapes a : good ex_g a ->
  (exists i j j2, a = Node ASTART i false [Node xA j false [Node xX j2 false []]]) \/
  (exists i j, a = Node ASTART i false [Node xA j false []]) \/
  (exists i j j2, a = Node ASTART i false [Node xA j false [Node [] j2 false []]]).
Proof.
  intros [W [C L]].
  inversion W as [A i HA HD | w i Hw | A i ks HA Hne Hin Hall | A i HA Hin | A i j HA Hin]; subst;
    simpl in L; subst.
  - simpl in C. discriminate.
  - vm_compute in Hw. discriminate.
  - change (alts ex_g ASTART) with [[xA]] in Hin. destruct Hin as [Hin|[]].
    destruct ks as [|k [|k3 r]]; try discriminate. simpl in Hin. inversion Hin as [L2].
    inversion Hall as [|? ? W2 _]; subst. simpl in C. rewrite !orb_false_r in C.
    destruct (wf_a k W2 C (eq_sym L2)) as [(j & j2 & ->)|[(j & ->)|(j & j2 & ->)]]; eauto 10.
  - change (alts ex_g ASTART) with [[xA]] in Hin. destruct Hin as [Hin|[]]. discriminate.
  - change (alts ex_g ASTART) with [[xA]] in Hin. destruct Hin as [Hin|[]]. discriminate.
Qed.

Example ex_unambiguous : unambiguous ex_g.
Proof.
  intros a b Ga Gb Hy.
  destruct (good_ex_shapes a Ga) as [(i & j & j2 & ->)|[(i & j & ->)|(i & j & j2 & ->)]];
    destruct (good_ex_shapes b Gb) as [(i' & j' & j2' & ->)|[(i' & j' & ->)|(i' & j' & j2' & ->)]];
    try discriminate Hy; reflexivity.
Qed.

Example ex_acyclic : acyclic_start ex_g.
Proof. vm_compute. reflexivity. Qed.

(* every hypothesis of check_tree_str_composed holds for the fuzzer-shaped epsilon tree (whose parse
   has the OTHER epsilon shape) and for the tree of "x"; both verdicts occur *)
Example check_tree_str_nonvacuous :
  gram_ok ex_g /\ guards false false ex_g /\ acyclic_start ex_g /\ unambiguous ex_g /\
  eqv_guard cx_phi = true /\
  (forall t, t = ex_eps_fuzzer \/ t = ex_t ->
     fuel_ok cx_fuel ex_g (yield t) /\ good ex_g t /\ NoDup (ids t) /\ isla_guard cx_cst cx_phi t = true /\
     guard_on ex_g false false cx_fuel cx_cst cx_phi (yield t)) /\
  earley_first false false cx_fuel ex_g ASTART (yield ex_eps_fuzzer) = Some ex_eps_parser /\
  check_tree (isla_eval cx_cst cx_phi) ex_eps_fuzzer = Ok false /\
  check_str (earley_first false false cx_fuel ex_g) (isla_eval cx_cst cx_phi) (yield ex_eps_fuzzer) = Ok false /\
  check_tree (isla_eval cx_cst cx_phi) ex_t = Ok true /\
  check_str (earley_first false false cx_fuel ex_g) (isla_eval cx_cst cx_phi) (yield ex_t) = Ok true.
Proof.
  split; [exact cx_gram_ok|]. split; [exact cx_guards|]. split; [exact ex_acyclic|].
  split; [exact ex_unambiguous|]. split; [reflexivity|].
  split.
  { destruct good_ex as (G0 & G1 & G2).
    intros t [->| ->].
    - split; [apply cx_fuel_ok; simpl; lia|]. split; [exact G2|].
      split; [repeat constructor; simpl; intuition discriminate|].
      split; [vm_compute; reflexivity|]. apply cx_guard_on. right. left. reflexivity.
    - split; [apply cx_fuel_ok; simpl; lia|]. split; [exact G0|].
      split; [repeat constructor; simpl; intuition discriminate|].
      split; [vm_compute; reflexivity|]. apply cx_guard_on. left. reflexivity. }
  split; [vm_compute; reflexivity|].
  repeat split; vm_compute; reflexivity.
Qed.

(* the guard admits consecutive / nth / level / count with a nonterminal needle / match
   expressions whose prefix tree has the parser shape (a childless <a>) / numeric quantifiers *)
Definition gx_w : var := MkVar VBound [119]%N xA.
Definition gx_n : var := MkVar VBound [110]%N [78;85;77]%N.
Definition gx_me : mexpr := MkMexpr [gx_w] [(Node ASTART 0%N false [Node xA 0%N false []], [(gx_w, [0])])].
Definition gx_phi : formula atom :=
  FForall cx_v (InVar cx_cst) None
    (FExists rx_x (InVar cx_cst) (Some gx_me)
       (FOr [FSPred s_consecutive [PVar cx_v; PVar rx_x];
             FSPred s_nth [PStr [49]%N; PVar cx_v; PVar cx_cst];
             FSPred s_level [PStr [71;69]%N; PStr xA; PVar cx_v; PVar rx_x];
             FNot (FSPred s_before [PVar gx_w; PVar cx_v]);
             FExistsInt gx_n (FSemPred s_count [PVar cx_cst; PStr xA; PVar gx_n])])).

Example eqv_guard_rich :
  eqv_guard gx_phi = true /\
  (isla_sat cx_cst gx_phi ex_eps_parser <-> isla_sat cx_cst gx_phi ex_eps_fuzzer).
Proof.
  split; [reflexivity|]. destruct good_ex as (_ & G1 & G2).
  exact (isla_sat_respects_eqv ex_g cx_cst gx_phi eq_refl ex_eps_parser ex_eps_fuzzer G1 G2 eq_refl).
Qed.

(* ---- every conjunct of eqv_guard is necessary: two more refutation witnesses (besides
        ApiComposeEx.sat_respects_eqv_{mexpr,count_eps,ids}_refuted) ---- *)
(* a match expression that binds a variable at an INNER node of its prefix tree (never produced by
   ISLa: bound elements are leaves): case 2 of the spec's match() binds without looking at the
   children, but case 1 compares the NUMBER of children first (1 = 1 in the fuzzer shape, 0 <> 1 in
   the parser shape) *)
Definition rb_me : mexpr := MkMexpr [gx_w] [(Node xA 0%N false [Node xX 0%N false []], [(gx_w, [])])].
Definition rb_phi : formula atom := FExists rx_x (InVar cx_cst) (Some rb_me) (FSmt (ABool true)).
(* a quantifier over the pseudo-type "" *)
Definition rq_phi : formula atom :=
  FExists (MkVar VBound [120]%N []) (InVar cx_cst) None (FSmt (ABool true)).

Theorem sat_respects_eqv_more_refuted :
  eqv_guard rb_phi = false /\ eqv_guard rq_phi = false /\
  ~ isla_sat cx_cst rb_phi ex_eps_parser /\ isla_sat cx_cst rb_phi ex_eps_fuzzer /\
  ~ sat_respects_eqv ex_g (isla_sat cx_cst rb_phi) /\
  ~ isla_sat cx_cst rq_phi ex_eps_parser /\ isla_sat cx_cst rq_phi ex_eps_fuzzer /\
  ~ sat_respects_eqv ex_g (isla_sat cx_cst rq_phi).
Proof.
  destruct good_ex as (_ & G1 & G2).
  assert (N1 : ~ isla_sat cx_cst rb_phi ex_eps_parser).
  { intro H. apply (isla_sat_dec cx_cst rb_phi ex_eps_parser eq_refl eq_refl) in H. vm_compute in H. discriminate. }
  assert (S1 : isla_sat cx_cst rb_phi ex_eps_fuzzer).
  { apply (isla_sat_dec cx_cst rb_phi ex_eps_fuzzer eq_refl eq_refl). vm_compute. reflexivity. }
  assert (N2 : ~ isla_sat cx_cst rq_phi ex_eps_parser).
  { intro H. apply (isla_sat_dec cx_cst rq_phi ex_eps_parser eq_refl eq_refl) in H. vm_compute in H. discriminate. }
  assert (S2 : isla_sat cx_cst rq_phi ex_eps_fuzzer).
  { apply (isla_sat_dec cx_cst rq_phi ex_eps_fuzzer eq_refl eq_refl). vm_compute. reflexivity. }
  split; [reflexivity|]. split; [reflexivity|].
  split; [exact N1|]. split; [exact S1|].
  split; [intro H; apply N1; apply (H ex_eps_parser ex_eps_fuzzer G1 G2 eq_refl); exact S1|].
  split; [exact N2|]. split; [exact S2|].
  intro H. apply N2. apply (H ex_eps_parser ex_eps_fuzzer G1 G2 eq_refl). exact S2.
Qed.
