(* C19 — proof extension, part 2: the composed clauses
     solve_then_check : every input printed by `isla solve` makes `isla check` (same -g, -c,
                        grammar/constraint FILES) exit 0
     parse_then_check : the JSON tree emitted by `isla parse` is accepted by `isla check`
   under explicit hypotheses about the library behind the CLI (solver soundness, parser
   completeness on printed trees, JSON round trip, evaluator = Sat).
   Model: Solver/Cli.v; the key lemma (front depends only on the spec sources): CliMore.v. *)
From ISLA Require Import Cli CliFacts CliMore.
From Coq Require Import Lia.

(* the derived invocation:  isla check [-g G] [-c C]... <the .bnf/.py/.isla FILES of a> <inname>
   where the file <inname> holds what was printed: the line l followed by a newline *)
Definition check_of (a : args) (inname : str) (l : str) : args :=
  Args Check (a_grammar a) (a_constraints a) None
       (filter spec_file (a_files a) ++ [File inname (Text (l ++ [nl]))])
       (a_num a) (a_tree a) (a_pretty a) (a_wv a) DirNone OutNone.

Lemma strip_nl_line : forall l, strip_nl (l ++ [nl]) = l.
Proof. intro l. unfold strip_nl. rewrite rev_unit. simpl. apply rev_involutive. Qed.

Lemma filter_idem {A} (p : A -> bool) : forall l, filter p (filter p l) = filter p l.
Proof.
  induction l as [|x l IH]; [reflexivity|]. simpl. destruct (p x) eqn:E; simpl; [rewrite E, IH; reflexivity | exact IH].
Qed.

Lemma filter_neg {A} (p q : A -> bool) : (forall x, q x = negb (p x)) -> forall l, filter q (filter p l) = [].
Proof.
  intros H l. induction l as [|x l IH]; [reflexivity|]. simpl. destruct (p x) eqn:E; simpl; [|exact IH].
  rewrite (H x), E. simpl. exact IH.
Qed.

Lemma read_files_acc_text : forall fs acc d, read_files_acc fs acc = Cont d ->
  forall f, In f fs -> exists c, fstate f = Text c.
Proof.
  induction fs as [|f0 fs IH]; intros acc d H f HIn; [destruct HIn|].
  simpl in H. destruct (fstate f0) as [| |c] eqn:E; try discriminate.
  destruct HIn as [<-|HIn]; [eauto | eapply IH; eauto].
Qed.

Section CheckOf.
  Variables G F T : Type.
  Variable O : oracles G F T.
  Variable fx : fixes.

  Lemma check_of_same_spec : forall a n l, is_input_name n = true -> same_spec a (check_of a n l).
  Proof.
    intros a n l Hn. split; [split; reflexivity|]. simpl.
    rewrite filter_app, filter_idem.
    assert (E : filter spec_file [File n (Text (l ++ [nl]))] = []).
    { cbn [filter]. unfold spec_file, spec_name. cbn [fname]. rewrite Hn. reflexivity. }
    rewrite E, app_nil_r. reflexivity.
  Qed.

  Lemma check_of_readable : forall a n l d, read_files (a_files a) = Cont d -> readable (check_of a n l).
  Proof.
    intros a n l d Hr f HIn. simpl in HIn. apply in_app_or in HIn as [HIn|[<-|[]]].
    - apply filter_In in HIn as [HIn _]. exact (read_files_acc_text _ _ _ Hr f HIn).
    - simpl. eauto.
  Qed.

  Lemma check_of_inputs : forall a n l d, read_files (a_files a) = Cont d -> is_input_name n = true ->
    names_with is_input_name (dict_of (check_of a n l)) = [(n, l ++ [nl])].
  Proof.
    intros a n l d Hr Hn.
    destruct (readable_front (check_of a n l) (check_of_readable a n l d Hr)) as [_ Hr'].
    pose proof (read_files_filter is_input_name _ _ Hr') as X. simpl in X.
    rewrite filter_app in X.
    rewrite (filter_neg spec_file (fun f => is_input_name (fname f))) in X.
    2:{ intro x. unfold spec_file, spec_name. rewrite negb_involutive. reflexivity. }
    simpl in X. rewrite Hn in X. unfold read_files in X. simpl in X. inversion X as [E]. reflexivity.
  Qed.

  Lemma check_of_input_text : forall a n l d, read_files (a_files a) = Cont d -> is_input_name n = true ->
    input_text fx (check_of a n l) (dict_of (check_of a n l)) = Cont l.
  Proof.
    intros a n l d Hr Hn. unfold input_text. rewrite (check_of_inputs a n l d Hr Hn). simpl.
    destruct l as [|c l]; [reflexivity|]. change (c :: l ++ [nl]) with ((c :: l) ++ [nl]).
    rewrite strip_nl_line. reflexivity.
  Qed.

  (* KEY LEMMA: `front` gives the same grammar and constraint for the derived check invocation *)
  Lemma check_of_front : forall a n l d g f,
    front O a = Cont (d, g, f) -> constraint_present a d = true -> is_input_name n = true ->
    front O (check_of a n l) = Cont (dict_of (check_of a n l), g, f) /\
    input_text fx (check_of a n l) (dict_of (check_of a n l)) = Cont l.
  Proof.
    intros a n l d g f Hf Hc Hn.
    destruct (front_cont_inv _ _ _ O a d g f Hf) as (_ & Hr & _).
    split; [|exact (check_of_input_text a n l d Hr Hn)].
    pose proof (check_of_same_spec a n l Hn) as HS.
    pose proof (check_of_readable a n l d Hr) as R.
    destruct (readable_front _ R) as [_ Hr'].
    assert (Hd : spec_dict d = spec_dict (dict_of (check_of a n l))).
    { destruct HS as [_ HF]. exact (same_spec_dict a (check_of a n l) d _ HF Hr Hr'). }
    refine (proj1 (front_depends_only_on_spec _ _ _ O a (check_of a n l) d g f HS R _ Hf)).
    unfold cmd_checks. simpl.
    rewrite <- (constraint_present_dep a (check_of a n l) d _ (proj1 HS) Hd), Hc. reflexivity.
  Qed.

  (* the text l is read as the tree t: a JSON tree, or not JSON (or JSON rejected, with the repair) and parsed *)
  Definition reads_as (g : gram G) (f : F) (l : str) (t : T) : Prop :=
    json_in O g l = JTree t \/
    ((json_in O g l = JNotJson \/ (fx_json fx = true /\ exists e, json_in O g l = JRaise e)) /\
     parse_api O g f l = Some t).

  Lemma check_of_run : forall a n l d g f t,
    front O a = Cont (d, g, f) -> constraint_present a d = true -> is_input_name n = true ->
    reads_as g f l t -> check_api O g f t = ChkTrue ->
    run O fx (check_of a n l) = Outcome (Exit 0) [MsgSat] SeNone.
  Proof.
    intros a n l d g f t Hf Hc Hn Hr Hk.
    destruct (check_of_front a n l d g f Hf Hc Hn) as [Hf' Hi].
    unfold run. change (a_cmd (check_of a n l)) with Check. unfold run_check, do_check. rewrite Hf'. simpl.
    unfold get_input. rewrite Hi. simpl.
    destruct Hr as [Hj | [[Hj | [Hfx [e Hj]]] Hp]]; rewrite Hj; simpl.
    - rewrite Hk. reflexivity.
    - unfold parse_text. rewrite Hp. simpl. rewrite Hk. reflexivity.
    - rewrite Hfx. simpl. unfold parse_text. rewrite Hp. simpl. rewrite Hk. reflexivity.
  Qed.

  (* ---------------- what solve / parse print ---------------- *)

  Lemma solve_loop_in : forall a evs i acc it,
    In it (o_stdout (solve_loop O a evs i acc)) ->
    In it acc \/ exists t, In (SolTree t) evs /\ it = Line (render O a t).
  Proof.
    intros a evs. induction evs as [|ev evs IH]; intros i acc it H; simpl in H.
    - destruct ((0 <? a_num a)%Z && (a_num a <=? i)%Z); simpl in H; left; exact H.
    - destruct ((0 <? a_num a)%Z && (a_num a <=? i)%Z); simpl in H; [left; exact H|].
      destruct ev as [t| | |e0]; simpl in H; try (left; exact H).
      destruct (IH _ _ _ H) as [HIn | (t' & HIn & E)].
      + destruct (a_outdir a); try (left; exact HIn).
        apply in_app_or in HIn as [HIn|[<-|[]]]; [left; exact HIn|].
        right. exists t. split; [left; reflexivity | reflexivity].
      + right. exists t'. split; [right; exact HIn | exact E].
  Qed.

  Lemma stop_ok_stdout : forall o, stop_ok o -> o_stdout o = [].
  Proof. intros o [->|[->|[e ->]]]; reflexivity. Qed.

  Lemma run_solve_line : forall a l, a_cmd a = Solve -> In (Line l) (o_stdout (run O fx a)) ->
    exists d g f t, front O a = Cont (d, g, f) /\ In (SolTree t) (solve_api O g f) /\ l = render O a t.
  Proof.
    intros a l Hc H. unfold run in H. rewrite Hc in H. unfold run_solve in H.
    destruct (front O a) as [[[d g] f]|o] eqn:Ef; simpl in H.
    - destruct (a_wv a); simpl in H; [|destruct H|destruct H].
      destruct (solver_init O g f); simpl in H; [destruct H|].
      destruct (solve_loop_in _ _ _ _ _ H) as [[] | (t & HIn & E)].
      inversion E; subst. exists d, g, f, t. auto.
    - rewrite (stop_ok_stdout o (front_stop_ok _ _ _ O a o Ef)) in H. destruct H.
  Qed.

  Lemma run_parse_line : forall a l, a_cmd a = Parse -> In (Line l) (o_stdout (run O fx a)) ->
    exists d g f t, front O a = Cont (d, g, f) /\ get_input O fx a d g f = Cont (InTree t) /\
                    check_api O g f t = ChkTrue /\ l = to_json O (a_pretty a) t.
  Proof.
    intros a l Hc H. unfold run in H. rewrite Hc in H. unfold run_parse, do_check in H.
    destruct (front O a) as [[[d g] f]|o] eqn:Ef; simpl in H.
    - destruct (get_input O fx a d g f) as [[t|]|o] eqn:Ei; simpl in H.
      + destruct (check_api O g f t) eqn:Ek; simpl in H.
        * unfold write_result in H. destruct (a_outfile a); simpl in H; [|destruct H|destruct H].
          destruct H as [E|[]]. inversion E; subst. exists d, g, f, t. auto.
        * destruct H as [E|[]]; discriminate.
        * destruct H.
        * destruct H.
      + destruct H as [E|[]]; discriminate.
      + rewrite (stop_ok_stdout o (get_input_stop_ok _ _ _ O fx a d g f o Ei)) in H. destruct H.
    - rewrite (stop_ok_stdout o (front_stop_ok _ _ _ O a o Ef)) in H. destruct H.
  Qed.

  (* ---------------- hypotheses about the library ---------------- *)
  Variable InLang : gram G -> T -> Prop.          (* t is a derivation tree of the grammar g *)
  Variable Sat : gram G -> F -> T -> Prop.        (* t satisfies f (C03) *)
  Variable Eqv : gram G -> T -> T -> Prop.        (* "the same tree again" (e.g. equal up to node ids) *)

  (* the evaluator answers True exactly for Sat (C03) *)
  Hypothesis H_check : forall g f t, check_api O g f t = ChkTrue <-> Sat g f t.
  (* satisfaction does not distinguish a tree from the same tree read back *)
  Hypothesis H_eqv : forall g f t t', Eqv g t t' -> Sat g f t -> Sat g f t'.
  (* JSON round trip (C17) + the validity assertion passes for trees of the grammar *)
  Hypothesis H_json : forall g p t, InLang g t -> exists t', json_in O g (to_json O p t) = JTree t' /\ Eqv g t t'.

  Lemma json_line_accepted : forall g f p t, InLang g t -> Sat g f t ->
    exists t', reads_as g f (to_json O p t) t' /\ check_api O g f t' = ChkTrue.
  Proof.
    intros g f p t HL HS. destruct (H_json g p t HL) as (t' & Hj & He).
    exists t'. split; [left; exact Hj|]. apply H_check. exact (H_eqv g f t t' He HS).
  Qed.

  (* ---------------- parse_then_check ---------------- *)
  Section ParseThenCheck.
    (* what get_input returns is a tree of the grammar: the assertion tree_is_valid for JSON trees,
       soundness of the parser (C10) for text *)
    Hypothesis H_json_lang : forall g s t, json_in O g s = JTree t -> InLang g t.
    Hypothesis H_parse_lang : forall g f s t, parse_api O g f s = Some t -> InLang g t.

    Lemma get_input_lang : forall a d g f t, get_input O fx a d g f = Cont (InTree t) -> InLang g t.
    Proof.
      intros a d g f t H. unfold get_input in H.
      destruct (input_text fx a d) as [s|o]; simpl in H; [|discriminate].
      assert (P : parse_text O g f s = InTree t -> InLang g t).
      { unfold parse_text. destruct (parse_api O g f s) as [t0|] eqn:Ep; intro X; inversion X; subst.
        exact (H_parse_lang g f s t Ep). }
      destruct (json_in O g s) as [|e|t0] eqn:Ej.
      - inversion H as [X]. exact (P X).
      - destruct (fx_json fx); inversion H as [X]. exact (P X).
      - inversion H; subst. exact (H_json_lang g s t Ej).
    Qed.

    Theorem parse_then_check : forall a n l,
      a_cmd a = Parse -> In (Line l) (o_stdout (run O fx a)) -> is_input_name n = true ->
      run O fx (check_of a n l) = Outcome (Exit 0) [MsgSat] SeNone.
    Proof.
      intros a n l Hc HIn Hn.
      destruct (run_parse_line a l Hc HIn) as (d & g & f & t & Hf & Hi & Hk & ->).
      assert (CP : constraint_present a d = true).
      { destruct (front_cont_inv _ _ _ O a d g f Hf) as (_ & _ & Ht). unfold front_tail in Ht.
        destruct (negb (grammar_present a d)); [discriminate|]. rewrite Hc in Ht. simpl in Ht.
        destruct (constraint_present a d); [reflexivity | discriminate]. }
      destruct (json_line_accepted g f (a_pretty a) t (get_input_lang a d g f t Hi) (proj1 (H_check g f t) Hk))
        as (t' & Hr & Hk').
      exact (check_of_run a n _ d g f t' Hf CP Hn Hr Hk').
    Qed.
  End ParseThenCheck.

  (* ---------------- solve_then_check ---------------- *)
  Section SolveThenCheck.
    (* solver soundness (C01/C02): every tree solve() returns is a tree of the grammar and satisfies the constraint *)
    Hypothesis H_solve : forall g f t, In (SolTree t) (solve_api O g f) -> InLang g t /\ Sat g f t.
    (* parsing the printed tree gives the same tree again (C10 completeness; the parser is a function,
       for an ambiguous grammar this additionally asks that it picks an equivalent derivation) *)
    Hypothesis H_parse : forall g f t, InLang g t -> exists t', parse_api O g f (to_str O t) = Some t' /\ Eqv g t t'.

    (* side condition for plain (non -T) output: the printed word is not itself read as JSON
       (with the repair of get_input_string: is not itself a JSON derivation tree) *)
    Definition plain_text (g : gram G) (l : str) : Prop :=
      json_in O g l = JNotJson \/ (fx_json fx = true /\ exists e, json_in O g l = JRaise e).

    Theorem solve_then_check : forall a n l,
      a_cmd a = Solve -> In (Line l) (o_stdout (run O fx a)) ->
      constraint_present a (dict_of a) = true -> is_input_name n = true ->
      (a_tree a = false -> forall d g f, front O a = Cont (d, g, f) -> plain_text g l) ->
      run O fx (check_of a n l) = Outcome (Exit 0) [MsgSat] SeNone.
    Proof.
      intros a n l Hc HIn CP Hn Hplain.
      destruct (run_solve_line a l Hc HIn) as (d & g & f & t & Hf & Hs & ->).
      rewrite (front_dict_of _ _ _ O a d g f Hf) in CP.
      destruct (H_solve g f t Hs) as [HL HS].
      unfold render in *. destruct (a_tree a) eqn:Et.
      - destruct (json_line_accepted g f (a_pretty a) t HL HS) as (t' & Hr & Hk').
        exact (check_of_run a n _ d g f t' Hf CP Hn Hr Hk').
      - destruct (H_parse g f t HL) as (t' & Hp & He).
        refine (check_of_run a n _ d g f t' Hf CP Hn _ _).
        + right. split; [exact (Hplain eq_refl d g f Hf) | exact Hp].
        + apply H_check. exact (H_eqv g f t t' He HS).
    Qed.
  End SolveThenCheck.
End CheckOf.

(* ------------------------------------------------------------------ *)
(* the side condition "a constraint is present" is necessary:           *)
(* solve accepts an invocation without any constraint, check does not   *)
(* ------------------------------------------------------------------ *)
Section NeedsConstraint.
  Variables G F T : Type.
  Variable O : oracles G F T.
  Variable fx : fixes.

  Theorem solve_without_constraint_check_2 : forall a n l d g f,
    front O a = Cont (d, g, f) -> constraint_present a d = false -> is_input_name n = true ->
    run O fx (check_of a n l) = usage_error.
  Proof.
    intros a n l d g f Hf Hc Hn. apply front_stop.
    destruct (front_cont_inv _ _ _ O a d g f Hf) as (_ & Hr & Ht).
    pose proof (check_of_same_spec a n l Hn) as [HO HF].
    pose proof (check_of_readable a n l d Hr) as R.
    destruct (readable_front _ R) as [Ha' Hr'].
    assert (Hd : spec_dict d = spec_dict (dict_of (check_of a n l)))
      by exact (same_spec_dict a (check_of a n l) d _ HF Hr Hr').
    rewrite front_unfold, Ha', Hr'. simpl. unfold front_tail.
    rewrite <- (grammar_present_dep a (check_of a n l) d _ HO Hd).
    rewrite <- (constraint_present_dep a (check_of a n l) d _ HO Hd), Hc.
    unfold front_tail in Ht. destruct (negb (grammar_present a d)); [discriminate|]. reflexivity.
  Qed.
End NeedsConstraint.

(* ------------------------------------------------------------------ *)
(* a toy library satisfying all hypotheses (non-vacuity) and concrete   *)
(* chains solve -> check, parse -> check                                *)
(* ------------------------------------------------------------------ *)
(* language {"a", "1"}; str(t) = t; to_json(t) = "{" ++ t; the text "1" is JSON but not a tree *)
Definition w_a : str := [97]%N.
Definition w_1 : str := [49]%N.
Definition in_lang1 (t : str) : bool := str_eqb t w_a || str_eqb t w_1.

Definition O1 : oracles unit bool str :=
  Oracles unit bool str (bnf O0) (pyext O0) (isla O0) true andb
    (fun _ s => match s with
                | c :: t => if N.eqb c 123 then (if in_lang1 t then JTree t else JRaise AssertErr)
                            else if str_eqb s w_1 then JRaise TypeErr else JNotJson
                | [] => JNotJson
                end)
    (fun _ _ s => if in_lang1 s then Some s else None)
    (fun _ f _ => if f then ChkTrue else ChkFalse)
    (fun _ _ => None)
    (fun _ f => if f then [SolTree w_a; SolTree w_1] else [SolStop])
    (fun _ _ t => RepOk t) (fun _ _ t => Ok t)
    (fun t => t) (fun _ t => 123%N :: t).

Definition InLang1 (_ : gram unit) (t : str) : Prop := in_lang1 t = true.
Definition Eqv1 (_ : gram unit) (t t' : str) : Prop := t = t'.

Example toy_compose_laws :
  (forall g f t, check_api O1 g f t = ChkTrue <-> Sat0 g f t) /\
  (forall g f t t', Eqv1 g t t' -> Sat0 g f t -> Sat0 g f t') /\
  (forall g p t, InLang1 g t -> exists t', json_in O1 g (to_json O1 p t) = JTree t' /\ Eqv1 g t t') /\
  (forall g s t, json_in O1 g s = JTree t -> InLang1 g t) /\
  (forall g f s t, parse_api O1 g f s = Some t -> InLang1 g t) /\
  (forall g f t, In (SolTree t) (solve_api O1 g f) -> InLang1 g t /\ Sat0 g f t) /\
  (forall g f t, InLang1 g t -> exists t', parse_api O1 g f (to_str O1 t) = Some t' /\ Eqv1 g t t').
Proof.
  unfold Sat0, InLang1, Eqv1.
  split; [|split; [|split; [|split; [|split; [|split]]]]].
  - intros g f t. simpl. destruct f; split; intro H; try reflexivity; discriminate.
  - intros g f t t' _ H. exact H.
  - intros g p t H. exists t. simpl. rewrite H. split; reflexivity.
  - intros g s t H. simpl in H. destruct s as [|c s]; [discriminate|].
    destruct (N.eqb c 123).
    + destruct (in_lang1 s) eqn:E; inversion H; subst. exact E.
    + destruct (str_eqb (c :: s) w_1); discriminate.
  - intros g f s t H. simpl in H. destruct (in_lang1 s) eqn:E; inversion H; subst. exact E.
  - intros g f t H. simpl in H. destruct f; simpl in H.
    + destruct H as [E|[E|[]]]; inversion E; split; reflexivity.
    + destruct H as [E|[]]. discriminate.
  - intros g f t H. exists t. simpl. rewrite H. split; reflexivity.
Qed.

Definition in_name : str := [105; 110]%N.   (* "in" *)
Definition solve2 : args := Args Solve None [] None [f_g; f_c] 2%Z false false WvOk DirNone OutNone.
Definition solve2T : args := Args Solve None [] None [f_g; f_c] 2%Z true false WvOk DirNone OutNone.
Definition parse1 : args := mk Parse [f_in [97; 10]%N; f_g; f_c].

Example compose_example :
  (* solve prints "a" and "1"; check accepts "a" (and "1" once get_input_string is repaired) *)
  o_stdout (run O1 repaired solve2) = [Line w_a; Line w_1] /\
  run O1 repaired (check_of solve2 in_name w_a) = Outcome (Exit 0) [MsgSat] SeNone /\
  run O1 repaired (check_of solve2 in_name w_1) = Outcome (Exit 0) [MsgSat] SeNone /\
  (* solve -T prints JSON trees; check reads them back *)
  o_stdout (run O1 repaired solve2T) = [Line (123%N :: w_a); Line (123%N :: w_1)] /\
  run O1 repaired (check_of solve2T in_name (123%N :: w_a)) = Outcome (Exit 0) [MsgSat] SeNone /\
  (* parse prints the JSON tree; check accepts it *)
  run O1 repaired parse1 = Outcome (Exit 0) [Line (123%N :: w_a)] SeNone /\
  run O1 repaired (check_of parse1 in_name (123%N :: w_a)) = Outcome (Exit 0) [MsgSat] SeNone /\
  is_input_name in_name = true /\ constraint_present solve2 (dict_of solve2) = true.
Proof. repeat split; vm_compute; reflexivity. Qed.

(* FULL STATEMENT of solve_then_check WITHOUT the side condition plain_text: false on the tree
   without the repair of get_input_string (a printed solution that is itself JSON, e.g. `1`,
   crashes check) — all library hypotheses hold for O1 (toy_compose_laws) *)
Theorem solve_then_check_refuted_json :
  In (Line w_1) (o_stdout (run O1 pinned solve2)) /\
  run O1 pinned (check_of solve2 in_name w_1) = traceback TypeErr /\
  K_json_nontree _ _ _ O1 pinned (check_of solve2 in_name w_1) = true.
Proof. repeat split; vm_compute; auto. Qed.

(* ... and WITH the repair the residual side condition (the printed word is not itself the JSON
   encoding of a derivation tree) is still necessary: language {"x", "["}, the word "[" is at the same
   time the JSON encoding of the tree for "x"; the constraint "t" means `not <start> = "x"`.
   solve prints "[" (which satisfies the constraint), check reads it as the tree "x" and answers 1.
   Reproduced on /repo (design_notes/C19.md, "Proof extension"). *)
Definition w_x : str := [120]%N.
Definition w_br : str := [91]%N.
Definition in_lang2 (t : str) : bool := str_eqb t w_x || str_eqb t w_br.

Definition O2 : oracles unit bool str :=
  Oracles unit bool str (bnf O0) (pyext O0) (isla O0) false orb
    (fun _ s => match s with
                | c :: t => if N.eqb c 123 then (if in_lang2 t then JTree t else JRaise AssertErr)
                            else if str_eqb s w_br then JTree w_x else JNotJson
                | [] => JNotJson
                end)
    (fun _ _ s => if in_lang2 s then Some s else None)
    (fun _ f t => if f && str_eqb t w_x then ChkFalse else ChkTrue)
    (fun _ _ => None)
    (fun _ f => if f then [SolTree w_br] else [SolTree w_x])
    (fun _ _ t => RepOk t) (fun _ _ t => Ok t)
    (fun t => t) (fun _ t => 123%N :: t).

Definition InLang2 (_ : gram unit) (t : str) : Prop := in_lang2 t = true.
Definition Sat2 (_ : gram unit) (f : bool) (t : str) : Prop := f && str_eqb t w_x = false.

Theorem solve_then_check_refuted_jsontree :
  ((forall g f t, check_api O2 g f t = ChkTrue <-> Sat2 g f t) /\
   (forall g f t t', Eqv1 g t t' -> Sat2 g f t -> Sat2 g f t') /\
   (forall g p t, InLang2 g t -> exists t', json_in O2 g (to_json O2 p t) = JTree t' /\ Eqv1 g t t') /\
   (forall g f t, In (SolTree t) (solve_api O2 g f) -> InLang2 g t /\ Sat2 g f t) /\
   (forall g f t, InLang2 g t -> exists t', parse_api O2 g f (to_str O2 t) = Some t' /\ Eqv1 g t t')) /\
  o_stdout (run O2 repaired (mk Solve [f_g; f_c])) = [Line w_br] /\
  run O2 repaired (check_of (mk Solve [f_g; f_c]) in_name w_br) = Outcome (Exit 1) [MsgNotSat] SeNone.
Proof.
  split; [|split; vm_compute; reflexivity].
  unfold Sat2, InLang2, Eqv1.
  split; [|split; [|split; [|split]]].
  - intros g f t. simpl. destruct (f && str_eqb t w_x); split; intro H; try reflexivity; discriminate.
  - intros g f t t' <- H. exact H.
  - intros g p t H. exists t. simpl. rewrite H. split; reflexivity.
  - intros g f t H. simpl in H. destruct f; simpl in H; destruct H as [E|[]]; inversion E; split; reflexivity.
  - intros g f t H. exists t. simpl. rewrite H. split; reflexivity.
Qed.
