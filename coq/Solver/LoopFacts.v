(* C02 — specification and proofs for the control skeleton of ISLaSolver.solve() (Solver/Loop.v).

   SPECIFICATION (independent of the model: predicates over the list of observed outcomes of a
   call history):
     sticky e outs   — once the i-th call raised e, every later call raised e
     allowed o       — a tree, StopIteration, TimeoutError (or the call did not return: fuel)
     monotone clk    — the clock never goes back

   THEOREMS (for every queue discipline `pop`, every `process`, every start state, every call
   history, every fuel):
     stop_after_exhausted   no premise on process: once queue and pending solutions are empty,
                            every later call raises StopIteration and changes nothing
     stop_sticky            process never raises StopIteration itself  ->  sticky StopIter
     timeout_sticky         monotone clock, process never raises TimeoutError itself -> sticky TimeoutErr
     no_crash               process never raises  ->  every outcome allowed; TimeoutError only
                            when a timeout is configured
     tree_provenance        every returned tree was pending or was produced by `process`
   and the refutations of the unguarded statements (process raising StopIteration / TimeoutError
   from inside: the latter is what the nested solve() of the unsat check does in /repo). *)
From Coq Require Import List ZArith NArith Bool Lia.
From ISLA Require Import Outcome Loop.
Import ListNotations.

(* ---------------------------------------------------------------- specification *)
Definition sticky {Tr} (e : exn) (outs : list (outcome Tr)) : Prop :=
  forall i j, i <= j -> j < length outs ->
    nth_error outs i = Some (ORaise e) -> nth_error outs j = Some (ORaise e).

Definition allowed {Tr} (o : outcome Tr) : Prop :=
  (exists t, o = OTree t) \/ o = ORaise StopIter \/ o = ORaise TimeoutErr \/ o = OFuel.

Definition monotone (clk : nat -> Z) : Prop := forall i j, i <= j -> (clk i <= clk j)%Z.

(* ---------------------------------------------------------------- generic list facts *)
Lemma sticky_nil : forall Tr e, @sticky Tr e [].
Proof. intros Tr e i j Hij Hj. cbn in Hj. lia. Qed.

Lemma sticky_cons : forall Tr e (o : outcome Tr) rest,
  (o = ORaise e -> Forall (fun x => x = ORaise e) rest) ->
  sticky e rest -> sticky e (o :: rest).
Proof.
  intros Tr e o rest Hhead Hrest i j Hij Hj Hi.
  destruct i as [|i'].
  - cbn in Hi. injection Hi as Ho.
    destruct j as [|j']; [cbn; now rewrite Ho|].
    cbn. cbn in Hj.
    specialize (Hhead Ho).
    destruct (nth_error rest j') as [x|] eqn:Hn.
    + apply nth_error_In in Hn. rewrite Forall_forall in Hhead. now rewrite (Hhead x Hn).
    + apply nth_error_None in Hn. lia.
  - destruct j as [|j']; [lia|].
    cbn in *. apply (Hrest i' j'); [lia|lia|exact Hi].
Qed.

Section Facts.
  Variables St Tr Qu : Type.
  Variable pop : Qu -> option (St * Qu).
  Variable process : St -> Qu -> Qu * res (list Tr).
  Variable clk : nat -> Z.

  Notation solver := (solver Tr Qu).
  Notation loop := (loop St Tr Qu pop process clk).
  Notation solve := (solve St Tr Qu pop process clk).
  Notation run := (run St Tr Qu pop process clk).
  Notation outcomes := (outcomes St Tr Qu pop process clk).
  Notation begin := (begin Tr Qu clk).
  Notation finish := (finish Tr Qu).
  Notation timeout_test := (timeout_test Tr Qu clk).

  (* ------------------------------------------------------------ StopIteration *)
  Definition exhausted (st : solver) : Prop := pop (queue st) = None /\ sols st = [].

  Lemma begin_queue : forall st, queue (begin st) = queue st.
  Proof. intros st. unfold begin. destruct (timeout st); [destruct (start st)|]; reflexivity. Qed.

  Lemma begin_sols : forall st, sols (begin st) = sols st.
  Proof. intros st. unfold begin. destruct (timeout st); [destruct (start st)|]; reflexivity. Qed.

  Lemma begin_timeout : forall st, timeout (begin st) = timeout st.
  Proof.
    intros st. unfold Loop.begin.
    destruct (timeout st) eqn:Ht; [destruct (start st) eqn:Hs|]; cbn; now rewrite ?Ht.
  Qed.

  Lemma loop_exhausted : forall f st, exhausted st -> loop f st = (ORaise StopIter, st).
  Proof.
    intros f st [Hq Hs]. destruct f; cbn; rewrite Hq; unfold Loop.finish; now rewrite Hs.
  Qed.

  Lemma solve_exhausted : forall f st,
    exhausted st -> fst (solve f st) = ORaise StopIter /\ exhausted (snd (solve f st)).
  Proof.
    intros f st [Hq Hs]. unfold Loop.solve.
    assert (He : exhausted (begin st)).
    { split; [now rewrite begin_queue | now rewrite begin_sols]. }
    rewrite (loop_exhausted f _ He). cbn. split; [reflexivity | exact He].
  Qed.

  (* a call on an exhausted solver changes nothing but (possibly) start_time *)
  Lemma solve_exhausted_state : forall f st,
    exhausted st -> snd (solve f st) = begin st.
  Proof.
    intros f st [Hq Hs]. unfold Loop.solve.
    assert (He : exhausted (begin st)).
    { split; [now rewrite begin_queue | now rewrite begin_sols]. }
    now rewrite (loop_exhausted f _ He).
  Qed.

  Lemma run_exhausted : forall fuels st,
    exhausted st -> Forall (fun x => x = ORaise StopIter) (outcomes st fuels).
  Proof.
    induction fuels as [|f fs IH]; intros st He; cbn.
    - constructor.
    - destruct (solve_exhausted f st He) as [Ho He'].
      constructor; [exact Ho|]. apply IH. exact He'.
  Qed.

  (* the skeleton raises StopIteration only when queue and pending solutions are empty;
     any other StopIteration comes out of `process` *)
  Lemma loop_stop_exhausted : forall f st st',
    (forall s q, snd (process s q) <> Raise StopIter) ->
    loop f st = (ORaise StopIter, st') -> exhausted st'.
  Proof.
    induction f as [|f IH]; intros st st' Hp H; cbn in H.
    - destruct (pop (queue st)) as [[s q']|] eqn:Hpop.
      + unfold Loop.timeout_test in H. cbn in H.
        destruct (timeout st) as [tmo|]; [destruct (start st) as [s0|]|]; cbn in H.
        * destruct (tmo <? clk (tick st) - s0)%Z; [discriminate|].
          cbn in H. destruct (sols st); discriminate.
        * discriminate.
        * destruct (sols st); discriminate.
      + unfold Loop.finish in H. destruct (sols st) eqn:Hs; [|discriminate].
        injection H as <-. now split.
    - destruct (pop (queue st)) as [[s q']|] eqn:Hpop.
      + unfold Loop.timeout_test in H. cbn in H.
        destruct (timeout st) as [tmo|]; [destruct (start st) as [s0|]|]; cbn in H.
        * destruct (tmo <? clk (tick st) - s0)%Z; [discriminate|].
          cbn in H. destruct (sols st) eqn:Hs; [|discriminate].
          destruct (process s q') as [q'' [new|e]] eqn:Hpr.
          -- apply IH in H; assumption.
          -- injection H as He _. specialize (Hp s q'). rewrite Hpr in Hp. cbn in Hp. now subst e.
        * discriminate.
        * destruct (sols st) eqn:Hs; [|discriminate].
          destruct (process s q') as [q'' [new|e]] eqn:Hpr.
          -- apply IH in H; assumption.
          -- injection H as He _. specialize (Hp s q'). rewrite Hpr in Hp. cbn in Hp. now subst e.
      + unfold Loop.finish in H. destruct (sols st) eqn:Hs; [|discriminate].
        injection H as <-. now split.
  Qed.

  Lemma solve_stop_exhausted : forall f st,
    (forall s q, snd (process s q) <> Raise StopIter) ->
    fst (solve f st) = ORaise StopIter -> exhausted (snd (solve f st)).
  Proof.
    intros f st Hp H. unfold Loop.solve in *.
    destruct (loop f (begin st)) as [o st'] eqn:Hl. cbn in *. subst o.
    eapply loop_stop_exhausted; eassumption.
  Qed.

  Theorem stop_after_exhausted : forall st fuels,
    pop (queue st) = None -> sols st = [] ->
    Forall (fun x => x = ORaise StopIter) (outcomes st fuels).
  Proof. intros st fuels Hq Hs. apply run_exhausted. now split. Qed.

  Theorem stop_sticky : forall st fuels,
    (forall s q, snd (process s q) <> Raise StopIter) ->
    sticky StopIter (outcomes st fuels).
  Proof.
    intros st fuels Hp. revert st.
    induction fuels as [|f fs IH]; intros st; cbn.
    - apply sticky_nil.
    - apply sticky_cons.
      + intros Ho. apply run_exhausted. apply solve_stop_exhausted; assumption.
      + apply IH.
  Qed.

  (* ------------------------------------------------------------ TimeoutError *)
  (* the deadline has been seen to be exceeded at some earlier reading, and there is work left *)
  Definition expired (st : solver) : Prop :=
    exists s0 tmo k, start st = Some s0 /\ timeout st = Some tmo /\ pop (queue st) <> None /\
                     k < tick st /\ (tmo < clk k - s0)%Z.

  Lemma begin_started : forall st s0, start st = Some s0 -> begin st = st.
  Proof. intros st s0 H. unfold Loop.begin. rewrite H. now destruct (timeout st). Qed.

  Lemma loop_expired : forall f st,
    monotone clk -> expired st ->
    fst (loop f st) = ORaise TimeoutErr /\ expired (snd (loop f st)).
  Proof.
    intros f st Hm (s0 & tmo & k & Hs & Ht & Hq & Hk & Hd).
    assert (Hnow : (tmo <? clk (tick st) - s0)%Z = true).
    { apply Z.ltb_lt. assert (Hle : k <= tick st) by (apply Nat.lt_le_incl; exact Hk). pose proof (Hm _ _ Hle) as Hclk. lia. }
    destruct (pop (queue st)) as [[s q']|] eqn:Hpop; [|congruence].
    assert (E : loop f st = (ORaise TimeoutErr, read_tick Tr Qu (bump Tr Qu st))).
    { destruct f; cbn; rewrite Hpop; unfold Loop.timeout_test; cbn; rewrite Ht, Hs, Hnow; reflexivity. }
    rewrite E. cbn. split; [reflexivity|].
    exists s0, tmo, k. cbn. repeat split; try assumption; [rewrite Hpop; discriminate | lia].
  Qed.

  Lemma solve_expired : forall f st,
    monotone clk -> expired st ->
    fst (solve f st) = ORaise TimeoutErr /\ expired (snd (solve f st)).
  Proof.
    intros f st Hm He. unfold Loop.solve.
    destruct He as (s0 & tmo & k & Hs & Hrest).
    rewrite (begin_started st s0 Hs). apply loop_expired; [exact Hm|].
    exists s0, tmo, k. tauto.
  Qed.

  Lemma run_expired : forall fuels st,
    monotone clk -> expired st -> Forall (fun x => x = ORaise TimeoutErr) (outcomes st fuels).
  Proof.
    induction fuels as [|f fs IH]; intros st Hm He; cbn.
    - constructor.
    - destruct (solve_expired f st Hm He) as [Ho He'].
      constructor; [exact Ho|]. apply IH; assumption.
  Qed.

  (* the skeleton raises TimeoutError only after it has read a time beyond the deadline *)
  Lemma loop_timeout_expired : forall f st st',
    (forall s q, snd (process s q) <> Raise TimeoutErr) ->
    loop f st = (ORaise TimeoutErr, st') -> expired st'.
  Proof.
    induction f as [|f IH]; intros st st' Hp H; cbn in H.
    - destruct (pop (queue st)) as [[s q']|] eqn:Hpop.
      + unfold Loop.timeout_test in H. cbn in H.
        destruct (timeout st) as [tmo|] eqn:Ht; [destruct (start st) as [s0|] eqn:Hs|]; cbn in H.
        * destruct (tmo <? clk (tick st) - s0)%Z eqn:Hnow.
          -- injection H as <-. exists s0, tmo, (tick st). cbn.
             repeat split; try assumption; [congruence | lia | now apply Z.ltb_lt].
          -- cbn in H. destruct (sols st); discriminate.
        * discriminate.
        * destruct (sols st); discriminate.
      + unfold Loop.finish in H. destruct (sols st); discriminate.
    - destruct (pop (queue st)) as [[s q']|] eqn:Hpop.
      + unfold Loop.timeout_test in H. cbn in H.
        destruct (timeout st) as [tmo|] eqn:Ht; [destruct (start st) as [s0|] eqn:Hs|]; cbn in H.
        * destruct (tmo <? clk (tick st) - s0)%Z eqn:Hnow.
          -- injection H as <-. exists s0, tmo, (tick st). cbn.
             repeat split; try assumption; [congruence | lia | now apply Z.ltb_lt].
          -- cbn in H. destruct (sols st) eqn:Hso; [|discriminate].
             destruct (process s q') as [q'' [new|e]] eqn:Hpr.
             ++ apply IH in H; assumption.
             ++ injection H as He _. specialize (Hp s q'). rewrite Hpr in Hp. cbn in Hp. now subst e.
        * discriminate.
        * destruct (sols st) eqn:Hso; [|discriminate].
          destruct (process s q') as [q'' [new|e]] eqn:Hpr.
          -- apply IH in H; assumption.
          -- injection H as He _. specialize (Hp s q'). rewrite Hpr in Hp. cbn in Hp. now subst e.
      + unfold Loop.finish in H. destruct (sols st); discriminate.
  Qed.

  Lemma solve_timeout_expired : forall f st,
    (forall s q, snd (process s q) <> Raise TimeoutErr) ->
    fst (solve f st) = ORaise TimeoutErr -> expired (snd (solve f st)).
  Proof.
    intros f st Hp H. unfold Loop.solve in *.
    destruct (loop f (begin st)) as [o st'] eqn:Hl. cbn in *. subst o.
    eapply loop_timeout_expired; eassumption.
  Qed.

  Theorem timeout_sticky : forall st fuels,
    monotone clk ->
    (forall s q, snd (process s q) <> Raise TimeoutErr) ->
    sticky TimeoutErr (outcomes st fuels).
  Proof.
    intros st fuels Hm Hp. revert st.
    induction fuels as [|f fs IH]; intros st; cbn.
    - apply sticky_nil.
    - apply sticky_cons.
      + intros Ho. apply run_expired; [exact Hm|]. apply solve_timeout_expired; assumption.
      + apply IH.
  Qed.

  (* ------------------------------------------------------------ no other exception *)
  Definition no_raise : Prop := forall s q, exists new, snd (process s q) = Ok new.

  Lemma loop_allowed : forall f st,
    no_raise -> (timeout st <> None -> start st <> None) ->
    allowed (fst (loop f st)) /\
    (fst (loop f st) = ORaise TimeoutErr -> timeout st <> None).
  Proof.
    induction f as [|f IH]; intros st Hp Hwf; cbn.
    - destruct (pop (queue st)) as [[s q']|] eqn:Hpop.
      + unfold Loop.timeout_test. cbn.
        destruct (timeout st) as [tmo|] eqn:Ht; [destruct (start st) as [s0|] eqn:Hs|]; cbn.
        * destruct (tmo <? clk (tick st) - s0)%Z; cbn.
          -- split; [right; right; left; reflexivity | intros _; discriminate].
          -- destruct (sols st); cbn; (split; [|discriminate]).
             ++ right; right; right; reflexivity.
             ++ left; eexists; reflexivity.
        * exfalso. now apply Hwf.
        * destruct (sols st); cbn; (split; [|discriminate]).
          -- right; right; right; reflexivity.
          -- left; eexists; reflexivity.
      + unfold Loop.finish. destruct (sols st); cbn; (split; [|discriminate]).
        * right; left; reflexivity.
        * left; eexists; reflexivity.
    - destruct (pop (queue st)) as [[s q']|] eqn:Hpop.
      + unfold Loop.timeout_test. cbn.
        destruct (Hp s q') as [new Hnew].
        destruct (process s q') as [q'' r] eqn:Hpr. cbn in Hnew. subst r.
        destruct (timeout st) as [tmo|] eqn:Ht; [destruct (start st) as [s0|] eqn:Hs|]; cbn.
        * destruct (tmo <? clk (tick st) - s0)%Z; cbn.
          -- split; [right; right; left; reflexivity | intros _; discriminate].
          -- destruct (sols st) eqn:Hso; cbn.
             ++ match goal with |- context [loop f ?x] => destruct (IH x Hp) as [Ha Hb] end.
                { cbn. rewrite Ht, Hs. intros _; discriminate. }
                split; [exact Ha | intros _; discriminate].
             ++ split; [left; eexists; reflexivity | discriminate].
        * exfalso. now apply Hwf.
        * destruct (sols st) eqn:Hso; cbn.
          -- match goal with |- context [loop f ?x] => destruct (IH x Hp) as [Ha Hb] end.
             { cbn. rewrite Ht. intros Hc; now elim Hc. }
             split; [exact Ha|]. intros Hc. apply Hb in Hc. cbn in Hc. now rewrite Ht in Hc.
          -- split; [left; eexists; reflexivity | discriminate].
      + unfold Loop.finish. destruct (sols st); cbn; (split; [|discriminate]).
        * right; left; reflexivity.
        * left; eexists; reflexivity.
  Qed.

  Lemma begin_wf : forall st, timeout (begin st) <> None -> start (begin st) <> None.
  Proof.
    intros st. unfold Loop.begin.
    destruct (timeout st) eqn:Ht; [destruct (start st) eqn:Hs|]; cbn; try rewrite Ht; try rewrite Hs; congruence.
  Qed.

  Lemma solve_allowed : forall f st,
    no_raise ->
    allowed (fst (solve f st)) /\ (fst (solve f st) = ORaise TimeoutErr -> timeout st <> None).
  Proof.
    intros f st Hp. unfold Loop.solve.
    destruct (loop_allowed f (begin st) Hp (begin_wf st)) as [Ha Hb].
    split; [exact Ha|]. intros Hc. apply Hb in Hc. now rewrite begin_timeout in Hc.
  Qed.

  (* the configured timeout never changes *)
  Lemma loop_timeout_const : forall f st, timeout (snd (loop f st)) = timeout st.
  Proof.
    induction f as [|f IH]; intros st; cbn.
    - destruct (pop (queue st)) as [[s q']|].
      + unfold Loop.timeout_test. cbn.
        destruct (timeout st) as [tmo|] eqn:Ht; [destruct (start st) as [s0|]|]; cbn; try assumption.
        * destruct (tmo <? clk (tick st) - s0)%Z; cbn; [assumption|]. destruct (sols st); cbn; assumption.
        * destruct (sols st); cbn; assumption.
      + unfold Loop.finish. destruct (sols st); reflexivity.
    - destruct (pop (queue st)) as [[s q']|].
      + unfold Loop.timeout_test. cbn.
        destruct (timeout st) as [tmo|] eqn:Ht; [destruct (start st) as [s0|]|]; cbn; try assumption.
        * destruct (tmo <? clk (tick st) - s0)%Z; cbn; [assumption|].
          destruct (sols st); cbn; [|assumption].
          destruct (process s q') as [q'' [new|e]]; cbn; [|assumption]. rewrite IH. cbn. assumption.
        * destruct (sols st); cbn; [|assumption].
          destruct (process s q') as [q'' [new|e]]; cbn; [|assumption]. rewrite IH. cbn. assumption.
      + unfold Loop.finish. destruct (sols st); reflexivity.
  Qed.

  Lemma solve_timeout_const : forall f st, timeout (snd (solve f st)) = timeout st.
  Proof. intros f st. unfold Loop.solve. rewrite loop_timeout_const. apply begin_timeout. Qed.

  Theorem no_crash : forall st fuels,
    no_raise ->
    Forall (fun o => allowed o /\ (o = ORaise TimeoutErr -> timeout st <> None)) (outcomes st fuels).
  Proof.
    intros st fuels Hp. revert st.
    induction fuels as [|f fs IH]; intros st; cbn.
    - constructor.
    - constructor.
      + apply solve_allowed. exact Hp.
      + specialize (IH (snd (solve f st))). rewrite solve_timeout_const in IH. exact IH.
  Qed.

  (* ------------------------------------------------------------ provenance of returned trees *)
  (* t was produced by some call of process *)
  Definition produced (t : Tr) : Prop := exists s q new, snd (process s q) = Ok new /\ In t new.

  Lemma loop_provenance : forall f st t,
    fst (loop f st) = OTree t -> In t (sols st) \/ produced t.
  Proof.
    induction f as [|f IH]; intros st t H; cbn in H.
    - destruct (pop (queue st)) as [[s q']|].
      + unfold Loop.timeout_test in H. cbn in H.
        destruct (timeout st) as [tmo|]; [destruct (start st) as [s0|]|]; cbn in H; try discriminate.
        * destruct (tmo <? clk (tick st) - s0)%Z; cbn in H; [discriminate|].
          destruct (sols st) as [|t0 ts]; cbn in H; [discriminate|]. injection H as ->. left; now left.
        * destruct (sols st) as [|t0 ts]; cbn in H; [discriminate|]. injection H as ->. left; now left.
      + unfold Loop.finish in H. destruct (sols st) as [|t0 ts]; cbn in H; [discriminate|].
        injection H as ->. left; now left.
    - destruct (pop (queue st)) as [[s q']|].
      + unfold Loop.timeout_test in H. cbn in H.
        destruct (timeout st) as [tmo|]; [destruct (start st) as [s0|]|]; cbn in H; try discriminate.
        * destruct (tmo <? clk (tick st) - s0)%Z; cbn in H; [discriminate|].
          destruct (sols st) as [|t0 ts] eqn:Hso; cbn in H.
          -- destruct (process s q') as [q'' [new|e]] eqn:Hpr; cbn in H; [|discriminate].
             apply IH in H. cbn in H. destruct H as [H|H]; [|now right].
             right. exists s, q', new. rewrite Hpr. now split.
          -- injection H as ->. left; now left.
        * destruct (sols st) as [|t0 ts] eqn:Hso; cbn in H.
          -- destruct (process s q') as [q'' [new|e]] eqn:Hpr; cbn in H; [|discriminate].
             apply IH in H. cbn in H. destruct H as [H|H]; [|now right].
             right. exists s, q', new. rewrite Hpr. now split.
          -- injection H as ->. left; now left.
      + unfold Loop.finish in H. destruct (sols st) as [|t0 ts]; cbn in H; [discriminate|].
        injection H as ->. left; now left.
  Qed.

  (* pending solutions of the state after a call were pending before or were produced *)
  Lemma loop_sols_provenance : forall f st t,
    In t (sols (snd (loop f st))) -> In t (sols st) \/ produced t.
  Proof.
    induction f as [|f IH]; intros st t H; cbn in H.
    - destruct (pop (queue st)) as [[s q']|].
      + unfold Loop.timeout_test in H. cbn in H.
        destruct (timeout st) as [tmo|]; [destruct (start st) as [s0|]|]; cbn in H; try (now left).
        * destruct (tmo <? clk (tick st) - s0)%Z; cbn in H; [now left|].
          destruct (sols st) as [|t0 ts] eqn:Hso; cbn in H; rewrite ?Hso in H; cbn in H;
            [contradiction | left; now right].
        * destruct (sols st) as [|t0 ts] eqn:Hso; cbn in H; rewrite ?Hso in H; cbn in H;
            [contradiction | left; now right].
      + unfold Loop.finish in H.
        destruct (sols st) as [|t0 ts] eqn:Hso; cbn in H; rewrite ?Hso in H; cbn in H;
          [contradiction | left; now right].
    - destruct (pop (queue st)) as [[s q']|].
      + unfold Loop.timeout_test in H. cbn in H.
        destruct (timeout st) as [tmo|]; [destruct (start st) as [s0|]|]; cbn in H; try (now left).
        * destruct (tmo <? clk (tick st) - s0)%Z; cbn in H; [now left|].
          destruct (sols st) as [|t0 ts] eqn:Hso; cbn in H; [|left; now right].
          destruct (process s q') as [q'' [new|e]] eqn:Hpr; cbn in H.
          -- apply IH in H. cbn in H. destruct H as [H|H]; [|now right].
             right. exists s, q', new. rewrite Hpr. now split.
          -- rewrite ?Hso in H. contradiction.
        * destruct (sols st) as [|t0 ts] eqn:Hso; cbn in H; [|left; now right].
          destruct (process s q') as [q'' [new|e]] eqn:Hpr; cbn in H.
          -- apply IH in H. cbn in H. destruct H as [H|H]; [|now right].
             right. exists s, q', new. rewrite Hpr. now split.
          -- rewrite ?Hso in H. contradiction.
      + unfold Loop.finish in H.
        destruct (sols st) as [|t0 ts] eqn:Hso; cbn in H; rewrite ?Hso in H; cbn in H;
          [contradiction | left; now right].
  Qed.

  Theorem tree_provenance : forall fuels st t,
    In (OTree t) (outcomes st fuels) -> In t (sols st) \/ produced t.
  Proof.
    induction fuels as [|f fs IH]; intros st t H; cbn in H; [contradiction|].
    destruct H as [H|H].
    - unfold Loop.solve in H. apply loop_provenance in H. now rewrite begin_sols in H.
    - apply IH in H. destruct H as [H|H]; [|now right].
      unfold Loop.solve in H. apply loop_sols_provenance in H. now rewrite begin_sols in H.
  Qed.
End Facts.

(* ---------------------------------------------------------------- refutations and examples
   (table instance of Loop.v: states/solutions are numbers, process is a finite table) *)

(* a clock given by a sorted list of readings is monotone *)
Lemma tclk_const_monotone : forall z, monotone (fun _ => z).
Proof. intros z i j _. lia. Qed.

(* process raising TimeoutError from inside (what the nested solve() of the unsat check does):
   state 0 raises TimeoutError, state 1 yields solution 7; NO timeout configured.
   Outcomes: TimeoutError, then a tree. *)
Definition tb_inner_timeout : ttable := [(0%N, ([], Raise TimeoutErr)); (1%N, ([], Ok [7%N]))].

Lemma timeout_sticky_unguarded_refuted :
  exists (tb : ttable) (q0 : tq) (fuels : list nat),
    monotone (fun _ => 0%Z) /\
    ~ sticky TimeoutErr (outcomes N N tq tpop (tprocess tb) (fun _ => 0%Z) (init q0 None) fuels).
Proof.
  exists tb_inner_timeout, [(0%N, 0%N); (1%N, 1%N)], [5; 5].
  split; [apply tclk_const_monotone|].
  intros H. specialize (H 0 1 ltac:(lia) ltac:(cbn; lia) eq_refl). vm_compute in H. discriminate.
Qed.

(* the same history shows a TimeoutError although no timeout is configured *)
Lemma timeout_without_timeout_refuted :
  exists (tb : ttable) (q0 : tq),
    In (ORaise TimeoutErr) (outcomes N N tq tpop (tprocess tb) (fun _ => 0%Z) (init q0 None) [5]).
Proof. exists tb_inner_timeout, [(0%N, 0%N); (1%N, 1%N)]. vm_compute. now left. Qed.

(* process raising StopIteration from inside: StopIteration, then a tree *)
Definition tb_inner_stop : ttable := [(0%N, ([], Raise StopIter)); (1%N, ([], Ok [7%N]))].

Lemma stop_sticky_unguarded_refuted :
  exists (tb : ttable) (q0 : tq) (fuels : list nat),
    ~ sticky StopIter (outcomes N N tq tpop (tprocess tb) (fun _ => 0%Z) (init q0 None) fuels).
Proof.
  exists tb_inner_stop, [(0%N, 0%N); (1%N, 1%N)], [5; 5].
  intros H. specialize (H 0 1 ltac:(lia) ltac:(cbn; lia) eq_refl). vm_compute in H. discriminate.
Qed.

(* after a crash of process the solver goes on with the rest of the queue: Crash, Tree, Stop *)
Definition tb_crash : ttable := [(0%N, ([], Raise TypeErr)); (1%N, ([], Ok [7%N]))].
Example crash_then_tree :
  outcomes N N tq tpop (tprocess tb_crash) (fun _ => 0%Z) (init [(0%N, 0%N); (1%N, 1%N)] None) [5; 5; 5]
  = [ORaise TypeErr; OTree 7%N; ORaise StopIter].
Proof. reflexivity. Qed.

(* the guards in boolean form over a process table, and their meaning *)
Lemma tlookup_raises : forall e tb s pushed,
  tlookup s tb = Some (pushed, Raise e) -> existsb (raises e) tb = true.
Proof.
  intros e tb s pushed. induction tb as [|[k r] tb IH]; cbn; intros H; [discriminate|].
  destruct (N.eqb k s).
  - injection H as ->. unfold raises. cbn. destruct e; reflexivity.
  - rewrite (IH H). apply orb_true_r.
Qed.

Lemma K_inner_timeout_guard : forall tb,
  K_inner_timeout tb = false -> forall s q, snd (tprocess tb s q) <> Raise TimeoutErr.
Proof.
  intros tb HK s q. unfold tprocess.
  destruct (tlookup s tb) as [[pushed r]|] eqn:Hl; cbn; [|discriminate].
  intros ->. apply tlookup_raises in Hl. unfold K_inner_timeout in HK. congruence.
Qed.

Lemma K_inner_stop_guard : forall tb,
  K_inner_stop tb = false -> forall s q, snd (tprocess tb s q) <> Raise StopIter.
Proof.
  intros tb HK s q. unfold tprocess.
  destruct (tlookup s tb) as [[pushed r]|] eqn:Hl; cbn; [|discriminate].
  intros ->. apply tlookup_raises in Hl. unfold K_inner_stop in HK. congruence.
Qed.

(* non-vacuity: concrete histories that satisfy the hypotheses and exercise the conclusion *)

(* two states, the first yields solutions 3 and 4, the second none; no timeout:
   Tree 3, Tree 4, Stop, Stop *)
Definition tb_ok : ttable := [(0%N, ([(1%N, 1%N)], Ok [3%N; 4%N])); (1%N, ([], Ok []))].
Example stop_history :
  outcomes N N tq tpop (tprocess tb_ok) (fun _ => 0%Z) (init [(0%N, 0%N)] None) [5; 5; 5; 5]
  = [OTree 3%N; OTree 4%N; ORaise StopIter; ORaise StopIter].
Proof. reflexivity. Qed.
Example stop_history_guard : K_inner_stop tb_ok = false /\ K_inner_timeout tb_ok = false /\ K_crash tb_ok = false.
Proof. repeat split. Qed.

(* timeout 2 s, clock 10,10,11,13,13,…: start_time 10; first call returns solution 3 (process of
   state 0 leaves state 1 in the queue), second call reads 13 -> Timeout although solution 4 is
   still pending; third call Timeout again *)
Example timeout_history :
  outcomes N N tq tpop (tprocess tb_ok) (tclk [10; 10; 11; 13; 13]%Z) (init [(0%N, 0%N)] (Some 2%Z)) [5; 5; 5]
  = [OTree 3%N; ORaise TimeoutErr; ORaise TimeoutErr].
Proof. reflexivity. Qed.
Example timeout_history_monotone : monotone (tclk [10; 10; 11; 13; 13]%Z).
Proof.
  intros i j Hij. unfold tclk. cbn [last].
  destruct i as [|[|[|[|[|i]]]]]; destruct j as [|[|[|[|[|j]]]]]; cbn; try lia;
    try (destruct i; cbn; lia); try (destruct j; cbn; lia); destruct i; destruct j; cbn; lia.
Qed.

(* instance theorems for table-driven runs under the boolean guards *)
Theorem table_stop_sticky : forall tb rs q0 tmo fuels,
  K_inner_stop tb = false ->
  sticky StopIter (outcomes N N tq tpop (tprocess tb) (tclk rs) (init q0 tmo) fuels).
Proof. intros tb rs q0 tmo fuels HK. apply stop_sticky. now apply K_inner_stop_guard. Qed.

Theorem table_timeout_sticky : forall tb rs q0 tmo fuels,
  monotone (tclk rs) -> K_inner_timeout tb = false ->
  sticky TimeoutErr (outcomes N N tq tpop (tprocess tb) (tclk rs) (init q0 tmo) fuels).
Proof. intros tb rs q0 tmo fuels Hm HK. apply timeout_sticky; [exact Hm | now apply K_inner_timeout_guard]. Qed.
