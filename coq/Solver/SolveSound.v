(* C01 — local soundness of every rule of Rules.v and the partial soundness theorem of the
   abstract solver.  (Completion / matching lemmas: RulesFacts.v.) *)
From ISLA Require Export RulesFacts.
From Coq Require Import Lia.

(* ------------------------------------------------------------------ *)
(* local soundness of the core rules                                   *)
(* ------------------------------------------------------------------ *)
Lemma qmatch_models_forall t' b v w m body q b' :
  models satom_denote t' b (FForall v (InVar w) m body) -> qmatch t' b v w m q b' ->
  models satom_denote t' b' body.
Proof.
  intros Ha [Hd Hm]. simpl in Ha. destruct m as [me|].
  - destruct Hm as (s & t2 & P & bs & Hs & Hin & Hsm & ->). eapply Ha; eassumption.
  - subst b'. apply Ha. assumption.
Qed.

Lemma qmatch_models_exists t' b v w m body q b' :
  qmatch t' b v w m q b' -> models satom_denote t' b' body ->
  models satom_denote t' b (FExists v (InVar w) m body).
Proof.
  intros [Hd Hm] Hb. simpl. destruct m as [me|].
  - destruct Hm as (s & t2 & P & bs & Hs & Hin & Hsm & ->). exists q, s, t2, P, bs. auto.
  - subst b'. exists q. auto.
Qed.

Theorem core_sound g s s' : core_step g s s' -> forall t', Sol g s' t' -> Sol g s t'.
Proof.
  intros Hstep t' (Hc & Ho & Hw & Hh).
  destruct Hstep as [cs1 cs2 b fs t | cs1 cs2 b fs f t Hin | cs1 cs2 b f f' t Hn
                    | cs b v w m body t q b' Hin Hq | cs1 cs2 b v w m body t p0 s0 Hb Hs0 Hcl Hall
                    | cs1 cs2 b v w m body t q b' Hq | cs1 cs2 b v body n t | cs t t1 Hc1 Hw1];
    simpl in *; unfold Sol; simpl.
  - (* r_and *)
    repeat split; try assumption. apply holds_mid.
    rewrite app_assoc in Hh. apply holds_app in Hh as [Hh1 Hh2]. apply holds_app in Hh1 as [Hh1 Hh3].
    split; [|apply holds_app; split; assumption].
    apply models_and. intros f Hf. apply Hh3. apply in_map_iff. exists f. auto.
  - (* r_or *)
    repeat split; try assumption. apply holds_mid. apply holds_mid in Hh as [Hf Hr].
    split; [|assumption]. apply models_or. exists f. auto.
  - (* r_nnf *)
    repeat split; try assumption. apply holds_mid. apply holds_mid in Hh as [Hf Hr].
    split; [|assumption]. eapply nnf_step_sound; eassumption.
  - (* r_match_forall: the instantiated body is only added *)
    repeat split; try assumption. apply holds_cons in Hh. tauto.
  - (* r_drop_forall: in-tree complete, every match already instantiated *)
    repeat split; try assumption. apply holds_mid. split; [|assumption].
    assert (Hqm : forall q b', qmatch t' b v w m q b' -> qmatch t b v w m q b').
    { intros q b' [Hd Hm].
      destruct (in_dom_closed t t' b w (vtype v) q p0 s0 Hc Hb Hs0 Hcl Hd) as [Hd0 Heq].
      split; [assumption|]. destruct m as [me|]; [|assumption].
      destruct Hm as (s & t2 & P & bs & Hs & Hin & Hsm & Hb'). exists s, t2, P, bs.
      rewrite <- Heq. auto. }
    simpl. destruct m as [me|].
    + intros q s t2 P bs Hd Hs Hin Hsm.
      apply Hh. apply (Hall q). apply Hqm. split; [assumption|]. exists s, t2, P, bs. auto.
    + intros q Hd. apply Hh. apply (Hall q). apply Hqm. split; [assumption | reflexivity].
  - (* r_match_exists *)
    repeat split; try assumption. apply holds_mid. apply holds_mid in Hh as [Hf Hr].
    split; [|assumption]. eapply qmatch_models_exists; [|eassumption].
    eapply qmatch_compl; eassumption.
  - (* r_exists_int *)
    repeat split; try assumption. apply holds_mid. apply holds_mid in Hh as [Hf Hr].
    split; [|assumption]. simpl. exists n. assumption.
  - (* r_expand *)
    repeat split; try assumption. eapply compl_trans; eassumption.
Qed.

Theorem eval_stable_sound g s s' : eval_step_stable s s' -> forall t', Sol g s' t' -> Sol g s t'.
Proof.
  intros Hstep t' (Hc & Ho & Hw & Hh). destruct Hstep as [cs1 cs2 b f t Hev Hm Hst].
  simpl in *. unfold Sol; simpl. repeat split; try assumption.
  apply holds_mid. split; [|assumption]. apply Hst; assumption.
Qed.

(* ------------------------------------------------------------------ *)
(* which evaluated conjuncts are stable                                *)
(* ------------------------------------------------------------------ *)
Lemma path_only_names n : path_only n = true ->
  n <> s_consecutive /\ n <> s_nth /\ n <> s_level.
Proof.
  unfold path_only. rewrite !Bool.orb_true_iff, !str_eqb_eq.
  intros [[[[[->| ->]| ->]| ->]| ->]| ->]; (split; [|split]); intro E; discriminate E.
Qed.

Lemma arg_pos_no_tree c c' b a p : no_tree_arg a = true -> arg_pos c b a p -> arg_pos c' b a p.
Proof. destruct a; simpl; try tauto. discriminate. Qed.

(* before / after / inside / same_position / different_position / direct_child on variables:
   the verdict does not depend on the tree at all *)
Lemma spred_path_only_indep c c' b n args : path_only n = true ->
  forallb no_tree_arg args = true -> spred_sem c b n args -> spred_sem c' b n args.
Proof.
  intros Hn Ha H. apply path_only_names in Hn as (Hc & Hnth & Hlv).
  unfold spred_sem in *.
  destruct args as [|a0 [|a1 [|a2 [|a3 [|a4 r]]]]]; try assumption.
  - simpl in Ha. apply Bool.andb_true_iff in Ha as [Ha0 Ha]. apply Bool.andb_true_iff in Ha as [Ha1 _].
    destruct H as (p & q & Hp & Hq & H). exists p, q.
    split; [eapply arg_pos_no_tree; eassumption|]. split; [eapply arg_pos_no_tree; eassumption|].
    unfold path2 in *. destruct H as [H|[H|[H|[H|[H|[H|[H1 H2]]]]]]]; tauto.
  - destruct a0; try assumption. destruct H as [H _]. contradiction.
  - destruct a0; try assumption. destruct a1; try assumption. destruct H as [H _]. contradiction.
Qed.

Theorem stable_path_only t b n args : path_only n = true -> forallb no_tree_arg args = true ->
  stable t b (FSPred n args) /\ stable t b (FNot (FSPred n args)).
Proof.
  intros Hn Ha. split; intros t' Hc H; simpl in *.
  - eapply spred_path_only_indep; eassumption.
  - intro H'. apply H. eapply spred_path_only_indep; eassumption.
Qed.

(* SMT atoms whose variables are bound to positions of CLOSED subtrees (what remains after
   eliminate_all_semantic_formulas substituted closed solution trees) *)
Lemma tenv_closed t t' b v p s : compl t t' -> b v = Some (VPos p) -> subtree t p = Some s ->
  is_openT s = false -> tenv t' b v = tenv t b v.
Proof.
  intros Hc Hb Hs Ho. unfold tenv. rewrite Hb. simpl.
  rewrite (compl_below_closed t t' p s p Hc Hs Ho (prefix_refl p)). reflexivity.
Qed.

Lemma st_den_ext e e' x u : (forall v, In v (st_vars x) -> e' v = e v) -> st_den e x u -> st_den e' x u.
Proof.
  destruct x as [v|s]; simpl; [|tauto]. intros He (t & Ht & Hu). exists t. rewrite He; auto.
Qed.

Lemma satom_denote_ext a e e' : (forall v, In v (satom_vars a) -> e' v = e v) ->
  satom_denote a e -> satom_denote a e'.
Proof.
  destruct a as [b0|neg x y|op x n|op x n|op x y]; simpl; intros He H.
  - assumption.
  - destruct H as (u & w & Hu & Hw & H). exists u, w.
    split; [eapply st_den_ext; [|eassumption]; intros v Hv; apply He; apply in_or_app; auto|].
    split; [eapply st_den_ext; [|eassumption]; intros v Hv; apply He; apply in_or_app; auto|]. assumption.
  - destruct H as (u & Hu & H). exists u. split; [eapply st_den_ext; eassumption | assumption].
  - destruct H as (u & Hu & H). exists u. split; [eapply st_den_ext; eassumption | assumption].
  - destruct H as (u & w & Hu & Hw & H). exists u, w.
    split; [eapply st_den_ext; [|eassumption]; intros v Hv; apply He; apply in_or_app; auto|].
    split; [eapply st_den_ext; [|eassumption]; intros v Hv; apply He; apply in_or_app; auto|]. assumption.
Qed.

Definition vars_closed (t : tree) (b : env) (vs : list var) : Prop :=
  forall v, In v vs -> exists p s, b v = Some (VPos p) /\ subtree t p = Some s /\ is_openT s = false.

Theorem stable_smt_closed t b a : vars_closed t b (satom_vars a) ->
  stable t b (FSmt a) /\ stable t b (FNot (FSmt a)).
Proof.
  intro Hv. split; intros t' Hc H; simpl in *.
  - eapply satom_denote_ext; [|eassumption]. intros v Hin.
    destruct (Hv v Hin) as (p & s & Hb & Hs & Ho). eapply tenv_closed; eassumption.
  - intro H'. apply H. eapply satom_denote_ext; [|eassumption]. intros v Hin.
    destruct (Hv v Hin) as (p & s & Hb & Hs & Ho). symmetry. eapply tenv_closed; eassumption.
Qed.

(* ------------------------------------------------------------------ *)
(* the evaluation step WITHOUT the stability side condition is unsound *)
(* for nth: the recorded defect K_nth, at the level of the rule system *)
(* ------------------------------------------------------------------ *)
Module NthWitness.
  Definition nt_as : str := [60;97;115;62]%N.   (* <as> *)
  Definition nt_b : str := [60;98;62]%N.        (* <b> *)
  Definition g : grammar := [(nt_as, [[nt_as; nt_b]; [nt_b]]); (nt_b, [[[120]%N]; [[122]%N]])].
  Definition vx := MkVar VBound [120]%N nt_b.
  Definition vs := MkVar VConst [115;116;97;114;116]%N nt_as.
  (* <as>( <as>-open , <b>("z") ) : x is the first <b> of the tree as it stands *)
  Definition t : tree :=
    Node nt_as 1 false [Node nt_as 2 true []; Node nt_b 3 false [Node [122]%N 4 false []]].
  (* the completion "xz": now x is the second <b> *)
  Definition t' : tree :=
    Node nt_as 1 false [Node nt_as 2 false [Node nt_b 5 false [Node [120]%N 6 false []]];
                        Node nt_b 3 false [Node [122]%N 4 false []]].
  Definition b : env := upd (upd env_empty vs (VPos [])) vx (VPos [1]).
  Definition f : cform := FSPred s_nth [PStr [49]%N; PVar vx; PVar vs].   (* nth("1", x, start) *)
End NthWitness.

Theorem eval_unsound_nth : exists g s s' t',
  eval_step s s' /\ Sol g s' t' /\ ~ Sol g s t' /\ K_nth (snd (hd (env_empty, FSmt (SBool true)) (fst s))) = true.
Proof.
  exists NthWitness.g, ([(NthWitness.b, NthWitness.f)], NthWitness.t), ([], NthWitness.t), NthWitness.t'.
  split; [|split; [|split]].
  - apply (r_eval_true [] [] NthWitness.b NthWitness.f NthWitness.t); [constructor|].
    apply (proj1 (spredb_spec NthWitness.t NthWitness.b s_nth _ eq_refl)). reflexivity.
  - unfold Sol. simpl. split; [|split; [|split]].
    + repeat split; reflexivity.
    + reflexivity.
    + apply wf_treeb_spec. reflexivity.
    + intros b0 f0 [].
  - intros (_ & _ & _ & Hh). specialize (Hh NthWitness.b NthWitness.f (or_introl eq_refl)).
    change (spred_sem NthWitness.t' NthWitness.b s_nth
              [PStr [49]%N; PVar NthWitness.vx; PVar NthWitness.vs]) in Hh.
    apply (proj2 (spredb_spec NthWitness.t' NthWitness.b s_nth _ eq_refl)) in Hh.
    vm_compute in Hh. discriminate.
  - reflexivity.
Qed.

(* ------------------------------------------------------------------ *)
(* the abstract solver: core rules + stable evaluation + external steps *)
(* ------------------------------------------------------------------ *)
Section Solve.
  Variable g : grammar.

  (* a step relation preserves grammar validity of the state tree and never adds solutions *)
  Definition sound_rel (R : cstate -> cstate -> Prop) : Prop :=
    forall s s', R s s' ->
      (wf_tree g (snd s) -> wf_tree g (snd s')) /\ (forall t', Sol g s' t' -> Sol g s t').

  (* steps that are NOT proved here; each one is a named premise of solve_sound_partial:
     smt_step        eliminate_all_semantic_formulas / eliminate_semantic_formula: the assignment
                     Z3 returns satisfies the SMT conjuncts it was given, and the trees built
                     from it (C14 create_fixed_length_tree, int values, C10 parse) spell it
     sem_step        eliminate_all_ready_semantic_predicate_formulas (count etc.; C20)
     insert_step     eliminate_existential_formula: tree insertion (C13) + re-anchoring by ids +
                     the re-conjoined original formula
     numq_step       instantiate_universal_integer_quantifiers (enumeration / transformation)
     infeasible_step remove_infeasible_universal_quantifiers on OPEN in-trees (reachability, C06)
     (instantiate_structural_predicates needs no premise: for every predicate except nth it is an
     instance of eval_step_stable — stable_path_only, PredStable.stable_pred2, stable_level; for nth
     it is unsound, eval_unsound_nth) *)
  Variables smt_step sem_step insert_step numq_step infeasible_step :
    cstate -> cstate -> Prop.
  Hypothesis H_smt : sound_rel smt_step.
  Hypothesis H_sem : sound_rel sem_step.
  Hypothesis H_insert : sound_rel insert_step.
  Hypothesis H_numq : sound_rel numq_step.
  Hypothesis H_infeasible : sound_rel infeasible_step.

  Inductive step : cstate -> cstate -> Prop :=
  | st_core s s' : core_step g s s' -> step s s'
  | st_eval s s' : eval_step_stable s s' -> step s s'
  | st_smt s s' : smt_step s s' -> step s s'
  | st_sem s s' : sem_step s s' -> step s s'
  | st_insert s s' : insert_step s s' -> step s s'
  | st_numq s s' : numq_step s s' -> step s s'
  | st_infeasible s s' : infeasible_step s s' -> step s s'.

  Inductive reachable (s0 : cstate) : cstate -> Prop :=
  | reach_refl : reachable s0 s0
  | reach_step s s' : reachable s0 s -> step s s' -> reachable s0 s'.

  Lemma core_wf s s' : core_step g s s' -> wf_tree g (snd s) -> wf_tree g (snd s').
  Proof. intros H Hw. destruct H; simpl in *; assumption. Qed.

  Lemma step_sound : sound_rel step.
  Proof.
    intros s s' H. destruct H as [s s' H|s s' H|s s' H|s s' H|s s' H|s s' H|s s' H];
      try (apply H_smt; assumption); try (apply H_sem; assumption); try (apply H_insert; assumption);
      try (apply H_numq; assumption); try (apply H_infeasible; assumption).
    - split; [apply core_wf; assumption | apply core_sound; assumption].
    - split; [|apply eval_stable_sound; assumption]. destruct H; simpl; tauto.
  Qed.

  Lemma reach_sound s0 s : reachable s0 s ->
    (wf_tree g (snd s0) -> wf_tree g (snd s)) /\ (forall t', Sol g s t' -> Sol g s0 t').
  Proof.
    induction 1 as [|s s' Hr [IHw IHs] Hst]; [tauto|].
    destruct (step_sound s s' Hst) as [Hw Hs]. split; auto.
  Qed.

  (* every final state reachable from the initial state carries a valid solution; since the
     output sequence of solve() consists of trees of final states, this holds for every prefix *)
  Theorem solve_sound_partial start i0 cst phi s :
    is_nt start = true -> defined g start = true ->
    reachable (init_state start i0 cst phi) s -> final s ->
    valid_solution g start cst phi (snd s).
  Proof.
    intros Hnt Hdef Hr [Hcs Hcl].
    destruct (reach_sound _ _ Hr) as [Hw Hs].
    assert (Hwf : wf_tree g (snd s)) by (apply Hw; simpl; constructor; assumption).
    assert (Hsol : Sol g s (snd s)).
    { unfold Sol. repeat split; try assumption.
      - apply compl_refl_closed. assumption.
      - rewrite Hcs. intros b f []. }
    apply Hs in Hsol. destruct Hsol as (Hc & _ & _ & Hh). simpl in Hc, Hh.
    destruct Hc as [_ Hl].
    unfold valid_solution. repeat split; try assumption.
    - rewrite <- Hl. apply wf_closed_yield; assumption.
    - unfold sat. apply (Hh (env0 cst) phi). left. reflexivity.
  Qed.
End Solve.

(* non-vacuity: a run of the abstract solver (no external steps at all) that reaches a final state:
   grammar <s> ::= "a", constraint  (= start "a") and before(start, start) is not needed — the
   constraint is the atom (= start "a"); expand the root, then evaluate the (now stable) atom *)
Module RunExample.
  Definition nt_s : str := [60;115;62]%N.
  Definition g : grammar := [(nt_s, [[[97]%N]])].
  Definition cst := MkVar VConst [115;116;97;114;116]%N nt_s.
  Definition phi : cform := FSmt (SStr false (SVar cst) (SLit [97]%N)).
  Definition t1 : tree := Node nt_s 0 false [Node [97]%N 1 false []].
  Definition none : cstate -> cstate -> Prop := fun _ _ => False.
End RunExample.

Example solve_sound_example :
  let R := RunExample.none in
  reachable RunExample.g R R R R R (init_state RunExample.nt_s 0 RunExample.cst RunExample.phi)
            ([], RunExample.t1) /\
  final ([], RunExample.t1) /\ sound_rel RunExample.g R.
Proof.
  split; [|split].
  - eapply reach_step; [eapply reach_step; [apply reach_refl|]|].
    + apply st_core. apply (r_expand RunExample.g _ _ RunExample.t1).
      * simpl. auto.
      * apply wf_treeb_spec. reflexivity.
    + apply st_eval.
      apply (r_eval_stable [] [] (env0 RunExample.cst) RunExample.phi RunExample.t1).
      * constructor.
      * apply (proj1 (satom_dec_spec (SStr false (SVar RunExample.cst) (SLit [97]%N))
                                     (tenv RunExample.t1 (env0 RunExample.cst)))). reflexivity.
      * apply stable_smt_closed. intros v [<-|[]].
        exists [], RunExample.t1. repeat split; reflexivity.
  - split; reflexivity.
  - intros s s' [].
Qed.

(* non-vacuity of the stability lemmas *)
Example stable_path_only_example :
  path_only s_before = true /\
  forallb no_tree_arg [PVar NthWitness.vx; PVar NthWitness.vs] = true.
Proof. split; reflexivity. Qed.
