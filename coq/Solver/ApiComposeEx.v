(* C18 (proof extension) — non-vacuity of the composed theorems, and the status of
   `sat_respects_eqv` for the specification semantics of Logic/Semantics.v.
   Grammar ex_g:  <start> ::= <a> ;  <a> ::= "" | "x".
   Constraint cx_phi:  forall <a> v in start: (= v "x"). *)
From ISLA Require Import Grammar GrammarFacts Earley EarleyTrees EarleyFuel.
From ISLA Require Import Semantics Eval EvalAtoms EvalFacts MatchFacts EvalMexprFacts EvalMexprCheck.
From ISLA Require Import Api ApiFacts FreshIds ApiCompose ApiInst ApiComposeEval.
From Coq Require Import Lia.

Definition cx_cst : var := MkVar VConst [115;116;97;114;116]%N ASTART.             (* start : <start> *)
Definition cx_v : var := MkVar VBound [118]%N [60;97;62]%N.                          (* v : <a> *)
Definition cx_phi : formula atom :=
  FForall cx_v (InVar cx_cst) None (FSmt (AStr false (SVar cx_v) (SLit [120]%N))).
Definition cx_fuel : str -> nat := fun _ => 100.

Example cx_gram_ok : gram_ok ex_g.
Proof.
  destruct (canonical_form_good ex_g eq_refl) as [H1 H2].
  split; [exact H1|]. split; [|split; [exact H2 | reflexivity]].
  simpl. constructor; [simpl; intros [H|[]]; discriminate|]. constructor; [simpl; tauto | constructor].
Qed.

Example cx_guards : guards false false ex_g.
Proof. split; right; reflexivity. Qed.

Example cx_fuel_ok s : length s <= 1 -> fuel_ok cx_fuel ex_g s.
Proof.
  intro H. unfold fuel_ok, cx_fuel.
  destruct s as [|c [|d s']]; [| |simpl in H; lia]; apply Nat.leb_le; vm_compute; reflexivity.
Qed.

Example cx_no_oof_x : no_oof false false cx_fuel ex_g [120]%N.
Proof. unfold no_oof. vm_compute. discriminate. Qed.
Example cx_no_oof_eps : no_oof false false cx_fuel ex_g [].
Proof. unfold no_oof. vm_compute. discriminate. Qed.
Example cx_no_oof_y : no_oof false false cx_fuel ex_g [121]%N.
Proof. unfold no_oof. vm_compute. discriminate. Qed.

Lemma cx_guard_on s : s = [120]%N \/ s = [] \/ s = [121]%N ->
  guard_on ex_g false false cx_fuel cx_cst cx_phi s.
Proof.
  intros [->|[->| ->]] t Ht; vm_compute in Ht; try discriminate; inversion Ht; subst; vm_compute; reflexivity.
Qed.

(* all hypotheses of the composed theorems hold, and all three verdicts occur *)
Example composed_nonvacuous :
  gram_ok ex_g /\ guards false false ex_g /\
  (forall s, s = [120]%N \/ s = [] \/ s = [121]%N ->
     fuel_ok cx_fuel ex_g s /\ guard_on ex_g false false cx_fuel cx_cst cx_phi s) /\
  no_oof false false cx_fuel ex_g [120]%N /\ no_oof false false cx_fuel ex_g [] /\
  no_oof false false cx_fuel ex_g [121]%N /\
  check_str (earley_first false false cx_fuel ex_g) (isla_eval cx_cst cx_phi) [120]%N = Ok true /\
  parse_api (earley_first false false cx_fuel ex_g) (isla_eval cx_cst cx_phi) [] ASTART false = Raise SemanticErr /\
  parse_api (earley_first false false cx_fuel ex_g) (isla_eval cx_cst cx_phi) [121]%N ASTART false = Raise SyntaxErr.
Proof.
  split; [exact cx_gram_ok|]. split; [exact cx_guards|].
  split; [intros s Hs; split; [apply cx_fuel_ok; destruct Hs as [->|[->| ->]]; simpl; lia | apply cx_guard_on; exact Hs]|].
  split; [exact cx_no_oof_x|]. split; [exact cx_no_oof_eps|]. split; [exact cx_no_oof_y|].
  split; [vm_compute; reflexivity|]. split; vm_compute; reflexivity.
Qed.

(* ====================================================================================== *)
(* sat_respects_eqv for the specification semantics                                        *)
(* ====================================================================================== *)
(* isla_sat is decided by the executable oracle s_sat (Semantics.satb_spec) *)
Lemma isla_sat_dec cst phi t : shape_ok t = true -> no_numq phi = true ->
  (s_sat t cst phi = true <-> isla_sat cst phi t).
Proof.
  intros Hs Hq. unfold s_sat, isla_sat, sat.
  apply (satb_spec atom atom_denote t atom_dec atom_dec_spec 0 phi Hs Hq).
Qed.

(* (1) FAILS for match expressions whose prefix tree spells out an epsilon expansion in the
   fuzzer's shape  <a> -> [("", [])]  (class K_mexpr_eps_shape of C03): the prefix tree matches the
   fuzzer-shaped tree and not the parser-shaped one.
       exists <a> x = "(prefix tree <a>[eps])" in start: true *)
Definition rx_x : var := MkVar VBound [120]%N [60;97;62]%N.
Definition rx_me : mexpr :=
  MkMexpr [] [(Node [60;97;62]%N 0%N false [Node [] 0%N false []], [])].
Definition rx_phi : formula atom := FExists rx_x (InVar cx_cst) (Some rx_me) (FSmt (ABool true)).

Theorem sat_respects_eqv_mexpr_refuted :
  good ex_g ex_eps_parser /\ good ex_g ex_eps_fuzzer /\ eqv ex_eps_parser ex_eps_fuzzer /\
  ~ isla_sat cx_cst rx_phi ex_eps_parser /\ isla_sat cx_cst rx_phi ex_eps_fuzzer /\
  ~ sat_respects_eqv ex_g (isla_sat cx_cst rx_phi).
Proof.
  destruct good_ex as (_ & G1 & G2).
  assert (N1 : ~ isla_sat cx_cst rx_phi ex_eps_parser).
  { intro H. apply (isla_sat_dec cx_cst rx_phi ex_eps_parser eq_refl eq_refl) in H. vm_compute in H. discriminate. }
  assert (S2 : isla_sat cx_cst rx_phi ex_eps_fuzzer).
  { apply (isla_sat_dec cx_cst rx_phi ex_eps_fuzzer eq_refl eq_refl). vm_compute. reflexivity. }
  repeat (split; [assumption || reflexivity|]).
  intro H. apply N1. apply (H ex_eps_parser ex_eps_fuzzer G1 G2 eq_refl). exact S2.
Qed.

(* (2) FAILS for `count` with the empty needle and for quantifiers over the pseudo-type "":
   the fuzzer-shaped tree has one node labelled "", the parser-shaped one none.
       count(start, "", "1") *)
Definition rc_phi : formula atom := FSemPred s_count [PVar cx_cst; PStr []; PStr [49]%N].

Theorem sat_respects_eqv_count_eps_refuted :
  ~ isla_sat cx_cst rc_phi ex_eps_parser /\ isla_sat cx_cst rc_phi ex_eps_fuzzer /\
  ~ sat_respects_eqv ex_g (isla_sat cx_cst rc_phi).
Proof.
  destruct good_ex as (_ & G1 & G2).
  assert (N1 : ~ isla_sat cx_cst rc_phi ex_eps_parser).
  { intro H. apply (isla_sat_dec cx_cst rc_phi ex_eps_parser eq_refl eq_refl) in H. vm_compute in H. discriminate. }
  assert (S2 : isla_sat cx_cst rc_phi ex_eps_fuzzer).
  { apply (isla_sat_dec cx_cst rc_phi ex_eps_fuzzer eq_refl eq_refl). vm_compute. reflexivity. }
  split; [exact N1|]. split; [exact S2|].
  intro H. apply N1. apply (H ex_eps_parser ex_eps_fuzzer G1 G2 eq_refl). exact S2.
Qed.

(* (3) FAILS (ids) for formulas that contain a tree literal, i.e. ALREADY INSTANTIATED formulas: a
   tree argument denotes the positions holding its id.
       exists <a> x in (tree with id 6): true     holds in ex_eps_fuzzer (ids 5,6,7), not in a copy
   numbered 0,1,2 *)
Definition ri_phi : formula atom :=
  FExists rx_x (InTree (Node [60;97;62]%N 6%N false [])) None (FSmt (ABool true)).

Theorem sat_respects_eqv_ids_refuted :
  good ex_g (renum 0 ex_eps_fuzzer) /\ eqv ex_eps_fuzzer (renum 0 ex_eps_fuzzer) /\
  isla_sat cx_cst ri_phi ex_eps_fuzzer /\ ~ isla_sat cx_cst ri_phi (renum 0 ex_eps_fuzzer) /\
  ~ sat_respects_eqv ex_g (isla_sat cx_cst ri_phi).
Proof.
  destruct good_ex as (_ & _ & G2).
  assert (G3 : good ex_g (renum 0 ex_eps_fuzzer)).
  { unfold good. repeat split; try reflexivity. apply wf_treeb_spec. reflexivity. }
  assert (S1 : isla_sat cx_cst ri_phi ex_eps_fuzzer).
  { apply (isla_sat_dec cx_cst ri_phi ex_eps_fuzzer eq_refl eq_refl). vm_compute. reflexivity. }
  assert (N2 : ~ isla_sat cx_cst ri_phi (renum 0 ex_eps_fuzzer)).
  { intro H. apply (isla_sat_dec cx_cst ri_phi (renum 0 ex_eps_fuzzer) eq_refl eq_refl) in H. vm_compute in H. discriminate. }
  split; [exact G3|]. split; [reflexivity|]. split; [exact S1|]. split; [exact N2|].
  intro H. apply N2. apply (H ex_eps_fuzzer (renum 0 ex_eps_fuzzer) G2 G3 eq_refl). exact S1.
Qed.

(* non-vacuity of mutant_is_run: the identity stream (zero mutation steps) and one real step of
   C12's transition system (swap of two subtrees with equal labels is not available in ex_g, so:
   the stream that always delivers the input) *)
Example mutant_is_run_ex : mutant_is_run ex_g (fun inp _ => Ok inp) /\ mutant_valid ex_g (fun inp _ => Ok inp).
Proof.
  assert (H : mutant_is_run ex_g (fun inp _ => Ok inp)).
  { intros inp k m E. inversion E; subst. apply Mutate.ms_refl. }
  split; [exact H|]. exact (mutant_valid_c12 ex_g _ (proj1 cx_gram_ok) H).
Qed.
