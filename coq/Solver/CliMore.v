(* C19 — proof extension, part 1: the common front part of cli.py depends only on the
   grammar / constraint sources (-g, -c, the .bnf/.py/.isla FILES), not on the command,
   the input arguments or the other options.  Model: Solver/Cli.v; earlier facts: CliFacts.v. *)
From ISLA Require Import Cli CliFacts.
From Coq Require Import Lia.

(* a FILES argument that is a grammar or constraint file (= not an input file) *)
Definition spec_name (n : str) : bool := negb (is_input_name n).
Definition spec_file (f : file) : bool := spec_name (fname f).
Definition input_file (f : file) : bool := is_input_name (fname f).
Definition py_name (n : str) : bool := ends_with n suf_py.

Lemma grammar_name_spec : forall n, is_grammar_name n = true -> spec_name n = true.
Proof.
  intros n H. unfold spec_name. destruct (file_classes_partition n) as [(_ & _ & ->)|[(E & _)|(E & _)]];
    [reflexivity | congruence | congruence].
Qed.

Lemma constraint_name_spec : forall n, is_constraint_name n = true -> spec_name n = true.
Proof.
  intros n H. unfold spec_name. destruct (file_classes_partition n) as [(_ & E & _)|[(_ & _ & ->)|(_ & E & _)]];
    [congruence | reflexivity | congruence].
Qed.

Lemma py_name_grammar : forall n, py_name n = true -> is_grammar_name n = true.
Proof. intros n H. unfold py_name in H. unfold is_grammar_name. rewrite H. apply orb_true_r. Qed.

Lemma py_name_spec : forall n, py_name n = true -> spec_name n = true.
Proof. intros n H. apply grammar_name_spec, py_name_grammar, H. Qed.

(* ------------------------------------------------------------------ *)
(* read_files commutes with selecting FILES by name                     *)
(* ------------------------------------------------------------------ *)

Lemma names_with_app : forall p d1 d2, names_with p (d1 ++ d2) = names_with p d1 ++ names_with p d2.
Proof. intros p d1 d2. unfold names_with. apply filter_app. Qed.

Lemma has_name_names_with : forall p n acc, p n = true -> has_name n (names_with p acc) = has_name n acc.
Proof.
  intros p n acc Hp. induction acc as [|[m c] acc IH]; [reflexivity|].
  simpl. destruct (p m) eqn:Em; simpl.
  - rewrite IH. reflexivity.
  - rewrite IH. destruct (str_eqb n m) eqn:E; [|reflexivity].
    apply str_eqb_eq in E. subst m. congruence.
Qed.

Lemma read_files_acc_filter : forall p fs acc d,
  read_files_acc fs acc = Cont d ->
  read_files_acc (filter (fun f => p (fname f)) fs) (names_with p acc) = Cont (names_with p d).
Proof.
  intros p fs. induction fs as [|f fs IH]; intros acc d H; simpl in H.
  - inversion H; subst. reflexivity.
  - destruct (fstate f) as [| |c] eqn:Ef; try discriminate.
    simpl. destruct (p (fname f)) eqn:Ep.
    + simpl. rewrite Ef. rewrite (has_name_names_with p (fname f) acc Ep).
      specialize (IH _ _ H). destruct (has_name (fname f) acc); [exact IH|].
      rewrite names_with_app in IH. simpl in IH. rewrite Ep in IH. exact IH.
    + specialize (IH _ _ H). destruct (has_name (fname f) acc); [exact IH|].
      rewrite names_with_app in IH. simpl in IH. rewrite Ep in IH. rewrite app_nil_r in IH. exact IH.
Qed.

Lemma read_files_filter : forall p fs d,
  read_files fs = Cont d -> read_files (filter (fun f => p (fname f)) fs) = Cont (names_with p d).
Proof. intros p fs d H. exact (read_files_acc_filter p fs [] d H). Qed.

Lemma names_with_names_with : forall p q d,
  (forall n, q n = true -> p n = true) -> names_with q (names_with p d) = names_with q d.
Proof.
  intros p q d Hqp. induction d as [|[n c] d IH]; [reflexivity|].
  simpl. destruct (p n) eqn:Ep; simpl.
  - rewrite IH. reflexivity.
  - destruct (q n) eqn:Eq; [rewrite (Hqp n Eq) in Ep; discriminate | exact IH].
Qed.

Lemma existsb_names_with : forall p (d : list (str * str)),
  existsb (fun nc => p (fst nc)) d = match names_with p d with [] => false | _ => true end.
Proof.
  intros p d. induction d as [|[n c] d IH]; [reflexivity|].
  simpl. destruct (p n); [reflexivity | exact IH].
Qed.

(* the part of the dict that the front part looks at *)
Definition spec_dict (d : list (str * str)) : list (str * str) := names_with spec_name d.

Lemma spec_dict_grammar : forall d d', spec_dict d = spec_dict d' ->
  names_with is_grammar_name d = names_with is_grammar_name d'.
Proof.
  intros d d' H. rewrite <- (names_with_names_with spec_name is_grammar_name d grammar_name_spec).
  rewrite <- (names_with_names_with spec_name is_grammar_name d' grammar_name_spec).
  unfold spec_dict in H. rewrite H. reflexivity.
Qed.

Lemma spec_dict_constraint : forall d d', spec_dict d = spec_dict d' ->
  names_with is_constraint_name d = names_with is_constraint_name d'.
Proof.
  intros d d' H. rewrite <- (names_with_names_with spec_name is_constraint_name d constraint_name_spec).
  rewrite <- (names_with_names_with spec_name is_constraint_name d' constraint_name_spec).
  unfold spec_dict in H. rewrite H. reflexivity.
Qed.

Lemma spec_dict_py : forall d d', spec_dict d = spec_dict d' ->
  names_with py_name d = names_with py_name d'.
Proof.
  intros d d' H. rewrite <- (names_with_names_with spec_name py_name d py_name_spec).
  rewrite <- (names_with_names_with spec_name py_name d' py_name_spec).
  unfold spec_dict in H. rewrite H. reflexivity.
Qed.

(* ------------------------------------------------------------------ *)
(* the front part after the files have been read                        *)
(* ------------------------------------------------------------------ *)
Section FrontDep.
  Variables G F T : Type.
  Variable O : oracles G F T.

  (* everything `front` does with the dict of file contents *)
  Definition front_tail (a : args) (d : list (str * str)) : step (list (str * str) * gram G * F) :=
    if negb (grammar_present a d) then Stop usage_error else
    if needs_constraint (a_cmd a) && negb (constraint_present a d) then Stop usage_error else
    if match a_cmd a, a_outdir a with Solve, DirBad => true | _, _ => false end then Stop usage_error else
    do g <- parse_grammar O a d ;;
    do _ <- read_predicates O d ;;
    do f <- parse_constraint O a d g ;;
    Cont (d, g, f).

  Lemma front_unfold : forall a,
    front O a = (do _ <- argparse_files (a_files a) ;; do d <- read_files (a_files a) ;; front_tail a d).
  Proof. intro a. reflexivity. Qed.

  (* same -g, same -c *)
  Definition same_options (a a' : args) : Prop :=
    a_grammar a = a_grammar a' /\ a_constraints a = a_constraints a'.

  Lemma grammar_present_dep : forall a a' d d',
    same_options a a' -> spec_dict d = spec_dict d' -> grammar_present a d = grammar_present a' d'.
  Proof.
    intros a a' d d' [Hg _] Hd. unfold grammar_present. rewrite <- Hg.
    destruct (truthy (a_grammar a)); [reflexivity|].
    rewrite (existsb_names_with is_grammar_name d), (existsb_names_with is_grammar_name d').
    rewrite (spec_dict_grammar d d' Hd). reflexivity.
  Qed.

  Lemma constraint_present_dep : forall a a' d d',
    same_options a a' -> spec_dict d = spec_dict d' -> constraint_present a d = constraint_present a' d'.
  Proof.
    intros a a' d d' [_ Hc] Hd. unfold constraint_present. rewrite <- Hc.
    destruct (a_constraints a); [|reflexivity].
    rewrite (existsb_names_with is_constraint_name d), (existsb_names_with is_constraint_name d').
    rewrite (spec_dict_constraint d d' Hd). reflexivity.
  Qed.

  Lemma parse_grammar_dep : forall a a' d d',
    same_options a a' -> spec_dict d = spec_dict d' -> parse_grammar O a d = parse_grammar O a' d'.
  Proof.
    intros a a' d d' [Hg _] Hd. unfold parse_grammar. rewrite <- Hg.
    rewrite (spec_dict_grammar d d' Hd). reflexivity.
  Qed.

  Lemma read_predicates_dep : forall d d',
    spec_dict d = spec_dict d' -> read_predicates O d = read_predicates O d'.
  Proof.
    intros d d' Hd. unfold read_predicates.
    change (names_with (fun n => ends_with n suf_py) d) with (names_with py_name d).
    change (names_with (fun n => ends_with n suf_py) d') with (names_with py_name d').
    rewrite (spec_dict_py d d' Hd). reflexivity.
  Qed.

  Lemma constraint_sources_dep : forall a a' d d',
    same_options a a' -> spec_dict d = spec_dict d' -> constraint_sources a d = constraint_sources a' d'.
  Proof.
    intros a a' d d' [_ Hc] Hd. unfold constraint_sources. rewrite <- Hc.
    rewrite (spec_dict_constraint d d' Hd). reflexivity.
  Qed.

  Lemma parse_constraint_dep : forall a a' d d' g,
    same_options a a' -> spec_dict d = spec_dict d' -> parse_constraint O a d g = parse_constraint O a' d' g.
  Proof.
    intros a a' d d' g Ho Hd. unfold parse_constraint.
    rewrite (constraint_sources_dep a a' d d' Ho Hd). reflexivity.
  Qed.

  (* the command enters only through two usage checks *)
  Definition cmd_checks (a : args) (d : list (str * str)) : bool :=
    (needs_constraint (a_cmd a) && negb (constraint_present a d)) ||
    match a_cmd a, a_outdir a with Solve, DirBad => true | _, _ => false end.

  (* MAIN LEMMA: with the same -g/-c and the same grammar/constraint file contents, the front
     part yields the same grammar and the same constraint — whatever the command, the input
     arguments, the other options and the non-spec FILES are (if the second invocation passes
     the two command-specific usage checks) *)
  Lemma front_tail_dep : forall a a' d d' g f,
    same_options a a' -> spec_dict d = spec_dict d' -> cmd_checks a' d' = false ->
    front_tail a d = Cont (d, g, f) -> front_tail a' d' = Cont (d', g, f).
  Proof.
    intros a a' d d' g f Ho Hd Hc H. unfold front_tail in *. unfold cmd_checks in Hc.
    apply orb_false_iff in Hc as [Hc1 Hc2]. rewrite Hc1, Hc2.
    rewrite <- (grammar_present_dep a a' d d' Ho Hd).
    destruct (negb (grammar_present a d)); [discriminate|].
    destruct (needs_constraint (a_cmd a) && negb (constraint_present a d)); [discriminate|].
    destruct (match a_cmd a with Solve => match a_outdir a with DirBad => true | _ => false end | _ => false end);
      [discriminate|].
    rewrite <- (parse_grammar_dep a a' d d' Ho Hd).
    destruct (parse_grammar O a d) as [g0|o]; simpl in *; [|discriminate].
    rewrite <- (read_predicates_dep d d' Hd).
    destruct (read_predicates O d) as [u|o]; simpl in *; [|discriminate].
    rewrite <- (parse_constraint_dep a a' d d' g0 Ho Hd).
    destruct (parse_constraint O a d g0) as [f0|o]; simpl in *; [|discriminate].
    inversion H; subst. reflexivity.
  Qed.

  Lemma front_cont_inv : forall a d g f, front O a = Cont (d, g, f) ->
    existsb unopenable (a_files a) = false /\ read_files (a_files a) = Cont d /\ front_tail a d = Cont (d, g, f).
  Proof.
    intros a d g f H. rewrite front_unfold in H. unfold argparse_files in H.
    destruct (existsb unopenable (a_files a)); simpl in H; [discriminate|].
    destruct (read_files (a_files a)) as [d0|o] eqn:Er; simpl in H; [|discriminate].
    assert (d0 = d).
    { unfold front_tail in H.
      destruct (negb (grammar_present a d0)); [discriminate|].
      destruct (needs_constraint (a_cmd a) && negb (constraint_present a d0)); [discriminate|].
      destruct (match a_cmd a with Solve => match a_outdir a with DirBad => true | _ => false end | _ => false end);
        [discriminate|].
      destruct (parse_grammar O a d0) as [g0|o]; simpl in H; [|discriminate].
      destruct (read_predicates O d0) as [u|o]; simpl in H; [|discriminate].
      destruct (parse_constraint O a d0 g0) as [f0|o]; simpl in H; [|discriminate].
      inversion H; reflexivity. }
    subst d0. auto.
  Qed.

  Lemma front_dict_of : forall a d g f, front O a = Cont (d, g, f) -> dict_of a = d.
  Proof.
    intros a d g f H. destruct (front_cont_inv a d g f H) as (_ & Hr & _).
    unfold dict_of. rewrite Hr. reflexivity.
  Qed.

  (* same grammar/constraint FILES, in the same order *)
  Definition same_spec (a a' : args) : Prop :=
    same_options a a' /\ filter spec_file (a_files a) = filter spec_file (a_files a').

  Lemma same_spec_dict : forall a a' d d',
    filter spec_file (a_files a) = filter spec_file (a_files a') ->
    read_files (a_files a) = Cont d -> read_files (a_files a') = Cont d' -> spec_dict d = spec_dict d'.
  Proof.
    intros a a' d d' Hf Hr Hr'.
    pose proof (read_files_filter spec_name _ _ Hr) as X.
    pose proof (read_files_filter spec_name _ _ Hr') as X'.
    change (filter (fun f => spec_name (fname f)) (a_files a)) with (filter spec_file (a_files a)) in X.
    change (filter (fun f => spec_name (fname f)) (a_files a')) with (filter spec_file (a_files a')) in X'.
    rewrite Hf in X. rewrite X in X'. inversion X' as [E]. unfold spec_dict. exact E.
  Qed.

  (* THEOREM (front depends only on the grammar/constraint sources):
     a' has the same -g, the same -c list and the same .bnf/.py/.isla FILES in the same order as a,
     all FILES of a' are readable and a' passes the two command-specific usage checks
     => front gives the same grammar and constraint for a' as for a. *)
  Theorem front_depends_only_on_spec : forall a a' d g f,
    same_spec a a' -> readable a' -> cmd_checks a' (dict_of a') = false ->
    front O a = Cont (d, g, f) ->
    front O a' = Cont (dict_of a', g, f) /\ spec_dict (dict_of a') = spec_dict d.
  Proof.
    intros a a' d g f [Ho Hf] R Hc H.
    destruct (front_cont_inv a d g f H) as (_ & Hr & Ht).
    destruct (readable_front a' R) as [Ha' Hr'].
    assert (Hd : spec_dict d = spec_dict (dict_of a')) by (exact (same_spec_dict a a' d (dict_of a') Hf Hr Hr')).
    split; [|symmetry; exact Hd].
    rewrite front_unfold, Ha', Hr'. simpl.
    exact (front_tail_dep a a' d (dict_of a') g f Ho Hd Hc Ht).
  Qed.
End FrontDep.
