(* C01 — solver states and the runtime acceptance check for solver outputs.  MODEL file: definitions
   only, no proofs (facts are in Sound.v).

   * [satom]  : the concrete family of SMT-LIB atoms used by the C01 generators: true/false,
                string (in)equality, str.len / str.to.int compared with an integer literal,
                str.to.int compared between two terms.  [satom_denote] is the SMT-LIB standard
                meaning on the strings (yields) of the assigned trees, [satom_dec] its decider.
   * [state]  : a solver state (constraint, tree) — Python: solver.SolutionState(constraint, tree).
   * [sol_check] : what the harness evaluates INSIDE COQ on every tree returned by
                ISLaSolver.solve(): shape, grammar validity, closedness, root label, and satb of the
                ORIGINAL constraint under the specification semantics of Logic/Semantics.v.
                Sound.v proves that sol_check = 0 implies the C01 statement for that tree. *)
From ISLA Require Export Semantics Eval Grammar.
From Coq Require Import ZArith.

Inductive satom :=
| SBool (b : bool)
| SStr (neg : bool) (x y : sterm)          (* (= x y) / (not (= x y)) *)
| SLen (op : cmp) (x : sterm) (n : Z)      (* (op (str.len x) n) *)
| SToInt (op : cmp) (x : sterm) (n : Z)    (* (op (str.to.int x) n) *)
| SToInt2 (op : cmp) (x y : sterm).        (* (op (str.to.int x) (str.to.int y)) *)

(* SMT-LIB str.to_int: the value of a non-empty digit string, otherwise -1 *)
Definition str_to_int (s : str) : Z :=
  match parse_dec s with Some k => Z.of_N k | None => (-1)%Z end.

Definition st_den (e : var -> option tree) (x : sterm) (u : str) : Prop :=
  match x with
  | SLit s => u = s
  | SVar v => exists t, e v = Some t /\ u = yield t
  end.

Definition cmp_holds (op : cmp) (x y : Z) : Prop :=
  match op with
  | CEq => x = y | CNe => x <> y | CLt => (x < y)%Z
  | CLe => (x <= y)%Z | CGt => (y < x)%Z | CGe => (y <= x)%Z
  end.

Definition satom_denote (a : satom) (e : var -> option tree) : Prop :=
  match a with
  | SBool b => b = true
  | SStr neg x y => exists u w, st_den e x u /\ st_den e y w /\ (if neg then u <> w else u = w)
  | SLen op x n => exists u, st_den e x u /\ cmp_holds op (Z.of_nat (length u)) n
  | SToInt op x n => exists u, st_den e x u /\ cmp_holds op (str_to_int u) n
  | SToInt2 op x y => exists u w, st_den e x u /\ st_den e y w /\ cmp_holds op (str_to_int u) (str_to_int w)
  end.

Definition st_get (e : var -> option tree) (x : sterm) : option str :=
  match x with
  | SLit s => Some s
  | SVar v => match e v with Some t => Some (yield t) | None => None end
  end.

Definition satom_dec (a : satom) (e : var -> option tree) : bool :=
  match a with
  | SBool b => b
  | SStr neg x y =>
      match st_get e x, st_get e y with
      | Some u, Some w => xorb neg (str_eqb u w)
      | _, _ => false
      end
  | SLen op x n =>
      match st_get e x with Some u => cmp_eval op (Z.of_nat (length u)) n | None => false end
  | SToInt op x n =>
      match st_get e x with Some u => cmp_eval op (str_to_int u) n | None => false end
  | SToInt2 op x y =>
      match st_get e x, st_get e y with
      | Some u, Some w => cmp_eval op (str_to_int u) (str_to_int w)
      | _, _ => false
      end
  end.

(* ---- solver states ---- *)
Definition cform := formula satom.
Definition state := (cform * tree)%type.
Definition s_constraint (s : state) : cform := fst s.
Definition s_tree (s : state) : tree := snd s.

(* the assignment [cst |-> root] of "t |= phi" *)
Definition env0 (cst : var) : env := upd env_empty cst (VPos []).

(* t |= phi, executable (formulas without numeric quantifiers: bound 0) *)
Definition sat_b (cst : var) (f : cform) (t : tree) : bool :=
  satb t satom_dec 0 (env0 cst) f.

(* acceptance check of one returned tree; 0 = accepted, otherwise a bit mask of what failed:
   1 shape (open node with children)   2 not a derivation tree of g   4 open leaf
   8 root label <> start               16 constraint not satisfied (specification semantics)
   32 constraint outside the decided fragment (numeric quantifier) *)
Definition sol_check (g : grammar) (start : str) (cst : var) (f : cform) (t : tree) : N :=
  ((if shape_ok t then 0 else 1) +
   (if wf_treeb g t then 0 else 2) +
   (if closedb t then 0 else 4) +
   (if str_eqb (lbl t) start then 0 else 8) +
   (if sat_b cst f t then 0 else 16) +
   (if no_numq f then 0 else 32))%N.

Definition sol_ok (g : grammar) (start : str) (cst : var) (f : cform) (t : tree) : bool :=
  N.eqb (sol_check g start cst f t) 0.
