(* C01 — proof extension 4: TRACE CONFORMANCE.  Executable check of one recorded edge
   (parent state -> child state) of ISLaSolver's debug state tree (solver.state_tree, filled when
   ISLaSolver(..., debug=True): state_is_valid_or_enqueue appends every enqueued successor to
   state_tree[current_state]) against the TREE PART of the abstract rule system (Rules.v,
   RulesMore.v, RulesMore3.v), and its soundness with respect to the invariant machinery
   (refines / refines_wf / inv / insert_step).

   One Python edge is a macro step: instantiate_structural_predicates, ONE elimination function,
   then process_new_state (establish_invariant, removal of universal quantifiers).  Its tree part
   is one of
     kind 1  tree unchanged            (split / nnf / matching / evaluation / quantifier removal)
     kind 2  completion, ids kept      (expand_tree, finish_unconstrained_trees, SMT and count
                                        answers substituted for OPEN leaves): Rules.compl
     kind 3  completion up to node ids (SMT answer substituted for a PARTIALLY EXPANDED tree:
                                        the parser rebuilds the inner nodes with fresh ids; the
                                        shape above open leaves is kept): compl_ni
     kind 4  tree insertion            (eliminate_existential_formula: the subtree at some
                                        position is replaced by a grammar-valid tree with the same
                                        root label; every node (id, label) of the old tree is still
                                        there: C13 inserted_lossy): insert_shape
     kind 5  subtree replaced in place (the subtree at the hint position is replaced by a
                                        grammar-valid tree with the same root label and NODES ARE LOST:
                                        neither completion nor insertion).  Observed on /repo: after a
                                        CONTEXT_ADDITION insertion (C13 class K_ctx: the result contains the
                                        inserted tree only "lossy") the constraint still refers to the OPEN
                                        leaf of the inserted pattern although the node with that id is
                                        already expanded in the state tree; SMT elimination then
                                        substitutes its answer BY ID for the expanded node.  Outside the
                                        completion guards of r_smt; what is proved for such an edge is the
                                        tree part of inv (grammar-valid, same root label) and insert_shape
                                        at every prefix of the hint.  With hint [] this kind only says
                                        "grammar-valid tree with the same root label".
     kind 0  none of these (invalid tree or changed root label) = NON-CONFORMING edge.
   The constraint part of an edge is not looked at; it is the explicit premise
   [constraint_part] of compl_edge_refines resp. the clause-level premises of insert_edge_step.

   Definitions first, proofs below (this file is not a model of Python code: the only "model" is
   the acceptance procedure edge_kind, which is verified here). *)
From ISLA Require Export SolveSoundMore3.
From ISLA Require Insert InsertFacts InsertCtxMore.
From Coq Require Import List NArith Bool Arith Lia.
Import ListNotations.

(* ------------------------------------------------------------------ *)
(* definitions                                                         *)
(* ------------------------------------------------------------------ *)
Definition complb_kids (f : tree -> tree -> bool) : list tree -> list tree -> bool :=
  fix go (ks ks' : list tree) {struct ks} : bool :=
    match ks, ks' with
    | [], [] => true
    | k :: r, k' :: r' => f k k' && go r r'
    | _, _ => false
    end.

(* decider of Rules.compl *)
Fixpoint complb (t t' : tree) {struct t} : bool :=
  match t with
  | Node l i o ks =>
      if o then (match ks with [] => true | _ => false end) && str_eqb (lbl t') l
      else str_eqb (lbl t') l && N.eqb (tid t') i && negb (opn t') &&
           (fix go (ks ks' : list tree) {struct ks} : bool :=
              match ks, ks' with
              | [], [] => true
              | k :: r, k' :: r' => complb k k' && go r r'
              | _, _ => false
              end) ks (kids t')
  end.

(* node ids forgotten *)
Fixpoint zid (t : tree) : tree :=
  match t with Node l _ o ks => Node l 0%N o (map zid ks) end.

(* completion up to node ids *)
Definition compl_ni (t t' : tree) : Prop := compl (zid t) (zid t').
Definition complb_ni (t t' : tree) : bool := complb (zid t) (zid t').

(* the tree guards of rule r_insert (RulesMore.v) at position p *)
Definition insert_shape (g : grammar) (t : tree) (p : path) (t1 : tree) : Prop :=
  exists host res, subtree t p = Some host /\ wf_tree g res /\ lbl res = lbl host /\
                   Insert.replace_at t p res = Some t1.

(* t1 is t with the subtree at p replaced by the subtree of t1 at p, root label kept *)
Definition insert_atb (t : tree) (p : path) (t1 : tree) : bool :=
  match subtree t p, subtree t1 p with
  | Some h, Some r =>
      str_eqb (lbl r) (lbl h) &&
      match Insert.replace_at t p r with
      | Some x => Insert.tree_eqb x t1
      | None => false
      end
  | _, _ => false
  end.

(* the edge check: p is the hint for kind 4 (the path down to which t and t1 agree outside one
   child; computed by the harness, irrelevant for kinds 1-3) *)
Definition edge_kind (g : grammar) (t : tree) (p : path) (t1 : tree) : N :=
  if negb (wf_treeb g t1 && str_eqb (lbl t1) (lbl t)) then 0
  else if complb t t1 then (if Insert.tree_eqb t t1 then 1 else 2)
  else if complb_ni t t1 then 3
  else if insert_atb t p t1 then (if Insert.keeps_nodes t t1 then 4 else 5)
  else 0.

Definition edge_okb (g : grammar) (t : tree) (p : path) (t1 : tree) : bool :=
  negb (N.eqb (edge_kind g t p t1) 0).

(* what a conforming edge means for the trees *)
Definition edge_spec (g : grammar) (t : tree) (p : path) (t1 : tree) : Prop :=
  lbl t1 = lbl t /\ wf_tree g t1 /\
  (compl t t1 \/ compl_ni t t1 \/ (forall p', prefix p' p -> insert_shape g t p' t1)).

(* one recorded edge as a step relation; the part of a refinement step the trace check does
   not look at *)
Definition edge_rel (s0 s1 : cstate) : cstate -> cstate -> Prop := fun s s' => s = s0 /\ s' = s1.

Definition constraint_part (g : grammar) (cs : list clause) (t1 : tree) (cs' : list clause) : Prop :=
  forall t', compl t1 t' -> is_openT t' = false -> wf_tree g t' -> holds t' cs' -> holds t' cs.

(* tree part of Sol, exactly and up to node ids *)
Definition SolT (g : grammar) (t t' : tree) : Prop :=
  compl t t' /\ is_openT t' = false /\ wf_tree g t'.
Definition SolT_ni (g : grammar) (t t' : tree) : Prop :=
  compl_ni t t' /\ is_openT t' = false /\ wf_tree g t'.

(* the recorded state tree: trees reachable from t0 along checked edges *)
Inductive reach_tree (E : list (tree * path * tree)) (t0 : tree) : tree -> Prop :=
| rt_refl : reach_tree E t0 t0
| rt_step t p t1 : reach_tree E t0 t -> In (t, p, t1) E -> reach_tree E t0 t1.

(* ------------------------------------------------------------------ *)
(* complb decides compl                                                *)
(* ------------------------------------------------------------------ *)
Lemma complb_unfold l i o ks t' :
  complb (Node l i o ks) t' =
  (if o then (match ks with [] => true | _ => false end) && str_eqb (lbl t') l
   else str_eqb (lbl t') l && N.eqb (tid t') i && negb (opn t') && complb_kids complb ks (kids t')).
Proof. reflexivity. Qed.

Lemma complb_kids_spec ks :
  Forall (fun k => forall k', complb k k' = true <-> compl k k') ks ->
  forall ks', complb_kids complb ks ks' = true <-> compl_kids ks ks'.
Proof.
  induction ks as [|k r IHr]; intros HF [|k' r']; simpl; try tauto.
  - split; [discriminate | contradiction].
  - split; [discriminate | contradiction].
  - inversion HF as [|x y Hx Hy]; subst. rewrite andb_true_iff, (Hx k'), (IHr Hy r'). tauto.
Qed.

Theorem complb_spec t : forall t', complb t t' = true <-> compl t t'.
Proof.
  induction t as [l i o ks IH] using tree_ind'. intro t'.
  rewrite complb_unfold, compl_unfold. destruct o.
  - rewrite andb_true_iff, str_eqb_eq. destruct ks as [|k r].
    + split; intros [_ H]; split; auto.
    + split; intros [H _]; discriminate.
  - rewrite !andb_true_iff, str_eqb_eq, N.eqb_eq, negb_true_iff, (complb_kids_spec ks IH). tauto.
Qed.

(* ------------------------------------------------------------------ *)
(* forgetting ids                                                      *)
(* ------------------------------------------------------------------ *)
Lemma zid_lbl t : lbl (zid t) = lbl t.
Proof. destruct t; reflexivity. Qed.
Lemma zid_opn t : opn (zid t) = opn t.
Proof. destruct t; reflexivity. Qed.
Lemma zid_kids t : kids (zid t) = map zid (kids t).
Proof. destruct t; reflexivity. Qed.

Lemma compl_zid t : forall t', compl t t' -> compl (zid t) (zid t').
Proof.
  induction t as [l i o ks IH] using tree_ind'. intros t' H.
  simpl zid. rewrite compl_unfold in *. destruct o.
  - destruct H as [Hk Hl]. subst ks. simpl. rewrite zid_lbl. auto.
  - destruct H as (Hl & Hi & Ho & Hks). rewrite zid_lbl, zid_opn, zid_kids.
    repeat split; try assumption.
    + destruct t'; reflexivity.
    + apply compl_kids_F2. apply compl_kids_F2 in Hks.
      revert Hks. generalize (kids t'). intros l2 HF2.
      induction HF2 as [|k k' r r' Hk Hr IHr]; simpl; constructor.
      * inversion IH as [|x y Hx Hy]; subst. apply Hx. assumption.
      * inversion IH as [|x y Hx Hy]; subst. apply IHr. assumption.
Qed.

Lemma compl_ni_of_compl t t' : compl t t' -> compl_ni t t'.
Proof. apply compl_zid. Qed.

Lemma compl_ni_trans t t' t'' : compl_ni t t' -> compl_ni t' t'' -> compl_ni t t''.
Proof. unfold compl_ni. apply compl_trans. Qed.

Lemma compl_ni_lbl t t' : compl_ni t t' -> lbl t' = lbl t.
Proof. intro H. apply compl_lbl in H. rewrite !zid_lbl in H. assumption. Qed.

Lemma complb_ni_spec t t' : complb_ni t t' = true <-> compl_ni t t'.
Proof. apply complb_spec. Qed.

(* ------------------------------------------------------------------ *)
(* insertion shape                                                     *)
(* ------------------------------------------------------------------ *)
Lemma replace_at_prefix p : forall q t r t1 h,
  Insert.replace_at t (p ++ q) r = Some t1 -> subtree t (p ++ q) = Some h -> lbl r = lbl h ->
  exists host res, subtree t p = Some host /\ subtree t1 p = Some res /\ lbl res = lbl host /\
                   Insert.replace_at t p res = Some t1.
Proof.
  induction p as [|i p IHp]; intros q t r t1 h Hrep Hsub Hl.
  - exists t, t1. simpl. repeat split.
    eapply InsertFacts.replace_at_root; eassumption.
  - simpl in Hrep, Hsub. destruct (nth_error (kids t) i) as [c|] eqn:Hc; [|discriminate].
    destruct (Insert.replace_at c (p ++ q) r) as [c'|] eqn:Hr; [|discriminate].
    inversion Hrep; subst t1. clear Hrep.
    destruct (IHp q c r c' h Hr Hsub Hl) as (host & res & H1 & H2 & H3 & H4).
    exists host, res. simpl. rewrite Hc, H4.
    rewrite (InsertFacts.nth_error_set_nth_eq _ _ _ _ Hc). auto.
Qed.

Lemma insert_atb_shape g t p t1 : wf_tree g t1 -> insert_atb t p t1 = true ->
  forall p', prefix p' p -> insert_shape g t p' t1.
Proof.
  intros Hw H p' [q ->]. unfold insert_atb in H.
  destruct (subtree t (p' ++ q)) as [h|] eqn:Hh; [|discriminate].
  destruct (subtree t1 (p' ++ q)) as [r|] eqn:Hr; [|discriminate].
  apply andb_true_iff in H as [Hl H]. apply str_eqb_eq in Hl.
  destruct (Insert.replace_at t (p' ++ q) r) as [x|] eqn:Hx; [|discriminate].
  apply InsertFacts.tree_eqb_eq in H. subst x.
  destruct (replace_at_prefix p' q t r t1 h Hx Hh Hl) as (host & res & H1 & H2 & H3 & H4).
  exists host, res. repeat split; try assumption.
  eapply InsertFacts.wf_subtree; eassumption.
Qed.

(* ------------------------------------------------------------------ *)
(* soundness of the edge check                                         *)
(* ------------------------------------------------------------------ *)
Lemma edge_kind_cases g t p t1 :
  edge_kind g t p t1 <> 0%N ->
  wf_treeb g t1 = true /\ str_eqb (lbl t1) (lbl t) = true /\
  ((edge_kind g t p t1 = 1%N /\ complb t t1 = true /\ Insert.tree_eqb t t1 = true) \/
   (edge_kind g t p t1 = 2%N /\ complb t t1 = true) \/
   (edge_kind g t p t1 = 3%N /\ complb_ni t t1 = true) \/
   (edge_kind g t p t1 = 4%N /\ Insert.keeps_nodes t t1 = true /\ insert_atb t p t1 = true) \/
   (edge_kind g t p t1 = 5%N /\ insert_atb t p t1 = true)).
Proof.
  unfold edge_kind.
  destruct (wf_treeb g t1 && str_eqb (lbl t1) (lbl t)) eqn:Ha; simpl; [|intro H; congruence].
  apply andb_true_iff in Ha as [Hw Hl]. intro H. split; [assumption|]. split; [assumption|].
  destruct (complb t t1) eqn:Hc.
  - destruct (Insert.tree_eqb t t1) eqn:He; [left | right; left]; auto.
  - destruct (complb_ni t t1) eqn:Hn; [right; right; left; auto|].
    destruct (insert_atb t p t1) eqn:Hi; [|congruence].
    destruct (Insert.keeps_nodes t t1) eqn:Hk; right; right; right; [left|right]; auto.
Qed.

Lemma keeps_nodes_lossy g t t1 : wf_tree g t1 -> lbl t1 = lbl t -> Insert.keeps_nodes t t1 = true ->
  InsertCtxMore.inserted_lossy g t t t1.
Proof.
  intros Hw Hl Hk. destruct (InsertFacts.keeps_nodes_spec t t1) as [Hk' _]. specialize (Hk' Hk).
  unfold InsertCtxMore.inserted_lossy. split; [assumption|]. split; [assumption|].
  split; [assumption|]. apply (Hk' [] t). reflexivity.
Qed.

Theorem edge_okb_sound g t p t1 : edge_okb g t p t1 = true -> edge_spec g t p t1.
Proof.
  unfold edge_okb. rewrite negb_true_iff, N.eqb_neq. intro H.
  destruct (edge_kind_cases g t p t1 H) as (Hw & Hl & Hk).
  apply wf_treeb_spec in Hw. apply str_eqb_eq in Hl.
  split; [assumption|]. split; [assumption|].
  destruct Hk as [(_ & Hc & _) | [(_ & Hc) | [(_ & Hc) | [(_ & Hc & Hi) | (_ & Hi)]]]].
  - left. apply complb_spec. assumption.
  - left. apply complb_spec. assumption.
  - right; left. apply complb_ni_spec. assumption.
  - right; right. apply insert_atb_shape; assumption.
  - right; right. apply insert_atb_shape; assumption.
Qed.

(* the kinds separately *)
Theorem edge_kind1_equal g t p t1 : edge_kind g t p t1 = 1%N -> t1 = t.
Proof.
  intro H. assert (Hn : edge_kind g t p t1 <> 0%N) by (rewrite H; discriminate).
  destruct (edge_kind_cases g t p t1 Hn) as (_ & _ & [(_ & _ & He) | [(E & _) | [(E & _) | [(E & _) | (E & _)]]]]);
    try (rewrite H in E; discriminate).
  apply InsertFacts.tree_eqb_eq in He. auto.
Qed.

Theorem edge_kind12_compl g t p t1 :
  edge_kind g t p t1 = 1%N \/ edge_kind g t p t1 = 2%N -> wf_tree g t1 /\ compl t t1.
Proof.
  intro H. assert (Hn : edge_kind g t p t1 <> 0%N) by (destruct H as [H|H]; rewrite H; discriminate).
  destruct (edge_kind_cases g t p t1 Hn) as (Hw & _ & [(_ & Hc & _) | [(_ & Hc) | [(E & _) | [(E & _) | (E & _)]]]]);
    try (destruct H as [H|H]; rewrite H in E; discriminate);
    (split; [apply wf_treeb_spec | apply complb_spec]; assumption).
Qed.

Theorem edge_kind3_compl_ni g t p t1 : edge_kind g t p t1 = 3%N -> wf_tree g t1 /\ compl_ni t t1.
Proof.
  intro H. assert (Hn : edge_kind g t p t1 <> 0%N) by (rewrite H; discriminate).
  destruct (edge_kind_cases g t p t1 Hn) as (Hw & _ & [(E & _) | [(E & _) | [(_ & Hc) | [(E & _) | (E & _)]]]]);
    try (rewrite H in E; discriminate).
  split; [apply wf_treeb_spec | apply complb_ni_spec]; assumption.
Qed.

Theorem edge_kind4_insert g t p t1 : edge_kind g t p t1 = 4%N ->
  InsertCtxMore.inserted_lossy g t t t1 /\ forall p', prefix p' p -> insert_shape g t p' t1.
Proof.
  intro H. assert (Hn : edge_kind g t p t1 <> 0%N) by (rewrite H; discriminate).
  destruct (edge_kind_cases g t p t1 Hn) as (Hw & Hl & [(E & _) | [(E & _) | [(E & _) | [(_ & Hk & Hi) | (E & _)]]]]);
    try (rewrite H in E; discriminate).
  apply wf_treeb_spec in Hw. apply str_eqb_eq in Hl. split.
  - apply keeps_nodes_lossy; assumption.
  - apply insert_atb_shape; assumption.
Qed.

(* kind 5: a subtree is replaced in place (nodes may be lost): the tree guards of r_insert hold at
   every prefix of the hint, nothing more *)
Theorem edge_kind5_replace g t p t1 : edge_kind g t p t1 = 5%N ->
  lbl t1 = lbl t /\ wf_tree g t1 /\ forall p', prefix p' p -> insert_shape g t p' t1.
Proof.
  intro H. assert (Hn : edge_kind g t p t1 <> 0%N) by (rewrite H; discriminate).
  destruct (edge_kind_cases g t p t1 Hn) as (Hw & Hl & [(E & _) | [(E & _) | [(E & _) | [(E & _) | (_ & Hi)]]]]);
    try (rewrite H in E; discriminate).
  apply wf_treeb_spec in Hw. apply str_eqb_eq in Hl. split; [auto|]. split; [assumption|].
  apply insert_atb_shape; assumption.
Qed.

(* ------------------------------------------------------------------ *)
(* link to the invariant machinery                                     *)
(* ------------------------------------------------------------------ *)
(* a completion edge is a refinement step as soon as its constraint part is one; with the same
   constraint it is rule r_expand *)
Theorem compl_edge_refines g cs t cs' t1 :
  compl t t1 -> wf_tree g t1 -> constraint_part g cs t1 cs' ->
  refines g (edge_rel (cs, t) (cs', t1)).
Proof.
  intros Hc Hw Hcp s s' [-> ->]. simpl. split; [apply compl_lbl; assumption|].
  split; [intros _; assumption|].
  intros t' (Hc' & Ho & Hwt & Hh). simpl in *. unfold Sol. simpl. repeat split; try assumption.
  - eapply compl_trans; eassumption.
  - apply Hcp; assumption.
Qed.

Theorem compl_edge_refines_wf g cs t cs' t1 :
  compl t t1 -> wf_tree g t1 -> constraint_part g cs t1 cs' ->
  refines_wf g (edge_rel (cs, t) (cs', t1)).
Proof.
  intros Hc Hw Hcp s s' Hr _.
  destruct (compl_edge_refines g cs t cs' t1 Hc Hw Hcp s s' Hr) as (H1 & H2 & H3).
  destruct Hr as [-> ->]. simpl in *. auto.
Qed.

Theorem compl_edge_expand g cs t t1 : compl t t1 -> wf_tree g t1 -> core_step g (cs, t) (cs, t1).
Proof. intros Hc Hw. apply r_expand; assumption. Qed.

(* tree part alone: solutions of the child state are completions of the parent tree *)
Theorem compl_edge_SolT g t t1 t' : compl t t1 -> SolT g t1 t' -> SolT g t t'.
Proof. intros Hc (H1 & H2 & H3). repeat split; try assumption. eapply compl_trans; eassumption. Qed.

Theorem Sol_SolT g cs t t' : Sol g (cs, t) t' -> SolT g t t'.
Proof. intros (H1 & H2 & H3 & _). repeat split; assumption. Qed.

Theorem SolT_SolT_ni g t t' : SolT g t t' -> SolT_ni g t t'.
Proof. intros (H1 & H2 & H3). repeat split; try assumption. apply compl_ni_of_compl. assumption. Qed.

Theorem compl_ni_edge_SolT g t t1 t' : compl_ni t t1 -> SolT_ni g t1 t' -> SolT_ni g t t'.
Proof. intros Hc (H1 & H2 & H3). repeat split; try assumption. eapply compl_ni_trans; eassumption. Qed.

(* an insertion edge is an instance of rule r_insert for every quantifier whose in-variable sits
   at a prefix of the hint, as soon as the new constraint contains the original formula *)
Theorem insert_edge_step g cst phi cs1 cs2 b v w m body t p t1 cs' :
  insert_shape g t p t1 -> b w = Some (VPos p) -> In (env0 cst, phi) cs' ->
  insert_step g cst phi (cs1 ++ (b, FExists v (InVar w) m body) :: cs2, t) (cs', t1).
Proof.
  intros (host & res & H1 & H2 & H3 & H4) Hb Hin. eapply r_insert; eassumption.
Qed.

Theorem insert_edge_inv g start i0 cst phi cs1 cs2 b v w m body t p t1 cs' :
  insert_shape g t p t1 -> b w = Some (VPos p) -> In (env0 cst, phi) cs' ->
  inv g start i0 cst phi (cs1 ++ (b, FExists v (InVar w) m body) :: cs2, t) ->
  inv g start i0 cst phi (cs', t1).
Proof.
  intros Hs Hb Hin Hinv. eapply insert_preserves; [|eassumption].
  eapply insert_edge_step; eassumption.
Qed.

(* the first two conjuncts of inv along the recorded state tree *)
Lemma edge_spec_tree_inv g t p t1 start :
  edge_spec g t p t1 -> lbl t = start -> wf_tree g t1 /\ lbl t1 = start.
Proof. intros (Hl & Hw & _) Hs. split; [assumption | congruence]. Qed.

Theorem trace_tree_inv g start E t0 t :
  (forall e, In e E -> edge_okb g (fst (fst e)) (snd (fst e)) (snd e) = true) ->
  wf_tree g t0 -> lbl t0 = start -> reach_tree E t0 t -> wf_tree g t /\ lbl t = start.
Proof.
  intros HE Hw Hl Hr. induction Hr as [|t p t1 Hr IH Hin]; [auto|].
  destruct IH as [_ Hlt]. specialize (HE _ Hin). simpl in HE.
  apply edge_okb_sound in HE. eapply edge_spec_tree_inv; eassumption.
Qed.

(* a chain of completion edges (kinds 1-3): the last tree completes the first one up to ids, so
   the tree part of every solution of the last state is a completion (up to ids) of the first *)
Theorem trace_compl_chain g E t0 t :
  (forall e, In e E -> let k := edge_kind g (fst (fst e)) (snd (fst e)) (snd e) in
                       k = 1%N \/ k = 2%N \/ k = 3%N) ->
  reach_tree E t0 t -> t = t0 \/ (wf_tree g t /\ compl_ni t0 t).
Proof.
  intros HE Hr. induction Hr as [|t p t1 Hr IH Hin]; [left; reflexivity|]. right.
  specialize (HE _ Hin). simpl in HE.
  assert (H1 : wf_tree g t1 /\ compl_ni t t1).
  { destruct HE as [H|[H|H]].
    - destruct (edge_kind12_compl g t p t1 (or_introl H)) as [Hw Hc]. split; [assumption|].
      apply compl_ni_of_compl. assumption.
    - destruct (edge_kind12_compl g t p t1 (or_intror H)) as [Hw Hc]. split; [assumption|].
      apply compl_ni_of_compl. assumption.
    - apply (edge_kind3_compl_ni g t p t1). assumption. }
  destruct H1 as [Hw Hc]. split; [assumption|].
  destruct IH as [->|[_ IH]]; [assumption|]. eapply compl_ni_trans; eassumption.
Qed.

(* the same chain with kinds 1-2 only: exact completion *)
Theorem trace_compl_chain_ids g E t0 t :
  (forall e, In e E -> let k := edge_kind g (fst (fst e)) (snd (fst e)) (snd e) in
                       k = 1%N \/ k = 2%N) ->
  reach_tree E t0 t -> t = t0 \/ (wf_tree g t /\ compl t0 t).
Proof.
  intros HE Hr. induction Hr as [|t p t1 Hr IH Hin]; [left; reflexivity|]. right.
  specialize (HE _ Hin). simpl in HE.
  destruct (edge_kind12_compl g t p t1 HE) as [Hw Hc]. split; [assumption|].
  destruct IH as [->|[_ IH]]; [assumption|]. eapply compl_trans; eassumption.
Qed.

(* ------------------------------------------------------------------ *)
(* a whole recorded trace: checked tree parts + stated constraint parts *)
(* ------------------------------------------------------------------ *)
(* one step of a recorded trace whose TREE part passed the check; the constraint part is the
   stated premise (completion edge: the new conjuncts imply the old ones on every closed
   grammar-valid completion; insertion edge: an existential conjunct whose in-variable sits at a
   prefix of the hint is being eliminated and the original formula is re-conjoined) *)
Inductive checked_step (g : grammar) (cst : var) (phi : cform) : cstate -> cstate -> Prop :=
| cs_compl cs t cs' t1 p :
    edge_kind g t p t1 = 1%N \/ edge_kind g t p t1 = 2%N ->
    constraint_part g cs t1 cs' ->
    checked_step g cst phi (cs, t) (cs', t1)
| cs_insert cs1 cs2 b v w m body t p p' t1 cs' :
    edge_kind g t p t1 = 4%N -> prefix p' p -> b w = Some (VPos p') -> In (env0 cst, phi) cs' ->
    checked_step g cst phi (cs1 ++ (b, FExists v (InVar w) m body) :: cs2, t) (cs', t1).

Inductive checked_trace (g : grammar) (cst : var) (phi : cform) (s0 : cstate) : cstate -> Prop :=
| ct_refl : checked_trace g cst phi s0 s0
| ct_step s s' : checked_trace g cst phi s0 s -> checked_step g cst phi s s' ->
    checked_trace g cst phi s0 s'.

Theorem checked_step_preserves g start i0 cst phi :
  preserves (inv g start i0 cst phi) (checked_step g cst phi).
Proof.
  intros s s' H Hinv.
  destruct H as [cs t cs' t1 p Hk Hcp | cs1 cs2 b v w m body t p p' t1 cs' Hk Hp Hb Hin].
  - destruct (edge_kind12_compl g t p t1 Hk) as [Hw Hc].
    apply (refines_preserves g start i0 cst phi _ (compl_edge_refines g cs t cs' t1 Hc Hw Hcp)
             (cs, t) (cs', t1)); [split; reflexivity | assumption].
  - destruct (edge_kind4_insert g t p t1 Hk) as [_ Hs].
    eapply insert_edge_inv; [apply Hs; eassumption | eassumption | eassumption | eassumption].
Qed.

Lemma checked_trace_inv g start i0 cst phi s0 s :
  checked_trace g cst phi s0 s -> inv g start i0 cst phi s0 -> inv g start i0 cst phi s.
Proof.
  induction 1 as [|s s' Hr IH Hst]; intro H0; [assumption|].
  eapply checked_step_preserves; [eassumption | apply IH; assumption].
Qed.

(* the last state of a checked trace that is final (constraint true, tree closed) carries a
   valid solution of the ORIGINAL problem *)
Theorem trace_sound_given_constraints g start i0 cst phi s :
  is_nt start = true -> defined g start = true ->
  checked_trace g cst phi (init_state start i0 cst phi) s -> final s ->
  valid_solution g start cst phi (snd s).
Proof.
  intros Hnt Hdef Hr [Hcs Hcl].
  destruct (checked_trace_inv g start i0 cst phi _ _ Hr (inv_init g start i0 cst phi Hnt Hdef))
    as (Hwf & Hl & Hs).
  assert (Hsol : Sol g s (snd s)).
  { unfold Sol. repeat split; try assumption.
    - apply compl_refl_closed. assumption.
    - rewrite Hcs. intros b f []. }
  apply Hs in Hsol. destruct Hsol as (_ & _ & _ & Hh). simpl in Hh.
  unfold valid_solution. repeat split; try assumption.
  - rewrite <- Hl. apply wf_closed_yield; assumption.
  - unfold sat. apply (Hh (env0 cst) phi). left. reflexivity.
Qed.

(* restatements used by Props/C01.v *)
Lemma reach_tree_def (E : list (tree * path * tree)) t0 t :
  reach_tree E t0 t <-> (t = t0 \/ exists t' p, reach_tree E t0 t' /\ In (t', p, t) E).
Proof.
  split.
  - intro H. destruct H as [|t' p t1 Hr Hin]; [left; reflexivity|]. right. exists t', p. auto.
  - intros [->|(t' & p & Hr & Hin)]; [apply rt_refl|]. eapply rt_step; eassumption.
Qed.

Lemma checked_step_def g cst phi s s' :
  checked_step g cst phi s s' <->
  ((exists p, (edge_kind g (snd s) p (snd s') = 1%N \/ edge_kind g (snd s) p (snd s') = 2%N) /\
              constraint_part g (fst s) (snd s') (fst s')) \/
   (exists cs1 cs2 b v w m body p p',
      fst s = cs1 ++ (b, FExists v (InVar w) m body) :: cs2 /\
      edge_kind g (snd s) p (snd s') = 4%N /\ prefix p' p /\ b w = Some (VPos p') /\
      In (env0 cst, phi) (fst s'))).
Proof.
  split.
  - intro H. destruct H as [cs t cs' t1 p Hk Hcp | cs1 cs2 b v w m body t p p' t1 cs' Hk Hp Hb Hin]; simpl.
    + left. exists p. auto.
    + right. exists cs1, cs2, b, v, w, m, body, p, p'. auto.
  - destruct s as [cs t], s' as [cs' t1]. simpl.
    intros [(p & Hk & Hcp) | (cs1 & cs2 & b & v & w & m & body & p & p' & -> & Hk & Hp & Hb & Hin)].
    + eapply cs_compl; eassumption.
    + eapply cs_insert; eassumption.
Qed.

Lemma compl_edge_refines_both g cs t cs' t1 :
  compl t t1 -> wf_tree g t1 ->
  (forall t', compl t1 t' -> is_openT t' = false -> wf_tree g t' -> holds t' cs' -> holds t' cs) ->
  refines g (fun s s' => s = (cs, t) /\ s' = (cs', t1)) /\
  refines_wf g (fun s s' => s = (cs, t) /\ s' = (cs', t1)).
Proof.
  intros Hc Hw Hcp. split.
  - apply compl_edge_refines; assumption.
  - apply compl_edge_refines_wf; assumption.
Qed.

Lemma compl_edge_solutions g cs' t t1 t' :
  compl t t1 -> Sol g (cs', t1) t' -> compl t t' /\ is_openT t' = false /\ wf_tree g t'.
Proof. intros Hc Hs. eapply compl_edge_SolT; [eassumption|]. eapply Sol_SolT. eassumption. Qed.

Lemma compl_ni_edge_solutions g cs' t t1 t' :
  compl_ni t t1 -> Sol g (cs', t1) t' -> compl_ni t t' /\ is_openT t' = false /\ wf_tree g t'.
Proof.
  intros Hc Hs. eapply compl_ni_edge_SolT; [eassumption|]. apply SolT_SolT_ni. eapply Sol_SolT. eassumption.
Qed.

(* ------------------------------------------------------------------ *)
(* non-vacuity: one edge of every kind and a rejected edge              *)
(* ------------------------------------------------------------------ *)
Definition tc_g : grammar :=
  [([60;115;62], [[[60;97;62]]; [[60;97;62]; [60;115;62]]]); ([60;97;62], [[[97]]])]%N.
Definition tc_s : str := [60;115;62]%N.     (* <s> *)
Definition tc_a : str := [60;97;62]%N.      (* <a> *)
Definition tc_la : tree := Node [97%N] 9 false [].
Definition tc_t0 : tree := Node tc_s 1 true [].
Definition tc_t1 : tree := Node tc_s 1 false [Node tc_a 2 true []].
Definition tc_t2 : tree := Node tc_s 1 false [Node tc_a 2 false [tc_la]].
Definition tc_t2' : tree := Node tc_s 7 false [Node tc_a 8 false [tc_la]].
(* self embedding of an open <a> in front of the host *)
Definition tc_t3 : tree := Node tc_s 5 false [Node tc_a 6 true []; tc_t2].

(* the nested <s> of tc_t3 replaced by a fresh open <s>: nodes 1, 2, 9 are lost *)
Definition tc_t3' : tree := Node tc_s 5 false [Node tc_a 6 true []; Node tc_s 11 true []].

Example edge_kinds_ex :
  edge_kind tc_g tc_t1 [] tc_t1 = 1%N /\ edge_kind tc_g tc_t0 [] tc_t1 = 2%N /\
  edge_kind tc_g tc_t1 [] tc_t2 = 2%N /\ edge_kind tc_g tc_t1 [] tc_t2' = 3%N /\
  edge_kind tc_g tc_t2 [] tc_t3 = 4%N /\ edge_kind tc_g tc_t3 [1] tc_t3' = 5%N /\
  edge_kind tc_g tc_t3 [] tc_t0 = 5%N /\ edge_kind tc_g tc_t1 [] (Node tc_s 1 false [tc_la]) = 0%N /\ edge_kind tc_g tc_t2 [] (Node tc_a 2 false [tc_la]) = 0%N.
Proof. vm_compute. repeat split. Qed.

Example trace_tree_inv_ex :
  wf_tree tc_g tc_t3 /\ lbl tc_t3 = tc_s.
Proof.
  apply (trace_tree_inv tc_g tc_s [(tc_t0, [], tc_t1); (tc_t1, [], tc_t2); (tc_t2, [], tc_t3)] tc_t0).
  - intros e [<-|[<-|[<-|[]]]]; vm_compute; reflexivity.
  - apply wf_treeb_spec. vm_compute. reflexivity.
  - reflexivity.
  - apply (rt_step _ _ tc_t2 [] tc_t3); [|simpl; auto].
    apply (rt_step _ _ tc_t1 [] tc_t2); [|simpl; auto].
    apply (rt_step _ _ tc_t0 [] tc_t1); [|simpl; auto]. apply rt_refl.
Qed.

(* a two-edge trace init -> (expand) -> (expand, constraint `and []` discharged) reaching a final state *)
Definition tc_cst : var := MkVar VConst [115%N] tc_s.
Example trace_sound_ex :
  checked_trace tc_g tc_cst (FAnd []) (init_state tc_s 1 tc_cst (FAnd [])) ([], tc_t2) /\
  final ([], tc_t2) /\ valid_solution tc_g tc_s tc_cst (FAnd []) tc_t2.
Proof.
  assert (Htr : checked_trace tc_g tc_cst (FAnd []) (init_state tc_s 1 tc_cst (FAnd [])) ([], tc_t2)).
  { apply (ct_step _ _ _ _ ([(env0 tc_cst, FAnd [])], tc_t1)).
    - apply (ct_step _ _ _ _ (init_state tc_s 1 tc_cst (FAnd []))); [apply ct_refl|].
      apply (cs_compl _ _ _ _ tc_t0 _ tc_t1 []); [right; vm_compute; reflexivity|].
      intros t' _ _ _ Hh. assumption.
    - apply (cs_compl _ _ _ _ tc_t1 _ tc_t2 []); [right; vm_compute; reflexivity|].
      intros t' _ _ _ _ b f [E|[]]. inversion E; subst. simpl. exact I. }
  assert (Hf : final ([], tc_t2)) by (split; reflexivity).
  split; [assumption|]. split; [assumption|].
  apply (trace_sound_given_constraints tc_g tc_s 1 tc_cst (FAnd []) ([], tc_t2)); try assumption; reflexivity.
Qed.
