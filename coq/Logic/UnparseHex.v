(* C07 — hexadecimal digits: what Z3_get_lstring prints for a code point 1..0x2FFFF (hex_N) is read back
   by zstring's brace escape (read_hex) as the same code point.  The digit facts are CHECKED for every
   code point of the finite range by computation (allb: binary enumeration of 0..2^18-1, allb_spec). *)
From ISLA Require Import Unparse UnparseFacts UnparseMore.
From Coq Require Import Lia ZArith String.
Import ListNotations.
Open Scope N_scope.

(* ---------- hexadecimal digits of Z3_get_lstring, read back by zstring ---------- *)
Definition ishexb (c : chr) : bool := ((48 <=? c) && (c <=? 57)) || ((97 <=? c) && (c <=? 102)).
Definition hv (c : chr) : N := match hexval c with Some d => d | None => 0 end.
Definition hexfold (acc : N) (h : str) : N := fold_left (fun a d => 16 * a + hv d) h acc.

Lemma ishexb_facts c : ishexb c = true ->
  c <> 34 /\ c <> 92 /\ c <> 125 /\ c < 128 /\ hexval c = Some (hv c).
Proof.
  unfold ishexb, hv, hexval. intro H.
  destruct ((48 <=? c) && (c <=? 57)) eqn:E1.
  - apply andb_true_iff in E1 as [A B]. apply N.leb_le in A, B. repeat split; try lia.
  - simpl in H. rewrite H. apply andb_true_iff in H as [A B]. apply N.leb_le in A, B. repeat split; try lia.
Qed.

Lemma read_hex_fold h : forall n acc r,
  forallb ishexb h = true -> (List.length h <= n)%nat ->
  read_hex n acc (h ++ c_rb :: r) =
  if hexfold acc h <=? 196607 then Some (hexfold acc h, r) else None.
Proof.
  induction h as [|a h IH]; intros n acc r Hh Hn.
  - destruct n; reflexivity.
  - simpl in Hh. apply andb_true_iff in Hh as [Ha Hh].
    destruct (ishexb_facts a Ha) as (_ & _ & Hrb & _ & Hv).
    destruct n as [|k]; [simpl in Hn; lia|].
    change (read_hex (S k) acc ((a :: h) ++ c_rb :: r)) with
      (if a =? c_rb then (if acc <=? 196607 then Some (acc, h ++ c_rb :: r) else None)
       else match hexval a with Some d => read_hex k (16 * acc + d) (h ++ c_rb :: r) | None => None end).
    unfold c_rb at 1. replace (a =? 125) with false by (symmetry; apply N.eqb_neq; exact Hrb).
    rewrite Hv. rewrite IH by (try exact Hh; simpl in Hn; lia). reflexivity.
Qed.

Definition hexok (c : N) : bool :=
  let h := hex_N c in
  negb (Nat.eqb (List.length h) 0) && Nat.leb (List.length h) 5 && forallb ishexb h && (hexfold 0 h =? c).
Definition chk (c : N) : bool := (c =? 0) || (196607 <? c) || hexok c.
Fixpoint allb (k : nat) (base : N) : bool :=
  match k with O => chk base | S j => allb j (2 * base) && allb j (2 * base + 1) end.

Lemma allb_spec k : forall base, allb k base = true ->
  forall c, c < 2 ^ N.of_nat k -> chk (base * 2 ^ N.of_nat k + c) = true.
Proof.
  induction k as [|j IH]; intros base H c Hc.
  - change (2 ^ N.of_nat 0) with 1 in *. replace (base * 1 + c) with base by lia. exact H.
  - simpl allb in H. apply andb_true_iff in H as [H0 H1].
    rewrite Nat2N.inj_succ, N.pow_succ_r' in *.
    destruct (N.lt_ge_cases c (2 ^ N.of_nat j)) as [Hlt|Hge].
    + replace (base * (2 * 2 ^ N.of_nat j) + c) with (2 * base * 2 ^ N.of_nat j + c) by lia.
      apply IH; assumption.
    + replace (base * (2 * 2 ^ N.of_nat j) + c)
        with ((2 * base + 1) * 2 ^ N.of_nat j + (c - 2 ^ N.of_nat j)) by lia.
      apply IH; [assumption | lia].
Qed.

Lemma all_checked : allb 18 0 = true.
Proof. vm_compute. reflexivity. Qed.

Lemma hexok_all c : 0 < c -> c <= 196607 -> hexok c = true.
Proof.
  intros H0 H1. pose proof (allb_spec 18 0 all_checked c) as H.
  change (2 ^ N.of_nat 18) with 262144 in H. specialize (H ltac:(lia)).
  change (0 * 262144 + c) with c in H. unfold chk in H.
  replace (c =? 0) with false in H by (symmetry; apply N.eqb_neq; lia).
  replace (196607 <? c) with false in H by (symmetry; apply N.ltb_ge; lia). exact H.
Qed.

Theorem hex_roundtrip c r : 0 < c -> c <= 196607 -> read_hex 5 0 (hex_N c ++ c_rb :: r) = Some (c, r).
Proof.
  intros H0 H1. pose proof (hexok_all c H0 H1) as H. unfold hexok in H. cbv zeta in H.
  apply andb_true_iff in H as [H H4]. apply andb_true_iff in H as [H H3]. apply andb_true_iff in H as [_ H2].
  apply Nat.leb_le in H2. apply N.eqb_eq in H4.
  rewrite read_hex_fold by assumption. rewrite H4.
  replace (c <=? 196607) with true by (symmetry; apply N.leb_le; exact H1). reflexivity.
Qed.
