(* C06 (proof extension) — stability of definite verdicts under completion for formulas WITH tree
   quantifiers (no match expressions, no numeric quantifiers, no semantic predicates; structural
   predicates before/after/inside/same_position/different_position/direct_child/level; SMT atoms).

   Generic part (Section Stable): atoms abstract, the t-side might-match test is the modelled one
   (m3_qmm g t), the t'-side one is arbitrary (t' is closed: it is never consulted).  Statement in
   the information order: a verdict computed on t is BELOW the verdict computed on t'
   (UU below TT/FF), whenever both evaluations return.  The only premise about atoms is `Hatom`:
   the same monotonicity for a single SMT atom under related assignments.
   Concrete part: `Hatom` is PROVED for the atom family atom3 (a definite atom verdict is computed
   from closed assigned trees only, and a closed tree is its only completion), and the statement is
   lifted through evaluate()'s instantiation of the constant. *)
From ISLA Require Import Eval3 EvalFacts GrammarFacts FuzzFacts PathFacts TreeFacts Eval3Facts Eval3Compl.
From Coq Require Import Lia ZArith.

(* ------------------------------------------------------------------ *)
(* the fragment and the relation between the two instantiated formulas *)
(* ------------------------------------------------------------------ *)
Definition okname (n : str) : bool := path_only n || str_eqb n s_level.

(* tree arguments are looked up by id only: the instantiated constant is `t` on one side, `t'` on the other *)
Inductive prel : parg -> parg -> Prop :=
| pr_var : forall v, prel (PVar v) (PVar v)
| pr_str : forall s, prel (PStr s) (PStr s)
| pr_tree : forall s s', tid s' = tid s -> prel (PTree s) (PTree s').

Inductive irel : invar -> invar -> Prop :=
| ir_var : forall v, irel (InVar v) (InVar v)
| ir_tree : forall s s', tid s' = tid s -> irel (InTree s) (InTree s').

Section Frag.
  Variable A : Type.
  Fixpoint qfrag (f : formula A) : bool :=
    match f with
    | FSmt _ => true
    | FSPred n _ => okname n
    | FSemPred _ _ => false
    | FNot h => qfrag h
    | FAnd fs | FOr fs => forallb qfrag fs
    | FForall _ _ m b | FExists _ _ m b => match m with None => qfrag b | Some _ => false end
    | FForallInt _ _ | FExistsInt _ _ => false
    end.

  Variable arel : A -> A -> Prop.
  Inductive frel : formula A -> formula A -> Prop :=
  | fr_smt : forall x x', arel x x' -> frel (FSmt x) (FSmt x')
  | fr_spred : forall n args args', okname n = true -> Forall2 prel args args' -> frel (FSPred n args) (FSPred n args')
  | fr_not : forall h h', frel h h' -> frel (FNot h) (FNot h')
  | fr_and : forall fs fs', Forall2 frel fs fs' -> frel (FAnd fs) (FAnd fs')
  | fr_or : forall fs fs', Forall2 frel fs fs' -> frel (FOr fs) (FOr fs')
  | fr_forall : forall v i i' b b', irel i i' -> frel b b' -> frel (FForall v i None b) (FForall v i' None b')
  | fr_exists : forall v i i' b b', irel i i' -> frel b b' -> frel (FExists v i None b) (FExists v i' None b').
End Frag.

Lemma prel_refl x : prel x x.
Proof. destruct x; constructor; reflexivity. Qed.
Lemma irel_refl i : irel i i.
Proof. destruct i; constructor; reflexivity. Qed.

Lemma frel_refl A (arel : A -> A -> Prop) : (forall x, arel x x) ->
  forall f, qfrag A f = true -> frel A arel f f.
Proof.
  intro Hr. induction f as [x|n args|n args|h IH|fs IH|fs IH|v i m b IH|v i m b IH|v b IH|v b IH] using formula_ind';
    simpl; intro Hf; try discriminate.
  - constructor. apply Hr.
  - constructor; [assumption|]. clear. induction args; constructor; [apply prel_refl | assumption].
  - constructor. auto.
  - constructor. rewrite forallb_forall in Hf. induction IH as [|x l Hx _ IHl]; constructor.
    + apply Hx. apply Hf. left. reflexivity.
    + apply IHl. intros y Hy. apply Hf. right. assumption.
  - constructor. rewrite forallb_forall in Hf. induction IH as [|x l Hx _ IHl]; constructor.
    + apply Hx. apply Hf. left. reflexivity.
    + apply IHl. intros y Hy. apply Hf. right. assumption.
  - destruct m; [discriminate|]. constructor; [apply irel_refl | auto].
  - destruct m; [discriminate|]. constructor; [apply irel_refl | auto].
Qed.

Lemma qfrag_numq A f : qfrag A f = true -> has_numq A f = false.
Proof.
  induction f as [x|n args|n args|h IH|fs IH|fs IH|v i m b IH|v i m b IH|v b IH|v b IH] using formula_ind';
    simpl; intro Hf; try discriminate; try reflexivity; auto.
  - rewrite forallb_forall in Hf. induction IH as [|x l Hx _ IHl]; [reflexivity|]. simpl.
    rewrite Hx; [|apply Hf; left; reflexivity]. apply IHl. intros y Hy. apply Hf. right. assumption.
  - rewrite forallb_forall in Hf. induction IH as [|x l Hx _ IHl]; [reflexivity|]. simpl.
    rewrite Hx; [|apply Hf; left; reflexivity]. apply IHl. intros y Hy. apply Hf. right. assumption.
  - destruct m; [discriminate | auto].
  - destruct m; [discriminate | auto].
Qed.

(* the fragment has no nth, no count: the two other recorded classes are excluded by it *)
Lemma qfrag_no_sempred A f : qfrag A f = true -> has_sempred A f = false.
Proof.
  induction f as [x|n args|n args|h IH|fs IH|fs IH|v i m b IH|v i m b IH|v b IH|v b IH] using formula_ind';
    simpl; intro Hf; try discriminate; try reflexivity; auto.
  - rewrite forallb_forall in Hf. induction IH as [|x l Hx _ IHl]; [reflexivity|]. simpl.
    rewrite Hx; [|apply Hf; left; reflexivity]. apply IHl. intros y Hy. apply Hf. right. assumption.
  - rewrite forallb_forall in Hf. induction IH as [|x l Hx _ IHl]; [reflexivity|]. simpl.
    rewrite Hx; [|apply Hf; left; reflexivity]. apply IHl. intros y Hy. apply Hf. right. assumption.
  - destruct m; [discriminate | auto].
  - destruct m; [discriminate | auto].
Qed.

Lemma qfrag_names A f : qfrag A f = true -> forall n, In n (spred_names A f) -> okname n = true.
Proof.
  induction f as [x|n args|n args|h IH|fs IH|fs IH|v i m b IH|v i m b IH|v b IH|v b IH] using formula_ind';
    simpl; intros Hf n0 Hn; try discriminate; try contradiction; auto.
  - destruct Hn as [<-|[]]. assumption.
  - rewrite forallb_forall in Hf. rewrite Forall_forall in IH. apply in_flat_map in Hn as (x & Hx & Hn). eapply IH; eauto.
  - rewrite forallb_forall in Hf. rewrite Forall_forall in IH. apply in_flat_map in Hn as (x & Hx & Hn). eapply IH; eauto.
  - destruct m; [discriminate | auto].
  - destruct m; [discriminate | auto].
Qed.

Theorem qfrag_not_nth A t f : qfrag A f = true -> K_nth_open A t f = false.
Proof.
  intro Hf. unfold K_nth_open. destruct (mem_str s_nth (spred_names A f)) eqn:E; [|reflexivity].
  apply mem_str_In in E. pose proof (qfrag_names A f Hf _ E) as H. vm_compute in H. discriminate.
Qed.

Lemma no_sempred_count_atoms A f : has_sempred A f = false -> count_atoms A f = [].
Proof.
  induction f as [x|n args|n args|h IH|fs IH|fs IH|v i m b IH|v i m b IH|v b IH|v b IH] using formula_ind';
    simpl; intro Hf; try discriminate; try reflexivity; auto.
  - induction IH as [|x l Hx _ IHl]; [reflexivity|]. simpl in *. apply orb_false_iff in Hf as [H1 H2].
    rewrite (Hx H1), (IHl H2). reflexivity.
  - induction IH as [|x l Hx _ IHl]; [reflexivity|]. simpl in *. apply orb_false_iff in Hf as [H1 H2].
    rewrite (Hx H1), (IHl H2). reflexivity.
Qed.

Theorem qfrag_not_count_insert A g t f : qfrag A f = true -> K_count_insert A g t f = false.
Proof.
  intro Hf. unfold K_count_insert. rewrite (no_sempred_count_atoms A f (qfrag_no_sempred A f Hf)). reflexivity.
Qed.

(* ------------------------------------------------------------------ *)
(* related assignments: same variables, same paths, each entry a node of its own reference tree *)
(* ------------------------------------------------------------------ *)
Definition erel (t t' : tree) (kv kv' : var * (path * tree)) : Prop :=
  fst kv = fst kv' /\ fst (snd kv) = fst (snd kv') /\
  subtree t (fst (snd kv)) = Some (snd (snd kv)) /\ subtree t' (fst (snd kv')) = Some (snd (snd kv')).
Definition asg_rel (t t' : tree) (a a' : asg) : Prop := Forall2 (erel t t') a a'.

Section AsgRel.
  Variables t t' : tree.

  Lemma rel_get a a' w : asg_rel t t' a a' ->
    match dict_get a w, dict_get a' w with
    | Some ps, Some ps' => fst ps' = fst ps /\ subtree t (fst ps) = Some (snd ps) /\ subtree t' (fst ps) = Some (snd ps')
    | None, None => True
    | _, _ => False
    end.
  Proof.
    induction 1 as [|[k [p s]] [k' [p' s']] a a' (Hk & Hp & Hs & Hs') _ IH]; simpl; [exact I|].
    simpl in *. subst k' p'. destruct (var_eqb k w); [simpl; auto | exact IH].
  Qed.

  Lemma rel_mem a a' w : asg_rel t t' a a' -> dict_mem a' w = dict_mem a w.
  Proof.
    intro H. pose proof (rel_get a a' w H) as G. unfold dict_mem.
    destruct (dict_get a w), (dict_get a' w); try contradiction; reflexivity.
  Qed.

  Lemma rel_set d d' v x x' : asg_rel t t' d d' -> erel t t' (v, x) (v, x') ->
    asg_rel t t' (dict_set d v x) (dict_set d' v x').
  Proof.
    intros H Hx. induction H as [|[k y] [k' y'] d d' Hk Hd IH]; simpl.
    - constructor; [assumption | constructor].
    - assert (Ek : k = k') by (destruct Hk as (E & _); exact E). subst k'.
      destruct (var_eqb k v).
      + constructor; [|assumption]. destruct Hx as (_ & H2 & H3 & H4). repeat split; assumption.
      + constructor; assumption.
  Qed.

  Lemma rel_union a a' : asg_rel t t' a a' -> forall na na', asg_rel t t' na na' ->
    asg_rel t t' (dict_union na a) (dict_union na' a').
  Proof.
    unfold dict_union. induction 1 as [|[k y] [k' y'] a a' Hk _ IH]; intros na na' Hn; simpl; [assumption|].
    apply IH. assert (Ek : k = k') by (destruct Hk as (E & _); exact E). subst k'.
    apply rel_set; [assumption|]. destruct Hk as (_ & H2 & H3 & H4). repeat split; assumption.
  Qed.
End AsgRel.

(* ------------------------------------------------------------------ *)
(* lists of verdicts                                                   *)
(* ------------------------------------------------------------------ *)
Lemma Forall2_In_r {B C} (R : B -> C -> Prop) l l' y :
  Forall2 R l l' -> In y l' -> exists x, In x l /\ R x y.
Proof.
  induction 1 as [|a b l l' Hab _ IH]; intro Hin; [contradiction|].
  destruct Hin as [->|Hin]; [exists a; split; [left; reflexivity | assumption]|].
  destruct (IH Hin) as (x & Hx & HR). exists x. split; [right; assumption | assumption].
Qed.

Lemma collect_Forall2 {B} (F : B -> res TV) xs : forall l,
  collect (map F xs) = Ok l -> Forall2 (fun x y => F x = Ok y) xs l.
Proof.
  induction xs as [|x xs IH]; simpl; intros l H.
  - inversion H. constructor.
  - destruct (F x) as [y|e] eqn:E; [|discriminate].
    destruct (collect (map F xs)) as [ys|e]; [|discriminate]. inversion H; subst.
    constructor; [assumption | apply IH; reflexivity].
Qed.

Lemma collect_le {B C} (F : B -> res TV) (F' : C -> res TV) (Rl : B -> C -> Prop) xs xs' :
  Forall2 Rl xs xs' ->
  (forall x x' y y', In x xs -> In x' xs' -> Rl x x' -> F x = Ok y -> F' x' = Ok y' -> tv_le y y') ->
  forall l l', collect (map F xs) = Ok l -> collect (map F' xs') = Ok l' -> Forall2 tv_le l l'.
Proof.
  induction 1 as [|x x' xs xs' Hx _ IH]; intros Hall l l' H H'; simpl in H, H'.
  - inversion H. inversion H'. constructor.
  - destruct (F x) as [y|e] eqn:E; [|discriminate].
    destruct (collect (map F xs)) as [ys|e] eqn:Ec; [|discriminate]. inversion H; subst.
    destruct (F' x') as [y'|e] eqn:E'; [|discriminate].
    destruct (collect (map F' xs')) as [ys'|e] eqn:Ec'; [|discriminate]. inversion H'; subst.
    constructor.
    + eapply Hall; try eassumption; left; reflexivity.
    + apply IH; try reflexivity. intros a b c d Ha Hb. apply Hall; right; assumption.
Qed.

Lemma tv_any_tt l : tv_any l = TT <-> existsb is_tt l = true.
Proof.
  unfold tv_any. destruct (existsb is_tt l); [tauto|].
  destruct (existsb is_uu l); split; discriminate.
Qed.

Lemma filter_filter {B} (f h : B -> bool) l : filter f (filter h l) = filter (fun x => f x && h x) l.
Proof.
  induction l as [|x l IH]; simpl; [reflexivity|].
  destruct (h x); simpl; [destruct (f x); simpl; rewrite IH; reflexivity | rewrite andb_false_r; exact IH].
Qed.

Lemma existsb_false_In {B} (f : B -> bool) l x : existsb f l = false -> In x l -> f x = false.
Proof.
  intros H Hin. destruct (f x) eqn:E; [|reflexivity].
  assert (existsb f l = true) by (apply existsb_exists; eauto). congruence.
Qed.

(* ------------------------------------------------------------------ *)
(* the quantifier body of eval_quant after the in-tree has been resolved *)
(* ------------------------------------------------------------------ *)
Definition Qdom (ip : path) (T : str) (p : path) (l : str) : bool := str_eqb l T && (prefixb ip p && trie_ok p).

Lemma dom_filter u ip T :
  filter (fun ps : path * tree => str_eqb (lbl (snd ps)) T) (trie_items u ip) = filter (selQ (Qdom ip T)) (nodes u).
Proof. unfold trie_items. rewrite filter_filter. reflexivity. Qed.

Definition quant_rest (qmm : var -> path -> option mexpr -> asg -> path -> bool) (u : tree)
           (is_forall : bool) (v : var) (body : asg -> res TV) (a : asg) (ip : path) : res TV :=
  let news := map (fun na => dict_union na a)
                  (map (fun ps => [(v, ps)])
                       (filter (fun ps : path * tree => str_eqb (lbl (snd ps)) (vtype v)) (trie_items u ip))) in
  if negb (forallb (asg_ok u) news) then Raise AssertErr else
  let potential := existsb (fun ps => qmm v ip None a (fst ps)) (open_leaves u) in
  if is_forall then
    if potential then Ok UU
    else match collect (map body news) with
         | Raise e => Raise e
         | Ok l => Ok (tv_all l)
         end
  else
    match collect (map body news) with
    | Raise e => Raise e
    | Ok l => let r := tv_any l in Ok (if negb (is_tt r) && potential then UU else r)
    end.

Section Stable.
  Variable A : Type.
  Variable afree : A -> list var.
  Variable aopen : A -> bool.
  Variable aeval : A -> asg -> res TV.
  Variable reach' : str -> str -> bool.
  Variable count_open : tree -> str -> Z -> res TV.
  Variable qmm' : var -> path -> option mexpr -> asg -> path -> bool.
  Variable arel : A -> A -> Prop.

  Variable g : grammar.
  Variables t t' : tree.
  Hypothesis Hc : compl g t t'.
  Hypothesis Hcl : is_openT t' = false.
  Hypothesis Hu : uniq_ids t'.
  Hypothesis Hrc : reach_closedb g = true.

  Local Notation ev := (eval_legacy A afree aopen aeval (m3_qmm g t) reach' count_open t).
  Local Notation ev' := (eval_legacy A afree aopen aeval qmm' reach' count_open t').

  (* PREMISE about atoms: a single SMT atom is monotone under related assignments *)
  Hypothesis Hatom : forall x x' a a' r r', arel x x' -> asg_rel t t' a a' ->
    ev (FSmt x) a = Ok r -> ev' (FSmt x') a' = Ok r' -> tv_le r r'.

  (* guard on a quantified type T (from is_nt on the quantifier types and from NOT K_selfrec_open) *)
  Definition qt_ok (T : str) : Prop :=
    is_nt T = true /\
    forall p n, subtree t p = Some n -> opn n = true -> lbl n = T -> reachb g T T = false.

  (* ---- structural predicates ---- *)
  Lemma arg_inst_rel a a' x x' y y' : asg_rel t t' a a' -> prel x x' ->
    arg_inst t a x = Ok y -> arg_inst t' a' x' = Ok y' ->
    y' = y /\ (forall p, y = SPath p -> exists s, subtree t p = Some s).
  Proof.
    intros Ha Hx H H'. destruct Hx as [v|s|s s' Hts]; simpl in H, H'.
    - pose proof (rel_get t t' a a' v Ha) as G.
      destruct (dict_get a v) as [[p s]|]; [|discriminate]. destruct (dict_get a' v) as [[p' s']|]; [|contradiction].
      simpl in G. destruct G as (-> & Hs & Hs'). inversion H; inversion H'; subst. split; [reflexivity|].
      intros q E. inversion E; subst. eauto.
    - inversion H; inversion H'; subst. split; [reflexivity|]. intros q E. discriminate.
    - destruct (find_by_id t s) as [[p x]|] eqn:F; [|discriminate].
      destruct (find_by_id t' s') as [[p' x']|] eqn:F'; [|discriminate].
      destruct (find_by_id_compl g t t' s s' p x p' x' Hc Hu Hts F F') as (-> & Hs & Hs').
      inversion H; inversion H'; subst. split; [reflexivity|]. intros q E. inversion E; subst. eauto.
  Qed.

  Lemma mapM_arg_rel a a' : asg_rel t t' a a' -> forall args args', Forall2 prel args args' ->
    forall l l', mapM (arg_inst t a) args = Ok l -> mapM (arg_inst t' a') args' = Ok l' ->
    l' = l /\ (forall p, In (SPath p) l -> exists s, subtree t p = Some s).
  Proof.
    intros Ha args args' HF. induction HF as [|x x' args args' Hx _ IH]; intros l l' H H'; simpl in H, H'.
    - inversion H; inversion H'; subst. split; [reflexivity | intros p []].
    - destruct (arg_inst t a x) as [y|e] eqn:E; [|discriminate].
      destruct (mapM (arg_inst t a) args) as [ys|e] eqn:Em; [|discriminate].
      destruct (arg_inst t' a' x') as [y'|e] eqn:E'; [|discriminate].
      destruct (mapM (arg_inst t' a') args') as [ys'|e] eqn:Em'; [|discriminate].
      inversion H; inversion H'; subst.
      destruct (arg_inst_rel a a' x x' y y' Ha Hx E E') as [-> Hy].
      destruct (IH ys ys' eq_refl eq_refl) as [-> Hys]. split; [reflexivity|].
      intros p [Hp|Hp]; [apply Hy; assumption | apply Hys; assumption].
  Qed.

  Lemma spred_call_compl n l : okname n = true ->
    (forall p, In (SPath p) l -> exists s, subtree t p = Some s) ->
    spred_call t n l = spred_call t' n l.
  Proof.
    unfold okname. intros Hn Hv. apply orb_true_iff in Hn as [Hn|Hn].
    - apply path_preds_tree_independent. assumption.
    - apply str_eqb_eq in Hn. subst n.
      destruct l as [|[p|s] [|[q|s'] [|[r|s''] [|[u|s'''] [|x xs]]]]]; try reflexivity.
      unfold spred_call. rewrite str_eqb_refl. destruct (lvl_of_str s) as [o|]; [|reflexivity]. f_equal.
      destruct (Hv r) as (s1 & H1); [simpl; auto|]. destruct (Hv u) as (s2 & H2); [simpl; auto|].
      apply (level_check_compl g t t' Hc Hcl o s' r u s1 s2 H1 H2).
  Qed.

  (* ---- quantifier domain ---- *)
  Lemma dom_eq v ip si a : subtree t ip = Some si -> qt_ok (vtype v) ->
    existsb (fun ps => m3_qmm g t v ip None a (fst ps)) (open_leaves t) = false ->
    map fst (filter (selQ (Qdom ip (vtype v))) (nodes t')) = map fst (filter (selQ (Qdom ip (vtype v))) (nodes t)).
  Proof.
    intros Hip [Hnt Hself] Hpot. apply (sel_eq g t t' Hc). intros p s' Hs' Hn.
    destruct (Qdom ip (vtype v) p (lbl s')) eqn:E; [exfalso | reflexivity].
    unfold Qdom in E. apply andb_true_iff in E as [El E]. apply andb_true_iff in E as [Ep _].
    apply str_eqb_eq in El. apply prefixb_spec in Ep.
    assert (Hnt' : is_nt (lbl s') = true) by (rewrite El; assumption).
    destruct (compl_new_label g t t' p s' Hrc Hc Hs' Hn Hnt') as (q & r & n & -> & Hr & Hq & Ho & Hk & Hreach).
    rewrite El in Hreach.
    assert (Hpq : prefix ip q).
    { destruct (prefix_comparable ip q (q ++ r) Ep) as [H|[r2 ->]]; [exists r; reflexivity | assumption |].
      destruct r2 as [|k r2]; [rewrite app_nil_r; apply prefix_refl|].
      exfalso. rewrite subtree_app, Hq in Hip. simpl in Hip. rewrite Hk in Hip. destruct k; discriminate. }
    assert (Hin : In (q, n) (open_leaves t)).
    { unfold open_leaves. apply filter_In. split; [apply nodes_spec; assumption | exact Ho]. }
    pose proof (existsb_false_In _ _ _ Hpot Hin) as Hq3. simpl in Hq3. unfold m3_qmm in Hq3.
    destruct (str_eqb (lbl n) (vtype v)) eqn:Eln.
    - apply str_eqb_eq in Eln. rewrite Eln in Hreach. rewrite (Hself q n Hq Ho Eln) in Hreach. discriminate.
    - apply str_eqb_neq in Eln.
      assert (X : qmm3 g t [] v ip None q = true).
      { apply qmm3_none_spec. exists n. repeat split; assumption. }
      congruence.
  Qed.

  Lemma dom_sub v ip ps : In ps (filter (selQ (Qdom ip (vtype v))) (nodes t)) ->
    exists ps', In ps' (filter (selQ (Qdom ip (vtype v))) (nodes t')) /\ fst ps' = fst ps.
  Proof.
    intro H. assert (H1 : In (fst ps) (map fst (filter (selQ (Qdom ip (vtype v))) (nodes t)))) by (apply in_map; assumption).
    apply (sel_sub g t t' Hc) in H1. apply in_map_iff in H1 as (ps' & E & Hin). eauto.
  Qed.

  Lemma news_rel v ip a a' ps ps' : asg_rel t t' a a' ->
    In ps (filter (selQ (Qdom ip (vtype v))) (nodes t)) ->
    In ps' (filter (selQ (Qdom ip (vtype v))) (nodes t')) -> fst ps = fst ps' ->
    asg_rel t t' (dict_union [(v, ps)] a) (dict_union [(v, ps')] a').
  Proof.
    intros Ha H H' E. apply rel_union; [assumption|]. constructor; [|constructor].
    apply filter_In in H as [H _]. apply filter_In in H' as [H' _].
    destruct ps as [p s], ps' as [p' s']. simpl in E. subst p'.
    apply nodes_spec in H, H'. repeat split; assumption.
  Qed.

  Lemma quant_core is_forall v (body body' : asg -> res TV) a a' ip si r r' :
    asg_rel t t' a a' -> qt_ok (vtype v) ->
    (forall na na' x x', asg_rel t t' na na' -> body na = Ok x -> body' na' = Ok x' -> tv_le x x') ->
    subtree t ip = Some si ->
    quant_rest (m3_qmm g t) t is_forall v body a ip = Ok r ->
    quant_rest qmm' t' is_forall v body' a' ip = Ok r' -> tv_le r r'.
  Proof.
    intros Ha Hq Hb Hip H H'. unfold quant_rest in H, H'. rewrite !dom_filter, !map_map in H, H'.
    set (D := filter (selQ (Qdom ip (vtype v))) (nodes t)) in *.
    set (D' := filter (selQ (Qdom ip (vtype v))) (nodes t')) in *.
    match type of H with (if ?c then _ else _) = _ => destruct c; [discriminate|] end.
    match type of H' with (if ?c then _ else _) = _ => destruct c; [discriminate|] end.
    assert (Hol : open_leaves t' = []) by (unfold open_leaves; apply closed_no_open_nodes; assumption).
    rewrite Hol in H'. simpl existsb in H'.
    set (F := fun ps : path * tree => body (dict_union [(v, ps)] a)) in *.
    set (F' := fun ps : path * tree => body' (dict_union [(v, ps)] a')) in *.
    assert (Hle : forall x x' y y', In x D -> In x' D' -> fst x = fst x' -> F x = Ok y -> F' x' = Ok y' -> tv_le y y').
    { intros x x' y y' Hx Hx' E Hy Hy'. eapply Hb; [|exact Hy|exact Hy']. apply (news_rel v ip); assumption. }
    destruct (existsb (fun ps => m3_qmm g t v ip None a (fst ps)) (open_leaves t)) eqn:Epot.
    - (* a potential match on t *)
      destruct is_forall; [inversion H; left; reflexivity|].
      destruct (collect (map F D)) as [l|e] eqn:El; [|discriminate].
      destruct (collect (map F' D')) as [l'|e] eqn:El'; [|discriminate].
      rewrite andb_false_r in H'. rewrite andb_true_r in H. inversion H; inversion H'; subst.
      destruct (tv_any l) eqn:Et; simpl; try (left; reflexivity). right.
      apply tv_any_tt in Et. apply existsb_exists in Et as (y & Hy & Hyt).
      destruct y; try discriminate.
      destruct (Forall2_In_r _ _ _ _ (collect_Forall2 F D l El) Hy) as (ps & Hps & HF).
      destruct (dom_sub v ip ps Hps) as (ps' & Hps' & E).
      destruct (Forall2_In_l _ _ _ _ (collect_Forall2 F' D' l' El') Hps') as (y' & Hy' & HF').
      destruct (Hle ps ps' TT y' Hps Hps' (eq_sym E) HF HF') as [X|X]; [discriminate|]. subst y'.
      symmetry. apply tv_any_tt. apply existsb_exists. exists TT. auto.
    - (* no potential match: same domain *)
      assert (HD : Forall2 (fun x x' : path * tree => fst x = fst x') D D').
      { apply map_eq_Forall2. symmetry. apply (dom_eq v ip si a Hip Hq Epot). }
      destruct (collect (map F D)) as [l|e] eqn:El; [|destruct is_forall; discriminate].
      destruct (collect (map F' D')) as [l'|e] eqn:El'; [|destruct is_forall; discriminate].
      assert (Hl : Forall2 tv_le l l').
      { eapply (collect_le F F' _ D D' HD); [|exact El|exact El']. intros x x' y y' Hx Hx' E. apply Hle; assumption. }
      destruct is_forall.
      + inversion H; inversion H'; subst. apply tv_all_mono. assumption.
      + rewrite andb_false_r in H, H'. inversion H; inversion H'; subst. apply tv_any_mono. assumption.
  Qed.

  Lemma quant_mono is_forall v i i' (body body' : asg -> res TV) a a' r r' :
    irel i i' -> asg_rel t t' a a' -> qt_ok (vtype v) ->
    (forall na na' x x', asg_rel t t' na na' -> body na = Ok x -> body' na' = Ok x' -> tv_le x x') ->
    eval_quant (m3_qmm g t) t is_forall v i None body a = Ok r ->
    eval_quant qmm' t' is_forall v i' None body' a' = Ok r' -> tv_le r r'.
  Proof.
    intros Hi Ha Hq Hb H H'. unfold eval_quant in H, H'. destruct Hi as [w | s s' Hts].
    - pose proof (rel_get t t' a a' w Ha) as G.
      destruct (dict_get a w) as [[ip si]|]; [|discriminate H].
      destruct (dict_get a' w) as [[ip' si']|]; [|contradiction G].
      simpl in G. destruct G as (-> & Hsi & Hsi').
      exact (quant_core is_forall v body body' a a' ip si r r' Ha Hq Hb Hsi H H').
    - destruct (find_by_id t s) as [[ip si]|] eqn:F; [|discriminate H].
      destruct (find_by_id t' s') as [[ip' si']|] eqn:F'; [|discriminate H'].
      destruct (find_by_id_compl g t t' s s' ip si ip' si' Hc Hu Hts F F') as (-> & Hsi & Hsi').
      exact (quant_core is_forall v body body' a a' ip si r r' Ha Hq Hb Hsi H H').
  Qed.

  (* ---- the induction ---- *)
  Theorem eval_mono : forall f f', frel A arel f f' -> forall a a' r r',
    asg_rel t t' a a' -> Forall qt_ok (qtypes A f) ->
    ev f a = Ok r -> ev' f' a' = Ok r' -> tv_le r r'.
  Proof.
    induction f as [x|n args|n args|h IH|fs IH|fs IH|v i m b IH|v i m b IH|v b IH|v b IH] using formula_ind';
      intros f' Hf a a' r r' Ha Hq H H';
      inversion Hf as [x0 x' Har | n0 args0 args' Hn Hargs | h0 h' Hh | fs0 fs' Hfs | fs0 fs' Hfs
                       | v0 i0 i' b0 b' Hi Hb | v0 i0 i' b0 b' Hi Hb]; subst.
    - eapply Hatom; eassumption.
    - simpl in H, H'. unfold eval_spred in H, H'.
      destruct (mapM (arg_inst t a) args) as [l|e] eqn:E; [|discriminate].
      destruct (mapM (arg_inst t' a') args') as [l'|e] eqn:E'; [|discriminate].
      destruct (mapM_arg_rel a a' Ha args args' Hargs l l' E E') as [-> Hv].
      rewrite (spred_call_compl n l Hn Hv) in H.
      destruct (spred_call t' n l) as [bb|e]; [|discriminate]. inversion H; inversion H'; subst. right. reflexivity.
    - simpl in H, H'.
      destruct (ev h a) as [y|e] eqn:E; [|discriminate]. destruct (ev' h' a') as [y'|e] eqn:E'; [|discriminate].
      inversion H; inversion H'; subst. apply tv_not_mono. eapply IH; eassumption.
    - simpl in H, H'.
      destruct (collect (map (fun g0 => ev g0 a) fs)) as [l|e] eqn:E; [|discriminate].
      destruct (collect (map (fun g0 => ev' g0 a') fs')) as [l'|e] eqn:E'; [|discriminate].
      inversion H; inversion H'; subst. apply tv_all_mono.
      eapply (collect_le _ _ _ fs fs' Hfs); [|exact E|exact E'].
      intros x x' y y' Hx Hx' HR Hy Hy'. rewrite Forall_forall in IH.
      eapply (IH x Hx x' HR a a'); try eassumption.
      simpl in Hq. rewrite Forall_forall in *. intros T HT. apply Hq. apply in_flat_map. eauto.
    - simpl in H, H'.
      destruct (collect (map (fun g0 => ev g0 a) fs)) as [l|e] eqn:E; [|discriminate].
      destruct (collect (map (fun g0 => ev' g0 a') fs')) as [l'|e] eqn:E'; [|discriminate].
      inversion H; inversion H'; subst. apply tv_any_mono.
      eapply (collect_le _ _ _ fs fs' Hfs); [|exact E|exact E'].
      intros x x' y y' Hx Hx' HR Hy Hy'. rewrite Forall_forall in IH.
      eapply (IH x Hx x' HR a a'); try eassumption.
      simpl in Hq. rewrite Forall_forall in *. intros T HT. apply Hq. apply in_flat_map. eauto.
    - simpl in Hq. inversion Hq as [|T l HT Hl]; subst.
      eapply (quant_mono true v i i' _ _ a a' r r' Hi Ha HT); [|exact H|exact H'].
      intros na na' x x' Hna Hx Hx'. eapply IH; eassumption.
    - simpl in Hq. inversion Hq as [|T l HT Hl]; subst.
      eapply (quant_mono false v i i' _ _ a a' r r' Hi Ha HT); [|exact H|exact H'].
      intros na na' x x' Hna Hx Hx'. eapply IH; eassumption.
  Qed.
End Stable.

(* ------------------------------------------------------------------ *)
(* the atom family atom3: the premise `Hatom` is a theorem              *)
(* ------------------------------------------------------------------ *)
Lemma F2_rev {B C} (R : B -> C -> Prop) l l' : Forall2 R l l' -> Forall2 R (rev l) (rev l').
Proof.
  induction 1 as [|x y l l' Hxy _ IH]; simpl; [constructor|].
  apply Forall2_app; [assumption | constructor; [assumption | constructor]].
Qed.

Section Atom3.
  Variable g : grammar.
  Variables t t' : tree.
  Hypothesis Hc : compl g t t'.

  (* x on the t side, x' on the t' side: the same atom, or the two instantiations of one atom *)
  Definition arel3 (x x' : atom3) : Prop :=
    x' = x \/ exists x0 cst, ainst3 cst t x0 = Ok x /\ ainst3 cst t' x0 = Ok x'.

  Lemma find_key_rel (P : var -> bool) l l' : Forall2 (erel t t') l l' ->
    match find (fun kv => P (fst kv)) l, find (fun kv => P (fst kv)) l' with
    | Some kv, Some kv' => erel t t' kv kv'
    | None, None => True
    | _, _ => False
    end.
  Proof.
    induction 1 as [|kv kv' l l' Hk _ IH]; simpl; [exact I|].
    assert (E : fst kv = fst kv') by (destruct Hk as (E & _); exact E). rewrite <- E.
    destruct (P (fst kv)); [assumption | exact IH].
  Qed.

  (* a closed tree bound on the t side is bound to the same tree on the t' side *)
  Lemma by_name_rel a a' nm : asg_rel t t' a a' ->
    match by_name a nm, by_name a' nm with
    | Some s, Some s' => compl g s s'
    | None, None => True
    | _, _ => False
    end.
  Proof.
    intro Ha. unfold by_name.
    pose proof (find_key_rel (fun w => str_eqb (vname w) nm) (rev a) (rev a') (F2_rev _ _ _ Ha)) as G.
    destruct (find (fun kv : var * (path * tree) => str_eqb (vname (fst kv)) nm) (rev a)) as [[k [p s]]|];
      destruct (find (fun kv : var * (path * tree) => str_eqb (vname (fst kv)) nm) (rev a')) as [[k' [p' s']]|];
      try contradiction; [|exact I].
    destruct G as (_ & Hp & Hs & Hs'). simpl in *. subst p'.
    destruct (compl_keeps_nodes g p t t' s Hc Hs) as (s2 & Hs2 & _ & _ & Hcs). congruence.
  Qed.

  Lemma sterm_val3_rel sub a a' x : asg_rel t t' a a' ->
    match sterm_val3 sub a x with
    | Some (Some u) => sterm_val3 sub a' x = Some (Some u)
    | Some None => True
    | None => sterm_val3 sub a' x = None
    end.
  Proof.
    intro Ha. destruct x as [v|s]; simpl; [|reflexivity].
    destruct (dict_get sub v); [reflexivity|].
    pose proof (by_name_rel a a' (vname v) Ha) as G.
    destruct (by_name a (vname v)) as [s|]; destruct (by_name a' (vname v)) as [s'|]; try contradiction; [|reflexivity].
    destruct (is_openT s) eqn:Eo; [exact I|].
    rewrite (compl_closed_eq g s s' G Eo), Eo. reflexivity.
  Qed.

  Lemma aeval3_mono x a a' r r' : asg_rel t t' a a' ->
    aeval3 x a = Ok r -> aeval3 x a' = Ok r' -> tv_le r r'.
  Proof.
    intros Ha H H'. unfold aeval3 in H, H'. destruct (a3_base x) as [neg s1 s2|op s1 n|b].
    - pose proof (sterm_val3_rel (a3_subst x) a a' s1 Ha) as G1.
      pose proof (sterm_val3_rel (a3_subst x) a a' s2 Ha) as G2.
      destruct (sterm_val3 (a3_subst x) a s1) as [[u|]|]; destruct (sterm_val3 (a3_subst x) a s2) as [[w|]|];
        try discriminate; try (inversion H; left; reflexivity).
      rewrite G1, G2 in H'. right. congruence.
    - pose proof (sterm_val3_rel (a3_subst x) a a' s1 Ha) as G1.
      destruct (sterm_val3 (a3_subst x) a s1) as [[u|]|]; try discriminate; try (inversion H; left; reflexivity).
      rewrite G1 in H'. right. congruence.
    - right. congruence.
  Qed.

  Section Legacy.
    Variable qmm qmm' : var -> path -> option mexpr -> asg -> path -> bool.
    Variable reach' : str -> str -> bool.
    Variable count_open : tree -> str -> Z -> res TV.

    Lemma smt3_same x a a' r r' : asg_rel t t' a a' ->
      eval_legacy atom3 afree3 aopen3 aeval3 qmm reach' count_open t (FSmt x) a = Ok r ->
      eval_legacy atom3 afree3 aopen3 aeval3 qmm' reach' count_open t' (FSmt x) a' = Ok r' -> tv_le r r'.
    Proof.
      intros Ha H H'. simpl in H, H'.
      rewrite (existsb_ext' (fun v => negb (dict_mem a' v)) (fun v => negb (dict_mem a v)) (afree3 x)) in H'
        by (intro v; rewrite (rel_mem t t' a a' v Ha); reflexivity).
      destruct (existsb (fun v => negb (dict_mem a v)) (afree3 x) || aopen3 x).
      - inversion H. left. reflexivity.
      - eapply aeval3_mono; eassumption.
    Qed.

    (* soundness of the atom evaluator under completion, for atom3 *)
    Theorem atom3_mono x x' a a' r r' : arel3 x x' -> asg_rel t t' a a' ->
      eval_legacy atom3 afree3 aopen3 aeval3 qmm reach' count_open t (FSmt x) a = Ok r ->
      eval_legacy atom3 afree3 aopen3 aeval3 qmm' reach' count_open t' (FSmt x') a' = Ok r' -> tv_le r r'.
    Proof.
      intros [->|(x0 & cst & H1 & H2)] Ha H H'; [eapply smt3_same; eassumption|].
      unfold ainst3 in H1, H2.
      destruct (negb (existsb (var_eqb cst) (afree3 x0))).
      - inversion H1; inversion H2; subst. eapply smt3_same; eassumption.
      - destruct (is_openT t) eqn:Eo.
        + inversion H1; subst x. simpl in H.
          assert (Eop : aopen3 (MkA3 (a3_base x0) (a3_subst x0 ++ [(cst, t)])) = true).
          { unfold aopen3. simpl. rewrite existsb_app. simpl. rewrite Eo. rewrite orb_true_r. reflexivity. }
          rewrite Eop, orb_true_r in H. inversion H. left. reflexivity.
        + assert (E : t' = t) by (apply (compl_closed_eq g t t' Hc Eo)).
          rewrite E, Eo in H2. rewrite H1 in H2. inversion H2; subst x'. eapply smt3_same; eassumption.
    Qed.
  End Legacy.

  (* ---- evaluate()'s instantiation of the constant produces related formulas ---- *)
  Lemma inst_arg_rel cst args : Forall2 prel (map (inst_arg t cst) args) (map (inst_arg t' cst) args).
  Proof.
    destruct (compl_root g t t' Hc) as [_ Hid].
    induction args as [|x args IH]; simpl; constructor; [|assumption].
    destruct x as [v|s|s]; simpl; [|constructor|constructor; reflexivity].
    destruct (var_eqb v cst); constructor. assumption.
  Qed.

  Lemma inst_in_rel cst i : irel (inst_in t cst i) (inst_in t' cst i).
  Proof.
    destruct (compl_root g t t' Hc) as [_ Hid].
    destruct i as [v|s]; simpl; [|constructor; reflexivity].
    destruct (var_eqb v cst); constructor. assumption.
  Qed.

  Lemma inst_frel cst : forall f f1 f2, qfrag atom3 f = true ->
    inst_const atom3 ainst3 t cst f = Ok f1 -> inst_const atom3 ainst3 t' cst f = Ok f2 ->
    frel atom3 arel3 f1 f2 /\ qtypes atom3 f1 = qtypes atom3 f /\
    has_numq atom3 f1 = false /\ has_numq atom3 f2 = false.
  Proof.
    induction f as [x|n args|n args|h IH|fs IH|fs IH|v i m b IH|v i m b IH|v b IH|v b IH] using formula_ind';
      intros f1 f2 Hf H1 H2; simpl in Hf, H1, H2; try discriminate.
    - destruct (ainst3 cst t x) as [y|e] eqn:E1; [|discriminate]. destruct (ainst3 cst t' x) as [y'|e] eqn:E2; [|discriminate].
      inversion H1; inversion H2; subst. repeat split. constructor. right. eauto.
    - inversion H1; inversion H2; subst. repeat split. constructor; [assumption | apply inst_arg_rel].
    - destruct (inst_const atom3 ainst3 t cst h) as [h1|e] eqn:E1; [|discriminate].
      destruct (inst_const atom3 ainst3 t' cst h) as [h2|e] eqn:E2; [|discriminate].
      inversion H1; inversion H2; subst. destruct (IH h1 h2 Hf eq_refl eq_refl) as (Hr & Hq & Hn1 & Hn2).
      repeat split; try assumption. constructor. assumption.
    - destruct (mapM (inst_const atom3 ainst3 t cst) fs) as [l1|e] eqn:E1; [|discriminate].
      destruct (mapM (inst_const atom3 ainst3 t' cst) fs) as [l2|e] eqn:E2; [|discriminate].
      inversion H1; inversion H2; subst. clear H1 H2.
      assert (X : Forall2 (frel atom3 arel3) l1 l2 /\ flat_map (qtypes atom3) l1 = flat_map (qtypes atom3) fs /\
                  existsb (has_numq atom3) l1 = false /\ existsb (has_numq atom3) l2 = false).
      { revert l1 l2 E1 E2. induction IH as [|x fs Hx _ IHl]; intros l1 l2 E1 E2; simpl in E1, E2.
        - inversion E1; inversion E2; subst. repeat split. constructor.
        - simpl in Hf. apply andb_true_iff in Hf as [Hfx Hfl].
          destruct (inst_const atom3 ainst3 t cst x) as [y1|e] eqn:Ey1; [|discriminate].
          destruct (mapM (inst_const atom3 ainst3 t cst) fs) as [ys1|e] eqn:Em1; [|discriminate].
          destruct (inst_const atom3 ainst3 t' cst x) as [y2|e] eqn:Ey2; [|discriminate].
          destruct (mapM (inst_const atom3 ainst3 t' cst) fs) as [ys2|e] eqn:Em2; [|discriminate].
          inversion E1; inversion E2; subst.
          destruct (Hx y1 y2 Hfx eq_refl eq_refl) as (Hr & Hq & Hn1 & Hn2).
          destruct (IHl Hfl ys1 ys2 eq_refl eq_refl) as (Hrs & Hqs & Hns1 & Hns2).
          simpl. rewrite Hq, Hqs, Hn1, Hn2, Hns1, Hns2. repeat split. constructor; assumption. }
      destruct X as (Hr & Hq & Hn1 & Hn2). repeat split; try assumption. constructor. assumption.
    - destruct (mapM (inst_const atom3 ainst3 t cst) fs) as [l1|e] eqn:E1; [|discriminate].
      destruct (mapM (inst_const atom3 ainst3 t' cst) fs) as [l2|e] eqn:E2; [|discriminate].
      inversion H1; inversion H2; subst. clear H1 H2.
      assert (X : Forall2 (frel atom3 arel3) l1 l2 /\ flat_map (qtypes atom3) l1 = flat_map (qtypes atom3) fs /\
                  existsb (has_numq atom3) l1 = false /\ existsb (has_numq atom3) l2 = false).
      { revert l1 l2 E1 E2. induction IH as [|x fs Hx _ IHl]; intros l1 l2 E1 E2; simpl in E1, E2.
        - inversion E1; inversion E2; subst. repeat split. constructor.
        - simpl in Hf. apply andb_true_iff in Hf as [Hfx Hfl].
          destruct (inst_const atom3 ainst3 t cst x) as [y1|e] eqn:Ey1; [|discriminate].
          destruct (mapM (inst_const atom3 ainst3 t cst) fs) as [ys1|e] eqn:Em1; [|discriminate].
          destruct (inst_const atom3 ainst3 t' cst x) as [y2|e] eqn:Ey2; [|discriminate].
          destruct (mapM (inst_const atom3 ainst3 t' cst) fs) as [ys2|e] eqn:Em2; [|discriminate].
          inversion E1; inversion E2; subst.
          destruct (Hx y1 y2 Hfx eq_refl eq_refl) as (Hr & Hq & Hn1 & Hn2).
          destruct (IHl Hfl ys1 ys2 eq_refl eq_refl) as (Hrs & Hqs & Hns1 & Hns2).
          simpl. rewrite Hq, Hqs, Hn1, Hn2, Hns1, Hns2. repeat split. constructor; assumption. }
      destruct X as (Hr & Hq & Hn1 & Hn2). repeat split; try assumption. constructor. assumption.
    - destruct m; [discriminate|].
      destruct (inst_const atom3 ainst3 t cst b) as [b1|e] eqn:E1; [|discriminate].
      destruct (inst_const atom3 ainst3 t' cst b) as [b2|e] eqn:E2; [|discriminate].
      inversion H1; inversion H2; subst. destruct (IH b1 b2 Hf eq_refl eq_refl) as (Hr & Hq & Hn1 & Hn2).
      simpl. rewrite Hq. repeat split; try assumption. constructor; [apply inst_in_rel | assumption].
    - destruct m; [discriminate|].
      destruct (inst_const atom3 ainst3 t cst b) as [b1|e] eqn:E1; [|discriminate].
      destruct (inst_const atom3 ainst3 t' cst b) as [b2|e] eqn:E2; [|discriminate].
      inversion H1; inversion H2; subst. destruct (IH b1 b2 Hf eq_refl eq_refl) as (Hr & Hq & Hn1 & Hn2).
      simpl. rewrite Hq. repeat split; try assumption. constructor; [apply inst_in_rel | assumption].
  Qed.
End Atom3.

(* ------------------------------------------------------------------ *)
(* the theorem at the level of evaluate()                              *)
(* ------------------------------------------------------------------ *)
Lemma guards_qt_ok g t (f : formula atom3) :
  forallb is_nt (qtypes atom3 f) = true -> K_selfrec_open atom3 g t f = false ->
  Forall (qt_ok g t) (qtypes atom3 f).
Proof.
  intros Hnt Hk. rewrite forallb_forall in Hnt. apply Forall_forall. intros T HT. split; [apply Hnt; assumption|].
  intros p n Hs Ho Hl. unfold K_selfrec_open in Hk. apply nodes_spec in Hs.
  pose proof (existsb_false_In _ _ _ Hk Hs) as X. simpl in X. rewrite Ho, Hl in X.
  assert (M : mem_str T (qtypes atom3 f) = true) by (apply mem_str_In; assumption).
  rewrite M in X. exact X.
Qed.

(* the information-order form: whenever both evaluations return, the verdict on t is below the one on t' *)
Theorem verdict_mono_quant g t t' cst f v v' :
  compl g t t' -> is_openT t' = false -> uniq_ids t' -> reach_closedb g = true ->
  qfrag atom3 f = true -> forallb is_nt (qtypes atom3 f) = true -> K_selfrec_open atom3 g t f = false ->
  m3_evaluate g t cst f = Ok v -> m3_evaluate g t' cst f = Ok v' -> tv_le v v'.
Proof.
  intros Hc Hcl Hu Hrc Hf Hnt Hk H H'. unfold m3_evaluate, evaluate in H, H'.
  pose proof (guards_qt_ok g t f Hnt Hk) as Hq.
  destruct (existsb (var_eqb cst) (fvars atom3 afree3 f)).
  - destruct (inst_const atom3 ainst3 t cst f) as [f1|e] eqn:E1; [|discriminate].
    destruct (inst_const atom3 ainst3 t' cst f) as [f2|e] eqn:E2; [|discriminate].
    destruct (inst_frel g t t' Hc cst f f1 f2 Hf E1 E2) as (Hr & Hqt & Hn1 & Hn2).
    rewrite Hn1 in H. rewrite Hn2 in H'. rewrite <- Hqt in Hq.
    eapply (eval_mono atom3 afree3 aopen3 aeval3 (reachb g) count_open3 (m3_qmm g t') (arel3 t t') g t t' Hc Hcl Hu Hrc);
      [| exact Hr | constructor | exact Hq | exact H | exact H'].
    intros x x' a a' r r'. apply (atom3_mono g t t' Hc).
  - rewrite (qfrag_numq atom3 f Hf) in H, H'.
    eapply (eval_mono atom3 afree3 aopen3 aeval3 (reachb g) count_open3 (m3_qmm g t') (arel3 t t') g t t' Hc Hcl Hu Hrc);
      [| apply frel_refl; [intro x; left; reflexivity | exact Hf] | constructor | exact Hq | exact H | exact H'].
    intros x x' a a' r r'. apply (atom3_mono g t t' Hc).
Qed.

(* the stability form: a DEFINITE verdict on t is the verdict on every completion on which the
   evaluation returns *)
Theorem verdict_stable_quant g t t' cst f v v' :
  compl g t t' -> is_openT t' = false -> uniq_ids t' -> reach_closedb g = true ->
  qfrag atom3 f = true -> forallb is_nt (qtypes atom3 f) = true -> K_selfrec_open atom3 g t f = false ->
  m3_evaluate g t cst f = Ok v -> v <> UU -> m3_evaluate g t' cst f = Ok v' -> v' = v.
Proof.
  intros Hc Hcl Hu Hrc Hf Hnt Hk H Hv H'.
  destruct (verdict_mono_quant g t t' cst f v v' Hc Hcl Hu Hrc Hf Hnt Hk H H') as [X|X]; [contradiction | auto].
Qed.

(* ------------------------------------------------------------------ *)
(* non-vacuity: two instances that satisfy every premise with a definite verdict on the open tree *)
(* ------------------------------------------------------------------ *)
Definition QX_item : str := [60;105;116;101;109;62]%N.
Definition QX_d : str := [60;100;62]%N.
Definition QX_list : str := [60;108;105;115;116;62]%N.
(* `(1,2),<d>` : NTH_t' with the last <d> left open *)
Definition QX_t : tree := (Node [60;115;116;97;114;116;62]%N 18%N false [(Node [60;108;105;115;116;62]%N 17%N false [(Node [60;105;116;101;109;62]%N 11%N false [(Node [40]%N 0%N false []); (Node [60;108;105;115;116;62]%N 9%N false [(Node [60;105;116;101;109;62]%N 3%N false [(Node [60;100;62]%N 2%N false [(Node [49]%N 1%N false [])])]); (Node [44]%N 4%N false []); (Node [60;108;105;115;116;62]%N 8%N false [(Node [60;105;116;101;109;62]%N 7%N false [(Node [60;100;62]%N 6%N false [(Node [50]%N 5%N false [])])])])]); (Node [41]%N 10%N false [])]); (Node [44]%N 12%N false []); (Node [60;108;105;115;116;62]%N 16%N false [(Node [60;105;116;101;109;62]%N 15%N false [(Node [60;100;62]%N 14%N true [])])])])]).
Definition QX_vi := MkVar VBound [105]%N QX_item.
Definition QX_vd := MkVar VBound [118]%N QX_d.
(* exists <d> v in start: v = "3"   on `<item>,3`: the open <item> is a potential match, the witness is there *)
Definition QX_f1 : formula atom3 :=
  FExists QX_vd (InVar W_cst3) None (FSmt (MkA3 (AStr false (SVar QX_vd) (SLit [51]%N)) [])).
(* forall <item> i in start: (inside(i, start) and not level("GE", "<list>", i, start))  on `(1,2),<d>`:
   the open <d> cannot reach <item>: no potential match, same domain *)
Definition QX_f2 : formula atom3 :=
  FForall QX_vi (InVar W_cst3) None
    (FAnd [FSPred s_inside [PVar QX_vi; PVar W_cst3];
           FNot (FSPred s_level [PStr s_GE; PStr QX_list; PVar QX_vi; PVar W_cst3])]).

Example verdict_stable_quant_example :
  (compl NTH_g NTH_t NTH_t' /\ is_openT NTH_t' = false /\ uniq_ids NTH_t' /\ reach_closedb NTH_g = true /\
   qfrag atom3 QX_f1 = true /\ forallb is_nt (qtypes atom3 QX_f1) = true /\
   K_selfrec_open atom3 NTH_g NTH_t QX_f1 = false /\ is_openT NTH_t = true /\
   m3_evaluate NTH_g NTH_t W_cst3 QX_f1 = Ok TT /\ m3_evaluate NTH_g NTH_t' W_cst3 QX_f1 = Ok TT) /\
  (compl NTH_g QX_t NTH_t' /\
   qfrag atom3 QX_f2 = true /\ forallb is_nt (qtypes atom3 QX_f2) = true /\
   K_selfrec_open atom3 NTH_g QX_t QX_f2 = false /\ is_openT QX_t = true /\
   m3_evaluate NTH_g QX_t W_cst3 QX_f2 = Ok TT /\ m3_evaluate NTH_g NTH_t' W_cst3 QX_f2 = Ok TT).
Proof.
  split.
  - split; [unfold NTH_t, NTH_t'; compl_tac|].
    split; [vm_compute; reflexivity|].
    split; [apply uniq_idsb_spec; vm_compute; reflexivity|].
    repeat split; vm_compute; reflexivity.
  - split; [unfold QX_t, NTH_t'; compl_tac|].
    repeat split; vm_compute; reflexivity.
Qed.

(* the key lemma in the model's own terms: without a potential match the quantifier domain
   (SubtreesTrie items below the in-node with the quantified label) has the same positions in t and t' *)
Theorem quant_domain_stable g t t' v ip si a :
  compl g t t' -> reach_closedb g = true -> subtree t ip = Some si -> qt_ok g t (vtype v) ->
  existsb (fun ps => m3_qmm g t v ip None a (fst ps)) (open_leaves t) = false ->
  map fst (filter (fun ps : path * tree => str_eqb (lbl (snd ps)) (vtype v)) (trie_items t' ip)) =
  map fst (filter (fun ps : path * tree => str_eqb (lbl (snd ps)) (vtype v)) (trie_items t ip)).
Proof. intros Hc Hrc Hip Hq Hpot. rewrite !dom_filter. eapply dom_eq; eassumption. Qed.
