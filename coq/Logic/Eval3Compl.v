(* C06 (proof extension) — how a completion with node identities (`compl`, Eval3Facts.v) changes
   the node list of a tree:
   * every NEW node (one that is not a node of t) sits strictly below an open leaf of t, inside the
     valid derivation tree that replaced the leaf, and its label (if a nonterminal) is grammar-
     reachable from the leaf's label;
   * consequently the list of positions selected by a (path, label) filter is THE SAME in t and t'
     as soon as the filter rejects every such new node;
   * `level` (labels on the root paths of its two arguments) and node lookup by id are unchanged.
   No model definitions here. *)
From ISLA Require Import Eval3 EvalFacts GrammarFacts FuzzFacts PathFacts TreeFacts Eval3Facts.
From Coq Require Import Lia ZArith Sorted.

(* ------------------------------------------------------------------ *)
(* small list facts                                                    *)
(* ------------------------------------------------------------------ *)
Lemma Forall2_In_l {B C} (R : B -> C -> Prop) l l' x :
  Forall2 R l l' -> In x l -> exists y, In y l' /\ R x y.
Proof.
  induction 1 as [|a b l l' Hab _ IH]; intro Hin; [contradiction|].
  destruct Hin as [->|Hin]; [exists b; split; [left; reflexivity | assumption]|].
  destruct (IH Hin) as (y & Hy & HR). exists y. split; [right; assumption | assumption].
Qed.

Lemma F2_length {B C} (R : B -> C -> Prop) l l' : Forall2 R l l' -> length l = length l'.
Proof. induction 1; simpl; congruence. Qed.

Lemma existsb_ext' {B} (f h : B -> bool) l : (forall x, f x = h x) -> existsb f l = existsb h l.
Proof. intro H. induction l as [|x l IH]; simpl; [reflexivity | rewrite H, IH; reflexivity]. Qed.

Lemma map_eq_Forall2 {B C} (f : B -> C) l : forall l', map f l = map f l' -> Forall2 (fun x y => f x = f y) l l'.
Proof.
  induction l as [|x l IH]; intros [|y l'] H; simpl in H; try discriminate; [constructor|].
  inversion H as [[Hx Hl]]. constructor; [assumption | apply IH; assumption].
Qed.

Lemma sorted_filter_map {B C} (R : C -> C -> Prop) (f : B -> C) (P : B -> bool) l :
  StronglySorted R (map f l) -> StronglySorted R (map f (filter P l)).
Proof.
  induction l as [|x l IH]; simpl; intro H; [constructor|].
  inversion H as [|? ? Hs Hall]; subst. destruct (P x); [|apply IH; assumption].
  simpl. constructor; [apply IH; assumption|].
  rewrite Forall_forall in *. intros y Hy. apply Hall.
  apply in_map_iff in Hy as (z & <- & Hz). apply in_map. apply filter_In in Hz as [Hz _]. assumption.
Qed.

(* two lists sorted by a strict order with the same elements are equal *)
Lemma sorted_ext {C} (R : C -> C -> Prop) :
  (forall x, ~ R x x) -> (forall x y z, R x y -> R y z -> R x z) ->
  forall l1 l2, StronglySorted R l1 -> StronglySorted R l2 -> (forall x, In x l1 <-> In x l2) -> l1 = l2.
Proof.
  intros Hirr Htr. induction l1 as [|x l1 IH]; intros [|y l2] H1 H2 Hin.
  - reflexivity.
  - exfalso. apply (Hin y). left. reflexivity.
  - exfalso. apply (Hin x). left. reflexivity.
  - inversion H1 as [|? ? Hs1 Ha1]; subst. inversion H2 as [|? ? Hs2 Ha2]; subst.
    rewrite Forall_forall in Ha1, Ha2.
    assert (Exy : x = y).
    { destruct (proj1 (Hin x) (or_introl eq_refl)) as [E|Hx]; [auto|].
      destruct (proj2 (Hin y) (or_introl eq_refl)) as [E|Hy]; [auto|].
      exfalso. apply (Hirr x). eapply Htr; [apply Ha1; eassumption | apply Ha2; assumption]. }
    subst y. f_equal. apply IH; try assumption. intro z. split; intro Hz.
    + destruct (proj1 (Hin z) (or_intror Hz)) as [E|H]; [|assumption].
      subst z. exfalso. apply (Hirr x). apply Ha1. assumption.
    + destruct (proj2 (Hin z) (or_intror Hz)) as [E|H]; [|assumption].
      subst z. exfalso. apply (Hirr x). apply Ha2. assumption.
Qed.

Lemma prefix_comparable (a b p : path) : prefix a p -> prefix b p -> prefix a b \/ prefix b a.
Proof.
  revert b p. induction a as [|x a IH]; intros b p Ha Hb; [left; apply prefix_nil|].
  destruct b as [|y b]; [right; apply prefix_nil|].
  destruct p as [|z p]; [destruct Ha as (r & E); discriminate|].
  apply prefix_cons_inv in Ha as [-> Ha]. apply prefix_cons_inv in Hb as [-> Hb].
  destruct (IH b p Ha Hb) as [H|H]; [left | right]; apply prefix_cons; assumption.
Qed.

(* ------------------------------------------------------------------ *)
(* shape of t and t'                                                   *)
(* ------------------------------------------------------------------ *)
Lemma closed_shape_ok t : is_openT t = false -> shape_ok t = true.
Proof.
  induction t as [l i o ks IH] using tree_ind'. simpl. intro H.
  apply orb_false_iff in H as [-> Hks]. simpl. apply forallb_forall. intros c Hc.
  rewrite Forall_forall in IH. apply IH; [assumption|].
  destruct (is_openT c) eqn:E; [|reflexivity].
  assert (existsb is_openT ks = true) by (apply existsb_exists; eauto). congruence.
Qed.

Lemma compl_shape_ok g t : forall t', compl g t t' -> shape_ok t = true.
Proof.
  induction t as [l i o ks IH] using tree_ind'. intros t' H.
  inversion H as [A i' t0 Hl Hi Hw | l' i' ks0 ks' HF]; subst; [reflexivity|].
  simpl. clear H. induction HF as [|k k' r r' Hk _ IHF]; [reflexivity|].
  inversion IH as [|x y Hx Hy]; subst. simpl. rewrite (Hx _ Hk). simpl. apply IHF. assumption.
Qed.

(* an open node of t has no children and is replaced by a valid tree *)
Lemma compl_open_inv g n w : compl g n w -> opn n = true ->
  kids n = [] /\ wf_tree g w /\ lbl w = lbl n.
Proof. intros H Ho. inversion H; subst; simpl in *; [auto | discriminate]. Qed.

(* a closed tree is its only completion *)
Lemma compl_closed_eq g s : forall s', compl g s s' -> is_openT s = false -> s' = s.
Proof.
  induction s as [l i o ks IH] using tree_ind'. intros s' H Hcl.
  inversion H as [A i' t0 Hl Hi Hw | l' i' ks0 ks' HF]; subst; [discriminate|].
  f_equal. simpl in Hcl. clear H. induction HF as [|k k' r r' Hk _ IHF]; [reflexivity|].
  inversion IH as [|x y Hx Hy]; subst. simpl in Hcl. apply orb_false_iff in Hcl as [Hk0 Hr].
  f_equal; [apply Hx; assumption | apply IHF; assumption].
Qed.

(* ------------------------------------------------------------------ *)
(* new nodes lie strictly below an open leaf                           *)
(* ------------------------------------------------------------------ *)
Lemma compl_new_node g : forall p t t' s',
  compl g t t' -> subtree t' p = Some s' -> subtree t p = None ->
  exists q r n w, p = q ++ r /\ r <> [] /\ subtree t q = Some n /\ opn n = true /\
                  subtree t' q = Some w /\ subtree w r = Some s'.
Proof.
  induction p as [|k p IH]; intros t t' s' Hc Hs' Hn; [discriminate|].
  inversion Hc as [A i t0 Hl Hi Hw | l i ks ks' HF]; subst.
  - exists [], (k :: p), (Node (lbl t') (tid t') true []), t'. repeat split; try reflexivity; [discriminate | assumption].
  - simpl in Hs', Hn. destruct (nth_error ks' k) as [c'|] eqn:E'; [|discriminate].
    destruct (nth_error ks k) as [c|] eqn:E.
    + destruct (Forall2_nth_error _ _ _ _ _ HF E) as (c2 & E2 & Hcc). rewrite E' in E2. inversion E2; subst c2.
      destruct (IH _ _ _ Hcc Hs' Hn) as (q & r & n & w & -> & Hr & Hq & Ho & Hq' & Hw).
      exists (k :: q), r, n, w. simpl. rewrite E, E'. repeat split; assumption.
    + exfalso. apply nth_error_None in E. apply F2_length in HF.
      assert (nth_error ks' k <> None) by congruence. apply nth_error_Some in H. lia.
Qed.

(* ------------------------------------------------------------------ *)
(* labels inside a valid derivation tree are reachable from its root   *)
(* ------------------------------------------------------------------ *)
Lemma wf_kids_nt g w : wf_tree g w -> kids w <> [] -> is_nt (lbl w) = true.
Proof. intros H Hk. inversion H; subst; simpl in *; try assumption; contradiction. Qed.

Lemma wf_child g w k c : wf_tree g w -> nth_error (kids w) k = Some c ->
  wf_tree g c /\ (is_nt (lbl c) = true -> In (lbl c) (succs g (lbl w))).
Proof.
  intros H E. inversion H as [A i HA Hd | x i Hx | A i ks HA Hne Hal HF | A i HA He | A i j HA He]; subst; simpl in E.
  - destruct k; discriminate.
  - destruct k; discriminate.
  - assert (Hin : In c ks) by (eapply nth_error_In; eauto). split.
    + rewrite Forall_forall in HF. apply HF. assumption.
    + intro Hnt. unfold succs. apply filter_In. split; [|assumption].
      apply in_concat. exists (map lbl ks). split; [assumption | apply in_map; assumption].
  - destruct k; discriminate.
  - destruct k as [|k]; [|destruct k; discriminate]. simpl in E. inversion E; subst c. split.
    + apply wf_term. reflexivity.
    + simpl. discriminate.
Qed.

Theorem wf_desc_reach g : forall r w s',
  wf_tree g w -> subtree w r = Some s' -> r <> [] -> is_nt (lbl s') = true -> reach g (lbl w) (lbl s').
Proof.
  induction r as [|k r IH]; intros w s' Hw Hs Hr Hnt; [contradiction|].
  simpl in Hs. destruct (nth_error (kids w) k) as [c|] eqn:E; [|discriminate].
  destruct (wf_child g w k c Hw E) as [Hwc Hsucc].
  destruct r as [|k2 r2].
  - simpl in Hs. inversion Hs; subst c. apply reach_one. apply Hsucc. assumption.
  - assert (Hcn : is_nt (lbl c) = true).
    { apply (wf_kids_nt g c Hwc). intro Hk. simpl in Hs. rewrite Hk in Hs. destruct k2; discriminate. }
    eapply reach_more; [apply Hsucc; assumption|]. apply IH; [assumption | assumption | discriminate | assumption].
Qed.

Lemma alts_in_defined g : forall A al, In al (alts g A) -> In A (map fst g).
Proof.
  induction g as [|[B bl] g IH]; intros A al H; simpl in *; [contradiction|].
  destruct (str_eqb A B) eqn:E; [left; symmetry; apply str_eqb_eq; assumption | right; eapply IH; eassumption].
Qed.

Lemma reach_closedb_set g A : reach_closedb g = true -> In A (map fst g) -> set_closedb g (reach_set g A) = true.
Proof.
  unfold reach_closedb. rewrite forallb_forall. intros H Hin.
  apply in_map_iff in Hin as (r & <- & Hr). apply H. assumption.
Qed.

Lemma succs_in_defined g A B : In B (succs g A) -> In A (map fst g).
Proof.
  unfold succs. intro H. apply filter_In in H as [H _]. apply in_concat in H as (al & Hal & _).
  eapply alts_in_defined; eassumption.
Qed.

Lemma reach_defined g A B : reach g A B -> In A (map fst g).
Proof. intro H. inversion H; subst; eapply succs_in_defined; eassumption. Qed.

(* completeness of the computed reachability under the evaluated closedness check of the grammar *)
Theorem reachb_complete_g g A B : reach_closedb g = true -> reach g A B -> reachb g A B = true.
Proof.
  intros Hc Hr. apply reachb_complete; [|assumption].
  apply reach_closedb_set; [assumption | eapply reach_defined; eassumption].
Qed.

(* ------------------------------------------------------------------ *)
(* a new node with a nonterminal label T: some open leaf above it reaches T *)
(* ------------------------------------------------------------------ *)
Theorem compl_new_label g t t' p s' :
  reach_closedb g = true -> compl g t t' -> subtree t' p = Some s' -> subtree t p = None ->
  is_nt (lbl s') = true ->
  exists q r n, p = q ++ r /\ r <> [] /\ subtree t q = Some n /\ opn n = true /\ kids n = [] /\
                reachb g (lbl n) (lbl s') = true.
Proof.
  intros Hrc Hc Hs' Hn Hnt.
  destruct (compl_new_node g p t t' s' Hc Hs' Hn) as (q & r & n & w & -> & Hr & Hq & Ho & Hq' & Hw).
  destruct (compl_keeps_nodes g q t t' n Hc Hq) as (w2 & Hw2 & _ & _ & Hcw). rewrite Hq' in Hw2. inversion Hw2; subst w2.
  destruct (compl_open_inv g n w Hcw Ho) as (Hk & Hwf & Hl).
  exists q, r, n. repeat split; try assumption.
  rewrite <- Hl. apply reachb_complete_g; [assumption|]. eapply wf_desc_reach; eassumption.
Qed.

(* ------------------------------------------------------------------ *)
(* filtered node lists                                                 *)
(* ------------------------------------------------------------------ *)
Section Filter.
  Variable g : grammar.
  Variables t t' : tree.
  Hypothesis Hc : compl g t t'.
  (* a filter on (path, label) *)
  Variable Q : path -> str -> bool.
  Definition selQ (ps : path * tree) : bool := Q (fst ps) (lbl (snd ps)).

  Lemma sel_In u p : In p (map fst (filter selQ (nodes u))) <-> exists s, subtree u p = Some s /\ Q p (lbl s) = true.
  Proof.
    rewrite in_map_iff. split.
    - intros ([q s] & <- & H). apply filter_In in H as [H HQ]. apply nodes_spec in H. exists s. auto.
    - intros (s & Hs & HQ). exists (p, s). split; [reflexivity|]. apply filter_In. split; [apply nodes_spec; assumption | assumption].
  Qed.

  Lemma sel_sorted u : StronglySorted pre_lt (map fst (filter selQ (nodes u))).
  Proof. apply sorted_filter_map. rewrite <- positions_nodes. apply positions_sorted. Qed.

  (* every selected position of t is selected in t' *)
  Lemma sel_sub p : In p (map fst (filter selQ (nodes t))) -> In p (map fst (filter selQ (nodes t'))).
  Proof.
    rewrite !sel_In. intros (s & Hs & HQ).
    destruct (compl_keeps_nodes g p t t' s Hc Hs) as (s' & Hs' & Hl & _). exists s'. rewrite Hl. auto.
  Qed.

  (* if the filter rejects every new node, the selected positions are the same list *)
  Theorem sel_eq :
    (forall p s', subtree t' p = Some s' -> subtree t p = None -> Q p (lbl s') = false) ->
    map fst (filter selQ (nodes t')) = map fst (filter selQ (nodes t)).
  Proof.
    intro Hnew. apply (sorted_ext pre_lt pre_lt_irrefl pre_lt_trans); try apply sel_sorted.
    intro p. split; [|apply sel_sub].
    rewrite !sel_In. intros (s' & Hs' & HQ).
    destruct (subtree t p) as [s|] eqn:Hs.
    - destruct (compl_keeps_nodes g p t t' s Hc Hs) as (s2 & Hs2 & Hl & _). rewrite Hs' in Hs2. inversion Hs2; subst s2.
      exists s. rewrite <- Hl. auto.
    - rewrite (Hnew p s' Hs' Hs) in HQ. discriminate.
  Qed.
End Filter.

(* ------------------------------------------------------------------ *)
(* lookup by id                                                        *)
(* ------------------------------------------------------------------ *)
Lemma uniq_ids_inj u p1 s1 p2 s2 : uniq_ids u -> subtree u p1 = Some s1 -> subtree u p2 = Some s2 ->
  tid s1 = tid s2 -> p1 = p2 /\ s1 = s2.
Proof.
  intros Hu H1 H2 E. apply nodes_spec in H1, H2.
  assert (X : (p1, s1) = (p2, s2)).
  { apply (NoDup_map_eq (fun ps : path * tree => tid (snd ps)) (nodes u)); assumption. }
  inversion X. auto.
Qed.

Lemma find_by_id_some u s p x : find_by_id u s = Some (p, x) -> subtree u p = Some x /\ tid x = tid s.
Proof.
  unfold find_by_id. intro H. apply find_some in H as [Hin E]. simpl in E.
  apply N.eqb_eq in E. split; [apply nodes_spec; assumption | assumption].
Qed.

(* the in-tree / tree argument resolves to the same path in t and in t' (ids of t' unique) *)
Lemma find_by_id_compl g t t' s s' p x p' x' :
  compl g t t' -> uniq_ids t' -> tid s' = tid s ->
  find_by_id t s = Some (p, x) -> find_by_id t' s' = Some (p', x') ->
  p' = p /\ subtree t p = Some x /\ subtree t' p = Some x'.
Proof.
  intros Hc Hu Ht H1 H2. apply find_by_id_some in H1 as [H1 E1]. apply find_by_id_some in H2 as [H2 E2].
  destruct (compl_keeps_nodes g p t t' x Hc H1) as (y & Hy & _ & Hi & _).
  destruct (uniq_ids_inj t' p' x' p y Hu H2 Hy) as [-> ->]; [congruence|]. auto.
Qed.

(* ------------------------------------------------------------------ *)
(* level: labels on the root paths of existing nodes are kept          *)
(* ------------------------------------------------------------------ *)
Section Level.
  Variable g : grammar.
  Variables t t' : tree.
  Hypothesis Hc : compl g t t'.
  Hypothesis Hcl : is_openT t' = false.

  Lemma has_lbl_compl nt c sc : subtree t c = Some sc -> has_lbl t nt c = has_lbl t' nt c.
  Proof.
    intro Hs. destruct (compl_keeps_nodes g c t t' sc Hc Hs) as (sc' & Hs' & Hl & _).
    unfold has_lbl, lbl_at.
    rewrite (py_get_subtree_valid t (compl_shape_ok g t t' Hc) c sc Hs).
    rewrite (py_get_subtree_valid t' (closed_shape_ok t' Hcl) c sc' Hs'). rewrite Hl. reflexivity.
  Qed.

  Lemma valid_firstn p s k : subtree t p = Some s -> exists sc, subtree t (firstn k p) = Some sc.
  Proof.
    intro Hs. rewrite <- (firstn_skipn k p) in Hs. rewrite subtree_app in Hs.
    destruct (subtree t (firstn k p)) as [sc|]; [eauto | discriminate].
  Qed.

  Lemma occs_compl nt pre p s : subtree t p = Some s -> occs t nt pre p = occs t' nt pre p.
  Proof.
    intro Hs. unfold occs. apply filter_ext_in. intros c Hin.
    apply in_map_iff in Hin as (k & <- & _). destruct (valid_firstn p s k Hs) as (sc & Hsc).
    eapply has_lbl_compl; eassumption.
  Qed.

  Lemma cpf_compl nt : forall p q acc s, subtree t (acc ++ p) = Some s ->
    common_prefixes_from t nt acc p q = common_prefixes_from t' nt acc p q.
  Proof.
    induction p as [|a p IH]; intros q acc s Hs; [reflexivity|].
    destruct q as [|b q]; [reflexivity|]. simpl. destruct (Nat.eqb a b); [|reflexivity].
    assert (Hs2 : subtree t ((acc ++ [a]) ++ p) = Some s) by (rewrite <- app_assoc; exact Hs).
    rewrite (IH q (acc ++ [a]) s Hs2). f_equal.
    rewrite subtree_app in Hs2. destruct (subtree t (acc ++ [a])) as [sc|] eqn:E; [|discriminate].
    rewrite (has_lbl_compl nt (acc ++ [a]) sc E). reflexivity.
  Qed.

  Theorem level_check_compl o nt p1 p2 s1 s2 : subtree t p1 = Some s1 -> subtree t p2 = Some s2 ->
    level_check t o nt p1 p2 = level_check t' o nt p1 p2.
  Proof.
    intros H1 H2. unfold level_check. rewrite (cpf_compl nt p1 p2 [] s1 H1).
    apply existsb_ext'. intro pre.
    rewrite (occs_compl nt pre p1 s1 H1), (occs_compl nt pre p2 s2 H2). reflexivity.
  Qed.
End Level.
