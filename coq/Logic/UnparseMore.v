(* C07 — the string-literal round trip beyond `plain`: every string of `safe` characters
   (1..127 except the backslash: printable ASCII INCLUDING the quote, control characters, newline,
   DEL) is printed by smt_expr_to_str and read back (ANTLR STRING token, the emitter's
   replace of backslash-quote by two quotes, UTF-8, Z3 scanner, Z3 escapes) as the same value.
   Still outside: NUL and characters >= 256 (printed as \u{..}), harmless backslashes. *)
From ISLA Require Import Unparse UnparseFacts.
From Coq Require Import Lia ZArith String.
Import ListNotations.
Open Scope N_scope.

Definition safe_c (c : chr) : bool := (0 <? c) && (c <? 128) && negb (c =? 92).
Definition safe (s : str) : bool := forallb safe_c s.

Lemma safe_c_facts c : safe_c c = true -> 0 < c /\ c < 128 /\ c <> 92.
Proof. unfold safe_c. rewrite !andb_true_iff, negb_true_iff, !N.ltb_lt, N.eqb_neq. tauto. Qed.

Ltac sfacts H := apply safe_c_facts in H; destruct H as (Hlo & Hhi & Hbs).
Ltac nf c k := replace (c =? k) with false by (symmetry; apply N.eqb_neq; lia).
Ltac split_safe H Hc Hr := simpl in H; apply andb_true_iff in H as [Hc Hr]; sfacts Hc.

(* doubled quotes: what Z3's scanner is given *)
Fixpoint dq (s : str) : str :=
  match s with [] => [] | c :: r => (if c =? c_q then [c_q; c_q] else [c]) ++ dq r end.

Lemma lstring_safe s : safe s = true -> z3_lstring s = s.
Proof.
  induction s as [|c r IH]; intro H; [reflexivity|]. split_safe H Hc Hr.
  change (z3_lstring (c :: r)) with
    ((if (c =? 0) || (256 <=? c) || ((c =? c_bs) && match r with d :: _ => d =? c_u | [] => false end)
      then lesc c else [c]) ++ z3_lstring r).
  unfold c_bs. nf c 0. nf c 92.
  replace (256 <=? c) with false by (symmetry; apply N.leb_gt; lia).
  simpl. rewrite IH by exact Hr. reflexivity.
Qed.

Lemma esc_cons c r : esc_quotes (c :: r) = (if c =? c_q then [c_bs; c_q] else [c]) ++ esc_quotes r.
Proof. reflexivity. Qed.

Lemma fix_nul_nobs c r : c <> 92 -> fix_nul_k 0 (c :: r) = c :: fix_nul_k 0 r.
Proof.
  intro H. rewrite fix_nul_k0_cons. destruct r as [|d [|e [|f t]]]; try reflexivity.
  all: try (unfold c_bs; nf c 92; reflexivity).
Qed.
Lemma fix_nul_bs_q r : fix_nul_k 0 (c_bs :: c_q :: r) = c_bs :: c_q :: fix_nul_k 0 r.
Proof.
  rewrite fix_nul_k0_cons. destruct r as [|e [|f t]]; try (rewrite fix_nul_nobs by discriminate; reflexivity).
  all: try (change (c_q =? c_u) with false; rewrite andb_false_r; simpl andb; cbv iota;
            rewrite fix_nul_nobs by discriminate; reflexivity).
Qed.

Lemma fix_nul_safe s : safe s = true -> fix_nul (esc_quotes s) = esc_quotes s.
Proof.
  unfold fix_nul. induction s as [|c r IH]; intro H; [reflexivity|]. split_safe H Hc Hr.
  rewrite esc_cons. destruct (c =? c_q) eqn:E.
  - simpl app. rewrite fix_nul_bs_q, IH by exact Hr. reflexivity.
  - simpl app. rewrite fix_nul_nobs by exact Hbs. rewrite IH by exact Hr. reflexivity.
Qed.

Lemma lex_body_step_esc k r : lex_body (S k) (c_bs :: c_q :: r) =
  match lex_body k r with Some (b, t) => Some (c_bs :: c_q :: b, t) | None => None end.
Proof. reflexivity. Qed.
Lemma lex_body_step_other k c d r : c <> 34 -> c <> 92 -> lex_body (S k) (c :: d :: r) =
  match lex_body k (d :: r) with Some (b, t) => Some (c :: b, t) | None => None end.
Proof.
  intros H1 H2.
  change (lex_body (S k) (c :: d :: r)) with
    (if c =? c_q then Some ([], d :: r)
     else if (c =? c_bs) && is_esc_letter d
          then match lex_body k r with Some (b, t) => Some (c :: d :: b, t) | None => None end
          else match lex_body k (d :: r) with Some (b, t) => Some (c :: b, t) | None => None end).
  unfold c_q, c_bs. nf c 34. nf c 92. reflexivity.
Qed.

Lemma lex_body_step_other' k c X : c <> 34 -> c <> 92 -> X <> [] -> lex_body (S k) (c :: X) =
  match lex_body k X with Some (b, t) => Some (c :: b, t) | None => None end.
Proof. intros H1 H2 H3. destruct X as [|d r]; [congruence|]. apply lex_body_step_other; assumption. Qed.

Lemma lex_body_safe s : forall fuel rest,
  safe s = true -> (List.length (esc_quotes s) < fuel)%nat ->
  lex_body fuel (esc_quotes s ++ c_q :: rest) = Some (esc_quotes s, rest).
Proof.
  induction s as [|c r IH]; intros fuel rest H Hf.
  - destruct fuel as [|k]; [simpl in Hf; lia|]. reflexivity.
  - split_safe H Hc Hr. rewrite esc_cons in *. destruct fuel as [|k]; [simpl in Hf; lia|].
    destruct (c =? c_q) eqn:E.
    + simpl app in *. rewrite lex_body_step_esc. simpl in Hf. rewrite IH by (auto; lia). reflexivity.
    + simpl app in *. apply N.eqb_neq in E. unfold c_q in E.
      rewrite lex_body_step_other' by (try assumption; destruct (esc_quotes r); discriminate). simpl in Hf. rewrite IH by (auto; lia). reflexivity.
Qed.

Lemma isla_prep_safe s : safe s = true -> isla_prep (esc_quotes s ++ [c_q]) = dq s ++ [c_q].
Proof.
  induction s as [|c r IH]; intro H; [reflexivity|]. split_safe H Hc Hr. specialize (IH Hr).
  rewrite esc_cons. simpl dq. destruct (c =? c_q) eqn:E.
  - simpl app. simpl isla_prep. rewrite IH. reflexivity.
  - simpl app. destruct (esc_quotes r ++ [c_q]) as [|d t] eqn:E2; [destruct (esc_quotes r); discriminate|].
    change (isla_prep (c :: d :: t)) with
      (if (c =? c_bs) && (d =? c_q) then c_q :: c_q :: isla_prep t else c :: isla_prep (d :: t)).
    unfold c_bs. nf c 92. simpl andb. cbv iota. rewrite IH. reflexivity.
Qed.

Lemma utf8_small t : forallb (fun c => c <? 128) t = true -> utf8 t = t.
Proof.
  unfold utf8. induction t as [|c r IH]; intro H; [reflexivity|].
  simpl in H. apply andb_true_iff in H as [Hc Hr].
  change (flat_map utf8c (c :: r)) with (utf8c c ++ flat_map utf8c r).
  rewrite IH by exact Hr. unfold utf8c. rewrite Hc. reflexivity.
Qed.
Lemma dq_small s : safe s = true -> forallb (fun c => c <? 128) (dq s ++ [c_q]) = true.
Proof.
  induction s as [|c r IH]; intro H; [reflexivity|]. split_safe H Hc Hr. simpl dq.
  destruct (c =? c_q); simpl; rewrite IH by exact Hr; [reflexivity|].
  replace (c <? 128) with true by (symmetry; apply N.ltb_lt; lia). reflexivity.
Qed.

Lemma z3_scan_safe s : safe s = true -> z3_scan (dq s ++ [c_q]) = Some (s, []).
Proof.
  induction s as [|c r IH]; intro H; [reflexivity|]. split_safe H Hc Hr. specialize (IH Hr).
  simpl dq. destruct (c =? c_q) eqn:E.
  - apply N.eqb_eq in E. subst c. simpl app.
    change (z3_scan (c_q :: c_q :: dq r ++ [c_q])) with
      (match z3_scan (dq r ++ [c_q]) with Some (b, t) => Some (c_q :: b, t) | None => None end).
    rewrite IH. reflexivity.
  - simpl app.
    change (z3_scan (c :: dq r ++ [c_q])) with
      (if c =? c_q then
         match dq r ++ [c_q] with
         | d :: r' => if d =? c_q then match z3_scan r' with Some (b, t) => Some (c_q :: b, t) | None => None end
                      else Some ([], dq r ++ [c_q])
         | [] => Some ([], [])
         end
       else match z3_scan (dq r ++ [c_q]) with Some (b, t) => Some (c :: b, t) | None => None end).
    rewrite E, IH. reflexivity.
Qed.

Lemma z3_unesc_safe s : safe s = true -> z3_unesc s = s.
Proof.
  unfold z3_unesc. induction s as [|c r IH]; intro H; [reflexivity|]. split_safe H Hc Hr.
  rewrite z3_unesc_k0_cons by exact Hbs. rewrite IH by exact Hr.
  unfold sx_byte. replace (128 <=? c) with false by (symmetry; apply N.leb_gt; lia). reflexivity.
Qed.

Theorem escape_roundtrip_safe s rest :
  safe s = true -> read_lit (str_lit s ++ rest) = Some (s, rest).
Proof.
  intro H. unfold str_lit.
  rewrite lstring_safe, fix_nul_safe by exact H.
  unfold read_lit, lex_string.
  change (([c_q] ++ esc_quotes s ++ [c_q]) ++ rest) with (c_q :: ((esc_quotes s ++ [c_q]) ++ rest)).
  rewrite <- app_assoc. change ([c_q] ++ rest) with (c_q :: rest).
  rewrite N.eqb_refl.
  rewrite lex_body_safe; [| exact H | rewrite app_length; simpl; lia].
  rewrite isla_prep_safe by exact H.
  rewrite utf8_small by (apply dq_small, H).
  rewrite z3_scan_safe by exact H. rewrite z3_unesc_safe by exact H. reflexivity.
Qed.

(* `safe` is strictly weaker than `plain` and contains quotes and control characters *)
Lemma plain_safe s : plain s = true -> safe s = true.
Proof.
  unfold plain, safe. induction s as [|c r IH]; [reflexivity|]. simpl. rewrite !andb_true_iff.
  intros [Hc Hr]. split; [|apply IH, Hr]. apply plain_c_facts in Hc. destruct Hc as (H1 & H2 & H3 & H4).
  unfold safe_c. rewrite !andb_true_iff, negb_true_iff, !N.ltb_lt, N.eqb_neq. lia.
Qed.
Lemma safe_not_K s : safe s = true -> K_str s = false.
Proof.
  intro H. unfold K_str. apply orb_false_iff. split.
  - induction s as [|c r IH]; [reflexivity|]. split_safe H Hc Hr. simpl. unfold c_bs. nf c 92. simpl. apply IH, Hr.
  - unfold K_str_hi. induction s as [|c r IH]; [reflexivity|]. split_safe H Hc Hr. simpl.
    rewrite IH by exact Hr.
    replace (128 <=? c) with false by (symmetry; apply N.leb_gt; lia).
    replace (196607 <? c) with false by (symmetry; apply N.ltb_ge; lia). reflexivity.
Qed.

Example escape_roundtrip_safe_nonvacuous :
  safe [97; 34; 98; 10; 9; 127; 34; 34] = true /\ plain [97; 34; 98; 10; 9; 127; 34; 34] = false /\
  read_lit (str_lit [97; 34; 98; 10; 9; 127; 34; 34] ++ [41]) = Some ([97; 34; 98; 10; 9; 127; 34; 34], [41]).
Proof. repeat split; vm_compute; reflexivity. Qed.
