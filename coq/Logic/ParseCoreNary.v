(* C07 — print/parse round trip for N-ARY connectives.  The unparser prints FAnd [a; b; c] as one
   parenthesised chain `(a and b and c)`; the parser (IslaLanguage.g4, ParseCore.P / loopP) builds the
   left-nested BINARY tree And(And(a, b), c) (checked on the implementation).  So
       parse_core (unparse f) = Some (opaque (binl f))
   where binl left-nests every connective, and flat (binl f) = flat f: the result is equal to f
   up to the flattening that Formula.__eq__ applies (split_conjunction / split_disjunction).
   Proofs reuse ParseCoreFacts / ParseCoreMore (binary fragment) through binl. *)
From ISLA Require Import Unparse ParseCore ParseCoreFacts ParseCoreMore.
From Coq Require Import Lia ZArith String.
Import ListNotations.
Open Scope N_scope.

(* ---------- left-nesting, n-ary tokens, n-ary shape ---------- *)
Definition lnest (mk : cformula -> cformula -> cformula) (l : list cformula) (dflt : cformula) : cformula :=
  match l with a :: b :: r => fold_left mk r (mk a b) | _ => dflt end.
Definition mkand (x y : cformula) : cformula := FAnd [x; y].
Definition mkor (x y : cformula) : cformula := FOr [x; y].
Fixpoint binl (f : cformula) : cformula :=
  match f with
  | FSmt _ | FSPred _ _ | FSemPred _ _ => f
  | FNot g => FNot (binl g)
  | FAnd fs => lnest mkand (map binl fs) (FAnd (map binl fs))
  | FOr fs => lnest mkor (map binl fs) (FOr (map binl fs))
  | FForall v i m b => FForall v i m (binl b)
  | FExists v i m b => FExists v i m (binl b)
  | FForallInt v b => FForallInt v (binl b)
  | FExistsInt v b => FExistsInt v (binl b)
  end.

(* b1 kw b2 kw ... bk ) *)
Fixpoint chainT (kw : str) (ls : list (list tok)) : list tok :=
  match ls with
  | [] => []
  | b :: r => match r with [] => b ++ [TRP] | _ => b ++ TWord kw :: chainT kw r end
  end.
Definition conn_toksN (kw : str) (ls : list (list tok)) : list tok :=
  match ls with a :: (_ :: _) as R => TLP :: a ++ TWord kw :: chainT kw R | _ => [] end.
Fixpoint toksN (f : cformula) : list tok :=
  match f with
  | FSmt a => [TAtom (smt_str (fst a))]
  | FSPred n args | FSemPred n args => pred_toks n args
  | FNot g => TWord (lit "not") :: TLP :: toksN g ++ [TRP]
  | FAnd fs => conn_toksN (lit "and") (map toksN fs)
  | FOr fs => conn_toksN (lit "or") (map toksN fs)
  | FForall v i _ b =>
      [TWord (lit "forall"); TWord (vtype v); TWord (vname v); TWord (lit "in"); TWord (invar_str i); TColon] ++ toksN b
  | FExists v i _ b =>
      [TWord (lit "exists"); TWord (vtype v); TWord (vname v); TWord (lit "in"); TWord (invar_str i); TColon] ++ toksN b
  | FForallInt v b => [TWord (lit "forall"); TWord (lit "int"); TWord (vname v); TColon] ++ toksN b
  | FExistsInt v b => [TWord (lit "exists"); TWord (lit "int"); TWord (vname v); TColon] ++ toksN b
  end.

Definition ge2 {X} (l : list X) : bool := match l with _ :: _ :: _ => true | _ => false end.
Fixpoint wf_shapeNb (f : cformula) : bool :=
  match f with
  | FSmt a => atom_okb (smt_str (fst a))
  | FSPred n args => wf_predb false n args
  | FSemPred n args => wf_predb true n args
  | FNot g => is_predf g && wf_shapeNb g
  | FAnd fs | FOr fs => ge2 fs && forallb wf_shapeNb fs
  | FForall v i m b | FExists v i m b => wf_qb v i m && wf_shapeNb b
  | FForallInt v b | FExistsInt v b => wf_nb v && wf_shapeNb b
  end.

(* ---------- the text of an n-ary connective ---------- *)
Definition Fc (c : str) (cr : list str) : list str := map (cons 32) (map_last (fun l => l ++ 32 :: c) cr).
Definition Gc (cr : list str) : list str := map_last (fun l => l ++ [41]) cr.
(* lines of the children after the first *)
Fixpoint tailc (c : str) (R : list (list str)) : list str :=
  match R with
  | [] => []
  | B :: R' => match R' with [] => Gc B | _ => Fc c B ++ tailc c R' end
  end.

Lemma abl_cons {X} (f : X -> X) x y r : all_but_last f (x :: y :: r) = f x :: all_but_last f (y :: r).
Proof. reflexivity. Qed.
Lemma ml_cons {X} (f : X -> X) x y r : map_last f (x :: y :: r) = x :: map_last f (y :: r).
Proof. reflexivity. Qed.
Lemma abl_ne {X} (f : X -> X) l : l <> [] -> all_but_last f l <> [].
Proof. destruct l as [|x [|y r]]; simpl; congruence. Qed.

Lemma tailc_concat c R : R <> [] ->
  List.concat (map_last Gc (all_but_last (Fc c) R)) = tailc c R.
Proof.
  induction R as [|B R' IH]; intro H; [congruence|]. destruct R' as [|B' R''].
  - simpl. apply app_nil_r.
  - rewrite abl_cons.
    assert (Hn : all_but_last (Fc c) (B' :: R'') <> []) by (apply abl_ne; discriminate).
    assert (IH' := IH ltac:(discriminate)). clear IH.
    change (tailc c (B :: B' :: R'')) with (Fc c B ++ tailc c (B' :: R'')). rewrite <- IH'.
    destruct (all_but_last (Fc c) (B' :: R'')) as [|y r]; [congruence|].
    rewrite ml_cons. reflexivity.
Qed.

Lemma combN c A B R :
  comb c (A :: B :: R) = map_first (fun l => 40 :: tl l) (Fc c A) ++ tailc c (B :: R).
Proof.
  unfold comb. cbv zeta.
  change (fun cr => map (cons 32) (map_last (fun l => l ++ 32 :: c) cr)) with (Fc c).
  change (map_last (fun l : str => l ++ [41])) with Gc.
  rewrite abl_cons.
  change (map_first (map_first (fun l => 40 :: tl l)) (Fc c A :: all_but_last (Fc c) (B :: R)))
    with (map_first (fun l => 40 :: tl l) (Fc c A) :: all_but_last (Fc c) (B :: R)).
  rewrite <- (tailc_concat c (B :: R)) by discriminate.
  assert (Hn : all_but_last (Fc c) (B :: R) <> []) by (apply abl_ne; discriminate).
  destruct (all_but_last (Fc c) (B :: R)) as [|y r]; [congruence|].
  rewrite ml_cons. reflexivity.
Qed.

Lemma tailc_ne c R : R <> [] -> Forall (fun B => B <> []) R -> tailc c R <> [].
Proof.
  intros H HF. destruct R as [|B R']; [congruence|]. inversion HF as [|? ? HB HR]. subst.
  destruct R' as [|B' R'']; simpl.
  - apply map_last_ne, HB.
  - unfold Fc. destruct (map_last (fun l => l ++ 32 :: c) B) eqn:E; [exfalso; revert E; apply map_last_ne, HB|]. discriminate.
Qed.

(* ---------- lexing ---------- *)
Definition lex_okN (f : cformula) : Prop :=
  (exists l L, unp f = l :: L /\ nas l) /\
  forall n m, LX (join [10] (padfm n m (unp f))) (toksN f).

Lemma lex_tail c : word c -> forall R, R <> [] -> Forall lex_okN R -> forall m,
  LX (join [10] (map (pad m) (tailc c (map unp R)))) (chainT c (map toksN R)).
Proof.
  intros Hc R. induction R as [|b R' IH]; intros Hne HF m; [congruence|].
  inversion HF as [|? ? Hb HR]. subst. destruct Hb as [(lb & Lb & Eb & _) Hb].
  destruct R' as [|b' R''].
  - simpl. unfold Gc. rewrite <- padfm_same. rewrite join_pad_map_last by (rewrite Eb; discriminate).
    apply LX_app; [apply Hb | apply LX_rp].
  - assert (Hne' : b' :: R'' <> []) by discriminate.
    specialize (IH Hne' HR m).
    change (tailc c (map unp (b :: b' :: R''))) with (Fc c (unp b) ++ tailc c (map unp (b' :: R''))).
    change (chainT c (map toksN (b :: b' :: R''))) with (toksN b ++ TWord c :: chainT c (map toksN (b' :: R''))).
    rewrite map_app. rewrite join_app.
    + unfold Fc. rewrite map_map.
      rewrite (map_ext (fun l => pad m (32 :: l)) (pad (S m))) by (intro l; apply pad_pad1).
      rewrite <- padfm_same. rewrite join_pad_map_last by (rewrite Eb; discriminate).
      rewrite <- app_assoc.
      apply LX_app; [apply Hb|].
      change (TWord c :: chainT c (map toksN (b' :: R''))) with ([TWord c] ++ chainT c (map toksN (b' :: R''))).
      rewrite (app_assoc (32 :: c) [10]). apply LX_app; [apply LX_kw, Hc | exact IH].
    + unfold Fc. rewrite Eb. destruct (map_last (fun l => l ++ 32 :: c) (lb :: Lb)) eqn:E;
        [exfalso; revert E; apply map_last_ne; discriminate|]. discriminate.
    + intro E. apply map_eq_nil in E. revert E. apply tailc_ne; [discriminate|].
      clear - HR. induction HR as [|x l Hx Hl IHl]; [constructor|].
      simpl. constructor; [|exact IHl]. destruct Hx as [(l0 & L0 & E0 & _) _]. rewrite E0. discriminate.
Qed.

Lemma lex_combN c a b R :
  word c -> lex_okN a -> Forall lex_okN (b :: R) ->
  (exists l L, comb c (map unp (a :: b :: R)) = l :: L /\ nas l) /\
  forall n m, LX (join [10] (padfm n m (comb c (map unp (a :: b :: R)))))
                 (TLP :: toksN a ++ TWord c :: chainT c (map toksN (b :: R))).
Proof.
  intros Hc [(la & La & Ea & Hna) Ha] HR.
  change (map unp (a :: b :: R)) with (unp a :: unp b :: map unp R). rewrite combN.
  assert (HX : map_last (fun l => l ++ 32 :: c) (unp a) <> []) by (apply map_last_ne; rewrite Ea; discriminate).
  assert (HY : tailc c (unp b :: map unp R) <> []).
  { apply (tailc_ne c (map unp (b :: R))); [discriminate|].
    clear - HR. induction HR as [|x l Hx Hl IHl]; [constructor|].
    simpl. constructor; [|exact IHl]. destruct Hx as [(l0 & L0 & E0 & _) _]. rewrite E0. discriminate. }
  split.
  - unfold Fc. destruct (map_last (fun l => l ++ 32 :: c) (unp a)) as [|x xr] eqn:E; [congruence|].
    simpl. eexists; eexists; split; [reflexivity|]. apply nas_delim. reflexivity.
  - intros n m. unfold Fc. rewrite first_text by assumption.
    rewrite join_pad_map_last by (rewrite Ea; discriminate).
    change (TLP :: toksN a ++ TWord c :: chainT c (map toksN (b :: R)))
      with ([] ++ TLP :: toksN a ++ TWord c :: chainT c (map toksN (b :: R))).
    apply LX_app; [apply LX_spaces|]. apply LX_lp.
    + rewrite Ea. rewrite <- app_assoc. apply nas_join0. exact Hna.
    + rewrite <- !app_assoc.
      apply LX_app; [apply Ha|].
      change (TWord c :: chainT c (map toksN (b :: R))) with ([TWord c] ++ chainT c (map toksN (b :: R))).
      rewrite (app_assoc (32 :: c) [10]). apply LX_app; [apply LX_kw, Hc|].
      rewrite padfm_same. apply (lex_tail c Hc (b :: R)); [discriminate | exact HR].
Qed.

Lemma lex_quantN h hts b n m :
  LX (h ++ [10]) hts -> lex_okN b ->
  LX (join [10] (padfm n m (h :: map indent (unp b)))) (hts ++ toksN b).
Proof.
  intros Hh [(l & L & E & _) Hb]. rewrite quant_text by (rewrite E; discriminate).
  rewrite (app_assoc h [10]). change (hts ++ toksN b) with ([] ++ hts ++ toksN b).
  apply LX_app; [apply LX_spaces|]. apply LX_app; [exact Hh | apply Hb].
Qed.

Lemma Forall_shape (Q : cformula -> Prop) fs :
  Forall (fun f => wf_shapeNb f = true -> Q f) fs -> forallb wf_shapeNb fs = true -> Forall Q fs.
Proof.
  induction 1 as [|x l Hx Hl IH]; intro H; [constructor|]. simpl in H. apply andb_true_iff in H as [H1 H2].
  constructor; [apply Hx, H1 | apply IH, H2].
Qed.

Theorem lex_unpN f : wf_shapeNb f = true -> lex_okN f.
Proof.
  induction f as [a|n args|n args|g IH|fs IH|fs IH|v i m b IH|v i m b IH|v b IH|v b IH] using formula_ind';
    intro H; simpl in H.
  - split.
    + eexists; eexists; split; [reflexivity | apply nas_atom, H].
    + intros n m. apply lex_single. apply LX_atom, H.
  - unfold wf_predb in H. rewrite !andb_true_iff in H. destruct H as [[Hn _] Ha].
    destruct (LX_pred n args Hn Ha) as [H1 H2]. split.
    + eexists; eexists; split; [reflexivity | exact H2].
    + intros k m. apply lex_single. exact H1.
  - unfold wf_predb in H. rewrite !andb_true_iff in H. destruct H as [[Hn _] Ha].
    destruct (LX_pred n args Hn Ha) as [H1 H2]. split.
    + eexists; eexists; split; [reflexivity | exact H2].
    + intros k m. apply lex_single. exact H1.
  - apply andb_true_iff in H as [Hp Hg]. specialize (IH Hg). destruct IH as [(l & L & E & Hnl) IH].
    assert (EL : L = []) by (destruct g; try discriminate; simpl in E; inversion E; reflexivity).
    subst L.
    assert (EU : unp (FNot g) = [lit "not" ++ 40 :: (l ++ [41])]) by (simpl; rewrite E; reflexivity).
    unfold lex_okN. rewrite EU. split.
    + eexists; eexists; split; [reflexivity|].
      apply (nas_word_delim (lit "not") 40 (l ++ [41])); [reflexivity | reflexivity | discriminate].
    + intros n m. apply lex_single.
      apply (LX_word_lp (lit "not") (l ++ [41]) (toksN g ++ [TRP])); [apply word_not | apply nas_app, Hnl |].
      apply LX_app; [|apply LX_rp]. specialize (IH 0%nat 0%nat). rewrite E in IH. simpl in IH. exact IH.
  - apply andb_true_iff in H as [H2 Hf]. destruct fs as [|a [|b R]]; try discriminate.
    pose proof (Forall_shape lex_okN _ IH Hf) as HF. inversion HF as [|? ? Ha HR]. subst.
    apply (lex_combN (lit "and") a b R word_and Ha HR).
  - apply andb_true_iff in H as [H2 Hf]. destruct fs as [|a [|b R]]; try discriminate.
    pose proof (Forall_shape lex_okN _ IH Hf) as HF. inversion HF as [|? ? Ha HR]. subst.
    apply (lex_combN (lit "or") a b R word_or Ha HR).
  - apply andb_true_iff in H as [Hq Hb]. simpl. split.
    + eexists; eexists; split; [reflexivity|]. unfold qheader. apply nas_q. auto.
    + intros n k. apply (lex_quantN _ [_; _; _; _; _; _]); [apply LX_qheader; [apply word_forall | exact Hq] | apply IH, Hb].
  - apply andb_true_iff in H as [Hq Hb]. simpl. split.
    + eexists; eexists; split; [reflexivity|]. unfold qheader. apply nas_q. auto.
    + intros n k. apply (lex_quantN _ [_; _; _; _; _; _]); [apply LX_qheader; [apply word_exists | exact Hq] | apply IH, Hb].
  - apply andb_true_iff in H as [Hq Hb]. simpl. split.
    + eexists; eexists; split; [reflexivity|].
      change (lit "forall int " ++ vname v ++ [58]) with (lit "forall" ++ 32 :: (lit "int " ++ vname v ++ [58])).
      apply nas_q. auto.
    + intros n k. apply (lex_quantN _ [_; _; _; _]); [|apply IH, Hb].
      apply (LX_iheader (lit "forall")); [apply word_forall | exact Hq].
  - apply andb_true_iff in H as [Hq Hb]. simpl. split.
    + eexists; eexists; split; [reflexivity|].
      change (lit "exists int " ++ vname v ++ [58]) with (lit "exists" ++ 32 :: (lit "int " ++ vname v ++ [58])).
      apply nas_q. auto.
    + intros n k. apply (lex_quantN _ [_; _; _; _]); [|apply IH, Hb].
      apply (LX_iheader (lit "exists")); [apply word_exists | exact Hq].
Qed.

Corollary lex_unpN_text f : wf_shapeNb f = true -> LX (join [10] (unp f)) (toksN f).
Proof. intro H. destruct (lex_unpN f H) as [_ G]. specialize (G 0%nat 0%nat). rewrite padfm00 in G. exact G. Qed.

(* ---------- the token parser on n-ary chains ---------- *)
Definition rawb (f : cformula) : raw := raw_of (binl f).
Definition maxl (l : list nat) : nat := fold_right Nat.max 0%nat l.
Fixpoint fhN (f : cformula) : nat :=
  match f with
  | FSmt _ | FSPred _ _ | FSemPred _ _ => 1
  | FNot g => 4 + fhN g
  | FAnd fs | FOr fs => 3 + maxl (map fhN fs) + List.length fs
  | FForall _ _ _ b | FExists _ _ _ b | FForallInt _ b | FExistsInt _ b => S (fhN b)
  end.

Definition okcont (kw : str) (X : list tok) : bool :=
  match X with TRP :: _ => true | TWord w :: _ => str_eqb w kw | _ => false end.

Lemma chainT_cont kw b R rest : exists X, chainT kw (b :: R) ++ rest = b ++ X /\ okcont kw X = true /\
  (R = [] -> X = TRP :: rest) /\ (R <> [] -> X = TWord kw :: chainT kw R ++ rest).
Proof.
  destruct R as [|b' R'].
  - exists (TRP :: rest). simpl. rewrite <- app_assoc. repeat split; try reflexivity. congruence.
  - exists (TWord kw :: chainT kw (b' :: R') ++ rest).
    change (chainT kw (b :: b' :: R')) with (b ++ TWord kw :: chainT kw (b' :: R')).
    rewrite <- app_assoc. repeat split; try reflexivity; try discriminate.
    simpl. apply str_eqb_refl.
Qed.

Lemma loop_chain sub kw mk (rawf : cformula -> raw) R :
  R <> [] ->
  Forall (fun c => forall X, okcont kw X = true -> sub (toksN c ++ X) = Some (rawf c, X)) R ->
  forall n acc rest, (List.length R <= n)%nat ->
  loopP sub kw mk n acc (TWord kw :: chainT kw (map toksN R) ++ rest) =
  Some (fold_left mk (map rawf R) acc, TRP :: rest).
Proof.
  induction R as [|b R' IH]; intros Hne HF n acc rest Hn; [congruence|].
  inversion HF as [|? ? Hb HR]. subst.
  destruct n as [|n']; [simpl in Hn; lia|].
  rewrite loopP_step by apply str_eqb_refl.
  change (map toksN (b :: R')) with (toksN b :: map toksN R').
  destruct (chainT_cont kw (toksN b) (map toksN R') rest) as (X & EX & HX & H1 & H2).
  rewrite EX. rewrite (Hb X HX). simpl map. simpl fold_left.
  destruct R' as [|b' R''].
  - rewrite (H1 eq_refl). apply loopP_nw. reflexivity.
  - rewrite H2 by discriminate. apply IH; [discriminate | exact HR | simpl in *; lia].
Qed.

Lemma P_LC_up k f ts X kw :
  kw <> lit "and" -> okcont kw X = true -> P k LF ts = Some (f, X) -> P (S k) LC ts = Some (f, X).
Proof.
  intros Hkw HX H. rewrite P_LC, H. destruct X as [|[| | | | |w| |] r]; try discriminate.
  - apply loopP_nw. reflexivity.
  - simpl in HX. apply str_eqb_eq in HX. subst w. apply loopP_other. apply str_eqb_neq. exact Hkw.
Qed.

Lemma raw_fold_and l x : raw_of (fold_left mkand l x) = fold_left RAnd (map raw_of l) (raw_of x).
Proof. revert x. induction l as [|y l IH]; intro x; [reflexivity|]. simpl. rewrite IH. reflexivity. Qed.
Lemma raw_fold_or l x : raw_of (fold_left mkor l x) = fold_left ROr (map raw_of l) (raw_of x).
Proof. revert x. induction l as [|y l IH]; intro x; [reflexivity|]. simpl. rewrite IH. reflexivity. Qed.

Lemma maxl_le (g : cformula -> nat) fs c : In c fs -> (g c <= maxl (map g fs))%nat.
Proof.
  induction fs as [|x l IH]; intro H; [contradiction|]. simpl. destruct H as [->|H]; [lia|]. specialize (IH H). lia.
Qed.

Lemma fhN_pos f : (1 <= fhN f)%nat.
Proof. destruct f; simpl; lia. Qed.

Lemma conn_app kw (a Y rest : list tok) :
  (TLP :: a ++ TWord kw :: Y) ++ rest = TLP :: a ++ TWord kw :: Y ++ rest.
Proof. simpl. rewrite <- app_assoc. reflexivity. Qed.

Theorem parse_toksN_ok f :
  wf_shapeNb f = true -> forall k rest, (fhN f <= k)%nat -> P k LF (toksN f ++ rest) = Some (rawb f, rest).
Proof.
  unfold rawb.
  induction f as [a|n args|n args|g IH|fs IH|fs IH|v i m b IH|v i m b IH|v b IH|v b IH] using formula_ind';
    intros H k rest Hk; simpl in H, Hk.
  - destruct k; [lia|]. reflexivity.
  - apply (P_predicate false); [exact H | lia].
  - apply (P_predicate true); [exact H | lia].
  - apply andb_true_iff in H as [Hp Hg].
    destruct k as [|[|[|[|k]]]]; try lia.
    simpl toksN. simpl app. rewrite P_not, P_lp. rewrite <- app_assoc. simpl app.
    simpl binl. simpl raw_of.
    rewrite (P_up _ (raw_of (binl g)) _ (TRP :: rest)); [reflexivity | reflexivity |].
    apply IH; [exact Hg | lia].
  - apply andb_true_iff in H as [H2 Hf]. destruct fs as [|a [|b R]]; try discriminate.
    pose proof (Forall_shape _ _ IH Hf) as HF. cbv beta in HF.
    destruct k as [|[|[|k]]]; try lia.
    assert (Hmax : forall c, In c (a :: b :: R) -> (fhN c <= k)%nat).
    { intros c Hc. pose proof (maxl_le fhN _ c Hc) as Hm. simpl in Hm, Hk. lia. }
    inversion HF as [|? ? Ha HR]. subst.
    change (toksN (FAnd (a :: b :: R))) with (TLP :: toksN a ++ TWord (lit "and") :: chainT (lit "and") (map toksN (b :: R))).
    rewrite conn_app.
    rewrite P_lp, P_LD, P_LC.
    rewrite (Ha k _ (Hmax a (or_introl eq_refl))).
    rewrite (loop_chain (P k LF) (lit "and") RAnd (fun c => raw_of (binl c)) (b :: R)).
    + rewrite loopP_nw by reflexivity. simpl binl. unfold lnest. rewrite raw_fold_and. simpl. rewrite map_map. reflexivity.
    + discriminate.
    + apply Forall_forall. intros c Hc X _. rewrite Forall_forall in HR.
      apply (HR c Hc). apply Hmax. right. exact Hc.
    + unfold cformula in *. simpl in Hk. simpl. lia.
  - apply andb_true_iff in H as [H2 Hf]. destruct fs as [|a [|b R]]; try discriminate.
    pose proof (Forall_shape _ _ IH Hf) as HF. cbv beta in HF.
    destruct k as [|[|[|k]]]; try lia.
    assert (Hmax : forall c, In c (a :: b :: R) -> (fhN c <= k)%nat).
    { intros c Hc. pose proof (maxl_le fhN _ c Hc) as Hm. simpl in Hm, Hk. lia. }
    inversion HF as [|? ? Ha HR]. subst.
    change (toksN (FOr (a :: b :: R))) with (TLP :: toksN a ++ TWord (lit "or") :: chainT (lit "or") (map toksN (b :: R))).
    rewrite conn_app.
    rewrite P_lp, P_LD.
    set (X := TWord (lit "or") :: chainT (lit "or") (map toksN (b :: R)) ++ rest).
    rewrite (P_LC_up k (raw_of (binl a)) (toksN a ++ X) X (lit "or"));
      [| discriminate | apply str_eqb_refl | apply Ha, Hmax; left; reflexivity].
    unfold X.
    rewrite (loop_chain (P (S k) LC) (lit "or") ROr (fun c => raw_of (binl c)) (b :: R)).
    + simpl binl. unfold lnest. rewrite raw_fold_or. simpl. rewrite map_map. reflexivity.
    + discriminate.
    + apply Forall_forall. intros c Hc X0 HX. rewrite Forall_forall in HR.
      apply (P_LC_up k _ _ _ (lit "or")); [discriminate | exact HX |].
      apply (HR c Hc). apply Hmax. right. exact Hc.
    + unfold cformula in *. simpl in Hk. simpl. lia.
  - apply andb_true_iff in H as [Hq Hb]. destruct k; [lia|].
    pose proof Hq as Hq'. unfold wf_qb in Hq. rewrite !andb_true_iff in Hq. destruct Hq as [[[Hm Ht] Hn] Hi].
    destruct i as [w|t]; [|discriminate]. apply andb_true_iff in Hi as [Hd Hw].
    destruct w as [[] wn wt]; try discriminate; simpl in Hw;
    simpl toksN; simpl binl; simpl raw_of; simpl app; unfold var_str; simpl vk; cbv iota; simpl vname; rewrite P_forall, Ht, Hn, Hw; simpl;
    rewrite (IH Hb) by lia; reflexivity.
  - apply andb_true_iff in H as [Hq Hb]. destruct k; [lia|].
    pose proof Hq as Hq'. unfold wf_qb in Hq. rewrite !andb_true_iff in Hq. destruct Hq as [[[Hm Ht] Hn] Hi].
    destruct i as [w|t]; [|discriminate]. apply andb_true_iff in Hi as [Hd Hw].
    destruct w as [[] wn wt]; try discriminate; simpl in Hw;
    simpl toksN; simpl binl; simpl raw_of; simpl app; unfold var_str; simpl vk; cbv iota; simpl vname; rewrite P_exists, Ht, Hn, Hw; simpl;
    rewrite (IH Hb) by lia; reflexivity.
  - apply andb_true_iff in H as [Hq Hb]. destruct k; [lia|]. unfold wf_nb in Hq.
    simpl toksN. simpl app. rewrite P_forall_int, Hq. rewrite (IH Hb) by lia. reflexivity.
  - apply andb_true_iff in H as [Hq Hb]. destruct k; [lia|]. unfold wf_nb in Hq.
    simpl toksN. simpl app. rewrite P_exists_int, Hq. rewrite (IH Hb) by lia. reflexivity.
Qed.

(* ---------- fuel bound ---------- *)
Definition suml (ls : list (list tok)) : nat := fold_right (fun x s => (List.length x + s)%nat) 0%nat ls.
Lemma chainT_len kw ls : List.length (chainT kw ls) = (suml ls + List.length ls)%nat.
Proof.
  induction ls as [|b r IH]; [reflexivity|]. destruct r as [|b' r'].
  - simpl. rewrite app_length. simpl. lia.
  - change (chainT kw (b :: b' :: r')) with (b ++ TWord kw :: chainT kw (b' :: r')).
    rewrite app_length.
    change (List.length (TWord kw :: chainT kw (b' :: r'))) with (S (List.length (chainT kw (b' :: r')))).
    rewrite IH. simpl. lia.
Qed.
Lemma maxl_sum fs : Forall (fun c => (fhN c <= 3 * List.length (toksN c))%nat) fs ->
  (maxl (map fhN fs) <= 3 * suml (map toksN fs))%nat.
Proof. induction 1 as [|x l Hx Hl IH]; simpl; lia. Qed.

Lemma fhN_le f : wf_shapeNb f = true -> (fhN f <= 3 * List.length (toksN f))%nat.
Proof.
  induction f as [a|n args|n args|g IH|fs IH|fs IH|v i m b IH|v i m b IH|v b IH|v b IH] using formula_ind';
    intro H; simpl in H; try (simpl; lia).
  - apply andb_true_iff in H as [_ Hg]. specialize (IH Hg). simpl. rewrite app_length. simpl. lia.
  - apply andb_true_iff in H as [H2 Hf]. destruct fs as [|a [|b R]]; try discriminate.
    pose proof (maxl_sum _ (Forall_shape _ _ IH Hf)) as Hm.
    change (toksN (FAnd (a :: b :: R))) with (TLP :: toksN a ++ TWord (lit "and") :: chainT (lit "and") (map toksN (b :: R))).
    cbn [List.length]. rewrite app_length. cbn [List.length]. rewrite chainT_len.
    simpl in Hm. simpl. rewrite map_length. unfold cformula in *. lia.
  - apply andb_true_iff in H as [H2 Hf]. destruct fs as [|a [|b R]]; try discriminate.
    pose proof (maxl_sum _ (Forall_shape _ _ IH Hf)) as Hm.
    change (toksN (FOr (a :: b :: R))) with (TLP :: toksN a ++ TWord (lit "or") :: chainT (lit "or") (map toksN (b :: R))).
    cbn [List.length]. rewrite app_length. cbn [List.length]. rewrite chainT_len.
    simpl in Hm. simpl. rewrite map_length. unfold cformula in *. lia.
  - apply andb_true_iff in H as [_ Hb]. specialize (IH Hb). simpl. lia.
  - apply andb_true_iff in H as [_ Hb]. specialize (IH Hb). simpl. lia.
  - apply andb_true_iff in H as [_ Hb]. specialize (IH Hb). simpl. lia.
  - apply andb_true_iff in H as [_ Hb]. specialize (IH Hb). simpl. lia.
Qed.

(* ---------- binl keeps the variables (and so the const header) ---------- *)
Lemma fvars_fold_and l x : fvars (fold_left mkand l x) = fvars x ++ flat_map fvars l.
Proof.
  revert x. induction l as [|y l IH]; intro x; [simpl; rewrite app_nil_r; reflexivity|].
  simpl fold_left. rewrite IH. simpl. rewrite app_nil_r, <- app_assoc. reflexivity.
Qed.
Lemma fvars_fold_or l x : fvars (fold_left mkor l x) = fvars x ++ flat_map fvars l.
Proof.
  revert x. induction l as [|y l IH]; intro x; [simpl; rewrite app_nil_r; reflexivity|].
  simpl fold_left. rewrite IH. simpl. rewrite app_nil_r, <- app_assoc. reflexivity.
Qed.
Lemma flat_map_binl {X} (g : cformula -> list X) fs :
  Forall (fun c => g (binl c) = g c) fs -> flat_map g (map binl fs) = flat_map g fs.
Proof. induction 1 as [|x l Hx Hl IH]; [reflexivity|]. simpl. rewrite Hx, IH. reflexivity. Qed.

Lemma fvars_binl f : fvars (binl f) = fvars f.
Proof.
  induction f as [a|n args|n args|g IH|fs IH|fs IH|v i m b IH|v i m b IH|v b IH|v b IH] using formula_ind';
    try reflexivity; try (simpl; rewrite IH; reflexivity).
  - simpl binl. simpl fvars at 2. rewrite <- (flat_map_binl fvars fs IH).
    destruct (map binl fs) as [|a [|b R]]; try reflexivity.
    unfold lnest. rewrite fvars_fold_and. simpl. rewrite app_nil_r, <- app_assoc. reflexivity.
  - simpl binl. simpl fvars at 2. rewrite <- (flat_map_binl fvars fs IH).
    destruct (map binl fs) as [|a [|b R]]; try reflexivity.
    unfold lnest. rewrite fvars_fold_or. simpl. rewrite app_nil_r, <- app_assoc. reflexivity.
Qed.
Lemma first_const_binl f : first_const (binl f) = first_const f.
Proof. unfold first_const. rewrite fvars_binl. reflexivity. Qed.

(* ---------- assembly ---------- *)
Lemma split_header_toksN f : wf_shapeNb f = true -> split_header (toksN f) = Some (start_const, toksN f).
Proof.
  destruct f; intro H; try reflexivity; simpl in H.
  - unfold wf_predb in H. rewrite !andb_true_iff in H. destruct H as [[Hn _] _].
    apply (split_header_word name). apply (name_nokw name _ Hn). simpl. tauto.
  - unfold wf_predb in H. rewrite !andb_true_iff in H. destruct H as [[Hn _] _].
    apply (split_header_word name). apply (name_nokw name _ Hn). simpl. tauto.
  - destruct fs as [|a [|b R]]; reflexivity.
  - destruct fs as [|a [|b R]]; reflexivity.
Qed.

Lemma parse_toks_bodyN c f :
  wf_shapeNb f = true -> wf_shapeb (binl f) = true -> names_okb c (fbound (binl f)) (binl f) = true ->
  match P (3 * List.length (toksN f) + 3) LD (toksN f) with
  | Some (r, []) => resolve c (rdecls c r) r
  | _ => None
  end = Some (opaque (binl f)).
Proof.
  intros Hs Hw Hn.
  replace (3 * List.length (toksN f) + 3)%nat with (S (S (3 * List.length (toksN f) + 1)))%nat by lia.
  rewrite (P_up _ (raw_of (binl f)) _ []); [| reflexivity |].
  - destruct (resolve_ok c (fbound (binl f)) (binl f) Hw Hn) as [H1 H2]. rewrite H2. exact H1.
  - rewrite <- (app_nil_r (toksN f)) at 2. apply parse_toksN_ok; [exact Hs|]. pose proof (fhN_le f Hs). lia.
Qed.

(* wf_coreN: the n-ary shape (every connective has at least two children; leaves, `not`, quantifiers as in
   wf_core) and the name / header conditions of wf_core, stated on the left-nested form (same variables in
   the same order: fvars_binl) *)
Definition wf_coreN (f : cformula) : Prop := wf_shapeNb f = true /\ wf_core (binl f).

Theorem print_parseN f : wf_coreN f -> parse_core (unparse f) = Some (opaque (binl f)).
Proof.
  intros [Hs Hc]. unfold wf_core, wf_coreb in Hc. rewrite !andb_true_iff in Hc. destruct Hc as [[Hw Hn] Hh].
  pose proof (lex_unpN_text f Hs) as HL.
  unfold parse_core, lex, unparse, header. unfold hconst in Hn. unfold hdr_okb in Hh.
  rewrite first_const_binl in Hn, Hh.
  assert (Body : lexm (MW []) (join [10] (unp f)) = Some (toksN f)).
  { rewrite <- (app_nil_r (join [10] (unp f))). rewrite HL. simpl. rewrite app_nil_r. reflexivity. }
  destruct (first_const f) as [c|] eqn:Ec.
  - destruct (var_eqb c start_const) eqn:Es.
    + apply var_eqb_true in Es. subst c. simpl app. rewrite Body.
      unfold parse_toks. rewrite (split_header_toksN f Hs). apply parse_toks_bodyN; assumption.
    + simpl in Hh. apply andb_true_iff in Hh as [Hcn Hct].
      cbv iota. rewrite (LX_header c Hcn Hct). rewrite Body. simpl omap.
      unfold parse_toks. simpl split_header. rewrite Hcn, Hct. simpl andb. cbv iota.
      assert (Ek : MkVar VConst (vname c) (vtype c) = c).
      { unfold first_const in Ec. apply find_some in Ec. destruct Ec as [_ Ec]. unfold is_top_const in Ec.
        apply andb_true_iff in Ec as [Ek _]. destruct c as [k n t]. simpl in *. destruct k; try discriminate; reflexivity. }
      rewrite Ek. apply parse_toks_bodyN; assumption.
  - simpl app. rewrite Body. unfold parse_toks. rewrite (split_header_toksN f Hs). apply parse_toks_bodyN; assumption.
Qed.

(* ---------- the result equals f up to flattening (Formula.__eq__: split_conjunction) ---------- *)
Definition unA (f : cformula) : list cformula := match f with FAnd l => l | x => [x] end.
Definition unO (f : cformula) : list cformula := match f with FOr l => l | x => [x] end.
Fixpoint flat (f : cformula) : cformula :=
  match f with
  | FSmt _ | FSPred _ _ | FSemPred _ _ => f
  | FNot g => FNot (flat g)
  | FAnd fs => FAnd (flat_map (fun c => unA (flat c)) fs)
  | FOr fs => FOr (flat_map (fun c => unO (flat c)) fs)
  | FForall v i m b => FForall v i m (flat b)
  | FExists v i m b => FExists v i m (flat b)
  | FForallInt v b => FForallInt v (flat b)
  | FExistsInt v b => FExistsInt v (flat b)
  end.

Lemma flat_fold_and l : forall x L, flat x = FAnd L ->
  flat (fold_left mkand l x) = FAnd (L ++ flat_map (fun c => unA (flat c)) l).
Proof.
  induction l as [|y l IH]; intros x L Hx; [simpl; rewrite app_nil_r; exact Hx|].
  simpl fold_left. rewrite (IH (mkand x y) (L ++ unA (flat y))).
  - simpl. rewrite <- app_assoc. reflexivity.
  - simpl. rewrite Hx. simpl. rewrite app_nil_r. reflexivity.
Qed.
Lemma flat_fold_or l : forall x L, flat x = FOr L ->
  flat (fold_left mkor l x) = FOr (L ++ flat_map (fun c => unO (flat c)) l).
Proof.
  induction l as [|y l IH]; intros x L Hx; [simpl; rewrite app_nil_r; exact Hx|].
  simpl fold_left. rewrite (IH (mkor x y) (L ++ unO (flat y))).
  - simpl. rewrite <- app_assoc. reflexivity.
  - simpl. rewrite Hx. simpl. rewrite app_nil_r. reflexivity.
Qed.

Theorem flat_binl f : flat (binl f) = flat f.
Proof.
  induction f as [a|n args|n args|g IH|fs IH|fs IH|v i m b IH|v i m b IH|v b IH|v b IH] using formula_ind';
    try reflexivity; try (simpl; rewrite IH; reflexivity).
  - simpl binl. simpl flat at 2.
    rewrite <- (flat_map_binl (fun c => unA (flat c)) fs)
      by (eapply Forall_impl; [|exact IH]; intros c Hc; cbv beta; rewrite Hc; reflexivity).
    destruct (map binl fs) as [|a [|b R]]; try reflexivity.
    unfold lnest. rewrite (flat_fold_and R (mkand a b) (unA (flat a) ++ unA (flat b))).
    + simpl. rewrite <- app_assoc. reflexivity.
    + simpl. rewrite app_nil_r. reflexivity.
  - simpl binl. simpl flat at 2.
    rewrite <- (flat_map_binl (fun c => unO (flat c)) fs)
      by (eapply Forall_impl; [|exact IH]; intros c Hc; cbv beta; rewrite Hc; reflexivity).
    destruct (map binl fs) as [|a [|b R]]; try reflexivity.
    unfold lnest. rewrite (flat_fold_or R (mkor a b) (unO (flat a) ++ unO (flat b))).
    + simpl. rewrite <- app_assoc. reflexivity.
    + simpl. rewrite app_nil_r. reflexivity.
Qed.

(* on the binary fragment nothing changes: print_parseN contains print_parse *)
Lemma binl_id f : wf_shapeb f = true -> binl f = f.
Proof.
  induction f as [a|n args|n args|g IH|fs IH|fs IH|v i m b IH|v i m b IH|v b IH|v b IH] using formula_ind';
    intro H; simpl in H; try reflexivity.
  - apply andb_true_iff in H as [_ Hg]. simpl. rewrite IH by exact Hg. reflexivity.
  - destruct fs as [|a [|b [|c r]]]; try discriminate. apply andb_true_iff in H as [Ha Hb].
    inversion IH as [|? ? IHa IH2]; subst. inversion IH2 as [|? ? IHb _]; subst.
    simpl. rewrite IHa, IHb by assumption. reflexivity.
  - destruct fs as [|a [|b [|c r]]]; try discriminate. apply andb_true_iff in H as [Ha Hb].
    inversion IH as [|? ? IHa IH2]; subst. inversion IH2 as [|? ? IHb _]; subst.
    simpl. rewrite IHa, IHb by assumption. reflexivity.
  - apply andb_true_iff in H as [_ Hb]. simpl. rewrite IH by exact Hb. reflexivity.
  - apply andb_true_iff in H as [_ Hb]. simpl. rewrite IH by exact Hb. reflexivity.
  - apply andb_true_iff in H as [_ Hb]. simpl. rewrite IH by exact Hb. reflexivity.
  - apply andb_true_iff in H as [_ Hb]. simpl. rewrite IH by exact Hb. reflexivity.
Qed.

(* decidable form of the hypothesis (used by the check to decide membership) *)
Definition wf_coreNb (f : cformula) : bool := wf_shapeNb f && wf_coreb (binl f).
Lemma wf_coreNb_spec f : wf_coreNb f = true <-> wf_coreN f.
Proof. unfold wf_coreNb, wf_coreN, wf_core. rewrite andb_true_iff. tauto. Qed.

Lemma opaque_fold_and R : forall x, opaque (fold_left mkand R x) = fold_left mkand (map opaque R) (opaque x).
Proof. induction R as [|y R IH]; intro x; [reflexivity|]. simpl. rewrite IH. reflexivity. Qed.
Lemma opaque_fold_or R : forall x, opaque (fold_left mkor R x) = fold_left mkor (map opaque R) (opaque x).
Proof. induction R as [|y R IH]; intro x; [reflexivity|]. simpl. rewrite IH. reflexivity. Qed.
Lemma opaque_lnest_and l : opaque (lnest mkand l (FAnd l)) = lnest mkand (map opaque l) (FAnd (map opaque l)).
Proof. destruct l as [|a [|b R]]; try reflexivity. unfold lnest. simpl map. apply opaque_fold_and. Qed.
Lemma opaque_lnest_or l : opaque (lnest mkor l (FOr l)) = lnest mkor (map opaque l) (FOr (map opaque l)).
Proof. destruct l as [|a [|b R]]; try reflexivity. unfold lnest. simpl map. apply opaque_fold_or. Qed.

Lemma opaque_binl h : opaque (binl h) = binl (opaque h).
Proof.
  induction h as [a|n args|n args|g IH|fs IH|fs IH|v i m b IH|v i m b IH|v b IH|v b IH] using formula_ind';
    try reflexivity; try (simpl; rewrite IH; reflexivity).
  - simpl binl. rewrite opaque_lnest_and. rewrite !map_map.
    assert (EM : map (fun x => opaque (binl x)) fs = map (fun x => binl (opaque x)) fs).
    { induction IH as [|x l Hx Hl IHl]; [reflexivity|]. simpl. rewrite Hx, IHl. reflexivity. }
    rewrite EM. reflexivity.
  - simpl binl. rewrite opaque_lnest_or. rewrite !map_map.
    assert (EM : map (fun x => opaque (binl x)) fs = map (fun x => binl (opaque x)) fs).
    { induction IH as [|x l Hx Hl IHl]; [reflexivity|]. simpl. rewrite Hx, IHl. reflexivity. }
    rewrite EM. reflexivity.
Qed.

(* the parse result is ==-equal to the constraint (atoms as text) *)
Corollary print_parseN_flat f : wf_coreN f ->
  exists g, parse_core (unparse f) = Some g /\ flat g = flat (opaque f).
Proof.
  intro H. exists (opaque (binl f)). split; [apply print_parseN, H|].
  rewrite opaque_binl. apply flat_binl.
Qed.

Definition ppN_ex : cformula :=
  FForall pp_x (InVar start_const) None
    (FAnd [pp_at1;
           FOr [FNot (FSPred (lit "inside") [PVar pp_x; PVar start_const]);
                FAnd [pp_at1; FExists pp_y (InVar pp_x) None pp_at2; pp_at1];
                FExistsInt (MkVar VBound (lit "n") (lit "NUM"))
                  (FSemPred (lit "count") [PVar pp_x; PStr (lit "<var>"); parg_int (Zneg 3)]);
                pp_at1];
           FSPred (lit "inside") [PVar pp_x; PVar start_const];
           pp_at1]).
Example print_parseN_nonvacuous :
  wf_coreN ppN_ex /\ wf_shapeb ppN_ex = false /\ binl ppN_ex <> ppN_ex /\
  parse_core (unparse ppN_ex) = Some (opaque (binl ppN_ex)) /\ flat (opaque (binl ppN_ex)) = flat (opaque ppN_ex).
Proof. repeat split; try (vm_compute; reflexivity); try discriminate. Qed.
