(* C03, proof extension: language.match (Eval.py_match) against the specification's match
   function (Semantics.smatch) on match-expression prefix trees that satisfy the
   well-formedness predicate [mtree_okb] (every bound path ends in a leaf of the prefix tree,
   every leaf is bound by exactly one variable, terminal leaves by dummy variables of that
   terminal's type) and have no closed nonterminal leaf (guard against K_mexpr_eps_shape).
   Main results: smatch_shift, smatch_perm, py_match_spec. *)
From ISLA Require Import Semantics Eval EvalAtoms EvalFacts.
From Coq Require Import Lia Permutation.

(* ------------------------------------------------------------------ *)
(* vocabulary                                                          *)
(* ------------------------------------------------------------------ *)
Definition shift (h : path) (P : list (var * path)) : list (var * path) :=
  map (fun vp => (fst vp, h ++ snd vp)) P.
(* a match result of the evaluator as a position assignment *)
Definition strip (r : asg) : list (var * path) := map (fun kv => (fst kv, fst (snd kv))) r.

(* regular subject trees: closed, and a node labelled with a terminal has no children *)
Fixpoint regb (t : tree) : bool :=
  match t with
  | Node l _ o ks => negb o && (is_nt l || is_nil ks) && forallb regb ks
  end.
Fixpoint term_leavesb (t : tree) : bool :=
  match t with
  | Node l _ _ ks => (is_nt l || is_nil ks) && forallb term_leavesb ks
  end.

Definition hd_lt (n : nat) (vp : var * path) : bool :=
  match snd vp with [] => false | j :: _ => Nat.ltb j n end.

Definition ok_go (ok : tree -> list (var * path) -> bool) (P : list (var * path)) :=
  fix go (l : list tree) (i : nat) : bool :=
    match l with [] => true | k :: r => ok k (restrict P i) && go r (S i) end.

(* well-formed prefix tree with its variable paths (relative formulation):
   leaf: exactly one variable, bound at this very node, of the node's type, a dummy variable
         if the node is a terminal;
   inner node: not open, every path continues into an existing child, children recursively. *)
Fixpoint mtree_okb (m : tree) (P : list (var * path)) : bool :=
  match m with
  | Node lm _ om km =>
      match km with
      | [] => match P with
              | [(w, [])] => str_eqb (vtype w) lm && (is_nt lm || is_dummy w)
              | _ => false
              end
      | _ :: _ =>
          negb om && forallb (hd_lt (length km)) P &&
          (fix go (l : list tree) (i : nat) : bool :=
             match l with [] => true | k :: r => mtree_okb k (restrict P i) && go r (S i) end) km 0
      end
  end.

Lemma mtree_okb_inner lm im om k0 km P :
  mtree_okb (Node lm im om (k0 :: km)) P =
  negb om && forallb (hd_lt (length (k0 :: km))) P && ok_go mtree_okb P (k0 :: km) 0.
Proof. reflexivity. Qed.

Lemma ok_go_cons ok P k r i : ok_go ok P (k :: r) i = ok k (restrict P i) && ok_go ok P r (S i).
Proof. reflexivity. Qed.

(* ------------------------------------------------------------------ *)
(* the two child loops as stand-alone functions                        *)
(* ------------------------------------------------------------------ *)
Definition s_go (P : list (var * path)) (here : path) :=
  fix go (ks' ks : list tree) (i : nat) : option (list (var * path)) :=
    match ks', ks with
    | k' :: r', k :: r =>
        match smatch k' k (restrict P i) (here ++ [i]), go r' r (S i) with
        | Some a, Some b => Some (a ++ b)
        | _, _ => None
        end
    | _, _ => Some []
    end.

Lemma smatch_unfold l' i' o' ks' t P here :
  smatch (Node l' i' o' ks') t P here =
  if negb (str_eqb (lbl t) l')
     || (negb (Nat.eqb (length ks') 0) && negb (Nat.eqb (length (kids t)) (length ks')))
  then None
  else match P with
       | [(v, [])] => Some [(v, here)]
       | _ => s_go P here ks' (kids t) 0
       end.
Proof. reflexivity. Qed.

Lemma s_go_cons P here k' r' k r i :
  s_go P here (k' :: r') (k :: r) i =
  match smatch k' k (restrict P i) (here ++ [i]), s_go P here r' r (S i) with
  | Some a, Some b => Some (a ++ b)
  | _, _ => None
  end.
Proof. reflexivity. Qed.

Definition py_go (P : list (var * path)) (here : path) :=
  fix go (km ks : list tree) (i : nat) (acc : asg) : res (option asg) :=
    match km, ks with
    | k' :: r', k :: r =>
        match py_match k' k (restrict P i) (here ++ [i]) with
        | Raise e => Raise e
        | Ok None => Ok None
        | Ok (Some a) => go r' r (S i) (dict_union acc a)
        end
    | _, _ => Ok (Some acc)
    end.

Lemma py_match_unfold lm im om km t P here :
  py_match (Node lm im om km) t P here =
  if negb (str_eqb (lbl t) lm) || (negb om && is_nil km && opn t) then Ok None
  else if om || (is_nil km && negb (opn t) && is_nil (kids t)) then
    if negb (forallb (fun vp => is_nil (snd vp)) P) then Raise AssertErr
    else if negb (is_nt (lbl t)) then
      if negb (forallb (fun vp => is_dummy (fst vp)) P) then Raise AssertErr
      else if negb (is_nil P) && negb (str_eqb (concat (map (fun vp => vtype (fst vp)) P)) (lbl t))
           then Raise AssertErr
      else match P with
           | [] => Ok (Some [])
           | [(v, _)] => Ok (Some [(v, (here, t))])
           | _ => Ok (Some [(fresh_dummy here (concat (map (fun vp => vtype (fst vp)) P)), (here, t))])
           end
    else if Nat.ltb 1 (length P) then Raise AssertErr
    else Ok (Some (map (fun vp => (fst vp, (here, t))) P))
  else if negb (Nat.eqb (length (kids t)) (length km)) then Ok None
  else if existsb (fun vp => is_nil (snd vp)) P then Raise IndexErr
  else match py_go P here km (kids t) 0 [] with
       | Raise e => Raise e
       | Ok None => Ok None
       | Ok (Some r) => if complete_match t here r then Ok (Some r) else Raise AssertErr
       end.
Proof. reflexivity. Qed.

Lemma py_go_cons P here k' r' k r i acc :
  py_go P here (k' :: r') (k :: r) i acc =
  match py_match k' k (restrict P i) (here ++ [i]) with
  | Raise e => Raise e
  | Ok None => Ok None
  | Ok (Some a) => py_go P here r' r (S i) (dict_union acc a)
  end.
Proof. reflexivity. Qed.

(* ------------------------------------------------------------------ *)
(* small helpers                                                       *)
(* ------------------------------------------------------------------ *)
Lemma match_P_inner {B} (P : list (var * path)) n (X : var -> B) (Y : B) :
  forallb (hd_lt n) P = true ->
  match P with [(v, [])] => X v | _ => Y end = Y.
Proof. destruct P as [|[v [|j r]] [|y P']]; simpl; try reflexivity; discriminate. Qed.

Lemma inner_no_nil P n : forallb (hd_lt n) P = true -> existsb (fun vp : var * path => is_nil (snd vp)) P = false.
Proof.
  induction P as [|[w p] P IH]; simpl; intro H; [reflexivity|].
  apply andb_true_iff in H as [H1 H2]. rewrite (IH H2).
  destruct p; [discriminate H1 | reflexivity].
Qed.

Lemma skipn_app_len {B} (a b : list B) : skipn (length a) (a ++ b) = b.
Proof. induction a as [|x a IH]; simpl; auto. Qed.

Lemma shift_app h P Q : shift h (P ++ Q) = shift h P ++ shift h Q.
Proof. unfold shift. apply map_app. Qed.

Lemma shift_shift h g P : shift h (shift g P) = shift (h ++ g) P.
Proof. unfold shift. rewrite map_map. apply map_ext. intros [w p]. simpl. rewrite app_assoc. reflexivity. Qed.

Lemma shift_nil P : shift [] P = P.
Proof. unfold shift. rewrite <- (map_id P) at 2. apply map_ext. intros [w p]. reflexivity. Qed.

Lemma map_fst_shift h P : map fst (shift h P) = map fst P.
Proof. unfold shift. rewrite map_map. reflexivity. Qed.

Lemma map_fst_strip r : map fst (strip r) = map fst r.
Proof. unfold strip. rewrite map_map. reflexivity. Qed.

(* ------------------------------------------------------------------ *)
(* smatch commutes with moving the subject                             *)
(* ------------------------------------------------------------------ *)
Lemma smatch_shift m : forall t P h here,
  smatch m t P (h ++ here) = option_map (shift h) (smatch m t P here).
Proof.
  induction m as [lm im om km IH] using tree_ind'. intros t P h here.
  rewrite !smatch_unfold.
  destruct (negb (str_eqb (lbl t) lm) || _); [reflexivity|].
  assert (Hgo : forall ks i, s_go P (h ++ here) km ks i = option_map (shift h) (s_go P here km ks i)).
  { clear - IH. induction IH as [|k' r' Hk Hr IHr]; intros ks i; [reflexivity|].
    destruct ks as [|k r]; [reflexivity|]. rewrite !s_go_cons.
    rewrite <- app_assoc, Hk, IHr.
    destruct (smatch k' k (restrict P i) (here ++ [i])) as [a|]; [|reflexivity].
    destruct (s_go P here r' r (S i)) as [b|]; [|reflexivity].
    simpl. rewrite shift_app. reflexivity. }
  destruct P as [|[v [|j r]] [|y P']]; try apply Hgo. reflexivity.
Qed.

Lemma smatch_at m t P q : smatch m t P q = option_map (shift q) (smatch m t P []).
Proof. rewrite <- (app_nil_r q) at 1. apply smatch_shift. Qed.

(* ------------------------------------------------------------------ *)
(* the result of a successful match is P moved to the subject, up to order *)
(* ------------------------------------------------------------------ *)
Definition bucket (P : list (var * path)) (i : nat) : list (var * path) :=
  filter (fun vp => match snd vp with [] => false | j :: _ => Nat.eqb j i end) P.
Definition range_f (i n : nat) (vp : var * path) : bool :=
  match snd vp with [] => false | j :: _ => Nat.leb i j && Nat.ltb j (i + n) end.

Lemma shift_restrict here P i : shift (here ++ [i]) (restrict P i) = shift here (bucket P i).
Proof.
  induction P as [|[w p] P IH]; [reflexivity|].
  unfold restrict, bucket in *. simpl. destruct p as [|j r]; simpl; [exact IH|].
  destruct (Nat.eqb_spec j i) as [->|_]; simpl; [|exact IH].
  rewrite IH, <- app_assoc. reflexivity.
Qed.

Lemma range_f_cons i n w j r : range_f i n (w, j :: r) = Nat.leb i j && Nat.ltb j (i + n).
Proof. reflexivity. Qed.

Lemma range_split P i n :
  Permutation (bucket P i ++ filter (range_f (S i) n) P) (filter (range_f i (S n)) P).
Proof.
  induction P as [|[w p] P IH]; [constructor|].
  unfold bucket in *. destruct p as [|j r]; [exact IH|].
  cbn [filter snd]. rewrite !range_f_cons.
  destruct (Nat.eqb_spec j i) as [->|Hne].
  - replace (Nat.leb (S i) i && Nat.ltb i (S i + n)) with false
      by (symmetry; apply andb_false_iff; left; apply Nat.leb_gt; lia).
    replace (Nat.leb i i && Nat.ltb i (i + S n)) with true
      by (symmetry; apply andb_true_iff; split; [apply Nat.leb_le | apply Nat.ltb_lt]; lia).
    cbn [app]. apply perm_skip. exact IH.
  - replace (Nat.leb i j && Nat.ltb j (i + S n)) with (Nat.leb (S i) j && Nat.ltb j (S i + n)).
    + destruct (Nat.leb (S i) j && Nat.ltb j (S i + n)); [|exact IH].
      apply Permutation_sym. apply Permutation_cons_app. apply Permutation_sym. exact IH.
    + destruct (Nat.leb_spec (S i) j), (Nat.leb_spec i j), (Nat.ltb_spec j (S i + n)), (Nat.ltb_spec j (i + S n));
        cbn [andb]; try reflexivity; lia.
Qed.

Lemma range_nil P i : filter (range_f i 0) P = [].
Proof.
  induction P as [|[w p] P IH]; [reflexivity|]. simpl. unfold range_f at 1. simpl.
  destruct p as [|j r]; [exact IH|].
  replace (Nat.leb i j && Nat.ltb j (i + 0)) with false; [exact IH|].
  destruct (Nat.leb_spec i j), (Nat.ltb_spec j (i + 0)); simpl; try reflexivity; lia.
Qed.

Lemma range_all P n : forallb (hd_lt n) P = true -> filter (range_f 0 n) P = P.
Proof.
  induction P as [|[w p] P IH]; simpl; intro H; [reflexivity|].
  apply andb_true_iff in H as [H1 H2]. unfold range_f at 1. unfold hd_lt in H1. simpl in *.
  destruct p as [|j r]; [discriminate|]. rewrite H1. simpl. rewrite IH by assumption. reflexivity.
Qed.

Lemma smatch_perm m : forall t P here bs,
  mtree_okb m P = true -> smatch m t P here = Some bs -> Permutation bs (shift here P).
Proof.
  induction m as [lm im om km IH] using tree_ind'. intros t P here bs Hok Hm.
  rewrite smatch_unfold in Hm. destruct (negb (str_eqb (lbl t) lm) || _) eqn:Ec; [discriminate|].
  destruct km as [|k0 km'].
  - simpl in Hok. destruct P as [|[w [|j r]] [|y P']]; try discriminate.
    inversion Hm. simpl. rewrite app_nil_r. apply Permutation_refl.
  - rewrite mtree_okb_inner in Hok. apply andb_true_iff in Hok as [Hok Hgo].
    apply andb_true_iff in Hok as [_ Hlt].
    rewrite (match_P_inner P _ _ _ Hlt) in Hm.
    apply orb_false_iff in Ec as [_ Ec]. simpl in Ec. apply negb_false_iff, Nat.eqb_eq in Ec.
    assert (Hgen : forall km ks i bs, Forall (fun k' => forall t P here bs,
                mtree_okb k' P = true -> smatch k' t P here = Some bs -> Permutation bs (shift here P)) km ->
              ok_go mtree_okb P km i = true -> s_go P here km ks i = Some bs -> length ks = length km ->
              Permutation bs (shift here (filter (range_f i (length km)) P))).
    { clear. intros km. induction km as [|k' r' IHr]; intros ks i bs HF Hgo Hs Hlen.
      - destruct ks; [|discriminate]. inversion Hs. rewrite range_nil. constructor.
      - destruct ks as [|k r]; [discriminate|]. rewrite s_go_cons in Hs. rewrite ok_go_cons in Hgo.
        apply andb_true_iff in Hgo as [Hk Hgo]. inversion HF as [|? ? Hk' Hr']; subst.
        destruct (smatch k' k (restrict P i) (here ++ [i])) as [a|] eqn:Ea; [|discriminate].
        destruct (s_go P here r' r (S i)) as [b|] eqn:Eb; [|discriminate]. inversion Hs; subst bs.
        simpl length.
        apply Permutation_trans with (shift here (bucket P i ++ filter (range_f (S i) (length r')) P));
          [|unfold shift; apply Permutation_map; apply range_split].
        rewrite shift_app. apply Permutation_app.
        + rewrite <- shift_restrict. eapply Hk'; eassumption.
        + eapply IHr; try eassumption. simpl in Hlen. lia. }
    specialize (Hgen (k0 :: km') (kids t) 0 bs IH Hgo Hm Ec).
    rewrite range_all in Hgen by assumption. exact Hgen.
Qed.

Lemma smatch_keys m t P here bs :
  mtree_okb m P = true -> smatch m t P here = Some bs -> Permutation (map fst bs) (map fst P).
Proof.
  intros Hok Hm. rewrite <- (map_fst_shift here P). apply Permutation_map. eapply smatch_perm; eassumption.
Qed.

(* ------------------------------------------------------------------ *)
(* language.match = smatch on well-formed prefix trees                 *)
(* ------------------------------------------------------------------ *)
Lemma regb_inv t : regb t = true ->
  opn t = false /\ (is_nt (lbl t) = false -> kids t = []) /\ forallb regb (kids t) = true.
Proof.
  destruct t as [l i o ks]. simpl. intro H. apply andb_true_iff in H as [H H3].
  apply andb_true_iff in H as [H1 H2]. apply negb_true_iff in H1. repeat split; try assumption.
  intro Hn. rewrite Hn in H2. simpl in H2. destruct ks; [reflexivity | discriminate].
Qed.

Lemma regb_subtree t : forall p s, regb t = true -> subtree t p = Some s -> regb s = true.
Proof.
  intros p. revert t. induction p as [|k p IH]; intros t s Hr H; simpl in H.
  - inversion H; subst. assumption.
  - destruct (nth_error (kids t) k) as [c|] eqn:Ek; [|discriminate].
    apply (IH c); [|assumption]. apply regb_inv in Hr as (_ & _ & Hk).
    rewrite forallb_forall in Hk. apply Hk. eapply nth_error_In; eauto.
Qed.

Lemma regb_of t : is_openT t = false -> term_leavesb t = true -> regb t = true.
Proof.
  induction t as [l i o ks IH] using tree_ind'. simpl. intros Hc Ht.
  apply orb_false_iff in Hc as [-> Hc]. apply andb_true_iff in Ht as [-> Ht]. simpl.
  apply forallb_forall. intros k Hk. rewrite Forall_forall in IH. apply IH; [assumption | |].
  - destruct (is_openT k) eqn:E; [|reflexivity].
    assert (existsb is_openT ks = true) by (apply existsb_exists; eauto). congruence.
  - rewrite forallb_forall in Ht. auto.
Qed.

Lemma restrict_keys_NoDup {B} (g : var -> B) P i :
  NoDup (map g (map fst P)) -> NoDup (map g (map fst (restrict P i))).
Proof.
  induction P as [|[w p] P IH]; simpl; intro H; [constructor|].
  inversion H as [|? ? Hn Hd]; subst. specialize (IH Hd).
  assert (Hsub : forall x, In x (map g (map fst (restrict P i))) -> In x (map g (map fst P))).
  { clear. intros x Hx. apply in_map_iff in Hx as (w & <- & Hw). apply in_map.
    apply in_map_iff in Hw as ([w' p'] & <- & Hin). unfold restrict in Hin.
    apply in_flat_map in Hin as ([w2 p2] & Hin & Hx). simpl in Hx.
    destruct p2 as [|j r]; [contradiction|]. destruct (Nat.eqb j i); [|contradiction].
    destruct Hx as [Hx|[]]. inversion Hx; subst. simpl. apply in_map_iff. exists (w', j :: p'). auto. }
  unfold restrict in *. simpl. destruct p as [|j r]; [exact IH|].
  destruct (Nat.eqb j i); [|exact IH]. simpl. constructor; [|exact IH].
  intro Hin. apply Hn. apply Hsub. exact Hin.
Qed.

Definition entry_ok (t : tree) (here : path) (kv : var * (path * tree)) : Prop :=
  exists rel, fst (snd kv) = here ++ rel /\ subtree t rel = Some (snd (snd kv)) /\
              lbl (snd (snd kv)) = vtype (fst kv).

Lemma NoDup_app_inv {B} (l1 l2 : list B) : NoDup (l1 ++ l2) ->
  NoDup l1 /\ NoDup l2 /\ (forall x, In x l1 -> ~ In x l2).
Proof.
  induction l1 as [|x l1 IH]; simpl; intro H.
  - split; [constructor|]. split; [assumption|]. intros x [].
  - inversion H as [|? ? Hn Hd]; subst. destruct (IH Hd) as (H1 & H2 & H3).
    split; [constructor; [intro Hx; apply Hn; apply in_or_app; auto | assumption]|].
    split; [assumption|]. intros y [<-|Hy]; [intro Hy; apply Hn; apply in_or_app; auto | auto].
Qed.

Lemma complete_matchI t here (r : asg) :
  (forall l s', In (l, s') (py_leaves t) ->
     exists kv rel, In kv r /\ fst (snd kv) = here ++ rel /\ prefix rel l) ->
  complete_match t here r = true.
Proof.
  intro H. unfold complete_match. apply forallb_forall. intros [l s'] Hin.
  destruct (H l s' Hin) as (kv & rel & Hkv & Hp & Hpre).
  apply existsb_exists. exists kv. split; [assumption|]. cbv beta. change (fst (l, s')) with l.
  unfold path in *. rewrite Hp, skipn_app_len. apply prefixb_spec. assumption.
Qed.

Definition match_rel (m t : tree) (P : list (var * path)) (here : path) : Prop :=
  match smatch m t P here with
  | None => py_match m t P here = Ok None
  | Some bs => exists r, py_match m t P here = Ok (Some r) /\ strip r = bs /\
                 Forall (entry_ok t here) r /\ complete_match t here r = true
  end.

Lemma py_go_spec P here : forall km,
  Forall (fun k' => forall t P here, has_closed_nt_leaf k' = false -> mtree_okb k' P = true ->
            NoDup (map fst P) -> regb t = true -> match_rel k' t P here) km ->
  NoDup (map fst P) ->
  forall ks i acc,
  existsb has_closed_nt_leaf km = false -> ok_go mtree_okb P km i = true ->
  forallb regb ks = true -> length ks = length km ->
  match s_go P here km ks i with
  | None => py_go P here km ks i acc = Ok None
  | Some bs =>
      NoDup (map fst acc ++ map fst bs) ->
      exists r, py_go P here km ks i acc = Ok (Some (acc ++ r)) /\ strip r = bs /\
        (forall kv, In kv r -> exists j k, nth_error ks j = Some k /\ entry_ok k (here ++ [i + j]) kv) /\
        (forall j k l s', nth_error ks j = Some k -> In (l, s') (py_leaves k) ->
           exists kv rel, In kv r /\ fst (snd kv) = here ++ (i + j) :: rel /\ prefix rel l)
  end.
Proof.
  intros km HF HndP. induction HF as [|k' r' Hk' Hr' IHr]; intros ks i acc Hcl Hgo Hreg Hlen.
  - destruct ks; [|discriminate]. simpl. intros _. exists []. rewrite app_nil_r.
    split; [reflexivity|]. split; [reflexivity|]. split; [intros kv []|].
    intros j k l s' Hn. destruct j; discriminate.
  - destruct ks as [|k r]; [discriminate|]. rewrite s_go_cons, py_go_cons.
    simpl in Hcl. apply orb_false_iff in Hcl as [Hcl1 Hcl2].
    rewrite ok_go_cons in Hgo. apply andb_true_iff in Hgo as [Hok1 Hok2].
    simpl in Hreg. apply andb_true_iff in Hreg as [Hreg1 Hreg2]. simpl in Hlen.
    assert (Hlen' : length r = length r') by lia.
    assert (HndR : NoDup (map fst (restrict P i))).
    { pose proof (restrict_keys_NoDup (fun x : var => x) P i) as H. rewrite !map_id in H. auto. }
    pose proof (Hk' k (restrict P i) (here ++ [i]) Hcl1 Hok1 HndR Hreg1) as Hkid.
    unfold match_rel in Hkid.
    destruct (smatch k' k (restrict P i) (here ++ [i])) as [a|] eqn:Ea.
    2:{ rewrite Hkid. reflexivity. }
    destruct Hkid as (ra & Epy & Hstrip & Hent & Hcov). rewrite Epy.
    specialize (IHr r (S i) (dict_union acc ra) Hcl2 Hok2 Hreg2 Hlen').
    destruct (s_go P here r' r (S i)) as [b|] eqn:Eb; [|exact IHr].
    intro Hnd. rewrite map_app, app_assoc in Hnd.
    assert (Ea' : map fst a = map fst ra) by (rewrite <- Hstrip; apply map_fst_strip).
    rewrite Ea' in Hnd.
    assert (Hu : dict_union acc ra = acc ++ ra).
    { apply NoDup_app_inv in Hnd as (Hnd1 & _ & _). apply NoDup_app_inv in Hnd1 as (_ & H2 & H3).
      apply dict_union_fresh; [exact H2 | exact H3]. }
    rewrite Hu in IHr |- *. rewrite map_app in IHr. specialize (IHr Hnd).
    destruct IHr as (rb & Epy2 & Hstrip2 & Hent2 & Hcov2).
    exists (ra ++ rb). rewrite Epy2, <- app_assoc. split; [reflexivity|].
    split; [unfold strip in *; rewrite map_app, Hstrip, Hstrip2; reflexivity|]. split.
    + intros kv Hin. apply in_app_iff in Hin as [Hin|Hin].
      * exists 0, k. split; [reflexivity|]. rewrite Nat.add_0_r.
        rewrite Forall_forall in Hent. apply Hent. assumption.
      * destruct (Hent2 kv Hin) as (j & k2 & Hn & He). exists (S j), k2. split; [exact Hn|].
        replace (i + S j) with (S i + j) by lia. exact He.
    + intros j k2 l s' Hn Hl. destruct j as [|j].
      * simpl in Hn. inversion Hn; subst k2. rewrite Nat.add_0_r.
        unfold complete_match in Hcov. rewrite forallb_forall in Hcov. specialize (Hcov (l, s') Hl).
        apply existsb_exists in Hcov as (kv & Hkv & Hpre). simpl in Hpre.
        rewrite Forall_forall in Hent. destruct (Hent kv Hkv) as (rel & Hp & _).
        unfold path in *. rewrite Hp, skipn_app_len in Hpre. apply prefixb_spec in Hpre.
        exists kv, rel. split; [apply in_or_app; auto|]. split; [|assumption].
        rewrite Hp, <- app_assoc. reflexivity.
      * simpl in Hn. destruct (Hcov2 j k2 l s' Hn Hl) as (kv & rel & Hkv & Hp & Hpre).
        exists kv, rel. split; [apply in_or_app; auto|]. split; [|assumption].
        replace (i + S j) with (S i + j) by lia. exact Hp.
Qed.

Lemma has_closed_nt_leaf_unfold l i o ks :
  has_closed_nt_leaf (Node l i o ks) = (negb o && is_nil ks && is_nt l) || existsb has_closed_nt_leaf ks.
Proof. reflexivity. Qed.

(* Step (1) of the extension: on a well-formed prefix tree without closed nonterminal leaves
   and a regular subject, language.match never raises, answers None exactly when the
   specification's match is bottom, and otherwise returns the specification's assignment
   (decorated with the subtrees found at the assigned positions), which covers every leaf. *)
Local Opaque s_go py_go.
Theorem py_match_spec m : forall t P here,
  has_closed_nt_leaf m = false -> mtree_okb m P = true -> NoDup (map fst P) -> regb t = true ->
  match_rel m t P here.
Proof.
  induction m as [lm im om km IH] using tree_ind'. intros t P here Hcl Hok HndP Hreg.
  unfold match_rel. rewrite smatch_unfold, py_match_unfold.
  rewrite has_closed_nt_leaf_unfold in Hcl. apply orb_false_iff in Hcl as [Hcl1 Hcl2].
  destruct (regb_inv t Hreg) as (Hopn & Hterm & Hkids). rewrite Hopn.
  rewrite !andb_false_r, orb_false_r. simpl negb.
  destruct (str_eqb (lbl t) lm) eqn:El; simpl; [|reflexivity].
  apply str_eqb_eq in El.
  destruct km as [|k0 km'].
  - (* leaf of the prefix tree *)
    simpl in Hok. destruct P as [|[w [|j r]] [|y P']]; try discriminate.
    apply andb_true_iff in Hok as [Hty Hdum]. apply str_eqb_eq in Hty.
    simpl in Hcl1. rewrite andb_true_r in Hcl1.
    assert (Hleaf : om || is_nil (kids t) = true).
    { destruct om; [reflexivity|]. simpl in Hcl1. simpl. rewrite Hterm; [reflexivity|]. rewrite El. exact Hcl1. }
    simpl. rewrite Hleaf.
    assert (Hres : (if negb (is_nt (lbl t))
                    then if negb (is_dummy w && true) then Raise AssertErr
                         else if negb (str_eqb (vtype w ++ []) (lbl t)) then Raise AssertErr
                         else Ok (Some [(w, (here, t))])
                    else Ok (Some [(w, (here, t))])) = Ok (Some [(w, (here, t))])).
    { destruct (is_nt (lbl t)) eqn:Ent; simpl; [reflexivity|].
      rewrite El in Ent. rewrite Ent in Hdum. simpl in Hdum. rewrite Hdum. simpl.
      rewrite app_nil_r, Hty, El, str_eqb_refl. reflexivity. }
    exists [(w, (here, t))]. split; [exact Hres|]. split; [reflexivity|]. split.
    + constructor; [|constructor]. exists []. simpl. rewrite app_nil_r. repeat split.
      rewrite El. symmetry. assumption.
    + apply complete_matchI. intros l s' _. exists (w, (here, t)), [].
      split; [left; reflexivity|]. split; [simpl; rewrite app_nil_r; reflexivity | apply prefix_nil].
  - (* inner node *)
    rewrite mtree_okb_inner in Hok. apply andb_true_iff in Hok as [Hok Hgo].
    apply andb_true_iff in Hok as [Hom Hlt]. apply negb_true_iff in Hom. subst om.
    simpl. pose proof (inner_no_nil P _ Hlt) as Hnn. unfold path in *. rewrite Hnn. clear Hnn.
    rewrite (match_P_inner P _ _ _ Hlt).
    destruct (Nat.eqb (length (kids t)) (S (length km'))) eqn:Elen; simpl; [|reflexivity].
    apply Nat.eqb_eq in Elen.
    pose proof (py_go_spec P here (k0 :: km') IH HndP (kids t) 0 [] Hcl2 Hgo Hkids Elen) as Hspec.
    unfold path in *.
    destruct (s_go P here (k0 :: km') (kids t) 0) as [bs|] eqn:Es.
    2:{ rewrite Hspec. reflexivity. }
    assert (Hnd : NoDup (map fst (@nil (var * (path * tree))) ++ map fst bs)).
    { simpl.
      assert (Hperm : Permutation (map fst bs) (map fst P)).
      { apply (smatch_keys (Node lm im false (k0 :: km')) t P here bs).
        - rewrite mtree_okb_inner. apply andb_true_iff; split; [apply andb_true_iff; split; [reflexivity | exact Hlt] | exact Hgo].
        - rewrite smatch_unfold, El, str_eqb_refl. simpl. rewrite Elen, Nat.eqb_refl. simpl.
          rewrite (match_P_inner P _ _ _ Hlt). exact Es. }
      exact (Permutation_NoDup (Permutation_sym Hperm) HndP). }
    destruct (Hspec Hnd) as (r & Epy & Hstrip & Hent & Hcov). simpl in Epy. rewrite Epy.
    assert (Hcm : complete_match t here r = true).
    { apply complete_matchI. intros l s' Hl. apply in_py_leaves in Hl as [Hsub Hleaf].
      destruct l as [|j l].
      - simpl in Hsub. inversion Hsub; subst s'. rewrite Hleaf in Elen. discriminate.
      - simpl in Hsub. destruct (nth_error (kids t) j) as [k|] eqn:Ek; [|discriminate].
        destruct (Hcov j k l s' Ek) as (kv & rel & Hkv & Hp & Hpre); [apply in_py_leaves; auto|].
        exists kv, (j :: rel). split; [assumption|]. split; [exact Hp|]. apply prefix_cons. assumption. }
    rewrite Hcm. exists r. split; [reflexivity|]. split; [assumption|]. split; [|assumption].
    apply Forall_forall. intros kv Hkv. destruct (Hent kv Hkv) as (j & k & Hn & rel & Hp & Hsub & Hl).
    exists (j :: rel). split; [rewrite Hp, <- app_assoc; reflexivity|]. split; [|assumption].
    simpl. rewrite Hn. assumption.
Qed.
