(* C09 (proof extension) — facts about the model of `fresh_vars` (Logic/Rewrite.v):
   the decimal rendering `dec` is injective, the index search `first_free` (fuel = |used| + 1)
   always ends on a name that is NOT in `used` (pigeonhole), and `fresh_vars orig used`
   returns a renaming whose images carry pairwise distinct names, none of them in `used`,
   and the caller-visible set afterwards is `used` plus exactly these names. *)
From Coq Require Import List NArith Bool Arith Lia FinFun.
From ISLA Require Import Rewrite RewriteFacts.
Import ListNotations.

(* ---------- mem_str / mem_var as membership ---------- *)
Lemma mem_str_In s l : mem_str s l = true <-> In s l.
Proof.
  unfold mem_str. rewrite existsb_exists. split.
  - intros [x [Hin Hx]]. apply str_eqb_eq in Hx. now subst.
  - intros Hin. exists s. split; [assumption | apply str_eqb_refl].
Qed.

Lemma mem_str_false s l : mem_str s l = false <-> ~ In s l.
Proof.
  split.
  - intros H Hin. apply mem_str_In in Hin. congruence.
  - intros H. destruct (mem_str s l) eqn:E; [|reflexivity]. apply mem_str_In in E. contradiction.
Qed.

Lemma var_eqb_refl v : var_eqb v v = true.
Proof.
  unfold var_eqb. rewrite !str_eqb_refl. now destruct (vk v).
Qed.

Lemma var_eqb_iff v w : var_eqb v w = true <-> v = w.
Proof. split; [apply var_eqb_eq | intros ->; apply var_eqb_refl]. Qed.

Lemma var_eqb_false v w : var_eqb v w = false <-> v <> w.
Proof.
  split.
  - intros H E. subst. rewrite var_eqb_refl in H. discriminate.
  - intros H. destruct (var_eqb v w) eqn:E; [|reflexivity]. apply var_eqb_eq in E. contradiction.
Qed.

Lemma var_eqb_sym v w : var_eqb v w = var_eqb w v.
Proof.
  destruct (var_eqb v w) eqn:E1, (var_eqb w v) eqn:E2; try reflexivity.
  - apply var_eqb_eq in E1. subst. now rewrite var_eqb_refl in E2.
  - apply var_eqb_eq in E2. subst. now rewrite var_eqb_refl in E1.
Qed.

Lemma mem_var_In v l : mem_var v l = true <-> In v l.
Proof.
  unfold mem_var. rewrite existsb_exists. split.
  - intros [x [Hin Hx]]. apply var_eqb_eq in Hx. now subst.
  - intros Hin. exists v. split; [assumption | apply var_eqb_refl].
Qed.

Lemma mem_var_false v l : mem_var v l = false <-> ~ In v l.
Proof.
  split.
  - intros H Hin. apply mem_var_In in Hin. congruence.
  - intros H. destruct (mem_var v l) eqn:E; [|reflexivity]. apply mem_var_In in E. contradiction.
Qed.

(* ---------- dec is injective ---------- *)
Definition dval (l : str) : N := fold_left (fun a c => (10 * a + (c - 48))%N) l 0%N.

Lemma dval_snoc l c : dval (l ++ [c]) = (10 * dval l + (c - 48))%N.
Proof. unfold dval. now rewrite fold_left_app. Qed.

Lemma dec_digits_spec fuel : forall n acc, (n < 2 ^ N.of_nat fuel)%N ->
  exists ds, dec_digits fuel n acc = ds ++ acc /\ dval ds = n.
Proof.
  induction fuel as [|k IH]; intros n acc Hn.
  - simpl in Hn. assert (n = 0%N) by lia. subst. exists []. split; reflexivity.
  - cbn [dec_digits]. destruct (N.ltb_spec n 10) as [Hlt|Hge].
    + exists [(48 + n mod 10)%N]. split; [reflexivity|].
      rewrite N.mod_small by assumption. unfold dval. cbn [fold_left]. lia.
    + assert (Hdiv : (n / 10 < 2 ^ N.of_nat k)%N).
      { rewrite Nat2N.inj_succ, N.pow_succ_r' in Hn.
        apply N.div_lt_upper_bound; lia. }
      destruct (IH (n / 10)%N ((48 + n mod 10)%N :: acc) Hdiv) as [ds [Hds Hv]].
      exists (ds ++ [(48 + n mod 10)%N]). split.
      * rewrite Hds. now rewrite <- app_assoc.
      * rewrite dval_snoc, Hv.
        pose proof (N.div_mod n 10 ltac:(lia)) as Hdm.
        clear Hn Hdiv Hds IH. set (q := (n / 10)%N) in *. set (r := (n mod 10)%N) in *. lia.
Qed.

Lemma dec_val n : dval (dec n) = n.
Proof.
  unfold dec.
  assert (Hn : (n < 2 ^ N.of_nat (S (N.to_nat (N.log2 n))))%N).
  { rewrite Nat2N.inj_succ, N2Nat.id.
    destruct (N.eq_dec n 0) as [->|Hnz]; [reflexivity|].
    apply N.log2_spec. lia. }
  destruct (dec_digits_spec _ n [] Hn) as [ds [Hds Hv]].
  rewrite Hds, app_nil_r. exact Hv.
Qed.

Lemma dec_inj n m : dec n = dec m -> n = m.
Proof. intros H. rewrite <- (dec_val n), <- (dec_val m). now rewrite H. Qed.

Lemma idx_name_inj p i j : idx_name p i = idx_name p j -> i = j.
Proof.
  unfold idx_name. intros H. apply app_inv_head in H. inversion H as [Hd]. now apply dec_inj.
Qed.

(* ---------- first_free ends on a free name ---------- *)
Lemma first_free_stuck fuel p used : forall i,
  mem_str (idx_name p (first_free fuel p used i)) used = true ->
  forall j, (j <= fuel)%nat -> mem_str (idx_name p (i + N.of_nat j)%N) used = true.
Proof.
  induction fuel as [|k IH]; intros i H j Hj.
  - assert (j = 0)%nat by lia. subst. simpl in H. now rewrite N.add_0_r.
  - cbn [first_free] in H. destruct (mem_str (idx_name p i) used) eqn:Hi.
    + destruct j as [|j'].
      * now rewrite N.add_0_r.
      * replace (i + N.of_nat (S j'))%N with (N.succ i + N.of_nat j')%N by lia.
        apply (IH _ H). lia.
    + congruence.
Qed.

Lemma first_free_fresh p used :
  mem_str (idx_name p (first_free (S (length used)) p used 0%N)) used = false.
Proof.
  destruct (mem_str (idx_name p (first_free (S (length used)) p used 0%N)) used) eqn:E; [|reflexivity].
  exfalso.
  pose proof (first_free_stuck _ _ _ _ E) as Hall.
  set (l := map (fun j => idx_name p (N.of_nat j)) (seq 0 (S (S (length used))))).
  assert (Hnd : NoDup l).
  { unfold l. apply FinFun.Injective_map_NoDup; [|apply seq_NoDup].
    intros a b Hab. apply idx_name_inj in Hab. lia. }
  assert (Hincl : incl l used).
  { intros s Hs. unfold l in Hs. apply in_map_iff in Hs. destruct Hs as [j [Hj Hin]].
    apply in_seq in Hin. subst s. apply mem_str_In. apply (Hall j). lia. }
  pose proof (NoDup_incl_length Hnd Hincl) as Hlen.
  unfold l in Hlen. rewrite map_length, seq_length in Hlen. lia.
Qed.

(* ---------- fresh_vars ---------- *)
Definition img_names (rho : list (var * var)) : list str := map (fun p => vname (snd p)) rho.

(* every pair is either kept, or renamed to a plain BoundVariable of the same type *)
Definition pair_ok (p : var * var) : Prop :=
  snd p = fst p \/ (vk (snd p) = VBound /\ vtype (snd p) = vtype (fst p)).

Lemma fresh_vars_spec orig : forall used rho u, fresh_vars orig used = (rho, u) ->
  map fst rho = orig /\
  u = rev (img_names rho) ++ used /\
  Forall pair_ok rho /\
  NoDup (img_names rho) /\
  (forall n, In n (img_names rho) -> ~ In n used).
Proof.
  induction orig as [|v orig IH]; intros used rho u H; simpl in H.
  - inversion H. subst. repeat split; try constructor. intros n [].
  - destruct (negb (mem_str (vname v) used)) eqn:Hm.
    + destruct (fresh_vars orig (vname v :: used)) as [rho' u'] eqn:Hr. inversion H. subst. clear H.
      destruct (IH _ _ _ Hr) as [H1 [H2 [H3 [H4 H5]]]].
      apply negb_true_iff in Hm. apply mem_str_false in Hm.
      repeat split.
      * simpl. now rewrite H1.
      * rewrite H2. unfold img_names. simpl. now rewrite <- app_assoc.
      * constructor; [left; reflexivity | assumption].
      * unfold img_names. simpl. constructor; [|assumption].
        intros Hin. apply (H5 _ Hin). now left.
      * intros n Hn Hu. unfold img_names in Hn. simpl in Hn. destruct Hn as [Hn|Hn].
        -- subst. contradiction.
        -- apply (H5 _ Hn). now right.
    + match type of H with (let (_, _) := fresh_vars orig (?NM :: used) in _) = _ =>
        set (nm := NM) in *; destruct (fresh_vars orig (nm :: used)) as [rho' u'] eqn:Hr end.
      inversion H. subst rho u. clear H.
      destruct (IH _ _ _ Hr) as [H1 [H2 [H3 [H4 H5]]]].
      assert (Hfresh : ~ In nm used).
      { apply mem_str_false. unfold nm. apply first_free_fresh. }
      repeat split.
      * simpl. now rewrite H1.
      * rewrite H2. unfold img_names. simpl. now rewrite <- app_assoc.
      * constructor; [right; split; reflexivity | assumption].
      * unfold img_names. simpl. constructor; [|assumption].
        intros Hin. apply (H5 _ Hin). now left.
      * intros n Hn Hu. unfold img_names in Hn. simpl in Hn. destruct Hn as [Hn|Hn].
        -- subst. contradiction.
        -- apply (H5 _ Hn). now right.
Qed.
