(* MODEL (C06) of the parts of isla/evaluator.py that decide verdicts on trees with OPEN leaves:
   `quantified_formula_might_match`, `can_extend_leaf_to_make_quantifier_match_parent`,
   `DerivationTree.is_potential_prefix`, grammar-graph reachability (`GrammarGraph.reachable`,
   NOT reflexive), and SMT atoms carrying tree substitutions (`SMTFormula.substitutions`).
   It instantiates the Section of Logic/Eval.v (model of evaluate / evaluate_legacy by the C03
   builder), which takes `quantified_formula_might_match` as a Section variable.
   No proofs in this file. *)
From ISLA Require Export Eval Grammar.
From Coq Require Import ZArith.

(* ------------------------------------------------------------------ *)
(* grammar-graph reachability: reachable(A, B) iff B occurs in an alternative of A or of a
   nonterminal reachable from A (one step at least: "Reachability is not reflexive!") *)
(* ------------------------------------------------------------------ *)
Definition succs (g : grammar) (A : str) : list str := filter is_nt (concat (alts g A)).

Definition mem_str (x : str) (l : list str) : bool := existsb (str_eqb x) l.

Fixpoint add_new (xs acc : list str) : list str :=
  match xs with
  | [] => acc
  | x :: xs' => if mem_str x acc then add_new xs' acc else add_new xs' (acc ++ [x])
  end.

(* one round: add the successors of every member *)
Definition reach_step (g : grammar) (S : list str) : list str := add_new (flat_map (succs g) S) S.

Fixpoint reach_iter (g : grammar) (fuel : nat) (S : list str) : list str :=
  match fuel with O => S | Datatypes.S n => reach_iter g n (reach_step g S) end.

(* fuel = number of rules of the grammar *)
Definition reach_set (g : grammar) (A : str) : list str := reach_iter g (length g) (add_new (succs g A) []).
Definition reachb (g : grammar) (A B : str) : bool := mem_str B (reach_set g A).

(* the computed set is closed under successors (always true with fuel = |g| by a pigeonhole
   argument that is NOT proved here; the theorems take this decidable check as a premise and the
   harness evaluates it on every grammar it uses) *)
Definition set_closedb (g : grammar) (S : list str) : bool :=
  forallb (fun C => forallb (fun D => mem_str D S) (succs g C)) S.
Definition reach_closedb (g : grammar) : bool :=
  forallb (fun r => set_closedb g (reach_set g (fst r))) g.

(* ------------------------------------------------------------------ *)
(* DerivationTree.is_potential_prefix (parallel traversal; the order does not matter for the
   boolean result) *)
(* ------------------------------------------------------------------ *)
Fixpoint pot_prefix (m : tree) : tree -> bool :=
  fun o =>
  match m with
  | Node _ _ _ km =>
      if nonempty km && nonempty (kids o) && negb (Nat.eqb (length km) (length (kids o))) then false
      else (fix go (km ko : list tree) : bool :=
              match km, ko with
              | k1 :: r1, k2 :: r2 => str_eqb (lbl k1) (lbl k2) && pot_prefix k1 k2 && go r1 r2
              | _, _ => true
              end) km (kids o)
  end.
Definition is_potential_prefix (m o : tree) : bool := str_eqb (lbl m) (lbl o) && pot_prefix m o.

(* DerivationTree.is_valid_path *)
Definition valid_pathb (t : tree) (p : path) : bool :=
  match subtree t p with Some _ => true | None => false end.

(* while not valid: path = path[:-1] *)
Fixpoint trim_valid (m : tree) (p : path) (fuel : nat) : path :=
  if valid_pathb m p then p else
  match fuel with O => [] | S n => trim_valid m (removelast p) n end.

Section QMM.
  Variable g : grammar.
  Variable ref : tree.
  (* ForallFormula.already_matched (ids); always [] for formulas given to evaluate() by a user,
     the solver adds to it *)
  Variable am : list N.

  Definition already_matched (s : tree) : bool := existsb (N.eqb (tid s)) am.

  (* reverse_var_map = {path: var for var, path in var_map.items()} : later entries win *)
  Definition rev_lookup (P : list (var * path)) (q : path) : option var :=
    match find (fun vp => path_eqb (snd vp) q) (rev P) with Some vp => Some (fst vp) | None => None end.

  (* the body of the inner loop for one ancestor index idx; None = `continue` *)
  Definition ce_at (node : tree) (m : tree) (P : list (var * path)) (leaf : path) (idx : nat) : bool :=
    match subtree ref (firstn idx leaf) with
    | None => false
    | Some s =>
        if negb (is_potential_prefix m s) || already_matched s then false else
        let p := trim_valid m (skipn idx leaf) (length leaf) in
        let mapping := filter (fun q => prefixb p q) (map snd P) in
        if forallb (fun q => match rev_lookup P q with
                             | Some w => is_dummy w && is_nt (vtype w)
                             | None => false end) mapping
        then false
        else match subtree m p with
             | None => false
             | Some nip => (str_eqb (lbl node) (lbl nip) && nonempty (kids nip))
                           || reachb g (lbl node) (lbl nip)
             end
    end.

  (* `assert mapping_paths` of can_extend_leaf...: recorded separately (the harness checks that
     it never fires; qmm is boolean in Eval.v) *)
  Definition ce_assert_fails (me : mexpr) (leaf : path) : bool :=
    existsb (fun mP =>
      existsb (fun idx =>
        match subtree ref (firstn idx leaf) with
        | None => false
        | Some s =>
            if negb (is_potential_prefix (fst mP) s) || already_matched s then false else
            is_nil (filter (fun q => prefixb (trim_valid (fst mP) (skipn idx leaf) (length leaf)) q)
                           (map snd (snd mP)))
        end) (seq 0 (length leaf))) (me_trees me).

  (* can_extend_leaf_to_make_quantifier_match_parent *)
  Definition can_extend (me : mexpr) (leaf : path) : bool :=
    match subtree ref leaf with
    | None => false
    | Some node =>
        existsb (fun mP => existsb (ce_at node (fst mP) (snd mP) leaf) (rev (seq 0 (length leaf))))
                (me_trees me)
    end.

  (* quantified_formula_might_match(qfd_formula, path_to_nonterminal, tree=ref, grammar, reachable)
     for a quantifier with bound variable v whose `in` tree sits at in_path of ref.  The recursive
     already-matched branch looks at the strict descendants of the open leaf: there are none. *)
  Definition qmm3 (v : var) (in_path : path) (m : option mexpr) (leaf : path) : bool :=
    match subtree ref leaf with
    | None => false
    | Some node =>
        if negb (prefixb in_path leaf) then false
        else if already_matched node then opn node && reachb g (lbl node) (vtype v)
        else if str_eqb (vtype v) (lbl node) then match m with Some _ => true | None => false end
        else if reachb g (lbl node) (vtype v) then true
        else match m with
             | None => false
             | Some me => can_extend me leaf
             end
    end.
End QMM.

(* ------------------------------------------------------------------ *)
(* SMT atoms with tree substitutions: the concrete family `atom` of Eval.v plus the dictionary
   SMTFormula.substitutions (open trees substituted for variables are kept there; closed ones
   are inlined as string literals). *)
(* ------------------------------------------------------------------ *)
Record atom3 := MkA3 { a3_base : atom; a3_subst : list (var * tree) }.

Definition afree3 (x : atom3) : list var :=
  filter (fun v => negb (dict_mem (a3_subst x) v)) (atom_free (a3_base x)).
Definition aopen3 (x : atom3) : bool := existsb (fun vt => is_openT (snd vt)) (a3_subst x).

(* value of a term: None = KeyError, Some None = the assigned tree is open *)
Definition sterm_val3 (sub : list (var * tree)) (a : asg) (x : sterm) : option (option str) :=
  match x with
  | SLit s => Some (Some s)
  | SVar v =>
      match dict_get sub v with
      | Some t => Some (Some (yield t))           (* closed here: aopen3 is tested before *)
      | None => match by_name a (vname v) with
                | Some t => if is_openT t then Some None else Some (Some (yield t))
                | None => None
                end
      end
  end.

Definition aeval3 (x : atom3) (a : asg) : res TV :=
  let sub := a3_subst x in
  match a3_base x with
  | ABool b => Ok (tv_of_bool b)
  | AStr neg s t =>
      match sterm_val3 sub a s, sterm_val3 sub a t with
      | Some (Some u), Some (Some w) => Ok (tv_of_bool (xorb neg (str_eqb u w)))
      | Some _, Some _ => Ok UU                   (* any(inst.is_open() ...) -> unknown *)
      | _, _ => Raise KeyErr
      end
  | ALen op s n =>
      match sterm_val3 sub a s with
      | Some (Some u) => Ok (tv_of_bool (cmp_eval op (Z.of_nat (length u)) n))
      | Some None => Ok UU
      | None => Raise KeyErr
      end
  end.

(* SMTFormula.substitute_expressions({cst: t}) *)
Definition ainst3 (cst : var) (t : tree) (x : atom3) : res atom3 :=
  if negb (existsb (var_eqb cst) (afree3 x)) then Ok x
  else if is_openT t then Ok (MkA3 (a3_base x) (a3_subst x ++ [(cst, t)]))
  else
    let y := match a3_base x with
             | AStr neg s u => AStr neg (sterm_inst cst t s) (sterm_inst cst t u)
             | ALen op s n => ALen op (sterm_inst cst t s) n
             | ABool b => ABool b
             end in
    let x' := MkA3 y (a3_subst x) in
    if is_nil (afree3 x') && is_nil (a3_subst x)
    then match aeval3 x' [] with
         | Ok TT => Ok (MkA3 (ABool true) []) | Ok FF => Ok (MkA3 (ABool false) [])
         | Ok UU => Raise AssertErr | Raise e => Raise e end
    else Ok x'.

(* ------------------------------------------------------------------ *)
(* what the harness runs *)
(* ------------------------------------------------------------------ *)
(* count on an open tree that can still gain needles and has fewer than the target: ISLa runs a
   tree-insertion search there (isla_predicates.count, unmodelled).  The model marks the case;
   the harness skips the functional comparison for it (the implication of the property is still
   checked on the implementation). *)
Definition count_open3 : tree -> str -> Z -> res TV := fun _ _ _ => Raise NotImpl.
Definition no_strategy3 : tree -> formula atom3 -> res TV := fun _ _ => Raise NotImpl.

Definition m3_qmm (g : grammar) (T : tree) : var -> path -> option mexpr -> asg -> path -> bool :=
  fun v in_path m _ leaf => qmm3 g T [] v in_path m leaf.

Definition m3_legacy (g : grammar) (T : tree) (f : formula atom3) : res TV :=
  eval_legacy atom3 afree3 aopen3 aeval3 (m3_qmm g T) (reachb g) count_open3 T f [].

Definition m3_evaluate (g : grammar) (T : tree) (cst : var) (f : formula atom3) : res TV :=
  evaluate atom3 afree3 aopen3 aeval3 ainst3 (m3_qmm g T) (reachb g) count_open3 no_strategy3 T cst f.

(* ------------------------------------------------------------------ *)
(* known-finding classes (guards of the _partial theorems) *)
(* ------------------------------------------------------------------ *)
Section Classes.
  Variable A : Type.
  (* types of the tree quantifiers without match expression / does a match expression occur /
     names of the structural predicates used *)
  Fixpoint qtypes (f : formula A) : list str :=
    match f with
    | FSmt _ | FSPred _ _ | FSemPred _ _ => []
    | FNot h => qtypes h
    | FAnd fs | FOr fs => flat_map qtypes fs
    | FForall v _ _ b | FExists v _ _ b => vtype v :: qtypes b
    | FForallInt _ b | FExistsInt _ b => qtypes b
    end.
  Fixpoint has_mexpr (f : formula A) : bool :=
    match f with
    | FSmt _ | FSPred _ _ | FSemPred _ _ => false
    | FNot h => has_mexpr h
    | FAnd fs | FOr fs => existsb has_mexpr fs
    | FForall _ _ m b | FExists _ _ m b => (match m with Some _ => true | None => false end) || has_mexpr b
    | FForallInt _ b | FExistsInt _ b => has_mexpr b
    end.
  Fixpoint spred_names (f : formula A) : list str :=
    match f with
    | FSmt _ | FSemPred _ _ => []
    | FSPred n _ => [n]
    | FNot h => spred_names h
    | FAnd fs | FOr fs => flat_map spred_names fs
    | FForall _ _ _ b | FExists _ _ _ b | FForallInt _ b | FExistsInt _ b => spred_names b
    end.
  Fixpoint has_sempred (f : formula A) : bool :=
    match f with
    | FSmt _ | FSPred _ _ => false
    | FSemPred _ _ => true
    | FNot h => has_sempred h
    | FAnd fs | FOr fs => existsb has_sempred fs
    | FForall _ _ _ b | FExists _ _ _ b | FForallInt _ b | FExistsInt _ b => has_sempred b
    end.
  Fixpoint has_numq3 (f : formula A) : bool :=
    match f with
    | FSmt _ | FSPred _ _ | FSemPred _ _ => false
    | FNot h => has_numq3 h
    | FAnd fs | FOr fs => existsb has_numq3 fs
    | FForall _ _ _ b | FExists _ _ _ b => has_numq3 b
    | FForallInt _ _ | FExistsInt _ _ => true
    end.

  (* K_selfrec_open: the tree has an open leaf whose nonterminal is the type of a quantifier of
     the formula AND can reach itself.  quantified_formula_might_match answers "no future match"
     for a leaf of the quantified type (it is a match already), although its expansion can
     contain further nodes of that type. *)
  Definition K_selfrec_open (g : grammar) (t : tree) (f : formula A) : bool :=
    existsb (fun ps => opn (snd ps) && mem_str (lbl (snd ps)) (qtypes f)
                       && reachb g (lbl (snd ps)) (lbl (snd ps))) (nodes t).

  (* K_nth_open: the formula uses nth and the tree has an open leaf (nth counts the nodes of one
     label in pre-order; a completion can add earlier ones) *)
  Definition K_nth_open (t : tree) (f : formula A) : bool :=
    mem_str s_nth (spred_names f) && is_openT t.
End Classes.

Definition m3_kselfrec (g : grammar) (T : tree) (f : formula atom3) : bool := K_selfrec_open atom3 g T f.
Definition m3_knth (T : tree) (f : formula atom3) : bool := K_nth_open atom3 T f.

(* formulas over the plain atom family (as encoded by the C03 harness) -> atoms with an empty
   substitution dictionary *)
Fixpoint lift3 (f : formula atom) : formula atom3 :=
  match f with
  | FSmt a => FSmt (MkA3 a [])
  | FSPred n args => FSPred n args
  | FSemPred n args => FSemPred n args
  | FNot h => FNot (lift3 h)
  | FAnd fs => FAnd (map lift3 fs)
  | FOr fs => FOr (map lift3 fs)
  | FForall v i m b => FForall v i m (lift3 b)
  | FExists v i m b => FExists v i m (lift3 b)
  | FForallInt v b => FForallInt v (lift3 b)
  | FExistsInt v b => FExistsInt v (lift3 b)
  end.

(* K_count_insert: a count atom in the regime where isla_predicates.count runs its tree-insertion
   search (fewer needles than the target, an open leaf can still reach the needle) — the search is a
   heuristic and answers FALSE when it finds no candidate, although a completion with exactly the
   target number can exist.  For count(<constant>, needle, k) the regime is decided on the whole
   tree; for a bound variable as in-tree it is over-approximated by k >= 1. *)
Section ClassCount.
  Variable A : Type.
  Fixpoint count_atoms (f : formula A) : list (parg * str * str) :=
    match f with
    | FSmt _ | FSPred _ _ => []
    | FSemPred n args =>
        match args with
        | [x; PStr needle; PStr num] => if str_eqb n s_count then [(x, needle, num)] else []
        | _ => []
        end
    | FNot h => count_atoms h
    | FAnd fs | FOr fs => flat_map count_atoms fs
    | FForall _ _ _ b | FExists _ _ _ b | FForallInt _ b | FExistsInt _ b => count_atoms b
    end.

  Definition K_count_insert (g : grammar) (t : tree) (f : formula A) : bool :=
    existsb (fun c =>
      let '(x, needle, num) := c in
      existsb (fun ps => opn (snd ps) && reachb g (lbl (snd ps)) needle) (nodes t)
      && match py_int num with
         | Some k =>
             match x with
             | PVar v => match vk v with
                         | VConst => (Z.of_nat (count_nodes needle t) <? k)%Z
                         | _ => (1 <=? k)%Z
                         end
             | _ => (1 <=? k)%Z
             end
         | None => false
         end) (count_atoms f).
End ClassCount.
Definition m3_kcount (g : grammar) (T : tree) (f : formula atom3) : bool := K_count_insert atom3 g T f.
