(* C08 wave 3 — ensure_unique_bound_variables (`uniq`) on formulas whose binder names are pairwise distinct and
   not in the used-name set: no renaming happens, the only change is the re-association of and/or through the
   smart constructors, so the meaning is unchanged; with fuel > fsize the function returns. *)
From Coq Require Import List NArith Bool Arith Lia.
Import ListNotations.
From ISLA Require Import Str Outcome Tree Grammar Formula Sugar SugarFacts SugarMore SugarTotal.

(* every binder occurrence (multiset, pre-order) *)
Fixpoint binders (f : cform) : list var :=
  match f with
  | FNot x => binders x
  | FAnd fs | FOr fs => flat_map binders fs
  | FForall v i m b | FExists v i m b => (v :: me_bound m) ++ binders b
  | FForallInt v b | FExistsInt v b => v :: binders b
  | _ => []
  end.

Fixpoint nodupb (l : list str) : bool :=
  match l with [] => true | x :: r => negb (smem x r) && nodupb r end.

Lemma smem_In : forall s l, smem s l = true <-> In s l.
Proof.
  intros s l. unfold smem. rewrite existsb_exists. split.
  - intros [x [Hx E]]. apply str_eqb_eq in E. subst. exact Hx.
  - intros H. exists s. split; [exact H|apply str_eqb_refl].
Qed.
Lemma smem_false : forall s l, smem s l = false <-> ~ In s l.
Proof.
  intros s l. split.
  - intros H Hin. apply smem_In in Hin. congruence.
  - intros H. destruct (smem s l) eqn:E; [|reflexivity]. apply smem_In in E. contradiction.
Qed.

Lemma nodupb_NoDup : forall l, nodupb l = true -> NoDup l.
Proof.
  induction l as [|x l IH]; intros H; [constructor|]. simpl in H. apply andb_true_iff in H as [H1 H2].
  constructor; [apply smem_false; apply negb_true_iff; exact H1|apply IH; exact H2].
Qed.

Lemma sadd_In : forall x s l, In x (sadd s l) <-> x = s \/ In x l.
Proof.
  intros x s l. unfold sadd. destruct (smem s l) eqn:E.
  - apply smem_In in E. split; [auto|intros [->|H]; auto].
  - rewrite in_app_iff. simpl. split; [intros [H|[H|[]]]; auto|intros [H|H]; auto].
Qed.
Lemma sunion_In : forall x b a, In x (sunion a b) <-> In x a \/ In x b.
Proof.
  intros x b. unfold sunion. induction b as [|s b IH]; intros a; simpl.
  - split; [auto|intros [H|[]]; exact H].
  - rewrite IH, sadd_In. split; [intros [[H|H]|H]; auto|intros [H|[H|H]]; auto].
Qed.

Lemma vunion_nodup : forall b a, NoDup (a ++ b) -> vunion a b = a ++ b.
Proof.
  unfold vunion. induction b as [|x b IH]; intros a H; simpl; [rewrite app_nil_r; reflexivity|].
  assert (Hx : vmem x a = false).
  { apply vmem_false. intros Hin. apply NoDup_remove_2 in H. apply H. apply in_or_app. left; exact Hin. }
  unfold vadd. rewrite Hx. rewrite IH; rewrite <- app_assoc; simpl; [reflexivity|exact H].
Qed.

Lemma NoDup_map_inv' : forall {X Y} (h : X -> Y) l, NoDup (map h l) -> NoDup l.
Proof.
  intros X Y h l. induction l as [|x l IH]; intros H; [constructor|]. simpl in H. inversion H as [|? ? Hn Hd]; subst.
  constructor; [intros Hin; apply Hn; apply in_map; exact Hin|apply IH; exact Hd].
Qed.

Lemma NoDup_app_l : forall {X} (a b : list X), NoDup (a ++ b) -> NoDup a.
Proof. intros X a b. induction a as [|x a IH]; intros H; [constructor|]. simpl in H. inversion H as [|? ? Hn Hd]; subst.
       constructor; [intros Hin; apply Hn; apply in_or_app; left; exact Hin|apply IH; exact Hd]. Qed.
Lemma NoDup_app_r : forall {X} (a b : list X), NoDup (a ++ b) -> NoDup b.
Proof. intros X a b. induction a as [|x a IH]; intros H; [exact H|]. simpl in H. inversion H; subst. apply IH; assumption. Qed.
Lemma NoDup_app_disj : forall {X} (a b : list X) x, NoDup (a ++ b) -> In x a -> In x b -> False.
Proof.
  intros X a b x. induction a as [|y a IH]; intros H Ha Hb; [destruct Ha|]. simpl in H. inversion H as [|? ? Hn Hd]; subst.
  destruct Ha as [->|Ha]; [apply Hn; apply in_or_app; right; exact Hb|exact (IH Hd Ha Hb)].
Qed.

Lemma qbound_nodup : forall v m, NoDup (names (v :: me_bound m)) -> qbound v m = v :: me_bound m.
Proof. intros v m H. unfold qbound. apply (vunion_nodup (me_bound m) [v]). simpl. apply (NoDup_map_inv' vname). exact H. Qed.

(* ---------- no renaming ---------- *)
Definition idren (l : list var) : ren := map (fun v => (v, v)) l.

Lemma fresh_vars_id : forall own U, (forall v, In v own -> ~ In (vname v) U) -> NoDup (names own) ->
  fresh_vars own U = (idren own, U ++ names own).
Proof.
  induction own as [|v r IH]; intros U HU Hnd; simpl; [rewrite app_nil_r; reflexivity|].
  assert (E : smem (vname v) U = false) by (apply smem_false; apply HU; left; reflexivity).
  rewrite E. simpl in Hnd. inversion Hnd as [|? ? Hn Hd]; subst.
  rewrite IH; [rewrite <- app_assoc; reflexivity| |exact Hd].
  intros w Hw Hin. apply in_app_iff in Hin as [Hin|[Hin|[]]]; [exact (HU w (or_intror Hw) Hin)|].
  apply Hn. rewrite Hin. apply in_map. exact Hw.
Qed.

Lemma rlook_id : forall l x, rlook (idren l) x = x.
Proof.
  induction l as [|a l IH]; intros x; simpl; [reflexivity|].
  destruct (var_eqb a x) eqn:E; [apply var_eqb_eq; exact E|apply IH].
Qed.
Lemma map_rlook_id : forall l xs, map (rlook (idren l)) xs = xs.
Proof. intros l xs. induction xs as [|x xs IH]; simpl; [reflexivity|]. rewrite rlook_id, IH. reflexivity. Qed.
Lemma sub_me_id : forall l m, sub_me (idren l) m = m.
Proof. intros l [[el tr]|]; simpl; [rewrite map_rlook_id|]; reflexivity. Qed.
Lemma sub_in_id : forall l i, sub_in (idren l) i = i.
Proof. intros l [v|t]; simpl; [rewrite rlook_id|]; reflexivity. Qed.
Lemma map_sub_arg_id : forall l args, map (sub_arg (idren l)) args = args.
Proof. intros l args. induction args as [|a args IH]; simpl; [reflexivity|]. rewrite IH.
       destruct a as [v|s|t]; simpl; [rewrite rlook_id|..]; reflexivity. Qed.
Lemma sub_id : forall l f, sub (idren l) f = f.
Proof.
  intros l f. induction f as [a|n args|n args|g IH|fs IH|fs IH|v i m b IH|v i m b IH|v b IH|v b IH]
    using formula_ind'; simpl.
  - rewrite map_rlook_id. destruct a; reflexivity.
  - rewrite map_sub_arg_id; reflexivity.
  - rewrite map_sub_arg_id; reflexivity.
  - rewrite IH; reflexivity.
  - f_equal. induction IH as [|g fs Hg Hfs IHfs]; simpl; [reflexivity|]. rewrite Hg, IHfs. reflexivity.
  - f_equal. induction IH as [|g fs Hg Hfs IHfs]; simpl; [reflexivity|]. rewrite Hg, IHfs. reflexivity.
  - rewrite rlook_id, sub_in_id, sub_me_id, IH. reflexivity.
  - rewrite rlook_id, sub_in_id, sub_me_id, IH. reflexivity.
  - rewrite rlook_id, IH. reflexivity.
  - rewrite rlook_id, IH. reflexivity.
Qed.

Lemma bvars_binders : forall f x, In x (bvars f) -> In x (binders f).
Proof.
  intros f. induction f as [a|n args|n args|g IH|fs IH|fs IH|v i m b IH|v i m b IH|v b IH|v b IH]
    using formula_ind'; intros x H; simpl in *; try contradiction; auto.
  - apply fvs_In in H as [g [Hg Hx]]. apply in_flat_map. exists g. split; [exact Hg|].
    rewrite Forall_forall in IH. apply IH; assumption.
  - apply fvs_In in H as [g [Hg Hx]]. apply in_flat_map. exists g. split; [exact Hg|].
    rewrite Forall_forall in IH. apply IH; assumption.
  - apply vunion_In in H as [H|H].
    + apply qbound_In in H as [->|H]; [left; reflexivity|right; apply in_or_app; left; exact H].
    + right. apply in_or_app. right. apply IH; exact H.
  - apply vunion_In in H as [H|H].
    + apply qbound_In in H as [->|H]; [left; reflexivity|right; apply in_or_app; left; exact H].
    + right. apply in_or_app. right. apply IH; exact H.
  - apply vunion_In in H as [[->|[]]|H]; [left; reflexivity|right; apply IH; exact H].
  - apply vunion_In in H as [[->|[]]|H]; [left; reflexivity|right; apply IH; exact H].
Qed.

Lemma NoDup_names_disj : forall (a b : list var) x y, NoDup (names (a ++ b)) -> In x a -> In y b -> vname x <> vname y.
Proof.
  intros a b x y H Hx Hy E. unfold names in H. rewrite map_app in H.
  apply (NoDup_app_disj _ _ (vname x) H); [apply in_map; exact Hx|rewrite E; apply in_map; exact Hy].
Qed.

Section UniqSem.
  Variable D : Type.
  Variable aev : N -> list D -> bool.
  Variable pev : str -> list (D + str) -> bool.
  Variable dom : D -> var -> option mexpr -> list (list (var * D)).
  Variable idom : list D.
  Variable tval : tree -> D.
  Hypothesis dom_ext : forall d v m k, mexpr_eqb m k = true -> dom d v m = dom d v k.
  Notation ev := (ev D aev pev dom idom tval).

  Definition sem_eq (f g : cform) : Prop := forall rho, ev rho f = ev rho g.

  Definition ustep (n' : nat) (acc : res (list cform * list str)) (g : cform) : res (list cform * list str) :=
    bind acc (fun '(done, Ua) => bind (uniq n' Ua g) (fun '(g', Ub) => Ok (done ++ [g'], Ub))).

  Definition uniq_spec (n : nat) : Prop :=
    forall U f, fsize f < n -> arity_ok f = true -> NoDup (names (binders f)) ->
      (forall x, In x (names (binders f)) -> ~ In x U) ->
      exists f' U', uniq n U f = Ok (f', U') /\ sem_eq f' f /\
                    (forall x, In x U' -> In x U \/ In x (names (binders f))).

  Lemma many_ok : forall n', uniq_spec n' ->
    forall fs, (forall g, In g fs -> fsize g < n') -> forallb arity_ok fs = true ->
      NoDup (names (flat_map binders fs)) ->
      forall done Ua, (forall x, In x (names (flat_map binders fs)) -> ~ In x Ua) ->
      exists gs U', fold_left (ustep n') fs (Ok (done, Ua)) = Ok (done ++ gs, U') /\
                    Forall2 sem_eq gs fs /\
                    (forall x, In x U' -> In x Ua \/ In x (names (flat_map binders fs))).
  Proof.
    intros n' IH. induction fs as [|g fs IHfs]; intros Hsz Har Hnd done Ua HU; simpl.
    - exists [], Ua. rewrite app_nil_r. repeat split; [constructor|auto].
    - simpl in Har. apply andb_true_iff in Har as [Hag Har].
      simpl in Hnd, HU. unfold names in Hnd, HU. rewrite map_app in Hnd, HU.
      destruct (IH Ua g (Hsz g (or_introl eq_refl)) Hag (NoDup_app_l _ _ Hnd)) as [g' [Ub [Eg [Sg HUb]]]].
      { intros x Hx. apply HU. apply in_or_app. left; exact Hx. }
      rewrite Eg. cbn [bind].
      destruct (IHfs (fun h Hh => Hsz h (or_intror Hh)) Har (NoDup_app_r _ _ Hnd) (done ++ [g']) Ub) as [gs [U' [Egs [Sgs HU']]]].
      { intros x Hx Hin. apply HUb in Hin as [Hin|Hin].
        - apply (HU x); [apply in_or_app; right; exact Hx|exact Hin].
        - exact (NoDup_app_disj _ _ x Hnd Hin Hx). }
      exists (g' :: gs), U'. fold (ustep n'). rewrite Egs. rewrite <- app_assoc. simpl. repeat split.
      + constructor; assumption.
      + intros x Hx. unfold names. rewrite map_app. apply HU' in Hx as [Hx|Hx].
        * apply HUb in Hx as [Hx|Hx]; [left; exact Hx|right; apply in_or_app; left; exact Hx].
        * right. apply in_or_app. right; exact Hx.
  Qed.

  Lemma forall2_forallb : forall gs fs rho, Forall2 sem_eq gs fs -> forallb (ev rho) gs = forallb (ev rho) fs.
  Proof. intros gs fs rho H. induction H as [|g f gs fs Hgf H IH]; simpl; [reflexivity|]. rewrite (Hgf rho), IH. reflexivity. Qed.
  Lemma forall2_existsb : forall gs fs rho, Forall2 sem_eq gs fs -> existsb (ev rho) gs = existsb (ev rho) fs.
  Proof. intros gs fs rho H. induction H as [|g f gs fs Hgf H IH]; simpl; [reflexivity|]. rewrite (Hgf rho), IH. reflexivity. Qed.

  Lemma uniq_S : forall n' U f, uniq (S n') U f =
    let quant (fa : bool) v i m b :=
      let own := qbound v m in
      let U1 := sunion U (names (vdiff (bvars f) own)) in
      let '(s, U2) := fresh_vars own U1 in
      let Ul := sunion U (filter (fun x => negb (smem x U1)) U2) in
      bind (uniq n' Ul (sub s b)) (fun '(b', _) =>
        Ok ((if fa then FForall else FExists) (rlook s v) (sub_in s i) (sub_me s m) b', U2)) in
    let many (op : cform -> cform -> cform) (fs : list cform) :=
      bind (fold_left (ustep n') fs (Ok ([], U)))
           (fun '(gs, U') => Ok (reduce1 op f_true gs, U')) in
    match f with
    | FForall v i m b => quant true v i m b
    | FExists v i m b => quant false v i m b
    | FNot x => bind (uniq n' U x) (fun '(x', U') => Ok (FNot x', U'))
    | FAnd fs => many f_and fs
    | FOr fs => many f_or fs
    | _ => Ok (f, U)
    end.
  Proof. intros n' U f. destruct f; reflexivity. Qed.

  Lemma quant_ok : forall n', uniq_spec n' -> forall (fa : bool) U v i m b,
    let f := (if fa then FForall else FExists) v i m b in
    fsize b < n' -> arity_ok b = true -> NoDup (names ((v :: me_bound m) ++ binders b)) ->
    (forall x, In x (names ((v :: me_bound m) ++ binders b)) -> ~ In x U) ->
    (forall x, In x (bvars f) -> In x ((v :: me_bound m) ++ binders b)) ->
    let own := qbound v m in
    let U1 := sunion U (names (vdiff (bvars f) own)) in
    exists b' U2, (let '(s, U2) := fresh_vars own U1 in
                let Ul := sunion U (filter (fun x => negb (smem x U1)) U2) in
                bind (uniq n' Ul (sub s b)) (fun '(b', _) =>
                  Ok ((if fa then FForall else FExists) (rlook s v) (sub_in s i) (sub_me s m) b', U2)))
               = Ok ((if fa then FForall else FExists) v i m b', U2) /\ sem_eq b' b /\
               (forall x, In x U2 -> In x U \/ In x (names ((v :: me_bound m) ++ binders b))).
  Proof.
    intros n' IH fa U v i m b f Hsz Har Hnd HU Hbv own U1.
    assert (Hown : own = v :: me_bound m).
    { apply qbound_nodup. unfold names in *. rewrite map_app in Hnd. exact (NoDup_app_l _ _ Hnd). }
    assert (HU1 : forall x, In x U1 -> In x U \/ exists w, In w (binders b) /\ vname w = x).
    { intros x Hx. apply sunion_In in Hx as [Hx|Hx]; [left; exact Hx|right].
      apply in_map_iff in Hx as [w [Ew Hw]]. apply vdiff_In in Hw as [Hw1 Hw2].
      apply Hbv in Hw1. apply in_app_iff in Hw1 as [Hw1|Hw1]; [rewrite Hown in Hw2; contradiction|].
      exists w; auto. }
    assert (Hfree : forall w, In w own -> ~ In (vname w) U1).
    { intros w Hw Hin. rewrite Hown in Hw. apply HU1 in Hin as [Hin|[w' [Hw' E]]].
      - apply (HU (vname w)); [apply in_map; apply in_or_app; left; exact Hw|exact Hin].
      - apply (NoDup_names_disj _ _ w w' Hnd Hw Hw'). symmetry; exact E. }
    set (Ul := sunion U (filter (fun x => negb (smem x U1)) (U1 ++ names own))).
    assert (HUl : forall x, In x Ul -> In x U \/ In x (names own)).
    { intros x Hx. apply sunion_In in Hx as [Hx|Hx]; [left; exact Hx|right].
      apply filter_In in Hx as [Hx Hn]. apply in_app_iff in Hx as [Hx|Hx]; [|exact Hx].
      apply negb_true_iff in Hn. apply smem_false in Hn. contradiction. }
    destruct (IH Ul b Hsz Har) as [b' [Ub [Eb [Sb _]]]].
    { unfold names in *. rewrite map_app in Hnd. exact (NoDup_app_r _ _ Hnd). }
    { intros x Hx Hin. apply HUl in Hin as [Hin|Hin].
      - apply (HU x); [unfold names; rewrite map_app; apply in_or_app; right; exact Hx|exact Hin].
      - rewrite Hown in Hin. unfold names in Hnd. rewrite map_app in Hnd. exact (NoDup_app_disj _ _ x Hnd Hin Hx). }
    exists b', (U1 ++ names own). split; [|split; [exact Sb|]].
    { rewrite (fresh_vars_id own U1 Hfree).
      2:{ rewrite Hown. unfold names in *. rewrite map_app in Hnd. exact (NoDup_app_l _ _ Hnd). }
      rewrite sub_id, rlook_id, sub_in_id, sub_me_id. fold Ul. cbv zeta. rewrite Eb. reflexivity. }
    intros x Hx. apply in_app_iff in Hx as [Hx|Hx].
    - apply HU1 in Hx as [Hx|[w [Hw E]]]; [left; exact Hx|right]. subst x. apply in_map. apply in_or_app. right; exact Hw.
    - right. rewrite Hown in Hx. unfold names. rewrite map_app. apply in_or_app. left; exact Hx.
  Qed.

  Theorem uniq_nodup_sound : forall n, uniq_spec n.
  Proof.
    induction n as [|n IH]; intros U f Hsz Har Hnd HU; [(unfold cform in *; lia)|].
    rewrite uniq_S. cbv zeta.
    destruct f as [a|p args|p args|g|fs|fs|v i m b|v i m b|v b|v b];
      try (eexists; eexists; split; [reflexivity|split; [intros rho; reflexivity|intros x Hx; left; exact Hx]]).
    - (* not *)
      simpl in *. destruct (IH U g) as [g' [U' [Eg [Sg HU']]]]; [(unfold cform in *; lia)|exact Har|exact Hnd|exact HU|].
      rewrite Eg. cbn [bind]. exists (FNot g'), U'. repeat split; [|exact HU'].
      intros rho. simpl. rewrite (Sg rho). reflexivity.
    - (* and *)
      simpl in Har. apply andb_true_iff in Har as [Hlen Har]. simpl in Hnd, HU.
      destruct (many_ok n IH fs) with (done := @nil cform) (Ua := U) as [gs [U' [Egs [Sgs HU']]]]; auto.
      { intros g Hg. pose proof (In_sum fs g Hg). simpl in Hsz. unfold cform in *. lia. }
      rewrite Egs. cbn [bind app]. exists (reduce1 f_and f_true gs), U'. repeat split; [|exact HU'].
      intros rho. rewrite (reduce_and_sound D aev pev dom idom tval dom_ext). simpl. apply forall2_forallb. exact Sgs.
    - (* or *)
      simpl in Har. apply andb_true_iff in Har as [Hlen Har]. simpl in Hnd, HU.
      destruct (many_ok n IH fs) with (done := @nil cform) (Ua := U) as [gs [U' [Egs [Sgs HU']]]]; auto.
      { intros g Hg. pose proof (In_sum fs g Hg). simpl in Hsz. unfold cform in *. lia. }
      rewrite Egs. cbn [bind app]. exists (reduce1 f_or f_true gs), U'. repeat split; [|exact HU'].
      intros rho. simpl. rewrite <- (forall2_existsb gs fs rho Sgs).
      destruct gs as [|g0 gs].
      { inversion Sgs; subst. simpl in Hlen. discriminate. }
      simpl. apply (fold_or_sound D aev pev dom idom tval dom_ext).
    - (* forall *)
      destruct (quant_ok n IH true U v i m b) as [b' [U2 [E [Sb HU2]]]]; auto.
      { simpl in Hsz. unfold cform in *. lia. }
      { intros x Hx. apply (bvars_binders (FForall v i m b)). exact Hx. }
      cbv zeta in E. simpl in E. simpl. rewrite E. exists (FForall v i m b'), U2. repeat split; [|exact HU2].
      intros rho. simpl. apply forallb_ext_in'. intros asg. apply Sb.
    - (* exists *)
      destruct (quant_ok n IH false U v i m b) as [b' [U2 [E [Sb HU2]]]]; auto.
      { simpl in Hsz. unfold cform in *. lia. }
      { intros x Hx. apply (bvars_binders (FExists v i m b)). exact Hx. }
      cbv zeta in E. simpl in E. simpl. rewrite E. exists (FExists v i m b'), U2. repeat split; [|exact HU2].
      intros rho. simpl. apply existsb_ext_in'. intros asg. apply Sb.
  Qed.
End UniqSem.
