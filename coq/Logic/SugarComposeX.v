(* C08 wave 3 — END-TO-END theorem for surface formulas with exactly ONE registered XPath expression whose root is a
   quantified variable (user-named `x.<a>[2]`, `x.<a>.<b>`, or `<X>.<a>` inside the unnamed quantifier `forall <X>:`),
   child steps only (any number), no `..`:
       elab g s = Ok c  ->  ev c = ev (elab_doc_xp1 g s)
   elab_doc_xp1 = walk_doc, closure of the WHOLE formula (nest), then [addm_doc]: the quantifier of the first variable
   is replaced by the plain conjunction / disjunction of its copies with the match expressions that
   expand_mexpr_trees derives from the grammar (their tree-level meaning: C08_xpath_child_*_partial).
   The guard validates, on the model's intermediate formulas, the side conditions of the stage theorems. *)
From Coq Require Import List NArith Bool Arith Lia.
Import ListNotations.
From ISLA Require Import Str Outcome Tree Grammar Formula Sugar SugarFacts SugarMore SugarTotal SugarClose SugarUniq SugarWalk
  SugarCompose SugarGhost SugarAddm.

Definition xp_mexprs (g : grammar) (first fvr : var) (seg0 : xseg) : list mexpr :=
  map (mk_mexpr fvr) (expand g (vtype first) (tl seg0)).

Definition elab_doc_xp1 (g : grammar) (s : sform) : res cform :=
  bind (walk_doc (sform_names s) (decls s) (MkW [] []) s) (fun '(st, fd) =>
    let F := nest (closure_vars st) fd in
    match w_xp st with
    | [([seg0], fvr)] =>
        match find_var (xroot [seg0]) F with
        | Some first => Ok (addm_doc first (xp_mexprs g first fvr seg0) F)
        | None => Raise SyntaxErr
        end
    | _ => Raise NotImpl
    end).

Definition walkd0 (s : sform) : res (wst * cform) := walk_doc (sform_names s) (decls s) (MkW [] []) s.

Definition sugar_guard_xp1 (g : grammar) (s : sform) : bool :=
  match walk0 s, walkd0 s with
  | Ok (st, f0), Ok (_, fd) =>
    match w_xp st with
    | [([seg0], fvr)] =>
      negb (is_nt (xroot [seg0])) && Nat.ltb 1 (length seg0) &&
      forallb (fun p => negb (str_eqb (xroot [seg0]) (fst p))) (w_fnt st) &&
      uniq_pre f0 &&
      match uniq (S (fsize f0)) [] f0 with
      | Ok (f1, _) =>
        close_pre (closure_vars st) f1 &&
        negb (vmem fvr (closure_vars st)) && negb (var_eqb start_c fvr) &&
        match close_fnt (sunion (sform_names s) (names (allvars f1))) st f1 with
        | Ok (f2, used2, xp) =>
          match find_var (xroot [seg0]) f2, find_var (xroot [seg0]) (nest (closure_vars st) fd) with
          | Some first, Some first' =>
            var_eqb first first' && negb (vmem first (closure_vars st)) &&
            forallb (fun me => leqb var_eqb (me_bound (Some me)) [fvr]) (xp_mexprs g first fvr seg0) &&
            match close_xp (S (2 * xp_size xp)) g used2 xp f2 with
            | Ok f3 => uniq_pre f3
            | Raise _ => false
            end
          | _, _ => false
          end
        | Raise _ => false
        end
      | Raise _ => false
      end
    | _ => false
    end
  | _, _ => false
  end.

Lemma filter_id : forall {X} (p : X -> bool) l, forallb p l = true -> filter p l = l.
Proof.
  intros X p l. induction l as [|x l IH]; intros H; simpl in *; [reflexivity|].
  apply andb_true_iff in H as [H1 H2]. rewrite H1, IH by exact H2. reflexivity.
Qed.
Lemma filter_none' : forall {X} (p : X -> bool) l, forallb (fun x => negb (p x)) l = true -> filter p l = [].
Proof.
  intros X p l. induction l as [|x l IH]; intros H; simpl in *; [reflexivity|].
  apply andb_true_iff in H as [H1 H2]. apply negb_true_iff in H1. rewrite H1. apply IH; exact H2.
Qed.

(* close_over_free_nonterminals when the only XPath expression is rooted at a variable name: the closure loop over all
   free nonterminals, XPath list unchanged *)
Lemma close_fnt_varroot : forall used st f seg0 fvr r,
  w_xp st = [([seg0], fvr)] -> is_nt (xroot [seg0]) = false ->
  forallb (fun p => negb (str_eqb (xroot [seg0]) (fst p))) (w_fnt st) = true ->
  close_fnt used st f = Ok r ->
  exists f2, r = (f2, used, [([seg0], fvr)]) /\
    fold_left (fun acc v => bind acc (fun g => push_in (S (fsize g)) v start_c [v] g)) (closure_vars st) (Ok f) = Ok f2.
Proof.
  intros used st f seg0 fvr r Hx Hnt Hfn H. unfold close_fnt in H. rewrite Hx in H. cbn [existsb fst] in H.
  rewrite (filter_id (fun p : str * var => negb (str_eqb (xroot [seg0]) (fst p) || false))) in H.
  2:{ rewrite <- Hfn. apply forallb_ext_in'. intros p. rewrite orb_false_r. reflexivity. }
  rewrite (fold_left_map_snd (fun acc v => bind acc (fun g => push_in (S (fsize g)) v start_c [v] g))) in H.
  fold (closure_vars st) in H.
  match type of H with bind ?X _ = _ => destruct X as [f2|e] eqn:E end; [|discriminate]. cbn [bind] in H.
  exists f2. split; [|reflexivity].
  cbn [length xsort fold_right xinsert close_groups fst] in H.
  rewrite Hnt in H. cbn [negb filter fst] in H. rewrite str_eqb_refl in H. cbn [negb close_groups] in H.
  inversion H; reflexivity.
Qed.

Lemma close_xp_one : forall n g used seg0 fvr f2 f3,
  Nat.ltb 1 (length seg0) = true ->
  close_xp (S (S n)) g used [([seg0], fvr)] f2 = Ok f3 ->
  exists first, find_var (xroot [seg0]) f2 = Some first /\
    xp_mexprs g first fvr seg0 <> [] /\ addm first (xp_mexprs g first fvr seg0) f2 = Ok f3.
Proof.
  intros n g used seg0 fvr f2 f3 Hl H. cbn [close_xp isnil andb negb] in H.
  apply Nat.ltb_lt in Hl.
  destruct (Nat.leb (length seg0) 1) eqn:E1; [apply Nat.leb_le in E1; lia|].
  destruct (find_var (xroot [seg0]) f2) as [first|] eqn:Ef; [|discriminate].
  exists first. split; [reflexivity|].
  destruct (isnil (expand g (vtype first) (tl seg0))) eqn:En; [discriminate|].
  fold (xp_mexprs g first fvr seg0) in H.
  destruct (addm first (xp_mexprs g first fvr seg0) f2) as [f'|e] eqn:Ea; [|discriminate]. cbn [bind] in H.
  split; [|inversion H; reflexivity].
  unfold xp_mexprs. destruct (expand g (vtype first) (tl seg0)); [discriminate|discriminate].
Qed.

Section ComposeX.
  Variable D : Type.
  Variable aev : N -> list D -> bool.
  Variable pev : str -> list (D + str) -> bool.
  Variable dom : D -> var -> option mexpr -> list (list (var * D)).
  Variable idom : list D.
  Variable tval : tree -> D.
  Hypothesis dom_ext : forall d v m k, mexpr_eqb m k = true -> dom d v m = dom d v k.
  Hypothesis dom_keys : forall d v m asg, In asg (dom d v m) ->
    forall x, existsb (fun p => var_eqb (fst p) x) asg = vmem x (qbound v m).
  Notation ev := (ev D aev pev dom idom tval).

  Theorem sugar_core_xpath1 : forall g s c, sugar_guard_xp1 g s = true -> elab g s = Ok c ->
    exists c', elab_doc_xp1 g s = Ok c' /\
      forall rho, (forall v, In v (sugar_closure_vars s) -> K_pushin_empty D dom tval rho v (InVar start_c) None = false) ->
        ev rho c = ev rho c'.
  Proof.
    intros g s c H Hc. unfold sugar_guard_xp1 in H.
    destruct (walk0 s) as [[st f0]|e] eqn:Ew; [|discriminate].
    destruct (walkd0 s) as [[std fd]|e] eqn:Ewd; [|discriminate].
    destruct (w_xp st) as [|[[|seg0 [|]] fvr] [|]] eqn:Hx; try discriminate.
    apply andb_true_iff in H as [H H5]. apply andb_true_iff in H as [H Hp0]. apply andb_true_iff in H as [H Hfn].
    apply andb_true_iff in H as [H Hlen]. apply negb_true_iff in H.
    destruct (uniq_pre_use _ Hp0) as [Ha0 [Hn0 Hu0]].
    destruct (uniq (S (fsize f0)) [] f0) as [[f1 U1]|e] eqn:Eu1; [|discriminate].
    apply andb_true_iff in H5 as [H5 H6]. apply andb_true_iff in H5 as [H5 Hsf]. apply andb_true_iff in H5 as [Hcp Hfv].
    set (used1 := sunion (sform_names s) (names (allvars f1))) in *.
    destruct (close_fnt used1 st f1) as [r|e] eqn:Ec; [|discriminate].
    destruct (close_fnt_varroot _ _ _ _ _ _ Hx H Hfn Ec) as [f2 [Er Eloop]]. subst r.
    destruct (find_var (xroot [seg0]) f2) as [first|] eqn:Ef; [|discriminate].
    destruct (find_var (xroot [seg0]) (nest (closure_vars st) fd)) as [first'|] eqn:Efd; [|discriminate].
    apply andb_true_iff in H6 as [H6 H7]. apply andb_true_iff in H6 as [H6 Hmb]. apply andb_true_iff in H6 as [H6 Hfc].
    apply var_eqb_eq in H6. subst first'.
    destruct (close_xp (S (2 * xp_size [([seg0], fvr)])) g used1 [([seg0], fvr)] f2) as [f3|e] eqn:E3; [|discriminate].
    (* the run of elab *)
    assert (Ew' := Ew). unfold walk0 in Ew'.
    destruct (walk_equiv D aev pev dom idom tval dom_ext _ _ _ _ _ _ Ew') as [fd' [Ed _]].
    unfold walkd0 in Ewd. rewrite Ed in Ewd. inversion Ewd. subst std fd'. clear Ewd.
    destruct (uniq_pre_use _ H7) as [Ha3 [Hn3 Hu3]].
    destruct (uniq_nodup_sound D aev pev dom idom tval dom_ext (S (fsize f3)) [] f3 (Nat.lt_succ_diag_r _) Ha3 Hn3 Hu3)
      as [f4 [U4 [Eu4 [S4 _]]]].
    unfold elab in Hc. unfold walk0 in Ew. rewrite Ew in Hc. cbn [bind] in Hc. rewrite Eu1 in Hc. cbn [bind] in Hc.
    fold used1 in Hc. rewrite Ec in Hc. cbn [bind] in Hc. rewrite E3 in Hc. cbn [bind] in Hc. rewrite Eu4 in Hc. cbn [bind] in Hc.
    destruct (forallb _ (fv f4)); [|discriminate]. inversion Hc; subst c.
    (* the single close_xp step *)
    assert (Hk : exists k, 2 * xp_size [([seg0], fvr)] = S k) by (simpl; eexists; reflexivity).
    destruct Hk as [k Hk]. rewrite Hk in E3.
    destruct (close_xp_one _ _ _ _ _ _ _ Hlen E3) as [first2 [Ef2 [Hms Ea]]].
    pose proof (eq_trans (eq_sym Ef) Ef2) as Efe. inversion Efe; subst first2. clear Efe.
    set (ms := xp_mexprs g first fvr seg0) in *.
    exists (addm_doc first ms (nest (closure_vars st) fd)). split.
    { unfold elab_doc_xp1. rewrite Ed. cbn [bind]. rewrite Hx, Efd. reflexivity. }
    intros rho Hne. unfold sugar_closure_vars, walk0 in Hne. rewrite Ew in Hne.
    rewrite (S4 rho).
    rewrite (addm_sem D aev pev dom idom tval dom_ext first ms Hms f2 f3 Ea rho).
    rewrite (addm_doc_sem D aev pev dom idom tval first ms).
    (* now everything over domX *)
    assert (HextX := domX_ext D dom dom_ext first ms).
    assert (Hmsb : forall me, In me ms -> me_bound (Some me) = [fvr]).
    { intros me Hme. rewrite forallb_forall in Hmb. apply (leqb_eq var_eqb var_eqb_eq). apply Hmb. exact Hme. }
    assert (HkeysX := domX_keys D dom dom_keys first ms fvr Hmsb).
    destruct (close_pre_use _ _ Hcp) as [Hnd [Hs [Hbv [Hsb Hok]]]].
    apply negb_true_iff in Hfv, Hsf, Hfc. apply vmem_false in Hfv, Hfc.
    assert (Hgs : forall w m, ghostX first fvr w m start_c = false).
    { intros w [m|]; simpl; [reflexivity|]. rewrite Hsf. apply andb_false_r. }
    assert (Hg : forall v, In v (closure_vars st) ->
               (forall x, ghostX first fvr v None x = false) /\ (forall w m, ghostX first fvr w m v = false)).
    { intros v Hv. split.
      - intros x. simpl. destruct (var_eqb v first) eqn:E; [|reflexivity]. apply var_eqb_eq in E. subst v. contradiction.
      - intros w [m|]; simpl; [reflexivity|]. destruct (var_eqb v fvr) eqn:E; [|apply andb_false_r].
        apply var_eqb_eq in E. subst v. contradiction. }
    rewrite (close_loop_soundG D aev pev (domX D dom first ms) idom tval (ghostX first fvr) HkeysX
               (closure_vars st) f1 f2 rho Eloop Hnd Hs Hg Hgs Hbv Hsb Hok).
    2:{ intros v Hv. rewrite (domX_other D dom first ms).
        - intros E0. specialize (Hne v Hv). unfold K_pushin_empty in Hne. simpl in Hne. rewrite E0 in Hne. discriminate.
        - destruct (var_eqb v first) eqn:E; [|reflexivity]. apply var_eqb_eq in E. subst v. contradiction. }
    apply (nest_congrG D aev pev (domX D dom first ms) idom tval (ghostX first fvr) HkeysX); [exact Hs|exact Hgs|].
    intros rho' _.
    destruct (uniq_nodup_sound D aev pev (domX D dom first ms) idom tval HextX (S (fsize f0)) [] f0 (Nat.lt_succ_diag_r _) Ha0 Hn0 Hu0)
      as [f1' [U1' [Eu1' [S1 _]]]].
    rewrite Eu1 in Eu1'. inversion Eu1'; subst f1' U1'. rewrite (S1 rho').
    destruct (walk_equiv D aev pev (domX D dom first ms) idom tval HextX _ _ _ _ _ _ Ew) as [fd' [Ed' Sd]].
    rewrite Ed in Ed'. inversion Ed'; subst fd'. apply Sd.
  Qed.
End ComposeX.

(* the guard of the harness: either fragment *)
Definition sugar_guard (g : grammar) (s : sform) : bool := sugar_guard_nox s || sugar_guard_xp1 g s.

(* non-vacuity: forall <start> x: (x.<s> = "x" and <b> = "y") — one XPath expression rooted at the named variable x,
   one free nonterminal; inside the guard, elab and the documented translation both return and are different ASTs
   (push-in of the closure of <b> vs. closure of the whole formula), and on a domain with a <b> node the premise holds *)
Definition S_xp : sform := SQ true s_start_nt (Some [120]%N) InDefault None
  (SAnd (SAtom true 1 [TXPath [[([120]%N, 0); (nt 115, 0)]]]) (SAtom true 2 [TFree (nt 98)])).
Example sugar_core_xpath1_nonvacuous :
  sugar_guard_xp1 G0 S_xp = true /\
  (exists c c', elab G0 S_xp = Ok c /\ elab_doc_xp1 G0 S_xp = Ok c' /\ cf_eqb c c' = false) /\
  (forall v, In v (sugar_closure_vars S_xp) ->
     K_pushin_empty str (dom_k (fun _ => [121]%N)) (fun _ => []) rho0 v (InVar start_c) None = false).
Proof.
  split; [vm_compute; reflexivity|]. split.
  - eexists. eexists. split; [vm_compute; reflexivity|]. split; [vm_compute; reflexivity|vm_compute; reflexivity].
  - vm_compute. intros v [<-|[]]. reflexivity.
Qed.
