(* C06 (second proof extension, part 2) — the returns-premise of verdict_stable_preds is discharged for
   WELL-SCOPED formulas of the extended fragment without match expressions: on a CLOSED reference tree
   the evaluation of such a formula returns.  wsbx src u dom f:
     - everything of Eval3Total.wsb (path predicates, level, SMT atoms, quantifiers without match expression),
     - consecutive(a1, a2): two node arguments in scope,
     - nth(k, a1, a2): k a decimal literal, two node arguments in scope, a1 of NONTERMINAL type
       (is_nth asserts that node_1 is a nonterminal: a variable of nonterminal type, or the constant
       when the root label is a nonterminal),
     - count(x, needle, num): needle a nonterminal, num an integer literal, x a variable in scope
       (src = true: formulas as written) or a closed tree (src = false: after instantiation). *)
From ISLA Require Import Eval3 EvalFacts GrammarFacts FuzzFacts PathFacts TreeFacts PredsFacts Eval3Facts Eval3Compl Eval3Stable Eval3Total Eval3Preds Eval3Mexpr Eval3Stable2.
From Coq Require Import Lia ZArith.

Section Scoped2.
  Variable A : Type.
  Variable src : bool.
  Variable u : tree.

  Definition arg_nt (x : parg) : bool :=
    match x with PVar v => is_nt (vtype v) | PTree _ => is_nt (lbl u) | PStr _ => false end.

  Definition ext_wsb (dom : list var) (n : str) (args : list parg) : bool :=
    match args with
    | [a1; a2] => str_eqb n s_consecutive && arg_wsb u dom a1 && arg_wsb u dom a2
    | [PStr k; a1; a2] =>
        str_eqb n s_nth && (match parse_dec k with Some _ => true | None => false end)
        && arg_wsb u dom a1 && arg_wsb u dom a2 && arg_nt a1
    | _ => false
    end.

  Definition cnt_wsb (dom : list var) (n : str) (args : list parg) : bool :=
    match args with
    | [x; PStr needle; PStr num] =>
        str_eqb n s_count
        && (match x with PVar v => in_dom dom v | PTree s => negb src && negb (is_openT s) | PStr _ => false end)
        && is_nt needle && (match py_int num with Some _ => true | None => false end)
    | _ => false
    end.

  Fixpoint wsbx (dom : list var) (f : formula A) : bool :=
    match f with
    | FSmt _ => true
    | FSPred n args => sp_wsb u dom n args || ext_wsb dom n args
    | FSemPred n args => cnt_wsb dom n args
    | FNot h => wsbx dom h
    | FAnd fs | FOr fs => forallb (wsbx dom) fs
    | FForall v i m b | FExists v i m b =>
        match m with None => in_wsb u dom i && wsbx (v :: dom) b | Some _ => false end
    | FForallInt _ _ | FExistsInt _ _ => false
    end.
End Scoped2.

Lemma ext_wsb_inv u dom n args : ext_wsb u dom n args = true ->
  (exists a1 a2, args = [a1; a2] /\ n = s_consecutive /\ arg_wsb u dom a1 = true /\ arg_wsb u dom a2 = true) \/
  (exists k kk a1 a2, args = [PStr k; a1; a2] /\ n = s_nth /\ parse_dec k = Some kk /\
                      arg_wsb u dom a1 = true /\ arg_wsb u dom a2 = true /\ arg_nt u a1 = true).
Proof.
  intro H. unfold ext_wsb in H.
  destruct args as [|x1 [|x2 [|x3 [|x4 l]]]]; try discriminate; try (destruct x1; discriminate).
  - left. assert (H0 : str_eqb n s_consecutive && arg_wsb u dom x1 && arg_wsb u dom x2 = true)
      by (destruct x1; exact H).
    apply andb_true_iff in H0 as [H0 H2]. apply andb_true_iff in H0 as [Hn H1]. apply str_eqb_eq in Hn.
    exists x1, x2. repeat split; assumption.
  - right. destruct x1 as [|k|]; try discriminate.
    apply andb_true_iff in H as [H H4]. apply andb_true_iff in H as [H H3]. apply andb_true_iff in H as [H H2].
    apply andb_true_iff in H as [Hn Hk]. apply str_eqb_eq in Hn.
    destruct (parse_dec k) as [kk|] eqn:Ek; [|discriminate]. exists k, kk, x2, x3. repeat split; assumption.
Qed.

Lemma cnt_wsb_inv src dom n args : cnt_wsb src dom n args = true ->
  exists x needle num target, args = [x; PStr needle; PStr num] /\ n = s_count /\ is_nt needle = true /\
    py_int num = Some target /\
    match x with PVar v => in_dom dom v = true | PTree s => src = false /\ is_openT s = false | PStr _ => False end.
Proof.
  intro H. unfold cnt_wsb in H.
  destruct args as [|x [|[|needle|] [|[|num|] [|x4 l]]]]; try discriminate.
  apply andb_true_iff in H as [H H4]. apply andb_true_iff in H as [H H3]. apply andb_true_iff in H as [Hn H2].
  apply str_eqb_eq in Hn. destruct (py_int num) as [target|] eqn:Ep; [|discriminate].
  exists x, needle, num, target. repeat split; try assumption.
  destruct x as [v|s|s]; [assumption | discriminate |].
  apply andb_true_iff in H2 as [Ha Hb]. apply negb_true_iff in Ha, Hb. auto.
Qed.

(* ------------------------------------------------------------------ *)
(* typed assignments: every bound tree carries the type of its variable *)
(* ------------------------------------------------------------------ *)
Definition typed_asg (a : asg) : Prop :=
  Forall (fun kv : var * (path * tree) => lbl (snd (snd kv)) = vtype (fst kv)) a.

Lemma typed_set d k x : typed_asg d -> lbl (snd x) = vtype k -> typed_asg (dict_set d k x).
Proof.
  intros H Hx. induction H as [|[k0 y] d Hy Hd IH]; simpl.
  - constructor; [assumption | constructor].
  - destruct (var_eqb k0 k) eqn:E; constructor; try assumption.
    apply var_eqb_eq in E. subst k0. simpl. assumption.
Qed.

Lemma typed_union a : typed_asg a -> forall na, typed_asg na -> typed_asg (dict_union na a).
Proof.
  unfold dict_union. induction 1 as [|[k y] a Hy Ha IH]; intros na Hn; simpl; [assumption|].
  apply IH. apply typed_set; assumption.
Qed.

Lemma dict_get_In' {B} (d : list (var * B)) v x : dict_get d v = Some x -> exists k, In (k, x) d /\ var_eqb k v = true.
Proof.
  induction d as [|[k y] d IH]; simpl; [discriminate|].
  destruct (var_eqb k v) eqn:E; intro H.
  - inversion H; subst. exists k. auto.
  - destruct (IH H) as (k' & Hin & Ek). exists k'. auto.
Qed.

Section NoRaise2.
  Variable A : Type.
  Variable afree : A -> list var.
  Variable aopen : A -> bool.
  Variable aeval : A -> asg -> res TV.
  Variable qmm : var -> path -> option mexpr -> asg -> path -> bool.
  Variable g : grammar.
  Variable src : bool.
  Variable u : tree.
  Hypothesis Hcl : is_openT u = false.
  Local Notation ev := (eval_legacy A afree aopen aeval qmm (reachb g) count_open3 u).
  Hypothesis Hat : forall x a, exists r, ev (FSmt x) a = Ok r.

  Lemma find_root2 s : N.eqb (tid u) (tid s) = true -> find_by_id u s = Some ([], u).
  Proof. intro E. unfold find_by_id. destruct u as [l i o ks]. simpl in *. rewrite E. reflexivity. Qed.

  (* a node argument resolves to a valid path; its label is a nonterminal when arg_nt says so *)
  Lemma arg_ok2 dom a x : (forall v, In v dom -> dict_mem a v = true) -> nodes_asg u a -> typed_asg a ->
    arg_wsb u dom x = true ->
    exists p s, arg_inst u a x = Ok (SPath p) /\ subtree u p = Some s /\ (arg_nt u x = true -> is_nt (lbl s) = true).
  Proof.
    intros Hd Hn Ht Hx. destruct x as [v|s|s]; simpl in *; [|discriminate|].
    - apply in_dom_In in Hx. specialize (Hd v Hx). unfold dict_mem in Hd.
      destruct (dict_get a v) as [[p s]|] eqn:Eg; [|discriminate].
      destruct (dict_get_In' a v (p, s) Eg) as (k & Hin & Ek). apply var_eqb_eq in Ek. subst k.
      unfold nodes_asg in Hn. unfold typed_asg in Ht. rewrite Forall_forall in Hn, Ht.
      pose proof (Hn _ Hin) as Hs. pose proof (Ht _ Hin) as Hl. simpl in Hs, Hl.
      exists p, s. repeat split; [assumption|]. rewrite Hl. auto.
    - rewrite (find_root2 s Hx). exists [], u. simpl. auto.
  Qed.

  Lemma py_sub_u p s : subtree u p = Some s -> py_get_subtree u p = Ok (Some s).
  Proof. apply py_get_subtree_valid. apply closed_shape_ok. assumption. Qed.

  Lemma consecutive_returns p q s1 : subtree u p = Some s1 -> exists b, consecutive u p q = Ok b.
  Proof.
    intro H1. rewrite consecutive_unfold. destruct (path_eqb p q || negb (is_before p q)); [eauto|].
    destruct (lcp_prefix_l p q) as [r Hr]. rewrite Hr, subtree_app in H1.
    destruct (subtree u (lcp p q)) as [s|] eqn:Es; [|discriminate]. rewrite (py_sub_u _ _ Es). eauto.
  Qed.

  Lemma is_nth_returns k p q s1 s2 : subtree u p = Some s1 -> subtree u q = Some s2 -> is_nt (lbl s1) = true ->
    exists b, is_nth u k p q = Ok b.
  Proof.
    intros H1 H2 Hnt. unfold is_nth. destruct (negb (in_tree p q)); [eauto|].
    rewrite (py_sub_u _ _ H1), Hnt, (py_sub_u _ _ H2). simpl. eauto.
  Qed.

  Lemma ext_ok dom a n args : (forall v, In v dom -> dict_mem a v = true) -> nodes_asg u a -> typed_asg a ->
    ext_wsb u dom n args = true -> exists r, eval_spred u a n args = Ok r.
  Proof.
    intros Hd Hn Ht H.
    destruct (ext_wsb_inv u dom n args H) as [(a1 & a2 & -> & -> & H1 & H2)|(k & kk & a1 & a2 & -> & -> & Hk & H1 & H2 & H3)].
    - destruct (arg_ok2 dom a a1 Hd Hn Ht H1) as (p & s1 & E1 & V1 & _).
      destruct (arg_ok2 dom a a2 Hd Hn Ht H2) as (q & s2 & E2 & V2 & _).
      unfold eval_spred. simpl. rewrite E1, E2.
      change (spred_call u s_consecutive [SPath p; SPath q]) with (consecutive u p q).
      destruct (consecutive_returns p q s1 V1) as (b & ->). eauto.
    - destruct (arg_ok2 dom a a1 Hd Hn Ht H1) as (p & s1 & E1 & V1 & N1).
      destruct (arg_ok2 dom a a2 Hd Hn Ht H2) as (q & s2 & E2 & V2 & _).
      unfold eval_spred. simpl. rewrite E1, E2.
      change (spred_call u s_nth [SStr k; SPath p; SPath q]) with
        (if negb (in_tree p q) then Ok false else
         match parse_dec k with Some k0 => is_nth u (N.to_nat k0) p q | None => Raise AssertErr end).
      destruct (negb (in_tree p q)); [eauto|]. rewrite Hk.
      destruct (is_nth_returns (N.to_nat kk) p q s1 s2 V1 V2 (N1 H3)) as (b & ->). eauto.
  Qed.

  Lemma count_closed_returns s needle num target : is_openT s = false -> py_int num = Some target ->
    exists r, count_eval (reachb g) count_open3 s needle num = Ok r.
  Proof.
    intros Hs Hp. unfold count_eval. rewrite Hp, (closed_no_open_nodes s Hs). simpl.
    destruct ((target <? 0)%Z || (target <? Z.of_nat (count_nodes needle s))%Z); eauto.
  Qed.

  Lemma cnt_ok dom a n args : (forall v, In v dom -> dict_mem a v = true) -> nodes_asg u a ->
    cnt_wsb src dom n args = true -> exists r, eval_sempred (reachb g) count_open3 a n args = Ok r.
  Proof.
    intros Hd Hn H. destruct (cnt_wsb_inv src dom n args H) as (x & needle & num & target & -> & -> & Hnt & Hp & Hx).
    unfold eval_sempred. rewrite str_eqb_refl. simpl negb. cbv iota.
    destruct x as [v|s|s]; [|destruct Hx|].
    - apply in_dom_In in Hx. specialize (Hd v Hx). unfold dict_mem in Hd.
      destruct (dict_get a v) as [[p s]|] eqn:Eg; [|discriminate]. simpl.
      destruct (dict_get_In' a v (p, s) Eg) as (k & Hin & _).
      unfold nodes_asg in Hn. rewrite Forall_forall in Hn. pose proof (Hn _ Hin) as Hs. simpl in Hs.
      apply (count_closed_returns s needle num target); [eapply closed_subtree; eassumption | assumption].
    - destruct Hx as [_ Hs]. simpl. apply (count_closed_returns s needle num target); assumption.
  Qed.

  Lemma quant_ok2 dom is_forall v i (body : asg -> res TV) a :
    (forall v0, In v0 dom -> dict_mem a v0 = true) -> nodes_asg u a -> typed_asg a -> in_wsb u dom i = true ->
    (forall na, nodes_asg u na -> typed_asg na -> (forall w, In w (v :: dom) -> dict_mem na w = true) -> exists y, body na = Ok y) ->
    exists r, eval_quant qmm u is_forall v i None body a = Ok r.
  Proof.
    intros Hd Ha Ht Hi Hb. unfold eval_quant.
    assert (Hin : exists ip si, (match i with
            | InTree t0 => match find_by_id u t0 with Some ps => Ok ps | None => Raise StopIter end
            | InVar w => match dict_get a w with Some pt => Ok pt | None => Raise AssertErr end
            end) = Ok (ip, si)).
    { destruct i as [w|s]; simpl in Hi.
      - apply in_dom_In in Hi. specialize (Hd w Hi). unfold dict_mem in Hd.
        destruct (dict_get a w) as [[ip si]|]; [eauto | discriminate].
      - rewrite (find_root2 s Hi). eauto. }
    destruct Hin as (ip & si & ->).
    set (D := filter (fun ps : path * tree => str_eqb (lbl (snd ps)) (vtype v)) (trie_items u ip)).
    assert (Hnews : forall na, In na (map (fun na => dict_union na a) (map (fun ps => [(v, ps)]) D)) ->
              nodes_asg u na /\ typed_asg na /\ (forall w, In w (v :: dom) -> dict_mem na w = true)).
    { intros na Hna. apply in_map_iff in Hna as (n0 & <- & Hn0). apply in_map_iff in Hn0 as (ps & <- & Hps).
      unfold D in Hps. apply filter_In in Hps as [Hps Hl]. unfold trie_items in Hps. apply filter_In in Hps as [Hps _].
      destruct ps as [p s]. apply nodes_spec in Hps. simpl in Hl. apply str_eqb_eq in Hl. split; [|split].
      - apply nodes_asg_union; [assumption|]. constructor; [|constructor]. simpl. exact Hps.
      - apply typed_union; [assumption|]. constructor; [|constructor]. simpl. exact Hl.
      - intros w Hw. apply dict_mem_union. destruct Hw as [<-|Hw]; [left | right; apply Hd; assumption].
        unfold dict_mem. simpl. rewrite var_eqb_refl. reflexivity. }
    assert (Hok : forallb (asg_ok u) (map (fun na => dict_union na a) (map (fun ps => [(v, ps)]) D)) = true).
    { apply forallb_forall. intros na Hna. apply asg_ok_nodes; [assumption|]. apply Hnews. assumption. }
    rewrite Hok. simpl negb. cbv iota.
    destruct (collect_ok body (map (fun na => dict_union na a) (map (fun ps => [(v, ps)]) D))) as (l & El).
    { intros na Hna. destruct (Hnews na Hna) as (H1 & H2 & H3). apply Hb; assumption. }
    rewrite El. destruct is_forall; [|eauto].
    destruct (existsb (fun ps : path * tree => qmm v ip None a (fst ps)) (open_leaves u)); eauto.
  Qed.

  Theorem no_raise2 : forall f dom a, wsbx A src u dom f = true -> nodes_asg u a -> typed_asg a ->
    (forall v, In v dom -> dict_mem a v = true) -> exists r, ev f a = Ok r.
  Proof.
    induction f as [x|n args|n args|h IH|fs IH|fs IH|v i m b IH|v i m b IH|v b IH|v b IH] using formula_ind';
      intros dom a Hw Ha Ht Hd; simpl in Hw; try discriminate.
    - apply Hat.
    - simpl. apply orb_true_iff in Hw as [Hw|Hw].
      + eapply (spred_ok A afree aopen aeval qmm (reachb g) count_open3 u Hcl Hat); eassumption.
      + eapply ext_ok; eassumption.
    - simpl. eapply cnt_ok; eassumption.
    - simpl. destruct (IH dom a Hw Ha Ht Hd) as (y & ->). eauto.
    - simpl. destruct (collect_ok (fun g0 => ev g0 a) fs) as (l & ->); [|eauto].
      intros x Hx. rewrite Forall_forall in IH. rewrite forallb_forall in Hw. eapply IH; eauto.
    - simpl. destruct (collect_ok (fun g0 => ev g0 a) fs) as (l & ->); [|eauto].
      intros x Hx. rewrite Forall_forall in IH. rewrite forallb_forall in Hw. eapply IH; eauto.
    - destruct m; [discriminate|]. apply andb_true_iff in Hw as [Hi Hb]. simpl.
      eapply quant_ok2; try eassumption. intros na Hna Htn Hdn. eapply IH; eassumption.
    - destruct m; [discriminate|]. apply andb_true_iff in Hw as [Hi Hb]. simpl.
      eapply quant_ok2; try eassumption. intros na Hna Htn Hdn. eapply IH; eassumption.
  Qed.
End NoRaise2.

(* ------------------------------------------------------------------ *)
(* instantiating the constant keeps well-scopedness                    *)
(* ------------------------------------------------------------------ *)
Lemma ext_wsb_2 u dom n y1 y2 :
  ext_wsb u dom n [y1; y2] = str_eqb n s_consecutive && arg_wsb u dom y1 && arg_wsb u dom y2.
Proof. destruct y1; reflexivity. Qed.

Lemma ext_wsb_3 u dom n k y1 y2 :
  ext_wsb u dom n [PStr k; y1; y2] =
  str_eqb n s_nth && (match parse_dec k with Some _ => true | None => false end)
  && arg_wsb u dom y1 && arg_wsb u dom y2 && arg_nt u y1.
Proof. reflexivity. Qed.

Section InstWs2.
  Variable u : tree.
  Variable cst : var.
  Hypothesis Hcl : is_openT u = false.
  Hypothesis Hty : lbl u = vtype cst.

  Lemma inst_arg_nt x : arg_nt u x = true -> arg_nt u (inst_arg u cst x) = true.
  Proof.
    destruct x as [v|s|s]; simpl; auto.
    destruct (var_eqb v cst) eqn:E; simpl; [|auto]. apply var_eqb_eq in E. subst v. rewrite Hty. auto.
  Qed.

  Lemma sp_wsb_inst dom1 dom2 n args : (forall w, In w dom1 -> w = cst \/ In w dom2) ->
    sp_wsb u dom1 n args = true -> sp_wsb u dom2 n (map (inst_arg u cst) args) = true.
  Proof.
    intros Hd Hw.
    destruct (sp_wsb_inv u dom1 n args Hw) as [(a1 & a2 & -> & Hn & H1 & H2)|(op & nt & a1 & a2 & -> & -> & Ho & H1 & H2)].
    - simpl map. rewrite sp_wsb_2, Hn, (inst_arg_ws u cst dom1 dom2 a1 Hd H1), (inst_arg_ws u cst dom1 dom2 a2 Hd H2). reflexivity.
    - simpl. rewrite (inst_arg_ws u cst dom1 dom2 a1 Hd H1), (inst_arg_ws u cst dom1 dom2 a2 Hd H2).
      destruct (lvl_of_str op); [reflexivity | contradiction].
  Qed.

  Lemma ext_wsb_inst dom1 dom2 n args : (forall w, In w dom1 -> w = cst \/ In w dom2) ->
    ext_wsb u dom1 n args = true -> ext_wsb u dom2 n (map (inst_arg u cst) args) = true.
  Proof.
    intros Hd Hw.
    destruct (ext_wsb_inv u dom1 n args Hw) as [(a1 & a2 & -> & -> & H1 & H2)|(k & kk & a1 & a2 & -> & -> & Hk & H1 & H2 & H3)].
    - simpl map. rewrite ext_wsb_2, str_eqb_refl, (inst_arg_ws u cst dom1 dom2 a1 Hd H1), (inst_arg_ws u cst dom1 dom2 a2 Hd H2). reflexivity.
    - simpl map. rewrite ext_wsb_3, str_eqb_refl, Hk, (inst_arg_ws u cst dom1 dom2 a1 Hd H1), (inst_arg_ws u cst dom1 dom2 a2 Hd H2),
        (inst_arg_nt a1 H3). reflexivity.
  Qed.

  Lemma cnt_wsb_inst dom1 dom2 n args : (forall w, In w dom1 -> w = cst \/ In w dom2) ->
    cnt_wsb true dom1 n args = true -> cnt_wsb false dom2 n (map (inst_arg u cst) args) = true.
  Proof.
    intros Hd Hw. destruct (cnt_wsb_inv true dom1 n args Hw) as (x & needle & num & target & -> & -> & Hnt & Hp & Hx).
    destruct x as [v|s|s]; [|destruct Hx|destruct Hx; discriminate].
    simpl map. unfold cnt_wsb. rewrite str_eqb_refl, Hnt, Hp. simpl.
    destruct (var_eqb v cst) eqn:E; simpl.
    - rewrite Hcl. reflexivity.
    - apply in_dom_In in Hx. destruct (Hd v Hx) as [->|H2]; [rewrite var_eqb_refl in E; discriminate|].
      apply in_dom_In in H2. rewrite H2. reflexivity.
  Qed.

  Lemma inst_ws2 : forall f dom1 dom2, (forall w, In w dom1 -> w = cst \/ In w dom2) ->
    wsbx atom3 true u dom1 f = true ->
    exists f2, inst_const atom3 ainst3 u cst f = Ok f2 /\ wsbx atom3 false u dom2 f2 = true /\ has_numq atom3 f2 = false.
  Proof.
    induction f as [x|n args|n args|h IH|fs IH|fs IH|v i m b IH|v i m b IH|v b IH|v b IH] using formula_ind';
      intros dom1 dom2 Hd Hw; simpl in Hw; try discriminate.
    - simpl. destruct (ainst3_closed_ok cst u x Hcl) as (y & ->). eauto.
    - simpl. eexists. split; [reflexivity|]. split; [|reflexivity]. simpl.
      apply orb_true_iff in Hw as [Hw|Hw].
      + rewrite (sp_wsb_inst dom1 dom2 n args Hd Hw). reflexivity.
      + rewrite (ext_wsb_inst dom1 dom2 n args Hd Hw). apply orb_true_r.
    - simpl. eexists. split; [reflexivity|]. split; [|reflexivity]. simpl. eapply cnt_wsb_inst; eassumption.
    - simpl. destruct (IH dom1 dom2 Hd Hw) as (h2 & -> & H1 & H2). eauto.
    - simpl.
      assert (X : exists l, mapM (inst_const atom3 ainst3 u cst) fs = Ok l /\ forallb (wsbx atom3 false u dom2) l = true /\
                            existsb (has_numq atom3) l = false).
      { induction IH as [|x fs Hx _ IHl]; simpl; [eauto|]. simpl in Hw. apply andb_true_iff in Hw as [Hwx Hwl].
        destruct (Hx dom1 dom2 Hd Hwx) as (y & -> & Hy1 & Hy2). destruct (IHl Hwl) as (l & -> & Hl1 & Hl2).
        eexists. split; [reflexivity|]. simpl. rewrite Hy1, Hy2, Hl1, Hl2. auto. }
      destruct X as (l & -> & Hl1 & Hl2). eauto.
    - simpl.
      assert (X : exists l, mapM (inst_const atom3 ainst3 u cst) fs = Ok l /\ forallb (wsbx atom3 false u dom2) l = true /\
                            existsb (has_numq atom3) l = false).
      { induction IH as [|x fs Hx _ IHl]; simpl; [eauto|]. simpl in Hw. apply andb_true_iff in Hw as [Hwx Hwl].
        destruct (Hx dom1 dom2 Hd Hwx) as (y & -> & Hy1 & Hy2). destruct (IHl Hwl) as (l & -> & Hl1 & Hl2).
        eexists. split; [reflexivity|]. simpl. rewrite Hy1, Hy2, Hl1, Hl2. auto. }
      destruct X as (l & -> & Hl1 & Hl2). eauto.
    - destruct m; [discriminate|]. apply andb_true_iff in Hw as [Hi Hb]. simpl.
      destruct (IH (v :: dom1) (v :: dom2)) as (b2 & -> & H1 & H2); [|assumption|].
      { intros w [<-|Hw]; [right; left; reflexivity|]. destruct (Hd w Hw); [left | right; right]; assumption. }
      eexists. split; [reflexivity|]. simpl. rewrite (inst_in_ws u cst dom1 dom2 i Hd Hi), H1. auto.
    - destruct m; [discriminate|]. apply andb_true_iff in Hw as [Hi Hb]. simpl.
      destruct (IH (v :: dom1) (v :: dom2)) as (b2 & -> & H1 & H2); [|assumption|].
      { intros w [<-|Hw]; [right; left; reflexivity|]. destruct (Hd w Hw); [left | right; right]; assumption. }
      eexists. split; [reflexivity|]. simpl. rewrite (inst_in_ws u cst dom1 dom2 i Hd Hi), H1. auto.
  Qed.
End InstWs2.

(* well-scoped formulas are in the extended fragment and have no match expression *)
Lemma wsbx_qfragP u : forall f dom, wsbx atom3 true u dom f = true -> qfragP f = true.
Proof.
  unfold qfragP.
  induction f as [x|n args|n args|h IH|fs IH|fs IH|v i m b IH|v i m b IH|v b IH|v b IH] using formula_ind';
    intros dom Hw; simpl in Hw |- *; try discriminate; try reflexivity; eauto.
  - unfold okname2. apply orb_true_iff in Hw as [Hw|Hw].
    + assert (E : okname n = true).
      { unfold okname. destruct (sp_wsb_inv u dom n args Hw) as [(a1 & a2 & _ & -> & _)|(op & nt & a1 & a2 & _ & -> & _)];
          [reflexivity | apply orb_true_r]. }
      rewrite E. reflexivity.
    + destruct (ext_wsb_inv u dom n args Hw) as [(a1 & a2 & _ & -> & _)|(k & kk & a1 & a2 & _ & -> & _)].
      * vm_compute. reflexivity.
      * vm_compute. reflexivity.
  - destruct (cnt_wsb_inv true dom n args Hw) as (x & needle & num & target & -> & _ & Hnt & _ & Hx).
    destruct x as [v|s|s]; [exact Hnt | destruct Hx | destruct Hx; discriminate].
  - rewrite forallb_forall in *. rewrite Forall_forall in IH. intros x Hx. eapply IH; eauto.
  - rewrite forallb_forall in *. rewrite Forall_forall in IH. intros x Hx. eapply IH; eauto.
  - destruct m; [discriminate|]. apply andb_true_iff in Hw as [_ Hb]. eauto.
  - destruct m; [discriminate|]. apply andb_true_iff in Hw as [_ Hb]. eauto.
Qed.

Lemma wsbx_no_mexpr A src u : forall f dom, wsbx A src u dom f = true -> has_mexpr A f = false.
Proof.
  induction f as [x|n args|n args|h IH|fs IH|fs IH|v i m b IH|v i m b IH|v b IH|v b IH] using formula_ind';
    intros dom Hw; simpl in Hw |- *; try discriminate; try reflexivity; eauto.
  - rewrite forallb_forall in Hw. induction IH as [|x l Hx _ IHl]; [reflexivity|]. simpl.
    rewrite (Hx dom); [|apply Hw; left; reflexivity]. apply IHl. intros y Hy. apply Hw. right. assumption.
  - rewrite forallb_forall in Hw. induction IH as [|x l Hx _ IHl]; [reflexivity|]. simpl.
    rewrite (Hx dom); [|apply Hw; left; reflexivity]. apply IHl. intros y Hy. apply Hw. right. assumption.
  - destruct m; [discriminate|]. apply andb_true_iff in Hw as [_ Hb]. simpl. eauto.
  - destruct m; [discriminate|]. apply andb_true_iff in Hw as [_ Hb]. simpl. eauto.
Qed.

(* the old well-scoped formulas are well-scoped here *)
Lemma wsb_wsbx src u : forall f dom, wsb atom3 u dom f = true -> wsbx atom3 src u dom f = true.
Proof.
  induction f as [x|n args|n args|h IH|fs IH|fs IH|v i m b IH|v i m b IH|v b IH|v b IH] using formula_ind';
    intros dom Hw; simpl in Hw |- *; try discriminate; try reflexivity; eauto.
  - rewrite Hw. reflexivity.
  - rewrite forallb_forall in *. rewrite Forall_forall in IH. intros x Hx. eapply IH; eauto.
  - rewrite forallb_forall in *. rewrite Forall_forall in IH. intros x Hx. eapply IH; eauto.
  - destruct m; [discriminate|]. apply andb_true_iff in Hw as [Hi Hb]. rewrite Hi. simpl. eauto.
  - destruct m; [discriminate|]. apply andb_true_iff in Hw as [Hi Hb]. rewrite Hi. simpl. eauto.
Qed.

(* ------------------------------------------------------------------ *)
(* the evaluation on a closed tree returns; stability without the returns-premise *)
(* ------------------------------------------------------------------ *)
Theorem m3_evaluate_returns2 g u cst f :
  is_openT u = false -> lbl u = vtype cst -> wsbx atom3 true u [cst] f = true ->
  existsb (var_eqb cst) (fvars atom3 afree3 f) = true ->
  exists r, m3_evaluate g u cst f = Ok r.
Proof.
  intros Hcl Hty Hw Hfv. unfold m3_evaluate, evaluate. rewrite Hfv.
  destruct (inst_ws2 u cst Hcl Hty f [cst] []) as (f2 & -> & H1 & H2); [|assumption|].
  { intros w [<-|[]]. left. reflexivity. }
  rewrite H2.
  apply (no_raise2 atom3 afree3 aopen3 aeval3 (m3_qmm g u) g false u Hcl) with (dom := []).
  - intros x a. apply smt3_returns.
  - assumption.
  - constructor.
  - constructor.
  - intros v [].
Qed.

Theorem verdict_stable_preds_ws g t t' cst f v :
  compl g t t' -> is_openT t' = false -> uniq_ids t' -> reach_closedb g = true ->
  lbl t' = vtype cst -> wsbx atom3 true t' [cst] f = true -> existsb (var_eqb cst) (fvars atom3 afree3 f) = true ->
  forallb is_nt (qtypes atom3 f) = true ->
  K_selfrec_open atom3 g t f = false -> K_cons_rel_open atom3 t f = false -> K_nth_before atom3 g t f = false ->
  m3_evaluate g t cst f = Ok v -> v <> UU -> m3_evaluate g t' cst f = Ok v.
Proof.
  intros Hc Hcl Hu Hrc Hty Hw Hfv Hnt Hk Hkc Hkn H Hv.
  destruct (m3_evaluate_returns2 g t' cst f Hcl Hty Hw Hfv) as (v' & H').
  rewrite H'. f_equal.
  eapply (verdict_stable_preds g t t' cst f v v'); try eassumption.
  - eapply wsbx_qfragP; eassumption.
  - apply no_mexpr_not_K. eapply wsbx_no_mexpr; eassumption.
Qed.

(* non-vacuity: the consecutive / nth / count instances of Eval3Stable2.v are well-scoped *)
Example verdict_stable_preds_ws_example :
  (lbl CX_t' = vtype W_cst3 /\ wsbx atom3 true CX_t' [W_cst3] CX_f1 = true /\ wsbx atom3 true CX_t' [W_cst3] CX_f2 = true /\
   existsb (var_eqb W_cst3) (fvars atom3 afree3 CX_f1) = true) /\
  (lbl NX_t' = vtype W_cst3 /\ wsbx atom3 true NX_t' [W_cst3] NX_f1 = true /\ wsbx atom3 true NX_t' [W_cst3] NX_f5 = true /\
   existsb (var_eqb W_cst3) (fvars atom3 afree3 NX_f1) = true /\ existsb (var_eqb W_cst3) (fvars atom3 afree3 NX_f5) = true) /\
  (lbl NY_t' = vtype W_cst3 /\ wsbx atom3 true NY_t' [W_cst3] NY_f1 = true /\ wsbx atom3 true NY_t' [W_cst3] NY_f2 = true /\
   wsbx atom3 true NY_t' [W_cst3] NY_f3 = true).
Proof. repeat split; vm_compute; reflexivity. Qed.
