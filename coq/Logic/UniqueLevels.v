(* C09 proof extension 2 — WHAT UNIQUENESS ensure_unique_bound_variables GUARANTEES.

   One application (every input without numeric quantifiers, shadowing or not):
     * spine uniqueness (RewriteMore.unique_spine): no quantifier of the result binds a name of
       used_names or re-binds a name of an enclosing quantifier;
     * LEVEL uniqueness (this file, `unique_levels`): quantifiers that share the same nearest
       enclosing quantifier (or are all outermost) bind pairwise different names - at every level;
       the outermost names are not in used_names and are in the caller's set afterwards.
   Together: two quantifiers of the result can bind the same name only if they sit in DIFFERENT
   branches, at least one of them strictly below the branching point's child quantifier.
   That residue is real: `unique_siblings_refuted` (RewriteMore.v), and a second application does not
   remove it: `unique_twice_refuted` below (parse_isla applies the function twice; reproduced through
   parse_isla on /repo).  Two applications still give spine + level uniqueness (`unique_twice_levels`). *)
From Coq Require Import List NArith Bool Arith Lia.
From ISLA Require Import Rewrite RewriteFacts FreshFacts RewriteMore.
Import ListNotations.

(* ---------- specification ---------- *)
(* names bound by the outermost quantifiers of f (numeric quantifiers are not renamed by the function
   and are excluded by `no_int_quant` in the theorems) *)
Fixpoint tops {A} (f : formula A) : list str :=
  match f with
  | FNot g => tops g
  | FAnd fs | FOr fs => flat_map tops fs
  | FForall v _ m _ | FExists v _ m _ => map vname (q_bound v m)
  | _ => []
  end.

(* inside every quantifier body the outermost names are pairwise different, recursively *)
Fixpoint bodies_ok {A} (f : formula A) : bool :=
  match f with
  | FNot g => bodies_ok g
  | FAnd fs | FOr fs => forallb bodies_ok fs
  | FForall _ _ _ b | FExists _ _ _ b => nodup_str (tops b) && bodies_ok b
  | FForallInt _ b | FExistsInt _ b => bodies_ok b
  | _ => true
  end.

Definition level_unique {A} (f : formula A) : bool := nodup_str (tops f) && bodies_ok f.

(* ---------- list facts ---------- *)
Lemma nodup_str_spec l : nodup_str l = true <-> NoDup l.
Proof.
  induction l as [|x l IH]; simpl.
  - split; [constructor | reflexivity].
  - rewrite andb_true_iff, negb_true_iff, IH, mem_str_false. split.
    + intros [H1 H2]. now constructor.
    + intros H. inversion H as [|y l' H1 H2]. now split.
Qed.

Inductive Sub {X} : list X -> list X -> Prop :=
| Sub_nil : Sub [] []
| Sub_skip x l1 l2 : Sub l1 l2 -> Sub l1 (x :: l2)
| Sub_keep x l1 l2 : Sub l1 l2 -> Sub (x :: l1) (x :: l2).

Lemma Sub_refl {X} (l : list X) : Sub l l.
Proof. induction l; constructor; assumption. Qed.
Lemma Sub_nil_l {X} (l : list X) : Sub [] l.
Proof. induction l; constructor; assumption. Qed.
Lemma Sub_app {X} (a a' b b' : list X) : Sub a a' -> Sub b b' -> Sub (a ++ b) (a' ++ b').
Proof. intros Ha Hb. induction Ha; simpl; try constructor; assumption. Qed.
Lemma Sub_incl {X} (a b : list X) : Sub a b -> incl a b.
Proof.
  intros H. induction H as [|x l1 l2 H IH|x l1 l2 H IH]; intros y Hy.
  - assumption.
  - right. now apply IH.
  - destruct Hy as [Hy|Hy]; [now left | right; now apply IH].
Qed.
Lemma Sub_NoDup {X} (a b : list X) : Sub a b -> NoDup b -> NoDup a.
Proof.
  intros H. induction H as [|x l1 l2 H IH|x l1 l2 H IH]; intros Hnd.
  - assumption.
  - inversion Hnd. now apply IH.
  - inversion Hnd as [|y l' Hn Hnd']. subst. constructor; [|now apply IH].
    intros Hin. apply Hn. now apply (Sub_incl _ _ H).
Qed.
Lemma Sub_trans {X} (a b c : list X) : Sub a b -> Sub b c -> Sub a c.
Proof.
  intros Hab Hbc. revert a Hab. induction Hbc as [|x l1 l2 H IH|x l1 l2 H IH]; intros a Hab.
  - assumption.
  - constructor. now apply IH.
  - inversion Hab as [|y m1 m2 Hm|y m1 m2 Hm]; subst.
    + constructor. now apply IH.
    + apply Sub_keep. now apply IH.
Qed.

Lemma NoDup_app_intro {X} (a b : list X) : NoDup a -> NoDup b -> (forall x, In x a -> ~ In x b) -> NoDup (a ++ b).
Proof.
  induction a as [|x a IH]; intros Ha Hb Hd; simpl; [assumption|].
  inversion Ha as [|y a' Hn Ha']. subst. constructor.
  - intros Hin. apply in_app_or in Hin. destruct Hin as [Hin|Hin]; [now apply Hn|].
    apply (Hd x); [now left | assumption].
  - apply IH; try assumption. intros z Hz. apply Hd. now right.
Qed.

Lemma NoDup_map_on {X Y} (f : X -> Y) l :
  NoDup l -> (forall a b, In a l -> In b l -> f a = f b -> a = b) -> NoDup (map f l).
Proof.
  induction l as [|x l IH]; intros Hnd Hinj; simpl; [constructor|].
  inversion Hnd as [|y l' Hn Hnd']. subst. constructor.
  - intros Hin. apply in_map_iff in Hin. destruct Hin as [z [Hz Hin]].
    assert (z = x) by (apply Hinj; [now right | now left | assumption]). subst. contradiction.
  - apply IH; [assumption|]. intros a b Ha Hb. apply Hinj; now right.
Qed.

Lemma NoDup_filter' {X} (p : X -> bool) l : NoDup l -> NoDup (filter p l).
Proof.
  induction l as [|x l IH]; intros H; simpl; [constructor|]. inversion H as [|y l' Hn Hnd]. subst.
  destruct (p x); [|now apply IH]. constructor; [|now apply IH].
  intros Hin. apply filter_In in Hin. now apply Hn.
Qed.

Lemma NoDup_uniq_vars l : NoDup (uniq_vars l).
Proof.
  induction l as [|x l IH]; simpl; [constructor|]. constructor.
  - intros Hin. apply filter_In in Hin. destruct Hin as [_ Hx]. now rewrite var_eqb_refl in Hx.
  - now apply NoDup_filter'.
Qed.

Lemma In_firstn {X} n (l : list X) x : In x (firstn n l) -> In x l.
Proof. intros H. rewrite <- (firstn_skipn n l). apply in_or_app. now left. Qed.

(* ---------- the own variables of a renamed quantifier ---------- *)
Section OwnNames.
  Variables (v : var) (m : option mexpr) (used1 : list str) (rho : list (var * var)) (used2 : list str).
  Hypothesis Hfv : fresh_vars (q_bound v m) used1 = (rho, used2).
  Hypothesis Hown : forall x, In x (q_bound v m) -> vk x = VBound.

  Lemma q_bound_rho :
    q_bound (lookup rho v) (option_map (subst_mexpr rho) m) = map (lookup rho) (q_bound v m).
  Proof.
    pose proof (rho_kt _ _ _ _ Hfv Hown) as Hkt.
    unfold q_bound. rewrite (mexpr_bvars_subst _ _ Hkt).
    change (lookup rho v :: map (lookup rho) (mexpr_bvars m)) with (map (lookup rho) (v :: mexpr_bvars m)).
    apply uniq_vars_map. intros x y Hx Hy. apply (rho_eqb _ _ _ _ Hfv).
    - unfold q_bound. now apply In_uniq_vars.
    - unfold q_bound. now apply In_uniq_vars.
  Qed.

  Lemma own_names_NoDup : NoDup (map vname (q_bound (lookup rho v) (option_map (subst_mexpr rho) m))).
  Proof.
    rewrite q_bound_rho, map_map. apply NoDup_map_on; [apply NoDup_uniq_vars|].
    intros a b Ha Hb Hab. destruct (fresh_vars_spec _ _ _ _ Hfv) as [_ [_ [_ [H4 _]]]].
    pose proof (NoDup_map_inj_in _ _ H4 _ _ (rho_in _ _ _ _ Hfv a Ha) (rho_in _ _ _ _ Hfv b Hb) Hab) as Hp.
    now inversion Hp.
  Qed.

  Lemma own_names_fresh n : In n (map vname (q_bound (lookup rho v) (option_map (subst_mexpr rho) m))) ->
    ~ In n used1 /\ In n used2.
  Proof.
    rewrite q_bound_rho, map_map. intros Hn. apply in_map_iff in Hn. destruct Hn as [y [Hy Hin]]. subst n. split.
    - apply (rho_ok _ _ _ _ Hfv y Hin).
    - apply (In_firstn (length used2 - length used1)). now apply (rho_img_added _ _ _ _ Hfv).
  Qed.
End OwnNames.

Section Levels.
  Variable A : Type.
  Variable O : ops A.
  Notation form := (formula A).

  Lemma tops_And (a b : form) : Sub (tops (And O a b)) (tops a ++ tops b).
  Proof.
    destruct (and_cases A O a b) as [H|[H|[H|H]]]; rewrite H.
    - rewrite <- (app_nil_r (tops a)) at 1. apply Sub_app; [apply Sub_refl | apply Sub_nil_l].
    - change (tops b) with ([] ++ tops b) at 1. apply Sub_app; [apply Sub_nil_l | apply Sub_refl].
    - apply Sub_nil_l.
    - simpl. rewrite app_nil_r. apply Sub_refl.
  Qed.
  Lemma tops_Or (a b : form) : Sub (tops (Or O a b)) (tops a ++ tops b).
  Proof.
    destruct (or_cases A O a b) as [H|[H|[H|H]]]; rewrite H.
    - rewrite <- (app_nil_r (tops a)) at 1. apply Sub_app; [apply Sub_refl | apply Sub_nil_l].
    - change (tops b) with ([] ++ tops b) at 1. apply Sub_app; [apply Sub_nil_l | apply Sub_refl].
    - apply Sub_nil_l.
    - simpl. rewrite app_nil_r. apply Sub_refl.
  Qed.

  Lemma tops_fold_and l : forall x : form, Sub (tops (fold_left (And O) l x)) (tops x ++ flat_map tops l).
  Proof.
    induction l as [|a l IH]; intros x; simpl; [rewrite app_nil_r; apply Sub_refl|].
    apply (Sub_trans _ _ _ (IH (And O x a))). rewrite app_assoc. apply Sub_app; [apply tops_And | apply Sub_refl].
  Qed.
  Lemma tops_fold_or l : forall x : form, Sub (tops (fold_left (Or O) l x)) (tops x ++ flat_map tops l).
  Proof.
    induction l as [|a l IH]; intros x; simpl; [rewrite app_nil_r; apply Sub_refl|].
    apply (Sub_trans _ _ _ (IH (Or O x a))). rewrite app_assoc. apply Sub_app; [apply tops_Or | apply Sub_refl].
  Qed.
  Lemma tops_reduce_and (l : list form) : Sub (tops (reduce1 A (And O) (TrueF O) l)) (flat_map tops l).
  Proof. destruct l as [|x l]; simpl; [constructor | apply tops_fold_and]. Qed.
  Lemma tops_reduce_or (l : list form) : Sub (tops (reduce1 A (Or O) (FalseF O) l)) (flat_map tops l).
  Proof. destruct l as [|x l]; simpl; [constructor | apply tops_fold_or]. Qed.

  Definition lvl (used u : list str) (names : list str) : Prop :=
    NoDup names /\ forall n, In n names -> ~ In n used /\ In n u.

  Lemma lvl_sub used u a b : Sub a b -> lvl used u b -> lvl used u a.
  Proof.
    intros Hs [H1 H2]. split; [now apply (Sub_NoDup _ _ Hs)|]. intros n Hn. apply H2. now apply (Sub_incl _ _ Hs).
  Qed.

  Lemma bodies_reduce_and (l : list form) : Forall (fun g => bodies_ok g = true) l ->
    bodies_ok (reduce1 A (And O) (TrueF O) l) = true.
  Proof.
    apply (P_reduce_and A O (fun g => bodies_ok g = true)); try reflexivity.
    intros a b Ha Hb. simpl. now rewrite Ha, Hb.
  Qed.
  Lemma bodies_reduce_or (l : list form) : Forall (fun g => bodies_ok g = true) l ->
    bodies_ok (reduce1 A (Or O) (FalseF O) l) = true.
  Proof.
    apply (P_reduce_or A O (fun g => bodies_ok g = true)); try reflexivity.
    intros a b Ha Hb. simpl. now rewrite Ha, Hb.
  Qed.

  (* ONE application: level uniqueness *)
  Theorem unique_levels : forall fuel (f : form) used g u, Unique O fuel f used = Some (g, u) ->
    no_int_quant f = true -> binders_bound f ->
    lvl used u (tops g) /\ bodies_ok g = true.
  Proof.
    induction fuel as [|k IH]; intros f used g u H Hni Hbb; [discriminate|].
    assert (Hlist : forall fs used0 gs u0, ulist O k fs used0 = Some (gs, u0) ->
      (forall a, In a fs -> no_int_quant a = true /\ binders_bound a) ->
      lvl used0 u0 (flat_map tops gs) /\ Forall (fun g' => bodies_ok g' = true) gs).
    { induction fs as [|a fs IHfs]; intros used0 gs u0 Hm Hall; cbn [ulist] in Hm.
      - inversion Hm. split; [|constructor]. split; [constructor | intros n []].
      - destruct (Unique O k a used0) as [[a' u']|] eqn:Ha; [|discriminate].
        destruct (ulist O k fs u') as [[r u'']|] eqn:Hr; [|discriminate]. inversion Hm. subst.
        destruct (Hall a (or_introl eq_refl)) as [Ha1 Ha2].
        destruct (IH _ _ _ _ Ha Ha1 Ha2) as [[N1 M1] B1].
        destruct (IHfs _ _ _ Hr) as [[N2 M2] B2]; [intros x Hx; apply Hall; now right|].
        pose proof (unique_mono A O _ _ _ _ _ Ha) as Hmono1.
        pose proof (ulist_mono A O k (unique_mono A O k) _ _ _ _ Hr) as Hmono2.
        split; [|now constructor]. simpl. split.
        + apply NoDup_app_intro; try assumption. intros x Hx Hx'. apply (M2 x Hx'). apply (M1 x Hx).
        + intros n Hn. apply in_app_or in Hn. destruct Hn as [Hn|Hn].
          * destruct (M1 n Hn) as [Hn1 Hn2]. split; [assumption | now apply Hmono2].
          * destruct (M2 n Hn) as [Hn1 Hn2]. split; [|assumption]. intros Hc. apply Hn1. now apply Hmono1. }
    destruct f as [a|n xs|n xs|f|fs|fs|v i m b|v i m b|v b|v b]; try discriminate;
      try (unfold Unique in H; simpl in H; inversion H; subst; split; [split; [constructor | intros n0 []] | reflexivity]).
    - unfold Unique in H. cbn [ensure_unique] in H. fold (Unique O k f used) in H.
      destruct (Unique O k f used) as [[g' u']|] eqn:Hg; [|discriminate]. inversion H. subst.
      simpl. apply (IH _ _ _ _ Hg); assumption.
    - rewrite unique_and in H. destruct (ulist O k fs used) as [[gs u']|] eqn:Hl; [|discriminate].
      inversion H. subst.
      destruct (Hlist _ _ _ _ Hl) as [L B].
      + intros a Ha. split.
        * simpl in Hni. rewrite forallb_forall in Hni. now apply Hni.
        * intros w Hw. apply Hbb. simpl. apply in_flat_map. now exists a.
      + split; [apply (lvl_sub _ _ _ _ (tops_reduce_and gs) L) | now apply bodies_reduce_and].
    - rewrite unique_or in H. destruct (ulist O k fs used) as [[gs u']|] eqn:Hl; [|discriminate].
      inversion H. subst.
      destruct (Hlist _ _ _ _ Hl) as [L B].
      + intros a Ha. split.
        * simpl in Hni. rewrite forallb_forall in Hni. now apply Hni.
        * intros w Hw. apply Hbb. simpl. apply in_flat_map. now exists a.
      + split; [apply (lvl_sub _ _ _ _ (tops_reduce_or gs) L) | now apply bodies_reduce_or].
    - rewrite unique_forall in H. unfold quant_result in H. cbv zeta in H.
      destruct (fresh_vars (q_bound v m) _) as [rho used2] eqn:Hfv.
      destruct (Unique O k (Subst O rho b) _) as [[b'' u'']|] eqn:Hb; [|discriminate]. inversion H. subst g u.
      assert (HownB : forall x, In x (q_bound v m) -> vk x = VBound).
      { intros x Hx. apply q_bound_In in Hx. apply Hbb. simpl.
        destruct Hx as [Hx|Hx]; [now left | right; apply in_or_app; now left]. }
      assert (Hbb' : binders_bound (Subst O rho b)).
      { pose proof (spine_step A O v m b used rho used2 (TrueF O) Hfv Hbb eq_refl) as [Hx _]. exact Hx. }
      destruct (IH _ _ _ _ Hb (no_int_subst A O rho b Hni) Hbb') as [[Nb _] Bb].
      split.
      + cbn [tops]. split; [apply (own_names_NoDup _ _ _ _ _ Hfv HownB)|].
        intros n Hn. destruct (own_names_fresh _ _ _ _ _ Hfv HownB n Hn) as [F1 F2]. split; [|assumption].
        intros Hc. apply F1. apply in_or_app. now right.
      + cbn [bodies_ok]. rewrite Bb, andb_true_r. now apply nodup_str_spec.
    - rewrite unique_exists in H. unfold quant_result in H. cbv zeta in H.
      destruct (fresh_vars (q_bound v m) _) as [rho used2] eqn:Hfv.
      destruct (Unique O k (Subst O rho b) _) as [[b'' u'']|] eqn:Hb; [|discriminate]. inversion H. subst g u.
      assert (HownB : forall x, In x (q_bound v m) -> vk x = VBound).
      { intros x Hx. apply q_bound_In in Hx. apply Hbb. simpl.
        destruct Hx as [Hx|Hx]; [now left | right; apply in_or_app; now left]. }
      assert (Hbb' : binders_bound (Subst O rho b)).
      { pose proof (spine_step A O v m b used rho used2 (TrueF O) Hfv Hbb eq_refl) as [Hx _]. exact Hx. }
      destruct (IH _ _ _ _ Hb (no_int_subst A O rho b Hni) Hbb') as [[Nb _] Bb].
      split.
      + cbn [tops]. split; [apply (own_names_NoDup _ _ _ _ _ Hfv HownB)|].
        intros n Hn. destruct (own_names_fresh _ _ _ _ _ Hfv HownB n Hn) as [F1 F2]. split; [|assumption].
        intros Hc. apply F1. apply in_or_app. now right.
      + cbn [bodies_ok]. rewrite Bb, andb_true_r. now apply nodup_str_spec.
  Qed.
End Levels.

(* ---------- the result is again an admissible input (needed for the second application) ---------- *)
Section Again.
  Variable A : Type.
  Variable O : ops A.
  Notation form := (formula A).

  Definition adm (f : form) : Prop := no_int_quant f = true /\ binders_bound f.

  Lemma adm_true : adm (TrueF O).
  Proof. split; [reflexivity | intros w []]. Qed.
  Lemma adm_false : adm (FalseF O).
  Proof. split; [reflexivity | intros w []]. Qed.
  Lemma adm_and (a b : form) : adm a -> adm b -> adm (FAnd [a; b]).
  Proof.
    intros [A1 A2] [B1 B2]. split; [simpl; now rewrite A1, B1|].
    intros w Hw. simpl in Hw. rewrite app_nil_r in Hw. apply in_app_or in Hw. destruct Hw; auto.
  Qed.
  Lemma adm_or (a b : form) : adm a -> adm b -> adm (FOr [a; b]).
  Proof.
    intros [A1 A2] [B1 B2]. split; [simpl; now rewrite A1, B1|].
    intros w Hw. simpl in Hw. rewrite app_nil_r in Hw. apply in_app_or in Hw. destruct Hw; auto.
  Qed.

  Lemma adm_args_and (fs : list form) a : adm (FAnd fs) -> In a fs -> adm a.
  Proof.
    intros [H1 H2] Ha. split.
    - simpl in H1. rewrite forallb_forall in H1. now apply H1.
    - intros w Hw. apply H2. simpl. apply in_flat_map. now exists a.
  Qed.
  Lemma adm_args_or (fs : list form) a : adm (FOr fs) -> In a fs -> adm a.
  Proof.
    intros [H1 H2] Ha. split.
    - simpl in H1. rewrite forallb_forall in H1. now apply H1.
    - intros w Hw. apply H2. simpl. apply in_flat_map. now exists a.
  Qed.

  Lemma ulist_adm k : (forall (f : form) used g u, Unique O k f used = Some (g, u) -> adm f -> adm g) ->
    forall (fs : list form) used gs u, ulist O k fs used = Some (gs, u) -> (forall a, In a fs -> adm a) -> Forall adm gs.
  Proof.
    intros IH. induction fs as [|a fs IHfs]; intros used gs u Hm Hall; cbn [ulist] in Hm.
    - inversion Hm. constructor.
    - destruct (Unique O k a used) as [[a' u']|] eqn:Ha; [|discriminate].
      destruct (ulist O k fs u') as [[r u'']|] eqn:Hr; [|discriminate]. inversion Hm. subst. constructor.
      + apply (IH _ _ _ _ Ha). apply Hall. now left.
      + apply (IHfs _ _ _ Hr). intros x Hx. apply Hall. now right.
  Qed.

  Lemma quant_adm v i m (b : form) used rho used2 (b'' : form) (mk : var -> invar -> option mexpr -> form -> form) :
    (forall v0 i0 m0 b0, no_int_quant (mk v0 i0 m0 b0) = no_int_quant b0) ->
    (forall v0 i0 m0 b0, bvars A (mk v0 i0 m0 b0) = v0 :: mexpr_bvars m0 ++ bvars A b0) ->
    fresh_vars (q_bound v m)
      (names_not_in (uniq_vars (v :: mexpr_bvars m ++ bvars A b)) (q_bound v m) ++ used) = (rho, used2) ->
    adm (mk v i m b) -> adm b'' ->
    adm (Subst O rho b) /\ adm (mk (lookup rho v) (subst_invar rho i) (option_map (subst_mexpr rho) m) b'').
  Proof.
    intros Hmk1 Hmk2 Hfv [Hni Hbb] [Hni'' Hbb'']. rewrite Hmk1 in Hni.
    assert (Hbb0 : forall w, In w (v :: mexpr_bvars m ++ bvars A b) -> vk w = VBound).
    { intros w Hw. apply Hbb. now rewrite Hmk2. }
    assert (HownB : forall x, In x (q_bound v m) -> vk x = VBound).
    { intros x Hx. apply q_bound_In in Hx. apply Hbb0. simpl.
      destruct Hx as [Hx|Hx]; [now left | right; apply in_or_app; now left]. }
    pose proof (rho_kt _ _ _ _ Hfv HownB) as Hkt.
    split; split.
    - now apply no_int_subst.
    - pose proof (spine_step A O v m b used rho used2 (TrueF O) Hfv Hbb0 eq_refl) as [Hx _]. exact Hx.
    - now rewrite Hmk1.
    - intros w Hw. rewrite Hmk2 in Hw. simpl in Hw. destruct Hw as [Hw|Hw].
      + subst w. rewrite (proj1 (Hkt v)). apply Hbb0. now left.
      + apply in_app_or in Hw. destruct Hw as [Hw|Hw]; [|now apply Hbb''].
        rewrite (mexpr_bvars_subst _ _ Hkt) in Hw. apply in_map_iff in Hw. destruct Hw as [y [Hy Hin]]. subst w.
        rewrite (proj1 (Hkt y)). apply Hbb0. right. apply in_or_app. now left.
  Qed.

  Theorem unique_adm : forall fuel (f : form) used g u, Unique O fuel f used = Some (g, u) -> adm f -> adm g.
  Proof.
    induction fuel as [|k IH]; intros f used g u H Hadm; [discriminate|].
    destruct f as [a|n xs|n xs|f|fs|fs|v i m b|v i m b|v b|v b];
      try (unfold Unique in H; simpl in H; inversion H; subst; assumption).
    - unfold Unique in H. cbn [ensure_unique] in H. fold (Unique O k f used) in H.
      destruct (Unique O k f used) as [[g' u']|] eqn:Hg; [|discriminate]. inversion H. subst.
      apply (IH _ _ _ _ Hg). exact Hadm.
    - rewrite unique_and in H. destruct (ulist O k fs used) as [[gs u']|] eqn:Hl; [|discriminate].
      inversion H. subst.
      apply (P_reduce_and A O adm adm_true adm_false adm_and).
      apply (ulist_adm k IH _ _ _ _ Hl). intros a Ha. now apply (adm_args_and fs).
    - rewrite unique_or in H. destruct (ulist O k fs used) as [[gs u']|] eqn:Hl; [|discriminate].
      inversion H. subst.
      apply (P_reduce_or A O adm adm_true adm_false adm_or).
      apply (ulist_adm k IH _ _ _ _ Hl). intros a Ha. now apply (adm_args_or fs).
    - rewrite unique_forall in H. unfold quant_result in H. cbv zeta in H.
      destruct (fresh_vars (q_bound v m) _) as [rho used2] eqn:Hfv.
      destruct (Unique O k (Subst O rho b) _) as [[b'' u'']|] eqn:Hb; [|discriminate]. inversion H. subst g u.
      destruct (quant_adm v i m b used rho used2 (TrueF O) (@FForall A)
                  (fun _ _ _ _ => eq_refl) (fun _ _ _ _ => eq_refl) Hfv Hadm adm_true) as [Hs _].
      pose proof (IH _ _ _ _ Hb Hs) as Hb''.
      apply (quant_adm v i m b used rho used2 b'' (@FForall A)
                  (fun _ _ _ _ => eq_refl) (fun _ _ _ _ => eq_refl) Hfv Hadm Hb'').
    - rewrite unique_exists in H. unfold quant_result in H. cbv zeta in H.
      destruct (fresh_vars (q_bound v m) _) as [rho used2] eqn:Hfv.
      destruct (Unique O k (Subst O rho b) _) as [[b'' u'']|] eqn:Hb; [|discriminate]. inversion H. subst g u.
      destruct (quant_adm v i m b used rho used2 (TrueF O) (@FExists A)
                  (fun _ _ _ _ => eq_refl) (fun _ _ _ _ => eq_refl) Hfv Hadm adm_true) as [Hs _].
      pose proof (IH _ _ _ _ Hb Hs) as Hb''.
      apply (quant_adm v i m b used rho used2 b'' (@FExists A)
                  (fun _ _ _ _ => eq_refl) (fun _ _ _ _ => eq_refl) Hfv Hadm Hb'').
  Qed.

  (* ---------- packaged statements ---------- *)
  (* ONE application *)
  Theorem unique_once : forall fuel (f : form) used g u, Unique O fuel f used = Some (g, u) ->
    no_int_quant f = true -> binders_bound f ->
    K_shadow used g = false /\ level_unique g = true /\
    (forall n, In n (tops g) -> ~ In n used /\ In n u) /\ incl used u.
  Proof.
    intros fuel f used g u H Hni Hbb.
    destruct (unique_levels A O _ _ _ _ _ H Hni Hbb) as [[N M] B].
    split; [apply (unique_spine A O _ _ _ _ _ H Hni Hbb)|]. split; [|split; [exact M|]].
    - unfold level_unique. rewrite B, andb_true_r. now apply nodup_str_spec.
    - apply (unique_mono A O _ _ _ _ _ H).
  Qed.

  (* TWO applications (parse_isla): the same guarantee, nothing more (see unique_twice_refuted) *)
  Theorem unique_twice_levels : forall k1 k2 (f : form) used1 used2 g1 u1 g2 u2,
    Unique O k1 f used1 = Some (g1, u1) -> Unique O k2 g1 used2 = Some (g2, u2) ->
    no_int_quant f = true -> binders_bound f ->
    K_shadow used2 g2 = false /\ level_unique g2 = true.
  Proof.
    intros k1 k2 f used1 used2 g1 u1 g2 u2 H1 H2 Hni Hbb.
    destruct (unique_adm _ _ _ _ _ H1 (conj Hni Hbb)) as [Hni1 Hbb1].
    destruct (unique_once _ _ _ _ _ H2 Hni1 Hbb1) as [S [L _]]. now split.
  Qed.
End Again.

(* ---------- TWO applications do not give global uniqueness ---------- *)
Definition v_w := MkVar VBound (s_of [119]%N) (s_of [60;105;62]%N).
Definition v_y1 := MkVar VBound (s_of [121;95;49]%N) (s_of [60;98;62]%N).

(* ((forall x in start: ((forall y in x: y="a") and (forall y in x: y="b"))) and
    (forall w in start: forall y_0 in w: y_0="c")) and (forall y_1 in start: y_1="d")
   first application:  x y y_0 | w y_0 | y_1      (y_0 twice)
   second application: x y y_0 | w y_1 | y_1      (y_1 twice: the name chosen for the inner y_0 of
   the second conjunct stays in the private set of that conjunct's recursion) *)
Definition w_twice : cform :=
  FAnd [FAnd [FForall v_x (InVar v_start) None
                (FAnd [FForall v_y (InVar v_x) None (y_is v_y 97); FForall v_y (InVar v_x) None (y_is v_y 98)]);
              FForall v_w (InVar v_start) None (FForall v_y0 (InVar v_w) None (y_is v_y0 99))];
        FForall v_y1 (InVar v_start) None (y_is v_y1 100)].

Lemma w_twice_hyps : K_shadow [] w_twice = false /\ no_int_quant w_twice = true /\ binders_bound w_twice.
Proof.
  split; [reflexivity|]. split; [reflexivity|].
  intros w Hw. simpl in Hw. repeat (destruct Hw as [Hw|Hw]; [subst w; reflexivity|]). destruct Hw.
Qed.

Lemma unique_twice_refuted : exists (f g1 g2 : cform) u1 u2,
  K_shadow [] f = false /\ no_int_quant f = true /\ binders_bound f /\
  Unique cops_t 40 f [] = Some (g1, u1) /\ Unique cops_t 40 g1 [] = Some (g2, u2) /\
  bound_unique g2 = false /\
  map vname (bvars catom g2) = map vname [v_x; v_y; v_y0; v_w; v_y1; v_y1].
Proof.
  destruct w_twice_hyps as [H1 [H2 H3]].
  exists w_twice. eexists. eexists. eexists. eexists.
  split; [exact H1|]. split; [exact H2|]. split; [exact H3|].
  split; [vm_compute; reflexivity|]. split; [vm_compute; reflexivity|]. split; vm_compute; reflexivity.
Qed.

Example unique_once_nonvacuous :
  no_int_quant w_twice = true /\ binders_bound w_twice /\
  exists g u, Unique cops_t 40 w_twice [] = Some (g, u) /\ g <> w_twice /\ level_unique g = true.
Proof.
  destruct w_twice_hyps as [_ [H2 H3]]. split; [exact H2|]. split; [exact H3|].
  eexists. eexists. split; [vm_compute; reflexivity|]. split; [discriminate | vm_compute; reflexivity].
Qed.
