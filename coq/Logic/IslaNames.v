(* Names of the built-in predicates, level operators and decimal numerals as code-point
   strings: shared by the specification (Semantics.v) and the evaluator model (Eval.v). *)
From ISLA Require Export Str Preds.

(* ---- predicate names and string constants (code points) ---- *)
Definition s_before : str := [98;101;102;111;114;101]%N.
Definition s_after : str := [97;102;116;101;114]%N.
Definition s_inside : str := [105;110;115;105;100;101]%N.
Definition s_same_position : str := [115;97;109;101;95;112;111;115;105;116;105;111;110]%N.
Definition s_different_position : str := [100;105;102;102;101;114;101;110;116;95;112;111;115;105;116;105;111;110]%N.
Definition s_direct_child : str := [100;105;114;101;99;116;95;99;104;105;108;100]%N.
Definition s_consecutive : str := [99;111;110;115;101;99;117;116;105;118;101]%N.
Definition s_nth : str := [110;116;104]%N.
Definition s_level : str := [108;101;118;101;108]%N.
Definition s_count : str := [99;111;117;110;116]%N.
Definition s_EQ : str := [69;81]%N.
Definition s_GE : str := [71;69]%N.
Definition s_LE : str := [76;69]%N.
Definition s_GT : str := [71;84]%N.
Definition s_LT : str := [76;84]%N.

Definition lvl_of_str (s : str) : option lvl_op :=
  if str_eqb s s_EQ then Some EQ else if str_eqb s s_GE then Some GE
  else if str_eqb s s_LE then Some LE else if str_eqb s s_GT then Some GT
  else if str_eqb s s_LT then Some LT else None.

(* ---- decimal numerals ---- *)
Fixpoint uint_str (d : Decimal.uint) : str :=
  match d with
  | Decimal.Nil => []
  | Decimal.D0 d' => 48%N :: uint_str d' | Decimal.D1 d' => 49%N :: uint_str d'
  | Decimal.D2 d' => 50%N :: uint_str d' | Decimal.D3 d' => 51%N :: uint_str d'
  | Decimal.D4 d' => 52%N :: uint_str d' | Decimal.D5 d' => 53%N :: uint_str d'
  | Decimal.D6 d' => 54%N :: uint_str d' | Decimal.D7 d' => 55%N :: uint_str d'
  | Decimal.D8 d' => 56%N :: uint_str d' | Decimal.D9 d' => 57%N :: uint_str d'
  end.
(* canonical decimal numeral of a natural number: "0", "1", "17", ... *)
Definition dec (n : N) : str := uint_str (N.to_uint n).

Definition digit_of (ch : chr) : option N :=
  if (N.leb 48 ch && N.leb ch 57)%bool then Some (ch - 48)%N else None.
Fixpoint parse_dec_from (acc : N) (s : str) : option N :=
  match s with
  | [] => Some acc
  | ch :: s' => match digit_of ch with
                | Some d => parse_dec_from (acc * 10 + d)%N s'
                | None => None
                end
  end.
(* value of a "numeric String" (non-empty sequence of ASCII digits) *)
Definition parse_dec (s : str) : option N :=
  match s with [] => None | _ => parse_dec_from 0%N s end.

