(* MODEL of the SECOND evaluation strategy of isla/evaluator.py `evaluate` (used whenever the
   instantiated formula contains a numeric quantifier):

       qfr_free  = eliminate_quantifiers(formula, grammar, numeric_constants = {})
       no_preds  = replace_formula(qfr_free, evaluate_predicates_action)
       smt       = approximate_isla_to_smt_formula(no_preds, replace_untranslatable_with_predicate=True)
       return is_valid(smt)

   for CLOSED reference trees, no assumptions, no free numeric constants.  No proofs in this file.

   What the code does (evaluator.py 1009-1330):
   * eliminate_quantifiers_in_quantified_formula: a tree quantifier `Q v in t: body` (t a tree:
     assert) is replaced by the conjunction (forall) / disjunction (exists) of
     eliminate_quantifiers(body.substitute_expressions(match)) over ALL matches of
     matches_for_quantified_formula(qf, grammar, t) -- a traversal of the tree t itself, NOT the
     datrie (K_wide does not exist here); no match: true / false.
   * eliminate_quantifiers_in_numeric_quantified_formula: `exists int n: body` STAYS an
     ExistsIntFormula over the eliminated body (`| false` for the empty set of numeric constants);
     `forall int n: body` stays a ForallIntFormula.
   * evaluate_predicates_action: structural predicate -> true/false (paths of the tree arguments
     by id in the reference tree); count(t, N, k) -> true/false; count(t, N, n) with n a VARIABLE ->
     the SMT atom  n = "k"  (k = number of N-nodes of the closed tree t); anything not ready is
     left in place (then replaced by a fresh Bool P_i: outside this model, NotImpl).
   * approximate_isla_to_smt_formula: ExistsIntFormula -> z3.Exists([n]), ForallIntFormula ->
     z3.ForAll([n]) where n = z3.String(name): the bound variable has sort STRING, so the final
     query quantifies over ALL strings, not over numerals (finding K_numq_sort, Eval2Facts.v).
   * is_valid(smt): the oracle [z3_valid] (Section variable) on the pure formula.

   Modelling decisions
   * The pure formula is a [formula atom2] that only uses FSmt/FNot/FAnd/FOr/FForallInt/FExistsInt.
   * `substitute_expressions(match)` is distributed to the leaves: [elim] carries the composed
     substitution sigma (variable -> tree) and applies it to predicate arguments, `in` variables
     and atoms.  Python substitutes WITHOUT protecting bound variables, so on a clash the OUTER
     binding wins ([ext]: a key that is already present is not overwritten).
   * Not modelled: the `&` / `|` smart constructors (`reduce`, replace_formula): they only
     rewrite the pure formula into an equivalent one.
   * Atoms: the family [atom] of Eval.v extended with  str.to.int(n) REL k  over a variable n
     ([AToInt]); substituting a TREE for that n (Python's sign/float-aware ground evaluation) is
     outside the model: NotImpl. *)
From ISLA Require Export Eval EvalAtoms.
From Coq Require Import ZArith.

Inductive atom2 :=
| A1 (a : atom)
| AToInt (op : cmp) (v : var) (k : Z).     (* (op (str.to.int v) k) *)

Definition atom2_free (x : atom2) : list var :=
  match x with A1 a => atom_free a | AToInt _ v _ => [v] end.

(* evaluate_legacy never meets str.to.int in the fragment (no numeric quantifier -> first strategy) *)
Definition atom2_eval (x : atom2) (a : asg) : res TV :=
  match x with A1 a0 => atom_eval a0 a | AToInt _ _ _ => Raise NotImpl end.

Definition atom2_inst (cst : var) (t : tree) (x : atom2) : res atom2 :=
  match x with
  | A1 a0 => match atom_inst cst t a0 with Ok y => Ok (A1 y) | Raise e => Raise e end
  | AToInt _ v _ => if var_eqb v cst then Raise NotImpl else Ok x
  end.

(* Variable.NUMERIC_NTYPE = "NUM" *)
Definition s_NUM : str := [78;85;77]%N.

(* composed substitution: variable -> tree *)
Definition tsub := list (var * tree).

(* old bindings win *)
Definition ext (sg : tsub) (m : tsub) : tsub :=
  fold_left (fun acc kv => if dict_mem acc (fst kv) then acc else kv :: acc) m sg.

Definition sub_arg (sg : tsub) (x : parg) : parg :=
  match x with
  | PVar v => match dict_get sg v with Some t => PTree t | None => x end
  | _ => x
  end.

Definition sterm_sub (sg : tsub) (x : sterm) : sterm :=
  match x with
  | SVar v => match dict_get sg v with Some t => SLit (yield t) | None => x end
  | _ => x
  end.

(* SMTFormula.substitute_expressions: closed trees are inlined as their strings; a formula that
   became ground is evaluated at once *)
Definition atom2_sub (sg : tsub) (x : atom2) : res atom2 :=
  match x with
  | AToInt _ v _ => if dict_mem sg v then Raise NotImpl else Ok x
  | A1 a0 =>
      if existsb (fun v => match dict_get sg v with Some t => is_openT t | None => false end) (atom_free a0)
      then Raise NotImpl else
      let y := match a0 with
               | AStr neg s u => AStr neg (sterm_sub sg s) (sterm_sub sg u)
               | ALen op s n => ALen op (sterm_sub sg s) n
               | ABool b => ABool b
               end in
      if existsb (fun v => dict_mem sg v) (atom_free a0) && is_nil (atom_free y)
      then match atom_eval y [] with
           | Ok TT => Ok (A1 (ABool true)) | Ok FF => Ok (A1 (ABool false))
           | Ok UU => Raise AssertErr | Raise e => Raise e
           end
      else Ok (A1 y)
  end.

Definition tt2 : formula atom2 := FSmt (A1 (ABool true)).
Definition ff2 : formula atom2 := FSmt (A1 (ABool false)).

(* smt_atom(bool); a predicate that is not ready stays in the formula: outside the model *)
Definition of_tv (r : res TV) : res (formula atom2) :=
  match r with
  | Ok TT => Ok tt2 | Ok FF => Ok ff2 | Ok UU => Raise NotImpl | Raise e => Raise e
  end.

Section Strategy2.
  (* is_valid(approximate_isla_to_smt_formula(.)) on the pure formula *)
  Variable z3_valid : formula atom2 -> res TV.
  Variable ref : tree.

  (* evaluate_predicates_action on a semantic predicate formula (count) *)
  Definition sem_action (sg : tsub) (n : str) (args : list parg) : res (formula atom2) :=
    if negb (str_eqb n s_count) then Raise NotImpl else
    match map (sub_arg sg) args with
    | [PTree t; PStr needle; PVar w] =>
        if is_openT t then Raise NotImpl
        else if negb (str_eqb (vtype w) s_NUM) then Raise AssertErr
        else Ok (FSmt (A1 (AStr false (SVar w) (SLit (dec (N.of_nat (count_nodes needle t)))))))
    | [PTree t; PStr needle; y] =>
        of_tv (eval_sempred no_reach no_count_open [] s_count [PTree t; PStr needle; y])
    | _ => Raise NotImpl
    end.

  Definition resolve_in (sg : tsub) (i : invar) : res tree :=
    match i with
    | InTree t => Ok t
    | InVar w => match dict_get sg w with Some t => Ok t | None => Raise AssertErr end
    end.

  (* matches_for_quantified_formula(qf, grammar, t), reduced to {var: tree} *)
  Definition q_matches (v : var) (m : option mexpr) (t : tree) : res (list tsub) :=
    match m with
    | None => Ok (map (fun ps : path * tree => [(v, snd ps)])
                      (filter (fun ps : path * tree => str_eqb (lbl (snd ps)) (vtype v)) (nodes t)))
    | Some me =>
        match mexpr_matches v me (nodes t) with
        | Raise e => Raise e
        | Ok l => Ok (map (map (fun kv : var * (path * tree) => (fst kv, snd (snd kv)))) l)
        end
    end.

  (* eliminate_quantifiers + evaluate_predicates_action, fused *)
  Fixpoint elim (f : formula atom2) (sg : tsub) {struct f} : res (formula atom2) :=
    match f with
    | FSmt x => match atom2_sub sg x with Ok y => Ok (FSmt y) | Raise e => Raise e end
    | FSPred n args => of_tv (eval_spred ref [] n (map (sub_arg sg) args))
    | FSemPred n args => sem_action sg n args
    | FNot g => match elim g sg with Ok g' => Ok (FNot g') | Raise e => Raise e end
    | FAnd fs => match mapM (fun g => elim g sg) fs with Ok l => Ok (FAnd l) | Raise e => Raise e end
    | FOr fs => match mapM (fun g => elim g sg) fs with Ok l => Ok (FOr l) | Raise e => Raise e end
    | FForall v i m body =>
        match resolve_in sg i with
        | Raise e => Raise e
        | Ok t =>
            if is_openT t then Raise NotImpl else
            match q_matches v m t with
            | Raise e => Raise e
            | Ok ms =>
                match mapM (fun mt => elim body (ext sg mt)) ms with
                | Raise e => Raise e
                | Ok [] => Ok tt2
                | Ok l => Ok (FAnd l)
                end
            end
        end
    | FExists v i m body =>
        match resolve_in sg i with
        | Raise e => Raise e
        | Ok t =>
            if is_openT t then Raise NotImpl else
            match q_matches v m t with
            | Raise e => Raise e
            | Ok ms =>
                match mapM (fun mt => elim body (ext sg mt)) ms with
                | Raise e => Raise e
                | Ok [] => Ok ff2
                | Ok l => Ok (FOr l)
                end
            end
        end
    | FForallInt v body =>
        if dict_mem sg v then Raise AssertErr else
        match elim body sg with Ok b' => Ok (FForallInt v b') | Raise e => Raise e end
    | FExistsInt v body =>
        if dict_mem sg v then Raise AssertErr else
        match elim body sg with Ok b' => Ok (FExistsInt v b') | Raise e => Raise e end
    end.

  Definition strategy2_m (f : formula atom2) : res TV :=
    if is_openT ref then Raise NotImpl else
    match elim f [] with
    | Raise e => Raise e
    | Ok p => z3_valid p
    end.
End Strategy2.

(* evaluate() / ISLaSolver.check() with the second strategy modelled *)
Definition m2_evaluate (z3_valid : formula atom2 -> res TV) (T : tree) (cst : var) (f : formula atom2) : res TV :=
  evaluate atom2 atom2_free (fun _ => false) atom2_eval atom2_inst no_qmm no_reach no_count_open
           (strategy2_m z3_valid) T cst f.
Definition m2_check (z3_valid : formula atom2 -> res TV) (T : tree) (cst : var) (f : formula atom2) : res bool :=
  solver_check atom2 atom2_free (fun _ => false) atom2_eval atom2_inst no_qmm no_reach no_count_open
           (strategy2_m z3_valid) T cst f.

(* ------------------------------------------------------------------ *)
(* a candidate-based evaluator of pure formulas, ONLY for the correspondence check (it plays the
   role of Z3 when the harness runs the model in Coq): quantifiers range over a finite list of
   candidate strings computed from the formula (its literals, the numerals around its integer
   constants, strings of the lengths it mentions, non-numeric strings).  Nothing is proved about it. *)
(* ------------------------------------------------------------------ *)
Definition penv := var -> str.
Definition pupd (e : penv) (v : var) (s : str) : penv := fun w => if var_eqb w v then s else e w.

Definition str_to_int (s : str) : Z :=
  match parse_dec s with Some n => Z.of_N n | None => (-1)%Z end.

Definition sval (e : penv) (x : sterm) : str :=
  match x with SLit s => s | SVar v => e v end.

Definition patomb (e : penv) (x : atom2) : bool :=
  match x with
  | A1 (ABool b) => b
  | A1 (AStr neg s t) => xorb neg (str_eqb (sval e s) (sval e t))
  | A1 (ALen op s n) => cmp_eval op (Z.of_nat (length (sval e s))) n
  | AToInt op v k => cmp_eval op (str_to_int (e v)) k
  end.

Fixpoint pdec (cands : list str) (e : penv) (p : formula atom2) {struct p} : bool :=
  match p with
  | FSmt x => patomb e x
  | FNot g => negb (pdec cands e g)
  | FAnd fs => forallb (pdec cands e) fs
  | FOr fs => existsb (pdec cands e) fs
  | FForallInt v g => forallb (fun s => pdec cands (pupd e v s) g) cands
  | FExistsInt v g => existsb (fun s => pdec cands (pupd e v s) g) cands
  | _ => false
  end.

Definition z_cands (k : Z) : list str :=
  flat_map (fun z => if (z <? 0)%Z then [] else [dec (Z.to_N z)]) [(k - 1)%Z; k; (k + 1)%Z].
Definition len_cands (k : Z) : list str :=
  flat_map (fun z => if (z <? 0)%Z then [] else [repeat 97%N (Z.to_nat z)]) [(k - 1)%Z; k; (k + 1)%Z].
Definition sterm_cands (x : sterm) : list str := match x with SLit s => [s] | SVar _ => [] end.

Fixpoint cands_of (p : formula atom2) : list str :=
  match p with
  | FSmt (A1 (AStr _ s t)) => sterm_cands s ++ sterm_cands t
  | FSmt (A1 (ALen _ _ n)) => len_cands n
  | FSmt (A1 (ABool _)) => []
  | FSmt (AToInt _ _ k) => z_cands k
  | FNot g => cands_of g
  | FAnd fs | FOr fs => flat_map cands_of fs
  | FForallInt _ g | FExistsInt _ g => cands_of g
  | _ => []
  end.

(* "", "0", "7", "00", "a", "-1", "zz", "zzz" are always candidates *)
Definition base_cands : list str :=
  [ []; [48]; [55]; [48;48]; [97]; [45;49]; [122;122]; [122;122;122] ]%N.

Definition z3_by_cands (p : formula atom2) : res TV :=
  Ok (tv_of_bool (pdec (base_cands ++ cands_of p) (fun _ => []) p)).
