(* C09 proof extension 2 — TOTALITY of the fuelled model functions of Logic/Rewrite.v:
   `ensure_unique` returns `Some` whenever its fuel exceeds a computable measure `ufuel f`
   (<= 2 * fsize f, hence for the fuel `4 * fsize f + 8` the correspondence check passes), and the
   index search `first_free` of `fresh_vars` is fuel-independent from `|used_names| + 1` on: it returns
   the LEAST index whose name is free (the Python `while` loop, which has no fuel).
   `fresh_vars` itself is structurally recursive (no fuel).  No model definition is changed. *)
From Coq Require Import List NArith Bool Arith Lia.
From ISLA Require Import Rewrite RewriteFacts FreshFacts RewriteMore.
Import ListNotations.

Local Arguments Nat.max : simpl never.
Local Arguments Nat.sub : simpl never.

(* ---------- the measure ---------- *)
(* An n-ary connective is re-assembled by substitute_variables / ensure_unique_bound_variables as a
   left-nested chain of n-1 binary connectives, so it must weigh n-1 (at least 1). *)
Fixpoint ufuel {A} (f : formula A) : nat :=
  match f with
  | FNot g => S (ufuel g)
  | FAnd fs | FOr fs => Nat.max 1 (length fs - 1) + list_sum (map ufuel fs)
  | FForall _ _ _ b | FExists _ _ _ b | FForallInt _ b | FExistsInt _ b => S (ufuel b)
  | _ => 1
  end.

Lemma ufuel_pos {A} (f : formula A) : 1 <= ufuel f.
Proof. destruct f; simpl; lia. Qed.

Lemma list_sum_In {X} (w : X -> nat) l x : In x l -> w x <= list_sum (map w l).
Proof.
  induction l as [|a l IH]; intros H; [destruct H|]. simpl. destruct H as [H|H]; [subst; lia|].
  specialize (IH H). lia.
Qed.

Lemma list_sum_le {X} (w1 w2 : X -> nat) l : (forall x, In x l -> w1 x <= w2 x) ->
  list_sum (map w1 l) <= list_sum (map w2 l).
Proof.
  induction l as [|a l IH]; intros H; simpl; [lia|].
  pose proof (H a (or_introl eq_refl)). assert (list_sum (map w1 l) <= list_sum (map w2 l)).
  { apply IH. intros x Hx. apply H. now right. } lia.
Qed.

Lemma len_le_sum {X} (w : X -> nat) l : (forall x, 1 <= w x) -> length l <= list_sum (map w l).
Proof. intros Hw. induction l as [|a l IH]; simpl; [lia|]. specialize (Hw a). lia. Qed.

Lemma ufuel_le_fsize {A} (f : formula A) : ufuel f + 1 <= 2 * fsize f.
Proof.
  induction f as [a|n xs|n xs|f IH|fs IH|fs IH|v i m b IH|v i m b IH|v b IH|v b IH] using formula_ind';
    simpl; try lia.
  - assert (H1 : list_sum (map ufuel fs) + length fs <= 2 * list_sum (map fsize fs)).
    { induction IH as [|x l Hx _ IHl]; simpl; [lia|]. lia. }
    pose proof (len_le_sum (@fsize A) fs) as H2.
    assert (length fs <= list_sum (map fsize fs)) by (apply H2; intros x; destruct x; simpl; lia). lia.
  - assert (H1 : list_sum (map ufuel fs) + length fs <= 2 * list_sum (map fsize fs)).
    { induction IH as [|x l Hx _ IHl]; simpl; [lia|]. lia. }
    pose proof (len_le_sum (@fsize A) fs) as H2.
    assert (length fs <= list_sum (map fsize fs)) by (apply H2; intros x; destruct x; simpl; lia). lia.
Qed.

Section Total.
  Variable A : Type.
  Variable O : ops A.
  Notation form := (formula A).

  Lemma ufuel_And (a b : form) : ufuel (And O a b) <= 1 + ufuel a + ufuel b.
  Proof.
    pose proof (ufuel_pos a). pose proof (ufuel_pos b).
    destruct (and_cases A O a b) as [H1|[H1|[H1|H1]]]; rewrite H1; simpl; lia.
  Qed.
  Lemma ufuel_Or (a b : form) : ufuel (Or O a b) <= 1 + ufuel a + ufuel b.
  Proof.
    pose proof (ufuel_pos a). pose proof (ufuel_pos b).
    destruct (or_cases A O a b) as [H1|[H1|[H1|H1]]]; rewrite H1; simpl; lia.
  Qed.

  Lemma ufuel_fold_and l : forall x : form,
    ufuel (fold_left (And O) l x) <= ufuel x + length l + list_sum (map ufuel l).
  Proof.
    induction l as [|a l IH]; intros x; simpl; [lia|].
    specialize (IH (And O x a)). pose proof (ufuel_And x a). lia.
  Qed.
  Lemma ufuel_fold_or l : forall x : form,
    ufuel (fold_left (Or O) l x) <= ufuel x + length l + list_sum (map ufuel l).
  Proof.
    induction l as [|a l IH]; intros x; simpl; [lia|].
    specialize (IH (Or O x a)). pose proof (ufuel_Or x a). lia.
  Qed.

  Lemma ufuel_reduce_and (l : list form) :
    ufuel (reduce1 A (And O) (TrueF O) l) <= Nat.max 1 (length l - 1) + list_sum (map ufuel l).
  Proof.
    destruct l as [|x l]; simpl; [lia|]. pose proof (ufuel_fold_and l x). lia.
  Qed.
  Lemma ufuel_reduce_or (l : list form) :
    ufuel (reduce1 A (Or O) (FalseF O) l) <= Nat.max 1 (length l - 1) + list_sum (map ufuel l).
  Proof.
    destruct l as [|x l]; simpl; [lia|]. pose proof (ufuel_fold_or l x). lia.
  Qed.

  (* substitute_variables never increases the measure *)
  Lemma ufuel_subst rho : forall f : form, ufuel (Subst O rho f) <= ufuel f.
  Proof.
    unfold Subst.
    induction f as [a|n xs|n xs|f IH|fs IH|fs IH|v i m b IH|v i m b IH|v b IH|v b IH] using formula_ind';
      simpl; try lia.
    - change (ufuel (reduce1 A (And O) (TrueF O) (map (Subst O rho) fs)) <=
              Nat.max 1 (length fs - 1) + list_sum (map ufuel fs)).
      pose proof (ufuel_reduce_and (map (Subst O rho) fs)) as H. rewrite map_length, map_map in H.
      assert (list_sum (map (fun x => ufuel (Subst O rho x)) fs) <= list_sum (map ufuel fs)).
      { apply list_sum_le. intros x Hx. apply (Forall_In _ _ IH x Hx). } lia.
    - change (ufuel (reduce1 A (Or O) (FalseF O) (map (Subst O rho) fs)) <=
              Nat.max 1 (length fs - 1) + list_sum (map ufuel fs)).
      pose proof (ufuel_reduce_or (map (Subst O rho) fs)) as H. rewrite map_length, map_map in H.
      assert (list_sum (map (fun x => ufuel (Subst O rho x)) fs) <= list_sum (map ufuel fs)).
      { apply list_sum_le. intros x Hx. apply (Forall_In _ _ IH x Hx). } lia.
  Qed.

  Lemma unique_not k (g : form) used :
    Unique O (S k) (FNot g) used =
    match Unique O k g used with Some (g', u) => Some (FNot g', u) | None => None end.
  Proof. reflexivity. Qed.

  Lemma ulist_total k : (forall (f : form) used, ufuel f <= k -> exists g u, Unique O k f used = Some (g, u)) ->
    forall (fs : list form) used, (forall a, In a fs -> ufuel a <= k) ->
    exists gs u, ulist O k fs used = Some (gs, u).
  Proof.
    intros IH. induction fs as [|a fs IHfs]; intros used Hall; cbn [ulist].
    - now exists [], used.
    - destruct (IH a used (Hall a (or_introl eq_refl))) as [a' [u' Ha]]. rewrite Ha.
      destruct (IHfs u') as [r [u'' Hr]]; [intros x Hx; apply Hall; now right|]. rewrite Hr.
      now exists (a' :: r), u''.
  Qed.

  (* ensure_unique_bound_variables terminates: fuel `ufuel f` suffices, for every used_names *)
  Theorem unique_total : forall fuel (f : form) used, ufuel f <= fuel ->
    exists g u, Unique O fuel f used = Some (g, u).
  Proof.
    induction fuel as [|k IH]; intros f used Hf; [pose proof (ufuel_pos f); lia|].
    destruct f as [a|n xs|n xs|f|fs|fs|v i m b|v i m b|v b|v b];
      try (unfold Unique; simpl; eexists; eexists; reflexivity).
    - rewrite unique_not.
      destruct (IH f used) as [g [u Hg]]; [simpl in Hf; lia|]. rewrite Hg. eexists; eexists; reflexivity.
    - rewrite unique_and. destruct (ulist_total k IH fs used) as [gs [u Hl]].
      + intros a Ha. pose proof (list_sum_In ufuel fs a Ha). simpl in Hf. lia.
      + rewrite Hl. eexists; eexists; reflexivity.
    - rewrite unique_or. destruct (ulist_total k IH fs used) as [gs [u Hl]].
      + intros a Ha. pose proof (list_sum_In ufuel fs a Ha). simpl in Hf. lia.
      + rewrite Hl. eexists; eexists; reflexivity.
    - rewrite unique_forall. unfold quant_result. cbv zeta.
      destruct (fresh_vars (q_bound v m) _) as [rho used2].
      match goal with |- context [Unique O k ?b ?u] => destruct (IH b u) as [g [u' Hg]] end.
      + pose proof (ufuel_subst rho b). simpl in Hf. lia.
      + rewrite Hg. eexists; eexists; reflexivity.
    - rewrite unique_exists. unfold quant_result. cbv zeta.
      destruct (fresh_vars (q_bound v m) _) as [rho used2].
      match goal with |- context [Unique O k ?b ?u] => destruct (IH b u) as [g [u' Hg]] end.
      + pose proof (ufuel_subst rho b). simpl in Hf. lia.
      + rewrite Hg. eexists; eexists; reflexivity.
  Qed.

  Corollary unique_total_fsize : forall fuel (f : form) used, 2 * fsize f <= fuel ->
    exists g u, Unique O fuel f used = Some (g, u).
  Proof. intros fuel f used H. apply unique_total. pose proof (ufuel_le_fsize f). lia. Qed.

  (* more fuel never changes the result *)
  Lemma ulist_fuel_mono k k' : (forall (f : form) used r, Unique O k f used = Some r -> Unique O k' f used = Some r) ->
    forall (fs : list form) used r, ulist O k fs used = Some r -> ulist O k' fs used = Some r.
  Proof.
    intros IH. induction fs as [|a fs IHfs]; intros used r H; cbn [ulist] in *; [assumption|].
    destruct (Unique O k a used) as [[a' u']|] eqn:Ha; [|discriminate]. rewrite (IH _ _ _ Ha).
    destruct (ulist O k fs u') as [[r' u'']|] eqn:Hr; [|discriminate]. now rewrite (IHfs _ _ Hr).
  Qed.

  Theorem unique_fuel_mono : forall k k' (f : form) used r, k <= k' ->
    Unique O k f used = Some r -> Unique O k' f used = Some r.
  Proof.
    induction k as [|k IH]; intros k' f used r Hk H; [discriminate|].
    destruct k' as [|k']; [lia|]. assert (Hk' : k <= k') by lia.
    assert (IH' : forall (f : form) used r, Unique O k f used = Some r -> Unique O k' f used = Some r).
    { intros f0 u0 r0. now apply IH. }
    destruct f as [a|n xs|n xs|f|fs|fs|v i m b|v i m b|v b|v b]; try exact H.
    - rewrite unique_not in *.
      destruct (Unique O k f used) as [[g u]|] eqn:Hg; [|discriminate]. now rewrite (IH' _ _ _ Hg).
    - rewrite unique_and in *. destruct (ulist O k fs used) as [[gs u]|] eqn:Hl; [|discriminate].
      now rewrite (ulist_fuel_mono k k' IH' _ _ _ Hl).
    - rewrite unique_or in *. destruct (ulist O k fs used) as [[gs u]|] eqn:Hl; [|discriminate].
      now rewrite (ulist_fuel_mono k k' IH' _ _ _ Hl).
    - rewrite unique_forall in *. unfold quant_result in *. cbv zeta in *.
      destruct (fresh_vars (q_bound v m) _) as [rho used2].
      destruct (Unique O k (Subst O rho b) _) as [[b'' u'']|] eqn:Hb; [|discriminate].
      now rewrite (IH' _ _ _ Hb).
    - rewrite unique_exists in *. unfold quant_result in *. cbv zeta in *.
      destruct (fresh_vars (q_bound v m) _) as [rho used2].
      destruct (Unique O k (Subst O rho b) _) as [[b'' u'']|] eqn:Hb; [|discriminate].
      now rewrite (IH' _ _ _ Hb).
  Qed.
End Total.

(* the harness entry point `c_unique` (fuel 4 * fsize f + 8) never runs out of fuel *)
Theorem c_unique_total : forall f : cform, exists g, c_unique f = Some g.
Proof.
  intros f. unfold c_unique.
  destruct (unique_total_fsize catom cops (4 * fsize f + 8) f []) as [g [u H]]; [lia|].
  change (Unique cops (4 * fsize f + 8) f []) with
    (ensure_unique catom caeq CTrue CFalse c_is_true c_is_false casubst (4 * fsize f + 8) f []) in H.
  rewrite H. now exists g.
Qed.

(* ---------- first_free: the fuelled search is the unbounded `while` loop ---------- *)
Lemma first_free_below fuel p used : forall i j,
  (i <= j)%N -> (j < first_free fuel p used i)%N -> mem_str (idx_name p j) used = true.
Proof.
  induction fuel as [|k IH]; intros i j Hij Hj; simpl in Hj; [lia|].
  destruct (mem_str (idx_name p i) used) eqn:E; [|lia].
  destruct (N.eq_dec i j) as [->|Hne]; [assumption|]. apply (IH (N.succ i)); [lia|assumption].
Qed.

Lemma first_free_more k p used : forall i k',
  mem_str (idx_name p (first_free k p used i)) used = false -> k <= k' ->
  first_free k' p used i = first_free k p used i.
Proof.
  induction k as [|k IH]; intros i k' Hfree Hk; simpl in *.
  - destruct k' as [|k']; [reflexivity|]. simpl. now rewrite Hfree.
  - destruct k' as [|k']; [lia|]. simpl. destruct (mem_str (idx_name p i) used) eqn:E; [|reflexivity].
    apply IH; [assumption|lia].
Qed.

(* for every fuel >= |used_names| + 1 the result is the least index whose name is not in used_names *)
Theorem first_free_least p used fuel : S (length used) <= fuel ->
  let r := first_free fuel p used 0%N in
  mem_str (idx_name p r) used = false /\
  (forall j, (j < r)%N -> mem_str (idx_name p j) used = true) /\
  r = first_free (S (length used)) p used 0%N.
Proof.
  intros Hf r. pose proof (first_free_fresh p used) as Hfresh.
  assert (Hr : r = first_free (S (length used)) p used 0%N) by (unfold r; now apply first_free_more).
  split; [now rewrite Hr|]. split; [|assumption].
  intros j Hj. apply (first_free_below fuel p used 0%N j); [lia|assumption].
Qed.
