(* C08 wave 3 — the closure theorems of SugarMore.v / SugarClose.v under a WEAKER premise about quantifier domains:
   the assignments of `dom d v m` bind the quantifier's own variables (qbound v m) and possibly additional "ghost"
   variables [ghost v m].  Needed for XPath expressions: before close_over_xpath_expressions attaches the match
   expressions, the XPath result variable occurs free in the formula although (in the final formula) the quantifier
   of the first variable binds it.  The proofs are those of SugarMore.push_in_sound / SugarClose.close_loop_sound with
   the premise exchanged; the closure variable, `start` and the container must not be ghosts. *)
From Coq Require Import List NArith Bool Arith Lia.
Import ListNotations.
From ISLA Require Import Str Outcome Tree Grammar Formula Sugar SugarFacts SugarMore SugarClose.

Section Ghost.
  Variable D : Type.
  Variable aev : N -> list D -> bool.
  Variable pev : str -> list (D + str) -> bool.
  Variable dom : D -> var -> option mexpr -> list (list (var * D)).
  Variable idom : list D.
  Variable tval : tree -> D.
  Variable ghost : var -> option mexpr -> var -> bool.
  Hypothesis dom_keysG : forall d v m asg, In asg (dom d v m) ->
    forall x, existsb (fun p => var_eqb (fst p) x) asg = vmem x (qbound v m) || ghost v m x.

  Notation ev := (ev D aev pev dom idom tval).
  Notation upds := (upds D).
  Notation ival := (ival D tval).
  Notation env := (var -> D).
  Notation upds_key := (upds_key D).
  Notation upds_same := (upds_same D).
  Notation upds_comm := (upds_comm D).
  Notation ev_ext := (ev_ext D aev pev dom idom tval).
  Notation ev_mk_comb_and := (ev_mk_comb_and D aev pev dom idom tval).
  Notation ev_mk_comb_or := (ev_mk_comb_or D aev pev dom idom tval).

  Lemma ev_coincidenceG : forall f, inq_ok f = true -> forall rho rho' : env,
    (forall x, In x (fv f) -> rho x = rho' x) -> ev rho f = ev rho' f.
  Proof.
    intros f. induction f as [a|n args|n args|g IH|fs IH|fs IH|v i m b IH|v i m b IH|v b IH|v b IH]
      using formula_ind'; intros Hok rho rho' H; simpl in *.
    - unfold atom_ev. destruct (at_id a =? 0)%N; [reflexivity|]. do 2 f_equal.
      apply map_ext_in. intros x Hx. apply H. apply vunion_In. right; exact Hx.
    - f_equal. apply map_ext_in. intros [x|s|t] Hx; simpl; [|reflexivity|reflexivity].
      f_equal. apply H. apply parg_vars_In. exact Hx.
    - f_equal. apply map_ext_in. intros [x|s|t] Hx; simpl; [|reflexivity|reflexivity].
      f_equal. apply H. apply parg_vars_In. exact Hx.
    - f_equal. apply IH; assumption.
    - apply forallb_in_ext2. intros g Hg. rewrite Forall_forall in IH. rewrite forallb_forall in Hok.
      apply IH; [exact Hg|apply Hok; exact Hg|]. intros x Hx. apply H. apply fvs_In. exists g; auto.
    - apply existsb_in_ext2. intros g Hg. rewrite Forall_forall in IH. rewrite forallb_forall in Hok.
      apply IH; [exact Hg|apply Hok; exact Hg|]. intros x Hx. apply H. apply fvs_In. exists g; auto.
    - apply andb_true_iff in Hok as [Hi Hb].
      assert (Hiv : ival rho i = ival rho' i).
      { destruct i as [w|t]; simpl; [|reflexivity]. apply H. apply vdiff_In. split.
        - apply vunion_In. left. left. reflexivity.
        - apply negb_true_iff in Hi. apply vmem_false in Hi. exact Hi. }
      rewrite <- Hiv. apply forallb_in_ext2. intros asg Hasg. apply IH; [exact Hb|].
      intros x Hx. destruct (existsb (fun p => var_eqb (fst p) x) asg) eqn:E.
      + apply upds_same; exact E.
      + rewrite !upds_key by exact E. apply H. apply vdiff_In. split.
        * apply vunion_In. right; exact Hx.
        * rewrite (dom_keysG _ _ _ _ Hasg) in E. apply orb_false_iff in E as [E _]. apply vmem_false in E. exact E.
    - apply andb_true_iff in Hok as [Hi Hb].
      assert (Hiv : ival rho i = ival rho' i).
      { destruct i as [w|t]; simpl; [|reflexivity]. apply H. apply vdiff_In. split.
        - apply vunion_In. left. left. reflexivity.
        - apply negb_true_iff in Hi. apply vmem_false in Hi. exact Hi. }
      rewrite <- Hiv. apply existsb_in_ext2. intros asg Hasg. apply IH; [exact Hb|].
      intros x Hx. destruct (existsb (fun p => var_eqb (fst p) x) asg) eqn:E.
      + apply upds_same; exact E.
      + rewrite !upds_key by exact E. apply H. apply vdiff_In. split.
        * apply vunion_In. right; exact Hx.
        * rewrite (dom_keysG _ _ _ _ Hasg) in E. apply orb_false_iff in E as [E _]. apply vmem_false in E. exact E.
    - apply forallb_in_ext2. intros d _. apply IH; [exact Hok|]. intros x Hx.
      destruct (existsb (fun p => var_eqb (fst p) x) [(v, d)]) eqn:E.
      + apply upds_same; exact E.
      + rewrite !upds_key by exact E. apply H. apply vdiff_In. split; [exact Hx|].
        simpl in E. rewrite orb_false_r in E. intros [Hv|[]]. subst x. rewrite var_eqb_refl in E. discriminate.
    - apply existsb_in_ext2. intros d _. apply IH; [exact Hok|]. intros x Hx.
      destruct (existsb (fun p => var_eqb (fst p) x) [(v, d)]) eqn:E.
      + apply upds_same; exact E.
      + rewrite !upds_key by exact E. apply H. apply vdiff_In. split; [exact Hx|].
        simpl in E. rewrite orb_false_r in E. intros [Hv|[]]. subst x. rewrite var_eqb_refl in E. discriminate.
  Qed.


  Lemma asg_v_keyG : forall d v asg x, In asg (dom d v None) -> (forall y, ghost v None y = false) -> x <> v ->
    existsb (fun p => var_eqb (fst p) x) asg = false.
  Proof.
    intros d v asg x Hin Hg Hx. rewrite (dom_keysG _ _ _ _ Hin), Hg, orb_false_r. apply vmem_false. simpl. intros [E|[]]. congruence.
  Qed.

  Lemma indep_synG : forall v qfd e, inq_ok e = true -> In v qfd -> (forall y, ghost v None y = false) ->
    isnil (vinter qfd (fv e)) = true ->
    forall (rho : env) d asg, In asg (dom d v None) -> ev (upds rho asg) e = ev rho e.
  Proof.
    intros v qfd e Hok Hq Hg Hi rho d asg Hin. apply ev_coincidenceG; [exact Hok|]. intros x Hx.
    apply upds_key. apply (asg_v_keyG d v); [exact Hin|exact Hg|]. intros ->.
    exact (proj1 (isnil_vinter _ _) Hi v Hq Hx).
  Qed.

  Theorem push_in_soundG : forall v inv qfd, In v qfd ->
    (forall x, ghost v None x = false) -> (forall w m, ghost w m v = false) -> (forall w m, ghost w m inv = false) ->
    forall n f f' (rho : env), push_in n v inv qfd f = Ok f' -> clean v inv f ->
      dom (rho inv) v None <> [] ->
      ev rho f' = ev rho (FForall v (InVar inv) None f).
  Proof.
    intros v inv qfd Hq Hgn Hgv Hgi. induction n as [|n IH]; intros f f' rho H Hc Hne; [discriminate|].
    rewrite push_in_S in H.
    destruct (isnil (vinter qfd (fv f))) eqn:Ei.
    { inversion H; subst f'. simpl. destruct Hc as [_ [_ Hok]].
      rewrite (forallb_in_ext2 _ (fun _ => ev rho f)).
      - symmetry; apply forallb_const; exact Hne.
      - intros asg Ha. apply (indep_synG v qfd f Hok Hq Hgn Ei rho (rho inv)); exact Ha. }
    destruct f as [a|p args|p args|g|fs|fs|w i m b|w i m b|w b|w b]; try (inversion H; subst; reflexivity).
    - (* conjunction *)
      unfold pcomb in H.
      set (elems := split_and (FAnd fs)) in *.
      assert (Hel : forall e, In e elems -> clean v inv e).
      { apply (split_and_prop (clean v inv) (clean_and v inv)). exact Hc. }
      assert (HP : pP qfd inv elems = []).
      { apply pP_none. intros e He. destruct (Hel e He) as [_ [Hi _]]. exact Hi. }
      assert (HR : forall O', forallb (ev rho) O' =
                     forallb (fun asg => forallb (ev (upds rho asg)) (pO qfd inv elems))
                             (dom (rho inv) v None) ->
              ev rho (FAnd (pI qfd elems ++ [] ++ O')) = ev rho (FForall v (InVar inv) None (FAnd fs))).
      { intros O' HO.
        assert (E1 : ev rho (FForall v (InVar inv) None (FAnd fs)) =
                     forallb (fun asg => forallb (ev (upds rho asg)) (pI qfd elems) &&
                                         forallb (ev (upds rho asg)) (pO qfd inv elems)) (dom (rho inv) v None)).
        { simpl. apply forallb_in_ext2. intros asg _.
          change (forallb (ev (upds rho asg)) fs) with (ev (upds rho asg) (FAnd fs)).
          rewrite (ev_split_and _ _ _ _ _ _ (upds rho asg) (FAnd fs)). fold elems.
          rewrite (part3_and (ev (upds rho asg)) qfd inv elems), HP. reflexivity. }
        rewrite E1, forallb_and_split. simpl. rewrite forallb_app, HO. f_equal.
        symmetry.
        rewrite (forallb_in_ext2 (fun asg => forallb (ev (upds rho asg)) (pI qfd elems))
                                 (fun _ => forallb (ev rho) (pI qfd elems)) (dom (rho inv) v None)).
        - apply forallb_const; exact Hne.
        - intros asg Ha. apply forallb_in_ext2. intros e He. apply pI_In in He as [He Hia].
          destruct (Hel e He) as [_ [_ Hok]]. apply (indep_synG v qfd e Hok Hq Hgn Hia rho (rho inv)); exact Ha. }
      rewrite HP in H. simpl mapM in H. simpl bind in H.
      destruct (isnil (pI qfd elems) && isnil (@nil cform)) eqn:E1; [inversion H; subst; reflexivity|].
      destruct (pO qfd inv elems) as [|o1 Or] eqn:EO.
      + simpl in H. destruct (Nat.ltb 1 (length (pI qfd elems ++ []))); [|discriminate].
        inversion H; subst f'. apply (HR []). simpl. symmetry. apply forallb_true_const.
      + destruct (push_in n v inv qfd (mk_comb true (o1 :: Or))) as [o|ex] eqn:Eo; simpl in H; [|discriminate].
        destruct (Nat.ltb 1 (length (pI qfd elems ++ [o]))); [|discriminate].
        inversion H; subst f'. apply (HR [o]). simpl. rewrite andb_true_r.
        rewrite (IH _ _ rho Eo); [|apply clean_mk; intros e He; apply Hel; rewrite <- EO in He; apply pO_In in He; exact He|exact Hne].
        exact (forallb_in_ext2 (fun asg => ev (upds rho asg) (mk_comb true (o1 :: Or))) _ _
                 (fun asg _ => ev_mk_comb_and (upds rho asg) (o1 :: Or))).
    - (* disjunction *)
      unfold pcomb in H.
      set (elems := split_or (FOr fs)) in *.
      assert (Hel : forall e, In e elems -> clean v inv e).
      { apply (split_or_prop (clean v inv) (clean_or v inv)). exact Hc. }
      assert (HP : pP qfd inv elems = []).
      { apply pP_none. intros e He. destruct (Hel e He) as [_ [Hi _]]. exact Hi. }
      assert (HR : forall O', existsb (ev rho) O' =
                     forallb (fun asg => existsb (ev (upds rho asg)) (pO qfd inv elems))
                             (dom (rho inv) v None) ->
              ev rho (FOr (pI qfd elems ++ [] ++ O')) = ev rho (FForall v (InVar inv) None (FOr fs))).
      { intros O' HO.
        assert (E1 : ev rho (FForall v (InVar inv) None (FOr fs)) =
                     forallb (fun asg => existsb (ev rho) (pI qfd elems) ||
                                         existsb (ev (upds rho asg)) (pO qfd inv elems)) (dom (rho inv) v None)).
        { simpl. apply forallb_in_ext2. intros asg Ha.
          change (existsb (ev (upds rho asg)) fs) with (ev (upds rho asg) (FOr fs)).
          rewrite (ev_split_or _ _ _ _ _ _ (upds rho asg) (FOr fs)). fold elems.
          rewrite (part3_or (ev (upds rho asg)) qfd inv elems), HP. simpl. f_equal.
          apply existsb_in_ext2. intros e He. apply pI_In in He as [He Hia].
          destruct (Hel e He) as [_ [_ Hok]]. apply (indep_synG v qfd e Hok Hq Hgn Hia rho (rho inv)); exact Ha. }
        rewrite E1, forallb_or_const. simpl. rewrite existsb_app, HO. reflexivity. }
      rewrite HP in H. simpl mapM in H. simpl bind in H.
      destruct (isnil (pI qfd elems) && isnil (@nil cform)) eqn:E1; [inversion H; subst; reflexivity|].
      destruct (pO qfd inv elems) as [|o1 Or] eqn:EO.
      + simpl in H. destruct (Nat.ltb 1 (length (pI qfd elems ++ []))); [|discriminate].
        inversion H; subst f'. apply (HR []). simpl. symmetry. apply forallb_const. exact Hne.
      + destruct (push_in n v inv qfd (mk_comb false (o1 :: Or))) as [o|ex] eqn:Eo; simpl in H; [|discriminate].
        destruct (Nat.ltb 1 (length (pI qfd elems ++ [o]))); [|discriminate].
        inversion H; subst f'. apply (HR [o]). simpl. rewrite orb_false_r.
        rewrite (IH _ _ rho Eo); [|apply clean_mk; intros e He; apply Hel; rewrite <- EO in He; apply pO_In in He; exact He|exact Hne].
        exact (forallb_in_ext2 (fun asg => ev (upds rho asg) (mk_comb false (o1 :: Or))) _ _
                 (fun asg _ => ev_mk_comb_or (upds rho asg) (o1 :: Or))).
    - (* universal quantifier: swap *)
      destruct (invar_eqb (InVar v) i) eqn:Ei2; simpl in H; [inversion H; subst; reflexivity|].
      destruct (push_in n v inv qfd b) as [b'|ex] eqn:Eb; simpl in H; [|discriminate].
      inversion H; subst f'. destruct (clean_forall _ _ _ _ _ _ Hc) as [Hcb [Hvq Hiq]].
      simpl.
      transitivity (forallb (fun aw => forallb (fun av => ev (upds (upds rho av) aw) b) (dom (rho inv) v None))
                            (dom (ival rho i) w m)).
      + apply forallb_in_ext2. intros aw Haw.
        assert (Hinv : upds rho aw inv = rho inv).
        { apply upds_key. rewrite (dom_keysG _ _ _ _ Haw), Hgi, orb_false_r. apply vmem_false. exact Hiq. }
        rewrite (IH _ _ (upds rho aw) Eb Hcb); [|rewrite Hinv; exact Hne].
        simpl. rewrite Hinv. apply forallb_in_ext2. intros av Hav. apply ev_ext. intros x.
        apply upds_comm. intros y Hy. rewrite (dom_keysG _ _ _ _ Haw) in Hy.
        apply (asg_v_keyG (rho inv) v); [exact Hav|exact Hgn|]. intros ->.
        apply orb_true_iff in Hy as [Hy|Hy]; [apply vmem_In in Hy; exact (Hvq Hy)|rewrite Hgv in Hy; discriminate].
      + rewrite forallb_swap. apply forallb_in_ext2. intros av Hav.
        assert (Hiv : ival (upds rho av) i = ival rho i).
        { destruct i as [u|t]; simpl; [|reflexivity]. apply upds_key. apply (asg_v_keyG (rho inv) v); [exact Hav|exact Hgn|].
          intros ->. simpl in Ei2. rewrite var_eqb_refl in Ei2. discriminate. }
        rewrite Hiv. reflexivity.
  Qed.


  Lemma nest_congrG : forall l f g (rho : var -> D),
    ~ In start_c l -> (forall w m, ghost w m start_c = false) ->
    (forall rho' : var -> D, rho' start_c = rho start_c -> ev rho' f = ev rho' g) ->
    ev rho (nest l f) = ev rho (nest l g).
  Proof.
    induction l as [|v l IH]; intros f g rho Hs Hgs H; simpl; [apply H; reflexivity|].
    apply IH; [intros Hin; apply Hs; right; exact Hin|exact Hgs|]. intros rho' Hr. simpl.
    apply forallb_in_ext2. intros asg Ha. apply H. rewrite <- Hr.
    apply upds_key. rewrite (dom_keysG _ _ _ _ Ha), Hgs, orb_false_r. apply vmem_false. intros Hx.
    apply qbound_In in Hx as [Hx|[]]. apply Hs. left. symmetry; exact Hx.
  Qed.

  Theorem close_loop_soundG : forall (l : list var) f f' (rho : var -> D),
    fold_left (fun acc v => bind acc (fun g => push_in (S (fsize g)) v start_c [v] g)) l (Ok f) = Ok f' ->
    NoDup l -> ~ In start_c l ->
    (forall v, In v l -> (forall x, ghost v None x = false) /\ (forall w m, ghost w m v = false)) ->
    (forall w m, ghost w m start_c = false) ->
    (forall v, In v l -> ~ In v (bvars f)) -> ~ In start_c (bvars f) -> inq_ok f = true ->
    (forall v, In v l -> dom (rho start_c) v None <> []) ->
    ev rho f' = ev rho (nest l f).
  Proof.
    induction l as [|v l IH]; intros f f' rho H Hnd Hs Hg Hgs Hbv Hsb Hok Hne.
    - inversion H; subst; reflexivity.
    - apply (fold_bind_inv (fun v g => push_in (S (fsize g)) v start_c [v] g)) in H as [f1 [E1 H]].
      assert (Hc : clean v start_c f).
      { repeat split; [apply Hbv; left; reflexivity|exact Hsb|exact Hok]. }
      assert (Hvs : v <> start_c) by (intros ->; apply Hs; left; reflexivity).
      destruct (push_in_inv v start_c [v] Hvs _ _ _ E1 Hc) as [Hb1 Hok1].
      inversion Hnd as [|? ? Hnv Hnd']; subst.
      simpl. rewrite (IH f1 f' rho H Hnd').
      3:{ intros w Hw. apply Hg. right; exact Hw. }
      3:{ exact Hgs. }
      + apply nest_congrG; [intros Hin; apply Hs; right; exact Hin|exact Hgs|]. intros rho' Hr.
        destruct (Hg v (or_introl eq_refl)) as [Hgn Hgv].
        apply (push_in_soundG v start_c [v] (or_introl eq_refl) Hgn Hgv Hgs _ _ _ rho' E1 Hc).
        rewrite Hr. apply Hne. left; reflexivity.
      + intros Hin; apply Hs; right; exact Hin.
      + intros w Hw Hx. apply Hb1 in Hx as [->|Hx]; [exact (Hnv Hw)|]. apply (Hbv w (or_intror Hw) Hx).
      + intros Hx. apply Hb1 in Hx as [Hx|Hx]; [apply Hs; left; symmetry; exact Hx|exact (Hsb Hx)].
      + exact Hok1.
      + intros w Hw. apply Hne. right; exact Hw.
  Qed.
End Ghost.
