(* C08 wave 3 — AddMexprTransformer (addm) semantically, and the END-TO-END theorem for formulas with ONE XPath
   expression rooted at a quantified variable (`x.<a>`, `x.<a>.<b>[2]`, also `<X>.<a>` inside `forall <X>:`; child
   steps only, any number of them; no `..`).

   Key fact [addm_sem]: attaching the match expressions ms to the quantifiers of `first` means evaluating the ORIGINAL
   formula over the domain function [domX] in which the domain of `first` is the concatenation of its match-expression
   domains.  The assignments of that domain bind the XPath result variable in addition ("ghost", SugarGhost.v), which
   is why the closure theorems are needed under the weaker premise.
   Documented translation [addm_doc]: the quantifier of the first variable is replaced by the plain conjunction
   (forall) / disjunction (exists) of its copies, one per match expression. *)
From Coq Require Import List NArith Bool Arith Lia.
Import ListNotations.
From ISLA Require Import Str Outcome Tree Grammar Formula Sugar SugarFacts SugarMore SugarTotal SugarClose SugarUniq SugarWalk
  SugarCompose SugarGhost.

Definition isnone {X} (o : option X) : bool := match o with None => true | Some _ => false end.

Fixpoint addm_doc (qv : var) (ms : list mexpr) (f : cform) : cform :=
  match f with
  | FForall v i m b =>
      if var_eqb v qv && isnone m then FAnd (map (fun me => FForall v i (Some me) (addm_doc qv ms b)) ms)
      else FForall v i m (addm_doc qv ms b)
  | FExists v i m b =>
      if var_eqb v qv && isnone m then FOr (map (fun me => FExists v i (Some me) (addm_doc qv ms b)) ms)
      else FExists v i m (addm_doc qv ms b)
  | FNot x => FNot (addm_doc qv ms x)
  | FAnd fs => FAnd (map (addm_doc qv ms) fs)
  | FOr fs => FOr (map (addm_doc qv ms) fs)
  | FForallInt v b => FForallInt v (addm_doc qv ms b)
  | FExistsInt v b => FExistsInt v (addm_doc qv ms b)
  | _ => f
  end.

Lemma forallb_flat_map : forall {X Y} (p : Y -> bool) (h : X -> list Y) l,
  forallb p (flat_map h l) = forallb (fun x => forallb p (h x)) l.
Proof. intros X Y p h l. induction l as [|x l IH]; simpl; [reflexivity|]. rewrite forallb_app, IH. reflexivity. Qed.
Lemma existsb_flat_map : forall {X Y} (p : Y -> bool) (h : X -> list Y) l,
  existsb p (flat_map h l) = existsb (fun x => existsb p (h x)) l.
Proof. intros X Y p h l. induction l as [|x l IH]; simpl; [reflexivity|]. rewrite existsb_app, IH. reflexivity. Qed.
Lemma forallb_map' : forall {X Y} (p : Y -> bool) (h : X -> Y) l, forallb p (map h l) = forallb (fun x => p (h x)) l.
Proof. intros X Y p h l. induction l as [|x l IH]; simpl; [reflexivity|]. rewrite IH. reflexivity. Qed.
Lemma existsb_map' : forall {X Y} (p : Y -> bool) (h : X -> Y) l, existsb p (map h l) = existsb (fun x => p (h x)) l.
Proof. intros X Y p h l. induction l as [|x l IH]; simpl; [reflexivity|]. rewrite IH. reflexivity. Qed.

Section Addm.
  Variable D : Type.
  Variable aev : N -> list D -> bool.
  Variable pev : str -> list (D + str) -> bool.
  Variable dom : D -> var -> option mexpr -> list (list (var * D)).
  Variable idom : list D.
  Variable tval : tree -> D.
  Hypothesis dom_ext : forall d v m k, mexpr_eqb m k = true -> dom d v m = dom d v k.
  Hypothesis dom_keys : forall d v m asg, In asg (dom d v m) ->
    forall x, existsb (fun p => var_eqb (fst p) x) asg = vmem x (qbound v m).

  Variable first : var.
  Variable ms : list mexpr.

  Definition domX (d : D) (v : var) (m : option mexpr) : list (list (var * D)) :=
    match m with
    | None => if var_eqb v first then flat_map (fun me => dom d v (Some me)) ms else dom d v None
    | Some _ => dom d v m
    end.

  Notation ev := (ev D aev pev dom idom tval).
  Notation evX := (SugarFacts.ev D aev pev domX idom tval).

  Lemma domX_ext : forall d v m k, mexpr_eqb m k = true -> domX d v m = domX d v k.
  Proof.
    intros d v [m|] [k|] H; simpl in H; try discriminate; [|reflexivity].
    unfold domX. apply dom_ext. exact H.
  Qed.

  Lemma domX_other : forall d v m, var_eqb v first = false -> domX d v m = dom d v m.
  Proof. intros d v [m|] H; unfold domX; [reflexivity|rewrite H; reflexivity]. Qed.

  (* the documented form means: original formula over domX *)
  Lemma addm_doc_sem : forall F rho, ev rho (addm_doc first ms F) = evX rho F.
  Proof.
    intros F. induction F as [a|n args|n args|g IH|fs IH|fs IH|v i m b IH|v i m b IH|v b IH|v b IH]
      using formula_ind'; intros rho; simpl; try reflexivity.
    - rewrite IH; reflexivity.
    - rewrite forallb_map'. apply forallb_in_ext. rewrite Forall_forall in IH. intros g Hg. apply IH; exact Hg.
    - rewrite existsb_map'. induction IH as [|g fs Hg Hfs IHfs]; simpl; [reflexivity|]. rewrite Hg, IHfs. reflexivity.
    - destruct (var_eqb v first) eqn:Ev; destruct m as [m|]; simpl.
      + apply forallb_ext_in'. intros asg. apply IH.
      + rewrite Ev. rewrite forallb_map', forallb_flat_map. apply forallb_ext_in'. intros me. simpl.
        apply forallb_ext_in'. intros asg. apply IH.
      + apply forallb_ext_in'. intros asg. apply IH.
      + rewrite Ev. apply forallb_ext_in'. intros asg. apply IH.
    - destruct (var_eqb v first) eqn:Ev; destruct m as [m|]; simpl.
      + apply existsb_ext_in'. intros asg. apply IH.
      + rewrite Ev. rewrite existsb_map', existsb_flat_map. apply existsb_ext_in'. intros me. simpl.
        apply existsb_ext_in'. intros asg. apply IH.
      + apply existsb_ext_in'. intros asg. apply IH.
      + rewrite Ev. apply existsb_ext_in'. intros asg. apply IH.
    - apply forallb_ext_in'. intros d. apply IH.
    - apply existsb_ext_in'. intros d. apply IH.
  Qed.

  (* AddMexprTransformer means the same *)
  Lemma addm_sem : ms <> [] -> forall F F', addm first ms F = Ok F' -> forall rho, ev rho F' = evX rho F.
  Proof.
    intros Hms F. induction F as [a|n args|n args|g IH|fs IH|fs IH|v i m b IH|v i m b IH|v b IH|v b IH]
      using formula_ind'; intros F' H rho; simpl in H; try (inversion H; subst; reflexivity).
    - destruct (addm first ms g) as [g'|e] eqn:Eg; [|discriminate]. inversion H; subst. simpl. rewrite (IH _ eq_refl). reflexivity.
    - destruct (mapM (addm first ms) fs) as [l|e] eqn:El; [|discriminate]. inversion H; subst. simpl.
      apply mapM_Forall2 in El. clear H. induction El as [|g g' fs l Hg El IHl]; simpl; [reflexivity|].
      inversion IH as [|? ? Pg Pfs]; subst. rewrite (Pg _ Hg), (IHl Pfs). reflexivity.
    - destruct (mapM (addm first ms) fs) as [l|e] eqn:El; [|discriminate]. inversion H; subst. simpl.
      apply mapM_Forall2 in El. clear H. induction El as [|g g' fs l Hg El IHl]; simpl; [reflexivity|].
      inversion IH as [|? ? Pg Pfs]; subst. rewrite (Pg _ Hg), (IHl Pfs). reflexivity.
    - destruct (addm first ms b) as [b'|e] eqn:Eb; [|discriminate]. cbn [bind] in H.
      destruct (var_eqb v first) eqn:Ev.
      + destruct m as [m|]; [discriminate|]. inversion H; subst F'.
        rewrite (reduce_and_sound D aev pev dom idom tval dom_ext). simpl. rewrite Ev.
        rewrite forallb_map', forallb_flat_map. apply forallb_ext_in'. intros me. simpl.
        apply forallb_ext_in'. intros asg. apply (IH _ eq_refl).
      + inversion H; subst F'. simpl. rewrite (domX_other _ _ _ Ev). apply forallb_ext_in'. intros asg. apply (IH _ eq_refl).
    - destruct (addm first ms b) as [b'|e] eqn:Eb; [|discriminate]. cbn [bind] in H.
      destruct (var_eqb v first) eqn:Ev.
      + destruct m as [m|]; [discriminate|]. inversion H; subst F'.
        destruct ms as [|me0 mr] eqn:Ems; [congruence|]. rewrite <- Ems in *.
        transitivity (existsb (ev rho) (map (fun me => FExists v i (Some me) b') ms)).
        { rewrite Ems. simpl. apply (fold_or_sound D aev pev dom idom tval dom_ext). }
        simpl. rewrite Ev. rewrite existsb_map', existsb_flat_map. apply existsb_ext_in'. intros me. simpl.
        apply existsb_ext_in'. intros asg. apply (IH _ eq_refl).
      + inversion H; subst F'. simpl. rewrite (domX_other _ _ _ Ev). apply existsb_ext_in'. intros asg. apply (IH _ eq_refl).
    - destruct (addm first ms b) as [b'|e] eqn:Eb; [|discriminate]. inversion H; subst. simpl.
      apply forallb_ext_in'. intros d. apply (IH _ eq_refl).
    - destruct (addm first ms b) as [b'|e] eqn:Eb; [|discriminate]. inversion H; subst. simpl.
      apply existsb_ext_in'. intros d. apply (IH _ eq_refl).
  Qed.

  (* domX satisfies the weaker key premise: the assignments of `first` also bind the XPath result variable *)
  Variable fvr : var.
  Hypothesis ms_bound : forall me, In me ms -> me_bound (Some me) = [fvr].

  Definition ghostX (v : var) (m : option mexpr) (x : var) : bool :=
    match m with None => var_eqb v first && var_eqb x fvr | Some _ => false end.

  Lemma domX_keys : forall d v m asg, In asg (domX d v m) ->
    forall x, existsb (fun p => var_eqb (fst p) x) asg = vmem x (qbound v m) || ghostX v m x.
  Proof.
    intros d v [m|] asg H x; simpl in H |- *.
    - rewrite orb_false_r. apply (dom_keys _ _ _ _ H).
    - destruct (var_eqb v first) eqn:Ev; simpl.
      + apply in_flat_map in H as [me [Hme H]]. rewrite (dom_keys _ _ _ _ H).
        apply eq_true_iff_eq. rewrite orb_true_iff, !vmem_In, !qbound_In, (ms_bound me Hme). simpl. rewrite orb_false_r. split.
        * intros [E|[E|[]]]; [left; subst x; apply var_eqb_refl|right; rewrite <- E; apply var_eqb_refl].
        * intros [E|E]; apply var_eqb_eq in E; [left; exact E|right; left; symmetry; exact E].
      + rewrite orb_false_r. apply (dom_keys _ _ _ _ H).
  Qed.
End Addm.

Theorem addm_both :
  forall (D : Type) aev pev (dom : D -> var -> option mexpr -> list (list (var * D))) idom tval,
  (forall d v m k, mexpr_eqb m k = true -> dom d v m = dom d v k) ->
  forall first ms, ms <> [] ->
  forall F F', addm first ms F = Ok F' ->
  forall rho, ev D aev pev dom idom tval rho F' = ev D aev pev (domX D dom first ms) idom tval rho F /\
              ev D aev pev dom idom tval rho (addm_doc first ms F) = ev D aev pev (domX D dom first ms) idom tval rho F.
Proof.
  intros D aev pev dom idom tval Hext first ms Hms F F' H rho.
  exact (conj (addm_sem D aev pev dom idom tval Hext first ms Hms F F' H rho)
              (addm_doc_sem D aev pev dom idom tval first ms F rho)).
Qed.
