(* C09 — SPECIFICATION and PROOFS for the rewrites modelled in Logic/Rewrite.v.

   Specification: `ev`, the truth value of a formula under an ARBITRARY interpretation
     (S : sem A E):  states E (assignments), atoms by `s_denote`, predicate formulas by an
     arbitrary boolean `s_pred`, tree quantifiers ranging over an arbitrary finite list of
     successor states `s_qdom e v in mexpr`, numeric quantifiers over `s_idom e v`.
   It is a compositional (Tarski) semantics written without reference to any rewrite; the
   theorems say that every rewrite of the model preserves / inverts `ev` for EVERY such
   interpretation, every state and every formula (any arity, any nesting).

   External behaviour enters through `atoms_sound` only (premise of every theorem):
   z3 structural equality implies equal denotation, z3.is_true/is_false recognise constants,
   z3_push_in_negations(a, b) denotes xorb b (denote a), and the quantifier domain does not
   depend on the names of dummy variables in a match expression. *)
From Coq Require Import List NArith Bool Arith Lia.
From ISLA Require Import Rewrite.
Import ListNotations.

(* ---------- packaging of the abstract atom operations and of an interpretation ---------- *)
Record ops (A : Type) := MkOps {
  o_aeq : A -> A -> bool;
  o_true : A;
  o_false : A;
  o_is_true : A -> bool;
  o_is_false : A -> bool;
  o_push : bool -> A -> A;
  o_subst : list (var * var) -> A -> A
}.
Arguments o_aeq {A}. Arguments o_true {A}. Arguments o_false {A}. Arguments o_is_true {A}.
Arguments o_is_false {A}. Arguments o_push {A}. Arguments o_subst {A}.

Record sem (A E : Type) := MkSem {
  s_denote : E -> A -> bool;
  s_pred : E -> bool -> str -> list parg -> bool;      (* bool: semantic predicate? *)
  s_qdom : E -> var -> invar -> option mexpr -> list E;
  s_idom : E -> var -> list E
}.
Arguments s_denote {A E}. Arguments s_pred {A E}. Arguments s_qdom {A E}. Arguments s_idom {A E}.

(* ---------- the specification: truth under an interpretation ---------- *)
Fixpoint ev {A E} (S : sem A E) (e : E) (f : formula A) : bool :=
  match f with
  | FSmt a => s_denote S e a
  | FSPred n xs => s_pred S e false n xs
  | FSemPred n xs => s_pred S e true n xs
  | FNot g => negb (ev S e g)
  | FAnd fs => forallb (fun x => ev S e x) fs
  | FOr fs => existsb (fun x => ev S e x) fs
  | FForall v i m b => forallb (fun e' => ev S e' b) (s_qdom S e v i m)
  | FExists v i m b => existsb (fun e' => ev S e' b) (s_qdom S e v i m)
  | FForallInt v b => forallb (fun e' => ev S e' b) (s_idom S e v)
  | FExistsInt v b => existsb (fun e' => ev S e' b) (s_idom S e v)
  end.

Definition atoms_sound {A E} (O : ops A) (S : sem A E) : Prop :=
  (forall a b, o_aeq O a b = true -> forall e, s_denote S e a = s_denote S e b) /\
  (forall e, s_denote S e (o_true O) = true) /\
  (forall e, s_denote S e (o_false O) = false) /\
  (forall a, o_is_true O a = true -> forall e, s_denote S e a = true) /\
  (forall a, o_is_false O a = true -> forall e, s_denote S e a = false) /\
  (forall e b a, s_denote S e (o_push O b a) = xorb b (s_denote S e a)) /\
  (forall e v i m m', omexpr_eqb m m' = true -> s_qdom S e v i m = s_qdom S e v i m').

(* the model functions instantiated with a package of operations *)
Definition Seq {A} (O : ops A) := seqb A (o_aeq O).
Definition Feq {A} (O : ops A) := feqb A (o_aeq O).
Definition And {A} (O : ops A) := f_and A (o_aeq O) (o_false O) (o_is_true O) (o_is_false O).
Definition Or {A} (O : ops A) := f_or A (o_aeq O) (o_true O) (o_is_true O) (o_is_false O).
Definition Neg {A} (O : ops A) :=
  f_neg A (o_aeq O) (o_true O) (o_false O) (o_is_true O) (o_is_false O) (o_push O).
Definition Nnf {A} (O : ops A) :=
  nnf A (o_aeq O) (o_true O) (o_false O) (o_is_true O) (o_is_false O) (o_push O).
Definition Dnf {A} (O : ops A) :=
  dnf A (o_aeq O) (o_true O) (o_false O) (o_is_true O) (o_is_false O).
Definition Invariant {A} (O : ops A) :=
  establish_invariant A (o_aeq O) (o_true O) (o_false O) (o_is_true O) (o_is_false O) (o_push O).
Definition Replace {A} (O : ops A) :=
  replace_formula A (o_aeq O) (o_true O) (o_false O) (o_is_true O) (o_is_false O).
Definition Unique {A} (O : ops A) :=
  ensure_unique A (o_aeq O) (o_true O) (o_false O) (o_is_true O) (o_is_false O) (o_subst O).
Definition Subst {A} (O : ops A) :=
  subst_vars A (o_aeq O) (o_true O) (o_false O) (o_is_true O) (o_is_false O) (o_subst O).
Definition TrueF {A} (O : ops A) : formula A := FSmt (o_true O).
Definition FalseF {A} (O : ops A) : formula A := FSmt (o_false O).

(* ---------- generic list facts ---------- *)
Lemma forallb_flat_map {X Y} (p : Y -> bool) (g : X -> list Y) l :
  forallb p (flat_map g l) = forallb (fun x => forallb p (g x)) l.
Proof. induction l as [|x l IH]; simpl; [reflexivity|]. now rewrite forallb_app, IH. Qed.

Lemma existsb_flat_map {X Y} (p : Y -> bool) (g : X -> list Y) l :
  existsb p (flat_map g l) = existsb (fun x => existsb p (g x)) l.
Proof. induction l as [|x l IH]; simpl; [reflexivity|]. now rewrite existsb_app, IH. Qed.

Lemma forallb_ext_in {X} (p q : X -> bool) l :
  (forall x, In x l -> p x = q x) -> forallb p l = forallb q l.
Proof.
  induction l as [|x l IH]; simpl; intros H; [reflexivity|].
  rewrite (H x (or_introl eq_refl)), IH; [reflexivity|]. intros y Hy. apply H. now right.
Qed.

Lemma existsb_ext_in {X} (p q : X -> bool) l :
  (forall x, In x l -> p x = q x) -> existsb p l = existsb q l.
Proof.
  induction l as [|x l IH]; simpl; intros H; [reflexivity|].
  rewrite (H x (or_introl eq_refl)), IH; [reflexivity|]. intros y Hy. apply H. now right.
Qed.

Lemma forallb_map {X Y} (p : Y -> bool) (g : X -> Y) l :
  forallb p (map g l) = forallb (fun x => p (g x)) l.
Proof. induction l as [|x l IH]; simpl; [reflexivity|]. now rewrite IH. Qed.

Lemma existsb_map {X Y} (p : Y -> bool) (g : X -> Y) l :
  existsb p (map g l) = existsb (fun x => p (g x)) l.
Proof. induction l as [|x l IH]; simpl; [reflexivity|]. now rewrite IH. Qed.

Lemma negb_forallb {X} (p : X -> bool) l : negb (forallb p l) = existsb (fun x => negb (p x)) l.
Proof. induction l as [|x l IH]; simpl; [reflexivity|]. now rewrite negb_andb, IH. Qed.

Lemma negb_existsb {X} (p : X -> bool) l : negb (existsb p l) = forallb (fun x => negb (p x)) l.
Proof. induction l as [|x l IH]; simpl; [reflexivity|]. now rewrite negb_orb, IH. Qed.

Lemma existsb_andb_r {X} (p : X -> bool) c l :
  existsb (fun x => p x && c) l = existsb p l && c.
Proof.
  induction l as [|x l IH]; simpl; [reflexivity|]. rewrite IH.
  destruct (p x), c, (existsb p l); reflexivity.
Qed.

Lemma existsb_andb_l {X} (q : X -> bool) c l :
  existsb (fun x => c && q x) l = c && existsb q l.
Proof.
  induction l as [|x l IH]; simpl; [now rewrite andb_false_r|]. rewrite IH.
  destruct (q x), c, (existsb q l); reflexivity.
Qed.

Lemma Forall_In {X} (P : X -> Prop) l : Forall P l -> forall x, In x l -> P x.
Proof. intros H. now apply Forall_forall. Qed.

(* ---------- Leibniz equality from the boolean equalities ---------- *)
Lemma var_eqb_eq v w : var_eqb v w = true -> v = w.
Proof.
  destruct v as [k n t], w as [k' n' t']. unfold var_eqb. simpl. intros H.
  apply andb_true_iff in H. destruct H as [H Ht]. apply andb_true_iff in H. destruct H as [Hk Hn].
  apply str_eqb_eq in Hn. apply str_eqb_eq in Ht. subst.
  destruct k, k'; simpl in Hk; try discriminate; reflexivity.
Qed.

Lemma tree_eqb_eq s : forall t, tree_eqb s t = true -> s = t.
Proof.
  induction s as [l i o ks IH] using tree_ind'. intros [l' i' o' ks']. simpl. intros H.
  apply andb_true_iff in H. destruct H as [H Hk].
  apply andb_true_iff in H. destruct H as [H Ho].
  apply andb_true_iff in H. destruct H as [Hl Hi].
  apply str_eqb_eq in Hl. apply N.eqb_eq in Hi. apply Bool.eqb_prop in Ho. subst.
  f_equal. revert ks' Hk. induction IH as [|x ks Hx _ IHks]; intros [|y ks'] Hk; try discriminate.
  - reflexivity.
  - apply andb_true_iff in Hk. destruct Hk as [Hxy Hr]. f_equal; [now apply Hx | now apply IHks].
Qed.

Lemma parg_eqb_eq a b : parg_eqb a b = true -> a = b.
Proof.
  destruct a, b; simpl; intros H; try discriminate.
  - f_equal. now apply var_eqb_eq.
  - f_equal. now apply str_eqb_eq.
  - f_equal. now apply tree_eqb_eq.
Qed.

Lemma list_eqb_eq {X} (e : X -> X -> bool) :
  (forall a b, e a b = true -> a = b) -> forall l m, list_eqb e l m = true -> l = m.
Proof.
  intros He. induction l as [|x l IH]; intros [|y m] H; simpl in H; try discriminate; [reflexivity|].
  apply andb_true_iff in H. destruct H as [Hxy Hr]. f_equal; [now apply He | now apply IH].
Qed.

Lemma invar_eqb_eq a b : invar_eqb a b = true -> a = b.
Proof.
  destruct a, b; simpl; intros H; try discriminate; f_equal.
  - now apply var_eqb_eq.
  - now apply tree_eqb_eq.
Qed.

Section Facts.
  Variables A E : Type.
  Variable O : ops A.
  Variable S : sem A E.
  Hypothesis HS : atoms_sound O S.

  Notation form := (formula A).
  Notation EV := (ev S).

  Let H_aeq := proj1 HS.
  Let H_true := proj1 (proj2 HS).
  Let H_false := proj1 (proj2 (proj2 HS)).
  Let H_is_true := proj1 (proj2 (proj2 (proj2 HS))).
  Let H_is_false := proj1 (proj2 (proj2 (proj2 (proj2 HS)))).
  Let H_push := proj1 (proj2 (proj2 (proj2 (proj2 (proj2 HS))))).
  Let H_qdom := proj2 (proj2 (proj2 (proj2 (proj2 (proj2 HS))))).

  Lemma ev_true e : EV e (TrueF O) = true.
  Proof. apply H_true. Qed.
  Lemma ev_false e : EV e (FalseF O) = false.
  Proof. apply H_false. Qed.

  (* ---------- equality ---------- *)
  Lemma seqb_sound (f : form) : forall g, Seq O f g = true -> forall e, EV e f = EV e g.
  Proof.
    unfold Seq.
    induction f as [a|n xs|n xs|f IH|fs IH|fs IH|v i m b IH|v i m b IH|v b IH|v b IH] using formula_ind';
      intros g H e; destruct g as [a'|n' xs'|n' xs'|g|gs|gs|w j m' c|w j m' c|w c|w c];
      simpl in H; try discriminate.
    - simpl. now apply H_aeq.
    - apply andb_true_iff in H. destruct H as [Hn Hx]. apply str_eqb_eq in Hn.
      apply (list_eqb_eq _ parg_eqb_eq) in Hx. now subst.
    - apply andb_true_iff in H. destruct H as [Hn Hx]. apply str_eqb_eq in Hn.
      apply (list_eqb_eq _ parg_eqb_eq) in Hx. now subst.
    - simpl. f_equal. now apply IH.
    - simpl. revert gs H. induction IH as [|x fs Hx _ IHfs]; intros [|y gs] H; try discriminate.
      + reflexivity.
      + apply andb_true_iff in H. destruct H as [Hxy Hr]. simpl.
        rewrite (Hx y Hxy e). f_equal. now apply IHfs.
    - simpl. revert gs H. induction IH as [|x fs Hx _ IHfs]; intros [|y gs] H; try discriminate.
      + reflexivity.
      + apply andb_true_iff in H. destruct H as [Hxy Hr]. simpl.
        rewrite (Hx y Hxy e). f_equal. now apply IHfs.
    - apply andb_true_iff in H. destruct H as [H Hm]. apply andb_true_iff in H. destruct H as [H Hb].
      apply andb_true_iff in H. destruct H as [Hv Hi]. apply var_eqb_eq in Hv. apply invar_eqb_eq in Hi.
      subst. simpl. rewrite (H_qdom e w j m m' Hm). apply forallb_ext_in. intros e' _. now apply IH.
    - apply andb_true_iff in H. destruct H as [H Hm]. apply andb_true_iff in H. destruct H as [H Hb].
      apply andb_true_iff in H. destruct H as [Hv Hi]. apply var_eqb_eq in Hv. apply invar_eqb_eq in Hi.
      subst. simpl. rewrite (H_qdom e w j m m' Hm). apply existsb_ext_in. intros e' _. now apply IH.
    - apply andb_true_iff in H. destruct H as [Hv Hb]. apply var_eqb_eq in Hv. subst. simpl.
      apply forallb_ext_in. intros e' _. now apply IH.
    - apply andb_true_iff in H. destruct H as [Hv Hb]. apply var_eqb_eq in Hv. subst. simpl.
      apply existsb_ext_in. intros e' _. now apply IH.
  Qed.

  Lemma ev_flat (f : form) : forall e, EV e (flat A f) = EV e f.
  Proof.
    induction f as [a|n xs|n xs|f IH|fs IH|fs IH|v i m b IH|v i m b IH|v b IH|v b IH] using formula_ind';
      intros e; simpl; try reflexivity.
    - now rewrite IH.
    - rewrite forallb_flat_map. apply forallb_ext_in. intros x Hx.
      rewrite <- (Forall_In _ _ IH x Hx e). destruct (flat A x); simpl; try now rewrite andb_true_r.
      reflexivity.
    - rewrite existsb_flat_map. apply existsb_ext_in. intros x Hx.
      rewrite <- (Forall_In _ _ IH x Hx e). destruct (flat A x); simpl; try now rewrite orb_false_r.
      reflexivity.
    - apply forallb_ext_in. intros e' _. apply IH.
    - apply existsb_ext_in. intros e' _. apply IH.
    - apply forallb_ext_in. intros e' _. apply IH.
    - apply existsb_ext_in. intros e' _. apply IH.
  Qed.

  (* Python `f == g` implies the same truth value under every interpretation *)
  Theorem feqb_sound f g : Feq O f g = true -> forall e, EV e f = EV e g.
  Proof.
    unfold Feq, feqb. intros H e. rewrite <- (ev_flat f e), <- (ev_flat g e).
    now apply seqb_sound.
  Qed.

  (* ---------- split_conjunction / split_disjunction ---------- *)
  Theorem split_conj_sound (f : form) : forall e, forallb (fun x => EV e x) (split_conj A f) = EV e f.
  Proof.
    induction f as [a|n xs|n xs|f IH|fs IH|fs IH|v i m b IH|v i m b IH|v b IH|v b IH] using formula_ind';
      intros e; simpl; try now rewrite andb_true_r.
    rewrite forallb_flat_map. apply forallb_ext_in. intros x Hx. apply (Forall_In _ _ IH x Hx).
  Qed.

  Theorem split_disj_sound (f : form) : forall e, existsb (fun x => EV e x) (split_disj A f) = EV e f.
  Proof.
    induction f as [a|n xs|n xs|f IH|fs IH|fs IH|v i m b IH|v i m b IH|v b IH|v b IH] using formula_ind';
      intros e; simpl; try now rewrite orb_false_r.
    rewrite existsb_flat_map. apply existsb_ext_in. intros x Hx. apply (Forall_In _ _ IH x Hx).
  Qed.

  (* ---------- & and | ---------- *)
  Lemma smt_is_true f : smt_is A (o_is_true O) f = true -> forall e, EV e f = true.
  Proof. destruct f; simpl; try discriminate. intros H e. now apply H_is_true. Qed.
  Lemma smt_is_false f : smt_is A (o_is_false O) f = true -> forall e, EV e f = false.
  Proof. destruct f; simpl; try discriminate. intros H e. now apply H_is_false. Qed.
  Lemma neg_of_sound f g : neg_of A (o_aeq O) f g = true -> forall e, EV e f = negb (EV e g).
  Proof.
    destruct f; simpl; try discriminate. intros H e. f_equal. now apply (feqb_sound _ _ H).
  Qed.

  Theorem and_sound a b e : EV e (And O a b) = EV e a && EV e b.
  Proof.
    unfold And, f_and.
    destruct (feqb A (o_aeq O) a b) eqn:Heq.
    { rewrite <- (feqb_sound a b Heq e). now destruct (EV e a). }
    destruct (smt_is A (o_is_false O) a) eqn:Hfa.
    { now rewrite (smt_is_false a Hfa e). }
    destruct (smt_is A (o_is_false O) b) eqn:Hfb.
    { rewrite (smt_is_false b Hfb e). now rewrite andb_false_r. }
    destruct (smt_is A (o_is_true O) a) eqn:Hta.
    { now rewrite (smt_is_true a Hta e). }
    destruct (smt_is A (o_is_true O) b) eqn:Htb.
    { rewrite (smt_is_true b Htb e). now rewrite andb_true_r. }
    destruct (neg_of A (o_aeq O) a b) eqn:Hn1.
    { rewrite (neg_of_sound a b Hn1 e). unfold f_false. simpl. rewrite H_false. now destruct (EV e b). }
    destruct (neg_of A (o_aeq O) b a) eqn:Hn2.
    { rewrite (neg_of_sound b a Hn2 e). unfold f_false. simpl. rewrite H_false. now destruct (EV e a). }
    simpl. now rewrite andb_true_r.
  Qed.

  Theorem or_sound a b e : EV e (Or O a b) = EV e a || EV e b.
  Proof.
    unfold Or, f_or.
    destruct (feqb A (o_aeq O) a b) eqn:Heq.
    { rewrite <- (feqb_sound a b Heq e). now destruct (EV e a). }
    destruct (smt_is A (o_is_true O) a) eqn:Hta.
    { now rewrite (smt_is_true a Hta e). }
    destruct (smt_is A (o_is_true O) b) eqn:Htb.
    { rewrite (smt_is_true b Htb e). now rewrite orb_true_r. }
    destruct (smt_is A (o_is_false O) a) eqn:Hfa.
    { now rewrite (smt_is_false a Hfa e). }
    destruct (smt_is A (o_is_false O) b) eqn:Hfb.
    { rewrite (smt_is_false b Hfb e). now rewrite orb_false_r. }
    destruct (neg_of A (o_aeq O) a b) eqn:Hn1.
    { rewrite (neg_of_sound a b Hn1 e). unfold f_true. simpl. rewrite H_true. now destruct (EV e b). }
    destruct (neg_of A (o_aeq O) b a) eqn:Hn2.
    { rewrite (neg_of_sound b a Hn2 e). unfold f_true. simpl. rewrite H_true. now destruct (EV e a). }
    simpl. now rewrite orb_false_r.
  Qed.

  Lemma fold_and_sound l : forall x e,
    EV e (fold_left (And O) l x) = EV e x && forallb (fun y => EV e y) l.
  Proof.
    induction l as [|y l IH]; intros x e; simpl; [now rewrite andb_true_r|].
    rewrite IH, and_sound. now rewrite andb_assoc.
  Qed.
  Lemma fold_or_sound l : forall x e,
    EV e (fold_left (Or O) l x) = EV e x || existsb (fun y => EV e y) l.
  Proof.
    induction l as [|y l IH]; intros x e; simpl; [now rewrite orb_false_r|].
    rewrite IH, or_sound. now rewrite orb_assoc.
  Qed.
  Lemma reduce_and_sound l e :
    EV e (reduce1 A (And O) (TrueF O) l) = forallb (fun y => EV e y) l.
  Proof. destruct l as [|x l]; simpl; [apply H_true|]. apply fold_and_sound. Qed.
  Lemma reduce_or_sound l e :
    EV e (reduce1 A (Or O) (FalseF O) l) = existsb (fun y => EV e y) l.
  Proof. destruct l as [|x l]; simpl; [apply H_false|]. apply fold_or_sound. Qed.

  (* ---------- negation ---------- *)
  Theorem neg_sound (f : form) : forall e, EV e (Neg O f) = negb (EV e f).
  Proof.
    unfold Neg.
    induction f as [a|n xs|n xs|f IH|fs IH|fs IH|v i m b IH|v i m b IH|v b IH|v b IH] using formula_ind';
      intros e; simpl; try reflexivity.
    - apply H_push.
    - now rewrite negb_involutive.
    - change (EV e (reduce1 A (Or O) (FalseF O) (map (Neg O) fs)) = negb (forallb (fun x => EV e x) fs)).
      rewrite reduce_or_sound, existsb_map, negb_forallb. apply existsb_ext_in.
      intros x Hx. apply (Forall_In _ _ IH x Hx).
    - change (EV e (reduce1 A (And O) (TrueF O) (map (Neg O) fs)) = negb (existsb (fun x => EV e x) fs)).
      rewrite reduce_and_sound, forallb_map, negb_existsb. apply forallb_ext_in.
      intros x Hx. apply (Forall_In _ _ IH x Hx).
    - rewrite negb_forallb. apply existsb_ext_in. intros e' _. apply IH.
    - rewrite negb_existsb. apply forallb_ext_in. intros e' _. apply IH.
    - rewrite negb_forallb. apply existsb_ext_in. intros e' _. apply IH.
    - rewrite negb_existsb. apply forallb_ext_in. intros e' _. apply IH.
  Qed.

  (* ---------- negation normal form ---------- *)
  Theorem nnf_sound (f : form) : forall neg e, EV e (Nnf O f neg) = xorb neg (EV e f).
  Proof.
    unfold Nnf.
    induction f as [a|n xs|n xs|f IH|fs IH|fs IH|v i m b IH|v i m b IH|v b IH|v b IH] using formula_ind';
      intros neg e; simpl.
    - apply H_push.
    - destruct neg; [rewrite xorb_true_l | rewrite xorb_false_l]; reflexivity.
    - destruct neg; [rewrite xorb_true_l | rewrite xorb_false_l]; reflexivity.
    - rewrite IH. destruct neg, (EV e f); reflexivity.
    - destruct neg; [rewrite xorb_true_l | rewrite xorb_false_l].
      + change (EV e (reduce1 A (Or O) (FalseF O) (map (fun a => Nnf O a true) fs)) = negb (forallb (fun x => EV e x) fs)).
        rewrite reduce_or_sound, existsb_map, negb_forallb. apply existsb_ext_in.
        intros x Hx. rewrite <- xorb_true_l. apply (Forall_In _ _ IH x Hx true e).
      + change (EV e (reduce1 A (And O) (TrueF O) (map (fun a => Nnf O a false) fs)) = forallb (fun x => EV e x) fs).
        rewrite reduce_and_sound, forallb_map. apply forallb_ext_in.
        intros x Hx. rewrite <- (xorb_false_l (EV e x)). apply (Forall_In _ _ IH x Hx false e).
    - destruct neg; [rewrite xorb_true_l | rewrite xorb_false_l].
      + change (EV e (reduce1 A (And O) (TrueF O) (map (fun a => Nnf O a true) fs)) = negb (existsb (fun x => EV e x) fs)).
        rewrite reduce_and_sound, forallb_map, negb_existsb. apply forallb_ext_in.
        intros x Hx. rewrite <- xorb_true_l. apply (Forall_In _ _ IH x Hx true e).
      + change (EV e (reduce1 A (Or O) (FalseF O) (map (fun a => Nnf O a false) fs)) = existsb (fun x => EV e x) fs).
        rewrite reduce_or_sound, existsb_map. apply existsb_ext_in.
        intros x Hx. rewrite <- (xorb_false_l (EV e x)). apply (Forall_In _ _ IH x Hx false e).
    - destruct neg; [rewrite xorb_true_l | rewrite xorb_false_l]; simpl; [|reflexivity].
      rewrite negb_forallb. apply existsb_ext_in. intros e' _. rewrite <- xorb_true_l. apply (IH true e').
    - destruct neg; [rewrite xorb_true_l | rewrite xorb_false_l]; simpl; [|reflexivity].
      rewrite negb_existsb. apply forallb_ext_in. intros e' _. rewrite <- xorb_true_l. apply (IH true e').
    - destruct neg; [rewrite xorb_true_l | rewrite xorb_false_l]; simpl; [|reflexivity].
      rewrite negb_forallb. apply existsb_ext_in. intros e' _. rewrite <- xorb_true_l. apply (IH true e').
    - destruct neg; [rewrite xorb_true_l | rewrite xorb_false_l]; simpl; [|reflexivity].
      rewrite negb_existsb. apply forallb_ext_in. intros e' _. rewrite <- xorb_true_l. apply (IH true e').
  Qed.

  (* ---------- disjunctive normal form ---------- *)
  Lemma filter_seqb_sound x l e :
    EV e x && forallb (fun y => EV e y) (filter (fun y => negb (Seq O x y)) l)
    = EV e x && forallb (fun y => EV e y) l.
  Proof.
    induction l as [|y l IH]; simpl; [reflexivity|].
    destruct (Seq O x y) eqn:Hxy; simpl.
    - rewrite IH. rewrite <- (seqb_sound x y Hxy e). destruct (EV e x); reflexivity.
    - destruct (EV e y); simpl; [apply IH|]. now rewrite !andb_false_r.
  Qed.

  Lemma dedup_sound l e :
    forallb (fun y => EV e y) (dedup A (o_aeq O) l) = forallb (fun y => EV e y) l.
  Proof.
    induction l as [|x l IH]; simpl; [reflexivity|].
    change (EV e x && forallb (fun y => EV e y) (filter (fun y => negb (Seq O x y)) (dedup A (o_aeq O) l))
            = EV e x && forallb (fun y => EV e y) l).
    now rewrite filter_seqb_sound, IH.
  Qed.

  Lemma dnf_clause_sound c e :
    EV e (dnf_clause A (o_aeq O) (o_true O) (o_false O) (o_is_true O) (o_is_false O) c)
    = forallb (fun y => EV e y) c.
  Proof.
    unfold dnf_clause.
    change (EV e (fold_left (And O) (dedup A (o_aeq O) (split_conj A (reduce1 A (And O) (TrueF O) c))) (TrueF O))
            = forallb (fun y => EV e y) c).
    rewrite fold_and_sound, ev_true, dedup_sound, split_conj_sound, reduce_and_sound. reflexivity.
  Qed.

  Lemma product_sound {X} (p : X -> bool) (ls : list (list X)) :
    existsb (fun c => forallb p c) (product ls) = forallb (fun l => existsb p l) ls.
  Proof.
    induction ls as [|l ls IH]; simpl; [reflexivity|].
    rewrite existsb_flat_map.
    rewrite (existsb_ext_in _ (fun x => p x && existsb (fun c => forallb p c) (product ls))).
    - now rewrite existsb_andb_r, IH.
    - intros x _. rewrite existsb_map. simpl. now rewrite existsb_andb_l.
  Qed.

  Lemma dnf_conj_sound fs dl g :
    Forall2 (fun a l => forall e, existsb (fun y => EV e y) l = EV e a) fs dl ->
    dnf_conj A (o_aeq O) (o_true O) (o_false O) (o_is_true O) (o_is_false O) (FAnd fs) dl = Ok g ->
    forall e, EV e g = EV e (FAnd fs).
  Proof.
    intros HF H e. unfold dnf_conj in H.
    assert (Hall : forallb (fun l => existsb (fun y => EV e y) l) dl = forallb (fun x => EV e x) fs).
    { clear H. induction HF as [|a l fs' dl' Hal _ IH]; simpl; [reflexivity|]. now rewrite Hal, IH. }
    destruct (forallb len1 dl); [now inversion H|].
    inversion H. subst g.
    change (EV e (fold_left (Or O) (map (dnf_clause A (o_aeq O) (o_true O) (o_false O) (o_is_true O) (o_is_false O)) (product dl)) (FalseF O))
            = EV e (FAnd fs)).
    rewrite fold_or_sound, ev_false, existsb_map. simpl.
    rewrite (existsb_ext_in _ (fun c => forallb (fun y => EV e y) c)).
    - now rewrite product_sound, Hall.
    - intros c _. apply dnf_clause_sound.
  Qed.

  Theorem dnf_sound (f : form) : forall deep g, Dnf O deep f = Ok g -> forall e, EV e g = EV e f.
  Proof.
    unfold Dnf.
    induction f as [a|n xs|n xs|f IH|fs IH|fs IH|v i m b IH|v i m b IH|v b IH|v b IH] using formula_ind';
      intros deep g H e; simpl in H.
    - now inversion H.
    - now inversion H.
    - now inversion H.
    - destruct (is_comb A f); [discriminate|]. now inversion H.
    - match type of H with bind ?G _ = _ => destruct G as [dl|ex] eqn:Hgo end; simpl in H; [|discriminate].
      refine (dnf_conj_sound fs dl g _ H e).
      clear H. revert dl Hgo. induction IH as [|x fs' Hx _ IHfs]; intros dl Hgo.
      + inversion Hgo. constructor.
      + destruct (dnf A (o_aeq O) (o_true O) (o_false O) (o_is_true O) (o_is_false O) true x) as [r|ex] eqn:Hr;
          simpl in Hgo; [|discriminate].
        match type of Hgo with bind ?G _ = _ => destruct G as [rs|ex] eqn:Hrs end; simpl in Hgo; [|discriminate].
        inversion Hgo. subst dl. constructor; [|now apply IHfs].
        intros e'. rewrite split_disj_sound. now apply (Hx true r Hr e').
    - match type of H with bind ?G _ = _ => destruct G as [rs|ex] eqn:Hgo end; simpl in H; [|discriminate].
      inversion H. subst g.
      change (EV e (fold_left (Or O) rs (FalseF O)) = EV e (FOr fs)).
      rewrite fold_or_sound, ev_false. simpl.
      clear H. revert rs Hgo. induction IH as [|x fs' Hx _ IHfs]; intros rs Hgo.
      + now inversion Hgo.
      + destruct (dnf A (o_aeq O) (o_true O) (o_false O) (o_is_true O) (o_is_false O) true x) as [r|ex] eqn:Hr;
          simpl in Hgo; [|discriminate].
        match type of Hgo with bind ?G _ = _ => destruct G as [rs'|ex] eqn:Hrs end; simpl in Hgo; [|discriminate].
        inversion Hgo. subst rs. simpl. rewrite (Hx true r Hr e). f_equal. now apply IHfs.
    - destruct deep; [|now inversion H].
      destruct (dnf A (o_aeq O) (o_true O) (o_false O) (o_is_true O) (o_is_false O) true b) as [b'|ex] eqn:Hb;
        simpl in H; [|discriminate].
      inversion H. subst g. simpl. apply forallb_ext_in. intros e' _. now apply (IH true b' Hb e').
    - destruct deep; [|now inversion H].
      destruct (dnf A (o_aeq O) (o_true O) (o_false O) (o_is_true O) (o_is_false O) true b) as [b'|ex] eqn:Hb;
        simpl in H; [|discriminate].
      inversion H. subst g. simpl. apply existsb_ext_in. intros e' _. now apply (IH true b' Hb e').
    - now inversion H.
    - now inversion H.
  Qed.

End Facts.

(* ================= when do the rewrites raise? (no semantics needed) ================= *)

(* positions visited by convert_to_dnf: below conjunctions, disjunctions and tree quantifiers.
   dsafe f: at every visited position no NegatedFormula sits on a propositional combinator
   (the assert of convert_to_dnf).  Since /repo commit 71bb9ab the arity of the visited
   conjunctions no longer matters. *)
Fixpoint dsafe {A} (f : formula A) : bool :=
  match f with
  | FNot g => negb (is_comb A g)
  | FAnd fs | FOr fs => forallb dsafe fs
  | FForall _ _ _ b | FExists _ _ _ b => dsafe b
  | _ => true
  end.

(* known-finding class (boolean predicate over the input formula) *)
Definition K_dnf_not_nnf {A} (f : formula A) : bool := negb (dsafe f).

(* quantifier bodies that convert_to_nnf leaves untouched must themselves be dsafe *)
Fixpoint bodies_safe {A} (neg : bool) (f : formula A) : bool :=
  match f with
  | FNot g => bodies_safe (negb neg) g
  | FAnd fs | FOr fs => forallb (bodies_safe neg) fs
  | FForall _ _ _ b | FExists _ _ _ b => if neg then bodies_safe true b else dsafe b
  | FForallInt _ b | FExistsInt _ b => if neg then bodies_safe true b else true
  | _ => true
  end.

Fixpoint no_tree_quant {A} (f : formula A) : bool :=
  match f with
  | FNot g => no_tree_quant g
  | FAnd fs | FOr fs => forallb no_tree_quant fs
  | FForall _ _ _ _ | FExists _ _ _ _ => false
  | FForallInt _ b | FExistsInt _ b => no_tree_quant b
  | _ => true
  end.

Section Raise.
  Variable A : Type.
  Variable O : ops A.
  Notation form := (formula A).

  Lemma dsafe_and a b : dsafe a = true -> dsafe b = true -> dsafe (And O a b) = true.
  Proof.
    intros Ha Hb. unfold And, f_and.
    repeat match goal with |- context [if ?c then _ else _] => destruct c end;
      try assumption; try reflexivity.
    simpl. now rewrite Ha, Hb.
  Qed.
  Lemma dsafe_or a b : dsafe a = true -> dsafe b = true -> dsafe (Or O a b) = true.
  Proof.
    intros Ha Hb. unfold Or, f_or.
    repeat match goal with |- context [if ?c then _ else _] => destruct c end;
      try assumption; try reflexivity.
    simpl. now rewrite Ha, Hb.
  Qed.
  Lemma dsafe_fold_and l : forall x, dsafe x = true -> forallb dsafe l = true ->
    dsafe (fold_left (And O) l x) = true.
  Proof.
    induction l as [|y l IH]; intros x Hx Hl; simpl in *; [assumption|].
    apply andb_true_iff in Hl. destruct Hl as [Hy Hl]. apply IH; [now apply dsafe_and | assumption].
  Qed.
  Lemma dsafe_fold_or l : forall x, dsafe x = true -> forallb dsafe l = true ->
    dsafe (fold_left (Or O) l x) = true.
  Proof.
    induction l as [|y l IH]; intros x Hx Hl; simpl in *; [assumption|].
    apply andb_true_iff in Hl. destruct Hl as [Hy Hl]. apply IH; [now apply dsafe_or | assumption].
  Qed.
  Lemma dsafe_reduce_and l : forallb dsafe l = true -> dsafe (reduce1 A (And O) (TrueF O) l) = true.
  Proof.
    destruct l as [|x l]; simpl; [reflexivity|]. intros H. apply andb_true_iff in H.
    destruct H as [Hx Hl]. now apply dsafe_fold_and.
  Qed.
  Lemma dsafe_reduce_or l : forallb dsafe l = true -> dsafe (reduce1 A (Or O) (FalseF O) l) = true.
  Proof.
    destruct l as [|x l]; simpl; [reflexivity|]. intros H. apply andb_true_iff in H.
    destruct H as [Hx Hl]. now apply dsafe_fold_or.
  Qed.

  (* shape of the output of convert_to_nnf: it satisfies the precondition of convert_to_dnf
     wherever nnf traversed; the untouched quantifier bodies are a premise *)
  Theorem nnf_dsafe (f : form) : forall neg, bodies_safe neg f = true -> dsafe (Nnf O f neg) = true.
  Proof.
    unfold Nnf.
    induction f as [a|n xs|n xs|f IH|fs IH|fs IH|v i m b IH|v i m b IH|v b IH|v b IH] using formula_ind';
      intros neg H; simpl in *.
    - reflexivity.
    - destruct neg; reflexivity.
    - destruct neg; reflexivity.
    - now apply IH.
    - assert (Hall : forallb dsafe (map (fun a => Nnf O a neg) fs) = true).
      { rewrite forallb_map. apply forallb_forall. intros x Hx.
        apply (Forall_In _ _ IH x Hx). rewrite forallb_forall in H. now apply H. }
      destruct neg; [now apply dsafe_reduce_or | now apply dsafe_reduce_and].
    - assert (Hall : forallb dsafe (map (fun a => Nnf O a neg) fs) = true).
      { rewrite forallb_map. apply forallb_forall. intros x Hx.
        apply (Forall_In _ _ IH x Hx). rewrite forallb_forall in H. now apply H. }
      destruct neg; [now apply dsafe_reduce_and | now apply dsafe_reduce_or].
    - destruct neg; simpl; [now apply IH | assumption].
    - destruct neg; simpl; [now apply IH | assumption].
    - destruct neg; reflexivity.
    - destruct neg; reflexivity.
  Qed.

  (* complete account of the outcomes of convert_to_dnf *)
  Definition dnf_outcome_ok (f : form) (r : res form) : Prop :=
    match r with
    | Ok _ => True
    | Raise AssertErr => dsafe f = false
    | Raise _ => False
    end.

  Lemma forallb_false_in {X} (p : X -> bool) l x : In x l -> p x = false -> forallb p l = false.
  Proof.
    intros Hin Hp. destruct (forallb p l) eqn:E; [|reflexivity].
    rewrite forallb_forall in E. rewrite (E x Hin) in Hp. discriminate.
  Qed.

  Theorem dnf_outcome (f : form) : forall deep, dnf_outcome_ok f (Dnf O deep f).
  Proof.
    unfold Dnf.
    induction f as [a|n xs|n xs|f IH|fs IH|fs IH|v i m b IH|v i m b IH|v b IH|v b IH] using formula_ind';
      intros deep; simpl; try exact I.
    - destruct (is_comb A f) eqn:Hc; simpl; [now rewrite Hc | exact I].
    - (* conjunction *)
      match goal with |- dnf_outcome_ok _ (bind ?G _) => assert (HG :
        match G with
        | Ok _ => True
        | Raise AssertErr => exists x, In x fs /\ dsafe x = false
        | Raise _ => False
        end) end.
      { induction IH as [|x fs' Hx _ IHfs]; simpl; [exact I|].
        specialize (Hx true). unfold dnf_outcome_ok in Hx.
        destruct (dnf A (o_aeq O) (o_true O) (o_false O) (o_is_true O) (o_is_false O) true x) as [r|ex]; simpl.
        - match goal with |- context [bind ?G' _] => destruct G' as [rs|ex'] end; simpl; [exact I|].
          destruct ex'; try exact IHfs.
          destruct IHfs as [y [Hy Hd]]. exists y. split; [now right | assumption].
        - destruct ex; try exact Hx. exists x. split; [now left | assumption]. }
      match goal with |- dnf_outcome_ok _ (bind ?G _) => destruct G as [dl|ex] end; simpl.
      + unfold dnf_conj. destruct (forallb len1 dl); exact I.
      + destruct ex; try exact HG.
        destruct HG as [y [Hy Hd]]. now apply (forallb_false_in _ _ y).
    - (* disjunction *)
      match goal with |- dnf_outcome_ok _ (bind ?G _) => assert (HG :
        match G with
        | Ok _ => True
        | Raise AssertErr => exists x, In x fs /\ dsafe x = false
        | Raise _ => False
        end) end.
      { induction IH as [|x fs' Hx _ IHfs]; simpl; [exact I|].
        specialize (Hx true). unfold dnf_outcome_ok in Hx.
        destruct (dnf A (o_aeq O) (o_true O) (o_false O) (o_is_true O) (o_is_false O) true x) as [r|ex]; simpl.
        - match goal with |- context [bind ?G' _] => destruct G' as [rs|ex'] end; simpl; [exact I|].
          destruct ex'; try exact IHfs.
          destruct IHfs as [y [Hy Hd]]. exists y. split; [now right | assumption].
        - destruct ex; try exact Hx. exists x. split; [now left | assumption]. }
      match goal with |- dnf_outcome_ok _ (bind ?G _) => destruct G as [rs|ex] end; simpl; [exact I|].
      destruct ex; try exact HG.
      destruct HG as [y [Hy Hd]]. now apply (forallb_false_in _ _ y).
    - destruct deep; simpl; [|exact I]. specialize (IH true). unfold dnf_outcome_ok in IH.
      destruct (dnf A (o_aeq O) (o_true O) (o_false O) (o_is_true O) (o_is_false O) true b) as [r|ex];
        simpl; [exact I|]. destruct ex; exact IH.
    - destruct deep; simpl; [|exact I]. specialize (IH true). unfold dnf_outcome_ok in IH.
      destruct (dnf A (o_aeq O) (o_true O) (o_false O) (o_is_true O) (o_is_false O) true b) as [r|ex];
        simpl; [exact I|]. destruct ex; exact IH.
  Qed.

  (* convert_to_dnf does not raise on input that satisfies its precondition (dsafe) *)
  Theorem dnf_total deep (f : form) : K_dnf_not_nnf f = false -> exists g, Dnf O deep f = Ok g.
  Proof.
    unfold K_dnf_not_nnf. intros H. pose proof (dnf_outcome f deep) as Ho. unfold dnf_outcome_ok in Ho.
    destruct (Dnf O deep f) as [g|ex]; [now exists g|]. exfalso.
    destruct ex; try contradiction. rewrite Ho in H. discriminate.
  Qed.

  (* the only exception: AssertionError, and only on input not in NNF at a visited position *)
  Theorem dnf_raises deep (f : form) e : Dnf O deep f = Raise e -> e = AssertErr /\ K_dnf_not_nnf f = true.
  Proof.
    intros H. pose proof (dnf_outcome f deep) as Ho. rewrite H in Ho. unfold dnf_outcome_ok in Ho.
    destruct e; try contradiction. split; [reflexivity|]. unfold K_dnf_not_nnf. now rewrite Ho.
  Qed.

  (* the solver's establish_invariant = split_disjunction(dnf(nnf(f), deep=False)) *)
  Theorem invariant_ok (f : form) : bodies_safe false f = true -> exists l, Invariant O f = Ok l.
  Proof.
    intros H. unfold Invariant, establish_invariant.
    assert (Hd : K_dnf_not_nnf (Nnf O f false) = false).
    { unfold K_dnf_not_nnf. now rewrite (nnf_dsafe f false H). }
    destruct (dnf_total false (Nnf O f false) Hd) as [g Hg].
    unfold Dnf, Nnf in Hg. rewrite Hg. simpl. eauto.
  Qed.

  Lemma no_tree_quant_bodies (f : form) : forall neg, no_tree_quant f = true -> bodies_safe neg f = true.
  Proof.
    induction f as [a|n xs|n xs|f IH|fs IH|fs IH|v i m b IH|v i m b IH|v b IH|v b IH] using formula_ind';
      intros neg H; simpl in *; try reflexivity; try discriminate.
    - now apply IH.
    - rewrite forallb_forall in *. intros x Hx. apply (Forall_In _ _ IH x Hx). now apply H.
    - rewrite forallb_forall in *. intros x Hx. apply (Forall_In _ _ IH x Hx). now apply H.
    - destruct neg; [now apply IH | reflexivity].
    - destruct neg; [now apply IH | reflexivity].
  Qed.

  Corollary invariant_ok_no_tree_quant (f : form) : no_tree_quant f = true -> exists l, Invariant O f = Ok l.
  Proof. intros H. apply invariant_ok. now apply no_tree_quant_bodies. Qed.
End Raise.

(* ================= replace_formula ================= *)
Section ReplaceFacts.
  Variables A E : Type.
  Variable O : ops A.
  Variable S : sem A E.
  Hypothesis HS : atoms_sound O S.
  Notation form := (formula A).
  Notation EV := (ev S).

  (* replacing a sub-formula by one with the same truth value in every state keeps the verdict *)
  Theorem replace_sound (tr rw : form) : (forall e, EV e tr = EV e rw) ->
    forall f e, EV e (Replace O f tr rw) = EV e f.
  Proof.
    intros Heq. unfold Replace.
    induction f as [a|n xs|n xs|f IH|fs IH|fs IH|v i m b IH|v i m b IH|v b IH|v b IH] using formula_ind';
      intros e; simpl;
      match goal with |- context [if feqb A (o_aeq O) ?x tr then _ else _] =>
        destruct (feqb A (o_aeq O) x tr) eqn:Hx;
        [ rewrite <- Heq; symmetry; exact (feqb_sound A E O S HS _ _ Hx e) | ] end;
      try reflexivity.
    - set (r := replace_formula A (o_aeq O) (o_true O) (o_false O) (o_is_true O) (o_is_false O) f tr rw) in *.
      destruct (feqb A (o_aeq O) r (f_false A (o_false O))) eqn:Hf.
      { pose proof (feqb_sound A E O S HS _ _ Hf e) as H1. rewrite IH in H1.
        change (EV e (TrueF O) = negb (EV e f)). rewrite (ev_true A E O S HS), H1.
        change (true = negb (EV e (FalseF O))). now rewrite (ev_false A E O S HS). }
      destruct (feqb A (o_aeq O) r (f_true A (o_true O))) eqn:Ht.
      { pose proof (feqb_sound A E O S HS _ _ Ht e) as H1. rewrite IH in H1.
        change (EV e (FalseF O) = negb (EV e f)). rewrite (ev_false A E O S HS), H1.
        change (false = negb (EV e (TrueF O))). now rewrite (ev_true A E O S HS). }
      simpl. now rewrite IH.
    - change (EV e (reduce1 A (And O) (TrueF O) (map (fun c => Replace O c tr rw) fs)) = forallb (fun x => EV e x) fs).
      rewrite (reduce_and_sound A E O S HS), forallb_map. apply forallb_ext_in.
      intros x Hin. apply (Forall_In _ _ IH x Hin e).
    - change (EV e (reduce1 A (Or O) (FalseF O) (map (fun c => Replace O c tr rw) fs)) = existsb (fun x => EV e x) fs).
      rewrite (reduce_or_sound A E O S HS), existsb_map. apply existsb_ext_in.
      intros x Hin. apply (Forall_In _ _ IH x Hin e).
    - apply forallb_ext_in. intros e' _. apply IH.
    - apply existsb_ext_in. intros e' _. apply IH.
    - apply forallb_ext_in. intros e' _. apply IH.
    - apply existsb_ext_in. intros e' _. apply IH.
  Qed.
End ReplaceFacts.

(* ================= substitute_variables / ensure_unique_bound_variables ================= *)
(* PARTIAL.  What is proved: substitute_variables and ensure_unique_bound_variables preserve the
   truth value under every interpretation that looks at variables only through their TYPES
   (name-insensitive): i.e. apart from renaming variables, these functions only re-assemble
   connectives with & and |, and that re-assembly is meaning preserving, for all formulas
   (also with shadowing).  What is NOT proved: that the chosen names avoid capture, which is what
   a name-SENSITIVE interpretation needs; it is false on shadowing input (see
   unique_shadow_refuted in Props/C09.v: the in-variable of a quantifier `forall x in x` that
   shadows the variable it ranges over is renamed together with the binder). *)
Definition type_preserving (rho : list (var * var)) : Prop := forall v, vtype (lookup rho v) = vtype v.

Definition name_insensitive {A E} (O : ops A) (S : sem A E) : Prop :=
  forall rho, type_preserving rho ->
    (forall e a, s_denote S e (o_subst O rho a) = s_denote S e a) /\
    (forall e b n xs, s_pred S e b n (map (subst_parg rho) xs) = s_pred S e b n xs) /\
    (forall e v i m, s_qdom S e (lookup rho v) (subst_invar rho i) (option_map (subst_mexpr rho) m)
                     = s_qdom S e v i m) /\
    (forall e v, s_idom S e (lookup rho v) = s_idom S e v).

Lemma fresh_vars_pairs orig : forall used rho u, fresh_vars orig used = (rho, u) ->
  Forall (fun p => vtype (snd p) = vtype (fst p)) rho.
Proof.
  induction orig as [|v orig IH]; intros used rho u H; simpl in H.
  - inversion H. constructor.
  - destruct (negb (mem_str (vname v) used)).
    + destruct (fresh_vars orig (vname v :: used)) as [rho' u'] eqn:Hr. inversion H. subst.
      constructor; [reflexivity | now apply (IH _ _ _ Hr)].
    + match type of H with (let (_, _) := fresh_vars orig ?U in _) = _ =>
        destruct (fresh_vars orig U) as [rho' u'] eqn:Hr end.
      inversion H. subst. constructor; [reflexivity | now apply (IH _ _ _ Hr)].
Qed.

Lemma pairs_type_preserving rho :
  Forall (fun p => vtype (snd p) = vtype (fst p)) rho -> type_preserving rho.
Proof.
  intros HF v. unfold lookup. destruct (find (fun p => var_eqb (fst p) v) rho) as [p|] eqn:Hf; [|reflexivity].
  apply find_some in Hf. destruct Hf as [Hin Hv]. apply var_eqb_eq in Hv.
  rewrite Forall_forall in HF. rewrite (HF p Hin). now rewrite Hv.
Qed.

Lemma fresh_vars_type_preserving orig used rho u :
  fresh_vars orig used = (rho, u) -> type_preserving rho.
Proof. intros H. apply pairs_type_preserving. now apply (fresh_vars_pairs _ _ _ _ H). Qed.

Section RenameFacts.
  Variables A E : Type.
  Variable O : ops A.
  Variable S : sem A E.
  Hypothesis HS : atoms_sound O S.
  Hypothesis HN : name_insensitive O S.
  Notation form := (formula A).
  Notation EV := (ev S).

  Theorem subst_sound rho : type_preserving rho -> forall (f : form) e, EV e (Subst O rho f) = EV e f.
  Proof.
    intros Hr. destruct (HN rho Hr) as [Hd [Hp [Hq Hi]]]. unfold Subst.
    induction f as [a|n xs|n xs|f IH|fs IH|fs IH|v i m b IH|v i m b IH|v b IH|v b IH] using formula_ind';
      intros e; simpl.
    - apply Hd.
    - apply Hp.
    - apply Hp.
    - now rewrite IH.
    - change (EV e (reduce1 A (And O) (TrueF O) (map (Subst O rho) fs)) = forallb (fun x => EV e x) fs).
      rewrite (reduce_and_sound A E O S HS), forallb_map. apply forallb_ext_in.
      intros x Hin. apply (Forall_In _ _ IH x Hin e).
    - change (EV e (reduce1 A (Or O) (FalseF O) (map (Subst O rho) fs)) = existsb (fun x => EV e x) fs).
      rewrite (reduce_or_sound A E O S HS), existsb_map. apply existsb_ext_in.
      intros x Hin. apply (Forall_In _ _ IH x Hin e).
    - rewrite Hq. apply forallb_ext_in. intros e' _. apply IH.
    - rewrite Hq. apply existsb_ext_in. intros e' _. apply IH.
    - rewrite Hi. apply forallb_ext_in. intros e' _. apply IH.
    - rewrite Hi. apply existsb_ext_in. intros e' _. apply IH.
  Qed.

  Theorem unique_sound_partial : forall fuel (f : form) used g u,
    Unique O fuel f used = Some (g, u) -> forall e, EV e g = EV e f.
  Proof.
    unfold Unique.
    induction fuel as [|k IH]; intros f used g u H e; [discriminate|].
    assert (Hlist : forall (mkgo : list form -> list str -> option (list form * list str)) fs,
      (forall l u0, mkgo l u0 =
         match l with
         | [] => Some ([], u0)
         | a :: l' =>
             match ensure_unique A (o_aeq O) (o_true O) (o_false O) (o_is_true O) (o_is_false O) (o_subst O) k a u0 with
             | Some (a', u') => match mkgo l' u' with Some (r, u'') => Some (a' :: r, u'') | None => None end
             | None => None
             end
         end) ->
      forall u0 gs u1, mkgo fs u0 = Some (gs, u1) ->
      Forall2 (fun a g' => forall e', EV e' g' = EV e' a) fs gs).
    { intros mkgo fs Hgo. induction fs as [|a fs IHfs]; intros u0 gs u1 Hm; rewrite Hgo in Hm.
      - inversion Hm. constructor.
      - destruct (ensure_unique A (o_aeq O) (o_true O) (o_false O) (o_is_true O) (o_is_false O) (o_subst O) k a u0)
          as [[a' u']|] eqn:Ha; [|discriminate].
        destruct (mkgo fs u') as [[r u'']|] eqn:Hr; [|discriminate].
        inversion Hm. subst. constructor; [intros e'; now apply (IH _ _ _ _ Ha e') | now apply (IHfs _ _ _ Hr)]. }
    destruct f as [a|n xs|n xs|f|fs|fs|v i m b|v i m b|v b|v b]; cbn [ensure_unique] in H;
      try (inversion H; reflexivity).
    - destruct (ensure_unique A (o_aeq O) (o_true O) (o_false O) (o_is_true O) (o_is_false O) (o_subst O) k f used)
        as [[g' u']|] eqn:Hg; [|discriminate].
      inversion H. subst. simpl. f_equal. now apply (IH _ _ _ _ Hg e).
    - match type of H with match ?G fs used with _ => _ end = _ =>
        pose proof (Hlist G fs (fun l u0 => match l with [] => eq_refl | _ :: _ => eq_refl end)) as HL;
        destruct (G fs used) as [[gs u']|] eqn:Hgo; [|discriminate]
      end.
      pose proof (HL used gs u' Hgo) as HF. clear HL.
      inversion H. subst.
      change (EV e (reduce1 A (And O) (TrueF O) gs) = forallb (fun x => EV e x) fs).
      rewrite (reduce_and_sound A E O S HS). clear -HF.
      induction HF as [|a g' fs gs Hag _ IHF]; simpl; [reflexivity|]. now rewrite Hag, IHF.
    - match type of H with match ?G fs used with _ => _ end = _ =>
        pose proof (Hlist G fs (fun l u0 => match l with [] => eq_refl | _ :: _ => eq_refl end)) as HL;
        destruct (G fs used) as [[gs u']|] eqn:Hgo; [|discriminate]
      end.
      pose proof (HL used gs u' Hgo) as HF. clear HL.
      inversion H. subst.
      change (EV e (reduce1 A (Or O) (FalseF O) gs) = existsb (fun x => EV e x) fs).
      rewrite (reduce_or_sound A E O S HS). clear -HF.
      induction HF as [|a g' fs gs Hag _ IHF]; simpl; [reflexivity|]. now rewrite Hag, IHF.
    - destruct (fresh_vars (q_bound v m) _) as [rho used2] eqn:Hfv.
      pose proof (fresh_vars_type_preserving _ _ _ _ Hfv) as Htp.
      match type of H with match ?G with _ => _ end = _ => destruct G as [[b'' u']|] eqn:Hb; [|discriminate] end.
      inversion H. subst. simpl.
      destruct (HN rho Htp) as [_ [_ [Hq _]]]. rewrite Hq.
      apply forallb_ext_in. intros e' _. rewrite (IH _ _ _ _ Hb e'). apply (subst_sound rho Htp).
    - destruct (fresh_vars (q_bound v m) _) as [rho used2] eqn:Hfv.
      pose proof (fresh_vars_type_preserving _ _ _ _ Hfv) as Htp.
      match type of H with match ?G with _ => _ end = _ => destruct G as [[b'' u']|] eqn:Hb; [|discriminate] end.
      inversion H. subst. simpl.
      destruct (HN rho Htp) as [_ [_ [Hq _]]]. rewrite Hq.
      apply existsb_ext_in. intros e' _. rewrite (IH _ _ _ _ Hb e'). apply (subst_sound rho Htp).
  Qed.
End RenameFacts.

(* ================= concrete instances: non-vacuity and refutation witnesses ================= *)
Definition cops : ops catom := MkOps catom caeq CTrue CFalse c_is_true c_is_false cpush casubst.

(* a name-SENSITIVE interpretation: states assign strings to variable names; a tree quantifier
   `v in w` ranges over the characters of the value of w; numeric quantifiers over "0","1" *)
Definition cenv := list (str * str).
Fixpoint cget (e : cenv) (n : str) : str :=
  match e with [] => [] | (k, x) :: e' => if str_eqb k n then x else cget e' n end.
Definition csem : sem catom cenv :=
  MkSem catom cenv
    (fun e a => match a with
                | CTrue => true | CFalse => false
                | CEq v s n => xorb n (str_eqb (cget e (vname v)) s)
                end)
    (fun e _ _ xs => match xs with
                     | [PVar a; PVar b] => str_eqb (cget e (vname a)) (cget e (vname b))
                     | _ => false
                     end)
    (fun e v i _ => match i with
                    | InVar w => map (fun c => (vname v, [c]) :: e) (cget e (vname w))
                    | InTree _ => []
                    end)
    (fun e v => [(vname v, [48%N]) :: e; (vname v, [49%N]) :: e]).

Example atoms_sound_csem : atoms_sound cops csem.
Proof.
  repeat split; simpl.
  - intros a b H e. destruct a as [| |v s n], b as [| |w t m]; simpl in H; try discriminate; try reflexivity.
    apply andb_true_iff in H. destruct H as [H Hn]. apply andb_true_iff in H. destruct H as [Hv Hs].
    apply str_eqb_eq in Hv. apply str_eqb_eq in Hs. apply Bool.eqb_prop in Hn. now rewrite Hv, Hs, Hn.
  - intros a H e. now destruct a.
  - intros a H e. now destruct a.
  - intros e b a. destruct a as [| |v s n]; simpl; [now destruct b | now destruct b |].
    now rewrite xorb_assoc.
Qed.

(* a name-INSENSITIVE interpretation (looks at types only); states are counters *)
Definition tsem : sem catom nat :=
  MkSem catom nat
    (fun e a => match a with
                | CTrue => true | CFalse => false
                | CEq v s n => xorb n (str_eqb (vtype v) s)
                end)
    (fun e b _ xs => Nat.even (length xs + e))
    (fun e v _ _ => if is_nt (vtype v) then [S e; e] else [])
    (fun e v => [e; S (S e)]).

(* caeq compares variable NAMES only (z3 symbols carry no type), tsem looks at TYPES only: tsem is
   sound for the atom equality that also compares the declared variable *)
Definition caeq_t (a b : catom) : bool :=
  match a, b with
  | CTrue, CTrue | CFalse, CFalse => true
  | CEq v s n, CEq w t m => var_eqb v w && str_eqb s t && Bool.eqb n m
  | _, _ => false
  end.
Definition cops_t : ops catom := MkOps catom caeq_t CTrue CFalse c_is_true c_is_false cpush casubst.

Example atoms_sound_tsem : atoms_sound cops_t tsem.
Proof.
  repeat split; simpl.
  - intros a b H e. destruct a as [| |v s n], b as [| |w t m]; simpl in H; try discriminate; try reflexivity.
    apply andb_true_iff in H. destruct H as [H Hn]. apply andb_true_iff in H. destruct H as [Hv Hs].
    apply var_eqb_eq in Hv. apply str_eqb_eq in Hs. apply Bool.eqb_prop in Hn. now subst.
  - intros a H e. now destruct a.
  - intros a H e. now destruct a.
  - intros e b a. destruct a as [| |v s n]; simpl; [now destruct b | now destruct b |].
    now rewrite xorb_assoc.
Qed.

Example name_insensitive_tsem : name_insensitive cops_t tsem.
Proof.
  intros rho Hr. repeat split; simpl.
  - intros e a. destruct a as [| |v s n]; simpl; try reflexivity. now rewrite Hr.
  - intros e b n xs. now rewrite map_length.
  - intros e v i m. now rewrite Hr.
Qed.

(* ---------- witnesses ---------- *)
Definition s_of (l : list N) : str := l.
Definition v_start := MkVar VConst (s_of [115;116;97;114;116]%N) (s_of [60;115;116;97;114;116;62]%N).
Definition v_x := MkVar VBound (s_of [120]%N) (s_of [60;105;62]%N).
Definition at_a : cform := FSmt (CEq v_start (s_of [97]%N) false).
Definition at_b : cform := FSmt (CEq v_start (s_of [98]%N) false).
Definition at_c : cform := FSmt (CEq v_start (s_of [99]%N) false).
Definition at_d : cform := FSmt (CEq v_start (s_of [100]%N) false).
Definition x_is_a : cform := FSmt (CEq v_x (s_of [97]%N) false).

(* ConjunctiveFormula(a, b | c, d): in NNF, constructible, 3 arguments *)
Definition w_nary : cform := FAnd [at_a; FOr [at_b; at_c]; at_d].
(* (forall x in start: a & (b|c) & d) & (c | d) *)
Definition w_inv_nary : cform := FAnd [FForall v_x (InVar v_start) None w_nary; FOr [at_c; at_d]].
(* (forall x in start: NegatedFormula(a & b)) & (c | d) *)
Definition w_inv_not_nnf : cform :=
  FAnd [FForall v_x (InVar v_start) None (FNot (FAnd [at_a; at_b])); FOr [at_c; at_d]].
(* forall x in start: forall x in x: x == "a"   (inner quantifier shadows the variable it ranges over) *)
Definition w_shadow : cform :=
  FForall v_x (InVar v_start) None (FForall v_x (InVar v_x) None x_is_a).

(* corpus: the witnesses of the repaired finding dnf-nary (commit 71bb9ab) now convert, and the
   conversion keeps the verdict (dnf_sound) *)
Lemma dnf_nary_corpus :
  arity_ok catom w_nary = true /\ K_dnf_not_nnf w_nary = false /\
  (exists g, Dnf cops true w_nary = Ok g /\ dsafe g = true) /\
  (exists g, Dnf cops false w_nary = Ok g) /\
  (exists l, Invariant cops w_inv_nary = Ok l /\ length l = 2).
Proof. vm_compute. repeat split; eexists; split; reflexivity || eauto. Qed.

Lemma invariant_not_nnf_witness :
  arity_ok catom w_inv_not_nnf = true /\ Invariant cops w_inv_not_nnf = Raise AssertErr.
Proof. split; vm_compute; reflexivity. Qed.

Lemma unique_shadow_witness :
  exists g u, Unique cops 20 w_shadow [] = Some (g, u) /\
    ev csem [(vname v_start, s_of [97;98]%N)] g <> ev csem [(vname v_start, s_of [97;98]%N)] w_shadow.
Proof. vm_compute. eexists. eexists. split; [reflexivity|]. discriminate. Qed.

(* non-vacuity of the guards *)
Example dsafe_example : dsafe (FAnd [at_a; FOr [at_b; FNot (FSPred (s_of [112]%N) [])]]) = true.
Proof. reflexivity. Qed.
Example bodies_safe_example :
  bodies_safe false (FAnd [FNot (FForall v_x (InVar v_start) None w_nary); FOr [at_c; at_d]]) = true.
Proof. reflexivity. Qed.
Example unique_example : exists g u,
  Unique cops_t 20 (FAnd [FForall v_x (InVar v_start) None x_is_a; FForall v_x (InVar v_start) None x_is_a]) [] = Some (g, u)
  /\ g <> FAnd [FForall v_x (InVar v_start) None x_is_a; FForall v_x (InVar v_start) None x_is_a].
Proof. vm_compute. eexists. eexists. split; [reflexivity|]. discriminate. Qed.

(* ---------- statements exported by Props/C09.v that need a few proof steps ---------- *)
Lemma invariant_refuted_not_nnf : exists f : cform,
  arity_ok catom f = true /\ Invariant cops f = Raise AssertErr.
Proof. exists w_inv_not_nnf. exact invariant_not_nnf_witness. Qed.

Lemma unique_shadow_refuted : atoms_sound cops csem /\
  exists (f g : cform) u e, Unique cops 20 f [] = Some (g, u) /\ ev csem e g <> ev csem e f.
Proof.
  split; [exact atoms_sound_csem|]. destruct unique_shadow_witness as [g [u [H1 H2]]].
  exists w_shadow, g, u. eexists. split; eassumption.
Qed.

Lemma unique_partial_nonvacuous :
  atoms_sound cops_t tsem /\ name_insensitive cops_t tsem /\
  exists g u, Unique cops_t 20 (FAnd [FForall v_x (InVar v_start) None x_is_a;
                                      FForall v_x (InVar v_start) None x_is_a]) [] = Some (g, u) /\
              g <> FAnd [FForall v_x (InVar v_start) None x_is_a; FForall v_x (InVar v_start) None x_is_a].
Proof. split; [exact atoms_sound_tsem|]. split; [exact name_insensitive_tsem | exact unique_example]. Qed.

(* class of finding unique-shadow: some quantifier re-binds a NAME bound in an enclosing scope *)
Fixpoint K_shadow {A} (bound : list str) (f : formula A) : bool :=
  match f with
  | FNot g => K_shadow bound g
  | FAnd fs | FOr fs => existsb (K_shadow bound) fs
  | FForall v _ m b | FExists v _ m b =>
      let own := map vname (q_bound v m) in
      existsb (fun n => mem_str n bound) own || K_shadow (own ++ bound) b
  | FForallInt v b | FExistsInt v b =>
      mem_str (vname v) bound || K_shadow (vname v :: bound) b
  | _ => false
  end.
Example K_shadow_example : K_shadow [] w_shadow = true /\ K_shadow [] w_inv_nary = false.
Proof. split; reflexivity. Qed.
