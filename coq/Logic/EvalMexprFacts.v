(* C03, proof extension: correctness of evaluate_legacy INCLUDING quantifiers with match
   expressions.  Builds on MatchFacts.py_match_spec (language.match = the specification's
   match on well-formed prefix trees).  Here: BindExpression.match (first matching prefix tree),
   matches_for_quantified_formula (leaf-coverage filter), the quantifier handler, and the
   induction over the formula ([eval_correct_mexpr]). *)
From Coq Require Import Lia ZArith Permutation.
From ISLA Require Import Semantics Eval EvalAtoms EvalFacts MatchFacts.

(* ------------------------------------------------------------------ *)
(* dictionaries                                                        *)
(* ------------------------------------------------------------------ *)
Lemma NoDup_app_intro {B} (l1 l2 : list B) :
  NoDup l1 -> NoDup l2 -> (forall x, In x l1 -> ~ In x l2) -> NoDup (l1 ++ l2).
Proof.
  induction l1 as [|x l1 IH]; simpl; intros H1 H2 H3; [assumption|].
  inversion H1 as [|? ? Hn Hd]; subst. constructor.
  - intro Hin. apply in_app_iff in Hin as [Hin|Hin]; [contradiction | apply (H3 x); auto].
  - apply IH; auto.
Qed.

Lemma fold_dict_set_fresh {B C} (g : var * C -> B) (mm : list (var * C)) : forall acc : list (var * B),
  NoDup (keys acc ++ map fst mm) ->
  fold_left (fun acc kv => dict_set acc (fst kv) (g kv)) mm acc = acc ++ map (fun kv => (fst kv, g kv)) mm.
Proof.
  induction mm as [|kv mm IH]; intros acc Hnd; simpl; [rewrite app_nil_r; reflexivity|].
  simpl in Hnd. rewrite dict_set_fresh.
  - rewrite IH; [rewrite <- app_assoc; reflexivity|].
    unfold keys in *. rewrite map_app, <- app_assoc. simpl. exact Hnd.
  - apply NoDup_remove_2 in Hnd. intro H. apply Hnd. apply in_or_app. left. exact H.
Qed.

Lemma dict_get_app {B} (l1 l2 : list (var * B)) w :
  dict_get (l1 ++ l2) w = match dict_get l1 w with Some x => Some x | None => dict_get l2 w end.
Proof.
  induction l1 as [|[k y] l1 IH]; simpl; [reflexivity|]. destruct (var_eqb k w); [reflexivity | exact IH].
Qed.

Lemma upd_pos_get (b0 : env) (tail : asg) w :
  upd_pos b0 (strip tail) w =
  match dict_get tail w with Some pt => Some (VPos (fst pt)) | None => b0 w end.
Proof.
  induction tail as [|[k [p s]] tail IH]; simpl; [reflexivity|].
  unfold upd. rewrite (var_eqb_sym w k). destruct (var_eqb k w); [reflexivity | exact IH].
Qed.

(* ------------------------------------------------------------------ *)
(* BindExpression.match: the first matching prefix tree                *)
(* ------------------------------------------------------------------ *)
Definition tp_ok (tp : tree * list (var * path)) : Prop :=
  has_closed_nt_leaf (fst tp) = false /\ mtree_okb (fst tp) (snd tp) = true /\ NoDup (map fst (snd tp)).

Lemma mtree_ok_nonempty m : forall P, mtree_okb m P = true -> P <> [].
Proof.
  induction m as [lm im om km IH] using tree_ind'. intros P Hok. destruct km as [|k0 km'].
  - simpl in Hok. destruct P; [discriminate | discriminate].
  - rewrite mtree_okb_inner, ok_go_cons in Hok. apply andb_true_iff in Hok as [_ Hok].
    apply andb_true_iff in Hok as [Hok _]. inversion IH as [|? ? H0 _]; subst.
    intros ->. apply (H0 (restrict [] 0) Hok). reflexivity.
Qed.

Lemma bind_match_spec trees s : Forall tp_ok trees -> regb s = true ->
  (bind_match trees s = Ok None /\ forall tp, In tp trees -> smatch (fst tp) s (snd tp) [] = None) \/
  (exists m P r, In (m, P) trees /\ smatch m s P [] = Some (strip r) /\
     bind_match trees s = Ok (Some r) /\ Forall (entry_ok s []) r /\ complete_match s [] r = true).
Proof.
  induction trees as [|[m P] rest IH]; intros HF Hreg.
  - left. split; [reflexivity | intros tp []].
  - inversion HF as [|? ? Htp HF']; subst. destruct Htp as (Hcl & Hok & Hnd). simpl in Hcl, Hok, Hnd.
    pose proof (py_match_spec m s P [] Hcl Hok Hnd Hreg) as Hm. unfold match_rel in Hm.
    simpl bind_match. destruct (smatch m s P []) as [bs|] eqn:Es.
    + destruct Hm as (r & Epy & Hstrip & Hent & Hcov). right. exists m, P, r. rewrite Epy.
      split; [left; reflexivity|]. split; [rewrite Hstrip; exact Es|].
      destruct r as [|x r']; [|auto].
      exfalso. simpl in Hstrip. subst bs. apply (smatch_perm m s P [] [] Hok) in Es.
      apply Permutation_nil in Es. apply (mtree_ok_nonempty m P Hok).
      unfold shift in Es. destruct P; [reflexivity | discriminate].
    + rewrite Hm. destruct (IH HF' Hreg) as [[E Hn]|(m' & P' & r & Hin & Hs & E & Hent & Hcov)].
      * left. split; [exact E|]. intros tp [<-|Hin]; [exact Es | auto].
      * right. exists m', P', r. split; [right; exact Hin|]. auto.
Qed.

Lemma tp_ok_of trees tp : Forall tp_ok trees -> In tp trees ->
  has_closed_nt_leaf (fst tp) = false /\ mtree_okb (fst tp) (snd tp) = true /\ NoDup (map fst (snd tp)).
Proof. intros HF Hin. rewrite Forall_forall in HF. exact (HF tp Hin). Qed.

(* ------------------------------------------------------------------ *)
(* matches_for_quantified_formula                                      *)
(* ------------------------------------------------------------------ *)
Definition mk_na (v : var) (x : path * tree * asg) : asg :=
  (v, fst x) :: map (fun kv => (fst kv, (fst (fst x) ++ fst (snd kv), snd (snd kv)))) (snd x).

Lemma mexpr_matches_cons v me p s l' :
  mexpr_matches v me ((p, s) :: l') =
  if str_eqb (lbl s) (vtype v) then
    match bind_match (me_trees me) s with
    | Raise e => Raise e
    | Ok None => mexpr_matches v me l'
    | Ok (Some mm) =>
        match mexpr_matches v me l' with
        | Raise e => Raise e
        | Ok rest =>
            Ok (if complete_match s [] mm
                then fold_left (fun acc kv => dict_set acc (fst kv) (p ++ fst (snd kv), snd (snd kv)))
                               mm [(v, (p, s))] :: rest
                else rest)
        end
    end
  else mexpr_matches v me l'.
Proof. reflexivity. Qed.

Lemma mexpr_matches_spec v me : Forall tp_ok (me_trees me) ->
  (forall tp, In tp (me_trees me) -> ~ In v (map fst (snd tp))) ->
  forall l, (forall p s, In (p, s) l -> regb s = true) ->
  exists insts : list (path * tree * asg),
    mexpr_matches v me l = Ok (map (mk_na v) insts) /\
    (forall p s r, In (p, s, r) insts -> In (p, s) l /\ lbl s = vtype v /\
        exists m P, In (m, P) (me_trees me) /\ smatch m s P [] = Some (strip r) /\
                    Forall (entry_ok s []) r) /\
    (forall p s tp bs, In (p, s) l -> lbl s = vtype v -> In tp (me_trees me) ->
        smatch (fst tp) s (snd tp) [] = Some bs -> exists r, In (p, s, r) insts).
Proof.
  intros HF Hv l. induction l as [|[p s] l IH]; intro Hreg.
  - exists []. split; [reflexivity|]. split; [intros p s r [] | intros p s tp bs []].
  - destruct IH as (insts & Em & H1 & H2); [intros p' s' Hin; apply (Hreg p' s'); right; exact Hin|].
    rewrite mexpr_matches_cons. destruct (str_eqb (lbl s) (vtype v)) eqn:El.
    + apply str_eqb_eq in El.
      destruct (bind_match_spec (me_trees me) s HF (Hreg p s (or_introl eq_refl)))
        as [[E Hn]|(m & P & r & Hin & Hs & E & Hent & Hcov)]; rewrite E.
      * exists insts. split; [exact Em|]. split.
        -- intros p' s' r Hi. destruct (H1 p' s' r Hi) as (Ha & Hb). split; [right; exact Ha | exact Hb].
        -- intros p' s' tp bs [Hi|Hi] Hl Htp Hsm; [|eapply H2; eassumption].
           inversion Hi; subst p' s'. rewrite (Hn tp Htp) in Hsm. discriminate.
      * rewrite Em, Hcov. exists ((p, s, r) :: insts). split.
        -- simpl map. f_equal. f_equal. unfold mk_na. simpl fst. simpl snd.
           rewrite (fold_dict_set_fresh (fun kv : var * (path * tree) => (p ++ fst (snd kv), snd (snd kv)))).
           ++ reflexivity.
           ++ simpl. constructor.
              ** intro Hi. apply (Hv (m, P) Hin). simpl.
                 apply (Permutation_in (l := map fst (strip r))); [|rewrite map_fst_strip; exact Hi].
                 destruct (tp_ok_of _ _ HF Hin) as (_ & Hok & _).
                 eapply smatch_keys; eassumption.
              ** destruct (tp_ok_of _ _ HF Hin) as (_ & Hok & Hnd).
                 rewrite <- map_fst_strip.
                 apply (Permutation_NoDup (l := map fst P)); [|exact Hnd].
                 apply Permutation_sym. eapply smatch_keys; eassumption.
        -- split.
           ++ intros p' s' r' [Hi|Hi].
              ** inversion Hi; subst p' s' r'. split; [left; reflexivity|]. split; [exact El|].
                 exists m, P. auto.
              ** destruct (H1 p' s' r' Hi) as (Ha & Hb). split; [right; exact Ha | exact Hb].
           ++ intros p' s' tp bs [Hi|Hi] Hl Htp Hsm.
              ** inversion Hi; subst p' s'. exists r. left. reflexivity.
              ** destruct (H2 p' s' tp bs Hi Hl Htp Hsm) as (r' & Hr'). exists r'. right. exact Hr'.
    + exists insts. split; [exact Em|]. split.
      * intros p' s' r Hi. destruct (H1 p' s' r Hi) as (Ha & Hb). split; [right; exact Ha | exact Hb].
      * intros p' s' tp bs [Hi|Hi] Hl Htp Hsm; [|eapply H2; eassumption].
        inversion Hi; subst p' s'. apply str_eqb_eq in Hl. congruence.
Qed.

(* ------------------------------------------------------------------ *)
(* correctness of evaluate_legacy with match expressions               *)
(* ------------------------------------------------------------------ *)
Section CorrectM.
  Variable A : Type.
  Variable afree : A -> list var.
  Variable aopen : A -> bool.
  Variable aeval : A -> asg -> res TV.
  Variable qmm : var -> path -> option mexpr -> asg -> path -> bool.
  Variable reach : str -> str -> bool.
  Variable count_open : tree -> str -> Z -> res TV.
  Variable adenote : A -> (var -> option tree) -> Prop.
  Variable ref : tree.

  Hypothesis Hshape : shape_ok ref = true.
  Hypothesis Hclosed : is_openT ref = false.
  Hypothesis Huniq : uniq_ids ref.
  Hypothesis Hnarrow : narrow ref.
  (* nodes labelled with a terminal have no children (true of every derivation tree) *)
  Hypothesis Hterm : term_leavesb ref = true.
  Hypothesis Hatom : forall x a b, inv ref a b -> (forall v, In v (afree x) -> In v (keys a)) -> aopen x = false ->
      (aeval x a = Ok TT /\ adenote x (tenv ref b)) \/ (aeval x a = Ok FF /\ ~ adenote x (tenv ref b)).

  Notation ev := (eval_legacy A afree aopen aeval qmm reach count_open ref).

  (* Step (2): at most one prefix tree of the match expression matches a node of the
     reference tree — or all that match bind the same positions. *)
  Definition mexpr_unambiguous (me : mexpr) : Prop :=
    forall q s tp1 tp2 bs1 bs2, subtree ref q = Some s ->
      In tp1 (me_trees me) -> In tp2 (me_trees me) ->
      smatch (fst tp1) s (snd tp1) q = Some bs1 -> smatch (fst tp2) s (snd tp2) q = Some bs2 ->
      bs1 = bs2.

  (* Steps (1),(3): a prefix tree with its variable paths is well-formed, has no closed
     nonterminal leaf (class K_mexpr_eps_shape), and its variables have pairwise distinct names
     that differ from the quantified variable's name and from every name in scope. *)
  Definition mexpr_tree_ok (v : var) (dom : list var) (tp : tree * list (var * path)) : Prop :=
    has_closed_nt_leaf (fst tp) = false /\ mtree_okb (fst tp) (snd tp) = true /\
    NoDup (map vname (v :: map fst (snd tp))) /\
    (forall w, In w (map fst (snd tp)) -> fresh_name w dom).

  Fixpoint wfm (dom : list var) (f : formula A) {struct f} : Prop :=
    match f with
    | FSmt x => (forall v, In v (afree x) -> In v dom) /\ aopen x = false
    | FSPred n args => spred_wf ref dom n args
    | FSemPred n args => sempred_wf ref dom n args
    | FNot g => wfm dom g
    | FAnd fs | FOr fs =>
        (fix all (l : list (formula A)) : Prop :=
           match l with [] => True | x :: l' => wfm dom x /\ all l' end) fs
    | FForall v i m body | FExists v i m body =>
        in_wf ref dom i /\ fresh_name v dom /\
        match m with
        | None => wfm (v :: dom) body
        | Some me =>
            mexpr_unambiguous me /\
            forall tp, In tp (me_trees me) ->
              mexpr_tree_ok v dom tp /\ wfm (v :: map fst (snd tp) ++ dom) body
        end
    | FForallInt _ _ | FExistsInt _ _ => False
    end.

  (* wfm depends on the scope only as a set *)
  Lemma arg_wf_ext d1 d2 x : (forall w, In w d1 <-> In w d2) -> arg_wf ref d1 x -> arg_wf ref d2 x.
  Proof. intros He. destruct x as [v|s|t]; simpl; auto. apply He. Qed.

  Lemma spred_wf_ext d1 d2 n args : (forall w, In w d1 <-> In w d2) ->
    spred_wf ref d1 n args -> spred_wf ref d2 n args.
  Proof.
    intros He. pose proof (fun x => arg_wf_ext d1 d2 x He) as Ha. unfold spred_wf.
    destruct args as [|a0 [|a1 [|a2 [|a3 [|a4 r]]]]]; auto.
    - intros (H1 & H2 & H3). repeat split; auto.
    - destruct a0; auto. intros (H1 & H2 & H3 & H4 & H5). repeat split; auto.
    - destruct a0; auto. destruct a1; auto. intros (H1 & H2 & H3 & H4). repeat split; auto.
  Qed.

  Lemma sempred_wf_ext d1 d2 n args : (forall w, In w d1 <-> In w d2) ->
    sempred_wf ref d1 n args -> sempred_wf ref d2 n args.
  Proof.
    intros He. pose proof (fun x => arg_wf_ext d1 d2 x He) as Ha. unfold sempred_wf.
    destruct args as [|x [|y [|z [|w r]]]]; auto. destruct y; auto. destruct z; auto.
    intros (H1 & H2 & H3). repeat split; auto.
  Qed.

  Lemma ext_cons (d1 d2 pre : list var) : (forall w, In w d1 <-> In w d2) ->
    forall w, In w (pre ++ d1) <-> In w (pre ++ d2).
  Proof. intros He w. rewrite !in_app_iff, He. tauto. Qed.

  Lemma wfm_ext f : forall d1 d2, (forall w, In w d1 <-> In w d2) -> wfm d1 f -> wfm d2 f.
  Proof.
    induction f as [x|n args|n args|g IH|fs IH|fs IH|v i m body IH|v i m body IH|v body IH|v body IH]
      using formula_ind'; intros d1 d2 He Hwf; simpl in *; try contradiction.
    - destruct Hwf as [H1 H2]. split; [|assumption]. intros v Hv. apply He. auto.
    - eapply spred_wf_ext; eassumption.
    - eapply sempred_wf_ext; eassumption.
    - eapply IH; eassumption.
    - induction IH as [|x l Hx Hl IHl]; [exact I|]. destruct Hwf as [H1 H2]. split; [eapply Hx; eassumption | apply IHl; assumption].
    - induction IH as [|x l Hx Hl IHl]; [exact I|]. destruct Hwf as [H1 H2]. split; [eapply Hx; eassumption | apply IHl; assumption].
    - destruct Hwf as (Hi & Hfr & Hm). split; [|split].
      + destruct i; simpl in *; [apply He; assumption | assumption].
      + intros w Hw. apply Hfr. apply He. assumption.
      + destruct m as [me|].
        * destruct Hm as [Hun Htp]. split; [assumption|]. intros tp Hin. destruct (Htp tp Hin) as [(H1 & H2 & H3 & H4) H5].
          split; [split; [assumption|]; split; [assumption|]; split; [assumption|];
                  intros w Hw u Hu; apply (H4 w Hw); apply He; assumption|].
          eapply IH; [|exact H5]. apply (ext_cons d1 d2 (v :: map fst (snd tp)) He).
        * eapply IH; [|exact Hm]. apply (ext_cons d1 d2 [v] He).
    - destruct Hwf as (Hi & Hfr & Hm). split; [|split].
      + destruct i; simpl in *; [apply He; assumption | assumption].
      + intros w Hw. apply Hfr. apply He. assumption.
      + destruct m as [me|].
        * destruct Hm as [Hun Htp]. split; [assumption|]. intros tp Hin. destruct (Htp tp Hin) as [(H1 & H2 & H3 & H4) H5].
          split; [split; [assumption|]; split; [assumption|]; split; [assumption|];
                  intros w Hw u Hu; apply (H4 w Hw); apply He; assumption|].
          eapply IH; [|exact H5]. apply (ext_cons d1 d2 (v :: map fst (snd tp)) He).
        * eapply IH; [|exact Hm]. apply (ext_cons d1 d2 [v] He).
  Qed.

  (* the fragment without match expressions is included *)
  Lemma wf_wfm f : forall dom, wf A afree aopen ref dom f -> wfm dom f.
  Proof.
    induction f as [x|n args|n args|g IH|fs IH|fs IH|v i m body IH|v i m body IH|v body IH|v body IH]
      using formula_ind'; intros dom Hwf; simpl in *; try contradiction; auto.
    - induction IH as [|x l Hx Hl IHl]; [exact I|]. destruct Hwf as [H1 H2]. split; [apply Hx; assumption | apply IHl; assumption].
    - induction IH as [|x l Hx Hl IHl]; [exact I|]. destruct Hwf as [H1 H2]. split; [apply Hx; assumption | apply IHl; assumption].
    - destruct Hwf as (-> & Hi & Hfr & Hb). auto.
    - destruct Hwf as (-> & Hi & Hfr & Hb). auto.
  Qed.

  (* ---- the quantifier domain, relative to the `in` tree ---- *)
  Lemma regb_ref : regb ref = true.
  Proof. apply regb_of; assumption. Qed.

  Lemma find_root : find_by_id ref ref = Some ([], ref).
  Proof.
    unfold find_by_id. destruct ref as [l i o ks]. rewrite nodes_unfold. simpl.
    rewrite N.eqb_refl. reflexivity.
  Qed.

  Lemma pos_root p : pos_of ref ref p <-> p = [].
  Proof.
    split.
    - intros (s & Hs & Hid). apply nodes_spec in Hs.
      assert (Hr : In ([], ref) (nodes ref)) by (apply nodes_spec; reflexivity).
      assert (E : (p, s) = ([], ref)).
      { eapply (NoDup_map_eq (fun ps : path * tree => tid (snd ps))); [exact Huniq | exact Hs | exact Hr | exact Hid]. }
      inversion E. reflexivity.
    - intros ->. exists ref. split; reflexivity.
  Qed.

  Lemma in_resolve2 a b i : inv ref a b -> in_wf ref (keys a) i ->
    exists p0 s0, (match i with
                   | InTree t => match find_by_id ref t with Some ps => Ok ps | None => Raise StopIter end
                   | InVar w => match dict_get a w with Some pt => Ok pt | None => Raise AssertErr end
                   end) = Ok (p0, s0) /\
                  (forall p', in_pos ref b i p' <-> p' = p0) /\ subtree ref p0 = Some s0.
  Proof.
    intros Hinv Hwf. destruct i as [w|t]; simpl in Hwf.
    - destruct (inv_in_keys ref a b w Hinv Hwf) as (p & s & Hg).
      destruct (inv_get ref a b w p s Hinv Hg) as (Hs & _ & Hb).
      exists p, s. rewrite Hg. split; [reflexivity|]. split; [|assumption]. simpl. intro p'. rewrite Hb. split.
      + intro H. inversion H. reflexivity.
      + intros ->. reflexivity.
    - subst t. exists [], ref. rewrite find_root. split; [reflexivity|]. split; [|reflexivity].
      simpl. apply pos_root.
  Qed.

  Lemma mdom_spec b i p0 s0 T :
    (forall p', in_pos ref b i p' <-> p' = p0) -> subtree ref p0 = Some s0 ->
    (forall p s, In (p, s) (nodes s0) -> lbl s = T ->
        in_dom ref b i T (p0 ++ p) /\ subtree ref (p0 ++ p) = Some s) /\
    (forall q s, in_dom ref b i T q -> subtree ref q = Some s ->
        exists p, q = p0 ++ p /\ In (p, s) (nodes s0) /\ lbl s = T).
  Proof.
    intros Hu Hs0. split.
    - intros p s Hin Hl. apply nodes_spec in Hin.
      assert (Hs : subtree ref (p0 ++ p) = Some s) by (rewrite subtree_app, Hs0; exact Hin).
      split; [|exact Hs]. exists p0, s. split; [apply Hu; reflexivity|].
      split; [exists p; reflexivity|]. auto.
    - intros q s (p0' & s' & Hi & [p Hp] & Hs' & Hl) Hs. apply Hu in Hi. subst p0' q.
      rewrite Hs in Hs'. inversion Hs'; subst s'. exists p. split; [reflexivity|]. split; [|assumption].
      apply nodes_spec. rewrite subtree_app, Hs0 in Hs. exact Hs.
  Qed.

  (* ---- extending the invariant by the bindings of a match ---- *)
  Definition entry_valid (kv : var * (path * tree)) : Prop :=
    subtree ref (fst (snd kv)) = Some (snd (snd kv)) /\ lbl (snd (snd kv)) = vtype (fst kv).

  Lemma names_keys (a : asg) : map (fun kv : var * (path * tree) => vname (fst kv)) a = map vname (keys a).
  Proof. unfold keys. rewrite map_map. reflexivity. Qed.

  Lemma inv_extend_match a b v q s (tail : asg) : inv ref a b ->
    NoDup (map vname (v :: keys tail)) -> fresh_name v (keys a) ->
    (forall w, In w (keys tail) -> fresh_name w (keys a)) ->
    subtree ref q = Some s -> lbl s = vtype v -> Forall entry_valid tail ->
    inv ref ((v, (q, s)) :: tail ++ a) (upd_pos (upd b v (VPos q)) (strip tail)).
  Proof.
    intros (Hn & Hb & Hf) Hnd Hfv Hft Hs Hl Hval. split; [|split].
    - rewrite names_keys. change (keys ((v, (q, s)) :: tail ++ a)) with (v :: keys (tail ++ a)).
      unfold keys at 1. rewrite map_app. fold (keys tail). fold (keys a).
      change (NoDup (map vname ((v :: keys tail) ++ keys a))). rewrite map_app.
      apply NoDup_app_intro; [exact Hnd | rewrite <- names_keys; exact Hn|].
      intros x Hx Hx'. apply in_map_iff in Hx as (w & <- & Hw). apply in_map_iff in Hx' as (u & Hu & Hu').
      destruct Hw as [<-|Hw]; [apply (Hfv u Hu' Hu) | apply (Hft w Hw u Hu' Hu)].
    - intro w. rewrite upd_pos_get.
      assert (Hvt : dict_get tail v = None).
      { apply dict_get_None. intro Hin. simpl in Hnd. inversion Hnd as [|? ? Hn' _]; subst.
        apply Hn'. apply in_map. exact Hin. }
      cbn [dict_get]. destruct (var_eqb v w) eqn:E.
      + apply var_eqb_eq in E. subst w. rewrite Hvt. unfold upd. rewrite var_eqb_refl. reflexivity.
      + rewrite dict_get_app. destruct (dict_get tail w) as [pt|]; [reflexivity|].
        unfold upd. rewrite var_eqb_sym, E. apply Hb.
    - constructor; [split; simpl; assumption|]. apply Forall_app. split; assumption.
  Qed.

  (* the dictionary built for one match instance and the specification's assignment *)
  Definition full_na (v : var) (p0 : path) (x : path * tree * asg) : asg :=
    map (fun kv : var * (path * tree) => (fst kv, (p0 ++ fst (snd kv), snd (snd kv)))) (mk_na v x).
  Definition tail_na (p0 : path) (x : path * tree * asg) : asg :=
    map (fun kv : var * (path * tree) => (fst kv, ((p0 ++ fst (fst x)) ++ fst (snd kv), snd (snd kv)))) (snd x).

  Arguments full_na : simpl never.
  Arguments tail_na : simpl never.

  Lemma full_na_eq v p0 x : full_na v p0 x = (v, (p0 ++ fst (fst x), snd (fst x))) :: tail_na p0 x.
  Proof.
    destruct x as [[p s] r]. unfold full_na, tail_na, mk_na. simpl. f_equal.
    rewrite map_map. apply map_ext. intros [w [rel sub]]. simpl. rewrite app_assoc. reflexivity.
  Qed.

  Lemma keys_tail_na p0 x : keys (tail_na p0 x) = keys (snd x).
  Proof. unfold tail_na, keys. rewrite map_map. reflexivity. Qed.

  Lemma strip_tail_na p0 x : strip (tail_na p0 x) = shift (p0 ++ fst (fst x)) (strip (snd x)).
  Proof. unfold tail_na, strip, shift. rewrite !map_map. reflexivity. Qed.

  Lemma quant_correct_mexpr (is_forall : bool) v i me body a b :
    inv ref a b -> in_wf ref (keys a) i -> fresh_name v (keys a) ->
    mexpr_unambiguous me ->
    (forall tp, In tp (me_trees me) -> mexpr_tree_ok v (keys a) tp) ->
    (forall tp a' b', In tp (me_trees me) -> inv ref a' b' ->
        (forall w, In w (keys a') <-> In w (v :: map fst (snd tp) ++ keys a)) ->
        (ev body a' = Ok TT /\ models adenote ref b' body) \/
        (ev body a' = Ok FF /\ ~ models adenote ref b' body)) ->
    let r := eval_quant qmm ref is_forall v i (Some me) (fun a' => ev body a') a in
    let Phi := models adenote ref b (if is_forall then FForall v i (Some me) body
                                                  else FExists v i (Some me) body) in
    (r = Ok TT /\ Phi) \/ (r = Ok FF /\ ~ Phi).
  Proof.
    intros Hinv Hi Hfr Hun Htp IH r Phi.
    destruct (in_resolve2 a b i Hinv Hi) as (p0 & s0 & Hres & Hu & Hs0).
    destruct (mdom_spec b i p0 s0 (vtype v) Hu Hs0) as [Hd1 Hd2].
    assert (HF : Forall tp_ok (me_trees me)).
    { apply Forall_forall. intros tp Hin. destruct (Htp tp Hin) as (H1 & H2 & H3 & _).
      split; [assumption|]. split; [assumption|]. simpl in H3. inversion H3 as [|? ? _ H4]; subst.
      eapply NoDup_map_inv. exact H4. }
    assert (Hv : forall tp, In tp (me_trees me) -> ~ In v (map fst (snd tp))).
    { intros tp Hin Hvin. destruct (Htp tp Hin) as (_ & _ & H3 & _). simpl in H3.
      inversion H3 as [|? ? Hn _]; subst. apply Hn. apply in_map. exact Hvin. }
    destruct (mexpr_matches_spec v me HF Hv (nodes s0)) as (insts & Em & H1 & H2).
    { intros p s Hin. apply nodes_spec in Hin. apply (regb_subtree ref (p0 ++ p)); [apply regb_ref|].
      rewrite subtree_app, Hs0. exact Hin. }
    (* facts about one instance *)
    assert (Hinst : forall x, In x insts ->
              let q := p0 ++ fst (fst x) in
              exists m P, In (m, P) (me_trees me) /\
                in_dom ref b i (vtype v) q /\ subtree ref q = Some (snd (fst x)) /\
                smatch m (snd (fst x)) P q = Some (strip (tail_na p0 x)) /\
                Permutation (keys (snd x)) (map fst P) /\
                inv ref (full_na v p0 x ++ a) (upd_pos (upd b v (VPos q)) (strip (tail_na p0 x))) /\
                dict_union (full_na v p0 x) a = full_na v p0 x ++ a).
    { intros [[p s] rr] Hin q. simpl in q.
      destruct (H1 p s rr Hin) as (Hnode & Hl & m & P & HinP & Hsm & Hent).
      destruct (Hd1 p s Hnode Hl) as [Hdom Hsub].
      destruct (Htp (m, P) HinP) as (Hcl & Hok & Hnames & Hfresh). simpl in Hcl, Hok, Hnames, Hfresh.
      assert (Hperm : Permutation (keys rr) (map fst P)).
      { unfold keys. rewrite <- map_fst_strip. eapply smatch_keys; eassumption. }
      exists m, P. split; [assumption|]. split; [assumption|]. split; [assumption|].
      split; [rewrite strip_tail_na, smatch_at; simpl; rewrite Hsm; reflexivity|].
      split; [assumption|].
      assert (Hnd : NoDup (map vname (v :: keys (tail_na p0 (p, s, rr))))).
      { rewrite keys_tail_na. simpl snd. eapply Permutation_NoDup; [|exact Hnames].
        apply Permutation_sym. simpl. apply perm_skip. apply Permutation_map. exact Hperm. }
      assert (Hft : forall w, In w (keys (tail_na p0 (p, s, rr))) -> fresh_name w (keys a)).
      { intros w Hw. rewrite keys_tail_na in Hw. simpl in Hw. apply Hfresh.
        eapply Permutation_in; eassumption. }
      rewrite full_na_eq. simpl fst. simpl snd. split.
      - apply inv_extend_match; try assumption.
        unfold tail_na. simpl. apply Forall_forall. intros kv Hkv.
        apply in_map_iff in Hkv as ([w [rel sub]] & <- & Hkv).
        rewrite Forall_forall in Hent. destruct (Hent _ Hkv) as (rel' & Hp & Hsub' & Hl').
        simpl in *. subst rel. split; [|assumption]. simpl. rewrite subtree_app, Hsub. exact Hsub'.
      - apply dict_union_fresh; [eapply inv_keys_nodup; eassumption|].
        intros w Hw Hwa. change (keys ((v, (p0 ++ p, s)) :: tail_na p0 (p, s, rr))) with (v :: keys (tail_na p0 (p, s, rr))) in Hw.
        destruct Hw as [<-|Hw]; [apply (Hfr v Hwa); reflexivity | apply (Hft w Hw w Hwa); reflexivity]. }
    set (Pr := fun x : path * tree * asg =>
                 models adenote ref (upd_pos (upd b v (VPos (p0 ++ fst (fst x)))) (strip (tail_na p0 x))) body).
    destruct (collect_decided (fun x => ev body (full_na v p0 x ++ a)) Pr insts) as (l & Hl & Hall & Hany).
    { intros x Hx. destruct (Hinst x Hx) as (m & P & HinP & _ & _ & _ & Hperm & Hinv' & _).
      apply (IH (m, P)); [assumption | assumption|].
      intro w. unfold keys. rewrite map_app. fold (keys a). rewrite full_na_eq. simpl.
      fold (keys (tail_na p0 x)). rewrite keys_tail_na, !in_app_iff.
      split; (intros [Hw|[Hw|Hw]]; [left; assumption | right; left | right; right; assumption]).
      - eapply Permutation_in; eassumption.
      - eapply Permutation_in; [apply Permutation_sym|]; eassumption. }
    assert (Hr : r = if is_forall then Ok (tv_all l) else Ok (tv_any l)).
    { unfold r, eval_quant. rewrite Hres, Em.
      assert (Hnews : map (fun na : asg => dict_union na a)
                        (map (map (fun kv : var * (path * tree) => (fst kv, (p0 ++ fst (snd kv), snd (snd kv)))))
                             (map (mk_na v) insts))
                      = map (fun x => full_na v p0 x ++ a) insts).
      { rewrite !map_map. apply map_ext_in. intros x Hx. fold (full_na v p0 x).
        destruct (Hinst x Hx) as (m & P & _ & _ & _ & _ & _ & _ & Hdu). exact Hdu. }
      assert (Hok : forallb (asg_ok ref) (map (fun x => full_na v p0 x ++ a) insts) = true).
      { apply forallb_forall. intros y Hy. apply in_map_iff in Hy as (x & <- & Hx).
        destruct (Hinst x Hx) as (m & P & _ & _ & _ & _ & _ & Hinv' & _).
        eapply asg_ok_inv; eassumption. }
      pose proof (open_leaves_nil ref Hclosed) as Hopen.
      unfold asg, path in *. rewrite Hnews, Hok, Hopen. cbn [negb existsb]. rewrite map_map, Hl.
      destruct is_forall; [reflexivity|]. rewrite andb_false_r. reflexivity. }
    (* the specification's quantification = quantification over the instances *)
    assert (HallQ : Forall Pr insts <-> models adenote ref b (FForall v i (Some me) body)).
    { simpl. rewrite Forall_forall. split.
      - intros H q s t2 P bs Hdom Hsub HinP Hsm.
        destruct (Hd2 q s Hdom Hsub) as (p & -> & Hnode & Hlbl).
        pose proof Hsm as Hsm0. rewrite smatch_at in Hsm0.
        destruct (smatch t2 s P []) as [bs0|] eqn:E0; [|discriminate].
        destruct (H2 p s (t2, P) bs0 Hnode Hlbl HinP E0) as (rr & Hx).
        destruct (Hinst _ Hx) as (m' & P' & HinP' & _ & _ & Hsm' & _). simpl in Hsm'.
        assert (Hbs : bs = strip (tail_na p0 (p, s, rr))).
        { eapply (Hun (p0 ++ p) s (t2, P) (m', P')); eassumption. }
        subst bs. exact (H _ Hx).
      - intros H x Hx. destruct (Hinst x Hx) as (m & P & HinP & Hdom & Hsub & Hsm & _).
        unfold Pr. eapply H; eassumption. }
    assert (HanyQ : Exists Pr insts <-> models adenote ref b (FExists v i (Some me) body)).
    { simpl. rewrite Exists_exists. split.
      - intros (x & Hx & H). destruct (Hinst x Hx) as (m & P & HinP & Hdom & Hsub & Hsm & _).
        exists (p0 ++ fst (fst x)), (snd (fst x)), m, P, (strip (tail_na p0 x)). auto.
      - intros (q & s & t2 & P & bs & Hdom & Hsub & HinP & Hsm & H).
        destruct (Hd2 q s Hdom Hsub) as (p & -> & Hnode & Hlbl).
        pose proof Hsm as Hsm0. rewrite smatch_at in Hsm0.
        destruct (smatch t2 s P []) as [bs0|] eqn:E0; [|discriminate].
        destruct (H2 p s (t2, P) bs0 Hnode Hlbl HinP E0) as (rr & Hx).
        destruct (Hinst _ Hx) as (m' & P' & HinP' & _ & _ & Hsm' & _). simpl in Hsm'.
        assert (Hbs : bs = strip (tail_na p0 (p, s, rr))).
        { eapply (Hun (p0 ++ p) s (t2, P) (m', P')); eassumption. }
        subst bs. exists (p, s, rr). split; [assumption | exact H]. }
    rewrite Hr. unfold Phi. destruct is_forall.
    - rewrite <- HallQ. destruct Hall as [[-> H]|[-> H]]; [left | right]; auto.
    - rewrite <- HanyQ. destruct Hany as [[-> H]|[-> H]]; [left | right]; auto.
  Qed.

  (* ---- the main theorem, match expressions included ---- *)
  Theorem eval_correct_mexpr f : forall a b, inv ref a b -> wfm (keys a) f ->
    (ev f a = Ok TT /\ models adenote ref b f) \/ (ev f a = Ok FF /\ ~ models adenote ref b f).
  Proof.
    induction f as [x|n args|n args|g IH|fs IH|fs IH|v i m body IH|v i m body IH|v body IH|v body IH]
      using formula_ind'; intros a b Hinv Hwf; simpl in Hwf; try contradiction.
    - destruct Hwf as [Hfv Hop]. simpl. rewrite (afree_assigned A afree a x Hfv), Hop. simpl.
      apply Hatom; assumption.
    - simpl. eapply spred_correct; eassumption.
    - simpl. eapply sempred_correct; eassumption.
    - simpl. destruct (IH a b Hinv Hwf) as [[-> H]|[-> H]]; simpl; [right | left]; auto.
    - simpl.
      destruct (collect_decided (fun g => ev g a) (fun g => models adenote ref b g) fs) as (l & Hl & Hall & _).
      { intros g Hin. rewrite Forall_forall in IH. apply IH; [assumption | assumption|].
        clear - Hwf Hin. induction fs as [|x fs IHfs]; [contradiction|]. destruct Hwf as [Hx Hr].
        destruct Hin as [->|Hin]; auto. }
      rewrite Hl.
      assert (E : (fix all (l0 : list (formula A)) : Prop :=
                     match l0 with [] => True | x :: l' => models adenote ref b x /\ all l' end) fs
                  <-> Forall (fun g => models adenote ref b g) fs).
      { clear. induction fs as [|x fs IHfs]; [split; constructor|]. rewrite IHfs. split.
        - intros [H1 H2]. constructor; assumption.
        - intro H. inversion H. auto. }
      rewrite E. destruct Hall as [[-> H]|[-> H]]; [left | right]; auto.
    - simpl.
      destruct (collect_decided (fun g => ev g a) (fun g => models adenote ref b g) fs) as (l & Hl & _ & Hany).
      { intros g Hin. rewrite Forall_forall in IH. apply IH; [assumption | assumption|].
        clear - Hwf Hin. induction fs as [|x fs IHfs]; [contradiction|]. destruct Hwf as [Hx Hr].
        destruct Hin as [->|Hin]; auto. }
      rewrite Hl.
      assert (E : (fix any (l0 : list (formula A)) : Prop :=
                     match l0 with [] => False | x :: l' => models adenote ref b x \/ any l' end) fs
                  <-> Exists (fun g => models adenote ref b g) fs).
      { clear. induction fs as [|x fs IHfs]; [split; [contradiction | intro H; inversion H]|]. rewrite IHfs. split.
        - intros [H|H]; [apply Exists_cons_hd | apply Exists_cons_tl]; assumption.
        - intro H. inversion H; auto. }
      rewrite E. destruct Hany as [[-> H]|[-> H]]; [left | right]; auto.
    - destruct Hwf as (Hi & Hfr & Hm). destruct m as [me|].
      + destruct Hm as [Hun Htp].
        apply (quant_correct_mexpr true v i me body a b Hinv Hi Hfr Hun (fun tp Hin => proj1 (Htp tp Hin))).
        intros tp a' b' Hin Hinv' Hk. apply IH; [assumption|].
        eapply wfm_ext; [|exact (proj2 (Htp tp Hin))]. intro w. symmetry. apply Hk.
      + simpl.
        eapply (quant_correct A afree aopen aeval qmm reach count_open adenote ref) with (is_forall := true); try eassumption.
        intros a' b' Hinv' Hk. apply IH; [assumption|]. rewrite Hk. assumption.
    - destruct Hwf as (Hi & Hfr & Hm). destruct m as [me|].
      + destruct Hm as [Hun Htp].
        apply (quant_correct_mexpr false v i me body a b Hinv Hi Hfr Hun (fun tp Hin => proj1 (Htp tp Hin))).
        intros tp a' b' Hin Hinv' Hk. apply IH; [assumption|].
        eapply wfm_ext; [|exact (proj2 (Htp tp Hin))]. intro w. symmetry. apply Hk.
      + simpl.
        eapply (quant_correct A afree aopen aeval qmm reach count_open adenote ref) with (is_forall := false); try eassumption.
        intros a' b' Hinv' Hk. apply IH; [assumption|]. rewrite Hk. assumption.
  Qed.

  Corollary eval_correct_mexpr_top f : wfm [] f ->
    (ev f [] = Ok TT <-> models adenote ref env_empty f) /\
    (ev f [] = Ok FF <-> ~ models adenote ref env_empty f) /\
    ev f [] <> Ok UU /\ (forall e, ev f [] <> Raise e).
  Proof.
    intro Hwf. destruct (eval_correct_mexpr f [] env_empty (inv_empty ref) Hwf) as [[E H]|[E H]]; rewrite E.
    - repeat split; try tauto; try discriminate; try (intros; discriminate).
    - repeat split; try tauto; try discriminate; try (intros; discriminate).
  Qed.
End CorrectM.
