(* C08 wave 4 — facts about the fresh-name machinery of Logic/Sugar.v (fresh_variable / fresh_vars):
   `dec` is injective below 10^20 (the model's digit fuel), `first_free` returns a name that is not used,
   strip_idx undoes with_idx, and the specification of fresh_vars (which variables are kept, which are renamed,
   the new names are pairwise different and not in the used set). *)
From Coq Require Import List NArith Bool Arith Lia FinFun.
Import ListNotations.
From ISLA Require Import Str Outcome Tree Grammar Formula Sugar SugarFacts SugarMore SugarTotal SugarUniq.

Definition BIG : N := 100000000000000000000%N.   (* 10^20: dec uses 20 digits *)

Definition dval (l : str) : N := fold_left (fun a c => (10 * a + (c - 48))%N) l 0%N.
Lemma dval_snoc : forall l c, dval (l ++ [c]) = (10 * dval l + (c - 48))%N.
Proof. intros l c. unfold dval. rewrite fold_left_app. reflexivity. Qed.

Lemma digit_ok : forall n, is_digit (48 + n mod 10)%N = true.
Proof.
  intros n. unfold is_digit. pose proof (N.mod_upper_bound n 10 ltac:(lia)) as H.
  set (r := (n mod 10)%N) in *. apply andb_true_iff. split; apply N.leb_le; lia.
Qed.

Lemma dec_aux_spec : forall fuel n acc, (n < 10 ^ N.of_nat fuel)%N ->
  exists ds, dec_aux fuel n acc = ds ++ acc /\ dval ds = n /\ Forall (fun c => is_digit c = true) ds /\
             (fuel <> 0 -> ds <> []).
Proof.
  induction fuel as [|k IH]; intros n acc Hn.
  - simpl in Hn. assert (n = 0%N) by lia. subst. exists []. repeat split; [constructor|congruence].
  - cbn [dec_aux]. destruct (N.eqb_spec (n / 10) 0) as [Hz|Hnz].
    + exists [(48 + n mod 10)%N]. repeat split.
      * pose proof (N.div_mod n 10 ltac:(lia)) as Hdm. unfold dval. cbn [fold_left].
        pose proof (N.mod_upper_bound n 10 ltac:(lia)). lia.
      * constructor; [apply digit_ok|constructor].
      * discriminate.
    + assert (Hdiv : (n / 10 < 10 ^ N.of_nat k)%N).
      { rewrite Nat2N.inj_succ, N.pow_succ_r' in Hn. apply N.div_lt_upper_bound; lia. }
      destruct (IH (n / 10)%N ((48 + n mod 10)%N :: acc) Hdiv) as [ds [Hds [Hv [Hd _]]]].
      exists (ds ++ [(48 + n mod 10)%N]). repeat split.
      * rewrite Hds, <- app_assoc. reflexivity.
      * rewrite dval_snoc, Hv. pose proof (N.div_mod n 10 ltac:(lia)) as Hdm.
        pose proof (N.mod_upper_bound n 10 ltac:(lia)).
        clear Hn Hdiv Hds IH Hd. set (q := (n / 10)%N) in *. set (r := (n mod 10)%N) in *. lia.
      * apply Forall_app. split; [exact Hd|constructor; [apply digit_ok|constructor]].
      * intros _ E. destruct ds; discriminate.
Qed.

Lemma BIG_pow : BIG = (10 ^ N.of_nat 20)%N.
Proof. reflexivity. Qed.

Lemma dec_spec : forall n, (N.of_nat n < BIG)%N ->
  dval (dec n) = N.of_nat n /\ Forall (fun c => is_digit c = true) (dec n) /\ dec n <> [].
Proof.
  intros n Hn. unfold dec. rewrite BIG_pow in Hn.
  destruct (dec_aux_spec 20 (N.of_nat n) [] Hn) as [ds [Hds [Hv [Hd Hne]]]].
  rewrite Hds, app_nil_r. repeat split; [exact Hv|exact Hd|apply Hne; discriminate].
Qed.

Lemma dec_inj : forall n m, (N.of_nat n < BIG)%N -> (N.of_nat m < BIG)%N -> dec n = dec m -> n = m.
Proof.
  intros n m Hn Hm H. destruct (dec_spec n Hn) as [Vn _]. destruct (dec_spec m Hm) as [Vm _].
  rewrite H in Vn. rewrite Vn in Vm. lia.
Qed.

Lemma with_idx_inj : forall p i j, (N.of_nat i < BIG)%N -> (N.of_nat j < BIG)%N -> with_idx p i = with_idx p j -> i = j.
Proof.
  intros p i j Hi Hj H. unfold with_idx in H. apply app_inv_head in H. inversion H as [Hd]. apply dec_inj; assumption.
Qed.

(* ---------- first_free ends on a name that is not used ---------- *)
Lemma first_free_stuck : forall used p k i,
  smem (first_free used p i k) used = true ->
  forall j, j <= k -> smem (with_idx p (i + j)) used = true.
Proof.
  intros used p. induction k as [|k IH]; intros i H j Hj.
  - assert (j = 0) by lia. subst. simpl in H. rewrite Nat.add_0_r. exact H.
  - cbn [first_free] in H. destruct (smem (with_idx p i) used) eqn:Hi.
    + destruct j as [|j']; [rewrite Nat.add_0_r; exact Hi|].
      replace (i + S j') with (S i + j') by lia. apply (IH _ H). lia.
    + congruence.
Qed.

Lemma NoDup_map_in : forall {X Y} (h : X -> Y) l,
  (forall a b, In a l -> In b l -> h a = h b -> a = b) -> NoDup l -> NoDup (map h l).
Proof.
  intros X Y h l. induction l as [|x l IH]; intros Hi Hn; simpl; [constructor|].
  inversion Hn as [|? ? Hx Hl]; subst. constructor.
  - intros Hin. apply in_map_iff in Hin as [y [Hy Hyl]]. apply Hx.
    rewrite (Hi x y (or_introl eq_refl) (or_intror Hyl) (eq_sym Hy)). exact Hyl.
  - apply IH; [|exact Hl]. intros a b Ha Hb. apply Hi; right; assumption.
Qed.

Lemma first_free_fresh : forall used p, (N.of_nat (S (length used)) < BIG)%N ->
  smem (first_free used p 0 (length used)) used = false.
Proof.
  intros used p Hb. destruct (smem (first_free used p 0 (length used)) used) eqn:E; [|reflexivity]. exfalso.
  pose proof (first_free_stuck _ _ _ _ E) as Hall.
  set (l := map (fun j => with_idx p j) (seq 0 (S (length used)))).
  assert (Hnd : NoDup l).
  { unfold l. apply NoDup_map_in; [|apply seq_NoDup].
    intros a b Ha Hb' Hab. apply in_seq in Ha. apply in_seq in Hb'. apply (with_idx_inj p); [lia|lia|exact Hab]. }
  assert (Hincl : incl l used).
  { intros s Hs. unfold l in Hs. apply in_map_iff in Hs as [j [Hj Hin]].
    apply in_seq in Hin. subst s. apply smem_In. apply (Hall j). lia. }
  pose proof (NoDup_incl_length Hnd Hincl) as Hlen.
  unfold l in Hlen. rewrite map_length, seq_length in Hlen. lia.
Qed.

Lemma first_free_form : forall used p k i, exists j, first_free used p i k = with_idx p j.
Proof.
  intros used p. induction k as [|k IH]; intros i; simpl; [exists i; reflexivity|].
  destruct (smem (with_idx p i) used); [apply IH|exists i; reflexivity].
Qed.

(* ---------- strip_idx undoes with_idx ---------- *)
Lemma take_digits_app : forall ds c t, Forall (fun c => is_digit c = true) ds -> is_digit c = false ->
  take_digits (ds ++ c :: t) = (ds, c :: t).
Proof.
  induction ds as [|d ds IH]; intros c t Hd Hc; simpl.
  - rewrite Hc. reflexivity.
  - inversion Hd as [|? ? H1 H2]; subst. rewrite H1. rewrite (IH c t H2 Hc). reflexivity.
Qed.

Lemma Forall_rev' : forall {X} (P : X -> Prop) l, Forall P l -> Forall P (rev l).
Proof. intros X P l H. apply Forall_forall. intros x Hx. apply in_rev in Hx. rewrite Forall_forall in H. auto. Qed.

Lemma strip_with_idx : forall p i, (N.of_nat i < BIG)%N -> strip_idx (with_idx p i) = p.
Proof.
  intros p i Hi. destruct (dec_spec i Hi) as [_ [Hd Hne]].
  unfold strip_idx, with_idx. rewrite rev_app_distr. simpl rev. rewrite <- app_assoc. simpl app.
  rewrite (take_digits_app (rev (dec i)) c_us (rev p)); [|apply Forall_rev'; exact Hd|reflexivity].
  destruct (rev (dec i)) as [|d r] eqn:E.
  { exfalso. apply Hne. rewrite <- (rev_involutive (dec i)), E. reflexivity. }
  rewrite N.eqb_refl. apply rev_involutive.
Qed.

(* ---------- fresh_vars ---------- *)
(* every pair is either kept (its name was not used) or renamed to a bound variable of the same type whose name
   is an indexed version of the stripped old name *)
Definition pair_ok (p : var * var) : Prop :=
  snd p = fst p \/
  (exists j, (N.of_nat j < BIG)%N /\ snd p = MkVar VBound (with_idx (strip_idx (vname (fst p))) j) (vtype (fst p))).

Lemma first_free_idx : forall used p, (N.of_nat (S (length used)) < BIG)%N ->
  exists j, (N.of_nat j < BIG)%N /\ first_free used p 0 (length used) = with_idx p j.
Proof.
  intros used p Hb.
  assert (G : forall k i, i + k <= length used -> exists j, j <= length used /\ first_free used p i k = with_idx p j).
  { induction k as [|k IH]; intros i Hik; simpl; [exists i; split; [lia|reflexivity]|].
    destruct (smem (with_idx p i) used); [apply IH; lia|exists i; split; [lia|reflexivity]]. }
  destruct (G (length used) 0 ltac:(lia)) as [j [Hj E]]. exists j. split; [lia|exact E].
Qed.

Lemma fresh_vars_spec : forall own U s U2, fresh_vars own U = (s, U2) ->
  (N.of_nat (length U + length own) < BIG)%N ->
  map fst s = own /\ U2 = U ++ names (map snd s) /\ Forall pair_ok s /\
  NoDup (names (map snd s)) /\ (forall x, In x (names (map snd s)) -> ~ In x U).
Proof.
  induction own as [|v own IH]; intros U s U2 H Hb; simpl in H.
  - inversion H; subst. simpl. rewrite app_nil_r. repeat split; [constructor|constructor|intros x []].
  - destruct (smem (vname v) U) eqn:Hm.
    + set (nm := first_free U (strip_idx (vname v)) 0 (length U)) in *.
      destruct (fresh_vars own (U ++ [nm])) as [s' U'] eqn:Hr. inversion H; subst s U2. clear H.
      assert (Hb' : (N.of_nat (length (U ++ [nm]) + length own) < BIG)%N).
      { rewrite app_length. simpl length in *. replace (length U + 1 + length own) with (length U + S (length own)) by lia. exact Hb. }
      destruct (IH _ _ _ Hr Hb') as [H1 [H2 [H3 [H4 H5]]]].
      assert (Hbu : (N.of_nat (S (length U)) < BIG)%N) by (simpl length in Hb; lia).
      assert (Hfresh : ~ In nm U) by (apply smem_false; apply first_free_fresh; exact Hbu).
      repeat split.
      * simpl. rewrite H1. reflexivity.
      * rewrite H2. simpl. rewrite <- app_assoc. reflexivity.
      * constructor; [|exact H3]. right. simpl. destruct (first_free_idx U (strip_idx (vname v)) Hbu) as [j [Hj E]].
        exists j. split; [exact Hj|]. fold nm in E. rewrite E. reflexivity.
      * simpl. constructor; [|exact H4]. intros Hin. apply (H5 _ Hin). apply in_or_app. right. left. reflexivity.
      * intros x Hx Hu. simpl in Hx. destruct Hx as [Hx|Hx]; [subst x; contradiction|].
        apply (H5 _ Hx). apply in_or_app. left. exact Hu.
    + destruct (fresh_vars own (U ++ [vname v])) as [s' U'] eqn:Hr. inversion H; subst s U2. clear H.
      assert (Hb' : (N.of_nat (length (U ++ [vname v]) + length own) < BIG)%N).
      { rewrite app_length. simpl length in *. replace (length U + 1 + length own) with (length U + S (length own)) by lia. exact Hb. }
      destruct (IH _ _ _ Hr Hb') as [H1 [H2 [H3 [H4 H5]]]].
      apply smem_false in Hm.
      repeat split.
      * simpl. rewrite H1. reflexivity.
      * rewrite H2. simpl. rewrite <- app_assoc. reflexivity.
      * constructor; [left; reflexivity|exact H3].
      * simpl. constructor; [|exact H4]. intros Hin. apply (H5 _ Hin). apply in_or_app. right. left. reflexivity.
      * intros x Hx Hu. simpl in Hx. destruct Hx as [Hx|Hx]; [subst x; contradiction|].
        apply (H5 _ Hx). apply in_or_app. left. exact Hu.
Qed.

(* lookup in a renaming whose keys are pairwise different *)
Lemma rlook_in : forall s y y', NoDup (map fst s) -> In (y, y') s -> rlook s y = y'.
Proof.
  induction s as [|[a b] s IH]; intros y y' Hn Hin; [destruct Hin|]. simpl in *.
  inversion Hn as [|? ? Ha Hs]; subst. destruct Hin as [E|Hin].
  - inversion E; subst. rewrite var_eqb_refl. reflexivity.
  - destruct (var_eqb a y) eqn:E.
    + apply var_eqb_eq in E. subst a. exfalso. apply Ha. apply in_map_iff. exists (y, y'). auto.
    + apply IH; assumption.
Qed.
Lemma rlook_notin : forall s y, ~ In y (map fst s) -> rlook s y = y.
Proof.
  induction s as [|[a b] s IH]; intros y Hn; [reflexivity|]. simpl in *.
  destruct (var_eqb a y) eqn:E; [apply var_eqb_eq in E; subst; exfalso; apply Hn; left; reflexivity|].
  apply IH. intros H. apply Hn. right; exact H.
Qed.
Lemma rlook_pair : forall s y, In y (map fst s) -> NoDup (map fst s) -> In (y, rlook s y) s.
Proof.
  intros s y Hin Hn. apply in_map_iff in Hin as [[a b] [E Hp]]. simpl in E. subst a.
  rewrite (rlook_in s y b Hn Hp). exact Hp.
Qed.
