(* C20 proof extension 2 — the boolean guards under which a parser request of a semantic predicate
   is answered (definitions only; proofs in SemPredsComposeMore.v; evaluated per case by the
   end-to-end stage of harness/c20.py).

   grammar_guard g          : the side conditions on g of the *_earley theorems
                              (canonical_form, unique keys, "<start>" on no right-hand side)
   parse_guard fuel g nt n  : nt is a defined nonterminal other than "<start>", the grammar that
                              mk_parser hands to the Earley parser (mk_grammar g nt) has no cyclic
                              unit/nullable derivation (C10: acyclicb), and `fuel` is at least the
                              computable bound of C10 for inputs of length n
   request_guard fuel g fx c: the call c makes a parser request (nt, s) with parse_guard .. nt |s| *)
From ISLA Require Import SemPreds SemPredsParser Earley EarleyFuel EarleyAcyclic.
From Coq Require Import List Bool PeanoNat.
Import ListNotations.

Fixpoint nodup_keysb (l : list str) : bool :=
  match l with [] => true | x :: l' => negb (Earley.mem x l') && nodup_keysb l' end.

Definition grammar_guard (g : grammar) : bool :=
  canonical_form g && nodup_keysb (map fst g) && negb (occurs_rhs g START).

Definition parse_guard (fuel : nat) (g : grammar) (nt : str) (n : nat) : bool :=
  negb (str_eqb nt START) && defined g nt
  && acyclicb (cgram (mk_grammar g nt) START)
  && (fuel_bound (cgram (mk_grammar g nt) START) n <=? fuel).

Definition request_guard (fuel : nat) (g : grammar) (fx : bool) (c : call) : bool :=
  match pre_eval fx c with
  | Ok (PParse _ nt s) => parse_guard fuel g nt (length s)
  | _ => false
  end.

(* does the call make a parser request at all (denominator of the harness statistic) *)
Definition is_request (fx : bool) (c : call) : bool :=
  match pre_eval fx c with Ok (PParse _ _ _) => true | _ => false end.

(* the same guard through a table computed ONCE per grammar (what harness/c20.py evaluates: the
   table is a constant `Eval vm_compute in guard_table FUEL G nmax`, the per-case test is a lookup);
   SemPredsComposeMore.request_guard_tab_sound: request_guard_tab (guard_table ..) implies request_guard *)
Definition guard_table (fuel : nat) (g : grammar) (nmax : nat) : list (str * bool) :=
  map (fun nt => (nt, parse_guard fuel g nt nmax)) (map fst g).

Fixpoint tab_lookup (nt : str) (tab : list (str * bool)) : bool :=
  match tab with
  | [] => false
  | (k, b) :: tab' => if str_eqb nt k then b else tab_lookup nt tab'
  end.

Definition request_guard_tab (tab : list (str * bool)) (nmax : nat) (fx : bool) (c : call) : bool :=
  match pre_eval fx c with
  | Ok (PParse _ nt s) => (length s <=? nmax) && tab_lookup nt tab
  | _ => false
  end.
