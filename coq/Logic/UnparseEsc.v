(* C07 — the string-literal round trip under the EXACT guard of the recorded class:
     K_str s = false -> read_lit (str_lit s ++ rest) = Some (s, rest)
   i.e. beyond `safe` (UnparseMore.v): NUL (printed \u{} and repaired to \u{0}), characters
   256..0x2FFFF (printed \u{hex}), a backslash before `u` (printed \u{5c}) and every "harmless"
   backslash (not before a quote, not last).  Proofs only; the models are in Unparse.v. *)
From ISLA Require Import Unparse UnparseFacts UnparseMore UnparseHex.
From Coq Require Import Lia ZArith String.
Import ListNotations.
Open Scope N_scope.

(* ---------- the text of a literal's body at every stage ---------- *)
Definition next_is (k : chr) (r : str) : bool := match r with d :: _ => d =? k | [] => false end.
Definition is_uesc (c : chr) (r : str) : bool :=
  (c =? 0) || (256 <=? c) || ((c =? c_bs) && next_is c_u r).
(* z : the digits printed for NUL ([] by Z3, "0" after the repair);  q : the text of a quote *)
Definition hx (z : str) (c : chr) : str := if c =? 0 then z else hex_N c.
Definition uesc (z : str) (c : chr) : str := [c_bs; c_u; c_lb] ++ hx z c ++ [c_rb].
Fixpoint enc (z q : str) (s : str) : str :=
  match s with
  | [] => []
  | c :: r => (if is_uesc c r then uesc z c else if c =? c_q then q else [c]) ++ enc z q r
  end.

Lemma enc_cons z q c r :
  enc z q (c :: r) = (if is_uesc c r then uesc z c else if c =? c_q then q else [c]) ++ enc z q r.
Proof. reflexivity. Qed.

(* ---------- the guard, per character ---------- *)
Definition gc (c : chr) : bool := (c <? 128) || ((256 <=? c) && (c <=? 196607)).
Lemma K_hi_cons c r : K_str_hi (c :: r) = false -> gc c = true /\ K_str_hi r = false.
Proof.
  unfold K_str_hi. simpl. intro H. apply orb_false_iff in H as [H1 H2]. split; [|exact H2].
  apply orb_false_iff in H1 as [A B]. unfold gc.
  destruct (c <? 128) eqn:E; [reflexivity|]. apply N.ltb_ge in E.
  replace (128 <=? c) with true in A by (symmetry; apply N.leb_le; exact E). simpl in A.
  apply N.ltb_ge in A. apply N.ltb_ge in B. simpl.
  apply andb_true_iff. split; apply N.leb_le; lia.
Qed.
Lemma K_bs_cons c r : K_str_bs (c :: r) = false ->
  (c = 92 -> r <> [] /\ next_is c_q r = false) /\ K_str_bs r = false.
Proof.
  simpl. intro H. apply orb_false_iff in H as [H1 H2]. split; [|exact H2].
  intro E. subst c. simpl in H1. destruct r as [|d t]; [discriminate|]. split; [discriminate|exact H1].
Qed.

(* the digits of an escape that the guard admits *)
Lemma hx_facts c : gc c = true -> (c =? 0) || (256 <=? c) = true ->
  let h := hx [48] c in
  h <> [] /\ (List.length h <= 5)%nat /\ forallb ishexb h = true /\ hexfold 0 h = c.
Proof.
  intros Hg He. unfold hx. destruct (c =? 0) eqn:E0.
  - apply N.eqb_eq in E0. subst c. cbv zeta. repeat split; try discriminate. simpl; lia.
  - apply N.eqb_neq in E0. simpl in He. apply N.leb_le in He.
    unfold gc in Hg. replace (c <? 128) with false in Hg by (symmetry; apply N.ltb_ge; lia).
    simpl in Hg. apply andb_true_iff in Hg as [_ Hg]. apply N.leb_le in Hg.
    pose proof (hexok_all c ltac:(lia) Hg) as H. unfold hexok in H. cbv zeta in H.
    apply andb_true_iff in H as [H H4]. apply andb_true_iff in H as [H H3].
    apply andb_true_iff in H as [H1 H2]. cbv zeta.
    repeat split.
    + intro En. rewrite En in H1. discriminate.
    + apply Nat.leb_le. exact H2.
    + exact H3.
    + apply N.eqb_eq. exact H4.
Qed.
(* a backslash before `u` *)
Lemma hx_bs : hx [48] 92 = [53; 99].
Proof. vm_compute. reflexivity. Qed.

(* one uniform statement for the three kinds of escapes *)
Lemma uesc_facts c r : gc c = true -> is_uesc c r = true ->
  let h := hx [48] c in
  h <> [] /\ (List.length h <= 5)%nat /\ forallb ishexb h = true /\ hexfold 0 h = c.
Proof.
  intros Hg Hu. unfold is_uesc in Hu. destruct ((c =? 0) || (256 <=? c)) eqn:E.
  - apply hx_facts; assumption.
  - simpl in Hu. apply andb_true_iff in Hu as [Hc _]. apply N.eqb_eq in Hc. unfold c_bs in Hc. subst c.
    rewrite hx_bs. cbv zeta. repeat split; try discriminate. simpl; lia.
Qed.

Lemma hex_all (P : chr -> Prop) h : (forall c, ishexb c = true -> P c) -> forallb ishexb h = true -> Forall P h.
Proof.
  intros HP. induction h as [|a h IH]; intro H; [constructor|].
  simpl in H. apply andb_true_iff in H as [Ha Hh]. constructor; [apply HP, Ha | apply IH, Hh].
Qed.

(* a raw character: what is known about it under the guard *)
Lemma raw_facts c r : gc c = true -> is_uesc c r = false ->
  0 < c /\ c < 128 /\ (c = 92 -> next_is c_u r = false).
Proof.
  intros Hg Hu. unfold is_uesc in Hu. apply orb_false_iff in Hu as [Hu Hb].
  apply orb_false_iff in Hu as [H0 H256]. apply N.eqb_neq in H0. apply N.leb_gt in H256.
  unfold gc in Hg. replace (256 <=? c) with false in Hg by (symmetry; apply N.leb_gt; exact H256).
  simpl in Hg. rewrite orb_false_r in Hg. apply N.ltb_lt in Hg.
  repeat split; try lia. intro E. subst c. exact Hb.
Qed.

Ltac nf c k := replace (c =? k) with false by (symmetry; apply N.eqb_neq; lia).

Lemma enc_head_not k z q r :
  k <> 92 -> next_is k q = false -> q <> [] -> next_is k r = false -> next_is k (enc z q r) = false.
Proof.
  intros Hk Hq Hne Hr. destruct r as [|d t]; [reflexivity|]. rewrite enc_cons.
  destruct (is_uesc d t).
  - unfold uesc, next_is. cbn [app]. apply N.eqb_neq. unfold c_bs. congruence.
  - destruct (d =? c_q).
    + destruct q as [|a q']; [congruence|]. exact Hq.
    + exact Hr.
Qed.
Lemma enc_nonempty z q r : q <> [] -> r <> [] -> enc z q r <> [].
Proof.
  intros Hq Hr. destruct r as [|d t]; [congruence|]. rewrite enc_cons.
  destruct (is_uesc d t); [discriminate|]. destruct (d =? c_q); [destruct q; [congruence|discriminate]|discriminate].
Qed.

(* ---------- stage 0/1: Z3_get_lstring, then quote -> backslash-quote ---------- *)
Lemma lstring_enc s : z3_lstring s = enc [] [c_q] s.
Proof.
  induction s as [|c r IH]; [reflexivity|]. rewrite enc_cons, <- IH.
  change (z3_lstring (c :: r)) with ((if is_uesc c r then lesc c else [c]) ++ z3_lstring r).
  destruct (is_uesc c r).
  - unfold lesc, uesc, hx. destruct (c =? 0) eqn:E; [apply N.eqb_eq in E; subst c|]; reflexivity.
  - destruct (c =? c_q) eqn:E; [apply N.eqb_eq in E; subst c|]; reflexivity.
Qed.

Lemma esc_app a b : esc_quotes (a ++ b) = esc_quotes a ++ esc_quotes b.
Proof. induction a as [|c a IH]; [reflexivity|]. simpl app. rewrite !esc_cons, IH, app_assoc. reflexivity. Qed.
Lemma esc_noq p : Forall (fun c => c <> 34) p -> esc_quotes p = p.
Proof.
  induction 1 as [|c p Hc Hp IH]; [reflexivity|]. rewrite esc_cons, IH. unfold c_q. nf c 34. reflexivity.
Qed.

(* the digits printed by Z3 (NUL: none) *)
Lemma hx0_facts c r : gc c = true -> is_uesc c r = true ->
  (c = 0 /\ hx [] c = []) \/
  (c <> 0 /\ hx [] c = hx [48] c /\ hx [48] c <> [] /\ forallb ishexb (hx [48] c) = true).
Proof.
  intros Hg Hu. destruct (uesc_facts c r Hg Hu) as (H1 & _ & H3 & _).
  unfold hx in *. destruct (c =? 0) eqn:E.
  - left. apply N.eqb_eq in E. split; [exact E|reflexivity].
  - right. apply N.eqb_neq in E. repeat split; assumption.
Qed.

Lemma hex_noq h : forallb ishexb h = true -> Forall (fun c => c <> 34) h.
Proof. apply hex_all. intros c H. apply ishexb_facts in H. tauto. Qed.
Lemma hex_nobs h : forallb ishexb h = true -> Forall (fun c => c <> 92) h.
Proof. apply hex_all. intros c H. apply ishexb_facts in H. tauto. Qed.
Lemma hex_small h : forallb ishexb h = true -> Forall (fun c => c < 128) h.
Proof. apply hex_all. intros c H. apply ishexb_facts in H. tauto. Qed.

Lemma uesc_noq z c : Forall (fun c => c <> 34) (hx z c) -> Forall (fun c => c <> 34) (uesc z c).
Proof.
  intro H. unfold uesc. apply Forall_app. split; [repeat constructor; discriminate|].
  apply Forall_app. split; [exact H|repeat constructor; discriminate].
Qed.

Lemma esc_enc s : K_str_hi s = false -> esc_quotes (enc [] [c_q] s) = enc [] [c_bs; c_q] s.
Proof.
  induction s as [|c r IH]; intro H; [reflexivity|]. apply K_hi_cons in H as [Hg Hr].
  rewrite !enc_cons, esc_app, IH by exact Hr. f_equal.
  destruct (is_uesc c r) eqn:Eu.
  - apply esc_noq, uesc_noq. destruct (hx0_facts c r Hg Eu) as [[_ E]|(_ & E & _ & Hh)]; rewrite E.
    + constructor.
    + apply hex_noq, Hh.
  - destruct (c =? c_q) eqn:E.
    + reflexivity.
    + change (esc_quotes [c]) with ((if c =? c_q then [c_bs; c_q] else [c]) ++ []). rewrite E. reflexivity.
Qed.

(* ---------- stage 2: replace('\u{}', '\u{0}') ---------- *)
Lemma fix_nul_pre p r : Forall (fun c => c <> 92) p -> fix_nul_k 0 (p ++ r) = p ++ fix_nul_k 0 r.
Proof.
  induction 1 as [|c p Hc Hp IH]; [reflexivity|]. simpl app. rewrite fix_nul_nobs by exact Hc. rewrite IH. reflexivity.
Qed.
Lemma fix_nul_bs_notu r : next_is c_u r = false -> fix_nul_k 0 (c_bs :: r) = c_bs :: fix_nul_k 0 r.
Proof.
  intro H. rewrite fix_nul_k0_cons. destruct r as [|d [|e [|f t]]]; try reflexivity.
  simpl in H. rewrite H, andb_false_r. reflexivity.
Qed.
Lemma fix_nul_uesc0 T : fix_nul_k 0 (uesc [] 0 ++ T) = uesc [48] 0 ++ fix_nul_k 0 T.
Proof. reflexivity. Qed.
Lemma fix_nul_uesc h T : h <> [] -> forallb ishexb h = true ->
  fix_nul_k 0 ([c_bs; c_u; c_lb] ++ h ++ [c_rb] ++ T) = [c_bs; c_u; c_lb] ++ h ++ [c_rb] ++ fix_nul_k 0 T.
Proof.
  intros Hne Hh. destruct h as [|a h']; [congruence|].
  assert (Ha : a <> 125).
  { simpl in Hh. apply andb_true_iff in Hh as [Ha _]. apply ishexb_facts in Ha. tauto. }
  change ([c_bs; c_u; c_lb] ++ (a :: h') ++ [c_rb] ++ T) with (c_bs :: c_u :: c_lb :: a :: (h' ++ [c_rb] ++ T)).
  rewrite fix_nul_k0_cons. unfold c_rb at 1. nf a 125. rewrite andb_false_r.
  rewrite !fix_nul_nobs by discriminate.
  change (a :: h' ++ [c_rb] ++ T) with ((a :: h') ++ c_rb :: T).
  rewrite fix_nul_pre by (apply hex_nobs, Hh). rewrite fix_nul_nobs by discriminate. reflexivity.
Qed.

Lemma fix_nul_enc s : K_str_hi s = false ->
  fix_nul_k 0 (enc [] [c_bs; c_q] s) = enc [48] [c_bs; c_q] s.
Proof.
  induction s as [|c r IH]; intro H; [reflexivity|]. apply K_hi_cons in H as [Hg Hr].
  specialize (IH Hr). rewrite !enc_cons. destruct (is_uesc c r) eqn:Eu.
  - destruct (hx0_facts c r Hg Eu) as [[E0 _]|(_ & E & Hne & Hh)].
    + subst c. rewrite fix_nul_uesc0, IH. reflexivity.
    + unfold uesc. rewrite E, <- !app_assoc. rewrite fix_nul_uesc by assumption. rewrite IH. reflexivity.
  - destruct (raw_facts c r Hg Eu) as (_ & _ & Hbs). destruct (c =? c_q) eqn:E.
    + simpl app. rewrite fix_nul_bs_q, IH. reflexivity.
    + simpl app. destruct (N.eq_dec c 92) as [Ec|Ec].
      * subst c. change 92 with c_bs. rewrite fix_nul_bs_notu, IH; [reflexivity|].
        apply enc_head_not; [discriminate|reflexivity|discriminate|apply Hbs; reflexivity].
      * rewrite fix_nul_nobs by exact Ec. rewrite IH. reflexivity.
Qed.

Lemma str_lit_enc s : K_str_hi s = false -> str_lit s = [c_q] ++ enc [48] [c_bs; c_q] s ++ [c_q].
Proof.
  intro H. unfold str_lit, fix_nul. rewrite lstring_enc, esc_enc, fix_nul_enc by exact H. reflexivity.
Qed.

(* ---------- stage 3: the ANTLR STRING token ---------- *)
(* an independent description of "t is the body of one STRING token": no quote outside an ESC pair,
   no backslash that would pair with the closing quote *)
Fixpoint tok_ok (t : str) : bool :=
  match t with
  | [] => true
  | c :: r =>
      if c =? c_q then false
      else match r with
           | d :: r' => if (c =? c_bs) && is_esc_letter d then tok_ok r' else tok_ok r
           | [] => negb (c =? c_bs)
           end
  end.

Lemma lex_tok fuel : forall t rest, tok_ok t = true -> (List.length t < fuel)%nat ->
  lex_body fuel (t ++ c_q :: rest) = Some (t, rest).
Proof.
  induction fuel as [|k IH]; intros t rest Ht Hf; [lia|].
  destruct t as [|c r]; [reflexivity|].
  simpl in Ht. destruct (c =? c_q) eqn:Eq; [discriminate|].
  destruct r as [|d r'].
  - apply negb_true_iff in Ht.
    change (lex_body (S k) ([c] ++ c_q :: rest)) with
      (if c =? c_q then Some ([], c_q :: rest)
       else if (c =? c_bs) && is_esc_letter c_q
            then match lex_body k rest with Some (b, t) => Some (c :: c_q :: b, t) | None => None end
            else match lex_body k (c_q :: rest) with Some (b, t) => Some (c :: b, t) | None => None end).
    rewrite Eq, Ht. simpl andb. cbv iota.
    destruct k as [|k']; [simpl in Hf; lia|]. reflexivity.
  - change (lex_body (S k) ((c :: d :: r') ++ c_q :: rest)) with
      (if c =? c_q then Some ([], (d :: r') ++ c_q :: rest)
       else if (c =? c_bs) && is_esc_letter d
            then match lex_body k (r' ++ c_q :: rest) with Some (b, t) => Some (c :: d :: b, t) | None => None end
            else match lex_body k ((d :: r') ++ c_q :: rest) with Some (b, t) => Some (c :: b, t) | None => None end).
    rewrite Eq. simpl in Hf. destruct ((c =? c_bs) && is_esc_letter d).
    + rewrite IH by (try exact Ht; lia). reflexivity.
    + rewrite IH by (try exact Ht; simpl; lia). reflexivity.
Qed.

Lemma tok_plain c r : c <> 34 -> c <> 92 -> tok_ok (c :: r) = tok_ok r.
Proof.
  intros H1 H2. change (tok_ok (c :: r)) with
    (if c =? c_q then false
     else match r with
          | d :: r' => if (c =? c_bs) && is_esc_letter d then tok_ok r' else tok_ok r
          | [] => negb (c =? c_bs)
          end).
  unfold c_q, c_bs. nf c 34. nf c 92. destruct r; reflexivity.
Qed.
Lemma tok_pre p r : Forall (fun c => c <> 34) p -> Forall (fun c => c <> 92) p -> tok_ok (p ++ r) = tok_ok r.
Proof.
  induction p as [|c p IH]; intros H1 H2; [reflexivity|]. inversion H1 as [|? ? Hc1 Hp1]. inversion H2 as [|? ? Hc2 Hp2].
  subst. simpl app. rewrite tok_plain by assumption. apply IH; assumption.
Qed.
Lemma tok_bs d r : tok_ok (c_bs :: d :: r) = if is_esc_letter d then tok_ok r else tok_ok (d :: r).
Proof. reflexivity. Qed.

Lemma uesc_tail_tok h T : forallb ishexb h = true ->
  tok_ok ([c_u; c_lb] ++ h ++ [c_rb] ++ T) = tok_ok T.
Proof.
  intro Hh. change ([c_u; c_lb] ++ h ++ [c_rb] ++ T) with (c_u :: c_lb :: (h ++ c_rb :: T)).
  rewrite !tok_plain by discriminate. rewrite tok_pre by (try apply hex_noq; try apply hex_nobs; exact Hh).
  apply tok_plain; discriminate.
Qed.

(* both facts at once: the body is a token body, and so is what is left when the first character
   was taken as the second half of an ESC pair (a harmless backslash before it) *)
Lemma tok_enc s : K_str_bs s = false -> K_str_hi s = false ->
  tok_ok (enc [48] [c_bs; c_q] s) = true /\
  (next_is c_q s = false -> forall d t, enc [48] [c_bs; c_q] s = d :: t -> tok_ok t = true).
Proof.
  induction s as [|c r IH]; intros Hb Hh; [split; [reflexivity|discriminate]|].
  apply K_bs_cons in Hb as [Hbs Hb]. apply K_hi_cons in Hh as [Hg Hh].
  destruct (IH Hb Hh) as [IH1 IH2]. clear IH. rewrite enc_cons.
  destruct (is_uesc c r) eqn:Eu.
  - destruct (uesc_facts c r Hg Eu) as (_ & _ & Hx & _). cbv zeta in Hx.
    unfold uesc. rewrite <- !app_assoc.
    change ([c_bs; c_u; c_lb] ++ hx [48] c ++ [c_rb] ++ enc [48] [c_bs; c_q] r)
      with (c_bs :: ([c_u; c_lb] ++ hx [48] c ++ [c_rb] ++ enc [48] [c_bs; c_q] r)).
    split.
    + change (tok_ok (c_bs :: [c_u; c_lb] ++ hx [48] c ++ [c_rb] ++ enc [48] [c_bs; c_q] r))
        with (tok_ok ([c_u; c_lb] ++ hx [48] c ++ [c_rb] ++ enc [48] [c_bs; c_q] r)).
      rewrite uesc_tail_tok by exact Hx. exact IH1.
    + intros _ d t E.
      assert (Et : [c_u; c_lb] ++ hx [48] c ++ [c_rb] ++ enc [48] [c_bs; c_q] r = t) by (injection E; intros; assumption).
      rewrite <- Et. rewrite uesc_tail_tok by exact Hx. exact IH1.
  - destruct (raw_facts c r Hg Eu) as (_ & _ & _). destruct (c =? c_q) eqn:Eq.
    + split.
      * simpl app. rewrite tok_bs. exact IH1.
      * intro Hn. simpl in Hn. congruence.
    + apply N.eqb_neq in Eq. unfold c_q in Eq. simpl app. split.
      * destruct (N.eq_dec c 92) as [Ec|Ec].
        -- subst c. destruct (Hbs eq_refl) as [Hne Hnq].
           destruct (enc [48] [c_bs; c_q] r) as [|d t] eqn:Ee.
           { exfalso. revert Ee. apply enc_nonempty; [discriminate|exact Hne]. }
           change 92 with c_bs. rewrite tok_bs. destruct (is_esc_letter d).
           ++ apply (IH2 Hnq d t eq_refl).
           ++ exact IH1.
        -- rewrite tok_plain by assumption. exact IH1.
      * intros _ d t E. assert (Et : enc [48] [c_bs; c_q] r = t) by (injection E; intros; assumption).
        rewrite <- Et. exact IH1.
Qed.

(* ---------- stage 4: the emitter replaces backslash-quote by two quotes ---------- *)
Lemma prep_other c d r : (c =? c_bs) && (d =? c_q) = false -> isla_prep (c :: d :: r) = c :: isla_prep (d :: r).
Proof.
  intro H. change (isla_prep (c :: d :: r)) with
    (if (c =? c_bs) && (d =? c_q) then c_q :: c_q :: isla_prep r else c :: isla_prep (d :: r)).
  rewrite H. reflexivity.
Qed.
Lemma prep_nobs c r : c <> 92 -> isla_prep (c :: r) = c :: isla_prep r.
Proof.
  intro H. destruct r as [|d r]; [reflexivity|]. apply prep_other. unfold c_bs. nf c 92. reflexivity.
Qed.
Lemma prep_pre p r : Forall (fun c => c <> 92) p -> isla_prep (p ++ r) = p ++ isla_prep r.
Proof.
  induction 1 as [|c p Hc Hp IH]; [reflexivity|]. simpl app. rewrite prep_nobs by exact Hc. rewrite IH. reflexivity.
Qed.
Lemma prep_bs_notq r : next_is c_q r = false -> isla_prep (c_bs :: r) = c_bs :: isla_prep r.
Proof.
  intro H. destruct r as [|d r]; [reflexivity|]. apply prep_other. simpl in H. rewrite H. apply andb_false_r.
Qed.
Lemma next_is_app k a b : a <> [] -> next_is k (a ++ b) = next_is k a.
Proof. destruct a; [congruence|reflexivity]. Qed.

Lemma prep_enc s : K_str_bs s = false -> K_str_hi s = false ->
  isla_prep (enc [48] [c_bs; c_q] s ++ [c_q]) = enc [48] [c_q; c_q] s ++ [c_q].
Proof.
  induction s as [|c r IH]; intros Hb Hh; [reflexivity|].
  apply K_bs_cons in Hb as [Hbs Hb]. apply K_hi_cons in Hh as [Hg Hh].
  specialize (IH Hb Hh). rewrite !enc_cons, <- !app_assoc.
  destruct (is_uesc c r) eqn:Eu.
  - destruct (uesc_facts c r Hg Eu) as (_ & _ & Hx & _). cbv zeta in Hx.
    unfold uesc. rewrite <- !app_assoc.
    change ([c_bs; c_u; c_lb] ++ hx [48] c ++ [c_rb] ++ enc [48] [c_bs; c_q] r ++ [c_q])
      with (c_bs :: c_u :: c_lb :: (hx [48] c ++ c_rb :: (enc [48] [c_bs; c_q] r ++ [c_q]))).
    rewrite prep_bs_notq by reflexivity. rewrite !prep_nobs by discriminate.
    rewrite prep_pre by (apply hex_nobs, Hx). rewrite prep_nobs by discriminate. rewrite IH. reflexivity.
  - destruct (c =? c_q) eqn:Eq.
    + simpl app. change (isla_prep (c_bs :: c_q :: enc [48] [c_bs; c_q] r ++ [c_q]))
        with (c_q :: c_q :: isla_prep (enc [48] [c_bs; c_q] r ++ [c_q])).
      rewrite IH. reflexivity.
    + simpl app. destruct (N.eq_dec c 92) as [Ec|Ec].
      * subst c. destruct (Hbs eq_refl) as [Hne Hnq]. change 92 with c_bs.
        rewrite prep_bs_notq, IH; [reflexivity|].
        rewrite next_is_app by (apply enc_nonempty; [discriminate|exact Hne]).
        apply enc_head_not; [discriminate|reflexivity|discriminate|exact Hnq].
      * rewrite prep_nobs by exact Ec. rewrite IH. reflexivity.
Qed.

(* ---------- stage 5: UTF-8 (the printed text is ASCII) ---------- *)
Lemma small_app a b : forallb (fun c => c <? 128) a = true -> forallb (fun c => c <? 128) b = true ->
  forallb (fun c => c <? 128) (a ++ b) = true.
Proof. intros Ha Hb. rewrite forallb_app, Ha, Hb. reflexivity. Qed.
Lemma small_of_Forall h : Forall (fun c => c < 128) h -> forallb (fun c => c <? 128) h = true.
Proof. induction 1 as [|c p Hc Hp IH]; [reflexivity|]. simpl. rewrite IH. apply N.ltb_lt in Hc. rewrite Hc. reflexivity. Qed.

Lemma enc_small s : K_str_hi s = false -> forallb (fun c => c <? 128) (enc [48] [c_q; c_q] s ++ [c_q]) = true.
Proof.
  induction s as [|c r IH]; intro Hh; [reflexivity|]. apply K_hi_cons in Hh as [Hg Hh].
  rewrite enc_cons, <- app_assoc. apply small_app; [|apply IH, Hh].
  destruct (is_uesc c r) eqn:Eu.
  - destruct (uesc_facts c r Hg Eu) as (_ & _ & Hx & _). cbv zeta in Hx.
    unfold uesc. apply small_app; [reflexivity|]. apply small_app; [|reflexivity].
    apply small_of_Forall, hex_small, Hx.
  - destruct (raw_facts c r Hg Eu) as (_ & Hc & _). destruct (c =? c_q); [reflexivity|].
    simpl. apply N.ltb_lt in Hc. rewrite Hc. reflexivity.
Qed.

(* ---------- stage 6: Z3's scanner ---------- *)
Lemma scan_other c r : c <> 34 ->
  z3_scan (c :: r) = match z3_scan r with Some (b, t) => Some (c :: b, t) | None => None end.
Proof.
  intro H. change (z3_scan (c :: r)) with
    (if c =? c_q then
       match r with
       | d :: r' => if d =? c_q then match z3_scan r' with Some (b, t) => Some (c_q :: b, t) | None => None end
                    else Some ([], r)
       | [] => Some ([], [])
       end
     else match z3_scan r with Some (b, t) => Some (c :: b, t) | None => None end).
  unfold c_q at 1. nf c 34. reflexivity.
Qed.
Lemma scan_pre p : forall r b t, Forall (fun c => c <> 34) p -> z3_scan r = Some (b, t) ->
  z3_scan (p ++ r) = Some (p ++ b, t).
Proof.
  induction p as [|c p IH]; intros r b t Hp H; [exact H|]. inversion Hp as [|? ? Hc Hp']. subst.
  simpl app. rewrite scan_other by exact Hc. rewrite (IH r b t Hp' H). reflexivity.
Qed.
Lemma scan_qq r b t : z3_scan r = Some (b, t) -> z3_scan (c_q :: c_q :: r) = Some (c_q :: b, t).
Proof.
  intro H. change (z3_scan (c_q :: c_q :: r)) with
    (match z3_scan r with Some (b, t) => Some (c_q :: b, t) | None => None end). rewrite H. reflexivity.
Qed.

Lemma scan_enc s : K_str_hi s = false ->
  z3_scan (enc [48] [c_q; c_q] s ++ [c_q]) = Some (enc [48] [c_q] s, []).
Proof.
  induction s as [|c r IH]; intro Hh; [reflexivity|]. apply K_hi_cons in Hh as [Hg Hh].
  specialize (IH Hh). rewrite !enc_cons, <- app_assoc.
  destruct (is_uesc c r) eqn:Eu.
  - destruct (uesc_facts c r Hg Eu) as (_ & _ & Hx & _). cbv zeta in Hx.
    apply scan_pre; [|exact IH]. apply uesc_noq, hex_noq, Hx.
  - destruct (c =? c_q) eqn:Eq.
    + simpl app. apply scan_qq, IH.
    + apply N.eqb_neq in Eq. apply scan_pre; [|exact IH]. repeat constructor. exact Eq.
Qed.

(* ---------- stage 7: zstring's escape decoding ---------- *)
Lemma unesc_skip p r : z3_unesc_k (List.length p) (p ++ r) = z3_unesc_k 0 r.
Proof. induction p as [|c p IH]; [reflexivity|]. exact IH. Qed.

Lemma unesc_k0_cons2 c d r' :
  z3_unesc_k 0 (c :: d :: r') =
    (if (c =? c_bs) && (d =? c_u) then
       match r' with
       | e :: r'' =>
           if (e =? c_lb) && negb (match r'' with f :: _ => f =? c_rb | [] => false end) then
             match read_hex 5 0 r'' with
             | Some (v, rest) => v :: z3_unesc_k (List.length (d :: r') - List.length rest) (d :: r')
             | None => sx_byte c :: z3_unesc_k 0 (d :: r')
             end
           else match read_hex4 r' with
                | Some (v, _) => v :: z3_unesc_k 5 (d :: r')
                | None => sx_byte c :: z3_unesc_k 0 (d :: r')
                end
       | [] => sx_byte c :: z3_unesc_k 0 (d :: r')
       end
     else sx_byte c :: z3_unesc_k 0 (d :: r')).
Proof. reflexivity. Qed.

Lemma unesc_bs_notu r : next_is c_u r = false -> z3_unesc_k 0 (c_bs :: r) = c_bs :: z3_unesc_k 0 r.
Proof.
  intro H. destruct r as [|d r']; [reflexivity|]. rewrite unesc_k0_cons2. simpl in H. rewrite H, andb_false_r. reflexivity.
Qed.

Lemma unesc_uesc h c T :
  h <> [] -> (List.length h <= 5)%nat -> forallb ishexb h = true -> hexfold 0 h = c -> c <= 196607 ->
  z3_unesc_k 0 ([c_bs; c_u; c_lb] ++ h ++ [c_rb] ++ T) = c :: z3_unesc_k 0 T.
Proof.
  intros Hne Hlen Hh Hf Hc. destruct h as [|a h']; [congruence|].
  assert (Ha : a <> 125).
  { simpl in Hh. apply andb_true_iff in Hh as [Ha _]. apply ishexb_facts in Ha. tauto. }
  change ([c_bs; c_u; c_lb] ++ (a :: h') ++ [c_rb] ++ T) with (c_bs :: c_u :: c_lb :: a :: (h' ++ c_rb :: T)).
  rewrite unesc_k0_cons2.
  change ((c_bs =? c_bs) && (c_u =? c_u)) with true. cbv iota.
  change (c_lb =? c_lb) with true. unfold c_rb at 1. nf a 125. simpl negb. simpl andb. cbv iota.
  change (a :: h' ++ c_rb :: T) with ((a :: h') ++ c_rb :: T).
  rewrite read_hex_fold by assumption. rewrite Hf.
  replace (c <=? 196607) with true by (symmetry; apply N.leb_le; exact Hc).
  f_equal.
  replace (c_u :: c_lb :: (a :: h') ++ c_rb :: T) with (([c_u; c_lb] ++ (a :: h') ++ [c_rb]) ++ T)
    by (rewrite <- !app_assoc; reflexivity).
  rewrite app_length. rewrite Nat.add_sub. apply unesc_skip.
Qed.

Lemma gc_bound c : gc c = true -> c <= 196607.
Proof.
  unfold gc. intro H. apply orb_true_iff in H as [H|H].
  - apply N.ltb_lt in H. lia.
  - apply andb_true_iff in H as [_ H]. apply N.leb_le in H. exact H.
Qed.

Lemma unesc_enc s : K_str_hi s = false -> z3_unesc_k 0 (enc [48] [c_q] s) = s.
Proof.
  induction s as [|c r IH]; intro Hh; [reflexivity|]. apply K_hi_cons in Hh as [Hg Hh].
  specialize (IH Hh). rewrite enc_cons. destruct (is_uesc c r) eqn:Eu.
  - destruct (uesc_facts c r Hg Eu) as (H1 & H2 & H3 & H4). cbv zeta in *.
    unfold uesc. rewrite <- !app_assoc.
    rewrite (unesc_uesc (hx [48] c) c) by (try assumption; apply gc_bound, Hg).
    rewrite IH. reflexivity.
  - destruct (raw_facts c r Hg Eu) as (_ & Hc & Hbs).
    assert (E : (if c =? c_q then [c_q] else [c]) = [c]).
    { destruct (c =? c_q) eqn:Eq; [apply N.eqb_eq in Eq; subst c|]; reflexivity. }
    rewrite E. simpl app. destruct (N.eq_dec c 92) as [Ec|Ec].
    + subst c. change 92 with c_bs. rewrite unesc_bs_notu, IH; [reflexivity|].
      apply enc_head_not; [discriminate|reflexivity|discriminate|apply Hbs; reflexivity].
    + rewrite z3_unesc_k0_cons by exact Ec. rewrite IH. unfold sx_byte.
      replace (128 <=? c) with false by (symmetry; apply N.leb_gt; exact Hc). reflexivity.
Qed.

(* ---------- the round trip under the guard of the recorded class ---------- *)
Theorem escape_roundtrip_exact s rest :
  K_str s = false -> read_lit (str_lit s ++ rest) = Some (s, rest).
Proof.
  unfold K_str. intro H. apply orb_false_iff in H as [Hb Hh].
  rewrite str_lit_enc by exact Hh.
  unfold read_lit, lex_string.
  change (([c_q] ++ enc [48] [c_bs; c_q] s ++ [c_q]) ++ rest)
    with (c_q :: ((enc [48] [c_bs; c_q] s ++ [c_q]) ++ rest)).
  rewrite <- app_assoc. change ([c_q] ++ rest) with (c_q :: rest).
  rewrite N.eqb_refl.
  rewrite lex_tok; [| apply tok_enc; assumption | rewrite app_length; simpl; lia].
  rewrite prep_enc by assumption.
  rewrite utf8_small by (apply enc_small, Hh).
  rewrite scan_enc by exact Hh. unfold z3_unesc. rewrite unesc_enc by exact Hh. reflexivity.
Qed.

(* the guard is exactly the complement of the recorded class: with the two refutations
   (escape_roundtrip_refuted_backslash / _nonascii) both halves of K_str are needed *)
Example escape_roundtrip_exact_nonvacuous :
  let s := [0; 92; 110; 92; 117; 123; 125; 34; 256; 92; 0; 196607; 92; 92; 97; 127; 92; 256] in
  K_str s = false /\ safe s = false /\ read_lit (str_lit s ++ [41]) = Some (s, [41]) /\
  str_lit s = lit """\u{0}\n\u{5c}u{}\""\u{100}\\u{0}\u{2ffff}\\a" ++ [127] ++ lit "\\u{100}""".
Proof. cbv zeta. repeat split; vm_compute; reflexivity. Qed.
