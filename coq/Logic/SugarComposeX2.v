(* C08 wave 4 — END-TO-END theorem with one XPath expression and the relaxed guard sugar_guard_xp1b: the second pass of
   ensure_unique_bound_variables may rename (XPath on a type with >= 2 alternatives and a quantified body). Proof = the one
   of SugarComposeX.sugar_core_xpath1 with the alpha-renaming theorem for the second pass. *)
From Coq Require Import List NArith Bool Arith Lia.
Import ListNotations.
From ISLA Require Import Str Outcome Tree Grammar Formula Sugar SugarFacts SugarMore SugarXPath SugarTotal SugarClose SugarUniq SugarWalk
  SugarCompose SugarGhost SugarAddm SugarComposeX SugarFresh SugarAlpha SugarAlpha2 SugarAlpha3 SugarCompose2.

Section ComposeX2.
  Variable D : Type.
  Variable aev : N -> list D -> bool.
  Variable pev : str -> list (D + str) -> bool.
  Variable dom : D -> var -> option mexpr -> list (list (var * D)).
  Variable idom : list D.
  Variable tval : tree -> D.
  Hypothesis dom_ext : forall d v m k, mexpr_eqb m k = true -> dom d v m = dom d v k.
  Hypothesis dom_keys : forall d v m asg, In asg (dom d v m) ->
    forall x, existsb (fun p => var_eqb (fst p) x) asg = vmem x (qbound v m).
  Hypothesis dom_ren : forall s d v m, kt_pres (rlook s) ->
    dom d (rlook s v) (sub_me s m) = map (ren_asg (rlook s)) (dom d v m).
  Notation ev := (ev D aev pev dom idom tval).

  Theorem sugar_core_xpath1b : forall g s c, sugar_guard_xp1b g s = true -> elab g s = Ok c ->
    exists c', elab_doc_xp1 g s = Ok c' /\
      forall rho, (forall v, In v (sugar_closure_vars s) -> K_pushin_empty D dom tval rho v (InVar start_c) None = false) ->
        ev rho c = ev rho c'.
  Proof.
    intros g s c H Hc. unfold sugar_guard_xp1b in H.
    destruct (walk0 s) as [[st f0]|e] eqn:Ew; [|discriminate].
    destruct (walkd0 s) as [[std fd]|e] eqn:Ewd; [|discriminate].
    destruct (w_xp st) as [|[[|seg0 [|]] fvr] [|]] eqn:Hx; try discriminate.
    apply andb_true_iff in H as [H H5]. apply andb_true_iff in H as [H Hp0]. apply andb_true_iff in H as [H Hfn].
    apply andb_true_iff in H as [H Hlen]. apply negb_true_iff in H.
    destruct (uniq_pre_use _ Hp0) as [Ha0 [Hn0 Hu0]].
    destruct (uniq (S (fsize f0)) [] f0) as [[f1 U1]|e] eqn:Eu1; [|discriminate].
    apply andb_true_iff in H5 as [H5 H6]. apply andb_true_iff in H5 as [H5 Hsf]. apply andb_true_iff in H5 as [Hcp Hfv].
    set (used1 := sunion (sform_names s) (names (allvars f1))) in *.
    destruct (close_fnt used1 st f1) as [r|e] eqn:Ec; [|discriminate].
    destruct (close_fnt_varroot _ _ _ _ _ _ Hx H Hfn Ec) as [f2 [Er Eloop]]. subst r.
    destruct (find_var (xroot [seg0]) f2) as [first|] eqn:Ef; [|discriminate].
    destruct (find_var (xroot [seg0]) (nest (closure_vars st) fd)) as [first'|] eqn:Efd; [|discriminate].
    apply andb_true_iff in H6 as [H6 H7]. apply andb_true_iff in H6 as [H6 Hmb]. apply andb_true_iff in H6 as [H6 Hfc].
    apply var_eqb_eq in H6. subst first'.
    destruct (close_xp (S (2 * xp_size [([seg0], fvr)])) g used1 [([seg0], fvr)] f2) as [f3|e] eqn:E3; [|discriminate].
    (* the run of elab *)
    assert (Ew' := Ew). unfold walk0 in Ew'.
    destruct (walk_equiv D aev pev dom idom tval dom_ext _ _ _ _ _ _ Ew') as [fd' [Ed _]].
    unfold walkd0 in Ewd. rewrite Ed in Ewd. inversion Ewd. subst std fd'. clear Ewd.
    destruct (uniq_pre2_sound D aev pev dom idom tval dom_ext dom_keys dom_ren _ H7) as [_ [f4 [U4 [Eu4 S4]]]].
    unfold elab in Hc. unfold walk0 in Ew. rewrite Ew in Hc. cbn [bind] in Hc. rewrite Eu1 in Hc. cbn [bind] in Hc.
    fold used1 in Hc. rewrite Ec in Hc. cbn [bind] in Hc. rewrite E3 in Hc. cbn [bind] in Hc. rewrite Eu4 in Hc. cbn [bind] in Hc.
    destruct (forallb _ (fv f4)); [|discriminate]. inversion Hc; subst c.
    (* the single close_xp step *)
    assert (Hk : exists k, 2 * xp_size [([seg0], fvr)] = S k) by (simpl; eexists; reflexivity).
    destruct Hk as [k Hk]. rewrite Hk in E3.
    destruct (close_xp_one _ _ _ _ _ _ _ Hlen E3) as [first2 [Ef2 [Hms Ea]]].
    pose proof (eq_trans (eq_sym Ef) Ef2) as Efe. inversion Efe; subst first2. clear Efe.
    set (ms := xp_mexprs g first fvr seg0) in *.
    exists (addm_doc first ms (nest (closure_vars st) fd)). split.
    { unfold elab_doc_xp1. rewrite Ed. cbn [bind]. rewrite Hx, Efd. reflexivity. }
    intros rho Hne. unfold sugar_closure_vars, walk0 in Hne. rewrite Ew in Hne.
    rewrite (S4 rho).
    rewrite (addm_sem D aev pev dom idom tval dom_ext first ms Hms f2 f3 Ea rho).
    rewrite (addm_doc_sem D aev pev dom idom tval first ms).
    (* now everything over domX *)
    assert (HextX := domX_ext D dom dom_ext first ms).
    assert (Hmsb : forall me, In me ms -> me_bound (Some me) = [fvr]).
    { intros me Hme. rewrite forallb_forall in Hmb. apply (leqb_eq var_eqb var_eqb_eq). apply Hmb. exact Hme. }
    assert (HkeysX := domX_keys D dom dom_keys first ms fvr Hmsb).
    destruct (close_pre_use _ _ Hcp) as [Hnd [Hs [Hbv [Hsb Hok]]]].
    apply negb_true_iff in Hfv, Hsf, Hfc. apply vmem_false in Hfv, Hfc.
    assert (Hgs : forall w m, ghostX first fvr w m start_c = false).
    { intros w [m|]; simpl; [reflexivity|]. rewrite Hsf. apply andb_false_r. }
    assert (Hg : forall v, In v (closure_vars st) ->
               (forall x, ghostX first fvr v None x = false) /\ (forall w m, ghostX first fvr w m v = false)).
    { intros v Hv. split.
      - intros x. simpl. destruct (var_eqb v first) eqn:E; [|reflexivity]. apply var_eqb_eq in E. subst v. contradiction.
      - intros w [m|]; simpl; [reflexivity|]. destruct (var_eqb v fvr) eqn:E; [|apply andb_false_r].
        apply var_eqb_eq in E. subst v. contradiction. }
    rewrite (close_loop_soundG D aev pev (domX D dom first ms) idom tval (ghostX first fvr) HkeysX
               (closure_vars st) f1 f2 rho Eloop Hnd Hs Hg Hgs Hbv Hsb Hok).
    2:{ intros v Hv. rewrite (domX_other D dom first ms).
        - intros E0. specialize (Hne v Hv). unfold K_pushin_empty in Hne. simpl in Hne. rewrite E0 in Hne. discriminate.
        - destruct (var_eqb v first) eqn:E; [|reflexivity]. apply var_eqb_eq in E. subst v. contradiction. }
    apply (nest_congrG D aev pev (domX D dom first ms) idom tval (ghostX first fvr) HkeysX); [exact Hs|exact Hgs|].
    intros rho' _.
    destruct (uniq_nodup_sound D aev pev (domX D dom first ms) idom tval HextX (S (fsize f0)) [] f0 (Nat.lt_succ_diag_r _) Ha0 Hn0 Hu0)
      as [f1' [U1' [Eu1' [S1 _]]]].
    rewrite Eu1 in Eu1'. inversion Eu1'; subst f1' U1'. rewrite (S1 rho').
    destruct (walk_equiv D aev pev (domX D dom first ms) idom tval HextX _ _ _ _ _ _ Ew) as [fd' [Ed' Sd]].
    rewrite Ed in Ed'. inversion Ed'; subst fd'. apply Sd.
  Qed.
End ComposeX2.

(* totality does not depend on the semantic parameters: instantiate with the empty domains *)
Theorem elab_total_noxpath2 : forall g s, sugar_guard_nox2 s = true ->
  (exists c, elab g s = Ok c) \/ elab g s = Raise SyntaxErr.
Proof.
  intros g s H.
  refine (elab_total_nox2 unit (fun _ _ => true) (fun _ _ => true) (fun _ _ _ => []) [] (fun _ => tt)
           (fun _ _ _ _ _ => eq_refl) _ (fun _ _ _ _ _ => eq_refl) g s H).
  intros d v m asg [].
Qed.

(* non-vacuity.  (1) XPath-free, pass 1 renames: (forall <a> a: a = "x") and (forall <a> a: a = "z") and <b> = "y".
   (2) one XPath, two grammar alternatives, quantified body (pass 2 renames):
       forall <s> x in start: (x.<a> = "x" and exists <b> y in x: y = "y")  over  <s> ::= <a> | <a><b>.
   Both are OUTSIDE the wave-3 guards and inside the relaxed ones. *)
Definition S_ren : sform :=
  SAnd (SAnd (SQ true (nt 97) (Some [97]%N) InDefault None (SAtom true 1 [TVar [97]%N]))
             (SQ true (nt 97) (Some [97]%N) InDefault None (SAtom true 3 [TVar [97]%N])))
       (SAtom true 2 [TFree (nt 98)]).
Definition S_xp2 : sform := SQ true (nt 115) (Some [120]%N) InDefault None
  (SAnd (SAtom true 1 [TXPath [[([120]%N, 0); (nt 97, 0)]]])
        (SQ false (nt 98) (Some [121]%N) (InName [120]%N) None (SAtom true 2 [TVar [121]%N]))).
Example sugar_core2_nonvacuous :
  sugar_guard_nox S_ren = false /\ sugar_guard_nox2 S_ren = true /\
  (exists c c', elab G0 S_ren = Ok c /\ elab_doc_nox S_ren = Ok c' /\ cf_eqb c c' = false) /\
  sugar_guard_xp1 G0 S_xp2 = false /\ sugar_guard_xp1b G0 S_xp2 = true /\
  (exists c c', elab G0 S_xp2 = Ok c /\ elab_doc_xp1 G0 S_xp2 = Ok c' /\ cf_eqb c c' = false).
Proof.
  split; [vm_compute; reflexivity|]. split; [vm_compute; reflexivity|]. split.
  { eexists. eexists. split; [vm_compute; reflexivity|]. split; vm_compute; reflexivity. }
  split; [vm_compute; reflexivity|]. split; [vm_compute; reflexivity|].
  eexists. eexists. split; [vm_compute; reflexivity|]. split; vm_compute; reflexivity.
Qed.
