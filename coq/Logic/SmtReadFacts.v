(* C07 — the inside of SMT atoms: read_sexpr (smt_str e) = Some e for the well-formed class wf_smt
   (operators of the reader's table under their decl names, variables that are ISLa IDs and no
   builtin words, string values outside the recorded class K_str, integers, true/false, the zero-ary
   regular expressions, indexed re.loop / re.^); and parse_full (unparse f) = Some (binl f). *)
From ISLA Require Import Unparse UnparseFacts UnparseMore UnparseHex UnparseEsc
     ParseCore ParseCoreFacts ParseCoreMore ParseCoreNary SmtRead.
From Coq Require Import Lia ZArith String ZifyBool ZifyN DecimalN.
Import ListNotations.
Open Scope N_scope.

(* ---------- induction over s-expressions ---------- *)
Section SxInd.
  Variable P : sx -> Prop.
  Hypothesis Hvar : forall n, P (SVar n).
  Hypothesis Hstr : forall s, P (SStr s).
  Hypothesis Hint : forall z, P (SInt z).
  Hypothesis Htrue : P STrue.
  Hypothesis Hfalse : P SFalse.
  Hypothesis Happ : forall k n args, Forall P args -> P (SApp k n args).
  Fixpoint sx_ind' (e : sx) : P e :=
    match e with
    | SVar n => Hvar n | SStr s => Hstr s | SInt z => Hint z | STrue => Htrue | SFalse => Hfalse
    | SApp k n args =>
        Happ k n args ((fix go (l : list sx) : Forall P l :=
                          match l with [] => Forall_nil P | x :: r => Forall_cons x (sx_ind' x) (go r) end) args)
    end.
End SxInd.

(* ---------- the class ---------- *)
Definition wf_headb (k : opk) (name : str) : bool :=
  match k with
  | KInRe => str_eqb name (lit "str.in_re")
  | KSeqConcat => str_eqb name (lit "str.++")
  | KReConcat => str_eqb name (lit "re.++")
  | KStrToInt => str_eqb name (lit "str.to_int")
  | KLoop _ _ => str_eqb name (lit "re.loop")
  | KPower _ => str_eqb name (lit "re.^")
  | KLoopShort _ => false                           (* class K_loop_arity: not printable *)
  | KOther => mem name app_ops                      (* excludes not / if / str.< : class K_smt_op *)
  end.
Fixpoint wf_smtb (e : sx) : bool :=
  match e with
  | SVar n => is_name n && negb (mem n nullary_ops) && negb (mem n app_ops) && negb (mem n special_ops)
  | SStr s => negb (K_str s)
  | SInt _ | STrue | SFalse => true
  | SApp k name args =>
      match args with
      | [] => match k with KOther => mem name nullary_ops | _ => false end
      | _ => wf_headb k name && forallb wf_smtb args
      end
  end.
Definition wf_smt (e : sx) : Prop := wf_smtb e = true.

(* ---------- characters ---------- *)
Lemma idc_nws c : is_idc c = true -> is_ws c = false.
Proof. unfold is_idc, is_letter, is_digit, is_ws. lia. Qed.
Lemma idc_facts c : is_idc c = true -> (c =? c_q) = false /\ (c =? 40) = false /\ (c =? 41) = false /\ is_wsc c = false.
Proof. unfold is_idc, is_letter, is_digit, is_wsc, c_q. lia. Qed.
Lemma wordc_facts c : wordc c = true -> (c =? c_q) = false /\ (c =? 40) = false /\ (c =? 41) = false /\ is_wsc c = false.
Proof.
  unfold wordc, is_delim, punct. rewrite negb_true_iff. intro H.
  destruct (is_wsc c); [discriminate|]. destruct (c =? 40); [discriminate|]. destruct (c =? c_q); [discriminate|].
  destruct (c =? 41); [discriminate|]. auto.
Qed.

Definition dstart (rest : str) : Prop := match rest with [] => True | d :: _ => is_delim d = true end.

Lemma head_word_d w : forall rest, forallb wordc w = true -> dstart rest -> head_word (w ++ rest) = (w, rest).
Proof.
  induction w as [|c r IH]; intros rest Hw Hd.
  - destruct rest as [|d s]; [reflexivity|]. simpl in *. rewrite Hd. reflexivity.
  - simpl in Hw. apply andb_true_iff in Hw as [Hc Hr]. simpl. unfold wordc in Hc. apply negb_true_iff in Hc.
    rewrite Hc, (IH rest Hr Hd). reflexivity.
Qed.

Lemma skip_ws_sp s : skip_ws (32 :: s) = skip_ws s.
Proof. reflexivity. Qed.
Lemma skip_ws_nws c r : is_wsc c = false -> skip_ws (c :: r) = c :: r.
Proof. intro H. simpl. rewrite H. reflexivity. Qed.
Lemma skip_ws_word w s : forallb wordc w = true -> w <> [] -> skip_ws (w ++ s) = w ++ s.
Proof.
  intros Hw Hne. destruct w as [|c r]; [congruence|]. simpl in Hw. apply andb_true_iff in Hw as [Hc _].
  apply wordc_facts in Hc. destruct Hc as (_ & _ & _ & Hc). simpl app. apply skip_ws_nws. exact Hc.
Qed.

(* ---------- first and last character of a printed s-expression ---------- *)
Definition hd_ok (t : str) : Prop :=
  exists c r, t = c :: r /\ is_ws c = false /\ is_wsc c = false /\ (c =? 41) = false.
Definition tl_ok (t : str) : Prop := exists s0 z, t = s0 ++ [z] /\ is_ws z = false.

Lemma idc_edges t : forallb is_idc t = true -> t <> [] -> hd_ok t /\ tl_ok t.
Proof.
  intros H Hne. split.
  - destruct t as [|c r]; [congruence|]. simpl in H. apply andb_true_iff in H as [Hc _].
    exists c, r. pose proof (idc_facts c Hc) as (_ & _ & H41 & Hw). pose proof (idc_nws c Hc). auto.
  - destruct (exists_last Hne) as (s0 & z & E). subst t. rewrite forallb_app in H.
    apply andb_true_iff in H as [_ Hz]. simpl in Hz. rewrite andb_true_r in Hz.
    exists s0, z. split; [reflexivity | apply idc_nws; exact Hz].
Qed.

Lemma strip_id t : hd_ok t -> tl_ok t -> strip t = t.
Proof.
  intros (c & r & E & Hc & _ & _) (s0 & z & E2 & Hz). unfold strip.
  assert (L1 : lstrip t = t) by (rewrite E; simpl; rewrite Hc; reflexivity).
  rewrite L1, E2, rev_unit. simpl. rewrite Hz. simpl. rewrite rev_involutive. reflexivity.
Qed.

Lemma tl_ok_app a b : tl_ok b -> tl_ok (a ++ b).
Proof. intros (s0 & z & E & Hz). exists (a ++ s0), z. rewrite E, app_assoc. auto. Qed.
Lemma hd_ok_app a b : hd_ok a -> hd_ok (a ++ b).
Proof. intros (c & r & E & H). exists c, (r ++ b). rewrite E. auto. Qed.

Lemma join_sp_edges (l : list str) : l <> [] -> Forall (fun t => hd_ok t /\ tl_ok t) l ->
  hd_ok (join [32] l) /\ tl_ok (join [32] l).
Proof.
  induction l as [|a r IH]; intros Hne HF; [congruence|].
  inversion HF as [|? ? [Ha1 Ha2] Hr]; subst.
  destruct r as [|b r']; [simpl; auto|].
  rewrite join_cons_ne by discriminate. split.
  - apply hd_ok_app. exact Ha1.
  - apply tl_ok_app. apply (tl_ok_app [32]). apply IH; [discriminate | exact Hr].
Qed.

(* ---------- the tables ---------- *)
Lemma mem_In' x l : mem x l = true -> In x l.
Proof. apply mem_In. Qed.

Lemma app_ops_facts w : In w app_ops ->
  forallb wordc w = true /\ w <> [] /\ op_of_word w = Some (KOther, w).
Proof.
  unfold app_ops. intro H.
  repeat (destruct H as [<-|H]; [split; [reflexivity|split; [discriminate|reflexivity]]|]).
  destruct H.
Qed.
Lemma nullary_facts w : In w nullary_ops ->
  forallb is_idc w = true /\ w <> [] /\ rd_word w = Some (SApp KOther w []).
Proof.
  unfold nullary_ops. intro H.
  repeat (destruct H as [<-|H]; [split; [reflexivity|split; [discriminate|reflexivity]]|]).
  destruct H.
Qed.

(* ---------- unfolding ---------- *)
Lemma rd_q k r : rd (S k) (c_q :: r) =
  match read_lit (c_q :: r) with Some (v, rest) => Some (SStr v, rest) | None => None end.
Proof. reflexivity. Qed.
Lemma rd_lp k r : rd (S k) (40 :: r) =
  match rd_head r with
  | Some (op, n, t) => match rd_list k (skip_ws t) with
                       | Some (a :: args, rest) => Some (SApp op n (a :: args), rest)
                       | _ => None
                       end
  | None => None
  end.
Proof. reflexivity. Qed.
Lemma rd_w k c r : (c =? c_q) = false -> (c =? 40) = false ->
  rd (S k) (c :: r) = let (w, t) := head_word (c :: r) in
                      match rd_word w with Some e => Some (e, t) | None => None end.
Proof. intros H1 H2. simpl rd. rewrite H1, H2. reflexivity. Qed.
Lemma rd_list_rp k r : rd_list (S k) (41 :: r) = Some ([], r).
Proof. reflexivity. Qed.
Lemma rd_list_step k c r : (c =? 41) = false ->
  rd_list (S k) (c :: r) =
  match rd k (c :: r) with
  | Some (e, t) => match rd_list k (skip_ws t) with Some (l, r') => Some (e :: l, r') | None => None end
  | None => None
  end.
Proof. intro H. simpl rd_list. rewrite H. reflexivity. Qed.

Lemma rd_list_step' k s c r : s = c :: r -> (c =? 41) = false ->
  rd_list (S k) s =
  match rd k s with
  | Some (e, t) => match rd_list k (skip_ws t) with Some (l, r') => Some (e :: l, r') | None => None end
  | None => None
  end.
Proof. intros -> H. apply rd_list_step. exact H. Qed.
Lemma rd_q' k s r : s = c_q :: r -> rd (S k) s =
  match read_lit s with Some (v, rest) => Some (SStr v, rest) | None => None end.
Proof. intros ->. reflexivity. Qed.

(* ---------- words ---------- *)
Lemma rd_wordlike w e : forallb is_idc w = true -> w <> [] -> rd_word w = Some e ->
  forall k rest, dstart rest -> rd (S k) (w ++ rest) = Some (e, rest).
Proof.
  intros Hw Hne He k rest Hd. destruct w as [|c r]; [congruence|].
  pose proof Hw as Hw'. simpl in Hw'. apply andb_true_iff in Hw' as [Hc _].
  destruct (idc_facts c Hc) as (H1 & H2 & _ & _).
  change ((c :: r) ++ rest) with (c :: (r ++ rest)). rewrite rd_w by assumption.
  change (c :: (r ++ rest)) with ((c :: r) ++ rest).
  rewrite head_word_d; [|apply (forallb_imp is_idc); [apply idc_wordc | exact Hw] | exact Hd].
  rewrite He. reflexivity.
Qed.

Lemma In_keywords_true : In (lit "true") keywords. Proof. simpl. tauto. Qed.
Lemma In_keywords_false : In (lit "false") keywords. Proof. simpl. tauto. Qed.

Lemma rd_word_name n :
  is_name n = true -> mem n nullary_ops = false -> mem n app_ops = false -> mem n special_ops = false ->
  rd_word n = Some (SVar n).
Proof.
  intros Hn H1 H2 H3. unfold rd_word.
  rewrite (name_nokw n _ Hn In_keywords_true), (name_nokw n _ Hn In_keywords_false).
  destruct n as [|c r]; [discriminate|].
  assert (Hl : is_letter c = true).
  { unfold is_name, is_id in Hn. apply andb_true_iff in Hn as [Hn _]. apply andb_true_iff in Hn as [Hn _]. exact Hn. }
  rewrite (letter_not_num c Hl), H1, Hn, H2, H3. reflexivity.
Qed.

Lemma num_not_kw c r : is_digit c || (c =? 45) = true ->
  str_eqb (c :: r) (lit "true") = false /\ str_eqb (c :: r) (lit "false") = false.
Proof.
  intro H. simpl. assert (A : (c =? 116) = false) by (unfold is_digit in H; lia).
  assert (B : (c =? 102) = false) by (unfold is_digit in H; lia). rewrite A, B. auto.
Qed.

Lemma dec_Z_cases z : exists n, (dec_Z z = dec_N n /\ z = Z.of_N n) \/ (dec_Z z = 45 :: dec_N n /\ z = Z.opp (Z.of_N n)).
Proof.
  destruct z as [|p|p].
  - exists 0. left. split; reflexivity.
  - exists (Npos p). left. split; reflexivity.
  - exists (Npos p). right. split; reflexivity.
Qed.

Lemma dec_N_first n : exists c r, dec_N n = c :: r /\ is_digit c = true.
Proof.
  pose proof (dec_N_ne n) as Hne. pose proof (uint_digits (N.to_uint n)) as Hd. unfold dec_N in *.
  destruct (uint_str (N.to_uint n)) as [|c r]; [congruence|]. simpl in Hd. apply andb_true_iff in Hd as [Hc _].
  exists c, r. auto.
Qed.
Lemma dec_N_idc n : forallb is_idc (dec_N n) = true.
Proof. unfold dec_N. apply (forallb_imp is_digit); [apply digit_idc | apply uint_digits]. Qed.

Lemma dec_Z_idc z : forallb is_idc (dec_Z z) = true /\ dec_Z z <> [].
Proof.
  destruct (dec_Z_cases z) as (n & [[E _]|[E _]]); rewrite E.
  - split; [apply dec_N_idc | apply dec_N_ne].
  - split; [simpl; apply dec_N_idc | discriminate].
Qed.

Lemma rd_word_num w c r z : w = c :: r -> is_digit c || (c =? 45) = true -> int_of_word w = Some z ->
  rd_word w = Some (SInt z).
Proof.
  intros E Hk Hi. destruct (num_not_kw c r Hk) as [A B]. rewrite <- E in A, B.
  unfold rd_word. rewrite A, B, Hi. rewrite E. cbv beta iota. rewrite Hk. reflexivity.
Qed.
Lemma rd_word_int z : rd_word (dec_Z z) = Some (SInt z).
Proof.
  destruct (dec_Z_cases z) as (n & [[E Ez]|[E Ez]]); rewrite E; subst z.
  - destruct (dec_N_first n) as (c & r & Ec & Hc).
    apply (rd_word_num _ c r); [exact Ec | rewrite Hc; reflexivity | apply int_of_dec].
  - apply (rd_word_num _ 45 (dec_N n)); [reflexivity | reflexivity | apply int_of_neg].
Qed.

Lemma rd_nat_dec n : rd_nat (dec_N n) = Some n.
Proof.
  unfold rd_nat. pose proof (dec_N_ne n) as Hne. destruct (dec_N n) as [|c r] eqn:E; [congruence|].
  rewrite <- E. unfold dec_N. rewrite uint_rt, DecimalN.Unsigned.of_to. reflexivity.
Qed.

(* ---------- operator position ---------- *)
Lemma rd_head_word w k n t : forallb wordc w = true -> w <> [] -> op_of_word w = Some (k, n) ->
  rd_head (w ++ 32 :: t) = Some (k, n, 32 :: t).
Proof.
  intros Hw Hne Ho. unfold rd_head. rewrite skip_ws_word by assumption.
  destruct w as [|c r]; [congruence|]. pose proof Hw as Hw'. simpl in Hw'. apply andb_true_iff in Hw' as [Hc _].
  destruct (wordc_facts c Hc) as (_ & H40 & _ & _).
  change ((c :: r) ++ 32 :: t) with (c :: (r ++ 32 :: t)). cbv beta iota. rewrite H40.
  change (c :: (r ++ 32 :: t)) with ((c :: r) ++ 32 :: t).
  rewrite head_word_word by (exact Hw || reflexivity). rewrite Ho. reflexivity.
Qed.

Lemma hw_step w d s : forallb wordc w = true -> is_delim d = true -> head_word (w ++ d :: s) = (w, d :: s).
Proof. apply head_word_word. Qed.

Lemma rd_indexed_loop da db a b t :
  forallb is_digit da = true -> da <> [] -> rd_nat da = Some a ->
  forallb is_digit db = true -> db <> [] -> rd_nat db = Some b ->
  rd_indexed (lit "_ re.loop " ++ da ++ [32] ++ db ++ [41] ++ t) = Some (KLoop a b, lit "re.loop", t).
Proof.
  intros Ha Hane Ea Hb Hbne Eb.
  change (lit "_ re.loop " ++ da ++ [32] ++ db ++ [41] ++ t)
    with (lit "_" ++ 32 :: (lit "re.loop" ++ 32 :: (da ++ 32 :: (db ++ 41 :: t)))).
  unfold rd_indexed.
  rewrite (skip_ws_word (lit "_")) by (reflexivity || discriminate).
  rewrite hw_step by reflexivity. cbv beta iota.
  rewrite str_eqb_refl. rewrite skip_ws_sp.
  rewrite (skip_ws_word (lit "re.loop")) by (reflexivity || discriminate).
  rewrite hw_step by reflexivity. cbv beta iota.
  rewrite skip_ws_sp, (skip_ws_word da) by (try apply digits_word; assumption).
  rewrite hw_step by (try apply digits_word; try assumption; reflexivity). cbv beta iota.
  rewrite Ea.
  change (str_eqb (lit "re.loop") (lit "re.^")) with false. cbv iota.
  rewrite str_eqb_refl. rewrite skip_ws_sp, (skip_ws_word db) by (try apply digits_word; assumption).
  destruct db as [|c r]; [congruence|].
  pose proof Hb as Hb'. simpl in Hb'. apply andb_true_iff in Hb' as [Hc _].
  destruct (idc_facts c (digit_idc c Hc)) as (_ & _ & H41 & _).
  change ((c :: r) ++ 41 :: t) with (c :: (r ++ 41 :: t)). cbv beta iota. rewrite H41.
  change (c :: (r ++ 41 :: t)) with ((c :: r) ++ 41 :: t).
  rewrite hw_step by (try apply digits_word; try assumption; reflexivity).
  rewrite Eb. rewrite skip_ws_nws by reflexivity. reflexivity.
Qed.

Lemma rd_indexed_pow da a t :
  forallb is_digit da = true -> da <> [] -> rd_nat da = Some a ->
  rd_indexed (lit "_ re.^ " ++ da ++ [41] ++ t) = Some (KPower a, lit "re.^", t).
Proof.
  intros Ha Hane Ea.
  change (lit "_ re.^ " ++ da ++ [41] ++ t) with (lit "_" ++ 32 :: (lit "re.^" ++ 32 :: (da ++ 41 :: t))).
  unfold rd_indexed.
  rewrite (skip_ws_word (lit "_")) by (reflexivity || discriminate).
  rewrite hw_step by reflexivity. cbv beta iota.
  rewrite str_eqb_refl. rewrite skip_ws_sp.
  rewrite (skip_ws_word (lit "re.^")) by (reflexivity || discriminate).
  rewrite hw_step by reflexivity. cbv beta iota.
  rewrite skip_ws_sp, (skip_ws_word da) by (try apply digits_word; assumption).
  rewrite hw_step by (try apply digits_word; try assumption; reflexivity). cbv beta iota.
  rewrite Ea, str_eqb_refl. rewrite skip_ws_nws by reflexivity. reflexivity.
Qed.

Lemma dec_N_digits n : forallb is_digit (dec_N n) = true.
Proof. unfold dec_N. apply uint_digits. Qed.

Lemma rd_head_ok k name t : wf_headb k name = true ->
  rd_head (op_text k name ++ 32 :: t) = Some (k, name, 32 :: t).
Proof.
  intro H. destruct k as [| | | |a b|ps|a|]; unfold wf_headb in H; try discriminate;
    try (apply str_eqb_eq in H; subst name).
  - apply rd_head_word; (reflexivity || discriminate).
  - apply rd_head_word; (reflexivity || discriminate).
  - apply rd_head_word; (reflexivity || discriminate).
  - apply rd_head_word; (reflexivity || discriminate).
  - unfold op_text. unfold rd_head.
    change ((lit "(_ re.loop " ++ dec_N a ++ [32] ++ dec_N b ++ [41]) ++ 32 :: t)
      with (40 :: ((lit "_ re.loop " ++ dec_N a ++ [32] ++ dec_N b ++ [41]) ++ 32 :: t)).
    rewrite skip_ws_nws by reflexivity. cbv beta iota. change (40 =? 40) with true. cbv iota.
    rewrite <- !app_assoc.
    apply rd_indexed_loop; (apply dec_N_digits || apply dec_N_ne || apply rd_nat_dec).
  - unfold op_text. unfold rd_head.
    change ((lit "(_ re.^ " ++ dec_N a ++ [41]) ++ 32 :: t)
      with (40 :: ((lit "_ re.^ " ++ dec_N a ++ [41]) ++ 32 :: t)).
    rewrite skip_ws_nws by reflexivity. cbv beta iota. change (40 =? 40) with true. cbv iota.
    rewrite <- !app_assoc.
    apply rd_indexed_pow; (apply dec_N_digits || apply dec_N_ne || apply rd_nat_dec).
  - apply mem_In' in H. destruct (app_ops_facts name H) as (Hw & Hne & Ho).
    unfold op_text. apply rd_head_word; assumption.
Qed.

(* ---------- shape of the printed text ---------- *)
Lemma wf_var_parts n : wf_smtb (SVar n) = true ->
  is_name n = true /\ mem n nullary_ops = false /\ mem n app_ops = false /\ mem n special_ops = false.
Proof.
  simpl wf_smtb. rewrite !andb_true_iff, !negb_true_iff. tauto.
Qed.

Lemma wf_nullary k n : wf_smtb (SApp k n []) = true -> k = KOther /\ In n nullary_ops.
Proof.
  change (wf_smtb (SApp k n [])) with (match k with KOther => mem n nullary_ops | _ => false end).
  destruct k; try discriminate. intro H. split; [reflexivity | apply mem_In'; exact H].
Qed.

Lemma name_idc n : is_name n = true -> forallb is_idc n = true /\ n <> [].
Proof.
  unfold is_name, is_id. intro H. apply andb_true_iff in H as [H _].
  destruct n as [|c r]; [discriminate|]. apply andb_true_iff in H as [Hc Hr]. split; [|discriminate].
  simpl. rewrite (letter_idc c Hc), Hr. reflexivity.
Qed.

Lemma app_text k n a args :
  hd_ok (join [32] (map smt_str (a :: args))) -> tl_ok (join [32] (map smt_str (a :: args))) ->
  smt_str (SApp k n (a :: args)) = 40 :: op_text k n ++ 32 :: join [32] (map smt_str (a :: args)) ++ [41].
Proof.
  intros Hh Ht. set (J := join [32] (map smt_str (a :: args))) in *.
  change (smt_str (SApp k n (a :: args))) with (strip ([40] ++ op_text k n ++ [32] ++ J) ++ [41]).
  rewrite strip_id.
  - simpl. rewrite <- !app_assoc. reflexivity.
  - exists 40, (op_text k n ++ [32] ++ J). repeat split; reflexivity.
  - apply (tl_ok_app [40]). apply tl_ok_app. apply (tl_ok_app [32]). exact Ht.
Qed.

Lemma forallb_Forall {X} (p : X -> bool) l : forallb p l = true -> Forall (fun x => p x = true) l.
Proof. induction l as [|x r IH]; simpl; [constructor|]. rewrite andb_true_iff. intros [A B]. constructor; auto. Qed.

Lemma smt_edges e : wf_smtb e = true -> hd_ok (smt_str e) /\ tl_ok (smt_str e).
Proof.
  induction e as [n|s|z| | |k n args IH] using sx_ind'; intro H.
  - apply wf_var_parts in H. destruct H as (Hn & _). apply name_idc in Hn. destruct Hn. apply idc_edges; assumption.
  - simpl smt_str. unfold str_lit. split.
    + exists c_q, (fix_nul (esc_quotes (z3_lstring s)) ++ [c_q]). repeat split; reflexivity.
    + apply (tl_ok_app [c_q]). apply tl_ok_app. exists [], c_q. split; reflexivity.
  - simpl smt_str. destruct (dec_Z_idc z). apply idc_edges; assumption.
  - apply idc_edges; [reflexivity | discriminate].
  - apply idc_edges; [reflexivity | discriminate].
  - destruct args as [|a args].
    + apply wf_nullary in H. destruct H as [-> H]. destruct (nullary_facts n H) as (A & B & _).
      simpl smt_str. apply idc_edges; assumption.
    + change (wf_smtb (SApp k n (a :: args))) with (wf_headb k n && forallb wf_smtb (a :: args)) in H.
      apply andb_true_iff in H as [_ Hargs].
      assert (E : Forall (fun t => hd_ok t /\ tl_ok t) (map smt_str (a :: args))).
      { apply Forall_map. apply forallb_Forall in Hargs. rewrite Forall_forall in *.
        intros x Hx. apply IH; [exact Hx | apply Hargs; exact Hx]. }
      apply join_sp_edges in E; [|discriminate]. destruct E as [E1 E2].
      rewrite (app_text k n a args E1 E2). split.
      * exists 40, (op_text k n ++ 32 :: join [32] (map smt_str (a :: args)) ++ [41]). repeat split; reflexivity.
      * apply (tl_ok_app [40]). apply tl_ok_app. apply (tl_ok_app [32]). apply tl_ok_app. exists [], 41. split; reflexivity.
Qed.

(* ---------- the round trip ---------- *)
Definition rd_ok (e : sx) : Prop :=
  wf_smtb e = true -> forall fuel rest, (List.length (smt_str e) < fuel)%nat -> dstart rest ->
  rd fuel (smt_str e ++ rest) = Some (e, rest).

Lemma rd_list_ok l : l <> [] -> Forall rd_ok l -> forallb wf_smtb l = true ->
  forall fuel rest, (List.length (join [32%N] (map smt_str l)) + 1 < fuel)%nat ->
  rd_list fuel (join [32] (map smt_str l) ++ 41 :: rest) = Some (l, rest).
Proof.
  induction l as [|a r IH]; intros Hne HF Hw fuel rest Hf; [congruence|].
  inversion HF as [|? ? Ha Hr]; subst. simpl in Hw. apply andb_true_iff in Hw as [Hwa Hwr].
  destruct (smt_edges a Hwa) as [(c & r0 & Ec & _ & Hws & H41) _].
  destruct fuel as [|k]; [lia|].
  destruct r as [|b r'].
  - simpl map. simpl join. simpl in Hf.
    assert (X : smt_str a ++ 41 :: rest = c :: (r0 ++ 41 :: rest)) by (rewrite Ec; reflexivity).
    refine (eq_trans (rd_list_step' k _ c _ X H41) _).
    rewrite (Ha Hwa k (41 :: rest)); [|lia|reflexivity].
    rewrite skip_ws_nws by reflexivity.
    destruct k as [|k']; [lia|]. rewrite rd_list_rp. reflexivity.
  - change (map smt_str (a :: b :: r')) with (smt_str a :: map smt_str (b :: r')) in *.
    rewrite join_cons_ne by discriminate. rewrite join_cons_ne in Hf by discriminate.
    assert (Hk : (List.length (join [32%N] (map smt_str (b :: r'))) + 1 < k)%nat).
    { remember (join [32%N] (map smt_str (b :: r'))) as J. rewrite !app_length in Hf.
      change (@List.length chr [32]) with 1%nat in Hf. clear -Hf. lia. }
    assert (Hka : (List.length (smt_str a) < k)%nat).
    { remember (join [32%N] (map smt_str (b :: r'))) as J. rewrite !app_length in Hf. clear -Hf. lia. }
    rewrite <- !app_assoc.
    assert (X : smt_str a ++ [32] ++ join [32] (map smt_str (b :: r')) ++ 41 :: rest
                = c :: (r0 ++ [32] ++ join [32] (map smt_str (b :: r')) ++ 41 :: rest)) by (rewrite Ec; reflexivity).
    refine (eq_trans (rd_list_step' k _ c _ X H41) _).
    rewrite (Ha Hwa k); [|exact Hka|reflexivity].
    change ([32] ++ join [32] (map smt_str (b :: r')) ++ 41 :: rest)
      with (32 :: (join [32] (map smt_str (b :: r')) ++ 41 :: rest)).
    rewrite skip_ws_sp.
    assert (E : Forall (fun t => hd_ok t /\ tl_ok t) (map smt_str (b :: r'))).
    { apply Forall_map. apply forallb_Forall in Hwr. rewrite Forall_forall in *.
      intros x Hx. apply smt_edges. apply Hwr; exact Hx. }
    apply join_sp_edges in E; [|discriminate]. destruct E as [(c2 & r2 & E2 & _ & Hws2 & _) _].
    assert (Y : skip_ws (join [32] (map smt_str (b :: r')) ++ 41 :: rest) = join [32] (map smt_str (b :: r')) ++ 41 :: rest).
    { rewrite E2. simpl app. apply skip_ws_nws. exact Hws2. }
    rewrite Y. rewrite (IH ltac:(discriminate) Hr Hwr k rest Hk). reflexivity.
Qed.

Theorem rd_print e : rd_ok e.
Proof.
  induction e as [n|s|z| | |k n args IH] using sx_ind'; intros H fuel rest Hf Hd;
    (destruct fuel as [|fk]; [lia|]).
  - apply wf_var_parts in H. destruct H as (Hn & H1 & H2 & H3). destruct (name_idc n Hn) as [A B].
    apply rd_wordlike; try assumption. apply rd_word_name; assumption.
  - simpl in H. apply negb_true_iff in H. simpl smt_str.
    assert (X : exists r, str_lit s ++ rest = c_q :: r) by (eexists; unfold str_lit; reflexivity).
    destruct X as [r X]. rewrite (rd_q' fk _ r X). rewrite (escape_roundtrip_exact s rest H). reflexivity.
  - simpl smt_str. destruct (dec_Z_idc z) as [A B]. apply rd_wordlike; try assumption. apply rd_word_int.
  - apply (rd_wordlike (lit "true")); (reflexivity || discriminate || assumption).
  - apply (rd_wordlike (lit "false")); (reflexivity || discriminate || assumption).
  - destruct args as [|a args].
    + apply wf_nullary in H. destruct H as [-> H]. destruct (nullary_facts n H) as (A & B & C).
      simpl smt_str. apply rd_wordlike; assumption.
    + change (wf_smtb (SApp k n (a :: args))) with (wf_headb k n && forallb wf_smtb (a :: args)) in H.
      apply andb_true_iff in H as [Hh Hargs].
      assert (E : Forall (fun t => hd_ok t /\ tl_ok t) (map smt_str (a :: args))).
      { apply Forall_map. apply forallb_Forall in Hargs. rewrite Forall_forall in *.
        intros x Hx. apply smt_edges. apply Hargs; exact Hx. }
      apply join_sp_edges in E; [|discriminate]. destruct E as [E1 E2].
      rewrite (app_text k n a args E1 E2) in *.
      set (J := join [32] (map smt_str (a :: args))) in *.
      simpl app. rewrite rd_lp. rewrite <- !app_assoc.
      change ((32 :: J ++ [41]) ++ rest) with (32 :: ((J ++ [41]) ++ rest)). rewrite <- app_assoc.
      rewrite (rd_head_ok k n _ Hh). rewrite skip_ws_sp.
      destruct E1 as (c & r & Ec & _ & Hws & _).
      assert (HK : (List.length J + 1 < fk)%nat).
      { simpl List.length in Hf. rewrite !app_length in Hf. simpl List.length in Hf. rewrite !app_length in Hf. simpl List.length in Hf. clear -Hf. lia. }
      match goal with |- context [skip_ws ?x] =>
        replace (skip_ws x) with x by (symmetry; rewrite Ec; simpl app; apply skip_ws_nws; exact Hws) end.
      match goal with |- context [rd_list fk ?x] =>
        replace (rd_list fk x) with (Some (a :: args, rest))
          by (symmetry; exact (rd_list_ok (a :: args) ltac:(discriminate) IH Hargs fk rest HK)) end.
      reflexivity.
Qed.

Theorem smt_print_read e : wf_smt e -> read_sexpr (smt_str e) = Some e.
Proof.
  intro H. unfold read_sexpr.
  pose proof (rd_print e H (S (List.length (smt_str e))) [] ltac:(lia) I) as R.
  rewrite app_nil_r in R. rewrite R. reflexivity.
Qed.

(* the recorded class K_smt_op is outside: the printed text of `ite` (decl name `if`), of str.< and of a
   nested `not` is rejected by the reader — as by parse_isla *)
Theorem smt_print_read_refuted :
  exists e1 e2 e3, sx_bad true e1 = true /\ read_sexpr (smt_str e1) = None /\
                   sx_bad true e2 = true /\ read_sexpr (smt_str e2) = None /\
                   sx_bad true e3 = true /\ read_sexpr (smt_str e3) = None.
Proof.
  exists (SApp KOther (lit "=") [SApp KOther (lit "if") [SApp KOther (lit "=") [SVar (lit "v"); SVar (lit "v")]; SInt 1; SInt 2]; SInt 1]),
         (SApp KOther (lit "str.<") [SVar (lit "v"); SVar (lit "w")]),
         (SApp KOther (lit "or") [SApp KOther (lit "not") [SApp KOther (lit "=") [SVar (lit "v"); SStr (lit "a")]];
                                  SApp KOther (lit "=") [SVar (lit "v"); SStr (lit "b")]]).
  vm_compute. repeat split; reflexivity.
Qed.

Example smt_print_read_nonvacuous :
  let e := SApp KInRe (lit "str.in_re")
             [SVar (lit "x-1");
              SApp KReConcat (lit "re.++")
                [SApp (KLoop 1 0) (lit "re.loop") [SApp KOther (lit "str.to_re") [SStr [97; 34; 41; 92; 110; 0; 256]]];
                 SApp (KPower 3) (lit "re.^") [SApp KOther (lit "re.allchar") []];
                 SApp KOther (lit "re.range") [SStr (lit "a"); SStr (lit "(")]]] in
  let e2 := SApp KOther (lit "=") [SApp KStrToInt (lit "str.to_int") [SVar (lit "x-1")];
                                   SApp KOther (lit "-") [SInt (-12)%Z; SApp KOther (lit "str.len") [SVar (lit "y")]]] in
  wf_smt e /\ read_sexpr (smt_str e) = Some e /\ wf_smt e2 /\ read_sexpr (smt_str e2) = Some e2 /\
  smt_str e2 = lit "(= (str.to.int x-1) (- -12 (str.len y)))".
Proof. vm_compute. repeat split; reflexivity. Qed.

(* ---------- parse_full ---------- *)
Fixpoint fsatoms (f : cformula) : list satom :=
  match f with
  | FSmt a => [a]
  | FSPred _ _ | FSemPred _ _ => []
  | FNot g => fsatoms g
  | FAnd fs | FOr fs => flat_map fsatoms fs
  | FForall _ _ _ b | FExists _ _ _ b | FForallInt _ b | FExistsInt _ b => fsatoms b
  end.
(* the s-expression is in the class, and its variables are among the atom's free variables
   (SMTFormula.free_variables_ = the symbols of the Z3 expression) *)
Definition atom_wfb (a : satom) : bool :=
  wf_smtb (fst a) && forallb (fun n => mem n (map vname (snd a))) (sx_vars (fst a)).
Definition atoms_wfb (f : cformula) : bool := forallb atom_wfb (fsatoms f).

Lemma forallb_flat_map {X Y} (p : Y -> bool) (g : X -> list Y) l :
  forallb p (flat_map g l) = forallb (fun x => forallb p (g x)) l.
Proof. induction l as [|x r IH]; [reflexivity|]. simpl. rewrite forallb_app, IH. reflexivity. Qed.

Lemma read_atom_ok a : atom_wfb a = true -> read_atom (SVar (smt_str (fst a)), snd a) = Some a.
Proof.
  destruct a as [e vs]. unfold atom_wfb. cbn [fst snd]. rewrite andb_true_iff. intros [Hw Hv].
  unfold read_atom. cbn [fst snd]. rewrite (smt_print_read e Hw), Hv. reflexivity.
Qed.

Lemma omapl_deopaque fs :
  Forall (fun g => atoms_wfb g = true -> deopaque (opaque g) = Some g) fs ->
  forallb atoms_wfb fs = true -> omapl deopaque (map opaque fs) = Some fs.
Proof.
  induction 1 as [|x l Hx Hl IH]; intro H; [reflexivity|].
  simpl in H. apply andb_true_iff in H as [H1 H2]. simpl. rewrite (Hx H1).
  change ((fix go (l0 : list cformula) : option (list cformula) :=
             match l0 with
             | [] => Some []
             | x0 :: r => match deopaque x0 with
                          | Some y => match go r with Some ys => Some (y :: ys) | None => None end
                          | None => None
                          end
             end) (map opaque l)) with (omapl deopaque (map opaque l)).
  rewrite (IH H2). reflexivity.
Qed.

Theorem deopaque_opaque g : atoms_wfb g = true -> deopaque (opaque g) = Some g.
Proof.
  induction g as [a|n args|n args|g IH|fs IH|fs IH|v i m b IH|v i m b IH|v b IH|v b IH] using formula_ind';
    intro H; try reflexivity;
    try (unfold atoms_wfb in *; simpl fsatoms in H; simpl; rewrite (IH H); reflexivity).
  - unfold atoms_wfb in H. simpl in H. rewrite andb_true_r in H. simpl. rewrite (read_atom_ok a H). reflexivity.
  - unfold atoms_wfb in H. simpl fsatoms in H. rewrite forallb_flat_map in H.
    simpl. rewrite (omapl_deopaque fs IH H). reflexivity.
  - unfold atoms_wfb in H. simpl fsatoms in H. rewrite forallb_flat_map in H.
    simpl. rewrite (omapl_deopaque fs IH H). reflexivity.
Qed.

Lemma fsatoms_fold_and l x : fsatoms (fold_left mkand l x) = fsatoms x ++ flat_map fsatoms l.
Proof.
  revert x. induction l as [|y l IH]; intro x; [simpl; rewrite app_nil_r; reflexivity|].
  simpl fold_left. rewrite IH. simpl. rewrite app_nil_r, <- app_assoc. reflexivity.
Qed.
Lemma fsatoms_fold_or l x : fsatoms (fold_left mkor l x) = fsatoms x ++ flat_map fsatoms l.
Proof.
  revert x. induction l as [|y l IH]; intro x; [simpl; rewrite app_nil_r; reflexivity|].
  simpl fold_left. rewrite IH. simpl. rewrite app_nil_r, <- app_assoc. reflexivity.
Qed.
Lemma fsatoms_binl f : fsatoms (binl f) = fsatoms f.
Proof.
  induction f as [a|n args|n args|g IH|fs IH|fs IH|v i m b IH|v i m b IH|v b IH|v b IH] using formula_ind';
    try reflexivity; try (simpl; rewrite IH; reflexivity).
  - simpl binl. simpl fsatoms at 2. rewrite <- (flat_map_binl fsatoms fs IH).
    destruct (map binl fs) as [|a [|b R]]; try reflexivity.
    unfold lnest. rewrite fsatoms_fold_and. simpl. rewrite app_nil_r, <- app_assoc. reflexivity.
  - simpl binl. simpl fsatoms at 2. rewrite <- (flat_map_binl fsatoms fs IH).
    destruct (map binl fs) as [|a [|b R]]; try reflexivity.
    unfold lnest. rewrite fsatoms_fold_or. simpl. rewrite app_nil_r, <- app_assoc. reflexivity.
Qed.

(* the full round trip, atoms included: what parse_full reads from the printed text is the constraint
   itself (n-ary connectives left-nested, as the real parser builds them) *)
Theorem print_parse_full f : wf_coreN f -> atoms_wfb f = true -> parse_full (unparse f) = Some (binl f).
Proof.
  intros Hc Ha. unfold parse_full. rewrite (print_parseN f Hc). apply deopaque_opaque.
  unfold atoms_wfb. rewrite fsatoms_binl. exact Ha.
Qed.
Theorem print_parse_full_binary f : wf_core f -> atoms_wfb f = true -> parse_full (unparse f) = Some f.
Proof.
  intros Hc Ha. unfold parse_full. rewrite (print_parse f Hc). apply deopaque_opaque. exact Ha.
Qed.
Theorem print_parse_full_flat f : wf_coreN f -> atoms_wfb f = true ->
  exists g, parse_full (unparse f) = Some g /\ flat g = flat f.
Proof. intros Hc Ha. exists (binl f). split; [apply print_parse_full; assumption | apply flat_binl]. Qed.

(* a richer constraint: n-ary connectives, nested quantifiers, atoms with indexed operators, a quote and
   parentheses inside string literals, a negative integer *)
Definition ppF_at : cformula :=
  FSmt (SApp KInRe (lit "str.in_re")
          [SVar (lit "x");
           SApp KReConcat (lit "re.++")
             [SApp (KLoop 1 0) (lit "re.loop") [SApp KOther (lit "str.to_re") [SStr [97; 34; 41; 40; 0; 256]]];
              SApp (KPower 3) (lit "re.^") [SApp KOther (lit "re.allchar") []]]], [pp_x]).
Definition ppF_at2 : cformula :=
  FSmt (SApp KOther (lit "<=") [SApp KStrToInt (lit "str.to_int") [SVar (lit "y")];
                                 SApp KOther (lit "-") [SInt (-12)%Z; SApp KOther (lit "str.len") [SVar (lit "x")]]], [pp_y; pp_x]).
Definition ppF_ex : cformula :=
  FForall pp_x (InVar start_const) None
    (FAnd [ppF_at; FOr [pp_at1; FExists pp_y (InVar pp_x) None ppF_at2; ppF_at]; pp_at1]).
Example print_parse_full_nonvacuous :
  wf_coreN ppF_ex /\ atoms_wfb ppF_ex = true /\ parse_full (unparse ppF_ex) = Some (binl ppF_ex) /\
  binl ppF_ex <> ppF_ex /\ opaque (binl ppF_ex) <> binl ppF_ex /\
  wf_coreN ppN_ex /\ atoms_wfb ppN_ex = true /\ parse_full (unparse ppN_ex) = Some (binl ppN_ex).
Proof. repeat split; try (vm_compute; reflexivity); try discriminate. Qed.
