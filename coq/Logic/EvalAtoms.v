(* Meaning (specification side) of the concrete SMT-atom family `atom` of Eval.v:
   string (in)equality between variables and literals, str.len compared with an integer
   literal, true/false — the SMT-LIB meaning of these operators on the strings of the assigned
   trees.  Definitions only (the harness evaluates satb with atom_dec); the facts are in
   EvalFacts.v. *)
From ISLA Require Export Semantics Eval.
From Coq Require Import ZArith.

Definition sterm_den (e : var -> option tree) (x : sterm) (u : str) : Prop :=
  match x with
  | SLit s => u = s
  | SVar v => exists t, e v = Some t /\ u = yield t
  end.

Definition cmp_rel (op : cmp) (x y : Z) : Prop :=
  match op with
  | CEq => x = y | CNe => x <> y | CLt => (x < y)%Z
  | CLe => (x <= y)%Z | CGt => (x > y)%Z | CGe => (x >= y)%Z
  end.

Definition atom_denote (x : atom) (e : var -> option tree) : Prop :=
  match x with
  | ABool b => b = true
  | AStr neg s t => exists u w, sterm_den e s u /\ sterm_den e t w /\ (if neg then u <> w else u = w)
  | ALen op s n => exists u, sterm_den e s u /\ cmp_rel op (Z.of_nat (length u)) n
  end.

Definition sterm_get (e : var -> option tree) (x : sterm) : option str :=
  match x with
  | SLit s => Some s
  | SVar v => match e v with Some t => Some (yield t) | None => None end
  end.

Definition atom_dec (x : atom) (e : var -> option tree) : bool :=
  match x with
  | ABool b => b
  | AStr neg s t =>
      match sterm_get e s, sterm_get e t with
      | Some u, Some w => xorb neg (str_eqb u w)
      | _, _ => false
      end
  | ALen op s n =>
      match sterm_get e s with
      | Some u => cmp_eval op (Z.of_nat (length u)) n
      | None => false
      end
  end.

(* what the harness runs *)
Definition no_qmm : var -> path -> option mexpr -> asg -> path -> bool := fun _ _ _ _ _ => false.
Definition no_reach : str -> str -> bool := fun _ _ => false.
Definition no_count_open : tree -> str -> Z -> res TV := fun _ _ _ => Raise NotImpl.
Definition no_strategy2 : tree -> formula atom -> res TV := fun _ _ => Raise NotImpl.

Definition m_evaluate (T : tree) (cst : var) (f : formula atom) : res TV :=
  evaluate atom atom_free (fun _ => false) atom_eval atom_inst no_qmm no_reach no_count_open
           no_strategy2 T cst f.
Definition m_check (T : tree) (cst : var) (f : formula atom) : res bool :=
  solver_check atom atom_free (fun _ => false) atom_eval atom_inst no_qmm no_reach no_count_open
           no_strategy2 T cst f.
Definition m_legacy (T : tree) (f : formula atom) : res TV :=
  eval_legacy atom atom_free (fun _ => false) atom_eval no_qmm no_reach no_count_open T f [].
Definition s_sat (T : tree) (cst : var) (f : formula atom) : bool :=
  satb T atom_dec 0 (upd env_empty cst (VPos [])) f.
Definition wide_tree (T : tree) : bool := existsb (fun ps => K_wide (fst ps)) (nodes T).
