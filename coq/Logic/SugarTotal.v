(* C08 — proof extension 3: totality of univ_close_over_var_push_in (model: push_in).
   With the fuel the model passes (S (fsize f)) and on formulas whose n-ary and/or nodes have at least two operands
   (the only ones the Formula constructors build), push_in never runs out of fuel and never hits its
   `assert len(result_elements) > 1`; the result again has that shape. *)
From Coq Require Import List NArith Bool Arith Lia.
Import ListNotations.
From ISLA Require Import Str Outcome Tree Grammar Formula Sugar SugarFacts SugarMore.

Fixpoint arity_ok (f : cform) : bool :=
  match f with
  | FNot x => arity_ok x
  | FAnd fs | FOr fs => Nat.ltb 1 (length fs) && forallb arity_ok fs
  | FForall _ _ _ b | FExists _ _ _ b | FForallInt _ b | FExistsInt _ b => arity_ok b
  | _ => true
  end.

Lemma fsize_pos : forall f : cform, 1 <= fsize f.
Proof. intros []; simpl; lia. Qed.

Lemma list_sum_app' : forall a b, list_sum (a ++ b) = list_sum a + list_sum b.
Proof. induction a as [|x a IH]; intros b; simpl; [reflexivity|]. rewrite IH. lia. Qed.

Lemma split_and_sum : forall f : cform, list_sum (map fsize (split_and f)) <= fsize f.
Proof.
  intros f. induction f as [a|n args|n args|g IH|fs IH|fs IH|v i m b IH|v i m b IH|v b IH|v b IH]
    using formula_ind'; simpl; try lia.
  induction IH as [|g fs Hg Hfs IHfs]; simpl; [lia|]. rewrite map_app, list_sum_app'. unfold cform in *. lia.
Qed.
Lemma split_or_sum : forall f : cform, list_sum (map fsize (split_or f)) <= fsize f.
Proof.
  intros f. induction f as [a|n args|n args|g IH|fs IH|fs IH|v i m b IH|v i m b IH|v b IH|v b IH]
    using formula_ind'; simpl; try lia.
  induction IH as [|g fs Hg Hfs IHfs]; simpl; [lia|]. rewrite map_app, list_sum_app'. unfold cform in *. lia.
Qed.

Lemma split_and_sum_lt : forall fs, list_sum (map fsize (split_and (FAnd fs))) < fsize (FAnd fs).
Proof.
  intros fs. simpl. apply Nat.lt_succ_r. induction fs as [|g fs IH]; simpl; [lia|].
  rewrite map_app, list_sum_app'. pose proof (split_and_sum g). unfold cform in *. lia.
Qed.
Lemma split_or_sum_lt : forall fs, list_sum (map fsize (split_or (FOr fs))) < fsize (FOr fs).
Proof.
  intros fs. simpl. apply Nat.lt_succ_r. induction fs as [|g fs IH]; simpl; [lia|].
  rewrite map_app, list_sum_app'. pose proof (split_or_sum g). unfold cform in *. lia.
Qed.

Lemma split_and_len1 : forall f, arity_ok f = true -> 1 <= length (split_and f).
Proof.
  intros f. induction f as [a|n args|n args|g IH|fs IH|fs IH|v i m b IH|v i m b IH|v b IH|v b IH]
    using formula_ind'; intros H; simpl; try (unfold cform in *; lia).
  simpl in H. apply andb_true_iff in H as [Hl Hf]. apply Nat.ltb_lt in Hl.
  destruct fs as [|g fs]; [simpl in Hl; (unfold cform in *; lia)|]. simpl. rewrite app_length.
  inversion IH as [|? ? Hg Hfs]; subst. simpl in Hf. apply andb_true_iff in Hf as [Hg' _]. specialize (Hg Hg'). (unfold cform in *; lia).
Qed.
Lemma split_or_len1 : forall f, arity_ok f = true -> 1 <= length (split_or f).
Proof.
  intros f. induction f as [a|n args|n args|g IH|fs IH|fs IH|v i m b IH|v i m b IH|v b IH|v b IH]
    using formula_ind'; intros H; simpl; try (unfold cform in *; lia).
  simpl in H. apply andb_true_iff in H as [Hl Hf]. apply Nat.ltb_lt in Hl.
  destruct fs as [|g fs]; [simpl in Hl; (unfold cform in *; lia)|]. simpl. rewrite app_length.
  inversion IH as [|? ? Hg Hfs]; subst. simpl in Hf. apply andb_true_iff in Hf as [Hg' _]. specialize (Hg Hg'). (unfold cform in *; lia).
Qed.

Lemma flat_len : forall (h : cform -> list cform) fs,
  (forall g, In g fs -> 1 <= length (h g)) -> length fs <= length (flat_map h fs).
Proof.
  intros h fs H. induction fs as [|g fs IH]; simpl; [(unfold cform in *; lia)|]. rewrite app_length.
  pose proof (H g (or_introl eq_refl)). assert (length fs <= length (flat_map h fs)) by (apply IH; intros; apply H; right; assumption). (unfold cform in *; lia).
Qed.

Lemma split_and_len2 : forall fs, arity_ok (FAnd fs) = true -> 2 <= length (split_and (FAnd fs)).
Proof.
  intros fs H. simpl in H. apply andb_true_iff in H as [Hl Hf]. apply Nat.ltb_lt in Hl. simpl.
  rewrite forallb_forall in Hf.
  pose proof (flat_len split_and fs (fun g Hg => split_and_len1 g (Hf g Hg))). (unfold cform in *; lia).
Qed.
Lemma split_or_len2 : forall fs, arity_ok (FOr fs) = true -> 2 <= length (split_or (FOr fs)).
Proof.
  intros fs H. simpl in H. apply andb_true_iff in H as [Hl Hf]. apply Nat.ltb_lt in Hl. simpl.
  rewrite forallb_forall in Hf.
  pose proof (flat_len split_or fs (fun g Hg => split_or_len1 g (Hf g Hg))). (unfold cform in *; lia).
Qed.

Lemma arity_and_sub : forall fs g, arity_ok (FAnd fs) = true -> In g fs -> arity_ok g = true.
Proof. intros fs g H Hg. simpl in H. apply andb_true_iff in H as [_ H]. rewrite forallb_forall in H. auto. Qed.
Lemma arity_or_sub : forall fs g, arity_ok (FOr fs) = true -> In g fs -> arity_ok g = true.
Proof. intros fs g H Hg. simpl in H. apply andb_true_iff in H as [_ H]. rewrite forallb_forall in H. auto. Qed.

Lemma part3_len : forall {X} (a c : X -> bool) l,
  length (filter a l) + length (filter (fun e => negb (a e) && c e) l) +
  length (filter (fun e => negb (a e) && negb (c e)) l) = length l.
Proof. intros X a c l. induction l as [|x l IH]; simpl; [reflexivity|]. destruct (a x), (c x); simpl; (unfold cform in *; lia). Qed.

Lemma part3_sum : forall {X} (w : X -> nat) (a c : X -> bool) l,
  list_sum (map w (filter a l)) + list_sum (map w (filter (fun e => negb (a e) && c e) l)) +
  list_sum (map w (filter (fun e => negb (a e) && negb (c e)) l)) = list_sum (map w l).
Proof. intros X w a c l. induction l as [|x l IH]; simpl; [reflexivity|]. destruct (a x), (c x); simpl; (unfold cform in *; lia). Qed.

Lemma In_sum : forall (l : list cform) e, In e l -> fsize e <= list_sum (map fsize l).
Proof. induction l as [|x l IH]; intros e H; [destruct H|]. destruct H as [->|H]; simpl; [(unfold cform in *; lia)|]. specialize (IH e H). (unfold cform in *; lia). Qed.

Lemma sum_len : forall l : list cform, length l <= list_sum (map fsize l).
Proof. induction l as [|x l IH]; simpl; [(unfold cform in *; lia)|]. pose proof (fsize_pos x). (unfold cform in *; lia). Qed.

Lemma mapM_total : forall {X Y} (h : X -> res Y) (Q : Y -> Prop) l,
  (forall x, In x l -> exists y, h x = Ok y /\ Q y) ->
  exists l', mapM h l = Ok l' /\ Forall Q l' /\ length l' = length l.
Proof.
  intros X Y h Q l H. induction l as [|x l IH]; simpl.
  - exists []. auto.
  - destruct (H x (or_introl eq_refl)) as [y [Hy Qy]]. rewrite Hy. simpl.
    destruct IH as [l' [E [F L]]]; [intros z Hz; apply H; right; exact Hz|]. rewrite E. simpl.
    exists (y :: l'). repeat split; [constructor; assumption|simpl; (unfold cform in *; lia)].
Qed.

Lemma arity_mk_comb : forall conj l, l <> [] -> (forall e, In e l -> arity_ok e = true) -> arity_ok (mk_comb conj l) = true.
Proof.
  intros conj [|x [|y l]] Hne H; [congruence|apply H; left; reflexivity|].
  assert (E : arity_ok (FAnd (x :: y :: l)) = true /\ arity_ok (FOr (x :: y :: l)) = true).
  { simpl. rewrite (H x), (H y) by (simpl; auto). simpl.
    assert (forallb arity_ok l = true) by (apply forallb_forall; intros z Hz; apply H; simpl; auto). auto. }
  unfold mk_comb. destruct conj; tauto.
Qed.

Lemma fsize_mk_comb : forall conj l, fsize (mk_comb conj l) <= S (list_sum (map fsize l)).
Proof. intros conj [|x [|y l]]; destruct conj; simpl; (unfold cform in *; lia). Qed.

Lemma arity_intro : forall (conj : bool) l, 1 < length l -> forallb arity_ok l = true ->
  arity_ok (if conj then FAnd l else FOr l) = true.
Proof.
  intros conj l Hl Hf. apply Nat.ltb_lt in Hl.
  destruct conj; change (Nat.ltb 1 (length l) && forallb arity_ok l = true); rewrite Hl, Hf; reflexivity.
Qed.

Lemma pIPO_len : forall qfd inv (elems : list cform),
  length (pI qfd elems) + length (pP qfd inv elems) + length (pO qfd inv elems) = length elems.
Proof. intros qfd inv elems. exact (part3_len (fun e => isnil (vinter qfd (fv e))) (fun e => vmem inv (bvars e)) elems). Qed.
Lemma pIPO_sum : forall qfd inv (elems : list cform),
  list_sum (map fsize (pI qfd elems)) + list_sum (map fsize (pP qfd inv elems)) + list_sum (map fsize (pO qfd inv elems)) =
  list_sum (map fsize elems).
Proof. intros qfd inv elems. exact (part3_sum fsize (fun e => isnil (vinter qfd (fv e))) (fun e => vmem inv (bvars e)) elems). Qed.

Section Total.
  Variables (v inv : var) (qfd : list var).

  Lemma pcomb_total : forall n' (f : cform) (conj : bool),
    (forall g, fsize g < n' -> arity_ok g = true -> exists g', push_in n' v inv qfd g = Ok g' /\ arity_ok g' = true) ->
    let elems := if conj then split_and f else split_or f in
    fsize f <= n' -> 2 <= length elems -> list_sum (map fsize elems) < fsize f ->
    (forall e, In e elems -> arity_ok e = true) -> arity_ok f = true ->
    exists f', pcomb n' v inv qfd f conj = Ok f' /\ arity_ok f' = true.
  Proof.
    intros n' f conj IH elems Hn Hlen Hsum Hok Hf. unfold pcomb. fold elems.
    pose proof (pIPO_len qfd inv elems) as PL. pose proof (pIPO_sum qfd inv elems) as PS.
    destruct (isnil (pI qfd elems) && isnil (pP qfd inv elems)) eqn:E1.
    { eexists. split; [reflexivity|exact Hf]. }
    assert (HIP : 1 <= length (pI qfd elems) + length (pP qfd inv elems)).
    { destruct (pI qfd elems); [|simpl; (unfold cform in *; lia)]. destruct (pP qfd inv elems); [discriminate|simpl; (unfold cform in *; lia)]. }
    assert (HsubP : forall e, In e (pP qfd inv elems) -> In e elems) by (intros e He; unfold pP in He; apply filter_In in He; tauto).
    assert (HsubI : forall e, In e (pI qfd elems) -> In e elems) by (intros e He; unfold pI in He; apply filter_In in He; tauto).
    assert (HsubO : forall e, In e (pO qfd inv elems) -> In e elems) by (intros e He; unfold pO in He; apply filter_In in He; tauto).
    destruct (mapM_total (push_in n' v inv qfd) (fun y => arity_ok y = true) (pP qfd inv elems)) as [P' [EP [FP LP]]].
    { intros e He. apply IH; [|apply Hok; apply HsubP; exact He].
      pose proof (In_sum elems e (HsubP e He)). (unfold cform in *; lia). }
    rewrite EP. simpl.
    pose proof (sum_len (pI qfd elems)) as SI. pose proof (sum_len (pP qfd inv elems)) as SP.
    destruct (pO qfd inv elems) as [|o1 Or] eqn:EO.
    - simpl. rewrite !app_length. simpl in PL. simpl.
      assert (L : (1 <? length (pI qfd elems) + (length P' + 0)) = true) by (apply Nat.ltb_lt; (unfold cform in *; lia)).
      rewrite L. eexists. split; [reflexivity|].
      assert (A : forallb arity_ok (pI qfd elems ++ P' ++ []) = true).
      { apply forallb_forall. intros z Hz. apply in_app_iff in Hz as [Hz|Hz]; [apply Hok, HsubI, Hz|].
        rewrite app_nil_r in Hz. rewrite Forall_forall in FP. apply FP; exact Hz. }
      apply arity_intro; [rewrite !app_length; simpl; (unfold cform in *; lia)|exact A].
    - destruct (IH (mk_comb conj (o1 :: Or))) as [o [Eo Ao]].
      + pose proof (fsize_mk_comb conj (o1 :: Or)). (unfold cform in *; lia).
      + apply arity_mk_comb; [discriminate|]. intros e He. apply Hok, HsubO. exact He.
      + rewrite Eo. simpl. rewrite !app_length. simpl.
        assert (L : (1 <? length (pI qfd elems) + (length P' + 1)) = true) by (apply Nat.ltb_lt; (unfold cform in *; lia)).
        rewrite L. eexists. split; [reflexivity|].
        assert (A : forallb arity_ok (pI qfd elems ++ P' ++ [o]) = true).
        { apply forallb_forall. intros z Hz. apply in_app_iff in Hz as [Hz|Hz]; [apply Hok, HsubI, Hz|].
          apply in_app_iff in Hz as [Hz|[<-|[]]]; [|exact Ao]. rewrite Forall_forall in FP. apply FP; exact Hz. }
        apply arity_intro; [rewrite !app_length; simpl; (unfold cform in *; lia)|exact A].
  Qed.

  Theorem push_in_total : forall n f, fsize f < n -> arity_ok f = true ->
    exists f', push_in n v inv qfd f = Ok f' /\ arity_ok f' = true.
  Proof.
    induction n as [|n IH]; intros f Hn Hf; [(unfold cform in *; lia)|]. rewrite push_in_S.
    destruct (isnil (vinter qfd (fv f))); [exists f; auto|].
    destruct f as [a|p args|p args|g|fs|fs|w i m b|w i m b|w b|w b];
      try (eexists; split; [reflexivity|exact Hf]).
    - apply (pcomb_total n (FAnd fs) true IH); [(unfold cform in *; lia)|apply split_and_len2; exact Hf|apply split_and_sum_lt| |exact Hf].
      apply (split_and_prop (fun e => arity_ok e = true) arity_and_sub); exact Hf.
    - apply (pcomb_total n (FOr fs) false IH); [(unfold cform in *; lia)|apply split_or_len2; exact Hf|apply split_or_sum_lt| |exact Hf].
      apply (split_or_prop (fun e => arity_ok e = true) arity_or_sub); exact Hf.
    - destruct (negb (invar_eqb (InVar v) i)); [|eexists; split; [reflexivity|exact Hf]].
      destruct (IH b) as [b' [Eb Ab]]; [simpl in Hn; (unfold cform in *; lia)|exact Hf|]. rewrite Eb. simpl.
      eexists. split; [reflexivity|exact Ab].
  Qed.
End Total.

(* the closure loop of close_over_free_nonterminals (no XPath expressions registered): with the model's own fuel
   S (fsize g) every push-in succeeds, so the loop returns a formula *)
Lemma fold_bind_total : forall {X P} (Q : X -> Prop) (h : P -> X -> res X),
  (forall p x, Q x -> exists y, h p x = Ok y /\ Q y) ->
  forall l x, Q x -> exists y, fold_left (fun acc p => bind acc (h p)) l (Ok x) = Ok y /\ Q y.
Proof.
  intros X P Q h H l. induction l as [|p l IH]; intros x Hx; simpl; [exists x; auto|].
  destruct (H p x Hx) as [y [E Hy]]. rewrite E. apply IH. exact Hy.
Qed.

Lemma close_loop_total : forall (l : list (str * var)) f, arity_ok f = true ->
  exists f', fold_left (fun acc p => bind acc (fun g => push_in (S (fsize g)) (snd p) start_c [snd p] g)) l (Ok f) = Ok f' /\
             arity_ok f' = true.
Proof.
  intros l f Hf.
  exact (fold_bind_total (fun f => arity_ok f = true)
           (fun (p : str * var) g => push_in (S (fsize g)) (snd p) start_c [snd p] g)
           (fun p x Hx => push_in_total (snd p) start_c [snd p] (S (fsize x)) x (Nat.lt_succ_diag_r _) Hx) l f Hf).
Qed.

Theorem close_fnt_total : forall used st f, w_xp st = [] -> arity_ok f = true ->
  exists f', close_fnt used st f = Ok (f', used, []) /\ arity_ok f' = true.
Proof.
  intros used st f Hx Hf. unfold close_fnt. rewrite Hx. cbn [existsb negb].
  destruct (close_loop_total (rev (filter (fun _ => true) (w_fnt st))) f Hf) as [f' [E A]].
  rewrite E. exists f'. split; [reflexivity|exact A].
Qed.
