(* C03, second proof extension — witnesses: non-vacuity of the hypotheses of evaluate_correct_atoms
   on real (parsed / API-built, UNINSTANTIATED) formulas, and the refutation of the statement
   without the guard fresh_name (a quantifier re-using a name in scope; class K_rebound_name,
   evaluator side).  Literals produced from the isla objects by the harness encoders. *)
From ISLA Require Import Semantics Eval EvalAtoms EvalFacts MatchFacts EvalMexprFacts EvalMexprCheck EvalInstFacts.
From Coq Require Import ZArith.

(* wfm with the conjunct `fresh_name v dom` of the quantifier case DELETED (everything else verbatim) *)
Section NoFresh.
  Variable ref : tree.
  Fixpoint wfm_nofresh (dom : list var) (f : formula atom) {struct f} : Prop :=
    match f with
    | FSmt x => (forall v, In v (atom_free x) -> In v dom) /\ (fun _ : atom => false) x = false
    | FSPred n args => spred_wf ref dom n args
    | FSemPred n args => sempred_wf ref dom n args
    | FNot g => wfm_nofresh dom g
    | FAnd fs | FOr fs =>
        (fix all (l : list (formula atom)) : Prop :=
           match l with [] => True | x :: l' => wfm_nofresh dom x /\ all l' end) fs
    | FForall v i m body | FExists v i m body =>
        in_wf ref dom i /\
        match m with
        | None => wfm_nofresh (v :: dom) body
        | Some me =>
            mexpr_unambiguous ref me /\
            forall tp, In tp (me_trees me) ->
              mexpr_tree_ok v dom tp /\ wfm_nofresh (v :: map fst (snd tp) ++ dom) body
        end
    | FForallInt _ _ | FExistsInt _ _ => False
    end.

  Lemma wfm_wfm_nofresh f : forall dom, wfm atom atom_free (fun _ => false) ref dom f -> wfm_nofresh dom f.
  Proof.
    induction f as [x|n args|n args|g IH|fs IH|fs IH|v i m body IH|v i m body IH|v body IH|v body IH]
      using formula_ind'; intros dom Hwf; simpl in *; try contradiction; auto.
    - induction IH as [|x l Hx Hl IHl]; [exact I|]. destruct Hwf as [H1 H2]. split; [apply Hx; assumption | apply IHl; assumption].
    - induction IH as [|x l Hx Hl IHl]; [exact I|]. destruct Hwf as [H1 H2]. split; [apply Hx; assumption | apply IHl; assumption].
    - destruct Hwf as (Hi & _ & Hm). split; [assumption|]. destruct m as [me|]; [|auto].
      destruct Hm as [Hu Htp]. split; [assumption|]. intros tp Hin. destruct (Htp tp Hin). auto.
    - destruct Hwf as (Hi & _ & Hm). split; [assumption|]. destruct m as [me|]; [|auto].
      destruct Hm as [Hu Htp]. split; [assumption|]. intros tp Hin. destruct (Htp tp Hin). auto.
  Qed.
End NoFresh.

(* the class excluded by fresh_name: some quantifier binds a variable (its own or one of its match
   expression) whose NAME is already in scope *)
Fixpoint K_rebound_name (dom : list var) (f : formula atom) {struct f} : bool :=
  match f with
  | FSmt _ | FSPred _ _ | FSemPred _ _ => false
  | FNot g => K_rebound_name dom g
  | FAnd fs | FOr fs => existsb (K_rebound_name dom) fs
  | FForall v i m b | FExists v i m b =>
      let vs := v :: match m with
                     | Some me => flat_map (fun tp : tree * list (var * path) => map fst (snd tp)) (me_trees me)
                     | None => []
                     end in
      negb (forallb (fun w => fresh_nameb w dom) vs) || K_rebound_name (vs ++ dom) b
  | FForallInt v b | FExistsInt v b => negb (fresh_nameb v dom) || K_rebound_name (v :: dom) b
  end.

Definition R_tree : tree := (Node [60;115;116;97;114;116;62]%N 7%N false [(Node [60;97;115;115;103;110;62]%N 6%N false [(Node [60;118;97;114;62]%N 5%N false [(Node [120]%N 4%N false [])]); (Node [32;58;61;32]%N 3%N false []); (Node [60;114;104;115;62]%N 2%N false [(Node [60;100;105;103;105;116;62]%N 1%N false [(Node [49]%N 0%N false [])])])])]).
Definition R_formula : formula atom := (FForall (MkVar VBound [97]%N [60;97;115;115;103;110;62]%N) (InVar (MkVar VConst [115;116;97;114;116]%N [60;115;116;97;114;116;62]%N)) None (FExists (MkVar VBound [97]%N [60;118;97;114;62]%N) (InVar (MkVar VBound [97]%N [60;97;115;115;103;110;62]%N)) None (FSmt (AStr false (SVar (MkVar VBound [97]%N [60;118;97;114;62]%N)) (SLit [120]%N))))).
Definition R_formula_renamed : formula atom := (FForall (MkVar VBound [97]%N [60;97;115;115;103;110;62]%N) (InVar (MkVar VConst [115;116;97;114;116]%N [60;115;116;97;114;116;62]%N)) None (FExists (MkVar VBound [118]%N [60;118;97;114;62]%N) (InVar (MkVar VBound [97]%N [60;97;115;115;103;110;62]%N)) None (FSmt (AStr false (SVar (MkVar VBound [118]%N [60;118;97;114;62]%N)) (SLit [120]%N))))).
Definition R2_tree : tree := (Node [60;115;116;97;114;116;62]%N 16%N false [(Node [60;101;120;112;114;62]%N 15%N false [(Node [40]%N 14%N false []); (Node [60;101;120;112;114;62]%N 13%N false [(Node [40]%N 12%N false []); (Node [60;101;120;112;114;62]%N 11%N false [(Node [97]%N 10%N false [])]); (Node [41]%N 9%N false [])]); (Node [41]%N 8%N false [])])]).
Definition R2_formula : formula atom := (FForall (MkVar VBound [101]%N [60;101;120;112;114;62]%N) (InVar (MkVar VConst [115;116;97;114;116]%N [60;115;116;97;114;116;62]%N)) None (FExists (MkVar VBound [101]%N [60;101;120;112;114;62]%N) (InVar (MkVar VBound [101]%N [60;101;120;112;114;62]%N)) None (FSmt (AStr false (SVar (MkVar VBound [101]%N [60;101;120;112;114;62]%N)) (SLit [97]%N))))).
Definition U1_formula : formula atom := (FForall (MkVar VBound [97]%N [60;97;115;115;103;110;62]%N) (InVar (MkVar VConst [115;116;97;114;116]%N [60;115;116;97;114;116;62]%N)) (Some (MkMexpr [(MkVar VBound [108;104;115]%N [60;118;97;114;62]%N); (MkVar VDummy [68;85;77;77;89;95;50]%N [32;58;61;32]%N); (MkVar VBound [114;104;115]%N [60;118;97;114;62]%N)] [((Node [60;97;115;115;103;110;62]%N 57%N false [(Node [60;118;97;114;62]%N 59%N true []); (Node [32;58;61;32]%N 60%N false []); (Node [60;114;104;115;62]%N 36%N false [(Node [60;118;97;114;62]%N 61%N true [])])]), [((MkVar VBound [108;104;115]%N [60;118;97;114;62]%N), [0]%nat); ((MkVar VDummy [68;85;77;77;89;95;49;51]%N [32;58;61;32]%N), [1]%nat); ((MkVar VBound [114;104;115]%N [60;118;97;114;62]%N), [2;0]%nat)])])) (FExists (MkVar VBound [100]%N [60;97;115;115;103;110;62]%N) (InVar (MkVar VConst [115;116;97;114;116]%N [60;115;116;97;114;116;62]%N)) (Some (MkMexpr [(MkVar VBound [108;50]%N [60;118;97;114;62]%N); (MkVar VDummy [68;85;77;77;89;95;48]%N [32;58;61;32]%N); (MkVar VDummy [68;85;77;77;89;95;49]%N [60;114;104;115;62]%N)] [((Node [60;97;115;115;103;110;62]%N 85%N false [(Node [60;118;97;114;62]%N 87%N true []); (Node [32;58;61;32]%N 88%N false []); (Node [60;114;104;115;62]%N 89%N true [])]), [((MkVar VBound [108;50]%N [60;118;97;114;62]%N), [0]%nat); ((MkVar VDummy [68;85;77;77;89;95;50;52]%N [32;58;61;32]%N), [1]%nat); ((MkVar VDummy [68;85;77;77;89;95;49]%N [60;114;104;115;62]%N), [2]%nat)])])) (FAnd [(FSPred [98;101;102;111;114;101]%N [(PVar (MkVar VBound [100]%N [60;97;115;115;103;110;62]%N)); (PVar (MkVar VBound [97]%N [60;97;115;115;103;110;62]%N))]); (FSmt (AStr false (SVar (MkVar VBound [108;50]%N [60;118;97;114;62]%N)) (SVar (MkVar VBound [114;104;115]%N [60;118;97;114;62]%N))))]))).

(* non-vacuity: the hypotheses of evaluate_correct_atoms hold for
   E2 = forall <rhs> r in start: exists <assgn> d in start: (inside(r, d) and r = "1")   (API-built)
   U1 = forall <assgn> a="{<var> lhs} := {<var> rhs}" in start:
          exists <assgn> d="{<var> l2} := <rhs>" in start: (before(d, a) and (= l2 rhs))   (parse_isla)
   on the parse tree of "x := 1 ; y := x"; neither verdict is constant (FF / TT) *)
Example evaluate_correct_example :
  evaluate_guard E1_tree W_cst E2_formula = true /\ m_evaluate E1_tree W_cst E2_formula = Ok FF /\
  m_check E1_tree W_cst E2_formula = Ok false /\
  evaluate_guard M1_tree W_cst U1_formula = true /\ m_evaluate M1_tree W_cst U1_formula = Ok TT /\
  m_check M1_tree W_cst U1_formula = Ok true /\
  evaluate_guard M2_tree W_cst U1_formula = true /\ m_evaluate M2_tree W_cst U1_formula = Ok FF.
Proof. repeat split; vm_compute; reflexivity. Qed.

(* REFUTED without fresh_name — evaluator side of K_rebound_name (API-built formulas; parse_isla
   cannot produce them, it renames/merges — the parser side of the class).
   R  = forall <assgn> a in start: exists <var> a in a: (= a "x")     on "x := 1"
        two DIFFERENT variables (a:<assgn>, a:<var>) with one name; isla's well_formed() ACCEPTS it.
        evaluate_smt_formula looks variables up by NAME (var_map, last dictionary entry wins = the
        OUTER a): the atom compares "x := 1" with "x".  evaluate FALSE / check False; the
        specification (and the same formula with the inner variable renamed to v) TRUE.
   R2 = forall <expr> e in start: exists <expr> e in e: (= e "a")     on "((a))"
        the SAME variable bound twice (well_formed() rejects it; evaluate() does not call it):
        `new_assignment | assignments` keeps the OLD binding, the inner quantifier is ignored.
   Every hypothesis of evaluate_correct_atoms but fresh_name holds (wfm_nofresh). *)
Theorem evaluate_rebound_refuted :
  (evaluate_guard R_tree W_cst R_formula_renamed = true /\ m_evaluate R_tree W_cst R_formula_renamed = Ok TT /\
   K_rebound_name [W_cst] R_formula_renamed = false /\ K_rebound_name [W_cst] R_formula = true /\
   K_rebound_name [W_cst] R2_formula = true) /\
  (shape_ok R_tree = true /\ is_openT R_tree = false /\ uniq_ids R_tree /\ narrow R_tree /\
   term_leavesb R_tree = true /\ lbl R_tree = vtype W_cst /\ vk W_cst = VConst /\
   wfm_nofresh R_tree [W_cst] R_formula /\ me_nonempty R_formula = true /\
   ~ wfm atom atom_free (fun _ => false) R_tree [W_cst] R_formula /\
   m_evaluate R_tree W_cst R_formula = Ok FF /\ m_check R_tree W_cst R_formula = Ok false /\
   sat atom_denote R_tree W_cst R_formula) /\
  (shape_ok R2_tree = true /\ is_openT R2_tree = false /\ uniq_ids R2_tree /\ narrow R2_tree /\
   term_leavesb R2_tree = true /\ lbl R2_tree = vtype W_cst /\ vk W_cst = VConst /\
   wfm_nofresh R2_tree [W_cst] R2_formula /\ me_nonempty R2_formula = true /\
   m_evaluate R2_tree W_cst R2_formula = Ok FF /\ m_check R2_tree W_cst R2_formula = Ok false /\
   sat atom_denote R2_tree W_cst R2_formula).
Proof.
  split; [repeat split; vm_compute; reflexivity|]. split.
  - split; [reflexivity|]. split; [reflexivity|].
    split; [apply uniq_idsb_spec; vm_compute; reflexivity|].
    split; [apply narrowb_spec; vm_compute; reflexivity|].
    split; [reflexivity|]. split; [reflexivity|]. split; [reflexivity|].
    split.
    { simpl. split; [left; reflexivity|]. split; [left; reflexivity|]. split; [|reflexivity].
      intros v [<-|[]]. left. reflexivity. }
    split; [reflexivity|].
    split.
    { simpl. intros (_ & _ & _ & Hfr & _). apply (Hfr (MkVar VBound [97]%N [60;97;115;115;103;110;62]%N)).
      - left. reflexivity.
      - reflexivity. }
    split; [vm_compute; reflexivity|]. split; [vm_compute; reflexivity|].
    apply (s_sat_spec R_tree W_cst R_formula); vm_compute; reflexivity.
  - split; [reflexivity|]. split; [reflexivity|].
    split; [apply uniq_idsb_spec; vm_compute; reflexivity|].
    split; [apply narrowb_spec; vm_compute; reflexivity|].
    split; [reflexivity|]. split; [reflexivity|]. split; [reflexivity|].
    split.
    { simpl. split; [left; reflexivity|]. split; [left; reflexivity|]. split; [|reflexivity].
      intros v [<-|[]]. left. reflexivity. }
    split; [reflexivity|].
    split; [vm_compute; reflexivity|]. split; [vm_compute; reflexivity|].
    apply (s_sat_spec R2_tree W_cst R2_formula); vm_compute; reflexivity.
Qed.
