(* C08 wave 3 — the documented translation of the propositional layer.
   [walk_doc] does the same bookkeeping as the listener (which variable stands for which nonterminal occurrence,
   names of unnamed quantifiers) but builds the core formula with the PLAIN constructors and the translations that
   islaspec.rst gives for the derived combinators:
     A xor B      (A and (not B)) or (B and (not A))
     A implies B  (not A) or B
     A iff B      (A and B) or ((not A) and (not B))
   No smart-constructor shortcut, no De Morgan, no quantifier dualisation.  [walk_equiv]: the formula built by the
   model's [walk] has the same meaning in every environment, and the listener state is the same. *)
From Coq Require Import List NArith Bool Arith Lia.
Import ListNotations.
From ISLA Require Import Str Outcome Tree Grammar Formula Sugar SugarFacts SugarMore SugarUniq.

Definition d_and (a b : cform) : cform := FAnd [a; b].
Definition d_or (a b : cform) : cform := FOr [a; b].
Definition d_imp (a b : cform) : cform := FOr [FNot a; b].
Definition d_iff (a b : cform) : cform := FOr [FAnd [a; b]; FAnd [FNot a; FNot b]].
Definition d_xor (a b : cform) : cform := FOr [FAnd [a; FNot b]; FAnd [b; FNot a]].

(* what happens after the body of a quantifier has been walked (exitQfdFormula) *)
Definition qtail (used : list str) (d : list (str * str)) (fa : bool) (ty : str) (name : option str) (i : sin)
           (me : option (list smelem)) (st1 : wst) (b' : cform) : res (wst * cform) :=
  bind (match name with
        | Some n => bind (get_var d n) (fun v => Ok (st1, v))
        | None =>
            let '(st2, v) := register_free used st1 ty in
            Ok (MkW (filter (fun p => negb (str_eqb (fst p) ty)) (w_fnt st2))
                    (rebind_xp (w_xp st2) ty (vname v)), v)
        end) (fun '(st3, v) =>
  bind (match i with
        | InName n => bind (get_var d n) (fun w => Ok (st3, w))
        | InType t => if str_eqb t s_start_nt then Ok (st3, start_c) else Ok (register_free used st3 t)
        | InDefault => Ok (st3, start_c)
        end) (fun '(st4, w) =>
  bind (match me with
        | None => Ok None
        | Some l => bind (mapM (fun e => match e with SMB _ n => get_var d n | SMD tok => Ok (dummy tok) end) l)
                         (fun es => Ok (Some (MkMexpr es [])))
        end) (fun m =>
  Ok (st4, (if fa then FForall else FExists) v (InVar w) m b')))).

Definition qenter (used : list str) (st : wst) (ty : str) (name : option str) (me : option (list smelem)) : wst :=
  match name, me with None, None => fst (register_free used st ty) | _, _ => st end.

Fixpoint walk_doc (used : list str) (d : list (str * str)) (st : wst) (f : sform) : res (wst * cform) :=
  match f with
  | SAtom smt id ts =>
      bind (terms used d st ts) (fun '(st1, vs) =>
        Ok (st1, if smt then FSmt (MkAtom false id vs)
                 else if (id <? 100)%N then FSPred [id] (map PVar vs) else FSemPred [id] (map PVar vs)))
  | SNot a => bind (walk_doc used d st a) (fun '(st1, a') => Ok (st1, FNot a'))
  | SAnd a b =>
      bind (walk_doc used d st a) (fun '(st1, a') =>
      bind (walk_doc used d st1 b) (fun '(st2, b') => Ok (st2, d_and a' b')))
  | SOr a b =>
      bind (walk_doc used d st a) (fun '(st1, a') =>
      bind (walk_doc used d st1 b) (fun '(st2, b') => Ok (st2, d_or a' b')))
  | SImp a b =>
      bind (walk_doc used d st a) (fun '(st1, a') =>
      bind (walk_doc used d st1 b) (fun '(st2, b') => Ok (st2, d_imp a' b')))
  | SIff a b =>
      bind (walk_doc used d st a) (fun '(st1, a') =>
      bind (walk_doc used d st1 b) (fun '(st2, b') => Ok (st2, d_iff a' b')))
  | SXor a b =>
      bind (walk_doc used d st a) (fun '(st1, a') =>
      bind (walk_doc used d st1 b) (fun '(st2, b') => Ok (st2, d_xor a' b')))
  | SInt fa n body =>
      bind (walk_doc used d st body) (fun '(st1, b') =>
      bind (get_var d n) (fun v => Ok (st1, (if fa then FForallInt else FExistsInt) v b')))
  | SQ fa ty name i me body =>
      bind (walk_doc used d (qenter used st ty name me) body) (fun '(st1, b') =>
        qtail used d fa ty name i me st1 b')
  end.

Lemma walk_SQ : forall used d st fa ty name i me body,
  walk used d st (SQ fa ty name i me body) =
  bind (walk used d (qenter used st ty name me) body) (fun '(st1, b') => qtail used d fa ty name i me st1 b').
Proof. reflexivity. Qed.

Section WalkSem.
  Variable D : Type.
  Variable aev : N -> list D -> bool.
  Variable pev : str -> list (D + str) -> bool.
  Variable dom : D -> var -> option mexpr -> list (list (var * D)).
  Variable idom : list D.
  Variable tval : tree -> D.
  Hypothesis dom_ext : forall d v m k, mexpr_eqb m k = true -> dom d v m = dom d v k.
  Notation ev := (ev D aev pev dom idom tval).
  Notation sem_eq := (sem_eq D aev pev dom idom tval).

  Lemma qtail_equiv : forall used d fa ty name i me st1 b b' st4 f,
    sem_eq b b' -> qtail used d fa ty name i me st1 b = Ok (st4, f) ->
    exists f', qtail used d fa ty name i me st1 b' = Ok (st4, f') /\ sem_eq f f'.
  Proof.
    intros used d fa ty name i me st1 b b' st4 f Hb H. unfold qtail in *.
    destruct (match name with Some n => _ | None => _ end) as [[st3 v]|e]; [|discriminate]. cbn [bind] in *.
    destruct (match i with InDefault => _ | InName n => _ | InType t => _ end) as [[st4' w]|e]; [|discriminate]. cbn [bind] in *.
    destruct (match me with Some l => _ | None => _ end) as [m|e]; [|discriminate]. cbn [bind] in *.
    inversion H; subst. eexists. split; [reflexivity|].
    intros rho. destruct fa; simpl.
    - apply forallb_ext_in'. intros asg. apply Hb.
    - apply existsb_ext_in'. intros asg. apply Hb.
  Qed.

  Ltac bin_case IHa IHb used d st H st2 f :=
    let st1 := fresh "st1" in let a' := fresh "a'" in let b' := fresh "b'" in
    let Ea := fresh "Ea" in let Eb := fresh "Eb" in
    let a2 := fresh "a2" in let b2 := fresh "b2" in let Da := fresh "Da" in let Db := fresh "Db" in
    let Sa := fresh "Sa" in let Sb := fresh "Sb" in
    simpl in H;
    destruct (walk used d st _) as [[st1 a']|?] eqn:Ea; [|discriminate]; cbn [bind] in H;
    destruct (walk used d st1 _) as [[? b']|?] eqn:Eb; [|discriminate]; cbn [bind] in H;
    inversion H; subst;
    destruct (IHa _ _ _ _ _ Ea) as [a2 [Da Sa]]; destruct (IHb _ _ _ _ _ Eb) as [b2 [Db Sb]];
    simpl; rewrite Da; cbn [bind]; rewrite Db; cbn [bind]; eexists; split; [reflexivity|].

  Theorem walk_equiv : forall s used d st st' f,
    walk used d st s = Ok (st', f) -> exists f', walk_doc used d st s = Ok (st', f') /\ sem_eq f f'.
  Proof.
    induction s as [smt id ts|a IHa|a IHa b IHb|a IHa b IHb|a IHa b IHb|a IHa b IHb|a IHa b IHb|fa ty name i me body IH|fa n body IH];
      intros used d st st' f H.
    - exists f. split; [exact H|intros rho; reflexivity].
    - simpl in H. destruct (walk used d st a) as [[st1 a']|e] eqn:Ea; [|discriminate]. cbn [bind] in H.
      inversion H; subst. destruct (IHa _ _ _ _ _ Ea) as [a2 [Da Sa]]. simpl. rewrite Da. cbn [bind].
      eexists. split; [reflexivity|]. intros rho. rewrite (f_neg_sound D aev pev dom idom tval dom_ext). simpl. rewrite (Sa rho). reflexivity.
    - bin_case IHa IHb used d st H st' f.
      intros rho. rewrite (f_and_sound D aev pev dom idom tval dom_ext). simpl. rewrite (Sa rho), (Sb rho), andb_true_r. reflexivity.
    - bin_case IHa IHb used d st H st' f.
      intros rho. rewrite (f_or_sound D aev pev dom idom tval dom_ext). simpl. rewrite (Sa rho), (Sb rho), orb_false_r. reflexivity.
    - bin_case IHa IHb used d st H st' f.
      intros rho. destruct (derived_connectives D aev pev dom idom tval dom_ext a' b' rho) as [E _]. rewrite E.
      simpl. rewrite (Sa rho), (Sb rho). destruct (ev rho a2), (ev rho b2); reflexivity.
    - bin_case IHa IHb used d st H st' f.
      intros rho. destruct (derived_connectives D aev pev dom idom tval dom_ext a' b' rho) as [_ [E _]]. rewrite E.
      simpl. rewrite (Sa rho), (Sb rho). destruct (ev rho a2), (ev rho b2); reflexivity.
    - bin_case IHa IHb used d st H st' f.
      intros rho. destruct (derived_connectives D aev pev dom idom tval dom_ext a' b' rho) as [_ [_ E]]. rewrite E.
      simpl. rewrite (Sa rho), (Sb rho). destruct (ev rho a2), (ev rho b2); reflexivity.
    - rewrite walk_SQ in H. destruct (walk used d (qenter used st ty name me) body) as [[st1 b']|e] eqn:Eb; [|discriminate].
      cbn [bind] in H. destruct (IH _ _ _ _ _ Eb) as [b2 [Db Sb]].
      destruct (qtail_equiv _ _ _ _ _ _ _ _ _ _ _ _ Sb H) as [f' [Ef Sf]].
      exists f'. split; [|exact Sf]. simpl. rewrite Db. cbn [bind]. exact Ef.
    - simpl in H. destruct (walk used d st body) as [[st1 b']|e] eqn:Eb; [|discriminate]. cbn [bind] in H.
      destruct (get_var d n) as [v|e] eqn:Ev; [|discriminate]. cbn [bind] in H. inversion H; subst.
      destruct (IH _ _ _ _ _ Eb) as [b2 [Db Sb]]. simpl. rewrite Db. cbn [bind]. rewrite Ev. cbn [bind].
      eexists. split; [reflexivity|]. intros rho. destruct fa; simpl.
      + apply forallb_ext_in'. intros x. apply Sb.
      + apply existsb_ext_in'. intros x. apply Sb.
  Qed.
End WalkSem.
