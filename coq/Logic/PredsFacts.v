(* C04: the model of the structural predicates (Preds.v) meets the declarative
   specification, for all trees and all paths. *)
From ISLA Require Import Tree PathFacts TreeFacts Preds.
From Coq Require Import Sorted Permutation.

(* ------------------------------------------------------------------ *)
(* path-only predicates                                                *)
(* ------------------------------------------------------------------ *)

Lemma is_before_doc_ltb p q : is_before p q = doc_ltb p q.
Proof.
  revert q; induction p as [|a p IH]; intros [|b q]; simpl; try reflexivity.
  all: try (rewrite IH; reflexivity).
Qed.

Lemma before_spec p q : is_before p q = true <-> doc_lt p q.
Proof. rewrite is_before_doc_ltb. apply doc_ltb_spec. Qed.

Lemma after_spec p q : is_after p q = true <-> doc_lt q p.
Proof. unfold is_after. apply before_spec. Qed.

Lemma same_spec p q : is_same_position p q = true <-> p = q.
Proof. apply path_eqb_eq. Qed.

Lemma diff_spec p q : is_different_position p q = true <-> p <> q.
Proof.
  unfold is_different_position, is_same_position. rewrite negb_true_iff. apply path_eqb_neq.
Qed.

Lemma inside_spec p q : in_tree p q = true <-> prefix q p.
Proof. unfold in_tree. rewrite path_eqb_eq. symmetry. apply prefix_firstn. Qed.

Lemma child_spec p q : is_direct_child p q = true <-> exists i, p = q ++ [i].
Proof.
  unfold is_direct_child. destruct (Nat.eqb_spec (length p) (length q + 1)) as [E|E]; simpl.
  - rewrite path_eqb_eq, <- prefix_firstn. split.
    + intros [r ->]. rewrite app_length in E. destruct r as [|i [|j r]]; simpl in E; try lia.
      exists i. reflexivity.
    + intros [i ->]. exists [i]. reflexivity.
  - split; [discriminate|]. intros [i ->]. rewrite app_length in E. simpl in E. lia.
Qed.

(* order-theoretic corollaries: the four relations partition ordered pairs of distinct nodes *)
Corollary before_after_converse p q : is_before p q = is_after q p.
Proof. reflexivity. Qed.

Corollary before_irrefl p : is_before p p = false.
Proof. apply not_true_is_false. rewrite before_spec. apply doc_lt_irrefl. Qed.

Corollary before_trans p q r : is_before p q = true -> is_before q r = true -> is_before p r = true.
Proof. rewrite !before_spec. apply doc_lt_trans. Qed.

Corollary before_excludes_inside p q :
  is_before p q = true -> in_tree p q = false /\ in_tree q p = false /\ is_after p q = false.
Proof.
  rewrite before_spec. intro H. pose proof (doc_lt_not_prefix _ _ H) as [H1 H2].
  repeat split; apply not_true_is_false.
  - rewrite inside_spec. assumption.
  - rewrite inside_spec. assumption.
  - rewrite after_spec. apply doc_lt_asym. assumption.
Qed.

Corollary positions_exhaustive p q :
  in_tree q p = true \/ in_tree p q = true \/ is_before p q = true \/ is_after p q = true.
Proof. rewrite !inside_spec, before_spec, after_spec. apply position_cases. Qed.

(* ------------------------------------------------------------------ *)
(* nth                                                                 *)
(* ------------------------------------------------------------------ *)

(* node_1 is the N-th node, in document (pre-)order, among the nodes inside node_2
   that carry node_1's label *)
Definition nth_spec (t : tree) (n : nat) (p1 p2 : path) : Prop :=
  prefix p2 p1 /\
  exists s1, subtree t p1 = Some s1 /\
  exists l : list path, NoDup l /\ length l = n /\
    forall q, In q l <->
      (prefix p2 q /\ pre_le q p1 /\ exists s, subtree t q = Some s /\ lbl s = lbl s1).

Definition hit (nt : str) (qs : path * tree) : bool := str_eqb (lbl (snd qs)) nt.

Lemma nth_scan_split l1 r s1 l2 nt n idx p2 :
  lbl s1 = nt -> (forall q s, In (q, s) l1 -> q <> r) ->
  nth_scan (l1 ++ (r, s1) :: l2) nt n idx (p2 ++ r) p2
  = Nat.eqb (idx + length (filter (hit nt) l1) + 1) n.
Proof.
  intros Hl. revert idx. induction l1 as [|[q s] l1 IH]; intros idx Hne; simpl.
  - rewrite path_eqb_refl. rewrite Hl, str_eqb_refl. f_equal. lia.
  - assert (Hq : q <> r) by (eapply Hne; left; reflexivity).
    assert (E : path_eqb (p2 ++ q) (p2 ++ r) = false).
    { apply path_eqb_neq. intro E. apply app_inv_head in E. contradiction. }
    rewrite E. unfold hit at 1. simpl.
    destruct (str_eqb (lbl s) nt); simpl.
    + destruct (Nat.leb_spec n (S idx)).
      * symmetry. apply Nat.eqb_neq. lia.
      * rewrite IH by (intros; eapply Hne; right; eauto). f_equal. lia.
    + destruct (Nat.leb_spec n idx).
      * symmetry. apply Nat.eqb_neq. lia.
      * rewrite IH by (intros; eapply Hne; right; eauto). f_equal.
Qed.

Lemma pre_lt_prepend c p q : pre_lt (c ++ p) (c ++ q) <-> pre_lt p q.
Proof. induction c as [|a c IH]; simpl; [reflexivity|]. rewrite pre_lt_cons. assumption. Qed.

Lemma pre_le_prepend c p q : pre_le (c ++ p) (c ++ q) <-> pre_le p q.
Proof.
  unfold pre_le. rewrite pre_lt_prepend. split; intros [H|H]; auto.
  - left. eapply app_inv_head; eauto.
  - left. congruence.
Qed.

Lemma NoDup_map_inj {A B} (f : A -> B) l :
  (forall x y, f x = f y -> x = y) -> NoDup l -> NoDup (map f l).
Proof.
  intros Hinj. induction 1 as [|a l Hn Hd IH]; simpl; constructor; [|assumption].
  intro Hin. apply in_map_iff in Hin as (y & Hy & Hin). apply Hinj in Hy. subst. contradiction.
Qed.

Lemma NoDup_filter {A} (f : A -> bool) l : NoDup l -> NoDup (filter f l).
Proof.
  induction 1 as [|a l Hn Hd IH]; simpl; [constructor|].
  destruct (f a); [constructor|]; auto. intro Hin. apply filter_In in Hin as [Hin _]. contradiction.
Qed.

Lemma NoDup_fst {A B} (l : list (A * B)) : NoDup (map fst l) -> NoDup l.
Proof.
  induction l as [|[a b] l IH]; simpl; intro H; [constructor|]. inversion H; subst.
  constructor; [|auto]. intro Hin. apply H2. apply in_map_iff. exists (a, b). auto.
Qed.

Lemma NoDup_same_length {A} (l l' : list A) :
  NoDup l -> NoDup l' -> (forall x, In x l <-> In x l') -> length l = length l'.
Proof.
  intros H1 H2 H. apply Nat.le_antisymm; apply NoDup_incl_length; try assumption;
    intros x Hx; apply H; assumption.
Qed.

Lemma NoDup_app_l {A} (a b : list A) : NoDup (a ++ b) -> NoDup a.
Proof.
  induction a as [|x a IH]; simpl; intro H; [constructor|]. inversion H; subst.
  constructor; [|auto]. intro Hin. apply H2. apply in_app_iff. auto.
Qed.

Lemma NoDup_map_fst_filter {A B} (f : A * B -> bool) (l : list (A * B)) :
  NoDup (map fst l) -> NoDup (map fst (filter f l)).
Proof.
  induction l as [|[a b] l IH]; simpl; intro H; [constructor|]. inversion H; subst.
  destruct (f (a, b)); simpl; [constructor|]; auto.
  intro Hin. apply H2. apply in_map_iff in Hin as ([a' b'] & E & Hin). simpl in E. subst a'.
  apply filter_In in Hin as [Hin _]. apply in_map_iff. exists (a, b'). auto.
Qed.

(* the witness list used by the model: nodes of the subtree at p2 up to and including r *)
Lemma nth_listing t p2 r s1 s2 l1 l2 :
  subtree t p2 = Some s2 -> nodes s2 = l1 ++ (r, s1) :: l2 ->
  let l := map (app p2) (map fst (filter (hit (lbl s1)) (l1 ++ [(r, s1)]))) in
  NoDup l /\ length l = length (filter (hit (lbl s1)) l1) + 1 /\
  (forall q s, In (q, s) l1 -> q <> r) /\
  forall q, In q l <->
      (prefix p2 q /\ pre_le q (p2 ++ r) /\ exists s, subtree t q = Some s /\ lbl s = lbl s1).
Proof.
  intros H2 Hsplit l.
  assert (Hpos : positions s2 = map fst l1 ++ r :: map fst l2).
  { rewrite positions_nodes, Hsplit, map_app. reflexivity. }
  pose proof (positions_sorted s2) as Hsorted. rewrite Hpos in Hsorted.
  pose proof (positions_NoDup s2) as Hnd. rewrite Hpos in Hnd.
  destruct (sorted_split _ _ _ _ Hsorted) as [Hbefore Hafter].
  assert (Hne : forall q s, In (q, s) l1 -> q <> r).
  { intros q s Hin ->. apply NoDup_remove_2 in Hnd. apply Hnd. apply in_app_iff. left.
    apply in_map_iff. exists (r, s). auto. }
  assert (Hnodes : forall q s, In (q, s) (nodes s2) <-> subtree t (p2 ++ q) = Some s).
  { intros q s. rewrite nodes_spec, subtree_app, H2. reflexivity. }
  split; [|split; [|split]].
  - unfold l. apply NoDup_map_inj; [intros x y E; eapply app_inv_head; eauto|].
    apply NoDup_map_fst_filter. rewrite map_app. simpl.
    change (r :: map fst l2) with ([r] ++ map fst l2) in Hnd. rewrite app_assoc in Hnd.
    eapply NoDup_app_l; eauto.
  - unfold l. rewrite !map_length, filter_app, app_length. simpl.
    unfold hit at 2. simpl. rewrite str_eqb_refl. reflexivity.
  - assumption.
  - intro q. unfold l. rewrite in_map_iff. split.
    + intros (q' & <- & Hin). apply in_map_iff in Hin as ([q'' s] & E & Hin). simpl in E. subst q''.
      apply filter_In in Hin as [Hin Hhit]. unfold hit in Hhit. simpl in Hhit. apply str_eqb_eq in Hhit.
      split; [exists q'; reflexivity|]. split.
      * apply pre_le_prepend. apply in_app_iff in Hin as [Hin|[Hin|[]]].
        -- right. apply Hbefore. apply in_map_iff. exists (q', s). auto.
        -- inversion Hin; subst. left. reflexivity.
      * exists s. split; [|assumption]. apply Hnodes. rewrite Hsplit.
        apply in_app_iff in Hin as [Hin|[Hin|[]]]; apply in_app_iff; [left; assumption|right; left; assumption].
    + intros ([q' ->] & Hle & s & Hs & Hlbl). exists q'. split; [reflexivity|].
      apply pre_le_prepend in Hle. apply Hnodes in Hs. rewrite Hsplit in Hs.
      apply in_map_iff. exists (q', s). split; [reflexivity|]. apply filter_In. split.
      * apply in_app_iff in Hs as [Hs|[Hs|Hs]].
        -- apply in_app_iff. left. assumption.
        -- apply in_app_iff. right. left. assumption.
        -- exfalso. assert (Hlt : pre_lt r q').
           { apply Hafter. apply in_map_iff. exists (q', s). auto. }
           destruct Hle as [->|Hle]; [eapply pre_lt_irrefl; eauto|].
           eapply pre_lt_irrefl. eapply pre_lt_trans; eauto.
      * unfold hit. simpl. apply str_eqb_eq. assumption.
Qed.

Theorem nth_correct t n p1 p2 s1 :
  shape_ok t = true -> valid t p2 -> subtree t p1 = Some s1 -> is_nt (lbl s1) = true ->
  (exists b, is_nth t n p1 p2 = Ok b) /\
  (is_nth t n p1 p2 = Ok true <-> nth_spec t n p1 p2).
Proof.
  intros Hshape Hv2 H1 Hnt. unfold is_nth.
  destruct (in_tree p1 p2) eqn:Ein; simpl.
  2:{ split; [eexists; reflexivity|]. split; [discriminate|]. intros [Hpre _].
      apply inside_spec in Hpre. congruence. }
  apply inside_spec in Ein. destruct Ein as [r ->].
  rewrite (py_get_subtree_valid t Hshape _ _ H1). rewrite Hnt. simpl.
  destruct (subtree t p2) as [s2|] eqn:H2; [|exfalso; apply Hv2; assumption].
  rewrite (py_get_subtree_valid t Hshape _ _ H2). unfold py_paths.
  assert (Hin : In (r, s1) (nodes s2)).
  { apply nodes_spec. rewrite subtree_app, H2 in H1. assumption. }
  apply in_split in Hin as (l1 & l2 & Hsplit).
  destruct (nth_listing t p2 r s1 s2 l1 l2 H2 Hsplit) as (Hnd & Hlen & Hne & Hchar).
  pose proof (nth_scan_split l1 r s1 l2 (lbl s1) n 0 p2 eq_refl Hne) as Hscan.
  rewrite Hsplit. unfold path in *. rewrite Hscan. simpl.
  split; [eexists; reflexivity|]. split.
  - intro H. inversion H as [E]. apply Nat.eqb_eq in E.
    split; [exists r; reflexivity|]. exists s1. split; [assumption|].
    eexists. split; [exact Hnd|]. split; [|exact Hchar].
    etransitivity; [exact Hlen | exact E].
  - intros (_ & s1' & H1' & l' & Hnd' & Hlen' & Hchar'). rewrite H1 in H1'. inversion H1'; subst s1'.
    f_equal. apply Nat.eqb_eq. simpl. etransitivity; [symmetry; exact Hlen|].
    etransitivity; [|exact Hlen']. apply NoDup_same_length; try assumption.
    intro q. etransitivity; [apply Hchar|]. symmetry. apply Hchar'.
Qed.

(* ------------------------------------------------------------------ *)
(* consecutive                                                         *)
(* ------------------------------------------------------------------ *)

(* node_1 strictly before node_2 and no leaf of the tree lies strictly between them *)
Definition consecutive_spec (t : tree) (p1 p2 : path) : Prop :=
  doc_lt p1 p2 /\
  forall l s, subtree t l = Some s -> kids s = [] -> ~ (doc_lt p1 l /\ doc_lt l p2).

Lemma lcp_prefix_l p q : prefix (lcp p q) p.
Proof.
  revert q; induction p as [|a p IH]; intros [|b q]; simpl; try apply prefix_nil.
  destruct (Nat.eqb_spec a b); [|apply prefix_nil]. apply prefix_cons. apply IH.
Qed.

Lemma lcp_prefix_r p q : prefix (lcp p q) q.
Proof.
  revert q; induction p as [|a p IH]; intros [|b q]; simpl; try apply prefix_nil.
  destruct (Nat.eqb_spec a b) as [->|]; [|apply prefix_nil]. apply prefix_cons. apply IH.
Qed.

Lemma between_under_lcp p q l : doc_lt p l -> doc_lt l q -> prefix (lcp p q) l.
Proof.
  revert q l; induction p as [|a p IH]; intros q l H1 H2; [apply prefix_nil|].
  destruct q as [|b q]; [apply prefix_nil|]. simpl.
  destruct (Nat.eqb_spec a b) as [->|Hab]; [|apply prefix_nil].
  destruct l as [|c l]; [exfalso; eapply doc_lt_nil_r; eauto|].
  apply doc_lt_cons_inv in H1. apply doc_lt_cons_inv in H2.
  destruct H1 as [H1|[-> H1]], H2 as [H2|[E H2]]; try lia.
  apply prefix_cons. eapply IH; eauto.
Qed.

Lemma py_get_subtree_sound t p s : py_get_subtree t p = Ok (Some s) -> subtree t p = Some s.
Proof.
  revert t; induction p as [|k p IH]; intro t; simpl; [congruence|].
  destruct (opn t); [discriminate|]. destruct (kids t) as [|c0 ks] eqn:Ek; [discriminate|].
  destruct (nth_error (c0 :: ks) k); [apply IH | discriminate].
Qed.

Lemma in_py_leaves s q s' : In (q, s') (py_leaves s) <-> subtree s q = Some s' /\ kids s' = [].
Proof.
  unfold py_leaves, py_paths. rewrite filter_In, nodes_spec. simpl. unfold is_leaf.
  destruct (kids s'); split; intros [H1 H2]; split; auto; discriminate.
Qed.

Theorem consecutive_fixed_correct t p1 p2 :
  shape_ok t = true -> valid t p1 -> valid t p2 ->
  (exists b, consecutive_fixed t p1 p2 = Ok b) /\
  (consecutive_fixed t p1 p2 = Ok true <-> consecutive_spec t p1 p2).
Proof.
  intros Hshape Hv1 Hv2. unfold consecutive_fixed, consecutive_gen, consecutive_spec.
  destruct (path_eqb p1 p2) eqn:Eeq; simpl.
  { apply path_eqb_eq in Eeq. subst p2. split; [eexists; reflexivity|]. split; [discriminate|].
    intros [H _]. exfalso. eapply doc_lt_irrefl; eauto. }
  destruct (is_before p1 p2) eqn:Eb; simpl.
  2:{ split; [eexists; reflexivity|]. split; [discriminate|]. intros [H _].
      apply before_spec in H. congruence. }
  apply before_spec in Eb.
  destruct (lcp_prefix_l p1 p2) as [r1 Hr1].
  assert (Hvc : valid t (lcp p1 p2)). { apply (valid_prefix t _ r1). rewrite <- Hr1. assumption. }
  destruct (subtree t (lcp p1 p2)) as [sc|] eqn:Hc; [|exfalso; apply Hvc; assumption].
  rewrite (py_get_subtree_valid t Hshape _ _ Hc).
  split; [eexists; reflexivity|]. split.
  - intro H. inversion H as [E]. apply negb_true_iff in E. split; [assumption|].
    intros l s Hl Hleaf [Hl1 Hl2].
    destruct (between_under_lcp _ _ _ Hl1 Hl2) as [q ->].
    rewrite subtree_app, Hc in Hl.
    apply not_true_iff_false in E. apply E.
    { apply existsb_exists. exists (q, s). split; [apply in_py_leaves; auto|]. simpl.
      rewrite !andb_true_iff, !negb_true_iff, !path_eqb_neq, !before_spec. repeat split; try assumption.
      - intro E1. rewrite E1 in Hl1. eapply doc_lt_irrefl; eauto.
      - intro E2. rewrite E2 in Hl2. eapply doc_lt_irrefl; eauto. }
  - intros [_ Hno]. f_equal. apply negb_true_iff. apply not_true_is_false. intro Hex.
    apply existsb_exists in Hex as ([q s] & Hin & Hcond). simpl in Hcond.
    rewrite !andb_true_iff, !before_spec in Hcond. destruct Hcond as [[_ Hb1] Hb2].
    apply in_py_leaves in Hin as [Hq Hleaf].
    apply (Hno (lcp p1 p2 ++ q) s); [rewrite subtree_app, Hc; assumption | assumption | auto].
Qed.

(* the code as it is agrees with the repaired form (hence with the spec) whenever the
   two paths have no common prefix other than the root: K_cons_rel p1 p2 = false *)
Lemma consecutive_rel_eq_fixed t p1 p2 :
  K_cons_rel p1 p2 = false -> consecutive t p1 p2 = consecutive_fixed t p1 p2.
Proof.
  unfold K_cons_rel, consecutive, consecutive_fixed, consecutive_gen. intro H.
  destruct (lcp p1 p2) eqn:E; [reflexivity | discriminate].
Qed.

Theorem consecutive_partial t p1 p2 :
  K_cons_rel p1 p2 = false ->
  shape_ok t = true -> valid t p1 -> valid t p2 ->
  (exists b, consecutive t p1 p2 = Ok b) /\
  (consecutive t p1 p2 = Ok true <-> consecutive_spec t p1 p2).
Proof.
  intros HK Hs H1 H2. rewrite (consecutive_rel_eq_fixed t p1 p2 HK).
  apply consecutive_fixed_correct; assumption.
Qed.

(* ------------------------------------------------------------------ *)
(* level                                                               *)
(* ------------------------------------------------------------------ *)

Definition labelled (t : tree) (nt : str) (p : path) : Prop :=
  exists s, subtree t p = Some s /\ lbl s = nt.

(* a node labelled nt strictly between the scope node c and the node p itself *)
Definition occ (t : tree) (nt : str) (c p : path) : Prop :=
  exists k, length c < k /\ k < length p /\ labelled t nt (firstn k p).

(* admissible scopes: the whole tree (empty prefix), or a common ancestor-or-self of
   both nodes (other than the root) labelled nt *)
Definition scope (t : tree) (nt : str) (p1 p2 c : path) : Prop :=
  c = [] \/ (c <> [] /\ prefix c p1 /\ prefix c p2 /\ labelled t nt c).

Definition level_rel (op : lvl_op) (o1 o2 : Prop) : Prop :=
  match op with
  | EQ => ~ o1 /\ ~ o2
  | GE => ~ o1
  | LE => ~ o2
  | GT => ~ o1 /\ o2
  | LT => ~ o2 /\ o1
  end.

Definition level_spec (t : tree) (op : lvl_op) (nt : str) (p1 p2 : path) : Prop :=
  exists c, scope t nt p1 p2 c /\ level_rel op (occ t nt c p1) (occ t nt c p2).

Lemma has_lbl_spec t nt p : shape_ok t = true -> (has_lbl t nt p = true <-> labelled t nt p).
Proof.
  intro Hs. unfold has_lbl, lbl_at, labelled. split.
  - destruct (py_get_subtree t p) as [[s|]|] eqn:E; try discriminate.
    intro H. apply str_eqb_eq in H. exists s. split; [apply py_get_subtree_sound; assumption | assumption].
  - intros (s & H & Hl). rewrite (py_get_subtree_valid t Hs _ _ H). apply str_eqb_eq. assumption.
Qed.

Lemma common_prefixes_spec t nt acc p q c :
  In c (common_prefixes_from t nt acc p q) <->
  exists c', c = acc ++ c' /\ c' <> [] /\ prefix c' p /\ prefix c' q /\ has_lbl t nt c = true.
Proof.
  revert acc q; induction p as [|a p IH]; intros acc q.
  - simpl. split; [contradiction|]. intros (c' & _ & Hne & [r Hr] & _).
    destruct c'; [contradiction|discriminate].
  - destruct q as [|b q].
    + simpl. split; [contradiction|]. intros (c' & _ & Hne & _ & [r Hr] & _).
      destruct c'; [contradiction|discriminate].
    + simpl. destruct (Nat.eqb_spec a b) as [->|Hab].
      * rewrite in_app_iff, IH. split.
        -- intros [H|(c' & -> & Hne & Hp & Hq & Hl)].
           ++ destruct (has_lbl t nt (acc ++ [b])) eqn:E; [|contradiction].
              destruct H as [<-|[]]. exists [b]. repeat split; try assumption; try discriminate.
              ** apply prefix_cons. apply prefix_nil.
              ** apply prefix_cons. apply prefix_nil.
           ++ exists (b :: c'). rewrite <- app_assoc in *. simpl in *. repeat split; try assumption; try discriminate.
              ** apply prefix_cons. assumption.
              ** apply prefix_cons. assumption.
        -- intros (c' & -> & Hne & Hp & Hq & Hl). destruct c' as [|x c']; [contradiction|].
           apply prefix_cons_inv in Hp as [<- Hp]. apply prefix_cons_inv in Hq as [_ Hq].
           destruct c' as [|y c'].
           ++ left. rewrite Hl. left. reflexivity.
           ++ right. exists (y :: c'). rewrite <- app_assoc. simpl. repeat split; try assumption. discriminate.
      * split; [contradiction|]. intros (c' & _ & Hne & Hp & Hq & _).
        destruct c' as [|x c']; [contradiction|].
        apply prefix_cons_inv in Hp as [<- _]. apply prefix_cons_inv in Hq as [<- _]. contradiction.
Qed.

Lemma occs_spec t nt c p : shape_ok t = true ->
  (nonempty (occs t nt c p) = true <-> occ t nt c p).
Proof.
  intro Hs. unfold occ. split.
  - destruct (occs t nt c p) as [|x l] eqn:E; [discriminate|]. intros _.
    assert (Hin : In x (occs t nt c p)) by (rewrite E; left; reflexivity).
    unfold occs in Hin. apply filter_In in Hin as [Hin Hl]. apply in_map_iff in Hin as (k & <- & Hk).
    apply in_seq in Hk. exists k. repeat split; try lia. apply has_lbl_spec; assumption.
  - intros (k & Hk1 & Hk2 & Hl).
    assert (Hin : In (firstn k p) (occs t nt c p)).
    { unfold occs. apply filter_In. split; [|apply has_lbl_spec; assumption].
      apply in_map_iff. exists k. split; [reflexivity|]. apply in_seq. lia. }
    destruct (occs t nt c p); [contradiction|reflexivity].
Qed.

Lemma level_one_spec op (b1 b2 : bool) (o1 o2 : Prop) :
  (b1 = true <-> o1) -> (b2 = true <-> o2) -> (level_one op b1 b2 = true <-> level_rel op o1 o2).
Proof.
  intros H1 H2. destruct op; simpl; rewrite ?andb_true_iff, ?negb_true_iff;
    destruct b1, b2; intuition congruence.
Qed.

Theorem level_correct t op nt p1 p2 :
  shape_ok t = true -> (level_check t op nt p1 p2 = true <-> level_spec t op nt p1 p2).
Proof.
  intro Hs. unfold level_check, level_spec. rewrite existsb_exists. split.
  - intros (c & Hin & Hrel). exists c. split.
    + destruct Hin as [<-|Hin]; [left; reflexivity|]. right.
      apply common_prefixes_spec in Hin as (c' & -> & Hne & Hp & Hq & Hl). simpl in *.
      repeat split; try assumption. apply has_lbl_spec; assumption.
    + eapply level_one_spec; [apply occs_spec; assumption | apply occs_spec; assumption | exact Hrel].
  - intros (c & Hscope & Hrel). exists c. split.
    + destruct Hscope as [->|(Hne & Hp & Hq & Hl)]; [left; reflexivity|]. right.
      apply common_prefixes_spec. exists c. simpl. repeat split; try assumption. apply has_lbl_spec; assumption.
    + eapply level_one_spec; [apply occs_spec; assumption | apply occs_spec; assumption | exact Hrel].
Qed.

(* non-vacuity: a concrete tree on which the hypotheses hold and the predicates are non-constant *)
Definition ex_tree : tree :=
  Node [60;114;62]%N 0 false
    [ Node [60;97;62]%N 1 false [Node [112]%N 2 false []];
      Node [60;98;62]%N 3 false [Node [120]%N 4 false []; Node [60;97;62]%N 5 false [Node [121]%N 6 false []];
                                Node [122]%N 7 false []] ].

Example ex_tree_hyps :
  shape_ok ex_tree = true /\ valid ex_tree [1;1;0] /\ valid ex_tree [1] /\
  is_nth ex_tree 2 [1;1] [] = Ok true /\ is_nth ex_tree 1 [1;1] [] = Ok false /\
  consecutive_fixed ex_tree [1;0] [1;1;0] = Ok true /\ consecutive_fixed ex_tree [1;0] [1;2] = Ok false /\
  consecutive ex_tree [0;0] [1;0] = Ok true /\ K_cons_rel [0;0] [1;0] = false /\
  level_check ex_tree EQ [60;97;62]%N [1;0] [1;2] = true /\
  level_check ex_tree EQ [60;97;62]%N [1;0] [1;1;0] = false /\
  is_after [1;0] [1] = false.
Proof. repeat split; try reflexivity; unfold valid; simpl; discriminate. Qed.

(* the full statement is false of the code as it is: x, y, z siblings below a non-root node *)
Definition cons_witness : tree :=
  Node [60;114;62]%N 0 false
    [ Node [60;97;62]%N 1 false [Node [112]%N 2 false []];
      Node [60;98;62]%N 3 false [Node [120]%N 4 false []; Node [121]%N 5 false []; Node [122]%N 6 false []] ].

Lemma consecutive_refuted :
  exists t p1 p2, shape_ok t = true /\ valid t p1 /\ valid t p2 /\ K_cons_rel p1 p2 = true /\
                  consecutive t p1 p2 = Ok true /\ ~ consecutive_spec t p1 p2.
Proof.
  exists cons_witness, [1;0], [1;2]. repeat split; try reflexivity; try (unfold valid; simpl; discriminate).
  intros [_ H]. apply (H [1;1] (Node [121]%N 5 false [])); try reflexivity.
  split; apply doc_ltb_spec; reflexivity.
Qed.
