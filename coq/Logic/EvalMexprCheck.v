(* C03, proof extension: executable checkers for the hypotheses of eval_correct_mexpr (the
   harness and the examples evaluate them), their soundness, and the instance of the theorem for
   the concrete atom family; witnesses with real match expressions of the assignment language. *)
From Coq Require Import Lia ZArith Permutation.
From ISLA Require Import Semantics Eval EvalAtoms EvalFacts MatchFacts EvalMexprFacts.

Lemma tree_eqb_true a : forall b, tree_eqb a b = true -> a = b.
Proof.
  induction a as [l i o ks IH] using tree_ind'. intros [l' i' o' ks']. simpl. intro H.
  apply andb_true_iff in H as [H Hk]. apply andb_true_iff in H as [H Ho]. apply andb_true_iff in H as [Hl Hi].
  apply str_eqb_eq in Hl. apply N.eqb_eq in Hi. apply Bool.eqb_prop in Ho. subst. f_equal.
  revert ks' Hk. induction IH as [|k ks Hk' Hks IHks]; intros [|k2 ks2] H; try discriminate; [reflexivity|].
  apply andb_true_iff in H as [H1 H2]. f_equal; [apply Hk'; assumption | apply IHks; assumption].
Qed.

Definition is_someb {B} (o : option B) : bool := match o with Some _ => true | None => false end.
Lemma is_someb_spec {B} (o : option B) : is_someb o = true -> o <> None.
Proof. destruct o; [discriminate | discriminate]. Qed.

Definition inb (v : var) (dom : list var) : bool := existsb (var_eqb v) dom.
Lemma inb_spec v dom : inb v dom = true -> In v dom.
Proof. intro H. apply existsb_exists in H as (w & Hw & E). apply var_eqb_eq in E. subst. assumption. Qed.

Definition fresh_nameb (v : var) (dom : list var) : bool :=
  forallb (fun w => negb (str_eqb (vname w) (vname v))) dom.
Lemma fresh_nameb_spec v dom : fresh_nameb v dom = true -> fresh_name v dom.
Proof.
  intros H w Hw. unfold fresh_nameb in H. rewrite forallb_forall in H. specialize (H w Hw).
  apply negb_true_iff in H. apply str_eqb_neq. assumption.
Qed.

Fixpoint nodup_strb (l : list str) : bool :=
  match l with [] => true | x :: l' => negb (existsb (str_eqb x) l') && nodup_strb l' end.
Lemma nodup_strb_spec l : nodup_strb l = true -> NoDup l.
Proof.
  induction l as [|x l IH]; simpl; intro H; [constructor|].
  apply andb_true_iff in H as [H1 H2]. constructor; [|auto].
  intro Hin. apply negb_true_iff in H1.
  assert (existsb (str_eqb x) l = true) by (apply existsb_exists; exists x; split; [assumption | apply str_eqb_refl]).
  congruence.
Qed.

(* at most one prefix tree of the match expression matches any node of the reference tree *)
Definition mexpr_unambiguousb (ref : tree) (me : mexpr) : bool :=
  forallb (fun qs : path * tree =>
     Nat.leb (length (filter (fun tp : tree * list (var * path) =>
                                is_someb (smatch (fst tp) (snd qs) (snd tp) (fst qs))) (me_trees me))) 1)
    (nodes ref).

Lemma mexpr_unambiguousb_spec ref me : mexpr_unambiguousb ref me = true -> mexpr_unambiguous ref me.
Proof.
  intros H q s tp1 tp2 bs1 bs2 Hs H1 H2 E1 E2. unfold mexpr_unambiguousb in H.
  rewrite forallb_forall in H. specialize (H (q, s) (proj2 (nodes_spec ref q s) Hs)). simpl in H.
  apply Nat.leb_le in H.
  set (L := filter (fun tp : tree * list (var * path) => is_someb (smatch (fst tp) s (snd tp) q)) (me_trees me)) in *.
  assert (I1 : In tp1 L) by (apply filter_In; split; [assumption | rewrite E1; reflexivity]).
  assert (I2 : In tp2 L) by (apply filter_In; split; [assumption | rewrite E2; reflexivity]).
  destruct L as [|x [|y L']]; simpl in H; [contradiction | | lia].
  destruct I1 as [<-|[]]. destruct I2 as [<-|[]]. congruence.
Qed.

Definition mexpr_tree_okb (v : var) (dom : list var) (tp : tree * list (var * path)) : bool :=
  negb (has_closed_nt_leaf (fst tp)) && mtree_okb (fst tp) (snd tp) &&
  nodup_strb (map vname (v :: map fst (snd tp))) &&
  forallb (fun w => fresh_nameb w dom) (map fst (snd tp)).

Lemma mexpr_tree_okb_spec v dom tp : mexpr_tree_okb v dom tp = true -> mexpr_tree_ok v dom tp.
Proof.
  unfold mexpr_tree_okb, mexpr_tree_ok. intro H.
  apply andb_true_iff in H as [H H4]. apply andb_true_iff in H as [H H3]. apply andb_true_iff in H as [H1 H2].
  apply negb_true_iff in H1. split; [assumption|]. split; [assumption|].
  split; [apply nodup_strb_spec; assumption|].
  intros w Hw. rewrite forallb_forall in H4. apply fresh_nameb_spec. auto.
Qed.

Section Check.
  Variable ref : tree.

  Definition arg_wfb (dom : list var) (x : parg) : bool :=
    match x with PVar v => inb v dom | PTree t => tree_eqb t ref | PStr _ => false end.
  Definition arg_ntb (x : parg) : bool :=
    match x with PVar v => is_nt (vtype v) | PTree t => is_nt (lbl t) | PStr _ => false end.

  Lemma arg_wfb_spec dom x : arg_wfb dom x = true -> arg_wf ref dom x.
  Proof.
    destruct x as [v|s|t]; simpl; intro H; [apply inb_spec; assumption | discriminate |].
    apply tree_eqb_true. assumption.
  Qed.
  Lemma arg_ntb_spec x : arg_ntb x = true -> arg_nt x.
  Proof. destruct x; simpl; auto. discriminate. Qed.

  Definition spred_wfb (dom : list var) (n : str) (args : list parg) : bool :=
    match args with
    | [a1; a2] => existsb (str_eqb n) names2 && arg_wfb dom a1 && arg_wfb dom a2
    | [a0; a1; a2] =>
        match a0 with
        | PStr k => str_eqb n s_nth && is_someb (parse_dec k) && arg_wfb dom a1 && arg_ntb a1 && arg_wfb dom a2
        | _ => false
        end
    | [a0; a0'; a1; a2] =>
        match a0, a0' with
        | PStr op, PStr nt => str_eqb n s_level && is_someb (lvl_of_str op) && arg_wfb dom a1 && arg_wfb dom a2
        | _, _ => false
        end
    | _ => false
    end.

  Lemma spred_wfb_spec dom n args : spred_wfb dom n args = true -> spred_wf ref dom n args.
  Proof.
    unfold spred_wfb, spred_wf.
    destruct args as [|a0 [|a1 [|a2 [|a3 [|a4 r]]]]]; try discriminate.
    - intro H. apply andb_true_iff in H as [H H3]. apply andb_true_iff in H as [H1 H2].
      apply existsb_exists in H1 as (x & Hx & E). apply str_eqb_eq in E. subst x.
      repeat split; [assumption | apply arg_wfb_spec; assumption | apply arg_wfb_spec; assumption].
    - destruct a0 as [v|k|t]; try discriminate. intro H.
      apply andb_true_iff in H as [H H5]. apply andb_true_iff in H as [H H4].
      apply andb_true_iff in H as [H H3]. apply andb_true_iff in H as [H1 H2].
      apply str_eqb_eq in H1. apply is_someb_spec in H2.
      repeat split; auto using arg_wfb_spec, arg_ntb_spec.
    - destruct a0 as [v|op|t]; try discriminate. destruct a1 as [v|nt|t]; try discriminate. intro H.
      apply andb_true_iff in H as [H H4]. apply andb_true_iff in H as [H H3]. apply andb_true_iff in H as [H1 H2].
      apply str_eqb_eq in H1. apply is_someb_spec in H2.
      repeat split; auto using arg_wfb_spec.
  Qed.

  Definition sempred_wfb (dom : list var) (n : str) (args : list parg) : bool :=
    match args with
    | [x; PStr needle; PStr num] => str_eqb n s_count && arg_wfb dom x && is_someb (parse_dec num)
    | _ => false
    end.

  Lemma sempred_wfb_spec dom n args : sempred_wfb dom n args = true -> sempred_wf ref dom n args.
  Proof.
    unfold sempred_wfb, sempred_wf.
    destruct args as [|x [|y [|z [|w r]]]]; try discriminate;
      destruct y as [vy|needle|ty]; try discriminate; destruct z as [vz|num|tz]; try discriminate.
    intro H. apply andb_true_iff in H as [H H3]. apply andb_true_iff in H as [H1 H2].
    apply str_eqb_eq in H1. apply is_someb_spec in H3. repeat split; auto using arg_wfb_spec.
  Qed.

  Definition in_wfb (dom : list var) (i : invar) : bool :=
    match i with InVar w => inb w dom | InTree t => tree_eqb t ref end.
  Lemma in_wfb_spec dom i : in_wfb dom i = true -> in_wf ref dom i.
  Proof. destruct i; simpl; intro H; [apply inb_spec; assumption | apply tree_eqb_true; assumption]. Qed.

  (* the guard of eval_correct_mexpr_atoms as a boolean *)
  Fixpoint wfmb (dom : list var) (f : formula atom) {struct f} : bool :=
    match f with
    | FSmt x => forallb (fun v => inb v dom) (atom_free x)
    | FSPred n args => spred_wfb dom n args
    | FSemPred n args => sempred_wfb dom n args
    | FNot g => wfmb dom g
    | FAnd fs | FOr fs => forallb (wfmb dom) fs
    | FForall v i m body | FExists v i m body =>
        in_wfb dom i && fresh_nameb v dom &&
        match m with
        | None => wfmb (v :: dom) body
        | Some me =>
            mexpr_unambiguousb ref me &&
            forallb (fun tp => mexpr_tree_okb v dom tp && wfmb (v :: map fst (snd tp) ++ dom) body) (me_trees me)
        end
    | FForallInt _ _ | FExistsInt _ _ => false
    end.

  Lemma wfmb_spec f : forall dom, wfmb dom f = true -> wfm atom atom_free (fun _ => false) ref dom f.
  Proof.
    induction f as [x|n args|n args|g IH|fs IH|fs IH|v i m body IH|v i m body IH|v body IH|v body IH]
      using formula_ind'; intros dom H; simpl in H; try discriminate.
    - simpl. split; [|reflexivity]. intros v Hv. rewrite forallb_forall in H. apply inb_spec. auto.
    - simpl. apply spred_wfb_spec. assumption.
    - simpl. apply sempred_wfb_spec. assumption.
    - simpl. apply IH. assumption.
    - simpl. induction IH as [|x l Hx Hl IHl]; [exact I|]. simpl in H. apply andb_true_iff in H as [H1 H2].
      split; [apply Hx; assumption | apply IHl; assumption].
    - simpl. induction IH as [|x l Hx Hl IHl]; [exact I|]. simpl in H. apply andb_true_iff in H as [H1 H2].
      split; [apply Hx; assumption | apply IHl; assumption].
    - simpl. apply andb_true_iff in H as [H H3]. apply andb_true_iff in H as [H1 H2].
      split; [apply in_wfb_spec; assumption|]. split; [apply fresh_nameb_spec; assumption|].
      destruct m as [me|]; [|apply IH; assumption].
      apply andb_true_iff in H3 as [Hu Ht]. split; [apply mexpr_unambiguousb_spec; assumption|].
      intros tp Hin. rewrite forallb_forall in Ht. specialize (Ht tp Hin).
      apply andb_true_iff in Ht as [Ht1 Ht2]. split; [apply mexpr_tree_okb_spec; assumption | apply IH; assumption].
    - simpl. apply andb_true_iff in H as [H H3]. apply andb_true_iff in H as [H1 H2].
      split; [apply in_wfb_spec; assumption|]. split; [apply fresh_nameb_spec; assumption|].
      destruct m as [me|]; [|apply IH; assumption].
      apply andb_true_iff in H3 as [Hu Ht]. split; [apply mexpr_unambiguousb_spec; assumption|].
      intros tp Hin. rewrite forallb_forall in Ht. specialize (Ht tp Hin).
      apply andb_true_iff in Ht as [Ht1 Ht2]. split; [apply mexpr_tree_okb_spec; assumption | apply IH; assumption].
  Qed.
End Check.

(* eval_correct_mexpr for the concrete atom family: no premise about SMT atoms is left *)
Corollary eval_correct_mexpr_atoms ref f :
  shape_ok ref = true -> is_openT ref = false -> uniq_ids ref -> narrow ref -> term_leavesb ref = true ->
  wfm atom atom_free (fun _ => false) ref [] f ->
  (m_legacy ref f = Ok TT <-> models atom_denote ref env_empty f) /\
  (m_legacy ref f = Ok FF <-> ~ models atom_denote ref env_empty f) /\
  m_legacy ref f <> Ok UU /\ (forall e, m_legacy ref f <> Raise e).
Proof.
  intros Hs Hc Hu Hn Ht Hwf. unfold m_legacy.
  apply (eval_correct_mexpr_top atom atom_free (fun _ => false) atom_eval no_qmm no_reach no_count_open
           atom_denote ref Hs Hc Hu Hn Ht); [|assumption].
  intros x a b Hinv Hv _. apply atom_sound; assumption.
Qed.

(* all hypotheses as one boolean *)
Definition mexpr_guard (ref : tree) (f : formula atom) : bool :=
  shape_ok ref && negb (is_openT ref) && uniq_idsb ref && narrowb ref && term_leavesb ref && wfmb ref [] f.

Corollary eval_correct_mexpr_guard ref f : mexpr_guard ref f = true ->
  (m_legacy ref f = Ok TT <-> models atom_denote ref env_empty f) /\
  (m_legacy ref f = Ok FF <-> ~ models atom_denote ref env_empty f) /\
  m_legacy ref f <> Ok UU /\ (forall e, m_legacy ref f <> Raise e).
Proof.
  unfold mexpr_guard. intro H.
  apply andb_true_iff in H as [H H6]. apply andb_true_iff in H as [H H5]. apply andb_true_iff in H as [H H4].
  apply andb_true_iff in H as [H H3]. apply andb_true_iff in H as [H1 H2]. apply negb_true_iff in H2.
  apply eval_correct_mexpr_atoms; auto using uniq_idsb_spec, narrowb_spec, wfmb_spec.
Qed.

Lemma mexpr_guard_hyps ref f : mexpr_guard ref f = true ->
  shape_ok ref = true /\ is_openT ref = false /\ uniq_ids ref /\ narrow ref /\ term_leavesb ref = true /\
  wfm atom atom_free (fun _ => false) ref [] f.
Proof.
  unfold mexpr_guard. intro H.
  apply andb_true_iff in H as [H H6]. apply andb_true_iff in H as [H H5]. apply andb_true_iff in H as [H H4].
  apply andb_true_iff in H as [H H3]. apply andb_true_iff in H as [H1 H2]. apply negb_true_iff in H2.
  repeat split; auto using uniq_idsb_spec, narrowb_spec, wfmb_spec.
Qed.

(* ------------------------------------------------------------------ *)
(* witnesses: real match expressions of the assignment language (literals produced from the
   isla objects by the harness encoders; prefix trees = BindExpression.to_tree_prefix)
   M1/M2: forall <assgn> a="{<var> lhs} := {<var> rhs}" in start:
            exists <assgn> d="{<var> l2} := <rhs>" in start: (before(d, a) and (= l2 rhs))
          on "x := 1 ; y := x" (TRUE) and "x := 1 ; y := z" (FALSE)
   M3:    forall <stmt> s="{<assgn> a}[ ; <stmt>]" in start: exists <var> v in a: (= v "x")
          on "x := 1 ; y := x" (TRUE; TWO prefix trees, unambiguous)               *)
(* ------------------------------------------------------------------ *)
Definition M1_tree : tree := (Node [60;115;116;97;114;116;62]%N 17%N false [(Node [60;115;116;109;116;62]%N 16%N false [(Node [60;97;115;115;103;110;62]%N 15%N false [(Node [60;118;97;114;62]%N 14%N false [(Node [120]%N 13%N false [])]); (Node [32;58;61;32]%N 12%N false []); (Node [60;114;104;115;62]%N 11%N false [(Node [60;100;105;103;105;116;62]%N 10%N false [(Node [49]%N 9%N false [])])])]); (Node [32;59;32]%N 8%N false []); (Node [60;115;116;109;116;62]%N 7%N false [(Node [60;97;115;115;103;110;62]%N 6%N false [(Node [60;118;97;114;62]%N 5%N false [(Node [121]%N 4%N false [])]); (Node [32;58;61;32]%N 3%N false []); (Node [60;114;104;115;62]%N 2%N false [(Node [60;118;97;114;62]%N 1%N false [(Node [120]%N 0%N false [])])])])])])]).
Definition M1_formula : formula atom := (FForall (MkVar VBound [97]%N [60;97;115;115;103;110;62]%N) (InTree (Node [60;115;116;97;114;116;62]%N 17%N false [(Node [60;115;116;109;116;62]%N 16%N false [(Node [60;97;115;115;103;110;62]%N 15%N false [(Node [60;118;97;114;62]%N 14%N false [(Node [120]%N 13%N false [])]); (Node [32;58;61;32]%N 12%N false []); (Node [60;114;104;115;62]%N 11%N false [(Node [60;100;105;103;105;116;62]%N 10%N false [(Node [49]%N 9%N false [])])])]); (Node [32;59;32]%N 8%N false []); (Node [60;115;116;109;116;62]%N 7%N false [(Node [60;97;115;115;103;110;62]%N 6%N false [(Node [60;118;97;114;62]%N 5%N false [(Node [121]%N 4%N false [])]); (Node [32;58;61;32]%N 3%N false []); (Node [60;114;104;115;62]%N 2%N false [(Node [60;118;97;114;62]%N 1%N false [(Node [120]%N 0%N false [])])])])])])])) (Some (MkMexpr [(MkVar VBound [108;104;115]%N [60;118;97;114;62]%N); (MkVar VDummy [68;85;77;77;89;95;50]%N [32;58;61;32]%N); (MkVar VBound [114;104;115]%N [60;118;97;114;62]%N)] [((Node [60;97;115;115;103;110;62]%N 104%N false [(Node [60;118;97;114;62]%N 100%N true []); (Node [32;58;61;32]%N 101%N false []); (Node [60;114;104;115;62]%N 103%N false [(Node [60;118;97;114;62]%N 102%N true [])])]), [((MkVar VBound [108;104;115]%N [60;118;97;114;62]%N), [0]%nat); ((MkVar VDummy [68;85;77;77;89;95;49;51]%N [32;58;61;32]%N), [1]%nat); ((MkVar VBound [114;104;115]%N [60;118;97;114;62]%N), [2;0]%nat)])])) (FExists (MkVar VBound [100]%N [60;97;115;115;103;110;62]%N) (InTree (Node [60;115;116;97;114;116;62]%N 17%N false [(Node [60;115;116;109;116;62]%N 16%N false [(Node [60;97;115;115;103;110;62]%N 15%N false [(Node [60;118;97;114;62]%N 14%N false [(Node [120]%N 13%N false [])]); (Node [32;58;61;32]%N 12%N false []); (Node [60;114;104;115;62]%N 11%N false [(Node [60;100;105;103;105;116;62]%N 10%N false [(Node [49]%N 9%N false [])])])]); (Node [32;59;32]%N 8%N false []); (Node [60;115;116;109;116;62]%N 7%N false [(Node [60;97;115;115;103;110;62]%N 6%N false [(Node [60;118;97;114;62]%N 5%N false [(Node [121]%N 4%N false [])]); (Node [32;58;61;32]%N 3%N false []); (Node [60;114;104;115;62]%N 2%N false [(Node [60;118;97;114;62]%N 1%N false [(Node [120]%N 0%N false [])])])])])])])) (Some (MkMexpr [(MkVar VBound [108;50]%N [60;118;97;114;62]%N); (MkVar VDummy [68;85;77;77;89;95;48]%N [32;58;61;32]%N); (MkVar VDummy [68;85;77;77;89;95;49]%N [60;114;104;115;62]%N)] [((Node [60;97;115;115;103;110;62]%N 108%N false [(Node [60;118;97;114;62]%N 105%N true []); (Node [32;58;61;32]%N 106%N false []); (Node [60;114;104;115;62]%N 107%N true [])]), [((MkVar VBound [108;50]%N [60;118;97;114;62]%N), [0]%nat); ((MkVar VDummy [68;85;77;77;89;95;50;52]%N [32;58;61;32]%N), [1]%nat); ((MkVar VDummy [68;85;77;77;89;95;49]%N [60;114;104;115;62]%N), [2]%nat)])])) (FAnd [(FSPred [98;101;102;111;114;101]%N [(PVar (MkVar VBound [100]%N [60;97;115;115;103;110;62]%N)); (PVar (MkVar VBound [97]%N [60;97;115;115;103;110;62]%N))]); (FSmt (AStr false (SVar (MkVar VBound [108;50]%N [60;118;97;114;62]%N)) (SVar (MkVar VBound [114;104;115]%N [60;118;97;114;62]%N))))]))).
(* evaluate: TRUE *)
Definition M2_tree : tree := (Node [60;115;116;97;114;116;62]%N 17%N false [(Node [60;115;116;109;116;62]%N 16%N false [(Node [60;97;115;115;103;110;62]%N 15%N false [(Node [60;118;97;114;62]%N 14%N false [(Node [120]%N 13%N false [])]); (Node [32;58;61;32]%N 12%N false []); (Node [60;114;104;115;62]%N 11%N false [(Node [60;100;105;103;105;116;62]%N 10%N false [(Node [49]%N 9%N false [])])])]); (Node [32;59;32]%N 8%N false []); (Node [60;115;116;109;116;62]%N 7%N false [(Node [60;97;115;115;103;110;62]%N 6%N false [(Node [60;118;97;114;62]%N 5%N false [(Node [121]%N 4%N false [])]); (Node [32;58;61;32]%N 3%N false []); (Node [60;114;104;115;62]%N 2%N false [(Node [60;118;97;114;62]%N 1%N false [(Node [122]%N 0%N false [])])])])])])]).
Definition M2_formula : formula atom := (FForall (MkVar VBound [97]%N [60;97;115;115;103;110;62]%N) (InTree (Node [60;115;116;97;114;116;62]%N 17%N false [(Node [60;115;116;109;116;62]%N 16%N false [(Node [60;97;115;115;103;110;62]%N 15%N false [(Node [60;118;97;114;62]%N 14%N false [(Node [120]%N 13%N false [])]); (Node [32;58;61;32]%N 12%N false []); (Node [60;114;104;115;62]%N 11%N false [(Node [60;100;105;103;105;116;62]%N 10%N false [(Node [49]%N 9%N false [])])])]); (Node [32;59;32]%N 8%N false []); (Node [60;115;116;109;116;62]%N 7%N false [(Node [60;97;115;115;103;110;62]%N 6%N false [(Node [60;118;97;114;62]%N 5%N false [(Node [121]%N 4%N false [])]); (Node [32;58;61;32]%N 3%N false []); (Node [60;114;104;115;62]%N 2%N false [(Node [60;118;97;114;62]%N 1%N false [(Node [122]%N 0%N false [])])])])])])])) (Some (MkMexpr [(MkVar VBound [108;104;115]%N [60;118;97;114;62]%N); (MkVar VDummy [68;85;77;77;89;95;50]%N [32;58;61;32]%N); (MkVar VBound [114;104;115]%N [60;118;97;114;62]%N)] [((Node [60;97;115;115;103;110;62]%N 104%N false [(Node [60;118;97;114;62]%N 100%N true []); (Node [32;58;61;32]%N 101%N false []); (Node [60;114;104;115;62]%N 103%N false [(Node [60;118;97;114;62]%N 102%N true [])])]), [((MkVar VBound [108;104;115]%N [60;118;97;114;62]%N), [0]%nat); ((MkVar VDummy [68;85;77;77;89;95;49;51]%N [32;58;61;32]%N), [1]%nat); ((MkVar VBound [114;104;115]%N [60;118;97;114;62]%N), [2;0]%nat)])])) (FExists (MkVar VBound [100]%N [60;97;115;115;103;110;62]%N) (InTree (Node [60;115;116;97;114;116;62]%N 17%N false [(Node [60;115;116;109;116;62]%N 16%N false [(Node [60;97;115;115;103;110;62]%N 15%N false [(Node [60;118;97;114;62]%N 14%N false [(Node [120]%N 13%N false [])]); (Node [32;58;61;32]%N 12%N false []); (Node [60;114;104;115;62]%N 11%N false [(Node [60;100;105;103;105;116;62]%N 10%N false [(Node [49]%N 9%N false [])])])]); (Node [32;59;32]%N 8%N false []); (Node [60;115;116;109;116;62]%N 7%N false [(Node [60;97;115;115;103;110;62]%N 6%N false [(Node [60;118;97;114;62]%N 5%N false [(Node [121]%N 4%N false [])]); (Node [32;58;61;32]%N 3%N false []); (Node [60;114;104;115;62]%N 2%N false [(Node [60;118;97;114;62]%N 1%N false [(Node [122]%N 0%N false [])])])])])])])) (Some (MkMexpr [(MkVar VBound [108;50]%N [60;118;97;114;62]%N); (MkVar VDummy [68;85;77;77;89;95;48]%N [32;58;61;32]%N); (MkVar VDummy [68;85;77;77;89;95;49]%N [60;114;104;115;62]%N)] [((Node [60;97;115;115;103;110;62]%N 108%N false [(Node [60;118;97;114;62]%N 105%N true []); (Node [32;58;61;32]%N 106%N false []); (Node [60;114;104;115;62]%N 107%N true [])]), [((MkVar VBound [108;50]%N [60;118;97;114;62]%N), [0]%nat); ((MkVar VDummy [68;85;77;77;89;95;50;52]%N [32;58;61;32]%N), [1]%nat); ((MkVar VDummy [68;85;77;77;89;95;49]%N [60;114;104;115;62]%N), [2]%nat)])])) (FAnd [(FSPred [98;101;102;111;114;101]%N [(PVar (MkVar VBound [100]%N [60;97;115;115;103;110;62]%N)); (PVar (MkVar VBound [97]%N [60;97;115;115;103;110;62]%N))]); (FSmt (AStr false (SVar (MkVar VBound [108;50]%N [60;118;97;114;62]%N)) (SVar (MkVar VBound [114;104;115]%N [60;118;97;114;62]%N))))]))).
(* evaluate: FALSE *)
Definition M3_tree : tree := (Node [60;115;116;97;114;116;62]%N 17%N false [(Node [60;115;116;109;116;62]%N 16%N false [(Node [60;97;115;115;103;110;62]%N 15%N false [(Node [60;118;97;114;62]%N 14%N false [(Node [120]%N 13%N false [])]); (Node [32;58;61;32]%N 12%N false []); (Node [60;114;104;115;62]%N 11%N false [(Node [60;100;105;103;105;116;62]%N 10%N false [(Node [49]%N 9%N false [])])])]); (Node [32;59;32]%N 8%N false []); (Node [60;115;116;109;116;62]%N 7%N false [(Node [60;97;115;115;103;110;62]%N 6%N false [(Node [60;118;97;114;62]%N 5%N false [(Node [121]%N 4%N false [])]); (Node [32;58;61;32]%N 3%N false []); (Node [60;114;104;115;62]%N 2%N false [(Node [60;118;97;114;62]%N 1%N false [(Node [120]%N 0%N false [])])])])])])]).
Definition M3_formula : formula atom := (FForall (MkVar VBound [115]%N [60;115;116;109;116;62]%N) (InTree (Node [60;115;116;97;114;116;62]%N 17%N false [(Node [60;115;116;109;116;62]%N 16%N false [(Node [60;97;115;115;103;110;62]%N 15%N false [(Node [60;118;97;114;62]%N 14%N false [(Node [120]%N 13%N false [])]); (Node [32;58;61;32]%N 12%N false []); (Node [60;114;104;115;62]%N 11%N false [(Node [60;100;105;103;105;116;62]%N 10%N false [(Node [49]%N 9%N false [])])])]); (Node [32;59;32]%N 8%N false []); (Node [60;115;116;109;116;62]%N 7%N false [(Node [60;97;115;115;103;110;62]%N 6%N false [(Node [60;118;97;114;62]%N 5%N false [(Node [121]%N 4%N false [])]); (Node [32;58;61;32]%N 3%N false []); (Node [60;114;104;115;62]%N 2%N false [(Node [60;118;97;114;62]%N 1%N false [(Node [120]%N 0%N false [])])])])])])])) (Some (MkMexpr [(MkVar VBound [97]%N [60;97;115;115;103;110;62]%N); (MkVar VDummy [68;85;77;77;89;95;48]%N [32;59;32]%N); (MkVar VDummy [68;85;77;77;89;95;49]%N [60;115;116;109;116;62]%N)] [((Node [60;115;116;109;116;62]%N 285%N false [(Node [60;97;115;115;103;110;62]%N 284%N true [])]), [((MkVar VBound [97]%N [60;97;115;115;103;110;62]%N), [0]%nat)]); ((Node [60;115;116;109;116;62]%N 289%N false [(Node [60;97;115;115;103;110;62]%N 286%N true []); (Node [32;59;32]%N 287%N false []); (Node [60;115;116;109;116;62]%N 288%N true [])]), [((MkVar VBound [97]%N [60;97;115;115;103;110;62]%N), [0]%nat); ((MkVar VDummy [68;85;77;77;89;95;49;49]%N [32;59;32]%N), [1]%nat); ((MkVar VDummy [68;85;77;77;89;95;49]%N [60;115;116;109;116;62]%N), [2]%nat)])])) (FExists (MkVar VBound [118]%N [60;118;97;114;62]%N) (InVar (MkVar VBound [97]%N [60;97;115;115;103;110;62]%N)) None (FSmt (AStr false (SVar (MkVar VBound [118]%N [60;118;97;114;62]%N)) (SLit [120]%N))))).
(* evaluate: TRUE *)

Example eval_correct_mexpr_example :
  (shape_ok M1_tree = true /\ is_openT M1_tree = false /\ uniq_ids M1_tree /\ narrow M1_tree /\
   term_leavesb M1_tree = true /\ wfm atom atom_free (fun _ => false) M1_tree [] M1_formula) /\
  m_legacy M1_tree M1_formula = Ok TT /\
  mexpr_guard M2_tree M2_formula = true /\ m_legacy M2_tree M2_formula = Ok FF /\
  mexpr_guard M3_tree M3_formula = true /\ m_legacy M3_tree M3_formula = Ok TT.
Proof.
  split; [apply mexpr_guard_hyps; vm_compute; reflexivity|].
  repeat split; vm_compute; reflexivity.
Qed.

(* the prefix tree of "{<var> lhs} := {<var> rhs}" and the node "y := x" of M1_tree *)
Definition M1_tp : tree * list (var * path) :=
  match M1_formula with
  | FForall _ _ (Some me) _ => hd (Node [] 0%N false [], []) (me_trees me)
  | _ => (Node [] 0%N false [], [])
  end.

Example py_match_example :
  exists t r, subtree M1_tree [0; 2; 0] = Some t /\
    has_closed_nt_leaf (fst M1_tp) = false /\ mtree_okb (fst M1_tp) (snd M1_tp) = true /\
    NoDup (map fst (snd M1_tp)) /\ regb t = true /\
    py_match (fst M1_tp) t (snd M1_tp) [] = Ok (Some r) /\
    smatch (fst M1_tp) t (snd M1_tp) [] = Some (strip r) /\ length r = 3.
Proof.
  eexists. eexists. split; [vm_compute; reflexivity|].
  split; [vm_compute; reflexivity|]. split; [vm_compute; reflexivity|].
  split; [apply (NoDup_map_inv vname); apply nodup_strb_spec; vm_compute; reflexivity|].
  split; [vm_compute; reflexivity|]. split; [vm_compute; reflexivity|].
  split; vm_compute; reflexivity.
Qed.

(* the guard rejects the witnesses of the known class K_mexpr_eps_shape (closed nonterminal
   leaf in the prefix tree), on both tree shapes *)
Example mexpr_eps_shape_rejected :
  K_mexpr_eps_shape W3_formula = true /\ K_mexpr_eps_shape W3p_formula = true /\
  mexpr_guard W3_tree W3_formula = false /\ mexpr_guard W3p_tree W3p_formula = false /\
  wfmb W3_tree [] W3_formula = false /\ wfmb W3p_tree [] W3p_formula = false.
Proof. repeat split; vm_compute; reflexivity. Qed.

(* ------------------------------------------------------------------ *)
(* the hypothesis mexpr_unambiguous cannot be dropped (for the MODEL, whose prefix trees are
   inputs): a hand-made set of two well-formed prefix trees for <assgn> that both match
   "y := x" and bind l differently — T1 binds l to the left-hand side, T2 to the variable on the
   right-hand side.  BindExpression.match takes the first (l = y): `exists ...: (= l "x")` is FF;
   the specification ranges over both: true.  Every other hypothesis holds.
   NOT a finding: no match expression was found for which to_tree_prefix returns such a set. *)
(* ------------------------------------------------------------------ *)
Definition A_var : str := [60;118;97;114;62]%N.
Definition A_assgn : str := [60;97;115;115;103;110;62]%N.
Definition A_rhs : str := [60;114;104;115;62]%N.
Definition A_sep : str := [32;58;61;32]%N.
Definition A_l : var := MkVar VBound [108]%N A_var.
Definition A_a : var := MkVar VBound [97]%N A_assgn.
Definition A_T1 : tree * list (var * path) :=
  (Node A_assgn 100%N false [Node A_var 101%N true []; Node A_sep 102%N false []; Node A_rhs 103%N true []],
   [(A_l, [0]); (MkVar VDummy [68;49]%N A_sep, [1]); (MkVar VDummy [68;50]%N A_rhs, [2])]).
Definition A_T2 : tree * list (var * path) :=
  (Node A_assgn 104%N false [Node A_var 105%N true []; Node A_sep 106%N false [];
                             Node A_rhs 107%N false [Node A_var 108%N true []]],
   [(MkVar VDummy [68;51]%N A_var, [0]); (MkVar VDummy [68;52]%N A_sep, [1]); (A_l, [2; 0])]).
Definition A_me : mexpr := MkMexpr [A_l] [A_T1; A_T2].
Definition A_formula : formula atom :=
  FExists A_a (InTree W2_tree) (Some A_me) (FSmt (AStr false (SVar A_l) (SLit [120]%N))).

Theorem eval_mexpr_ambiguous_refuted :
  shape_ok W2_tree = true /\ is_openT W2_tree = false /\ uniq_ids W2_tree /\ narrow W2_tree /\
  term_leavesb W2_tree = true /\
  mexpr_tree_ok A_a [] A_T1 /\ mexpr_tree_ok A_a [] A_T2 /\
  wfm atom atom_free (fun _ => false) W2_tree (A_a :: map fst (snd A_T1)) (FSmt (AStr false (SVar A_l) (SLit [120]%N))) /\
  wfm atom atom_free (fun _ => false) W2_tree (A_a :: map fst (snd A_T2)) (FSmt (AStr false (SVar A_l) (SLit [120]%N))) /\
  ~ mexpr_unambiguous W2_tree A_me /\
  m_legacy W2_tree A_formula = Ok FF /\ models atom_denote W2_tree env_empty A_formula.
Proof.
  split; [reflexivity|]. split; [reflexivity|].
  split; [apply uniq_idsb_spec; vm_compute; reflexivity|].
  split; [apply narrowb_spec; vm_compute; reflexivity|].
  split; [vm_compute; reflexivity|].
  split; [apply mexpr_tree_okb_spec; vm_compute; reflexivity|].
  split; [apply mexpr_tree_okb_spec; vm_compute; reflexivity|].
  split; [apply wfmb_spec; vm_compute; reflexivity|].
  split; [apply wfmb_spec; vm_compute; reflexivity|].
  split.
  { intro H.
    specialize (H [0; 0] (Node A_assgn 68%N false
                            [Node A_var 67%N false [Node [121]%N 66%N false []]; Node A_sep 65%N false [];
                             Node A_rhs 64%N false [Node A_var 63%N false [Node [120]%N 62%N false []]]])
                  A_T1 A_T2 _ _ eq_refl (or_introl eq_refl) (or_intror (or_introl eq_refl)) eq_refl eq_refl).
    vm_compute in H. discriminate. }
  split; [vm_compute; reflexivity|].
  apply (satb_spec atom atom_denote W2_tree atom_dec atom_dec_spec 0 A_formula eq_refl eq_refl env_empty).
  vm_compute. reflexivity.
Qed.
