(* C06 (proof extension, part 2) — on a CLOSED reference tree the evaluation of a well-scoped formula
   of the fragment returns (does not raise): this discharges the "evaluation on the completion
   returns" premise of verdict_stable_quant for well-scoped formulas in which the constant occurs. *)
From ISLA Require Import Eval3 EvalFacts GrammarFacts FuzzFacts PathFacts TreeFacts Eval3Facts Eval3Compl Eval3Stable.
From Coq Require Import Lia ZArith.

Definition in_dom (dom : list var) (v : var) : bool := existsb (var_eqb v) dom.

Lemma in_dom_In dom v : in_dom dom v = true <-> In v dom.
Proof.
  unfold in_dom. rewrite existsb_exists. split.
  - intros (w & Hw & E). apply var_eqb_eq in E. subst. assumption.
  - intro H. exists v. split; [assumption | apply var_eqb_refl].
Qed.

(* well-scoped formulas of the fragment; u = the reference tree (only its root id is used: a tree
   argument / in-tree must be the instantiated constant) *)
Section Scoped.
  Variable A : Type.
  Variable u : tree.

  Definition arg_wsb (dom : list var) (x : parg) : bool :=
    match x with PVar v => in_dom dom v | PTree s => N.eqb (tid u) (tid s) | PStr _ => false end.
  Definition in_wsb (dom : list var) (i : invar) : bool :=
    match i with InVar w => in_dom dom w | InTree s => N.eqb (tid u) (tid s) end.
  Definition sp_wsb (dom : list var) (n : str) (args : list parg) : bool :=
    match args with
    | [a1; a2] => path_only n && arg_wsb dom a1 && arg_wsb dom a2
    | [PStr op; PStr nt; a1; a2] =>
        str_eqb n s_level && (match lvl_of_str op with Some _ => true | None => false end)
        && arg_wsb dom a1 && arg_wsb dom a2
    | _ => false
    end.

  Fixpoint wsb (dom : list var) (f : formula A) : bool :=
    match f with
    | FSmt _ => true
    | FSPred n args => sp_wsb dom n args
    | FSemPred _ _ => false
    | FNot h => wsb dom h
    | FAnd fs | FOr fs => forallb (wsb dom) fs
    | FForall v i m b | FExists v i m b =>
        match m with None => in_wsb dom i && wsb (v :: dom) b | Some _ => false end
    | FForallInt _ _ | FExistsInt _ _ => false
    end.
End Scoped.

(* ---- dictionaries ---- *)
Lemma dict_mem_set {B} (d : list (var * B)) k x w :
  dict_mem (dict_set d k x) w = true <-> w = k \/ dict_mem d w = true.
Proof.
  unfold dict_mem. induction d as [|[k0 y] d IH]; simpl.
  - destruct (var_eqb k w) eqn:E; simpl.
    + apply var_eqb_eq in E. subst. split; auto.
    + apply var_eqb_neq in E. split; [discriminate|]. intros [->|H]; [congruence | discriminate].
  - destruct (var_eqb k0 k) eqn:Ek; simpl.
    + apply var_eqb_eq in Ek. subst k0. destruct (var_eqb k w) eqn:E; simpl.
      * apply var_eqb_eq in E. subst. split; auto.
      * apply var_eqb_neq in E. split; [auto|]. intros [->|H]; [congruence | assumption].
    + destruct (var_eqb k0 w) eqn:E; simpl; [split; auto | exact IH].
Qed.

Lemma dict_mem_union {B} (a : list (var * B)) : forall na w,
  dict_mem (dict_union na a) w = true <-> dict_mem na w = true \/ dict_mem a w = true.
Proof.
  unfold dict_union. induction a as [|[k y] a IH]; intros na w; simpl.
  - unfold dict_mem at 3. simpl. split; [auto | intros [H|H]; [assumption | discriminate]].
  - rewrite IH. simpl. rewrite dict_mem_set. unfold dict_mem at 4. simpl.
    destruct (var_eqb k w) eqn:E.
    + apply var_eqb_eq in E. subst. tauto.
    + apply var_eqb_neq in E. fold (dict_mem a w). split; [intros [[->|H]|H]; [congruence | auto | auto] | tauto].
Qed.

Section NoRaise.
  Variable A : Type.
  Variable afree : A -> list var.
  Variable aopen : A -> bool.
  Variable aeval : A -> asg -> res TV.
  Variable qmm : var -> path -> option mexpr -> asg -> path -> bool.
  Variable reach' : str -> str -> bool.
  Variable count_open : tree -> str -> Z -> res TV.
  Variable u : tree.
  Hypothesis Hcl : is_openT u = false.
  Local Notation ev := (eval_legacy A afree aopen aeval qmm reach' count_open u).

  (* every entry is a node of u *)
  Definition nodes_asg (a : asg) : Prop :=
    Forall (fun kv : var * (path * tree) => subtree u (fst (snd kv)) = Some (snd (snd kv))) a.

  (* PREMISE about atoms: the SMT clause returns *)
  Hypothesis Hat : forall x a, exists r, ev (FSmt x) a = Ok r.

  Lemma nodes_asg_set d k x : nodes_asg d -> subtree u (fst x) = Some (snd x) -> nodes_asg (dict_set d k x).
  Proof.
    intros H Hx. induction H as [|[k0 y] d Hy Hd IH]; simpl.
    - constructor; [assumption | constructor].
    - destruct (var_eqb k0 k); constructor; assumption.
  Qed.

  Lemma nodes_asg_union a : nodes_asg a -> forall na, nodes_asg na -> nodes_asg (dict_union na a).
  Proof.
    unfold dict_union. induction 1 as [|[k y] a Hy Ha IH]; intros na Hn; simpl; [assumption|].
    apply IH. apply nodes_asg_set; assumption.
  Qed.

  Lemma asg_ok_nodes a : nodes_asg a -> asg_ok u a = true.
  Proof.
    intro H. unfold asg_ok. apply forallb_forall. intros [k [p s]] Hin. unfold nodes_asg in H.
    rewrite Forall_forall in H. specialize (H _ Hin). simpl in *. rewrite H.
    rewrite (py_get_subtree_valid u (closed_shape_ok u Hcl) p s H), tree_eqb_refl.
    assert (E : existsb (fun ps : path * tree => N.eqb (tid (snd ps)) (tid s)) (nodes u) = true).
    { apply existsb_exists. exists (p, s). split; [apply nodes_spec; assumption | apply N.eqb_refl]. }
    rewrite E. reflexivity.
  Qed.

  Lemma find_root s : N.eqb (tid u) (tid s) = true -> find_by_id u s = Some ([], u).
  Proof. intro E. unfold find_by_id. destruct u as [l i o ks]. simpl in *. rewrite E. reflexivity. Qed.

  Lemma arg_ok dom a x : (forall v, In v dom -> dict_mem a v = true) -> arg_wsb u dom x = true ->
    exists p, arg_inst u a x = Ok (SPath p).
  Proof.
    intros Hd Hx. destruct x as [v|s|s]; simpl in *; [|discriminate|].
    - apply in_dom_In in Hx. specialize (Hd v Hx). unfold dict_mem in Hd.
      destruct (dict_get a v) as [pt|]; [eauto | discriminate].
    - rewrite (find_root s Hx). eauto.
  Qed.

  Lemma collect_ok {B} (F : B -> res TV) xs : (forall x, In x xs -> exists y, F x = Ok y) ->
    exists l, collect (map F xs) = Ok l.
  Proof.
    induction xs as [|x xs IH]; intro H; simpl; [eauto|].
    destruct (H x (or_introl eq_refl)) as (y & ->).
    destruct IH as (l & ->); [intros z Hz; apply H; right; assumption|]. eauto.
  Qed.

  Lemma spred_ok dom a n args : (forall v, In v dom -> dict_mem a v = true) -> sp_wsb u dom n args = true ->
    exists r, eval_spred u a n args = Ok r.
  Proof.
    intros Hd H. unfold sp_wsb in H.
    destruct args as [|x1 [|x2 [|x3 [|x4 [|x5 l]]]]]; try discriminate;
      try (destruct x1; discriminate);
      try (destruct x1 as [?|?|?]; try discriminate; destruct x2 as [?|?|?]; discriminate).
    - assert (H0 : path_only n && arg_wsb u dom x1 && arg_wsb u dom x2 = true)
        by (destruct x1; try exact H; destruct x2; exact H).
      clear H. rename H0 into H.
      apply andb_true_iff in H as [H H2]. apply andb_true_iff in H as [Hn H1].
      destruct (arg_ok dom a x1 Hd H1) as (p & E1). destruct (arg_ok dom a x2 Hd H2) as (q & E2).
      unfold eval_spred. simpl. rewrite E1, E2.
      unfold path_only in Hn. rewrite !orb_true_iff, !str_eqb_eq in Hn.
      destruct Hn as [[[[[->| ->]| ->]| ->]| ->]| ->]; eexists; reflexivity.
    - destruct x1 as [|op|]; try discriminate. destruct x2 as [|nt|]; try discriminate.
      apply andb_true_iff in H as [H H2]. apply andb_true_iff in H as [H H1]. apply andb_true_iff in H as [Hn Ho].
      destruct (arg_ok dom a x3 Hd H1) as (p & E1). destruct (arg_ok dom a x4 Hd H2) as (q & E2).
      apply str_eqb_eq in Hn. subst n.
      unfold eval_spred. simpl. rewrite E1, E2. unfold spred_call. rewrite str_eqb_refl.
      destruct (lvl_of_str op); [eexists; reflexivity | discriminate].
  Qed.

  Lemma quant_ok dom is_forall v i (body : asg -> res TV) a :
    (forall v0, In v0 dom -> dict_mem a v0 = true) -> nodes_asg a -> in_wsb u dom i = true ->
    (forall na, nodes_asg na -> (forall w, In w (v :: dom) -> dict_mem na w = true) -> exists y, body na = Ok y) ->
    exists r, eval_quant qmm u is_forall v i None body a = Ok r.
  Proof.
    intros Hd Ha Hi Hb. unfold eval_quant.
    assert (Hin : exists ip si, (match i with
            | InTree t0 => match find_by_id u t0 with Some ps => Ok ps | None => Raise StopIter end
            | InVar w => match dict_get a w with Some pt => Ok pt | None => Raise AssertErr end
            end) = Ok (ip, si)).
    { destruct i as [w|s]; simpl in Hi.
      - apply in_dom_In in Hi. specialize (Hd w Hi). unfold dict_mem in Hd.
        destruct (dict_get a w) as [[ip si]|]; [eauto | discriminate].
      - rewrite (find_root s Hi). eauto. }
    destruct Hin as (ip & si & ->).
    set (D := filter (fun ps : path * tree => str_eqb (lbl (snd ps)) (vtype v)) (trie_items u ip)).
    assert (Hnews : forall na, In na (map (fun na => dict_union na a) (map (fun ps => [(v, ps)]) D)) ->
              nodes_asg na /\ (forall w, In w (v :: dom) -> dict_mem na w = true)).
    { intros na Hna. apply in_map_iff in Hna as (n0 & <- & Hn0). apply in_map_iff in Hn0 as (ps & <- & Hps). split.
      - apply nodes_asg_union; [assumption|]. constructor; [|constructor]. simpl.
        unfold D in Hps. apply filter_In in Hps as [Hps _]. unfold trie_items in Hps. apply filter_In in Hps as [Hps _].
        destruct ps as [p s]. apply nodes_spec in Hps. exact Hps.
      - intros w Hw. apply dict_mem_union. destruct Hw as [<-|Hw]; [left | right; apply Hd; assumption].
        unfold dict_mem. simpl. rewrite var_eqb_refl. reflexivity. }
    assert (Hok : forallb (asg_ok u) (map (fun na => dict_union na a) (map (fun ps => [(v, ps)]) D)) = true).
    { apply forallb_forall. intros na Hna. apply asg_ok_nodes. apply Hnews. assumption. }
    rewrite Hok. simpl negb. cbv iota.
    destruct (collect_ok body (map (fun na => dict_union na a) (map (fun ps => [(v, ps)]) D))) as (l & El).
    { intros na Hna. destruct (Hnews na Hna) as [H1 H2]. apply Hb; assumption. }
    rewrite El. destruct is_forall; [|eauto].
    destruct (existsb (fun ps : path * tree => qmm v ip None a (fst ps)) (open_leaves u)); eauto.
  Qed.

  Theorem no_raise : forall f dom a, wsb A u dom f = true -> nodes_asg a ->
    (forall v, In v dom -> dict_mem a v = true) -> exists r, ev f a = Ok r.
  Proof.
    induction f as [x|n args|n args|h IH|fs IH|fs IH|v i m b IH|v i m b IH|v b IH|v b IH] using formula_ind';
      intros dom a Hw Ha Hd; simpl in Hw; try discriminate.
    - apply Hat.
    - simpl. eapply spred_ok; eassumption.
    - simpl. destruct (IH dom a Hw Ha Hd) as (y & ->). eauto.
    - simpl. destruct (collect_ok (fun g0 => ev g0 a) fs) as (l & ->); [|eauto].
      intros x Hx. rewrite Forall_forall in IH. rewrite forallb_forall in Hw. eapply IH; eauto.
    - simpl. destruct (collect_ok (fun g0 => ev g0 a) fs) as (l & ->); [|eauto].
      intros x Hx. rewrite Forall_forall in IH. rewrite forallb_forall in Hw. eapply IH; eauto.
    - destruct m; [discriminate|]. apply andb_true_iff in Hw as [Hi Hb]. simpl.
      eapply quant_ok; try eassumption. intros na Hna Hdn. eapply IH; eassumption.
    - destruct m; [discriminate|]. apply andb_true_iff in Hw as [Hi Hb]. simpl.
      eapply quant_ok; try eassumption. intros na Hna Hdn. eapply IH; eassumption.
  Qed.
End NoRaise.

(* ------------------------------------------------------------------ *)
(* atom3: the SMT clause returns; instantiation with a closed tree returns *)
(* ------------------------------------------------------------------ *)
Lemma sterm3_some sub a s :
  (forall v, In v (sterm_vars s) -> dict_mem sub v = true \/ dict_mem a v = true) -> sterm_val3 sub a s <> None.
Proof.
  intro H. destruct s as [v|l]; simpl; [|discriminate].
  destruct (H v (or_introl eq_refl)) as [Hm|Hm]; unfold dict_mem in Hm.
  - destruct (dict_get sub v); [discriminate | discriminate Hm].
  - destruct (dict_get sub v); [discriminate|].
    destruct (dict_get a v) as [pt|] eqn:Eg; [|discriminate]. apply dict_get_In in Eg.
    unfold by_name. destruct (find (fun kv : var * (path * tree) => str_eqb (vname (fst kv)) (vname v)) (rev a)) as [kv|] eqn:F.
    + destruct (is_openT (snd (snd kv))); discriminate.
    + exfalso. apply find_none with (x := (v, pt)) in F; [|apply -> in_rev; assumption].
      simpl in F. rewrite str_eqb_refl in F. discriminate.
Qed.

Lemma smt3_returns qmm reach' count_open u x a :
  exists r, eval_legacy atom3 afree3 aopen3 aeval3 qmm reach' count_open u (FSmt x) a = Ok r.
Proof.
  simpl. destruct (existsb (fun v => negb (dict_mem a v)) (afree3 x) || aopen3 x) eqn:E; [eauto|].
  apply orb_false_iff in E as [E _].
  assert (Hv : forall v, In v (atom_free (a3_base x)) -> dict_mem (a3_subst x) v = true \/ dict_mem a v = true).
  { intros v Hin. destruct (dict_mem (a3_subst x) v) eqn:Es; [auto|]. right.
    assert (Hin' : In v (afree3 x)) by (unfold afree3; apply filter_In; rewrite Es; auto).
    pose proof (existsb_false_In _ _ _ E Hin') as X. simpl in X. apply negb_false_iff in X. exact X. }
  unfold aeval3. destruct (a3_base x) as [neg s1 s2|op s1 n|b]; simpl in Hv.
  - assert (N1 : sterm_val3 (a3_subst x) a s1 <> None).
    { apply sterm3_some. intros v Hin. apply Hv. apply nodup_vars_In. apply in_app_iff. auto. }
    assert (N2 : sterm_val3 (a3_subst x) a s2 <> None).
    { apply sterm3_some. intros v Hin. apply Hv. apply nodup_vars_In. apply in_app_iff. auto. }
    destruct (sterm_val3 (a3_subst x) a s1) as [[u1|]|]; try (exfalso; apply N1; reflexivity);
      destruct (sterm_val3 (a3_subst x) a s2) as [[u2|]|]; try (exfalso; apply N2; reflexivity); eauto.
  - assert (N1 : sterm_val3 (a3_subst x) a s1 <> None).
    { apply sterm3_some. intros v Hin. apply Hv. assumption. }
    destruct (sterm_val3 (a3_subst x) a s1) as [[u1|]|]; try (exfalso; apply N1; reflexivity); eauto.
  - eauto.
Qed.

Lemma nodup_vars_nil l : nodup_vars l = [] -> l = [].
Proof.
  intro H. destruct l as [|v l]; [reflexivity|]. exfalso.
  assert (X : In v (nodup_vars (v :: l))) by (apply nodup_vars_In; left; reflexivity). rewrite H in X. exact X.
Qed.

Lemma sterm_lit_val s : sterm_vars s = [] -> exists l, sterm_val3 [] [] s = Some (Some l).
Proof. destruct s as [v|l]; simpl; [discriminate | eauto]. Qed.

Lemma afree3_nil y : afree3 (MkA3 y []) = atom_free y.
Proof.
  unfold afree3. simpl. induction (atom_free y) as [|v l IH]; simpl; [reflexivity|]. rewrite IH. reflexivity.
Qed.

Lemma ainst3_closed_ok cst u x : is_openT u = false -> exists y, ainst3 cst u x = Ok y.
Proof.
  intro Hcl. unfold ainst3. destruct (negb (existsb (var_eqb cst) (afree3 x))); [eauto|]. rewrite Hcl.
  destruct (a3_subst x) as [|e sub] eqn:Es; [|rewrite andb_false_r; eauto].
  rewrite afree3_nil, andb_true_r.
  match goal with |- context [is_nil (atom_free ?Y)] => set (y := Y) end.
  destruct (atom_free y) as [|v0 l0] eqn:Hf; simpl is_nil; cbv iota; [|eauto].
  unfold aeval3. simpl a3_base. simpl a3_subst. subst y.
  destruct (a3_base x) as [neg s1 s2|op s1 n|b]; simpl in *.
  - apply nodup_vars_nil in Hf. apply app_eq_nil in Hf as [H1 H2].
    destruct (sterm_lit_val _ H1) as (l1 & ->). destruct (sterm_lit_val _ H2) as (l2 & ->).
    destruct (xorb neg (str_eqb l1 l2)); simpl; eauto.
  - destruct (sterm_lit_val _ Hf) as (l1 & ->). destruct (cmp_eval op (Z.of_nat (length l1)) n); simpl; eauto.
  - destruct b; simpl; eauto.
Qed.

(* ------------------------------------------------------------------ *)
(* instantiating the constant keeps well-scopedness                    *)
(* ------------------------------------------------------------------ *)
Lemma sp_wsb_inv u dom n args : sp_wsb u dom n args = true ->
  (exists a1 a2, args = [a1; a2] /\ path_only n = true /\ arg_wsb u dom a1 = true /\ arg_wsb u dom a2 = true) \/
  (exists op nt a1 a2, args = [PStr op; PStr nt; a1; a2] /\ n = s_level /\ lvl_of_str op <> None /\
                       arg_wsb u dom a1 = true /\ arg_wsb u dom a2 = true).
Proof.
  intro H. unfold sp_wsb in H.
  destruct args as [|x1 [|x2 [|x3 [|x4 [|x5 l]]]]]; try discriminate;
    try (destruct x1; discriminate);
    try (destruct x1 as [?|?|?]; try discriminate; destruct x2 as [?|?|?]; discriminate).
  - left. assert (H0 : path_only n && arg_wsb u dom x1 && arg_wsb u dom x2 = true)
      by (destruct x1; try exact H; destruct x2; exact H).
    apply andb_true_iff in H0 as [H0 H2]. apply andb_true_iff in H0 as [Hn H1]. exists x1, x2. auto.
  - right. destruct x1 as [|op|]; try discriminate. destruct x2 as [|nt|]; try discriminate.
    apply andb_true_iff in H as [H H2]. apply andb_true_iff in H as [H H1]. apply andb_true_iff in H as [Hn Ho].
    exists op, nt, x3, x4. apply str_eqb_eq in Hn. repeat split; try assumption.
    destruct (lvl_of_str op); [discriminate | discriminate Ho].
Qed.

Lemma sp_wsb_2 u dom n y1 y2 : sp_wsb u dom n [y1; y2] = path_only n && arg_wsb u dom y1 && arg_wsb u dom y2.
Proof. destruct y1; try reflexivity. destruct y2; reflexivity. Qed.

Section InstWs.
  Variable u : tree.
  Variable cst : var.
  Hypothesis Hcl : is_openT u = false.

  Lemma inst_arg_ws dom1 dom2 x : (forall w, In w dom1 -> w = cst \/ In w dom2) ->
    arg_wsb u dom1 x = true -> arg_wsb u dom2 (inst_arg u cst x) = true.
  Proof.
    intros Hd H. destruct x as [v|s|s]; simpl in *; [|discriminate|assumption].
    destruct (var_eqb v cst) eqn:E; simpl; [apply N.eqb_refl|].
    apply in_dom_In in H. apply in_dom_In. destruct (Hd v H) as [->|H2]; [|assumption].
    rewrite var_eqb_refl in E. discriminate.
  Qed.

  Lemma inst_in_ws dom1 dom2 i : (forall w, In w dom1 -> w = cst \/ In w dom2) ->
    in_wsb u dom1 i = true -> in_wsb u dom2 (inst_in u cst i) = true.
  Proof.
    intros Hd H. destruct i as [v|s]; simpl in *; [|assumption].
    destruct (var_eqb v cst) eqn:E; simpl; [apply N.eqb_refl|].
    apply in_dom_In in H. apply in_dom_In. destruct (Hd v H) as [->|H2]; [|assumption].
    rewrite var_eqb_refl in E. discriminate.
  Qed.

  Lemma inst_ws : forall f dom1 dom2, (forall w, In w dom1 -> w = cst \/ In w dom2) ->
    wsb atom3 u dom1 f = true ->
    exists f2, inst_const atom3 ainst3 u cst f = Ok f2 /\ wsb atom3 u dom2 f2 = true /\ has_numq atom3 f2 = false.
  Proof.
    induction f as [x|n args|n args|h IH|fs IH|fs IH|v i m b IH|v i m b IH|v b IH|v b IH] using formula_ind';
      intros dom1 dom2 Hd Hw; simpl in Hw; try discriminate.
    - simpl. destruct (ainst3_closed_ok cst u x Hcl) as (y & ->). eauto.
    - simpl. eexists. split; [reflexivity|]. split; [|reflexivity]. simpl.
      destruct (sp_wsb_inv u dom1 n args Hw) as [(a1 & a2 & -> & Hn & H1 & H2)|(op & nt & a1 & a2 & -> & -> & Ho & H1 & H2)].
      + simpl map. rewrite sp_wsb_2, Hn, (inst_arg_ws dom1 dom2 a1 Hd H1), (inst_arg_ws dom1 dom2 a2 Hd H2). reflexivity.
      + simpl. rewrite (inst_arg_ws dom1 dom2 a1 Hd H1), (inst_arg_ws dom1 dom2 a2 Hd H2).
        destruct (lvl_of_str op); [reflexivity | contradiction].
    - simpl. destruct (IH dom1 dom2 Hd Hw) as (h2 & -> & H1 & H2). eauto.
    - simpl.
      assert (X : exists l, mapM (inst_const atom3 ainst3 u cst) fs = Ok l /\ forallb (wsb atom3 u dom2) l = true /\
                            existsb (has_numq atom3) l = false).
      { induction IH as [|x fs Hx _ IHl]; simpl; [eauto|]. simpl in Hw. apply andb_true_iff in Hw as [Hwx Hwl].
        destruct (Hx dom1 dom2 Hd Hwx) as (y & -> & Hy1 & Hy2). destruct (IHl Hwl) as (l & -> & Hl1 & Hl2).
        eexists. split; [reflexivity|]. simpl. rewrite Hy1, Hy2, Hl1, Hl2. auto. }
      destruct X as (l & -> & Hl1 & Hl2). eauto.
    - simpl.
      assert (X : exists l, mapM (inst_const atom3 ainst3 u cst) fs = Ok l /\ forallb (wsb atom3 u dom2) l = true /\
                            existsb (has_numq atom3) l = false).
      { induction IH as [|x fs Hx _ IHl]; simpl; [eauto|]. simpl in Hw. apply andb_true_iff in Hw as [Hwx Hwl].
        destruct (Hx dom1 dom2 Hd Hwx) as (y & -> & Hy1 & Hy2). destruct (IHl Hwl) as (l & -> & Hl1 & Hl2).
        eexists. split; [reflexivity|]. simpl. rewrite Hy1, Hy2, Hl1, Hl2. auto. }
      destruct X as (l & -> & Hl1 & Hl2). eauto.
    - destruct m; [discriminate|]. apply andb_true_iff in Hw as [Hi Hb]. simpl.
      destruct (IH (v :: dom1) (v :: dom2)) as (b2 & -> & H1 & H2); [|assumption|].
      { intros w [<-|Hw]; [right; left; reflexivity|]. destruct (Hd w Hw); [left | right; right]; assumption. }
      eexists. split; [reflexivity|]. simpl. rewrite (inst_in_ws dom1 dom2 i Hd Hi), H1. auto.
    - destruct m; [discriminate|]. apply andb_true_iff in Hw as [Hi Hb]. simpl.
      destruct (IH (v :: dom1) (v :: dom2)) as (b2 & -> & H1 & H2); [|assumption|].
      { intros w [<-|Hw]; [right; left; reflexivity|]. destruct (Hd w Hw); [left | right; right]; assumption. }
      eexists. split; [reflexivity|]. simpl. rewrite (inst_in_ws dom1 dom2 i Hd Hi), H1. auto.
  Qed.
End InstWs.

(* well-scoped formulas are in the fragment *)
Lemma wsb_qfrag A u : forall f dom, wsb A u dom f = true -> qfrag A f = true.
Proof.
  induction f as [x|n args|n args|h IH|fs IH|fs IH|v i m b IH|v i m b IH|v b IH|v b IH] using formula_ind';
    intros dom Hw; simpl in Hw |- *; try discriminate; try reflexivity; eauto.
  - unfold okname. destruct (sp_wsb_inv u dom n args Hw) as [(a1 & a2 & _ & -> & _)|(op & nt & a1 & a2 & _ & -> & _)];
      [reflexivity | apply orb_true_r].
  - rewrite forallb_forall in *. rewrite Forall_forall in IH. intros x Hx. eapply IH; eauto.
  - rewrite forallb_forall in *. rewrite Forall_forall in IH. intros x Hx. eapply IH; eauto.
  - destruct m; [discriminate|]. apply andb_true_iff in Hw as [_ Hb]. eauto.
  - destruct m; [discriminate|]. apply andb_true_iff in Hw as [_ Hb]. eauto.
Qed.

(* ------------------------------------------------------------------ *)
(* the evaluation on a closed tree returns; stability without the returns-premise *)
(* ------------------------------------------------------------------ *)
Theorem m3_evaluate_returns g u cst f :
  is_openT u = false -> wsb atom3 u [cst] f = true ->
  existsb (var_eqb cst) (fvars atom3 afree3 f) = true ->
  exists r, m3_evaluate g u cst f = Ok r.
Proof.
  intros Hcl Hw Hfv. unfold m3_evaluate, evaluate. rewrite Hfv.
  destruct (inst_ws u cst Hcl f [cst] []) as (f2 & -> & H1 & H2); [|assumption|].
  { intros w [<-|[]]. left. reflexivity. }
  rewrite H2.
  apply (no_raise atom3 afree3 aopen3 aeval3 (m3_qmm g u) (reachb g) count_open3 u Hcl) with (dom := []).
  - intros x a. apply smt3_returns.
  - assumption.
  - constructor.
  - intros v [].
Qed.

Theorem verdict_stable_quant_ws g t t' cst f v :
  compl g t t' -> is_openT t' = false -> uniq_ids t' -> reach_closedb g = true ->
  wsb atom3 t' [cst] f = true -> existsb (var_eqb cst) (fvars atom3 afree3 f) = true ->
  forallb is_nt (qtypes atom3 f) = true -> K_selfrec_open atom3 g t f = false ->
  m3_evaluate g t cst f = Ok v -> v <> UU -> m3_evaluate g t' cst f = Ok v.
Proof.
  intros Hc Hcl Hu Hrc Hw Hfv Hnt Hk H Hv.
  destruct (m3_evaluate_returns g t' cst f Hcl Hw Hfv) as (v' & H').
  rewrite H'. f_equal.
  eapply (verdict_stable_quant g t t' cst f v v'); try eassumption. eapply wsb_qfrag; eassumption.
Qed.

(* non-vacuity: the two witnesses of Eval3Stable.v are well-scoped and mention the constant *)
Example verdict_stable_quant_ws_example :
  wsb atom3 NTH_t' [W_cst3] QX_f1 = true /\ existsb (var_eqb W_cst3) (fvars atom3 afree3 QX_f1) = true /\
  wsb atom3 NTH_t' [W_cst3] QX_f2 = true /\ existsb (var_eqb W_cst3) (fvars atom3 afree3 QX_f2) = true.
Proof. repeat split; vm_compute; reflexivity. Qed.
